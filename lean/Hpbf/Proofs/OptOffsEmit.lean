/-
Offsets of optimized IR, part 6: the emitting primitives keep `Inv`.

Emission takes entries out of `pending` (never anything else: the `reverse` map, the DFS and the oracle only
decide WHICH entries and in which order) and appends them as `calc` instructions, which have no drift. So
`Inv` is kept, the drift / shift / `subShift` are unchanged (`Keep`), and `pending` only shrinks (`EStep`).
`emit s var` really removes `var` (`SortedK`), hence `emitAll` over all keys leaves `pending` empty — that is
what makes it sound to emit a block with a shift afterwards.
-/
import Hpbf.Proofs.OptOffsMap

namespace Hpbf.OptOffs
open Hpbf Opt Ir
open Hpbf.OptLoop (VarsIn varsIn_iff)

variable {w : Nat}

theorem run_liftM_ok {α : Type} {e : Except String α} {os : Orders} {r : α × Orders} :
    ((liftM e : M α)).run os = .ok r ↔ e = .ok r.1 ∧ r.2 = os := run_monadLift_ok

/-! ### `popComp` -/

theorem popComp_spec (stackLen : Nat) : ∀ (stack : List Int) (s : Rebuild w) (comp : List (Int × Expr w))
    (s' : Rebuild w) (stack' : List Int) (comp' : List (Int × Expr w)),
    popComp stackLen stack s comp = .ok (s', stack', comp') →
    PStep s s' ∧ stack'.length = stackLen ∧ (∀ ve ∈ comp', ve ∈ comp ∨ ve ∈ s.pending) ∧
    (SortedK s.pending → ∀ hd tl, stack = hd :: tl → stack.length ≠ stackLen → mGet s'.pending hd = none) := by
  intro stack
  induction stack with
  | nil =>
    intro s comp s' stack' comp' h
    simp only [popComp] at h
    split at h
    · rename_i h0
      simp only [pure, Except.pure, Except.ok.injEq, Prod.mk.injEq] at h
      obtain ⟨rfl, rfl, rfl⟩ := h
      refine ⟨PStep.refl _, by simpa using h0, fun ve hve => Or.inl hve, fun _ hd tl e => by cases e⟩
    · cases h
  | cons var rest ih =>
    intro s comp s' stack' comp' h
    simp only [popComp] at h
    split at h
    · rename_i h0
      simp only [pure, Except.pure, Except.ok.injEq, Prod.mk.injEq] at h
      obtain ⟨rfl, rfl, rfl⟩ := h
      refine ⟨PStep.refl _, by simpa using h0, fun ve hve => Or.inl hve, ?_⟩
      intro _ hd tl _ hne
      exact absurd (by simpa using h0) hne
    · have hp := removePending_pstep s var
      have hsnd := removePending_snd s var
      split at h
      · rename_i s1 expr heq
        have e1 : (removePending s var).1 = s1 := by rw [heq]
        have e2 : mGet s.pending var = some expr := by rw [← hsnd, heq]
        rw [e1] at hp
        obtain ⟨a, b, c, d⟩ := ih s1 _ s' stack' comp' h
        refine ⟨hp.trans a, b, ?_, ?_⟩
        · intro ve hve
          rcases c ve hve with h1 | h1
          · rcases List.mem_append.1 h1 with h2 | h2
            · exact Or.inl h2
            · simp only [List.mem_singleton] at h2
              subst h2; exact Or.inr (mem_of_mGet e2)
          · exact Or.inr (hp.sub.subset h1)
        · intro hs hd tl e _
          simp only [List.cons.injEq] at e
          obtain ⟨rfl, rfl⟩ := e
          have := removePending_gone hs var
          rw [e1] at this
          exact mGet_none_of_sublist a.sub this
      · rename_i s1 heq
        have e1 : (removePending s var).1 = s1 := by rw [heq]
        rw [e1] at hp
        obtain ⟨a, b, c, d⟩ := ih s1 _ s' stack' comp' h
        refine ⟨hp.trans a, b, ?_, ?_⟩
        · intro ve hve
          rcases c ve hve with h1 | h1
          · exact Or.inl h1
          · exact Or.inr (hp.sub.subset h1)
        · intro hs hd tl e _
          simp only [List.cons.injEq] at e
          obtain ⟨rfl, rfl⟩ := e
          have := removePending_gone hs var
          rw [e1] at this
          exact mGet_none_of_sublist a.sub this

/-! ### the DFS -/

/-- The tail of `gatherToEmitDfs` after the children have been visited. -/
def dfsTail (var : Int) (stackLen curIndex : Nat) (d : Dfs w) (low : Nat) : M (Dfs w × Nat) := do
    let d := { d with stack := var :: d.stack }
    if low == curIndex then
      let (s', stack', comp) ← popComp stackLen d.stack d.s []
      pure ({ d with s := s', stack := stack',
                     comps := if comp.isEmpty then d.comps else d.comps ++ [comp] }, low)
    else pure (d, low)

theorem dfs_unfold (fuel : Nat) (d : Dfs w) (var : Int) :
    gatherToEmitDfs (fuel + 1) d var =
      (do
        let d0 : Dfs w := { d with index := d.index + 1, visited := mSet d.visited var d.index }
        let (d1, low) ←
          (match mGet d.s.reverse var with
          | none => pure (d0, d.index)
          | some next => do
            let order ← takeOrder var next
            order.foldlM (fun (acc : Dfs w × Nat) n =>
              match mGet acc.1.visited n with
              | some v => pure (acc.1, min acc.2 v)
              | none => do
                let (d', reached) ← gatherToEmitDfs fuel acc.1 n
                pure (d', min acc.2 reached)) (d0, d.index) : M (Dfs w × Nat))
        dfsTail var d.stack.length d.index d1 low) := by
  rw [gatherToEmitDfs]
  simp only [dfsTail]
  cases mGet d.s.reverse var with
  | none => rfl
  | some next =>
    dsimp only
    simp only [bind_assoc]
    rfl

structure DfsRes (d d' : Dfs w) : Prop where
  step : PStep d.s d'.s
  comps : ∀ c ∈ d'.comps, c ∈ d.comps ∨ ∀ ve ∈ c, ve ∈ d.s.pending
  stack : d.stack.length ≤ d'.stack.length

theorem DfsRes.refl (d : Dfs w) : DfsRes d d := ⟨PStep.refl _, fun _ h => Or.inl h, Nat.le_refl _⟩

theorem DfsRes.trans {a b c : Dfs w} (h1 : DfsRes a b) (h2 : DfsRes b c) : DfsRes a c := by
  refine ⟨h1.step.trans h2.step, ?_, Nat.le_trans h1.stack h2.stack⟩
  intro x hx
  rcases h2.comps x hx with h | h
  · exact h1.comps x h
  · exact Or.inr (fun ve hve => h1.step.sub.subset (h ve hve))

theorem dfsTail_spec {var : Int} {d d1 d' : Dfs w} {low1 low : Nat} {os os' : Orders}
    (hd : DfsRes d d1) (hlow : low1 ≤ d.index)
    (h : (dfsTail var d.stack.length d.index d1 low1).run os = .ok ((d', low), os')) :
    DfsRes d d' ∧ low ≤ d.index ∧ (SortedK d.s.pending → low = d.index → mGet d'.s.pending var = none) := by
  unfold dfsTail at h
  simp only at h
  split at h
  · rw [run_bind_ok] at h
    obtain ⟨⟨s', stack', comp⟩, os1, h1, h2⟩ := h
    rw [run_liftM_ok] at h1
    simp only [run_pure, Except.ok.injEq, Prod.mk.injEq] at h2
    obtain ⟨⟨rfl, rfl⟩, _⟩ := h2
    obtain ⟨a, b, c, e⟩ := popComp_spec _ _ _ _ _ _ _ h1.1
    refine ⟨⟨hd.step.trans a, ?_, by simp only; omega⟩, hlow, ?_⟩
    · intro x hx
      simp only at hx
      split at hx
      · exact hd.comps x hx
      · rcases List.mem_append.1 hx with h3 | h3
        · exact hd.comps x h3
        · simp only [List.mem_singleton] at h3
          subst h3
          right
          intro ve hve
          rcases c ve hve with h4 | h4
          · cases h4
          · exact hd.step.sub.subset h4
    · intro hs _
      refine e (hs.sublist hd.step.sub) var d1.stack rfl ?_
      have := hd.stack
      simp only [List.length_cons]; omega
  · rename_i hne
    simp only [run_pure, Except.ok.injEq, Prod.mk.injEq] at h
    obtain ⟨⟨rfl, rfl⟩, _⟩ := h
    refine ⟨⟨hd.step, hd.comps, by simp only [List.length_cons]; have := hd.stack; omega⟩, hlow, ?_⟩
    intro _ hl
    rw [hl] at hne
    simp at hne

theorem dfs_spec : ∀ (fuel : Nat) (d : Dfs w) (var : Int) (os : Orders) (d' : Dfs w) (low : Nat) (os' : Orders),
    (gatherToEmitDfs fuel d var).run os = .ok ((d', low), os') →
    DfsRes d d' ∧ low ≤ d.index ∧ (SortedK d.s.pending → low = d.index → mGet d'.s.pending var = none) := by
  intro fuel
  induction fuel with
  | zero =>
    intro d var os d' low os' h
    rw [gatherToEmitDfs, run_throw] at h
    cases h
  | succ fuel ih =>
    intro d var os d' low os' h
    rw [dfs_unfold, run_bind_ok] at h
    obtain ⟨⟨d1, low1⟩, os1, h1, h2⟩ := h
    have hd0 : DfsRes d { d with index := d.index + 1, visited := mSet d.visited var d.index } :=
      ⟨PStep.refl _, fun _ h => Or.inl h, Nat.le_refl _⟩
    have key : DfsRes d d1 ∧ low1 ≤ d.index := by
      split at h1
      · simp only [run_pure, Except.ok.injEq, Prod.mk.injEq] at h1
        obtain ⟨⟨rfl, rfl⟩, _⟩ := h1
        exact ⟨hd0, Nat.le_refl _⟩
      · rw [run_bind_ok] at h1
        obtain ⟨order, os2, _, h4⟩ := h1
        refine foldlM_inv (fun (acc : Dfs w × Nat) => DfsRes d acc.1 ∧ acc.2 ≤ d.index) _ order ?_
          ⟨hd0, Nat.le_refl _⟩ h4
        intro acc n osa acc' osa' _ hacc hstep
        split at hstep
        · simp only [run_pure, Except.ok.injEq, Prod.mk.injEq] at hstep
          obtain ⟨rfl, _⟩ := hstep
          exact ⟨hacc.1, Nat.le_trans (Nat.min_le_left _ _) hacc.2⟩
        · rw [run_bind_ok] at hstep
          obtain ⟨⟨d2, reached⟩, os3, h5, h6⟩ := hstep
          simp only [run_pure, Except.ok.injEq, Prod.mk.injEq] at h6
          obtain ⟨rfl, _⟩ := h6
          obtain ⟨a, _, _⟩ := ih _ _ _ _ _ _ h5
          exact ⟨hacc.1.trans a, Nat.le_trans (Nat.min_le_left _ _) hacc.2⟩
    exact dfsTail_spec key.1 key.2 h2

/-! ### `gatherForEmit` -/

theorem simple_fold (s : Rebuild w)
    (f : Rebuild w × List (List (Int × Expr w)) → Int → Rebuild w × List (List (Int × Expr w)))
    (hf : ∀ acc v, (f acc v).1 = (removePending acc.1 v).1 ∧
      ((f acc v).2 = acc.2 ∨ ∃ p, mGet acc.1.pending v = some p ∧ (f acc v).2 = acc.2 ++ [[(v, p)]])) :
    ∀ (l : List Int) (acc r : Rebuild w × List (List (Int × Expr w))), l.foldl f acc = r →
      PStep s acc.1 → (∀ c ∈ acc.2, ∀ ve ∈ c, ve ∈ s.pending) →
      PStep s r.1 ∧ (∀ c ∈ r.2, ∀ ve ∈ c, ve ∈ s.pending) := by
  intro l
  induction l with
  | nil => intro acc r h h1 h2; simp only [List.foldl_nil] at h; subst h; exact ⟨h1, h2⟩
  | cons v l ih =>
    intro acc r h h1 h2
    simp only [List.foldl_cons] at h
    obtain ⟨e1, e2⟩ := hf acc v
    apply ih _ _ h
    · rw [e1]; exact h1.trans (removePending_pstep acc.1 v)
    · rcases e2 with e2 | ⟨p, hp, e2⟩
      · rw [e2]; exact h2
      · rw [e2]
        intro c hc ve hve
        rcases List.mem_append.1 hc with h3 | h3
        · exact h2 c h3 ve hve
        · simp only [List.mem_singleton] at h3
          subst h3
          simp only [List.mem_singleton] at hve
          subst hve
          exact h1.sub.subset (mem_of_mGet hp)

theorem gatherForEmit_spec {s : Rebuild w} {emit : List Int} {os os' : Orders} {s' : Rebuild w}
    {comps : List (List (Int × Expr w))}
    (h : (gatherForEmit s emit).run os = .ok ((s', comps), os')) :
    PStep s s' ∧ (∀ c ∈ comps, ∀ ve ∈ c, ve ∈ s.pending) ∧
    (SortedK s.pending → ∀ var, emit = [var] → mGet s'.pending var = none) := by
  unfold gatherForEmit at h
  split at h
  · simp only [run_pure, Except.ok.injEq, Prod.mk.injEq] at h
    obtain ⟨hh, _⟩ := h
    obtain ⟨k1, k2⟩ := simple_fold s _ (fun acc v => by
      have h1 := removePending_snd acc.1 v
      split
      · rename_i s1 p heq
        rw [heq] at h1
        exact ⟨by rw [heq], Or.inr ⟨p, h1.symm, rfl⟩⟩
      · rename_i s1 heq
        exact ⟨by rw [heq], Or.inl rfl⟩) emit (s, []) _ hh (PStep.refl _) (fun c hc => by cases hc)
    refine ⟨k1, k2, ?_⟩
    intro hs var he
    subst he
    simp only [List.foldl_cons, List.foldl_nil] at hh
    have hg := removePending_gone hs var
    split at hh
    · rename_i s1 p heq
      rw [heq] at hg
      simp only [Prod.mk.injEq] at hh
      rw [← hh.1]; exact hg
    · rename_i s1 heq
      rw [heq] at hg
      simp only [Prod.mk.injEq] at hh
      rw [← hh.1]; exact hg
  · rw [run_bind_ok] at h
    obtain ⟨d, os1, h1, h2⟩ := h
    simp only [run_pure, Except.ok.injEq, Prod.mk.injEq] at h2
    obtain ⟨⟨rfl, rfl⟩, _⟩ := h2
    let d0 : Dfs w := { s := s, index := 0, visited := [], stack := [], comps := [] }
    have key : ∀ (l : List Int) (da : Dfs w) (osa : Orders) (db : Dfs w) (osb : Orders),
        (l.foldlM (fun (d : Dfs w) var =>
          if !mHas d.visited var then do
            let (d', _) ← gatherToEmitDfs (s.pending.length + s.reverse.length + emit.length + 1)
              { d with index := 0 } var
            pure d'
          else pure d) da).run osa = .ok (db, osb) → DfsRes da db := by
      intro l
      induction l with
      | nil =>
        intro da osa db osb h
        simp only [List.foldlM_nil, run_pure, Except.ok.injEq, Prod.mk.injEq] at h
        rw [← h.1]; exact DfsRes.refl _
      | cons v l ih =>
        intro da osa db osb h
        rw [List.foldlM_cons, run_bind_ok] at h
        obtain ⟨dm, osm, h3, h4⟩ := h
        refine DfsRes.trans ?_ (ih _ _ _ _ h4)
        split at h3
        · rw [run_bind_ok] at h3
          obtain ⟨⟨d2, lw⟩, os3, h5, h6⟩ := h3
          simp only [run_pure, Except.ok.injEq, Prod.mk.injEq] at h6
          obtain ⟨rfl, _⟩ := h6
          obtain ⟨a, _, _⟩ := dfs_spec _ _ _ _ _ _ _ h5
          exact ⟨a.step, a.comps, a.stack⟩
        · simp only [run_pure, Except.ok.injEq, Prod.mk.injEq] at h3
          rw [← h3.1]; exact DfsRes.refl _
    have hres := key emit d0 os d os1 h1
    refine ⟨hres.step, ?_, ?_⟩
    · intro c hc
      rcases hres.comps c hc with h3 | h3
      · cases h3
      · exact h3
    · intro hs var he
      subst he
      rw [List.foldlM_cons, run_bind_ok] at h1
      obtain ⟨dm, osm, h3, h4⟩ := h1
      simp only [List.foldlM_nil, run_pure, Except.ok.injEq, Prod.mk.injEq] at h4
      obtain ⟨rfl, _⟩ := h4
      have hv : (!mHas (ν := Nat) [] var) = true := by simp [mHas, mGet]
      rw [if_pos hv, run_bind_ok] at h3
      obtain ⟨⟨d2, lw⟩, os3, h5, h6⟩ := h3
      simp only [run_pure, Except.ok.injEq, Prod.mk.injEq] at h6
      obtain ⟨rfl, _⟩ := h6
      obtain ⟨_, b, c⟩ := dfs_spec _ _ _ _ _ _ _ h5
      exact c hs (Nat.le_zero.1 b)

/-! ### `writtenCalcs`, `emitStructured` -/

/-- A group of calculations respects the bound at drift `g`. -/
def CalcsOk (R g : Nat) (calcs : List (Int × Expr w)) : Prop :=
  ∀ ve ∈ calcs, NB R g ve.1 ∧ VarsIn (NB R g) ve.2

theorem okI_calc_of {R g : Nat} {calcs : List (Int × Expr w)} (h : CalcsOk R g calcs) :
    OkI R g (.calc calcs) :=
  okI_calc.2 (fun ve hve => ⟨(h ve hve).1, varsIn_iff.1 (h ve hve).2⟩)

theorem calcsOk_of_okI {R g : Nat} {calcs : List (Int × Expr w)} (h : OkI R g (.calc calcs)) :
    CalcsOk R g calcs :=
  fun ve hve => ⟨(okI_calc.1 h ve hve).1, varsIn_iff.2 (okI_calc.1 h ve hve).2⟩

/-- `Inv` kept, accounting unchanged, `pending` unchanged. -/
structure WStep (R g0 : Nat) (s s' : Rebuild w) : Prop where
  inv : Inv R g0 s'
  keep : Keep s s'
  pending : s'.pending = s.pending

theorem WStep.refl {R g0 : Nat} {s : Rebuild w} (h : Inv R g0 s) : WStep R g0 s s := ⟨h, Keep.refl _, rfl⟩
theorem WStep.trans {R g0 : Nat} {a b c : Rebuild w} (h1 : WStep R g0 a b) (h2 : WStep R g0 b c) :
    WStep R g0 a c := ⟨h2.inv, h1.keep.trans h2.keep, h2.pending.trans h1.pending⟩

theorem writtenCalcs_step {R g0 : Nat} {s : Rebuild w} (ps : List (Rebuild w)) (hi : Inv R g0 s)
    {calcs : List (Int × Expr w)} (hc : ∀ ve ∈ calcs, VarsIn (NB R (g0 + driftL s.insts)) ve.2) :
    WStep R g0 s (writtenCalcs s ps calcs) := by
  unfold writtenCalcs
  simp only
  refine foldl_inv (fun s' => WStep R g0 s s') _ _ ?_ (WStep.refl hi)
  intro s1 vk hvk h1
  obtain ⟨vc, hvc, rfl⟩ := List.mem_map.1 hvk
  have hv : ∀ e, (if Expr.opCount vc.2 < 32 then
        match evalWritten s ps vc.2 with
        | some c => (vc.1, OptWrite.known c)
        | none => (vc.1, OptWrite.unknown)
      else (vc.1, OptWrite.unknown)).2 = .known e → VarsIn (NB R (g0 + driftL s1.insts)) e := by
    intro e he
    rw [h1.keep.drift]
    split at he
    · split at he
      · rename_i c hcc
        simp only [OptWrite.known.injEq] at he
        subst he
        exact evalWritten_varsIn ps hi.writ (hc vc hvc) hcc
      · cases he
    · cases he
  obtain ⟨a, b, c⟩ := insertWritten_inv h1.inv _ _ hv
  exact h1.trans ⟨a, b, c⟩

theorem foldl_read_pstep (vars : List Int) (s : Rebuild w) :
    PStep s (vars.foldl Opt.read s) ∧ (vars.foldl Opt.read s).pending = s.pending := by
  induction vars generalizing s with
  | nil => exact ⟨PStep.refl _, rfl⟩
  | cons v vs ih =>
    simp only [List.foldl_cons]
    obtain ⟨a, b⟩ := ih (Opt.read s v)
    exact ⟨(read_pstep s v).trans a, b.trans (read_pending s v)⟩

theorem reads_wstep {R g0 : Nat} {s : Rebuild w} (hi : Inv R g0 s) (calcs : List (Int × Expr w)) :
    WStep R g0 s (calcs.foldl (fun s vc => (Expr.variables vc.2).foldl Opt.read s) s) := by
  refine foldl_inv (fun s' => WStep R g0 s s') _ _ ?_ (WStep.refl hi)
  intro s1 vc _ h1
  obtain ⟨a, b⟩ := foldl_read_pstep (Expr.variables vc.2) s1
  exact h1.trans ⟨a.inv h1.inv, a.keep, b⟩

theorem emitStructured_step {R g0 : Nat} {s : Rebuild w} (ps : List (Rebuild w)) (hi : Inv R g0 s)
    {toEmit : List (List (Int × Expr w))} (hc : ∀ c ∈ toEmit, CalcsOk R (g0 + driftL s.insts) c) :
    WStep R g0 s (emitStructured s ps toEmit) := by
  unfold emitStructured
  refine foldl_inv (fun s' => WStep R g0 s s') _ _ ?_ (WStep.refl hi)
  intro s1 calcs hcalcs h1
  simp only
  have hok : CalcsOk R (g0 + driftL s1.insts) calcs := by rw [h1.keep.drift]; exact hc calcs hcalcs
  have h2 := reads_wstep h1.inv calcs
  have h3 := writtenCalcs_step ps h2.inv (calcs := calcs)
    (by rw [h2.keep.drift]; exact fun ve hve => (hok ve hve).2)
  have h4 := h2.trans h3
  generalize writtenCalcs (calcs.foldl (fun s vc => (Expr.variables vc.2).foldl Opt.read s) s1) ps calcs = s3
    at h3 h4
  have hd : driftL (s3.insts ++ [Instr.calc calcs]) = driftL s3.insts := by
    rw [driftL_snoc]; simp [driftI]
  refine h1.trans ⟨⟨?_, ?_, ?_, h4.inv.sorted, ?_⟩, ⟨?_, h4.keep.shift, h4.keep.subShift⟩, h4.pending⟩
  · show OkL R g0 (s3.insts ++ [Instr.calc calcs])
    rw [okL_snoc]
    refine ⟨h4.inv.insts, okI_calc_of ?_⟩
    rw [h4.keep.drift]; exact hok
  · show PendOk R (g0 + driftL (s3.insts ++ [Instr.calc calcs])) s3.pending
    rw [hd]; exact h4.inv.pend
  · show WritOk R (g0 + driftL (s3.insts ++ [Instr.calc calcs])) s3.written
    rw [hd]; exact h4.inv.writ
  · show s3.subShift = false → driftL (s3.insts ++ [Instr.calc calcs]) = 0
    rw [hd]; exact h4.inv.flat
  · show driftL (s3.insts ++ [Instr.calc calcs]) = driftL s1.insts
    rw [hd]; exact h4.keep.drift

/-! ### `emit`, `clobber` -/

/-- `Inv` kept, accounting unchanged, `pending` only shrinks. -/
structure EStep (R g0 : Nat) (s s' : Rebuild w) : Prop where
  inv : Inv R g0 s'
  keep : Keep s s'
  sub : s'.pending.Sublist s.pending

theorem EStep.refl {R g0 : Nat} {s : Rebuild w} (h : Inv R g0 s) : EStep R g0 s s :=
  ⟨h, Keep.refl _, List.Sublist.refl _⟩
theorem EStep.trans {R g0 : Nat} {a b c : Rebuild w} (h1 : EStep R g0 a b) (h2 : EStep R g0 b c) :
    EStep R g0 a c := ⟨h2.inv, h1.keep.trans h2.keep, h2.sub.trans h1.sub⟩

theorem WStep.estep {R g0 : Nat} {s s' : Rebuild w} (h : WStep R g0 s s') : EStep R g0 s s' :=
  ⟨h.inv, h.keep, by rw [h.pending]⟩

theorem PStep.estep {R g0 : Nat} {s s' : Rebuild w} (h : PStep s s') (hi : Inv R g0 s) : EStep R g0 s s' :=
  ⟨h.inv hi, h.keep, h.sub⟩

/-- `gatherForEmit` followed by `emitStructured`. -/
theorem gatherEmit_step {R g0 : Nat} {s : Rebuild w} (ps : List (Rebuild w)) (hi : Inv R g0 s)
    {emit : List Int} {os os' : Orders} {s1 : Rebuild w} {toEmit : List (List (Int × Expr w))}
    (h : (gatherForEmit s emit).run os = .ok ((s1, toEmit), os')) :
    EStep R g0 s (emitStructured s1 ps toEmit) ∧
    (∀ var, emit = [var] → mGet (emitStructured s1 ps toEmit).pending var = none) := by
  obtain ⟨a, b, c⟩ := gatherForEmit_spec h
  have h1 := a.estep hi
  have h2 := emitStructured_step ps h1.inv (toEmit := toEmit) (by
    rw [h1.keep.drift]
    exact fun cc hcc ve hve => hi.pend ve (b cc hcc ve hve))
  refine ⟨h1.trans h2.estep, ?_⟩
  intro var he
  rw [h2.pending]
  exact c hi.sorted var he

theorem emit_step {R g0 : Nat} {s : Rebuild w} (ps : List (Rebuild w)) (hi : Inv R g0 s) (var : Int)
    {os os' : Orders} {s' : Rebuild w} (h : (emit s ps var).run os = .ok (s', os')) :
    EStep R g0 s s' ∧ mGet s'.pending var = none := by
  unfold emit at h
  split at h
  · rw [run_bind_ok] at h
    obtain ⟨⟨s1, toEmit⟩, os1, h1, h2⟩ := h
    simp only [run_pure, Except.ok.injEq, Prod.mk.injEq] at h2
    obtain ⟨rfl, _⟩ := h2
    obtain ⟨a, b⟩ := gatherEmit_step ps hi h1
    exact ⟨a, b var rfl⟩
  · rename_i hh
    simp only [run_pure, Except.ok.injEq, Prod.mk.injEq] at h
    obtain ⟨rfl, _⟩ := h
    refine ⟨EStep.refl hi, ?_⟩
    unfold mHas at hh
    cases hg : mGet s.pending var with
    | none => rfl
    | some e => rw [hg] at hh; simp at hh

theorem clobber_step {R g0 : Nat} {s : Rebuild w} (ps : List (Rebuild w)) (hi : Inv R g0 s) (var : Int)
    (maybe : Bool) {os os' : Orders} {s' : Rebuild w}
    (h : (clobber s ps var maybe).run os = .ok (s', os')) : EStep R g0 s s' := by
  unfold clobber at h
  rw [run_bind_ok] at h
  obtain ⟨⟨s1, toEmit⟩, os1, h1, h2⟩ := h
  simp only [run_pure, Except.ok.injEq, Prod.mk.injEq] at h2
  obtain ⟨rfl, _⟩ := h2
  have h0 : EStep R g0 s (if (!maybe) = true then (removePending s var).1 else s) := by
    split
    · exact (removePending_pstep s var).estep hi
    · exact EStep.refl hi
  obtain ⟨a, _⟩ := gatherEmit_step ps h0.inv h1
  have h3 := h0.trans a
  obtain ⟨x, y, z⟩ := insertWritten_inv h3.inv var (if maybe = true then OptWrite.maybe else OptWrite.unknown)
    (by intro e he; split at he <;> cases he)
  exact h3.trans ⟨x, y, by rw [z]⟩

/-! ### `explosionVars`, `performAll` -/

theorem explosionVars_step {R g0 : Nat} (ps : List (Rebuild w)) : ∀ (vars : List Int) (last : Option Int)
    (s : Rebuild w) (os : Orders) (s' : Rebuild w) (os' : Orders), Inv R g0 s →
    (explosionVars ps vars last s).run os = .ok (s', os') → EStep R g0 s s' := by
  intro vars
  induction vars with
  | nil =>
    intro last s os s' os' hi h
    simp only [explosionVars, run_pure, Except.ok.injEq, Prod.mk.injEq] at h
    rw [← h.1]; exact EStep.refl hi
  | cons var rest ih =>
    intro last s os s' os' hi h
    rw [explosionVars] at h
    have hemit : ∀ os s', (emit s ps var >>= fun s => explosionVars ps rest (some var) s).run os
        = .ok (s', os') → EStep R g0 s s' := by
      intro os s' h
      rw [run_bind_ok] at h
      obtain ⟨s1, os1, h1, h2⟩ := h
      have hs1 := (emit_step ps hi var h1).1
      exact hs1.trans (ih _ _ _ _ _ hs1.inv h2)
    have hpure : ∀ os s', ((pure s : M (Rebuild w)) >>= fun s => explosionVars ps rest (some var) s).run os
        = .ok (s', os') → EStep R g0 s s' := by
      intro os s' h
      rw [run_bind_ok] at h
      obtain ⟨s1, os1, h1, h2⟩ := h
      simp only [run_pure, Except.ok.injEq, Prod.mk.injEq] at h1
      obtain ⟨rfl, rfl⟩ := h1
      exact ih _ _ _ _ _ hi h2
    split at h
    · split at h
      · exact hemit _ _ h
      · exact hpure _ _ h
    · exact hpure _ _ h

/-- `Inv` kept, accounting unchanged (what `performAll` guarantees). -/
structure KStep (R g0 : Nat) (s s' : Rebuild w) : Prop where
  inv : Inv R g0 s'
  keep : Keep s s'

theorem KStep.refl {R g0 : Nat} {s : Rebuild w} (h : Inv R g0 s) : KStep R g0 s s := ⟨h, Keep.refl _⟩
theorem KStep.trans {R g0 : Nat} {a b c : Rebuild w} (h1 : KStep R g0 a b) (h2 : KStep R g0 b c) :
    KStep R g0 a c := ⟨h2.inv, h1.keep.trans h2.keep⟩
theorem EStep.kstep {R g0 : Nat} {s s' : Rebuild w} (h : EStep R g0 s s') : KStep R g0 s s' := ⟨h.inv, h.keep⟩

theorem mapM_evalPending {s : Rebuild w} {ps : List (Rebuild w)} {shift : Int} :
    ∀ (calcs : List (Int × Expr w)) (os : Orders) (exprs : List (Int × Expr w)) (os' : Orders),
    (calcs.mapM (fun vc => (do
      let pending ← (evalPending s ps shift vc.2 : Except String (Expr w))
      pure (shift + vc.1, pending) : M (Int × Expr w)))).run os = .ok (exprs, os') →
    ∀ ve ∈ exprs, ∃ vc ∈ calcs, ve.1 = shift + vc.1 ∧ evalPending s ps shift vc.2 = .ok ve.2 := by
  intro calcs
  induction calcs with
  | nil =>
    intro os exprs os' h
    simp only [List.mapM_nil, run_pure, Except.ok.injEq, Prod.mk.injEq] at h
    rw [← h.1]; intro ve hve; cases hve
  | cons vc rest ih =>
    intro os exprs os' h
    rw [List.mapM_cons, run_bind_ok] at h
    obtain ⟨x, os1, h1, h2⟩ := h
    rw [run_bind_ok] at h2
    obtain ⟨xs, os2, h3, h4⟩ := h2
    simp only [run_pure, Except.ok.injEq, Prod.mk.injEq] at h4
    obtain ⟨rfl, _⟩ := h4
    rw [run_bind_ok] at h1
    obtain ⟨p, os3, h5, h6⟩ := h1
    rw [run_liftM_ok] at h5
    simp only [run_pure, Except.ok.injEq, Prod.mk.injEq] at h6
    obtain ⟨rfl, _⟩ := h6
    intro ve hve
    rcases List.mem_cons.1 hve with e | e
    · subst e; exact ⟨vc, List.mem_cons_self, rfl, h5.1⟩
    · obtain ⟨vc', a, b⟩ := ih _ _ _ h3 ve e
      exact ⟨vc', List.mem_cons_of_mem _ a, b⟩

theorem performAll_step {R g0 : Nat} {s : Rebuild w} (ps : List (Rebuild w)) (hi : Inv R g0 s) {shift : Int}
    {calcs : List (Int × Expr w)}
    (hc : ∀ vc ∈ calcs, NB R (g0 + driftL s.insts) (shift + vc.1) ∧
      VarsIn (fun x => NB R (g0 + driftL s.insts) (x + shift)) vc.2)
    {os os' : Orders} {s' : Rebuild w} (h : (performAll s ps shift calcs).run os = .ok (s', os')) :
    KStep R g0 s s' := by
  unfold performAll at h
  rw [run_bind_ok] at h
  obtain ⟨s1, os1, h1, h2⟩ := h
  rw [run_bind_ok] at h2
  obtain ⟨exprs, os2, h3, h4⟩ := h2
  simp only [run_pure, Except.ok.injEq, Prod.mk.injEq] at h4
  obtain ⟨rfl, _⟩ := h4
  have hs1 : EStep R g0 s s1 := by
    refine foldlM_inv (fun s' => EStep R g0 s s') _ calcs ?_ (EStep.refl hi) h1
    intro sa vc osa sb osb _ ha hstep
    refine foldlM_inv (fun s' => EStep R g0 s s') _ (groupedVars vc.2) ?_ ha hstep
    intro sc vars osc sd osd _ hcc hstep2
    split at hstep2
    · exact hcc.trans (explosionVars_step ps vars none sc osc sd osd hcc.inv hstep2)
    · simp only [run_pure, Except.ok.injEq, Prod.mk.injEq] at hstep2
      rw [← hstep2.1]; exact hcc
  have hex := mapM_evalPending calcs os1 exprs os2 h3
  refine foldl_inv (fun s' => KStep R g0 s s') _ exprs ?_ hs1.kstep
  intro sa ve hve ha
  obtain ⟨vc, hvc, e1, e2⟩ := hex ve hve
  have hd : driftL sa.insts = driftL s.insts := ha.keep.drift
  have hd1 : driftL s1.insts = driftL s.insts := hs1.keep.drift
  obtain ⟨a, b⟩ := insertPending_inv ps ha.inv (var := ve.1) (expr := ve.2)
    (by rw [hd, e1]; exact (hc vc hvc).1)
    (by
      rw [hd, ← hd1]
      refine evalPending_varsIn ps (fun kv hkv => (hs1.inv.pend kv hkv).2) ?_ e2
      rw [hd1]; exact (hc vc hvc).2)
  exact ha.trans ⟨a, b⟩

/-! ### `emitAll`, `emitReadAll`, `clobberAll` -/

theorem emitAll_step {R g0 : Nat} (ps : List (Rebuild w)) (vars : List Int) {s : Rebuild w}
    (hi : Inv R g0 s) {os os' : Orders} {s' : Rebuild w}
    (h : (emitAll ps vars s).run os = .ok (s', os')) : EStep R g0 s s' := by
  unfold emitAll at h
  refine foldlM_inv (fun s' => EStep R g0 s s') _ vars ?_ (EStep.refl hi) h
  intro sa v osa sb osb _ ha hstep
  exact ha.trans (emit_step ps ha.inv v hstep).1

theorem emitReadAll_step {R g0 : Nat} (ps : List (Rebuild w)) (vars : List Int) {s : Rebuild w}
    (hi : Inv R g0 s) {os os' : Orders} {s' : Rebuild w}
    (h : (emitReadAll ps vars s).run os = .ok (s', os')) : EStep R g0 s s' := by
  unfold emitReadAll at h
  refine foldlM_inv (fun s' => EStep R g0 s s') _ vars ?_ (EStep.refl hi) h
  intro sa v osa sb osb _ ha hstep
  rw [run_bind_ok] at hstep
  obtain ⟨sc, osc, h1, h2⟩ := hstep
  simp only [run_pure, Except.ok.injEq, Prod.mk.injEq] at h2
  obtain ⟨rfl, _⟩ := h2
  have h3 := ha.trans (emit_step ps ha.inv v h1).1
  exact h3.trans ((read_pstep sc v).estep h3.inv)

theorem clobberAll_step {R g0 : Nat} (ps : List (Rebuild w)) (vars : List (Int × Bool)) {s : Rebuild w}
    (hi : Inv R g0 s) {os os' : Orders} {s' : Rebuild w}
    (h : (clobberAll ps vars s).run os = .ok (s', os')) : EStep R g0 s s' := by
  unfold clobberAll at h
  refine foldlM_inv (fun s' => EStep R g0 s s') _ vars ?_ (EStep.refl hi) h
  intro sa v osa sb osb _ ha hstep
  exact ha.trans (clobber_step ps ha.inv v.1 v.2 hstep)

/-- After `emit` has been called for every variable of `vars`, none of them is pending. -/
theorem emitAll_gone {R g0 : Nat} (ps : List (Rebuild w)) : ∀ (vars : List Int) (s : Rebuild w),
    Inv R g0 s → ∀ (os os' : Orders) (s' : Rebuild w), (emitAll ps vars s).run os = .ok (s', os') →
    ∀ v ∈ vars, mGet s'.pending v = none := by
  intro vars
  induction vars with
  | nil => intro s _ os os' s' _ v hv; cases hv
  | cons x rest ih =>
    intro s hi os os' s' h v hv
    unfold emitAll at h
    rw [List.foldlM_cons, run_bind_ok] at h
    obtain ⟨s1, os1, h1, h2⟩ := h
    obtain ⟨a, b⟩ := emit_step ps hi x h1
    have h2' : (emitAll ps rest s1).run os1 = .ok (s', os') := h2
    rcases List.mem_cons.1 hv with e | e
    · subst e
      exact mGet_none_of_sublist (emitAll_step ps rest a.inv h2').sub b
    · exact ih s1 a.inv os1 os' s' h2' v e

/-- **Emitting everything that is pending leaves nothing pending.** -/
theorem emitAll_pending_empty {R g0 : Nat} (ps : List (Rebuild w)) {s : Rebuild w} (hi : Inv R g0 s)
    {os os' : Orders} {s' : Rebuild w}
    (h : (emitAll ps (pendingSorted s s) s).run os = .ok (s', os')) : s'.pending = [] := by
  have hgone := emitAll_gone ps _ s hi os os' s' h
  have hsub := (emitAll_step ps _ hi h).sub
  apply eq_nil_of_mGet_none
  intro k hk
  apply hgone
  unfold pendingSorted
  rw [(Expr.stableSort_perm _ _).mem_iff]
  unfold mKeys at hk ⊢
  obtain ⟨kv, hkv, rfl⟩ := List.mem_map.1 hk
  exact List.mem_map.2 ⟨kv, hsub.subset hkv, rfl⟩

end Hpbf.OptOffs
