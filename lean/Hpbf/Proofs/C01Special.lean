/-
C01, level 0, part 5: the canonical machine on a loop whose body only adds an odd constant to the
current cell (`[-]`, `[+]`, `[---]`, `[>+<->-<]`, …): it terminates with the cell zeroed, emits
nothing and changes nothing else.
-/
import Hpbf.Proofs.C01Struct
import Hpbf.Proofs.C01Arith

namespace Hpbf
namespace C01
open Ir Sim

variable {w : Nat}

/-- `sb'` is `sb` with the current cell set to zero. -/
def ZeroedFrom (sb sb' : State w) : Prop :=
  sb'.ptr = sb.ptr ∧ sb'.env = sb.env ∧ sb'.trace = sb.trace ∧
    ∀ x, sb'.tape.get x = if x = sb.ptr then 0#w else sb.tape.get x

/-- `sb'` is `sb` with `c` added to the current cell. -/
def AddedFrom (c : BitVec w) (sb sb' : State w) : Prop :=
  sb'.ptr = sb.ptr ∧ sb'.env = sb.env ∧ sb'.trace = sb.trace ∧
    ∀ x, sb'.tape.get x = if x = sb.ptr then sb.tape.get x + c else sb.tape.get x

theorem rd0_eq (s : State w) : s.rd 0 = s.tape.get s.ptr := by
  unfold State.rd; rw [Int.add_zero]

theorem ofNat_succ_mul (n : Nat) (c : BitVec w) :
    BitVec.ofNat w (n + 1) * c = c + BitVec.ofNat w n * c := by
  rw [BitVec.ofNat_add, BitVec.add_mul, BitVec.add_comm]
  congr 1
  by_cases hw : w = 0
  · subst hw; exact Subsingleton.elim _ _
  · simp

/-- If one round of the body adds the odd constant `c` to the current cell and does nothing else, the
loop runs until the cell is zero. -/
theorem loop_zero_of_iter (hw : 0 < w) (c : BitVec w) (hc : Cell.isOdd c = true) (b rest : Prog)
    (hiter : ∀ (ks : List Prog) (sb : State w),
      ∃ m sb', Steps (BfM w) m ⟨b, ks, sb⟩ ⟨.nil, ks, sb'⟩ ∧ AddedFrom c sb sb') :
    ∀ (ks : List Prog) (sb : State w),
      ∃ m sb', Steps (BfM w) (m + 1) ⟨.loop b rest, ks, sb⟩ ⟨rest, ks, sb'⟩ ∧ ZeroedFrom sb sb' := by
  have main : ∀ (n : Nat) (ks : List Prog) (sb : State w), sb.rd 0 + BitVec.ofNat w n * c = 0#w →
      ∃ m sb', Steps (BfM w) (m + 1) ⟨.loop b rest, ks, sb⟩ ⟨rest, ks, sb'⟩ ∧ ZeroedFrom sb sb' := by
    intro n
    have zero_case : ∀ (ks : List Prog) (sb : State w), sb.rd 0 = 0#w →
        ∃ m sb', Steps (BfM w) (m + 1) ⟨.loop b rest, ks, sb⟩ ⟨rest, ks, sb'⟩ ∧ ZeroedFrom sb sb' := by
      intro ks sb h0
      refine ⟨0, sb, Steps.one (by rw [bstep_loop, if_pos h0]), rfl, rfl, rfl, ?_⟩
      intro x
      by_cases hx : x = sb.ptr
      · rw [if_pos hx, hx, ← rd0_eq]; exact h0
      · rw [if_neg hx]
    induction n with
    | zero =>
      intro ks sb h
      apply zero_case
      simpa using h
    | succ n ih =>
      intro ks sb h
      by_cases h0 : sb.rd 0 = 0#w
      · exact zero_case ks sb h0
      · obtain ⟨m, sb1, hs1, hp1, he1, ht1, hg1⟩ := hiter (.loop b rest :: ks) sb
        have hrd1 : sb1.rd 0 = sb.rd 0 + c := by
          rw [rd0_eq, rd0_eq, hp1, hg1, if_pos rfl]
        have h' : sb1.rd 0 + BitVec.ofNat w n * c = 0#w := by
          rw [hrd1, BitVec.add_assoc, ← ofNat_succ_mul]; exact h
        obtain ⟨m2, sb', hs2, hp2, he2, ht2, hg2⟩ := ih ks sb1 h'
        have s1 : Steps (BfM w) 1 ⟨.loop b rest, ks, sb⟩ ⟨b, .loop b rest :: ks, sb⟩ :=
          Steps.one (by rw [bstep_loop, if_neg h0])
        have s3 : Steps (BfM w) 1 ⟨.nil, .loop b rest :: ks, sb1⟩ ⟨.loop b rest, ks, sb1⟩ :=
          Steps.one (bstep_nil_cons _ _ _)
        have hall := ((s1.trans hs1).trans s3).trans hs2
        refine ⟨1 + m + 1 + m2, sb', ?_, by rw [hp2, hp1], by rw [he2, he1], by rw [ht2, ht1], ?_⟩
        · have e : 1 + m + 1 + (m2 + 1) = 1 + m + 1 + m2 + 1 := by omega
          rw [← e]; exact hall
        · intro x
          rw [hg2, hp1]
          by_cases hx : x = sb.ptr
          · rw [if_pos hx, if_pos hx]
          · rw [if_neg hx, if_neg hx, hg1, if_neg hx]
  intro ks sb
  obtain ⟨n, hn⟩ := odd_step_reaches_zero hw c (sb.rd 0) hc
  exact main n ks sb hn

/-- A body of `+ - < >` only: the canonical machine runs through it, and the frame tracks it. -/
theorem pure_exec (q : Prog) : Pure q → ∀ {D : Int → BitVec w} {f : Fr w} {sb si : State w}
    (ks : List Prog), StRel D f sb si →
    ∃ sb', Steps (BfM w) (Prog.size q) ⟨q, ks, sb⟩ ⟨.nil, ks, sb'⟩ ∧ StRel D (comp q f).2 sb' si := by
  induction q with
  | nil => intro _ D f sb si ks h; exact ⟨sb, Steps.refl _, h⟩
  | cmd op r ih =>
    intro hp D f sb si ks h
    obtain ⟨h1, _, _, h4⟩ := h.silent op hp.1
    obtain ⟨sb', hs, hr⟩ := ih hp.2 ks h4
    refine ⟨sb', Steps.cons ?_ hs, hr⟩
    rw [bstep_cmd, if_pos h1]
  | loop b r _ _ => intro hp; exact absurd hp (by simp [Pure])

/-- One round of the body of a folded loop. -/
theorem special_iter {b : Prog} {sh : Int} {c : BitVec w}
    (hib : (comp (w := w) b (fresh sh)).1 = [])
    (hshift : (comp (w := w) b (fresh sh)).2.shift = sh)
    (hpend : ∀ a, pend (comp (w := w) b (fresh sh)).2.buff a = if a = sh then c else 0#w) :
    ∀ (ks : List Prog) (sb : State w),
      ∃ m sb', Steps (BfM w) m ⟨b, ks, sb⟩ ⟨.nil, ks, sb'⟩ ∧ AddedFrom c sb sb' := by
  intro ks sb
  have hpure := pure_of_comp_nil b (fresh sh) hib
  have h0 : StRel (fun _ => 0#w) (fresh sh) sb { sb with ptr := sb.ptr - sh } := by
    refine ⟨rfl, rfl, ?_, ?_⟩
    · show sb.ptr = sb.ptr - sh + sh
      omega
    · intro x; simp [fresh]
  obtain ⟨sb', hs, hr⟩ := pure_exec b hpure ks h0
  refine ⟨_, sb', hs, ?_, hr.env, hr.trace, ?_⟩
  · rw [hr.ptr, hshift]
    show sb.ptr - sh + sh = sb.ptr
    omega
  · intro x
    rw [hr.tape, hpend]
    show sb.tape.get x + (if x - (sb.ptr - sh) = sh then c else 0#w) + 0#w = _
    by_cases hx : x = sb.ptr
    · have : x - (sb.ptr - sh) = sh := by omega
      rw [if_pos this, if_pos hx]; simp
    · have : ¬ x - (sb.ptr - sh) = sh := by omega
      rw [if_neg this, if_neg hx]; simp

/-! ### The statement for `+`/`-`-only bodies (item 4 of the task) -/

/-- Only `+` and `-`. -/
def OnlyIncDec : Prog → Prop
  | .nil => True
  | .cmd op r => (op = .inc ∨ op = .dec) ∧ OnlyIncDec r
  | .loop _ _ => False

/-- Net sum of a `+`/`-`-only body. -/
def netSum : Prog → BitVec w
  | .nil => 0#w
  | .cmd .inc r => 1#w + netSum r
  | .cmd .dec r => (-1#w) + netSum r
  | .cmd _ r => netSum r
  | .loop _ r => netSum r

theorem incdec_exec (q : Prog) : OnlyIncDec q → ∀ (ks : List Prog) (sb : State w),
    ∃ sb', Steps (BfM w) (Prog.size q) ⟨q, ks, sb⟩ ⟨.nil, ks, sb'⟩ ∧ AddedFrom (netSum q) sb sb' := by
  induction q with
  | nil =>
    intro _ ks sb
    refine ⟨sb, Steps.refl _, rfl, rfl, rfl, ?_⟩
    intro x; simp [netSum]
  | cmd op r ih =>
    intro hp ks sb
    have key : ∀ d : BitVec w, (Bf.applyOp op sb) = (true, sb.wr 0 (sb.rd 0 + d)) →
        netSum (w := w) (.cmd op r) = d + netSum r →
        ∃ sb', Steps (BfM w) (Prog.size (.cmd op r)) ⟨.cmd op r, ks, sb⟩ ⟨.nil, ks, sb'⟩ ∧
          AddedFrom (netSum (.cmd op r)) sb sb' := by
      intro d hop hsum
      obtain ⟨sb', hs, hp', he', ht', hg'⟩ := ih hp.2 ks (sb.wr 0 (sb.rd 0 + d))
      refine ⟨sb', Steps.cons (by rw [bstep_cmd, hop]; rfl) hs, hp', he', ht', ?_⟩
      intro x
      rw [hg', tape_wr, hsum]
      have hptr : (sb.wr 0 (sb.rd 0 + d)).ptr = sb.ptr := rfl
      rw [hptr, Int.add_zero]
      by_cases hx : x = sb.ptr
      · rw [if_pos hx, if_pos hx, if_pos hx, rd0_eq, hx]; ac_rfl
      · rw [if_neg hx, if_neg hx, if_neg hx]
    rcases hp.1 with rfl | rfl
    · exact key 1#w rfl rfl
    · exact key (-1#w) rfl rfl
  | loop b r _ _ => intro hp; exact absurd hp (by simp [OnlyIncDec])

/-- `[body]rest` with a `+`/`-`-only body of odd net sum: from any state the canonical machine reaches
`rest` with the current cell zeroed, the same trace and environment, and everything else unchanged. -/
theorem incdec_loop_zero (hw : 0 < w) (body rest : Prog) (hb : OnlyIncDec body)
    (hodd : Cell.isOdd (netSum (w := w) body) = true) (ks : List Prog) (sb : State w) :
    ∃ m sb', Steps (BfM w) (m + 1) ⟨.loop body rest, ks, sb⟩ ⟨rest, ks, sb'⟩ ∧ ZeroedFrom sb sb' :=
  loop_zero_of_iter hw (netSum body) hodd body rest
    (fun ks sb => by
      obtain ⟨sb', hs, ha⟩ := incdec_exec body hb ks sb
      exact ⟨_, sb', hs, ha⟩) ks sb

/-- A text segment consisting of `+`, `-` and comment characters represents a `+`/`-`-only program. -/
theorem onlyIncDec_of_repr {src : List Kind} {i j : Nat} {q : Prog} (h : Repr src i j q)
    (hk : ∀ m, i ≤ m → m < j →
      src[m]? = some .inc ∨ src[m]? = some .dec ∨ src[m]? = some .comment) : OnlyIncDec q := by
  induction h with
  | nil => trivial
  | comment _ hr ih => exact ih (fun m h1 h2 => hk m (by omega) h2)
  | @cmd i j k op p hc hop hr ih =>
    have hle := hr.le
    refine ⟨?_, ih (fun m h1 h2 => hk m (by omega) h2)⟩
    rcases hk i (Nat.le_refl _) (by omega) with h | h | h
    · rw [hc] at h; cases h; simp [Kind.toOp?] at hop; exact Or.inl hop.symm
    · rw [hc] at h; cases h; simp [Kind.toOp?] at hop; exact Or.inr hop.symm
    · rw [hc] at h; cases h; simp [Kind.toOp?] at hop
  | @loop i k j body rest ho hb hc hr _ _ =>
    have := hb.le
    have := hr.le
    rcases hk i (Nat.le_refl _) (by omega) with h | h | h <;> (rw [ho] at h; cases h)

end C01
end Hpbf
