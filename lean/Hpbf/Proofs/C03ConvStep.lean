/-
C03 (converse direction), part 1: PROGRESS.  Every instruction but `noop` is compiled to at least one byte of code
(`emitInstrRaw_ne_nil`, `Ctx.loc_succ_lt`); hence a continuing bytecode step of a `noop`-free program is matched
by at least one machine step (`conv_sim_next`): for non-branches because the program counter must move, for
branches in limited mode because the budget cell must change, for branches in unlimited mode by running the
compare-and-jump pair (`branch_tail_inv`: two steps) – a `brnz c 0` on a non-zero cell (the empty loop `[]`
compiled without fusion) changes nothing in the bytecode configuration.
-/
import Hpbf.Proofs.C03FlowProg
import Hpbf.Proofs.C03TotalForm
set_option linter.unusedSimpArgs false
namespace Hpbf
namespace C03
open Asm JitGen X86Sem X86Prog
variable {w : Nat}

/-! ### every instruction but `noop` has code -/

theorem emitCopy_ne_nil (sz : Size) (d s : Bc.Loc w) {xs : List X86} (h : emitCopy sz d s = some xs) : xs ≠ [] := by
  cases d <;> cases s <;> simp only [emitCopy] at h <;> (repeat' split at h) <;>
    first | (cases h; simp) | cases h

theorem map_some_ne_nil {o : Option Reg} {f : Reg → List X86} {xs : List X86} (hf : ∀ r, f r ≠ [])
    (h : o.map f = some xs) : xs ≠ [] := by
  cases o with
  | none => cases h
  | some r => simp only [Option.map_some, Option.some.injEq] at h; rw [← h]; exact hf r

theorem emitAdd_ne_nil (sz : Size) (live : Nat) (d a b : Bc.Loc w) {xs : List X86}
    (h : emitAdd sz live d a b = some xs) : xs ≠ [] := by
  cases d <;> cases a <;> cases b <;> simp only [emitAdd] at h <;> (repeat' split at h) <;>
    first
    | (cases h; simp)
    | cases h
    | exact map_some_ne_nil (by intro r; simp) h

theorem emitSub_ne_nil (sz : Size) (live : Nat) (d a b : Bc.Loc w) {xs : List X86}
    (h : emitSub sz live d a b = some xs) : xs ≠ [] := by
  cases d <;> cases a <;> cases b <;> simp only [emitSub] at h <;> (repeat' split at h) <;>
    first
    | (cases h; simp)
    | cases h
    | exact map_some_ne_nil (by intro r; simp) h

theorem emitMul_ne_nil (sz : Size) (live : Nat) (d a b : Bc.Loc w) {xs : List X86}
    (h : emitMul sz live d a b = some xs) : xs ≠ [] := by
  cases d <;> cases a <;> cases b <;> simp only [emitMul] at h <;> (repeat' split at h) <;>
    first
    | (cases h; simp)
    | cases h
    | exact map_some_ne_nil (by intro r; simp) h

theorem item_size_pos (it : Item) : 0 < it.size := by
  cases it with
  | plain x => exact size_pos x
  | jccInstr p t => show 0 < 6; decide
  | jccTerm p => show 0 < 6; decide
  | skip8 p b => show 0 < 2 + sizeAll b; omega

theorem itemsSize_pos {its : List Item} (h : its ≠ []) : 0 < itemsSize its := by
  cases its with
  | nil => exact absurd rfl h
  | cons it rest => rw [itemsSize_cons]; have := item_size_pos it; omega

theorem plains_ne_nil {xs : List X86} (h : xs ≠ []) : plains xs ≠ [] := by
  cases xs with
  | nil => exact absurd rfl h
  | cons x xs => simp [plains]

/-- Only `noop` is compiled to nothing. -/
theorem emitInstrRaw_ne_nil {sz : Size} {limited safe : Bool} {mn mx : Int} {aE aI aO i live : Nat}
    {ins : Bc.Instr w} {its : List Item}
    (h : emitInstrRaw sz limited safe mn mx aE aI aO i live ins = some its) (hn : ins ≠ .noop) : its ≠ [] := by
  cases ins with
  | noop => exact absurd rfl hn
  | scan c s => simp [emitInstrRaw] at h
  | mov shift =>
    simp only [emitInstrRaw] at h
    split at h
    · cases hp : preCall live <;> cases hq : postCall live <;> simp [hp, hq] at h
      subst h; simp
    · cases h; simp
  | inp d =>
    simp only [emitInstrRaw] at h
    cases hp : preCall live <;> cases hq : postCall live <;> simp [hp, hq] at h
    subst h; simp
  | out d =>
    simp only [emitInstrRaw] at h
    cases hp : preCall live <;> cases hq : postCall live <;> simp [hp, hq] at h
    subst h; simp
  | brz c o => simp only [emitInstrRaw, Option.some.injEq] at h; subst h; simp
  | brnz c o => simp only [emitInstrRaw, Option.some.injEq] at h; subst h; simp
  | add d a b =>
    simp only [emitInstrRaw, Option.map_eq_some_iff] at h
    obtain ⟨xs, hx, rfl⟩ := h; exact plains_ne_nil (emitAdd_ne_nil sz live d a b hx)
  | sub d a b =>
    simp only [emitInstrRaw, Option.map_eq_some_iff] at h
    obtain ⟨xs, hx, rfl⟩ := h; exact plains_ne_nil (emitSub_ne_nil sz live d a b hx)
  | mul d a b =>
    simp only [emitInstrRaw, Option.map_eq_some_iff] at h
    obtain ⟨xs, hx, rfl⟩ := h; exact plains_ne_nil (emitMul_ne_nil sz live d a b hx)
  | copy d s =>
    simp only [emitInstrRaw, Option.map_eq_some_iff] at h
    obtain ⟨xs, hx, rfl⟩ := h; exact plains_ne_nil (emitCopy_ne_nil sz d s hx)

/-- The code of a non-`noop` instruction occupies at least one byte. -/
theorem Ctx.loc_succ_lt (K : Ctx w) {i : Nat} {ins : Bc.Instr w} (hi : K.p.insts[i]? = some ins)
    (hn : ins ≠ .noop) : K.loc i < K.loc (i + 1) := by
  obtain ⟨lv, its, xs, hI⟩ := K.instrAt hi
  have := itemsSize_pos (emitInstrRaw_ne_nil (emitInstr_raw hI.emit).1 hn)
  rw [hI.next]; omega

/-- A continuing step of anything but a branch or a `scan` goes to the next instruction. -/
theorem step_next_pc {p : Bc.Program w} {lim : Bool} {c c' : Bc.Cfg w} {ins : Bc.Instr w}
    (hi : p.insts[c.pc]? = some ins) (hb : BcWf.isBranch ins = false) (hs : ∀ a b, ins ≠ .scan a b)
    (h : Bc.step p lim c = .next c') : c'.pc = c.pc + 1 := by
  unfold Bc.step at h
  simp only [hi] at h
  cases ins with
  | noop => cases h; rfl
  | mov sh => cases h; rfl
  | scan a b => exact absurd rfl (hs a b)
  | brz a b => cases hb
  | brnz a b => cases hb
  | inp d => simp only at h; split at h <;> cases h; rfl
  | out d => simp only at h; split at h <;> cases h; rfl
  | add d a b =>
    simp only at h
    split at h
    · rename_i c'' hc; cases h; show c''.pc + 1 = _; rw [(binop_keep hc).pc]
    · cases h
  | sub d a b =>
    simp only at h
    split at h
    · rename_i c'' hc; cases h; show c''.pc + 1 = _; rw [(binop_keep hc).pc]
    · cases h
  | mul d a b =>
    simp only at h
    split at h
    · rename_i c'' hc; cases h; show c''.pc + 1 = _; rw [(binop_keep hc).pc]
    · cases h
  | copy d s =>
    simp only at h
    split at h
    · rename_i c'' hc; cases h; show c''.pc + 1 = _
      rw [(writeLoc_keep hc).pc, (readLoc_keep c s).pc]
    · cases h


theorem steps_zero_eq {cfg : Cfg} {s s' : PState w} (h : steps cfg 0 s = some s') : s' = s := by
  simp only [steps, Option.some.injEq] at h; exact h.symm

/-- The program has no `noop` (true of everything `translate` returns: `strip_noops`). -/
def NoNoop (p : Bc.Program w) : Prop := ∀ i : Nat, p.insts[i]? ≠ some Bc.Instr.noop

/-- `sim_next` with PROGRESS: the machine makes at least one step for every bytecode step that continues. -/
theorem conv_sim_next (K : Ctx w) (G : Good K) (hnn : NoNoop K.p) {fr : Frame} (h7 : fr.saved.length = 7)
    {c : Bc.Cfg w} {s : PState w} (hbnd : K.safe = true → Bnd s) (hinv : Inv K fr c s) (hrel : Rel c (view s))
    {c' : Bc.Cfg w} (hstep : Bc.step K.p K.limited c = .next c') :
    ∃ n s' c2, 0 < n ∧ steps K.cfg n s = some s' ∧ Inv K fr c2 s' ∧ Rel c2 (view s') ∧
      C11.Sim (C11.liveSet K.p K.O c'.pc) c' c2 := by
  obtain ⟨n, s', c2, g1, g2, g3, g4⟩ := sim_next K G h7 hbnd hinv hrel hstep
  by_cases hn : 0 < n
  · exact ⟨n, s', c2, hn, g1, g2, g3, g4⟩
  have hn0 : n = 0 := by omega
  subst hn0
  have hss := steps_zero_eq g1
  rw [hss] at g2 g3
  clear g1 hss
  -- the instruction
  cases hi : K.p.insts[c.pc]? with
  | none =>
    unfold Bc.step at hstep
    simp only [hi] at hstep
    split at hstep <;> cases hstep
  | some ins =>
    have hpcs : K.loc c.pc = K.loc c'.pc := by rw [← hinv.pc, g2.pc, g4.pc]
    have nonbranch : BcWf.isBranch ins = false → (∀ a b, ins ≠ .scan a b) → False := by
      intro hb hs
      have hp := step_next_pc hi hb hs hstep
      have := K.loc_succ_lt hi (fun e => hnn c.pc (e ▸ hi))
      rw [hp] at hpcs; omega
    have branch : ∀ (nz : Bool) (cond off : Int), isBr ins nz cond off →
        ∃ n s2 c2, 0 < n ∧ steps K.cfg n s = some s2 ∧ Inv K fr c2 s2 ∧ Rel c2 (view s2) ∧
          C11.Sim (C11.liveSet K.p K.O c'.pc) c' c2 := by
      intro nz cond off hbr
      have hcond : -2147483648 ≤ cond ∧ cond < 2147483648 :=
        G.memOk hi (by rcases hbr with ⟨_, rfl⟩ | ⟨_, rfl⟩ <;> simp [BcWf.memOps])
      cases hlim : K.limited with
      | true =>
        exfalso
        have hst := hstep
        rw [step_branch hi hbr, hlim] at hst
        simp only [if_true] at hst
        unfold Bc.charge at hst
        simp only at hst
        by_cases hb : c.budget ≤ 1
        · simp only [hb, if_true] at hst; cases hst
        · simp only [hb, if_false] at hst
          have hbud : c'.budget = c.budget - 1 := by
            split at hst
            · split at hst <;> cases hst <;> rfl
            · cases hst; rfl
          have e1 := hinv.budget
          have e2 := g2.budget
          have e3 := g4.budget
          omega
      | false =>
        obtain ⟨lv, its, xs, hI⟩ := K.instrAt hi
        obtain ⟨hits, hfc⟩ := emit_branch hbr hI.emit
        have hnext : K.loc (c.pc + 1) ≤ K.loc K.n := K.loc_le hI.lt
        have hcmpsz : 0 < (cmpZero K.C.sz cond).size := size_pos _
        have hst := hstep
        rw [step_branch hi hbr] at hst
        have hres := hI.res
        have hnx := hI.next
        rw [hits] at hres hnx
        simp only [hlim, Bool.false_eq_true, if_false, List.nil_append] at hres hnx hst
        obtain ⟨s2, h1, h2, h3⟩ := branch_tail_inv K hcond hinv hrel hfc hnext (SameTmp.rfl' s) rfl hinv.budget
          (by rw [hinv.pc]; exact hres) (by rw [hinv.pc]; exact hI.at_)
          (by rw [hinv.pc, hnx]; simp [Item.size]; omega) hst
        exact ⟨2, s2, c', by decide, h1, h2, h3, ⟨rfl, rfl, rfl, fun _ _ => rfl⟩⟩
    cases ins with
    | brz cond off => exact branch false cond off (Or.inl ⟨rfl, rfl⟩)
    | brnz cond off => exact branch true cond off (Or.inr ⟨rfl, rfl⟩)
    | scan a b =>
      obtain ⟨lv, its, xs, hI⟩ := K.instrAt hi
      have := (emitInstr_raw hI.emit).1
      simp [emitInstrRaw] at this
    | noop => exact absurd hi (hnn c.pc)
    | mov sh => exact (nonbranch rfl (by intro a b; simp)).elim
    | inp d => exact (nonbranch rfl (by intro a b; simp)).elim
    | out d => exact (nonbranch rfl (by intro a b; simp)).elim
    | add d a b => exact (nonbranch rfl (by intro a b; simp)).elim
    | sub d a b => exact (nonbranch rfl (by intro a b; simp)).elim
    | mul d a b => exact (nonbranch rfl (by intro a b; simp)).elim
    | copy d a => exact (nonbranch rfl (by intro a b; simp)).elim

end C03
end Hpbf
