/-
Offsets of optimized IR, part 8: what happens to a finished sub-block — `inline`, `loopOrIf`.

`s` is the enclosing state (`Inv R g0 s`), `sub` the state of the body, built from drift
`gs = g0 + driftL s.insts` on (`Inv R gs sub`).
* `inline` appends `sub.insts` to `s.insts` and takes over `sub.shift`: the drift grows by `driftL sub.insts`.
  The names kept in `s` stay valid: either the body has no shift inside (`sub.subShift = false`, then
  `driftL sub.insts = 0`), or everything pending in `s` has been emitted before (`emitAll_pending_empty`)
  and `written` has been cleared (`uncertainShift`).
* `loopOrIf` appends one block instruction with shift `sub.shift - s.shift`; the same alternative.
The functions are first restated with explicit binds (`inline_eq`, `loopOrIf_eq`).
-/
import Hpbf.Proofs.OptOffsLoop

namespace Hpbf.OptOffs
open Hpbf Opt Ir
open Hpbf.OptLoop (VarsIn varsIn_iff)

variable {w : Nat}
set_option linter.unusedSimpArgs false

abbrev Calcs (w : Nat) := List (Int × Expr w)

/-! ### small facts about `Inv` -/

theorem Inv.of_eq {R g0 : Nat} {s s' : Rebuild w} (hi : Inv R g0 s) (h1 : s'.insts = s.insts)
    (h2 : s'.pending = s.pending) (h3 : s'.written = s.written) (h4 : s'.subShift = s.subShift) :
    Inv R g0 s' :=
  ⟨by rw [h1]; exact hi.insts, by rw [h1, h2]; exact hi.pend, by rw [h1, h3]; exact hi.writ,
   by rw [h2]; exact hi.sorted, by rw [h1, h4]; exact hi.flat⟩

/-- No entry of `written` is `known`. -/
def NoKnown (written : List (Int × OptWrite w)) : Prop := ∀ kv ∈ written, ∀ e, kv.2 ≠ .known e

theorem noKnown_nil : NoKnown ([] : List (Int × OptWrite w)) := fun _ h => by cases h

/-- Appending instructions `l`: the names kept in the state must survive the additional drift — either there
is none, or nothing is kept. -/
theorem inv_append {R g0 : Nat} {s s' : Rebuild w} (hi : Inv R g0 s) (l : List (Instr w))
    (hl : OkL R (g0 + driftL s.insts) l)
    (hcase : (s.pending = [] ∧ NoKnown s.written ∧ s.subShift = true) ∨ driftL l = 0)
    (h1 : s'.insts = s.insts ++ l) (h2 : s'.pending = s.pending) (h3 : s'.written = s.written)
    (h4 : s'.subShift = s.subShift) : Inv R g0 s' := by
  refine ⟨by rw [h1, okL_append]; exact ⟨hi.insts, hl⟩, ?_, ?_, by rw [h2]; exact hi.sorted, ?_⟩
  · rw [h1, h2, driftL_append]
    rcases hcase with ⟨e, _, _⟩ | e
    · rw [e]; exact fun kv h => by cases h
    · rw [e]; exact hi.pend
  · rw [h1, h3, driftL_append]
    rcases hcase with ⟨_, e, _⟩ | e
    · exact fun kv hkv x hx => absurd hx (e kv hkv x)
    · rw [e]; exact hi.writ
  · rw [h1, h4, driftL_append]
    rcases hcase with ⟨_, _, e⟩ | e
    · intro h; rw [e] at h; cases h
    · intro h; rw [hi.flat h, e]

theorem calcsOk_shift0 {R g : Nat} {calcs : Calcs w} (h : CalcsOk R g calcs) :
    ∀ vc ∈ calcs, NB R g (0 + vc.1) ∧ VarsIn (fun x => NB R g (x + 0)) vc.2 := by
  intro vc hvc
  obtain ⟨a, b⟩ := h vc hvc
  exact ⟨by rw [Int.zero_add]; exact a, VarsIn.imp b (fun x hx => by rw [Int.add_zero]; exact hx)⟩

theorem CalcsOk.anti {R g g' : Nat} {calcs : Calcs w} (h : CalcsOk R g' calcs) (hg : g ≤ g') :
    CalcsOk R g calcs :=
  fun vc hvc => ⟨(h vc hvc).1.anti hg, VarsIn.imp (h vc hvc).2 (fun _ hx => hx.anti hg)⟩

/-! ### a flushed state stays flushed under `clobberAll` -/

theorem emitStructured_empty (s : Rebuild w) (ps : List (Rebuild w)) (toEmit : List (Calcs w))
    (he : ∀ c ∈ toEmit, c = []) :
    (emitStructured s ps toEmit).written = s.written ∧ (emitStructured s ps toEmit).pending = s.pending := by
  unfold emitStructured
  refine foldl_inv (fun (s' : Rebuild w) => s'.written = s.written ∧ s'.pending = s.pending) _ toEmit ?_ ⟨rfl, rfl⟩
  intro s1 c hc h1
  rw [he c hc]
  simpa [writtenCalcs] using h1

theorem clobber_flushed {R g0 : Nat} {s : Rebuild w} (ps : List (Rebuild w)) (hi : Inv R g0 s) (var : Int)
    (maybe : Bool) (hp : s.pending = []) (hw : NoKnown s.written) {os os' : Orders} {s' : Rebuild w}
    (h : (clobber s ps var maybe).run os = .ok (s', os')) : s'.pending = [] ∧ NoKnown s'.written := by
  have hsub := (clobber_step ps hi var maybe h).sub
  rw [hp] at hsub
  refine ⟨List.eq_nil_of_sublist_nil hsub, ?_⟩
  unfold clobber at h
  rw [run_bind_ok] at h
  obtain ⟨⟨s1, toEmit⟩, os1, h1, h2⟩ := h
  simp only [run_pure, Except.ok.injEq, Prod.mk.injEq] at h2
  obtain ⟨rfl, _⟩ := h2
  have h0 : (if (!maybe) = true then (removePending s var).1 else s).pending = [] ∧
      (if (!maybe) = true then (removePending s var).1 else s).written = s.written := by
    split
    · have := removePending_pstep s var
      refine ⟨List.eq_nil_of_sublist_nil (by rw [← hp]; exact this.sub), this.written⟩
    · exact ⟨hp, rfl⟩
  obtain ⟨a, b, _⟩ := gatherForEmit_spec h1
  have hempty : ∀ c ∈ toEmit, c = [] := by
    intro c hc
    cases c with
    | nil => rfl
    | cons ve rest =>
      have := b _ hc ve List.mem_cons_self
      rw [h0.1] at this; cases this
  obtain ⟨e1, _⟩ := emitStructured_empty s1 ps toEmit hempty
  intro kv hkv e
  unfold insertWritten at hkv
  have hbase : NoKnown (emitStructured s1 ps toEmit).written := by
    rw [e1, a.written, h0.2]; exact hw
  split at hkv
  · rename_i x hx
    split at hx <;> cases hx
  · rcases mem_mSet hkv with h3 | h3
    · subst h3
      simp only
      split <;> exact fun hh => by cases hh
    · exact hbase kv h3 e

theorem clobberAll_flushed {R g0 : Nat} (ps : List (Rebuild w)) (vars : List (Int × Bool)) {s : Rebuild w}
    (hi : Inv R g0 s) (hp : s.pending = []) (hw : NoKnown s.written) {os os' : Orders} {s' : Rebuild w}
    (h : (clobberAll ps vars s).run os = .ok (s', os')) : s'.pending = [] ∧ NoKnown s'.written := by
  unfold clobberAll at h
  have := foldlM_inv (fun s' => Inv R g0 s' ∧ s'.pending = [] ∧ NoKnown s'.written) _ vars ?_
    ⟨hi, hp, hw⟩ h
  · exact this.2
  · intro sa v osa sb osb _ ha hstep
    exact ⟨(clobber_step ps ha.1 v.1 v.2 hstep).inv, clobber_flushed ps ha.1 v.1 v.2 ha.2.1 ha.2.2 hstep⟩

/-! ### `inline` -/

def inlineSc (sub s : Rebuild w) : Rebuild w × List (Int × Bool) :=
  sub.written.foldl (fun (acc : Rebuild w × List (Int × Bool)) vk =>
    if vk.2.isMaybe then (acc.1, acc.2 ++ [(vk.1, true)])
    else ((removePending acc.1 vk.1).1, acc.2 ++ [(vk.1, false)])) (s, [])

def inlineKnowns (sub : Rebuild w) : Calcs w :=
  sub.written.filterMap (fun vk =>
    match vk.2 with
    | .known e => some (vk.1, e)
    | _ => none)

def inlineTail (ps : List (Rebuild w)) (sub s : Rebuild w) : M (Rebuild w) :=
  clobberAll ps (Expr.stableSort (fun (a b : Int × Bool) => decide (a.1 ≤ b.1)) (inlineSc sub s).2)
      (inlineSc sub s).1 >>= fun s2 =>
    (if sub.noReturn then
        (pure { (writtenCalcs { s2 with insts := s2.insts ++ sub.insts } ps (inlineKnowns sub)) with
          noReturn := true } : M (Rebuild w))
      else
        takeInlineOrder sub.pending >>= fun pending =>
        performAll (writtenCalcs { s2 with insts := s2.insts ++ sub.insts } ps (inlineKnowns sub)) ps 0 pending
          >>= fun s5 => pure { s5 with shift := sub.shift }) >>= fun s6 =>
    pure { s6 with subAnal := s6.subAnal ++ sub.subAnal }

theorem inline_eq (s : Rebuild w) (ps : List (Rebuild w)) (sub : Rebuild w) :
    Opt.inline s ps sub =
      ((if sub.subShift then emitAll ps (pendingSorted s s) s >>= fun s1 => pure (uncertainShift s1)
        else emitReadAll ps (readsSorted sub s) s) >>= inlineTail ps sub) := by
  unfold Opt.inline inlineTail inlineSc inlineKnowns
  by_cases h1 : sub.subShift = true <;> by_cases h2 : sub.noReturn = true <;>
    simp only [h1, h2, if_true, if_false, bind_assoc, pure_bind, Bool.false_eq_true] <;> rfl

theorem inlineSc_pstep (sub s : Rebuild w) : PStep s (inlineSc sub s).1 := by
  unfold inlineSc
  refine foldl_inv (fun (acc : Rebuild w × List (Int × Bool)) => PStep s acc.1) _ _ ?_ (PStep.refl s)
  intro acc vk _ h
  split
  · exact h
  · exact h.trans (removePending_pstep _ _)

theorem takeInlineOrder_mem {pending r : Calcs w} {os os' : Orders}
    (h : (takeInlineOrder pending).run os = .ok (r, os')) : ∀ ve ∈ r, ve ∈ pending := by
  unfold takeInlineOrder at h
  simp only [StateT.run] at h
  split at h
  · simp only [Except.ok.injEq, Prod.mk.injEq] at h
    rw [← h.1]; exact fun _ h => h
  · split at h
    · split at h
      · simp only [Except.ok.injEq, Prod.mk.injEq] at h
        rw [← h.1]
        intro ve hve
        obtain ⟨k, _, hk⟩ := List.mem_filterMap.1 hve
        cases hg : mGet pending k with
        | none => rw [hg] at hk; cases hk
        | some e =>
          rw [hg] at hk
          simp only [Option.map_some, Option.some.injEq] at hk
          rw [← hk]; exact mem_of_mGet hg
      · cases h
    · cases h

theorem inline_step {R g0 : Nat} {s sub : Rebuild w} (ps : List (Rebuild w)) (hi : Inv R g0 s)
    (hsub : Inv R (g0 + driftL s.insts) sub) {os os' : Orders} {s' : Rebuild w}
    (h : (Opt.inline s ps sub).run os = .ok (s', os')) :
    Inv R g0 s' ∧ driftL s'.insts = driftL s.insts + driftL sub.insts ∧
      (s'.shift = sub.shift ∨ s'.shift = s.shift) := by
  rw [inline_eq, run_bind_ok] at h
  obtain ⟨s1, os1, h1, h2⟩ := h
  -- stage 1
  have st1 : Inv R g0 s1 ∧ driftL s1.insts = driftL s.insts ∧ s1.shift = s.shift ∧
      (sub.subShift = true → s1.pending = [] ∧ NoKnown s1.written ∧ s1.subShift = true) ∧
      (sub.subShift = false → s1.subShift = s.subShift) := by
    split at h1
    · rename_i hss
      rw [run_bind_ok] at h1
      obtain ⟨sa, osa, h3, h4⟩ := h1
      simp only [run_pure, Except.ok.injEq, Prod.mk.injEq] at h4
      obtain ⟨rfl, _⟩ := h4
      have ha := emitAll_step ps _ hi h3
      have hemp := emitAll_pending_empty ps hi h3
      refine ⟨⟨ha.inv.insts, ?_, fun kv h => (by cases h), ha.inv.sorted, fun h => (by cases h)⟩,
        ha.keep.drift, ha.keep.shift, fun _ => ⟨hemp, noKnown_nil, rfl⟩, fun h => (by rw [hss] at h; cases h)⟩
      show PendOk R _ sa.pending
      rw [hemp]; exact fun kv h => by cases h
    · rename_i hss
      have ha := emitReadAll_step ps _ hi h1
      exact ⟨ha.inv, ha.keep.drift, ha.keep.shift, fun h => absurd h hss, fun _ => ha.keep.subShift⟩
  obtain ⟨i1, d1, sh1, fl1, nf1⟩ := st1
  -- stage 2
  unfold inlineTail at h2
  rw [run_bind_ok] at h2
  obtain ⟨s2, os2, h3, h4⟩ := h2
  have hsc := inlineSc_pstep sub s1
  have i2 := hsc.inv i1
  have hcl := clobberAll_step ps _ i2 h3
  have d2 : driftL s2.insts = driftL s.insts := by rw [hcl.keep.drift, hsc.insts, d1]
  have sh2 : s2.shift = s.shift := by rw [hcl.keep.shift, hsc.shift, sh1]
  have ss2 : s2.subShift = s1.subShift := by rw [hcl.keep.subShift, hsc.subShift]
  have hcase : (s2.pending = [] ∧ NoKnown s2.written ∧ s2.subShift = true) ∨ driftL sub.insts = 0 := by
    cases hss : sub.subShift with
    | true =>
      obtain ⟨a, b, c⟩ := fl1 hss
      have hp : (inlineSc sub s1).1.pending = [] := List.eq_nil_of_sublist_nil (by rw [← a]; exact hsc.sub)
      obtain ⟨x, y⟩ := clobberAll_flushed ps _ i2 hp (by rw [hsc.written]; exact b) h3
      exact Or.inl ⟨x, y, by rw [ss2, c]⟩
    | false => exact Or.inr (hsub.flat hss)
  have i3 : Inv R g0 ({ s2 with insts := s2.insts ++ sub.insts } : Rebuild w) :=
    inv_append hcl.inv sub.insts (by rw [d2]; exact hsub.insts) hcase rfl rfl rfl rfl
  have d3 : driftL ({ s2 with insts := s2.insts ++ sub.insts } : Rebuild w).insts
      = driftL s.insts + driftL sub.insts := by
    show driftL (s2.insts ++ sub.insts) = _
    rw [driftL_append, d2]
  have hk : ∀ ve ∈ inlineKnowns sub, VarsIn (NB R (g0 + driftL
      ({ s2 with insts := s2.insts ++ sub.insts } : Rebuild w).insts)) ve.2 := by
    intro ve hve
    rw [d3, ← Nat.add_assoc]
    unfold inlineKnowns at hve
    obtain ⟨vk, hvk, e⟩ := List.mem_filterMap.1 hve
    split at e
    · rename_i ex hex
      simp only [Option.some.injEq] at e
      rw [← e]
      exact hsub.writ vk hvk ex hex
    · cases e
  have w4 := writtenCalcs_step ps i3 hk
  generalize writtenCalcs ({ s2 with insts := s2.insts ++ sub.insts } : Rebuild w) ps (inlineKnowns sub) = s4
    at w4 h4
  have d4 : driftL s4.insts = driftL s.insts + driftL sub.insts := by rw [w4.keep.drift, d3]
  have sh4 : s4.shift = s.shift := by rw [w4.keep.shift]; exact sh2
  rw [run_bind_ok] at h4
  obtain ⟨s6, os6, h5, h6⟩ := h4
  simp only [run_pure, Except.ok.injEq, Prod.mk.injEq] at h6
  obtain ⟨rfl, _⟩ := h6
  have st6 : Inv R g0 s6 ∧ driftL s6.insts = driftL s.insts + driftL sub.insts ∧
      (s6.shift = sub.shift ∨ s6.shift = s.shift) := by
    split at h5
    · simp only [run_pure, Except.ok.injEq, Prod.mk.injEq] at h5
      obtain ⟨rfl, _⟩ := h5
      exact ⟨w4.inv.of_eq rfl rfl rfl rfl, d4, Or.inr sh4⟩
    · rw [run_bind_ok] at h5
      obtain ⟨pending, osp, h7, h8⟩ := h5
      rw [run_bind_ok] at h8
      obtain ⟨s5, os5, h9, h10⟩ := h8
      simp only [run_pure, Except.ok.injEq, Prod.mk.injEq] at h10
      obtain ⟨rfl, _⟩ := h10
      have hmem := takeInlineOrder_mem h7
      have hpa := performAll_step ps w4.inv (shift := 0) (calcs := pending) (calcsOk_shift0 (by
        intro ve hve
        rw [d4, ← Nat.add_assoc]
        exact hsub.pend ve (hmem ve hve))) h9
      exact ⟨hpa.inv.of_eq rfl rfl rfl rfl, by show driftL s5.insts = _; rw [hpa.keep.drift, d4], Or.inl rfl⟩
  exact ⟨st6.1.of_eq rfl rfl rfl rfl, st6.2.1, st6.2.2⟩

/-! ### `loopOrIf` -/

def loiPre (sub : Rebuild w) : M (Rebuild w) :=
  if !sub.noReturn then emitAll [] (pendingSorted sub sub) sub else pure sub

def loiSc (sub s : Rebuild w) (constant : List Int) (loopAnal : OptLoop w) : Rebuild w × List (Int × Bool) :=
  sub.written.foldl (fun (acc : Rebuild w × List (Int × Bool)) vk =>
    if !constant.contains vk.1 then
      if vk.2.isMaybe || !loopAnal.atLeastOnce then (acc.1, acc.2 ++ [(vk.1, true)])
      else ((removePending acc.1 vk.1).1, acc.2 ++ [(vk.1, false)])
    else acc) (s, [])

def loiCondZero (sub s : Rebuild w) (cond : Int) : Rebuild w :=
  match mGet sub.written cond with
  | some (.known expr) =>
    if Expr.constant expr == some 0#w then insertWritten s cond (.known (Expr.val 0#w)) else s
  | _ => s

def loiStay (s : Rebuild w) (ps : List (Rebuild w)) (sub : Rebuild w) (cond : Int) (loopAnal : OptLoop w)
    (constant : List Int) : M (Rebuild w × Rebuild w × List Int) :=
  emitReadAll ps (readsSorted { sub with reads := sIns sub.reads cond } s) s >>= fun s1 =>
  emitReadAll ps ((mKeys sub.written).filter (fun var => constant.contains var)) s1 >>= fun s2 =>
  (if !loopAnal.noEffect then
      clobberAll ps (Expr.stableSort (fun (a b : Int × Bool) => decide (a.1 ≤ b.1)) (loiSc sub s2 constant loopAnal).2)
        (loiSc sub s2 constant loopAnal).1
    else pure s2) >>= fun s3 =>
  pure (loiCondZero sub s3 cond, { sub with reads := sIns sub.reads cond },
    (mKeys sub.written).filter (fun var => !constant.contains var))

def loiMid (s : Rebuild w) (ps : List (Rebuild w)) (sub : Rebuild w) (cond : Int) (loopAnal : OptLoop w)
    (constant : List Int) : M (Rebuild w × Rebuild w × List Int) :=
  if sub.subShift || sub.shift != s.shift then
    emitAll ps (pendingSorted s s) s >>= fun s1 => pure (uncertainShift s1, sub, ([] : List Int))
  else loiStay s ps sub cond loopAnal constant

def loiBody (s sub : Rebuild w) (cond : Int) (isLoop : Bool) (loopAnal : OptLoop w) : Rebuild w :=
  if isLoop then
    insertWritten { s with insts := s.insts ++
        [Ir.Instr.loop cond (sub.shift - s.shift) sub.insts loopAnal.atLeastOnce] }
      cond (.known (Expr.val 0#w))
  else { s with insts := s.insts ++ [Ir.Instr.ifnz cond (sub.shift - s.shift) sub.insts] }

def loiFin (s sub : Rebuild w) (clobbered : List Int) (cond : Int) (isLoop : Bool) (loopAnal : OptLoop w)
    (hasShift : Bool) : Rebuild w :=
  let s := loiBody s sub cond isLoop loopAnal
  let s := if loopAnal.noContinue then { s with noReturn := true } else s
  { s with subAnal := s.subAnal ++ [OptAnalysis.mk loopAnal hasShift sub.reads clobbered sub.subAnal] }

theorem loiFin_fields (s sub : Rebuild w) (clobbered : List Int) (cond : Int) (isLoop : Bool)
    (loopAnal : OptLoop w) (hasShift : Bool) :
    (loiFin s sub clobbered cond isLoop loopAnal hasShift).insts = (loiBody s sub cond isLoop loopAnal).insts ∧
    (loiFin s sub clobbered cond isLoop loopAnal hasShift).pending
      = (loiBody s sub cond isLoop loopAnal).pending ∧
    (loiFin s sub clobbered cond isLoop loopAnal hasShift).written
      = (loiBody s sub cond isLoop loopAnal).written ∧
    (loiFin s sub clobbered cond isLoop loopAnal hasShift).subShift
      = (loiBody s sub cond isLoop loopAnal).subShift ∧
    (loiFin s sub clobbered cond isLoop loopAnal hasShift).shift
      = (loiBody s sub cond isLoop loopAnal).shift := by
  unfold loiFin
  simp only
  split <;> exact ⟨rfl, rfl, rfl, rfl, rfl⟩

theorem loopOrIf_eq (s : Rebuild w) (ps : List (Rebuild w)) (sub : Rebuild w) (cond : Int) (isLoop : Bool)
    (loopAnal : OptLoop w) (constant : List Int) :
    loopOrIf s ps sub cond isLoop loopAnal constant =
      (loiPre sub >>= fun sub1 => loiMid s ps sub1 cond loopAnal constant >>= fun r =>
        pure (loiFin r.1 r.2.1 r.2.2 cond isLoop loopAnal (sub1.subShift || sub1.shift != s.shift))) := by
  unfold loopOrIf loiPre loiMid loiStay
  by_cases h1 : sub.noReturn = true
  · simp only [h1, Bool.not_true, Bool.false_eq_true, if_false, pure_bind]
    by_cases h2 : (sub.subShift || sub.shift != s.shift) = true
    · simp only [h2, if_true, bind_assoc, pure_bind]
      rfl
    · simp only [h2, if_false, bind_assoc, pure_bind, Bool.false_eq_true]
      by_cases h3 : loopAnal.noEffect = true
      · simp only [h3, Bool.not_true, Bool.false_eq_true, if_false, bind_assoc, pure_bind]
        rfl
      · simp only [h3, Bool.not_false, if_true, bind_assoc, pure_bind]
        rfl
  · have h1' : sub.noReturn = false := by simpa using h1
    simp only [h1', Bool.not_false, if_true, bind_assoc]
    congr 1; funext sub1
    by_cases h2 : (sub1.subShift || sub1.shift != s.shift) = true
    · simp only [h2, if_true, bind_assoc, pure_bind]
      rfl
    · simp only [h2, if_false, bind_assoc, pure_bind, Bool.false_eq_true]
      by_cases h3 : loopAnal.noEffect = true
      · simp only [h3, Bool.not_true, Bool.false_eq_true, if_false, bind_assoc, pure_bind]
        rfl
      · simp only [h3, Bool.not_false, if_true, bind_assoc, pure_bind]
        rfl

theorem loiSc_pstep (sub s : Rebuild w) (constant : List Int) (loopAnal : OptLoop w) :
    PStep s (loiSc sub s constant loopAnal).1 := by
  unfold loiSc
  refine foldl_inv (fun (acc : Rebuild w × List (Int × Bool)) => PStep s acc.1) _ _ ?_ (PStep.refl s)
  intro acc vk _ h
  split
  · split
    · exact h
    · exact h.trans (removePending_pstep _ _)
  · exact h

theorem loiCondZero_step {R g0 : Nat} {s : Rebuild w} (sub : Rebuild w) (hi : Inv R g0 s) (cond : Int) :
    KStep R g0 s (loiCondZero sub s cond) := by
  unfold loiCondZero
  split
  · split
    · obtain ⟨a, b, _⟩ := insertWritten_inv hi cond (.known (Expr.val 0#w)) (by
        intro e he
        simp only [OptWrite.known.injEq] at he
        subst he; exact varsIn_val _)
      exact ⟨a, b⟩
    · exact KStep.refl hi
  · exact KStep.refl hi

theorem loiStay_spec {R g0 : Nat} {s : Rebuild w} (ps : List (Rebuild w)) (sub : Rebuild w) (cond : Int)
    (loopAnal : OptLoop w) (constant : List Int) (hi : Inv R g0 s) {os os' : Orders}
    {r : Rebuild w × Rebuild w × List Int}
    (h : (loiStay s ps sub cond loopAnal constant).run os = .ok (r, os')) :
    KStep R g0 s r.1 ∧ r.2.1.insts = sub.insts ∧ r.2.1.shift = sub.shift := by
  unfold loiStay at h
  rw [run_bind_ok] at h
  obtain ⟨s1, os1, h1, h2⟩ := h
  rw [run_bind_ok] at h2
  obtain ⟨s2, os2, h3, h4⟩ := h2
  rw [run_bind_ok] at h4
  obtain ⟨s3, os3, h5, h6⟩ := h4
  simp only [run_pure, Except.ok.injEq, Prod.mk.injEq] at h6
  obtain ⟨rfl, _⟩ := h6
  have e1 := (emitReadAll_step ps _ hi h1).kstep
  have e2 := e1.trans (emitReadAll_step ps _ e1.inv h3).kstep
  have e3 : KStep R g0 s s3 := by
    split at h5
    · have hp := loiSc_pstep sub s2 constant loopAnal
      have e := (hp.estep e2.inv).kstep
      exact (e2.trans e).trans (clobberAll_step ps _ e.inv h5).kstep
    · simp only [run_pure, Except.ok.injEq, Prod.mk.injEq] at h5
      rw [← h5.1]; exact e2
  exact ⟨e3.trans (loiCondZero_step sub e3.inv cond), rfl, rfl⟩

theorem loiMid_spec {R g0 : Nat} {s : Rebuild w} (ps : List (Rebuild w)) (sub : Rebuild w) (cond : Int)
    (loopAnal : OptLoop w) (constant : List Int) (hi : Inv R g0 s) {os os' : Orders}
    {r : Rebuild w × Rebuild w × List Int}
    (h : (loiMid s ps sub cond loopAnal constant).run os = .ok (r, os')) :
    Inv R g0 r.1 ∧ driftL r.1.insts = driftL s.insts ∧ r.1.shift = s.shift ∧
    r.2.1.insts = sub.insts ∧ r.2.1.shift = sub.shift ∧
    ((sub.subShift || sub.shift != s.shift) = true →
      r.1.pending = [] ∧ NoKnown r.1.written ∧ r.1.subShift = true) ∧
    ((sub.subShift || sub.shift != s.shift) = false → r.1.subShift = s.subShift) := by
  unfold loiMid at h
  split at h
  · rename_i hhs
    rw [run_bind_ok] at h
    obtain ⟨sa, osa, h3, h4⟩ := h
    simp only [run_pure, Except.ok.injEq, Prod.mk.injEq] at h4
    obtain ⟨rfl, _⟩ := h4
    have ha := emitAll_step ps _ hi h3
    have hemp := emitAll_pending_empty ps hi h3
    refine ⟨⟨ha.inv.insts, ?_, fun kv h => (by cases h), ha.inv.sorted, fun h => (by cases h)⟩,
      ha.keep.drift, ha.keep.shift, rfl, rfl, fun _ => ⟨hemp, noKnown_nil, rfl⟩,
      fun h => (by rw [hhs] at h; cases h)⟩
    show PendOk R _ sa.pending
    rw [hemp]; exact fun kv h => by cases h
  · rename_i hhs
    obtain ⟨a, b, c⟩ := loiStay_spec ps sub cond loopAnal constant hi h
    exact ⟨a.inv, a.keep.drift, a.keep.shift, b, c, fun h => absurd h hhs, fun _ => a.keep.subShift⟩

theorem loiFin_spec {R g0 : Nat} {s sub : Rebuild w} (clobbered : List Int) {cond : Int} (isLoop : Bool)
    (loopAnal : OptLoop w) (hasShift : Bool) (hi : Inv R g0 s) (hb : OkL R (g0 + driftL s.insts) sub.insts)
    (hc : NB R (g0 + driftL s.insts) cond)
    (hcase : (s.pending = [] ∧ NoKnown s.written ∧ s.subShift = true) ∨
      (driftL sub.insts = 0 ∧ sub.shift = s.shift)) :
    Inv R g0 (loiFin s sub clobbered cond isLoop loopAnal hasShift) ∧
    driftL (loiFin s sub clobbered cond isLoop loopAnal hasShift).insts
      = driftL s.insts + driftL sub.insts + (sub.shift - s.shift).natAbs ∧
    (loiFin s sub clobbered cond isLoop loopAnal hasShift).shift = s.shift := by
  obtain ⟨f1, f2, f3, f4, f5⟩ := loiFin_fields s sub clobbered cond isLoop loopAnal hasShift
  suffices hb' : Inv R g0 (loiBody s sub cond isLoop loopAnal) ∧
      driftL (loiBody s sub cond isLoop loopAnal).insts
        = driftL s.insts + driftL sub.insts + (sub.shift - s.shift).natAbs ∧
      (loiBody s sub cond isLoop loopAnal).shift = s.shift by
    exact ⟨hb'.1.of_eq f1 f2 f3 f4, by rw [f1]; exact hb'.2.1, by rw [f5]; exact hb'.2.2⟩
  have happ : ∀ (i : Instr w), OkI R (g0 + driftL s.insts) i →
      driftI i = driftL sub.insts + (sub.shift - s.shift).natAbs →
      Inv R g0 ({ s with insts := s.insts ++ [i] } : Rebuild w) ∧
      driftL ({ s with insts := s.insts ++ [i] } : Rebuild w).insts
        = driftL s.insts + driftL sub.insts + (sub.shift - s.shift).natAbs := by
    intro i hok hd
    refine ⟨inv_append hi [i] (by rw [okL_cons]; exact ⟨hok, okL_nil _ _⟩) ?_ rfl rfl rfl rfl, ?_⟩
    · rcases hcase with h | ⟨h1, h2⟩
      · exact Or.inl h
      · right
        simp only [driftL, hd, h1, h2]; simp
    · show driftL (s.insts ++ [i]) = _
      rw [driftL_snoc, hd]; omega
  unfold loiBody
  split
  · obtain ⟨a, b⟩ := happ (Instr.loop cond (sub.shift - s.shift) sub.insts loopAnal.atLeastOnce)
      (okI_loop.2 ⟨hc, hb⟩) (by simp [driftI])
    obtain ⟨x, y, _⟩ := insertWritten_inv a cond (.known (Expr.val 0#w)) (by
      intro e he
      simp only [OptWrite.known.injEq] at he
      subst he; exact varsIn_val _)
    exact ⟨x, y.drift.trans b, y.shift⟩
  · obtain ⟨a, b⟩ := happ (Instr.ifnz cond (sub.shift - s.shift) sub.insts)
      (okI_ifnz.2 ⟨hc, hb⟩) (by simp [driftI])
    exact ⟨a, b, rfl⟩

theorem loopOrIf_step {R g0 : Nat} {s sub : Rebuild w} (ps : List (Rebuild w)) {cond : Int} (isLoop : Bool)
    (loopAnal : OptLoop w) (constant : List Int) (hi : Inv R g0 s)
    (hsub : Inv R (g0 + driftL s.insts) sub) (hc : NB R (g0 + driftL s.insts) cond)
    {os os' : Orders} {s' : Rebuild w}
    (h : (loopOrIf s ps sub cond isLoop loopAnal constant).run os = .ok (s', os')) :
    Inv R g0 s' ∧ driftL s'.insts = driftL s.insts + driftL sub.insts + (sub.shift - s.shift).natAbs ∧
      s'.shift = s.shift := by
  rw [loopOrIf_eq, run_bind_ok] at h
  obtain ⟨sub1, os1, h1, h2⟩ := h
  rw [run_bind_ok] at h2
  obtain ⟨r, os2, h3, h4⟩ := h2
  simp only [run_pure, Except.ok.injEq, Prod.mk.injEq] at h4
  obtain ⟨rfl, _⟩ := h4
  have hs1 : EStep R (g0 + driftL s.insts) sub sub1 := by
    unfold loiPre at h1
    split at h1
    · exact emitAll_step [] _ hsub h1
    · simp only [run_pure, Except.ok.injEq, Prod.mk.injEq] at h1
      rw [← h1.1]; exact EStep.refl hsub
  obtain ⟨a, b, c, d, e, f, g⟩ := loiMid_spec ps sub1 cond loopAnal constant hi h3
  have hcase : (r.1.pending = [] ∧ NoKnown r.1.written ∧ r.1.subShift = true) ∨
      (driftL r.2.1.insts = 0 ∧ r.2.1.shift = r.1.shift) := by
    cases hhs : (sub1.subShift || sub1.shift != s.shift) with
    | true => exact Or.inl (f hhs)
    | false =>
      right
      simp only [Bool.or_eq_false_iff, bne_eq_false_iff_eq] at hhs
      rw [d, e, c]
      exact ⟨hs1.inv.flat hhs.1, hhs.2⟩
  obtain ⟨x, y, z⟩ := loiFin_spec r.2.2 isLoop loopAnal (sub1.subShift || sub1.shift != s.shift) a
    (sub := r.2.1) (cond := cond) (by rw [b, d]; exact hs1.inv.insts) (by rw [b]; exact hc) hcase
  refine ⟨x, ?_, z.trans c⟩
  rw [y, b, d, e, c, hs1.keep.drift, hs1.keep.shift]

end Hpbf.OptOffs
