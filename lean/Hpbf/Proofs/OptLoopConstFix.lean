/-
Loop optimisations of `Hpbf/Opt.lean`, part A (syntactic half, continued): the invariant of the work-list
algorithm of `constantsAmong` and its result `constantsAmong_good`.
-/
import Hpbf.Proofs.OptLoopConstAlg

namespace Hpbf.OptLoop
open Hpbf Opt OptSem Expr

variable {w : Nat}

/-- `var` passed the tests of `constants_among`; `vs` are the variables handed to `check_constant`
(`[]` for a variable that is neither written nor pending). -/
def IsCand (s : Rebuild w) (ps : List (Rebuild w)) (sub : Rebuild w) (var : Int) (vs : List Int) : Prop :=
  match mGet sub.written var with
  | some (.known wr) =>
    compare s ps (Expr.var var) wr = .ok true ∧
      (match mGet sub.pending var with
       | some p => compare s ps (Expr.var var) p = .ok true ∧ vs = Expr.variables wr ++ Expr.variables p
       | none => vs = Expr.variables wr)
  | some _ => False
  | none =>
    match mGet sub.pending var with
    | some p => compare s ps (Expr.var var) p = .ok true ∧ vs = Expr.variables p
    | none => vs = []

/-- `c` passed the tests and all the variables it depends on are `c` itself or in `C`. -/
def Good (s : Rebuild w) (ps : List (Rebuild w)) (sub : Rebuild w) (C : List Int) (c : Int) : Prop :=
  ∃ vs, IsCand s ps sub c vs ∧ ∀ x ∈ vs, x = c ∨ x ∈ C

theorem Good.mono {s : Rebuild w} {ps : List (Rebuild w)} {sub : Rebuild w} {C C' : List Int} {c : Int}
    (h : Good s ps sub C c) (hsub : ∀ x ∈ C, x ∈ C') : Good s ps sub C' c := by
  obtain ⟨vs, hc, hv⟩ := h
  exact ⟨vs, hc, fun x hx => (hv x hx).imp id (hsub x)⟩

/-- The state of `constants_among`: `(constant, dependents, depends_on)`. -/
abbrev CState := List Int × List (Int × List Int) × List (Int × Nat)

/-- Invariant of the first loop; `done` are the variables handled so far. -/
structure Inv1 (s : Rebuild w) (ps : List (Rebuild w)) (sub : Rebuild w) (done : List Int) (st : CState) :
    Prop where
  good : ∀ c ∈ st.1, Good s ps sub st.1 c
  dep : ∀ var k, mGet st.2.2 var = some k →
    ∃ vs, IsCand s ps sub var vs ∧
      (∀ x ∈ vs, x = var ∨ x ∈ st.1 ∨ var ∈ (mGet st.2.1 x).getD []) ∧ occ st.2.1 var ≤ k
  fresh : ∀ u, u ∉ done → occ st.2.1 u = 0
  asc : KeysAsc st.2.1

/-- The `for v in iter().filter(x != var)` loop of `check_constant`. -/
def pushDeps (var : Int) (others : List Int) (d : List (Int × List Int)) : List (Int × List Int) :=
  others.foldl (fun d v => mSet d v (((mGet d v).getD []) ++ [var])) d

theorem pushDeps_spec (var : Int) (others : List Int) (d : List (Int × List Int)) (h : KeysAsc d) :
    KeysAsc (pushDeps var others d) ∧
    (∀ u, occ (pushDeps var others d) u = occ d u + (if u = var then others.length else 0)) ∧
    (∀ x u, u ∈ (mGet d x).getD [] → u ∈ (mGet (pushDeps var others d) x).getD []) ∧
    (∀ x ∈ others, var ∈ (mGet (pushDeps var others d) x).getD []) := by
  induction others generalizing d with
  | nil =>
    refine ⟨h, fun u => ?_, fun x u hu => hu, fun x hx => by cases hx⟩
    simp [pushDeps]
  | cons v others ih =>
    have hd1 := keysAsc_mSet d v (((mGet d v).getD []) ++ [var]) h
    obtain ⟨ha, hocc, hmono, hmem⟩ := ih (mSet d v (((mGet d v).getD []) ++ [var])) hd1
    have hpd : pushDeps var (v :: others) d
        = pushDeps var others (mSet d v (((mGet d v).getD []) ++ [var])) := rfl
    rw [hpd]
    have hstepmono : ∀ x u, u ∈ (mGet d x).getD [] →
        u ∈ (mGet (mSet d v (((mGet d v).getD []) ++ [var])) x).getD [] := by
      intro x u hu
      rw [mGet_mSet]
      split
      · rename_i hvx; subst hvx
        simp only [Option.getD_some]
        exact List.mem_append_left _ hu
      · exact hu
    refine ⟨ha, fun u => ?_, fun x u hu => hmono x u (hstepmono x u hu), fun x hx => ?_⟩
    · rw [hocc u]
      have h1 := occ_mSet d v (((mGet d v).getD []) ++ [var]) u h
      rw [List.count_append] at h1
      by_cases huv : u = var
      · subst huv
        simp only [List.count_singleton_self, if_true, List.length_cons] at h1 ⊢
        omega
      · have : List.count u [var] = 0 := by
          rw [List.count_eq_zero]; simpa using huv
        simp only [this, if_neg huv] at h1 ⊢
        omega
    · rcases List.mem_cons.1 hx with hx | hx
      · subst hx
        apply hmono
        rw [mGet_mSet, if_pos rfl]
        simp
      · exact hmem x hx

theorem checkConstant_eq (var : Int) (vs : List Int) (st : CState) :
    checkConstant var vs st =
      if vs.all (fun x => x == var || st.1.contains x) then (sIns st.1 var, st.2.1, st.2.2)
      else (st.1, pushDeps var (vs.filter (fun x => !(x == var))) st.2.1,
            mSet st.2.2 var (vs.filter (fun x => !(x == var))).length) := by
  obtain ⟨c, d, o⟩ := st
  rfl

theorem inv1_addConst {s : Rebuild w} {ps : List (Rebuild w)} {sub : Rebuild w} {done : List Int}
    {st : CState} (h : Inv1 s ps sub done st) (var : Int) (vs : List Int)
    (hc : IsCand s ps sub var vs) (hall : ∀ x ∈ vs, x = var ∨ x ∈ st.1) :
    Inv1 s ps sub (var :: done) (sIns st.1 var, st.2.1, st.2.2) := by
  have hsub : ∀ x ∈ st.1, x ∈ sIns st.1 var := fun x hx => mem_sIns.2 (Or.inr hx)
  constructor
  · intro c hcm
    rcases mem_sIns.1 hcm with rfl | hcm
    · exact ⟨vs, hc, fun x hx => (hall x hx).imp id (hsub x)⟩
    · exact (h.good c hcm).mono hsub
  · intro v k hk
    obtain ⟨vs', hc', hv', ho'⟩ := h.dep v k hk
    exact ⟨vs', hc', fun x hx => (hv' x hx).imp id (fun h => h.imp (hsub x) id), ho'⟩
  · intro u hu
    exact h.fresh u (fun hd => hu (List.mem_cons_of_mem _ hd))
  · exact h.asc

theorem inv1_skip {s : Rebuild w} {ps : List (Rebuild w)} {sub : Rebuild w} {done : List Int}
    {st : CState} (h : Inv1 s ps sub done st) (var : Int) : Inv1 s ps sub (var :: done) st :=
  ⟨h.good, h.dep, fun u hu => h.fresh u (fun hd => hu (List.mem_cons_of_mem _ hd)), h.asc⟩

theorem inv1_checkConstant {s : Rebuild w} {ps : List (Rebuild w)} {sub : Rebuild w} {done : List Int}
    {st : CState} (h : Inv1 s ps sub done st) (var : Int) (hnd : var ∉ done) (vs : List Int)
    (hc : IsCand s ps sub var vs) :
    Inv1 s ps sub (var :: done) (checkConstant var vs st) := by
  rw [checkConstant_eq]
  split
  · rename_i hall
    apply inv1_addConst h var vs hc
    intro x hx
    have := List.all_eq_true.1 hall x hx
    simp only [Bool.or_eq_true, beq_iff_eq, List.contains_eq_mem, decide_eq_true_eq] at this
    exact this
  · obtain ⟨ha, hocc, hmono, hmem⟩ :=
      pushDeps_spec var (vs.filter (fun x => !(x == var))) st.2.1 h.asc
    constructor
    · exact h.good
    · intro v k hk
      simp only at hk
      rw [mGet_mSet] at hk
      split at hk
      · rename_i hvv
        subst hvv
        simp only [Option.some.injEq] at hk
        refine ⟨vs, hc, fun x hx => ?_, ?_⟩
        · by_cases hxv : x = var
          · exact Or.inl hxv
          · right; right
            exact hmem x (List.mem_filter.2 ⟨hx, by simpa using hxv⟩)
        · show occ (pushDeps var _ st.2.1) var ≤ k
          rw [hocc var, h.fresh var hnd, if_pos rfl]; omega
      · rename_i hvv
        obtain ⟨vs', hc', hv', ho'⟩ := h.dep v k hk
        refine ⟨vs', hc', fun x hx => (hv' x hx).imp id (fun h => h.imp id (hmono x v)), ?_⟩
        show occ (pushDeps var _ st.2.1) v ≤ k
        rw [hocc v, if_neg (fun h => hvv h.symm)]; exact ho'
    · intro u hu
      show occ (pushDeps var _ st.2.1) u = 0
      have hne : u ≠ var := fun h => hu (by rw [h]; exact List.mem_cons_self)
      rw [hocc u, if_neg hne, h.fresh u (fun hd => hu (List.mem_cons_of_mem _ hd))]
    · exact ha

/-- The body of the first loop of `constants_among`. -/
def constStep (s : Rebuild w) (ps : List (Rebuild w)) (sub : Rebuild w) (st : CState) (var : Int) :
    Except String CState := do
  match mGet sub.written var with
  | some (.known written) =>
    if (← compare s ps (Expr.var var) written) then
      match mGet sub.pending var with
      | some pending =>
        if (← compare s ps (Expr.var var) pending) then
          pure (checkConstant var (Expr.variables written ++ Expr.variables pending) st)
        else pure st
      | none => pure (checkConstant var (Expr.variables written) st)
    else pure st
  | some _ => pure st
  | none =>
    match mGet sub.pending var with
    | some pending =>
      if (← compare s ps (Expr.var var) pending) then
        pure (checkConstant var (Expr.variables pending) st)
      else pure st
    | none => pure (sIns st.1 var, st.2.1, st.2.2)

theorem constantsAmong_eq (s : Rebuild w) (ps : List (Rebuild w)) (sub : Rebuild w) (vars : List Int) :
    constantsAmong s ps sub vars = (do
      let st ← vars.foldlM (constStep s ps sub) ([], [], [])
      constLoop (st.1.length + st.2.2.length + 1) st.1.reverse st.1 st.2.1 st.2.2) := rfl

theorem except_bind_ok {α β : Type} {x : Except String α} {f : α → Except String β} {b : β}
    (h : (x >>= f) = .ok b) : ∃ a, x = .ok a ∧ f a = .ok b := by
  cases x with
  | error e => cases h
  | ok a => exact ⟨a, rfl, h⟩

theorem isCand_wp {s : Rebuild w} {ps : List (Rebuild w)} {sub : Rebuild w} {var : Int} {wr p : Expr w}
    (hw : mGet sub.written var = some (.known wr)) (hp : mGet sub.pending var = some p)
    (h1 : compare s ps (Expr.var var) wr = .ok true) (h2 : compare s ps (Expr.var var) p = .ok true) :
    IsCand s ps sub var (Expr.variables wr ++ Expr.variables p) := by
  simp [IsCand, hw, hp, h1, h2]

theorem isCand_w {s : Rebuild w} {ps : List (Rebuild w)} {sub : Rebuild w} {var : Int} {wr : Expr w}
    (hw : mGet sub.written var = some (.known wr)) (hp : mGet sub.pending var = none)
    (h1 : compare s ps (Expr.var var) wr = .ok true) :
    IsCand s ps sub var (Expr.variables wr) := by
  simp [IsCand, hw, hp, h1]

theorem isCand_p {s : Rebuild w} {ps : List (Rebuild w)} {sub : Rebuild w} {var : Int} {p : Expr w}
    (hw : mGet sub.written var = none) (hp : mGet sub.pending var = some p)
    (h2 : compare s ps (Expr.var var) p = .ok true) :
    IsCand s ps sub var (Expr.variables p) := by
  simp [IsCand, hw, hp, h2]

theorem isCand_none {s : Rebuild w} {ps : List (Rebuild w)} {sub : Rebuild w} {var : Int}
    (hw : mGet sub.written var = none) (hp : mGet sub.pending var = none) :
    IsCand s ps sub var [] := by
  simp [IsCand, hw, hp]

theorem inv1_constStep {s : Rebuild w} {ps : List (Rebuild w)} {sub : Rebuild w} {done : List Int}
    {st st' : CState} (h : Inv1 s ps sub done st) (var : Int) (hnd : var ∉ done)
    (hstep : constStep s ps sub st var = .ok st') : Inv1 s ps sub (var :: done) st' := by
  unfold constStep at hstep
  split at hstep
  · rename_i wr hw
    obtain ⟨b, hb, hstep⟩ := except_bind_ok hstep
    cases b with
    | false =>
      simp only [Bool.false_eq_true, if_false] at hstep
      cases hstep; exact inv1_skip h var
    | true =>
      simp only [if_true] at hstep
      split at hstep
      · rename_i p hp
        obtain ⟨b2, hb2, hstep⟩ := except_bind_ok hstep
        cases b2 with
        | false =>
          simp only [Bool.false_eq_true, if_false] at hstep
          cases hstep; exact inv1_skip h var
        | true =>
          simp only [if_true] at hstep
          cases hstep
          exact inv1_checkConstant h var hnd _ (isCand_wp hw hp hb hb2)
      · rename_i hp
        cases hstep
        exact inv1_checkConstant h var hnd _ (isCand_w hw hp hb)
  · cases hstep; exact inv1_skip h var
  · rename_i hw
    split at hstep
    · rename_i p hp
      obtain ⟨b, hb, hstep⟩ := except_bind_ok hstep
      cases b with
      | false =>
        simp only [Bool.false_eq_true, if_false] at hstep
        cases hstep; exact inv1_skip h var
      | true =>
        simp only [if_true] at hstep
        cases hstep
        exact inv1_checkConstant h var hnd _ (isCand_p hw hp hb)
    · rename_i hp
      cases hstep
      exact inv1_addConst h var [] (isCand_none hw hp) (fun x hx => by cases hx)

theorem inv1_fold {s : Rebuild w} {ps : List (Rebuild w)} {sub : Rebuild w} (vars : List Int)
    (done : List Int) (st st' : CState) (h : Inv1 s ps sub done st) (hnd : vars.Nodup)
    (hdis : ∀ v ∈ vars, v ∉ done) (hf : vars.foldlM (constStep s ps sub) st = .ok st') :
    ∃ done', Inv1 s ps sub done' st' := by
  induction vars generalizing done st with
  | nil =>
    simp only [List.foldlM_nil] at hf
    cases hf; exact ⟨done, h⟩
  | cons v vars ih =>
    rw [List.foldlM_cons] at hf
    obtain ⟨st1, hst1, hf⟩ := except_bind_ok hf
    rw [List.nodup_cons] at hnd
    have h1 := inv1_constStep h v (hdis v List.mem_cons_self) hst1
    refine ih (v :: done) st1 h1 hnd.2 (fun x hx => ?_) hf
    intro hxd
    rcases List.mem_cons.1 hxd with rfl | hxd
    · exact hnd.1 hx
    · exact hdis x (List.mem_cons_of_mem _ hx) hxd

/-! ### the second loop -/

/-- Invariant of the work-list loop; `rest` is the part of the list `deps` of the constant being popped
that has not been handled yet (`d` no longer contains that list). -/
structure Inv2 (s : Rebuild w) (ps : List (Rebuild w)) (sub : Rebuild w) (stack constant : List Int)
    (d : List (Int × List Int)) (rest : List Int) (dependsOn : List (Int × Nat)) : Prop where
  good : ∀ c ∈ constant, Good s ps sub constant c
  stk : ∀ c ∈ stack, c ∈ constant
  dep : ∀ var k, mGet dependsOn var = some k →
    ∃ vs, IsCand s ps sub var vs ∧
      (∀ x ∈ vs, x = var ∨ x ∈ constant ∨ var ∈ (mGet d x).getD []) ∧ rest.count var + occ d var ≤ k

theorem not_mem_of_occ_zero (d : List (Int × List Int)) (u x : Int) (h : occ d u = 0) :
    u ∉ (mGet d x).getD [] := by
  cases hg : mGet d x with
  | none => simp
  | some l =>
    have := count_le_occ d x l u hg
    simp only [Option.getD_some]
    intro hm
    have : 0 < l.count u := List.count_pos_iff.2 hm
    omega

theorem inv2_constDeps {s : Rebuild w} {ps : List (Rebuild w)} {sub : Rebuild w}
    (d : List (Int × List Int)) (deps : List Int) (stack constant : List Int)
    (dependsOn : List (Int × Nat)) (stack' constant' : List Int) (dependsOn' : List (Int × Nat))
    (h : Inv2 s ps sub stack constant d deps dependsOn)
    (hr : constDeps deps (stack, constant, dependsOn) = .ok (stack', constant', dependsOn')) :
    Inv2 s ps sub stack' constant' d [] dependsOn' := by
  induction deps generalizing stack constant dependsOn with
  | nil =>
    simp only [constDeps] at hr
    cases hr; exact h
  | cons dep rest ih =>
    simp only [constDeps] at hr
    split at hr
    · cases hr
    · cases hr
    · rename_i v hv
      obtain ⟨vs, hc, hvs, hcnt⟩ := h.dep dep (v + 1) hv
      simp only [List.count_cons_self] at hcnt
      split at hr
      · -- the counter reaches zero: `dep` becomes constant
        rename_i hv0
        have hv0' : v = 0 := by simpa using hv0
        subst hv0'
        have hocc0 : occ d dep = 0 := by omega
        have hsub : ∀ x ∈ constant, x ∈ sIns constant dep := fun x hx => mem_sIns.2 (Or.inr hx)
        refine ih (dep :: stack) (sIns constant dep) (mSet dependsOn dep 0) ?_ hr
        constructor
        · intro c hcm
          rcases mem_sIns.1 hcm with rfl | hcm
          · refine ⟨vs, hc, fun x hx => ?_⟩
            rcases hvs x hx with h1 | h1 | h1
            · exact Or.inl h1
            · exact Or.inr (hsub x h1)
            · exact absurd h1 (not_mem_of_occ_zero d c x hocc0)
          · exact (h.good c hcm).mono hsub
        · intro c hcm
          rcases List.mem_cons.1 hcm with rfl | hcm
          · exact mem_sIns.2 (Or.inl rfl)
          · exact hsub c (h.stk c hcm)
        · intro var k hk
          rw [mGet_mSet] at hk
          split at hk
          · rename_i hdv; subst hdv
            simp only [Option.some.injEq] at hk
            subst hk
            refine ⟨vs, hc, fun x hx => (hvs x hx).imp id (fun h => h.imp (hsub x) id), ?_⟩
            omega
          · rename_i hdv
            obtain ⟨vs', hc', hv', ho'⟩ := h.dep var k hk
            refine ⟨vs', hc', fun x hx => (hv' x hx).imp id (fun h => h.imp (hsub x) id), ?_⟩
            rw [List.count_cons_of_ne hdv] at ho'
            exact ho'
      · refine ih stack constant (mSet dependsOn dep v) ?_ hr
        constructor
        · exact h.good
        · exact h.stk
        · intro var k hk
          rw [mGet_mSet] at hk
          split at hk
          · rename_i hdv; subst hdv
            simp only [Option.some.injEq] at hk
            subst hk
            exact ⟨vs, hc, hvs, by omega⟩
          · rename_i hdv
            obtain ⟨vs', hc', hv', ho'⟩ := h.dep var k hk
            refine ⟨vs', hc', hv', ?_⟩
            rw [List.count_cons_of_ne hdv] at ho'
            exact ho'

theorem constDeps_mono (deps : List Int) (stack constant : List Int) (dependsOn : List (Int × Nat))
    (stack' constant' : List Int) (dependsOn' : List (Int × Nat))
    (hr : constDeps deps (stack, constant, dependsOn) = .ok (stack', constant', dependsOn')) :
    ∀ x ∈ constant, x ∈ constant' := by
  induction deps generalizing stack constant dependsOn with
  | nil => simp only [constDeps] at hr; cases hr; exact fun x hx => hx
  | cons dep rest ih =>
    simp only [constDeps] at hr
    split at hr
    · cases hr
    · cases hr
    · split at hr
      · exact fun x hx => ih _ _ _ hr x (mem_sIns.2 (Or.inr hx))
      · exact fun x hx => ih _ _ _ hr x hx

theorem inv2_constLoop {s : Rebuild w} {ps : List (Rebuild w)} {sub : Rebuild w} (fuel : Nat)
    (stack constant : List Int) (d : List (Int × List Int)) (dependsOn : List (Int × Nat)) (C : List Int)
    (h : Inv2 s ps sub stack constant d [] dependsOn)
    (hr : constLoop fuel stack constant d dependsOn = .ok C) :
    (∀ c ∈ C, Good s ps sub C c) ∧ ∀ c ∈ constant, c ∈ C := by
  induction fuel generalizing stack constant d dependsOn with
  | zero => simp [constLoop] at hr
  | succ fuel ih =>
    unfold constLoop at hr
    split at hr
    · have : constant = C := by cases hr; rfl
      subst this
      exact ⟨h.good, fun c hc => hc⟩
    · rename_i c stack1
      split at hr
      · exact ih stack1 constant d dependsOn
          ⟨h.good, fun x hx => h.stk x (List.mem_cons_of_mem _ hx), h.dep⟩ hr
      · rename_i deps hdeps
        obtain ⟨res, hres, hr⟩ := except_bind_ok hr
        obtain ⟨stack2, constant2, dependsOn2⟩ := res
        have hc : c ∈ constant := h.stk c List.mem_cons_self
        have h2 : Inv2 s ps sub stack1 constant (mErase d c) deps dependsOn := by
          constructor
          · exact h.good
          · exact fun x hx => h.stk x (List.mem_cons_of_mem _ hx)
          · intro var k hk
            obtain ⟨vs, hcd, hvs, ho⟩ := h.dep var k hk
            refine ⟨vs, hcd, fun x hx => ?_, ?_⟩
            · rcases hvs x hx with h1 | h1 | h1
              · exact Or.inl h1
              · exact Or.inr (Or.inl h1)
              · by_cases hxc : c = x
                · subst hxc; exact Or.inr (Or.inl hc)
                · rw [mGet_mErase_ne d c x hxc]; exact Or.inr (Or.inr h1)
            · have := occ_mErase d c var
              rw [hdeps] at this
              simp only [Option.getD_some, List.count_nil] at this ho
              omega
        have h3 := inv2_constDeps (mErase d c) deps stack1 constant dependsOn stack2 constant2
          dependsOn2 h2 hres
        obtain ⟨hg, hsub⟩ := ih stack2 constant2 (mErase d c) dependsOn2 h3 hr
        refine ⟨hg, fun x hx => hsub x ?_⟩
        exact constDeps_mono deps stack1 constant dependsOn stack2 constant2 dependsOn2 hres x hx

/-- **`constantsAmong`**: every variable of the result passed the `compare` tests and depends only on itself
and on variables of the result. -/
theorem constantsAmong_good (s : Rebuild w) (ps : List (Rebuild w)) (sub : Rebuild w) (vars : List Int)
    (C : List Int) (hnd : vars.Nodup) (h : constantsAmong s ps sub vars = .ok C) :
    ∀ c ∈ C, Good s ps sub C c := by
  rw [constantsAmong_eq] at h
  obtain ⟨st, hst, h⟩ := except_bind_ok h
  have h0 : Inv1 s ps sub [] (([], [], []) : CState) :=
    ⟨fun c hc => (by cases hc), fun var k hk => (by cases hk), fun u _ => rfl, keysAsc_nil⟩
  obtain ⟨done, h1⟩ := inv1_fold vars [] _ st h0 hnd (fun v _ hv => by cases hv) hst
  have h2 : Inv2 s ps sub st.1.reverse st.1 st.2.1 [] st.2.2 := by
    constructor
    · exact h1.good
    · exact fun c hc => List.mem_reverse.1 hc
    · intro var k hk
      obtain ⟨vs, hc, hvs, ho⟩ := h1.dep var k hk
      exact ⟨vs, hc, hvs, by simpa using ho⟩
  exact (inv2_constLoop _ _ _ _ _ C h2 h).1

end Hpbf.OptLoop
