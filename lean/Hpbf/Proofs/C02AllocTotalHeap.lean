/-
C02 / C13 (`allocate_temps` is total), part 1: the heap of range ends and the bitmap.

* `drainEnds_total`: the loop `while let Some(..) = next_range_end.peek()` terminates within its fuel and pops
  every entry whose end is at most `i` (the heap is kept sorted by `nrePush`), provided every temporary on the heap
  has a recorded last use;
* `liveMask_total`: the bitmap computation does not underflow when the free registers are distinct and below
  `numRegs`.
-/
import Hpbf.Proofs.C11AllocMask
set_option linter.unusedSimpArgs false

namespace Hpbf
namespace C02
namespace Alloc

open Bc BcWf BcGen C11

variable {w : Nat}

/-! ### the sorted heap -/

/-- Ends are non-decreasing from the head. -/
def SortedE (l : List (Nat × Nat)) : Prop := l.Pairwise (fun x y => x.1 ≤ y.1)

theorem nreGt_le {a b : Nat × Nat} (h : nreGt a b = true) : a.1 ≤ b.1 := by
  simp only [nreGt, Bool.or_eq_true, decide_eq_true_eq, Bool.and_eq_true, beq_iff_eq] at h
  omega

theorem not_nreGt_ge {a b : Nat × Nat} (h : ¬ nreGt a b = true) : b.1 ≤ a.1 := by
  simp only [nreGt, Bool.or_eq_true, decide_eq_true_eq, Bool.and_eq_true, beq_iff_eq, not_or] at h
  omega

theorem sortedE_nrePush {x : Nat × Nat} {l : List (Nat × Nat)} (h : SortedE l) : SortedE (nrePush x l) := by
  induction l with
  | nil => simp [nrePush, SortedE]
  | cons y ys ih =>
    unfold SortedE at h ⊢
    rw [List.pairwise_cons] at h
    simp only [nrePush]
    split
    · rename_i hg
      rw [List.pairwise_cons]
      refine ⟨?_, ih h.2⟩
      intro z hz
      rw [mem_nrePush] at hz
      rcases hz with rfl | hz
      · exact nreGt_le hg
      · exact h.1 z hz
    · rename_i hg
      rw [List.pairwise_cons]
      refine ⟨?_, List.pairwise_cons.2 h⟩
      intro z hz
      have hxy := not_nreGt_ge hg
      rcases List.mem_cons.1 hz with rfl | hz
      · exact hxy
      · exact Nat.le_trans hxy (h.1 z hz)

theorem sortedE_tail {x : Nat × Nat} {l : List (Nat × Nat)} (h : SortedE (x :: l)) : SortedE l :=
  (List.pairwise_cons.1 h).2

theorem sortedE_head_le {x : Nat × Nat} {l : List (Nat × Nat)} (h : SortedE (x :: l)) :
    ∀ y ∈ x :: l, x.1 ≤ y.1 := by
  intro y hy
  rcases List.mem_cons.1 hy with rfl | hy
  · exact Nat.le_refl _
  · exact (List.pairwise_cons.1 h).1 y hy

/-- Pushing an entry with a later end leaves the head in place. -/
theorem nrePush_head {e L t : Nat} (tl : List (Nat × Nat)) (x : Nat × Nat) (h : e < x.1) :
    nrePush x ((e, t) :: tl) = (e, t) :: nrePush x tl := by
  simp only [nrePush]
  have : nreGt (e, t) x = true := by simp [nreGt, h]
  simp [this]

/-! ### the loop terminates -/

/-- Recorded last use of `t` (0 if there is none). -/
def luOf (a : ASt w) (t : Nat) : Nat :=
  match a.st.ranges[t]? with
  | some r => r.lastUse.getD 0
  | none => 0

/-- Number of visits an entry can still cause at step `i`. -/
def wtE (i : Nat) (lu : Nat → Nat) (x : Nat × Nat) : Nat :=
  if x.1 ≤ i then (if x.1 < lu x.2 then 2 else 1) else 0

def muE (i : Nat) (lu : Nat → Nat) (l : List (Nat × Nat)) : Nat := (l.map (wtE i lu)).sum

theorem muE_nrePush (i : Nat) (lu : Nat → Nat) (x : Nat × Nat) (l : List (Nat × Nat)) :
    muE i lu (nrePush x l) = wtE i lu x + muE i lu l := by
  induction l with
  | nil => simp [nrePush, muE]
  | cons y ys ih =>
    simp only [nrePush]
    split
    · simp only [muE, List.map_cons, List.sum_cons] at ih ⊢
      omega
    · simp [muE]

theorem muE_le (i : Nat) (lu : Nat → Nat) (l : List (Nat × Nat)) : muE i lu l ≤ 2 * l.length := by
  induction l with
  | nil => simp [muE]
  | cons y ys ih =>
    simp only [muE, List.map_cons, List.sum_cons, List.length_cons] at ih ⊢
    have : wtE i lu y ≤ 2 := by unfold wtE; split <;> (try split) <;> omega
    omega

/-- The heap entries have a recorded last use. -/
def HeapRange (a : ASt w) : Prop :=
  ∀ e t, (e, t) ∈ a.nre → ∃ (r : RangeInfo) (L : Nat), a.st.ranges[t]? = some r ∧ r.lastUse = some L

theorem drainEnds_total {i : Nat} : ∀ (fuel : Nat) (atf0 : List Nat) (a : ASt w),
    SortedE a.nre → HeapRange a → muE i (luOf a) a.nre < fuel →
    ∃ atf a1, drainEnds i fuel atf0 a = .ok (atf, a1) ∧ SortedE a1.nre ∧
      (∀ e t, (e, t) ∈ a1.nre → i < e) ∧
      (∀ e t, (e, t) ∈ a.nre → (∃ e', (e', t) ∈ a1.nre) ∨ t ∈ atf) ∧ (∀ t ∈ atf0, t ∈ atf)
  | 0, _, _, _, _, h => by omega
  | fuel + 1, atf0, a, hs, hr, hm => by
    simp only [drainEnds, get_bind]
    cases hn : a.nre with
    | nil =>
      refine ⟨atf0, a, rfl, by rw [hn]; exact List.Pairwise.nil, ?_, ?_, fun t h => h⟩
      · intro e t h; rw [hn] at h; cases h
      · intro e t h; cases h
    | cons hd tl =>
      obtain ⟨e, tmp⟩ := hd
      simp only
      by_cases hle : e ≤ i
      · simp only [hle, if_true]
        obtain ⟨r, L, hrg, hL⟩ := hr e tmp (by rw [hn]; exact List.mem_cons_self)
        have hlu : lastUseOf "allocate_temps:peek:last_use.unwrap" tmp a = .ok (L, a) :=
          (lastUseOf_ok _ _ _ _ _).2 ⟨⟨r, hrg, hL⟩, rfl⟩
        have hluv : luOf a tmp = L := by simp [luOf, hrg, hL]
        rw [hn] at hs hm
        have hmu : muE i (luOf a) ((e, tmp) :: tl) = wtE i (luOf a) (e, tmp) + muE i (luOf a) tl := by
          simp [muE]
        by_cases hge : e ≥ L
        · -- the range has ended
          have hw : wtE i (luOf a) (e, tmp) = 1 := by
            unfold wtE; simp only [hle, if_true, hluv]
            have : ¬ e < L := by omega
            simp [this]
          have hrec := drainEnds_total fuel (setInsert atf0 tmp) ({ a with nre := tl } : ASt w)
            (sortedE_tail hs) (fun e' t' h => hr e' t' (by rw [hn]; exact List.mem_cons_of_mem _ h))
            (by show muE i (luOf a) tl < fuel; omega)
          obtain ⟨atf, a1, h1, h2, h3, h4, h5⟩ := hrec
          refine ⟨atf, a1, ?_, h2, h3, ?_, ?_⟩
          · rw [bind_ok]
            refine ⟨L, a, hlu, ?_⟩
            simp only [hge, if_true, modify_bind, hn, List.drop_succ_cons, List.drop_zero]
            exact h1
          · intro e' t' h
            rcases List.mem_cons.1 h with h | h
            · cases h
              right
              apply h5
              simp only [setInsert]
              split
              · rename_i hc; simpa using hc
              · simp
            · exact h4 e' t' h
          · intro t ht
            apply h5
            simp only [setInsert]
            split
            · exact ht
            · simp [ht]
        · -- re-insert with the later end
          have hlt : e < L := Nat.lt_of_not_ge hge
          have hw : wtE i (luOf a) (e, tmp) = 2 := by
            unfold wtE; simp [hle, hluv, hlt]
          have hw' : wtE i (luOf a) (L, tmp) ≤ 1 := by
            unfold wtE; simp only [hluv]
            split
            · simp
            · omega
          have hpush : (nrePush (L, tmp) ((e, tmp) :: tl)).drop 1 = nrePush (L, tmp) tl := by
            rw [nrePush_head (L := L) tl (L, tmp) hlt]; rfl
          have hrec := drainEnds_total fuel atf0 ({ a with nre := nrePush (L, tmp) tl } : ASt w)
            (sortedE_nrePush (sortedE_tail hs))
            (by
              intro e' t' h
              have h' : (e', t') ∈ nrePush (L, tmp) tl := h
              rw [mem_nrePush] at h'
              rcases h' with h' | h'
              · cases h'; exact ⟨r, L, hrg, hL⟩
              · exact hr e' t' (by rw [hn]; exact List.mem_cons_of_mem _ h'))
            (by
              show muE i (luOf a) (nrePush (L, tmp) tl) < fuel
              rw [muE_nrePush]; omega)
          obtain ⟨atf, a1, h1, h2, h3, h4, h5⟩ := hrec
          refine ⟨atf, a1, ?_, h2, h3, ?_, h5⟩
          · rw [bind_ok]
            refine ⟨L, a, hlu, ?_⟩
            simp only [hge, if_false, modify_bind, hn, hpush]
            exact h1
          · intro e' t' h
            rcases List.mem_cons.1 h with h | h
            · cases h
              exact h4 L tmp (by show (L, tmp) ∈ nrePush (L, tmp) tl; rw [mem_nrePush]; exact Or.inl rfl)
            · exact h4 e' t' (by show (e', t') ∈ nrePush (L, tmp) tl; rw [mem_nrePush]; exact Or.inr h)
      · simp only [hle, if_false]
        refine ⟨atf0, a, rfl, hs, ?_, fun e' t' h => Or.inl ⟨e', by rw [hn]; exact h⟩, fun t h => h⟩
        intro e' t' h
        rw [hn] at hs h
        have := sortedE_head_le hs (e', t') h
        simp only at this
        omega

/-! ### the bitmap -/

theorem liveMask_total {numRegs : Nat} {F : List Nat} (hn : F.Nodup) (hlt : ∀ r ∈ F, r < numRegs) :
    ∃ live, liveMask numRegs F = .ok live := by
  -- generalised: the bits of `cur` are those below `B` that are not in `D`
  have H : ∀ (F : List Nat) (D : List Nat) (cur B : Nat), B ≤ 16 → F.Nodup → (∀ x ∈ F, x ∉ D) →
      (∀ x ∈ F, x < 16 → x < B) → (∀ r, cur.testBit r = (decide (r < B) && !D.contains r)) →
      ∃ live, F.foldlM (fun live var =>
        if var < 16 then
          if live < 2 ^ var then (.error "allocate_temps:live-underflow" : Except String Nat) else .ok (live - 2 ^ var)
        else .ok live) cur = .ok live := by
    intro F
    induction F with
    | nil => intro D cur B _ _ _ _ _; exact ⟨cur, rfl⟩
    | cons var F ih =>
      intro D cur B hB hn hd hb hc
      rw [List.foldlM_cons]
      obtain ⟨hvF, hnF⟩ := List.nodup_cons.1 hn
      have hvD : var ∉ D := hd var List.mem_cons_self
      have hd' : ∀ x ∈ F, x ∉ var :: D := by
        intro x hx hxd
        rcases List.mem_cons.1 hxd with rfl | h
        · exact hvF hx
        · exact hd x (List.mem_cons_of_mem _ hx) h
      by_cases h16 : var < 16
      · simp only [h16, if_true]
        have hvB : var < B := hb var List.mem_cons_self h16
        have hbit : cur.testBit var = true := by rw [hc]; simp [hvB, hvD]
        have hge : ¬ cur < 2 ^ var := by
          have := Nat.ge_two_pow_of_testBit hbit
          omega
        simp only [hge, if_false]
        exact ih (var :: D) (cur - 2 ^ var) B hB hnF hd'
          (fun x hx => hb x (List.mem_cons_of_mem _ hx)) (by
            intro r
            rw [testBit_sub_two_pow hbit, hc]
            by_cases e : r = var
            · subst e; simp
            · have : ¬ var = r := fun h => e h.symm
              simp [e, this])
      · simp only [h16, if_false]
        exact ih (var :: D) cur B hB hnF hd' (fun x hx => hb x (List.mem_cons_of_mem _ hx)) (by
          intro r
          rw [hc]
          by_cases e : r = var
          · subst e
            have : ¬ r < B := by omega
            simp [this]
          · have : ¬ var = r := fun h => e h.symm
            simp [e, this])
  unfold liveMask
  by_cases h16 : numRegs < 16
  · simp only [h16, if_true]
    exact H F [] (2 ^ numRegs - 1) numRegs (by omega) hn (fun _ _ h => by cases h)
      (fun x hx _ => hlt x hx) (fun r => by rw [Nat.testBit_two_pow_sub_one]; simp)
  · simp only [h16, if_false]
    have e : (65535 : Nat) = 2 ^ 16 - 1 := by decide
    rw [e]
    exact H F [] (2 ^ 16 - 1) 16 (Nat.le_refl _) hn (fun _ _ h => by cases h)
      (fun x _ hx => hx) (fun r => by rw [Nat.testBit_two_pow_sub_one]; simp)

end Alloc
end C02
end Hpbf
