/-
C02 / C13 (totality of the emission phase), part 0: forward reasoning on the generator monad and the
success invariant of the straight-line part of `emit_block`.

* `emitTotal_Ok m s Q`   – the action `m` SUCCEEDS from `s` and its result satisfies `Q` (total
                            correctness; the existing `C02Emit*` lemmas go the other way: from success);
* `emitTotal_Inv s`      – what every `throw` site of `get_value`/`read`/`range_extend` needs: every value
                            number recorded in `values` or `outer_accessed` is below `ranges.len()`, and
                            `current_start ≤ insts.len()`;
* `emitTotal_getValue`, `emitTotal_getExprValue`, `emitTotal_calc` – these never panic under the invariant.

Panic sites discharged here: `range_extend:ranges-index`, `range_extend_to:ranges-index`.
-/
import Hpbf.Proofs.C02EmitRun

namespace Hpbf
namespace C02
open BcGen C02Emit

variable {w : Nat}

/-! ### total correctness on the generator monad -/

def emitTotal_Ok {α : Type} (m : M w α) (s : St w) (Q : α → St w → Prop) : Prop :=
  ∃ a s', m s = .ok (a, s') ∧ Q a s'

theorem emitTotal_Ok_bind {α β : Type} {m : M w α} {f : α → M w β} {s : St w} {Q : β → St w → Prop}
    (h : emitTotal_Ok m s (fun a s1 => emitTotal_Ok (f a) s1 Q)) : emitTotal_Ok (m >>= f) s Q := by
  obtain ⟨a, s1, h1, b, s2, h2, hq⟩ := h
  exact ⟨b, s2, (bind_ok m f s s2 b).2 ⟨a, s1, h1, h2⟩, hq⟩

theorem emitTotal_Ok_pure {α : Type} {a : α} {s : St w} {Q : α → St w → Prop} (h : Q a s) :
    emitTotal_Ok (pure a : M w α) s Q :=
  ⟨a, s, (pure_ok a a s s).2 ⟨rfl, rfl⟩, h⟩

theorem emitTotal_Ok_mono {α : Type} {m : M w α} {s : St w} {Q Q' : α → St w → Prop}
    (h : emitTotal_Ok m s Q) (hq : ∀ a s', Q a s' → Q' a s') : emitTotal_Ok m s Q' := by
  obtain ⟨a, s', h1, h2⟩ := h
  exact ⟨a, s', h1, hq a s' h2⟩

theorem emitTotal_bind_of_ok {α β : Type} {m : M w α} {f : α → M w β} {s s1 : St w} {a : α}
    (h : m s = .ok (a, s1)) : (m >>= f) s = f a s1 := by
  simp only [bind, StateT.bind, Except.bind, h]

/-! ### membership in association lists -/

theorem emitTotal_mem_of_alGet {κ ν : Type} [DecidableEq κ] {l : List (κ × ν)} {k : κ} {v : ν}
    (h : alGet l k = some v) : (k, v) ∈ l := by
  induction l with
  | nil => simp [alGet] at h
  | cons p rest ih =>
    obtain ⟨k0, v0⟩ := p
    simp only [alGet] at h
    split at h
    · rename_i hk; cases h; subst hk; exact List.mem_cons_self ..
    · exact List.mem_cons_of_mem _ (ih h)

theorem emitTotal_mem_alSet {κ ν : Type} [DecidableEq κ] {l : List (κ × ν)} {k : κ} {v : ν} {p : κ × ν}
    (h : p ∈ alSet l k v) : p ∈ l ∨ p.2 = v := by
  induction l with
  | nil => simp only [alSet, List.mem_singleton] at h; right; rw [h]
  | cons q rest ih =>
    obtain ⟨k0, v0⟩ := q
    simp only [alSet] at h
    split at h
    · rcases List.mem_cons.1 h with h | h
      · right; rw [h]
      · left; exact List.mem_cons_of_mem _ h
    · rcases List.mem_cons.1 h with h | h
      · left; rw [h]; exact List.mem_cons_self ..
      · rcases ih h with h | h
        · left; exact List.mem_cons_of_mem _ h
        · right; exact h

theorem emitTotal_mem_alErase {κ ν : Type} [DecidableEq κ] {l : List (κ × ν)} {k : κ} {p : κ × ν}
    (h : p ∈ alErase l k) : p ∈ l := by
  induction l with
  | nil => simp [alErase] at h
  | cons q rest ih =>
    obtain ⟨k0, v0⟩ := q
    simp only [alErase] at h
    split at h
    · exact List.mem_cons_of_mem _ h
    · rcases List.mem_cons.1 h with h | h
      · rw [h]; exact List.mem_cons_self ..
      · exact List.mem_cons_of_mem _ (ih h)

theorem emitTotal_mem_eraseFold {V : List (GvnExpr w × Nat)} {es : List (GvnExpr w)} {p : GvnExpr w × Nat}
    (h : p ∈ es.foldl (fun vs e => alErase vs e) V) : p ∈ V := by
  induction es generalizing V with
  | nil => exact h
  | cons e es ih => exact emitTotal_mem_alErase (ih h)

theorem emitTotal_mem_removeMems {V : List (GvnExpr w × Nat)} {vars : List Int} {p : GvnExpr w × Nat}
    (h : p ∈ removeMems V vars) : p ∈ V := by
  unfold removeMems at h
  induction vars generalizing V with
  | nil => exact h
  | cons v vars ih => exact emitTotal_mem_alErase (ih h)

/-! ### the success invariant -/

structure emitTotal_Inv (s : St w) : Prop where
  vals : ∀ p ∈ s.values, p.2 < s.ranges.size
  oa : ∀ (i : Nat) (x : Nat), s.outerAccessed[i]? = some x → x < s.ranges.size
  cs : s.currentStart ≤ s.insts.size

/-- Progress made by a piece of the generator that succeeded. -/
structure emitTotal_Step (s s' : St w) : Prop where
  inv : emitTotal_Inv s'
  rs : s.ranges.size ≤ s'.ranges.size
  is : s.insts.size ≤ s'.insts.size
  cs : s'.currentStart = s.currentStart

theorem emitTotal_Step_refl {s : St w} (h : emitTotal_Inv s) : emitTotal_Step s s :=
  ⟨h, Nat.le_refl _, Nat.le_refl _, rfl⟩

theorem emitTotal_Step_trans {s s1 s2 : St w} (h1 : emitTotal_Step s s1) (h2 : emitTotal_Step s1 s2) :
    emitTotal_Step s s2 :=
  ⟨h2.inv, Nat.le_trans h1.rs h2.rs, Nat.le_trans h1.is h2.is, h2.cs.trans h1.cs⟩

/-! ### `range_extend`, `read` -/

/-- `range_extend_to` on one entry. -/
def emitTotal_ext (r : RangeInfo) (to : Nat) : RangeInfo :=
  { (if r.firstUse.isNone then { r with firstUse := some to } else r) with lastUse := some to }

/-- The test `last_use.map_or(true, |l| l < current_start)`. -/
def emitTotal_stale (cs : Nat) (r : RangeInfo) : Bool :=
  match r.lastUse with
  | none => true
  | some l => decide (l < cs)

theorem emitTotal_extendTo {rs : Array RangeInfo} {v : Nat} (hv : v < rs.size) (to : Nat) :
    extendTo rs v to = .ok (rs.setIfInBounds v (emitTotal_ext rs[v] to)) := by
  unfold extendTo
  have : rs[v]? = some rs[v] := Array.getElem?_eq_getElem hv
  simp only [this]
  rfl

/-- `range_extend` succeeds on an existing value number; its exact effect. -/
theorem emitTotal_rangeExtend {v : Nat} {s : St w} (hv : v < s.ranges.size) :
    rangeExtend v s = .ok ((),
      { s with
        ranges := s.ranges.setIfInBounds v (emitTotal_ext s.ranges[v] s.insts.size)
        outerAccessed :=
          if (decide (s.ranges[v].created < s.currentStart) && emitTotal_stale s.currentStart s.ranges[v]) = true
          then s.outerAccessed.push v else s.outerAccessed }) := by
  unfold rangeExtend
  have hr : s.ranges[v]? = some s.ranges[v] := Array.getElem?_eq_getElem hv
  have hto : ∀ s0 : St w, s0.ranges = s.ranges → rangeExtendTo v s.insts.size s0 = .ok ((),
      { s0 with ranges := s.ranges.setIfInBounds v (emitTotal_ext s.ranges[v] s.insts.size) }) := by
    intro s0 h0
    unfold rangeExtendTo
    rw [h0, emitTotal_extendTo hv]
  simp only [get_bind, hr, ite_run, modify_bind]
  rw [hto s rfl, hto { s with outerAccessed := s.outerAccessed.push v } rfl]
  cases hl : s.ranges[v].lastUse with
  | none =>
    simp only [emitTotal_stale, hl, Bool.and_true]
    split <;> rfl
  | some l =>
    simp only [emitTotal_stale, hl]
    split <;> rfl

theorem emitTotal_rangeExtend_inv {v : Nat} {s : St w} (hv : v < s.ranges.size) (h : emitTotal_Inv s) :
    ∃ s', rangeExtend v s = .ok ((), s') ∧ emitTotal_Step s s' ∧ s'.values = s.values ∧
      s'.ranges.size = s.ranges.size ∧ s'.insts = s.insts := by
  refine ⟨_, emitTotal_rangeExtend hv, ⟨⟨?_, ?_, h.cs⟩, by simp, Nat.le_refl _, rfl⟩, rfl, by simp, rfl⟩
  · intro p hp
    simp only [Array.size_setIfInBounds]
    exact h.vals p hp
  · intro i x hx
    simp only [Array.size_setIfInBounds]
    split at hx
    · rw [Array.getElem?_push] at hx
      split at hx
      · cases hx; exact hv
      · exact h.oa i x hx
    · exact h.oa i x hx

theorem emitTotal_read {v : Nat} {s : St w} (hv : v < s.ranges.size) (h : emitTotal_Inv s) :
    ∃ s', BcGen.read v s = .ok ((), s') ∧ emitTotal_Step s s' ∧ s'.values = s.values ∧
      s'.ranges.size = s.ranges.size ∧ s'.insts = s.insts ∧ s'.exprs = s.exprs := by
  obtain ⟨s1, h1, st1, e1, e2, e3⟩ := emitTotal_rangeExtend_inv hv h
  have hc := (rangeExtend_core h1).1
  have e4 : s1.exprs = s.exprs := congrArg G.exprs hc
  unfold BcGen.read
  rw [emitTotal_bind_of_ok h1]
  refine ⟨_, (modify_ok _ _ _ _).2 rfl, ?_, ?_, ?_, ?_, ?_⟩
  · split
    · refine ⟨⟨?_, ?_, st1.inv.cs⟩, by simpa using st1.rs, st1.is, st1.cs⟩
      · intro p hp; simp only [Array.size_setIfInBounds]; exact st1.inv.vals p hp
      · intro i x hx; simp only [Array.size_setIfInBounds]; exact st1.inv.oa i x hx
    · exact st1
  · split <;> exact e1
  · split
    · simp only [Array.size_setIfInBounds]; exact e2
    · exact e2
  · split <;> exact e3
  · split <;> exact e4

/-! ### `get_value` -/

/-- The operands of a GVN expression are existing value numbers. -/
def emitTotal_ops (n : Nat) : GvnExpr w → Prop
  | .add a b => a < n ∧ b < n
  | .sub a b => a < n ∧ b < n
  | .mul a b => a < n ∧ b < n
  | _ => True

/-- Result of a code generating function: it succeeded, the result is an existing value number. -/
def emitTotal_Res (s : St w) (r : Nat) (s' : St w) : Prop := emitTotal_Step s s' ∧ r < s'.ranges.size

theorem emitTotal_Res_trans {s s1 s2 : St w} {r : Nat} (h1 : emitTotal_Step s s1)
    (h2 : emitTotal_Res s1 r s2) : emitTotal_Res s r s2 :=
  ⟨emitTotal_Step_trans h1 h2.1, h2.2⟩

/-- After pushing the new range and the two reads, the defining instruction is appended. -/
theorem emitTotal_getValue_new {s : St w} (h : emitTotal_Inv s) (e : GvnExpr w)
    (ops : List Nat) (_hops : ∀ a ∈ ops, a < s.ranges.size) (inst : Bc.Instr w) :
    let s0 : St w := { s with
      ranges := s.ranges.push { created := s.insts.size, firstUse := none, lastUse := none, numUses := 0 }
      exprs := s.exprs.push e }
    emitTotal_Inv s0 ∧ ∀ s1, emitTotal_Step s0 s1 → s1.values = s0.values → s1.ranges.size = s0.ranges.size →
      emitTotal_Res s s.ranges.size
        { s1 with insts := s1.insts.push inst, values := alSet s1.values e s.ranges.size } := by
  intro s0
  have h0 : emitTotal_Inv s0 :=
    ⟨fun p hp => by
       simp only [s0, Array.size_push]; exact Nat.lt_succ_of_lt (h.vals p hp),
     fun i x hx => by
       have := h.oa i x hx
       simp only [s0, Array.size_push]; omega,
     h.cs⟩
  refine ⟨h0, fun s1 st1 ev er => ⟨⟨⟨?_, ?_, ?_⟩, ?_, ?_, ?_⟩, ?_⟩⟩
  · intro p hp
    rcases emitTotal_mem_alSet hp with hp | hp
    · exact st1.inv.vals p hp
    · rw [hp, er]; simp [s0]
  · exact st1.inv.oa
  · have := st1.inv.cs; simp only [Array.size_push]; omega
  · have := st1.rs; simp only [s0, Array.size_push] at this; simp only; omega
  · have := st1.is; simp only [Array.size_push]; simp only [s0] at this; omega
  · exact st1.cs
  · simp only; rw [er]; simp [s0]

theorem emitTotal_getValue (e : GvnExpr w) {s : St w} (h : emitTotal_Inv s)
    (he : emitTotal_ops s.ranges.size e) : emitTotal_Ok (getValue e) s (emitTotal_Res s) := by
  unfold getValue
  unfold emitTotal_Ok
  simp only [get_bind]
  cases hv : alGet s.values e with
  | some v =>
    exact ⟨v, s, (pure_ok v v s s).2 ⟨rfl, rfl⟩, emitTotal_Step_refl h, h.vals (e, v) (emitTotal_mem_of_alGet hv)⟩
  | none =>
    simp only [set_bind]
    cases e with
    | imm c =>
      simp only [modify_bind]
      obtain ⟨h0, hk⟩ := emitTotal_getValue_new h (.imm c) [] (by simp) (.copy (.tmp s.ranges.size) (.imm c))
      exact ⟨_, _, (pure_ok _ _ _ _).2 ⟨rfl, rfl⟩, hk _ (emitTotal_Step_refl h0) rfl rfl⟩
    | mem m =>
      simp only [modify_bind]
      obtain ⟨h0, hk⟩ := emitTotal_getValue_new h (.mem m) [] (by simp) (.copy (.tmp s.ranges.size) (.mem m))
      exact ⟨_, _, (pure_ok _ _ _ _).2 ⟨rfl, rfl⟩, hk _ (emitTotal_Step_refl h0) rfl rfl⟩
    | add a b =>
      obtain ⟨h0, hk⟩ := emitTotal_getValue_new h (.add a b) [a, b] (by
        intro x hx; simp only [emitTotal_ops] at he; simp at hx; rcases hx with rfl | rfl <;> omega)
        (.add (.tmp s.ranges.size) (.tmp a) (.tmp b))
      simp only [emitTotal_ops] at he
      obtain ⟨s1, r1, st1, v1, z1, _⟩ := emitTotal_read (v := a) (by simp; omega) h0
      obtain ⟨s2, r2, st2, v2, z2, _⟩ := emitTotal_read (v := b) (by rw [z1]; simp; omega) st1.inv
      simp only [emitTotal_bind_of_ok r1, emitTotal_bind_of_ok r2, modify_bind]
      exact ⟨_, _, (pure_ok _ _ _ _).2 ⟨rfl, rfl⟩,
        hk s2 (emitTotal_Step_trans st1 st2) (v2.trans v1) (z2.trans z1)⟩
    | sub a b =>
      obtain ⟨h0, hk⟩ := emitTotal_getValue_new h (.sub a b) [a, b] (by
        intro x hx; simp only [emitTotal_ops] at he; simp at hx; rcases hx with rfl | rfl <;> omega)
        (.sub (.tmp s.ranges.size) (.tmp a) (.tmp b))
      simp only [emitTotal_ops] at he
      obtain ⟨s1, r1, st1, v1, z1, _⟩ := emitTotal_read (v := a) (by simp; omega) h0
      obtain ⟨s2, r2, st2, v2, z2, _⟩ := emitTotal_read (v := b) (by rw [z1]; simp; omega) st1.inv
      simp only [emitTotal_bind_of_ok r1, emitTotal_bind_of_ok r2, modify_bind]
      exact ⟨_, _, (pure_ok _ _ _ _).2 ⟨rfl, rfl⟩,
        hk s2 (emitTotal_Step_trans st1 st2) (v2.trans v1) (z2.trans z1)⟩
    | mul a b =>
      obtain ⟨h0, hk⟩ := emitTotal_getValue_new h (.mul a b) [a, b] (by
        intro x hx; simp only [emitTotal_ops] at he; simp at hx; rcases hx with rfl | rfl <;> omega)
        (.mul (.tmp s.ranges.size) (.tmp a) (.tmp b))
      simp only [emitTotal_ops] at he
      obtain ⟨s1, r1, st1, v1, z1, _⟩ := emitTotal_read (v := a) (by simp; omega) h0
      obtain ⟨s2, r2, st2, v2, z2, _⟩ := emitTotal_read (v := b) (by rw [z1]; simp; omega) st1.inv
      simp only [emitTotal_bind_of_ok r1, emitTotal_bind_of_ok r2, modify_bind]
      exact ⟨_, _, (pure_ok _ _ _ _).2 ⟨rfl, rfl⟩,
        hk s2 (emitTotal_Step_trans st1 st2) (v2.trans v1) (z2.trans z1)⟩

end C02
end Hpbf
