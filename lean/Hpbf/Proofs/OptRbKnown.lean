/-
Rebuild-round proofs: the invariant `KnownVars` — the variables of every `known` entry of `written` have been
read by the block (while `subShift = false`).  Part 1: expressions, the step relation `KStep` / `WK`, the
emitting primitives, the non-loop arms of `rebuildInstr`.
-/
import Hpbf.Proofs.OptRbCanon5

namespace Hpbf
namespace OptProof
open Opt OptSem Ir

variable {w : Nat}

/-! ### expressions: `normalize` does not invent variables -/

theorem variables_val (c : BitVec w) : Expr.variables (Expr.val c) = [] := by
  unfold Expr.val
  split <;> simp [Expr.variables]

theorem variables_var (v : Int) : Expr.variables (Expr.var v : Expr w) = [v] := by
  simp [Expr.var, Expr.variables]

theorem varsIn_of_vars_eq {S : Int → Prop} {e e' : Expr w} (h : e'.map (·.vars) = e.map (·.vars))
    (he : OptLoop.VarsIn S e) : OptLoop.VarsIn S e' := by
  intro p' hp' x hx
  have : p'.vars ∈ e'.map (·.vars) := List.mem_map.2 ⟨p', hp', rfl⟩
  rw [h] at this
  obtain ⟨p, hp, e1⟩ := List.mem_map.1 this
  exact he p hp x (by rw [e1]; exact hx)

theorem varsIn_sublist {S : Int → Prop} {e e' : Expr w} (h : e'.Sublist e) (he : OptLoop.VarsIn S e) :
    OptLoop.VarsIn S e' := fun p hp x hx => he p (h.subset hp) x hx

theorem varsIn_normPhase1 {S : Int → Prop} {e : Expr w} (he : OptLoop.VarsIn S e) :
    OptLoop.VarsIn S (Expr.normPhase1 e) := by
  unfold Expr.normPhase1
  split
  · simp only []
    have hin' : OptLoop.VarsIn S (e.map (fun p =>
        if p.coef = Expr.halfMod w then { p with vars := Expr.dedupVars p.vars } else p)) := by
      intro p hp x hx
      obtain ⟨p0, hp0, rfl⟩ := List.mem_map.1 hp
      split at hx
      · exact he p0 hp0 x ((Expr.dedupVars_sublist _).subset hx)
      · exact he p0 hp0 x hx
    split
    · obtain ⟨_, h2⟩ := Expr.strict_mergeSorted
        (e.map (fun p => if p.coef = Expr.halfMod w then { p with vars := Expr.dedupVars p.vars } else p))
      intro p hp x hx
      obtain ⟨p1, hp1, e1⟩ := h2 p hp
      rw [e1] at hx
      exact hin' p1 hp1 x hx
    · exact hin'
  · exact he

theorem varsIn_normPhase2' {S : Int → Prop} {e1 : Expr w} (he : OptLoop.VarsIn S e1) :
    OptLoop.VarsIn S (Expr.normPhase2' e1) := by
  unfold Expr.normPhase2'
  split
  · obtain ⟨s1, _⟩ := Expr.normPhase2_spec (fun _ => 0#w) (Expr.halfMod w + 1#w) (Expr.halfMod w + (-1#w))
      (e1.map (·.vars)) e1.length 0 e1.toArray [] false (by simp) (Expr.IdxOK_nil _)
    generalize Expr.normPhase2 (Expr.halfMod w) (Expr.halfMod w + 1#w) (Expr.halfMod w + (-1#w)) e1.length 0
      e1.toArray [] false = st at s1
    obtain ⟨parts, need⟩ := st
    simp only at s1 ⊢
    have hc : OptLoop.VarsIn S parts.toList := varsIn_of_vars_eq s1 he
    split
    · exact varsIn_sublist List.filter_sublist hc
    · exact hc
  · exact he

theorem varsIn_normalize {S : Int → Prop} {e : Expr w} (he : OptLoop.VarsIn S e) :
    OptLoop.VarsIn S (Expr.normalize e) := by
  rw [Expr.normalize_eq]
  split
  · exact varsIn_normPhase2' (varsIn_normPhase1 he)
  · exact he

/-- `normalize` does not invent variables. -/
theorem normalize_variables_sub (e : Expr w) :
    ∀ x ∈ Expr.variables (Expr.normalize e), x ∈ Expr.variables e :=
  OptLoop.varsIn_iff.1 (varsIn_normalize (S := fun x => x ∈ Expr.variables e)
    (OptLoop.varsIn_iff.2 (fun _ h => h)))

/-! ### the invariant and the step relation -/

/-- the variables of every `known` entry of `written` have been read by the block -/
def KnownVars (s : Rebuild w) : Prop :=
  s.subShift = false → ∀ v e, mGet s.written v = some (.known e) → ∀ x ∈ Expr.variables e, x ∈ s.reads

/-- `x` has been read or has an entry in `written` (what `read s x` establishes). -/
def Cov (s : Rebuild w) (x : Int) : Prop := x ∈ s.reads ∨ mGet s.written x ≠ none

/-- `subShift` is never reset, `reads` and (while `subShift = false`) the keys of `written` only grow, the
invariant is kept. -/
structure KStep (s s' : Rebuild w) : Prop where
  sub : s'.subShift = false → s.subShift = false
  reads : ∀ x ∈ s.reads, x ∈ s'.reads
  keys : s'.subShift = false → ∀ v, mGet s.written v ≠ none → mGet s'.written v ≠ none
  known : KnownVars s → KnownVars s'

theorem KStep.refl (s : Rebuild w) : KStep s s := ⟨fun h => h, fun _ h => h, fun _ _ h => h, fun h => h⟩

theorem KStep.trans {a b c : Rebuild w} (h1 : KStep a b) (h2 : KStep b c) : KStep a c :=
  ⟨fun h => h1.sub (h2.sub h), fun x hx => h2.reads x (h1.reads x hx),
   fun h v hv => h2.keys h v (h1.keys (h2.sub h) v hv), fun h => h2.known (h1.known h)⟩

theorem KStep.cov {s s' : Rebuild w} (h : KStep s s') (hss : s'.subShift = false) {x : Int}
    (hx : Cov s x) : Cov s' x := by
  rcases hx with hx | hx
  · exact Or.inl (h.reads x hx)
  · exact Or.inr (h.keys hss x hx)

/-- `subShift` and `written` unchanged, `reads` grown. -/
theorem KStep.of_grow {s s' : Rebuild w} (hsub : s'.subShift = s.subShift)
    (hreads : ∀ x ∈ s.reads, x ∈ s'.reads) (hw : s'.written = s.written) : KStep s s' := by
  refine ⟨fun h => by rw [← hsub]; exact h, hreads, fun _ v hv => by rw [hw]; exact hv, ?_⟩
  intro hk hss v e hv x hx
  rw [hw] at hv
  exact hreads x (hk (by rw [← hsub]; exact hss) v e hv x hx)

/-- `subShift`, `reads`, `written` unchanged. -/
theorem KStep.of_same {s s' : Rebuild w} (hsub : s'.subShift = s.subShift) (hr : s'.reads = s.reads)
    (hw : s'.written = s.written) : KStep s s' :=
  KStep.of_grow hsub (fun x hx => by rw [hr]; exact hx) hw

theorem KStep.of_sameButPend {s s' : Rebuild w} (h : SameButPend s s') : KStep s s' :=
  KStep.of_same h.2.2.2.2.1 h.2.2.2.2.2.2.1 h.2.2.2.2.2.2.2.1

theorem knownVars_new (shift : Int) (cond : Option Int) (par : OptParent) (anal : Option (OptAnalysis w)) :
    KnownVars (Rebuild.new shift cond par anal) := by
  intro _ v e h
  simp [Rebuild.new, mGet] at h

/-- `uncertainShift` makes the invariant vacuous. -/
theorem uncertainShift_kstep (s : Rebuild w) : KStep s (uncertainShift s) :=
  ⟨fun h => by simp [uncertainShift] at h, fun _ h => h, fun h => by simp [uncertainShift] at h,
   fun _ h => by simp [uncertainShift] at h⟩

/-- Well-formedness of the new state together with `KStep`. -/
structure WK (s s' : Rebuild w) : Prop where
  wf : Wf s'
  k : KStep s s'

theorem WK.refl {s : Rebuild w} (h : Wf s) : WK s s := ⟨h, KStep.refl s⟩

theorem WK.trans {a b c : Rebuild w} (h1 : WK a b) (h2 : WK b c) : WK a c := ⟨h2.wf, h1.k.trans h2.k⟩

theorem WK.known {s s' : Rebuild w} (h : WK s s') (hk : KnownVars s) : KnownVars s' := h.k.known hk

/-- Invariant rule for `foldlM`. -/
theorem foldlM_wk {γ : Type} (f : Rebuild w → γ → M (Rebuild w)) (l : List γ)
    (hstep : ∀ s x os s' os', x ∈ l → Wf s → (f s x).run os = .ok (s', os') → WK s s')
    {s : Rebuild w} {os : Orders} {s' : Rebuild w} {os' : Orders} (hwf : Wf s)
    (hr : (l.foldlM f s).run os = .ok (s', os')) : WK s s' := by
  induction l generalizing s os with
  | nil =>
    rw [List.foldlM_nil, run_pure] at hr
    cases hr; exact WK.refl hwf
  | cons x l ih =>
    rw [List.foldlM_cons, run_bind_ok] at hr
    obtain ⟨s1, os1, h1, h2⟩ := hr
    have r1 := hstep s x os s1 os1 (by simp) hwf h1
    exact r1.trans (ih (fun s x os s' os' hx => hstep s x os s' os' (List.mem_cons_of_mem _ hx)) r1.wf h2)

/-! ### `read` -/

theorem read_reads_mono (s : Rebuild w) (var : Int) : ∀ x ∈ s.reads, x ∈ (Opt.read s var).reads := by
  intro x hx
  unfold Opt.read
  split
  · exact mem_sIns.2 (Or.inr hx)
  · exact mem_sIns.2 (Or.inr hx)
  · exact hx

theorem read_kstep (s : Rebuild w) (var : Int) : KStep s (Opt.read s var) :=
  KStep.of_grow (read_same s var).2.2.2.2.1 (read_reads_mono s var) (read_same s var).2.2.2.2.2.2.1

theorem read_cov (s : Rebuild w) (x : Int) : Cov (Opt.read s x) x := by
  have hw : (Opt.read s x).written = s.written := (read_same s x).2.2.2.2.2.2.1
  unfold Cov
  rw [hw]
  cases hg : mGet s.written x with
  | none =>
    left
    unfold Opt.read
    rw [hg]
    exact mem_sIns.2 (Or.inl rfl)
  | some k =>
    right; simp

theorem cov_read {s : Rebuild w} {x : Int} (h : Cov s x) (y : Int) : Cov (Opt.read s y) x := by
  rcases h with h | h
  · exact Or.inl (read_reads_mono s y x h)
  · right
    rw [(read_same s y).2.2.2.2.2.2.1]; exact h

theorem cov_foldl_read {s : Rebuild w} {x : Int} (h : Cov s x) (vs : List Int) :
    Cov (vs.foldl Opt.read s) x := by
  induction vs generalizing s with
  | nil => exact h
  | cons y vs ih => exact ih (cov_read h y)

theorem foldl_read_cov (s : Rebuild w) (vs : List Int) : ∀ x ∈ vs, Cov (vs.foldl Opt.read s) x := by
  induction vs generalizing s with
  | nil => intro x hx; cases hx
  | cons y vs ih =>
    intro x hx
    simp only [List.foldl_cons]
    rcases List.mem_cons.1 hx with rfl | hx
    · exact cov_foldl_read (read_cov s x) vs
    · exact ih _ x hx

theorem cov_readGroup {s : Rebuild w} {x : Int} (h : Cov s x) (calcs : List (Int × Expr w)) :
    Cov (readGroup s calcs) x := by
  unfold readGroup
  induction calcs generalizing s with
  | nil => exact h
  | cons vc calcs ih => exact ih (cov_foldl_read h _)

/-- After the `read` phase of a group every variable of every right-hand side is covered. -/
theorem readGroup_cov (s : Rebuild w) (calcs : List (Int × Expr w)) :
    ∀ vc ∈ calcs, ∀ x ∈ Expr.variables vc.2, Cov (readGroup s calcs) x := by
  induction calcs generalizing s with
  | nil => intro vc h; cases h
  | cons vc0 calcs ih =>
    intro vc hvc x hx
    rcases List.mem_cons.1 hvc with rfl | hvc
    · exact cov_readGroup (s := (Expr.variables vc.2).foldl Opt.read s) (foldl_read_cov s _ x hx) calcs
    · exact ih _ vc hvc x hx

theorem readGroup_kstep (s : Rebuild w) (calcs : List (Int × Expr w)) : KStep s (readGroup s calcs) := by
  unfold readGroup
  induction calcs generalizing s with
  | nil => exact KStep.refl s
  | cons vc calcs ih =>
    simp only [List.foldl_cons]
    refine KStep.trans ?_ (ih _)
    generalize Expr.variables vc.2 = vs
    induction vs generalizing s with
    | nil => exact KStep.refl s
    | cons y vs ih2 => exact (read_kstep s y).trans (ih2 _)

/-! ### `insertWritten`, `writtenCalcs`, `emitGroup`, `emitStructured` -/

theorem insertWritten_kstep (s : Rebuild w) (var : Int) (val : OptWrite w)
    (hv : ∀ e, val = .known e → s.subShift = false → ∀ x ∈ Expr.variables e, x ∈ s.reads) :
    KStep s (insertWritten s var val) := by
  have hs := insertWritten_same s var val
  have hsub : (insertWritten s var val).subShift = s.subShift := hs.2.2.2.2.1
  have hreads : (insertWritten s var val).reads = s.reads := hs.2.2.2.2.2.2.1
  refine ⟨fun h => by rw [← hsub]; exact h, fun x hx => by rw [hreads]; exact hx, ?_, ?_⟩
  · intro _ v hv'
    rw [insertWritten_written, mGet_mSet]
    split
    · simp
    · exact hv'
  · intro hk hss v e h x hx
    rw [hsub] at hss
    rw [hreads]
    rw [insertWritten_written, mGet_mSet] at h
    split at h
    · simp only [Option.some.injEq] at h
      cases val with
      | known e0 =>
        simp only [OptWrite.known.injEq] at h
        subst h
        exact hv e0 rfl hss x (normalize_variables_sub e0 x hx)
      | unknown => cases h
      | maybe => cases h
    · exact hk hss v e h x hx

theorem insertWritten_kstep_nonknown (s : Rebuild w) (var : Int) (val : OptWrite w)
    (hv : ∀ e, val ≠ .known e) : KStep s (insertWritten s var val) :=
  insertWritten_kstep s var val (fun e h => absurd h (hv e))

theorem insertWritten_kstep_val (s : Rebuild w) (var : Int) (c : BitVec w) :
    KStep s (insertWritten s var (.known (Expr.val c))) := by
  refine insertWritten_kstep s var _ ?_
  intro e h _ x hx
  simp only [OptWrite.known.injEq] at h
  subst h
  rw [variables_val] at hx
  cases hx

/-- What `writtenCalcs` records only mentions variables that have been read. -/
theorem knownOf_vars {s : Rebuild w} (hk : KnownVars s) (hss : s.subShift = false) (ps : List (Rebuild w))
    {e0 e : Expr w} (hcov : ∀ x ∈ Expr.variables e0, Cov s x) (h : knownOf s ps e0 = .known e) :
    ∀ x ∈ Expr.variables e, x ∈ s.reads := by
  unfold knownOf at h
  split at h
  · split at h
    · rename_i c hcw
      simp only [OptWrite.known.injEq] at h
      subst h
      intro x hx
      have hx' := normalize_variables_sub c x hx
      revert x
      suffices H : ∀ x ∈ Expr.variables c, x ∈ s.reads from fun x _ hx' => H x hx'
      unfold evalWritten at hcw
      split at hcw
      · refine (OptLoop.varsIn_iff (S := fun x => x ∈ s.reads)).1
          (OptLoop.symbEvaluate_varsIn (S := fun x => x ∈ s.reads) _ e0 c ?_ hcw)
        intro v hv e' he'
        refine (OptLoop.varsIn_iff (S := fun x => x ∈ s.reads)).2 ?_
        unfold getWritten at he'
        split at he'
        · rename_i expr hw
          simp only [Option.some.injEq] at he'
          subst he'
          exact hk hss v _ hw
        · cases he'
        · rename_i hnone
          split at he'
          · simp only [Option.some.injEq] at he'
            subst he'
            intro x hx; rw [variables_val] at hx; cases hx
          · simp only [Option.some.injEq] at he'
            subst he'
            intro x hx
            rw [variables_var] at hx
            simp only [List.mem_singleton] at hx
            subst hx
            rcases hcov x hv with h1 | h1
            · exact h1
            · exact absurd hnone h1
      · rename_i hany
        simp only [Option.some.injEq] at hcw
        subst hcw
        intro x hx
        rcases hcov x hx with h1 | h1
        · exact h1
        · exfalso
          apply hany
          rw [List.any_eq_true]
          refine ⟨x, hx, ?_⟩
          unfold mHas
          cases hg : mGet s.written x with
          | none => exact absurd hg h1
          | some k => rfl
    · cases h
  · cases h

theorem mGet_foldl_mSet_ne_none {ν : Type} (l : List (Int × ν)) (m0 : List (Int × ν)) (v : Int)
    (h : mGet m0 v ≠ none) : mGet (l.foldl (fun m kv => mSet m kv.1 kv.2) m0) v ≠ none := by
  induction l generalizing m0 with
  | nil => exact h
  | cons kv l ih =>
    simp only [List.foldl_cons]
    apply ih
    rw [mGet_mSet]
    split
    · simp
    · exact h

theorem writtenCalcs_kstep (s : Rebuild w) (ps : List (Rebuild w)) (calcs : List (Int × Expr w))
    (hcov : s.subShift = false → ∀ vc ∈ calcs, ∀ x ∈ Expr.variables vc.2, Cov s x) :
    KStep s (writtenCalcs s ps calcs) := by
  obtain ⟨hs, hreads, hwr⟩ := writtenCalcs_eq s ps calcs
  have hsub : (writtenCalcs s ps calcs).subShift = s.subShift := hs.2.2.2.2.1
  refine ⟨fun h => by rw [← hsub]; exact h, fun x hx => by rw [hreads]; exact hx, ?_, ?_⟩
  · intro _ v hv
    rw [hwr]; exact mGet_foldl_mSet_ne_none _ _ _ hv
  · intro hk hss v e h x hx
    rw [hsub] at hss
    rw [hreads]
    rw [hwr] at h
    rcases mGet_foldl_mSet_cases _ _ _ _ h with h1 | h1
    · obtain ⟨vc, hvc, e1⟩ := List.mem_map.1 h1
      simp only [Prod.mk.injEq] at e1
      exact knownOf_vars hk hss ps (hcov hss vc hvc) e1.2 x hx
    · exact hk hss v e h1 x hx

theorem emitGroup_kstep (ps : List (Rebuild w)) (s : Rebuild w) (calcs : List (Int × Expr w)) :
    KStep s (emitGroup ps s calcs) := by
  have k1 := readGroup_kstep s calcs
  have k2 := writtenCalcs_kstep (readGroup s calcs) ps calcs (fun _ => readGroup_cov s calcs)
  exact (k1.trans k2).trans (KStep.of_same (s := writtenCalcs (readGroup s calcs) ps calcs)
    (s' := emitGroup ps s calcs) rfl rfl rfl)

theorem emitStructured_kstep (s : Rebuild w) (ps : List (Rebuild w)) (toEmit : List (List (Int × Expr w))) :
    KStep s (emitStructured s ps toEmit) := by
  rw [emitStructured_eq]
  induction toEmit generalizing s with
  | nil => exact KStep.refl s
  | cons g toEmit ih =>
    simp only [List.foldl_cons]
    exact (emitGroup_kstep ps s g).trans (ih _)

/-! ### the emitting primitives -/

theorem removePending_kstep (s : Rebuild w) (var : Int) : KStep s (removePending s var).1 :=
  KStep.of_sameButPend (removePending_same s var)

theorem insertPending_kstep (s : Rebuild w) (ps : List (Rebuild w)) (var : Int) (expr : Expr w) :
    KStep s (insertPending s ps var expr) :=
  KStep.of_sameButPend (insertPending_same s ps var expr)

theorem gatherEmit_kstep {s : Rebuild w} (ps : List (Rebuild w)) (hwf : Wf s) (var : Int)
    {os os' : Orders} {s1 : Rebuild w} {toEmit : List (List (Int × Expr w))}
    (hr : (gatherForEmit s [var]).run os = .ok ((s1, toEmit), os')) :
    WK s (emitStructured s1 ps toEmit) := by
  obtain ⟨g1, g2, _⟩ := gatherForEmit_spec hwf var hr
  exact ⟨(emitStructured_struct g1 ps toEmit).2.2.1,
    (KStep.of_sameButPend g2).trans (emitStructured_kstep s1 ps toEmit)⟩

theorem emit_wk {s : Rebuild w} (ps : List (Rebuild w)) (var : Int) {os os' : Orders} {s' : Rebuild w}
    (hr : (emit s ps var).run os = .ok (s', os')) (hwf : Wf s) : WK s s' := by
  unfold emit at hr
  split at hr
  · rw [run_bind_ok] at hr
    obtain ⟨⟨s1, toEmit⟩, os1, h1, h2⟩ := hr
    rw [run_pure] at h2
    cases h2
    exact gatherEmit_kstep ps hwf var h1
  · rw [run_pure] at hr
    cases hr
    exact WK.refl hwf

theorem explosionVars_wk (ps : List (Rebuild w)) (vars : List Int) (last : Option Int) {s : Rebuild w}
    {os os' : Orders} {s' : Rebuild w}
    (hr : (explosionVars ps vars last s).run os = .ok (s', os')) (hwf : Wf s) : WK s s' := by
  induction vars generalizing s os last with
  | nil =>
    rw [explosionVars, run_pure] at hr
    cases hr; exact WK.refl hwf
  | cons var rest ih =>
    rw [explosionVars] at hr
    have hskip : ∀ {os : Orders}, ((do let s ← pure s; (fun s => explosionVars ps rest (some var) s) s) :
        M (Rebuild w)).run os = .ok (s', os') → WK s s' := by
      intro os h
      rw [run_bind_ok] at h
      obtain ⟨s1, os1, h1, h2⟩ := h
      rw [run_pure] at h1; cases h1
      exact ih (some var) h2 hwf
    split at hr
    · split at hr
      · rw [run_bind_ok] at hr
        obtain ⟨s1, os1, h1, h2⟩ := hr
        have r1 := emit_wk ps var h1 hwf
        exact r1.trans (ih (some var) h2 r1.wf)
      · exact hskip hr
    · exact hskip hr

theorem performCheck_wk (ps : List (Rebuild w)) (calcs : List (Int × Expr w)) {s : Rebuild w}
    {os os' : Orders} {s' : Rebuild w}
    (hr : (performCheck s ps calcs).run os = .ok (s', os')) (hwf : Wf s) : WK s s' := by
  unfold performCheck at hr
  refine foldlM_wk _ calcs ?_ hwf hr
  intro s vc os s' os' _ hwf' h
  refine foldlM_wk _ (groupedVars vc.2) ?_ hwf' h
  intro s vars os s' os' _ hwf'' h'
  split at h'
  · exact explosionVars_wk ps vars none h' hwf''
  · rw [run_pure] at h'; cases h'; exact WK.refl hwf''

theorem emitAll_wk (ps : List (Rebuild w)) (vars : List Int) {s : Rebuild w}
    {os os' : Orders} {s' : Rebuild w}
    (hr : (emitAll ps vars s).run os = .ok (s', os')) (hwf : Wf s) : WK s s' := by
  unfold emitAll at hr
  refine foldlM_wk _ vars ?_ hwf hr
  intro s var os s' os' _ hwf' h
  exact emit_wk ps var h hwf'

theorem WK.read {s s1 : Rebuild w} (h : WK s s1) (var : Int) : WK s (Opt.read s1 var) :=
  ⟨(read_same s1 var).wf h.wf, h.k.trans (read_kstep s1 var)⟩

/-- `emitReadAll`: afterwards every variable of the list is covered. -/
theorem emitReadAll_wk_cov (ps : List (Rebuild w)) (vars : List Int) {s : Rebuild w}
    {os os' : Orders} {s' : Rebuild w}
    (hr : (emitReadAll ps vars s).run os = .ok (s', os')) (hwf : Wf s) :
    WK s s' ∧ (s'.subShift = false → ∀ x ∈ vars, Cov s' x) := by
  unfold emitReadAll at hr
  induction vars generalizing s os with
  | nil =>
    rw [List.foldlM_nil, run_pure] at hr
    cases hr
    exact ⟨WK.refl hwf, fun _ x hx => by cases hx⟩
  | cons y vars ih =>
    rw [List.foldlM_cons, run_bind_ok] at hr
    obtain ⟨s1, os1, h1, h2⟩ := hr
    rw [run_bind_ok] at h1
    obtain ⟨s0, os0, h3, h4⟩ := h1
    rw [run_pure] at h4
    cases h4
    have r1 := (emit_wk ps y h3 hwf).read y
    obtain ⟨r2, c2⟩ := ih h2 r1.wf
    refine ⟨r1.trans r2, ?_⟩
    intro hss x hx
    rcases List.mem_cons.1 hx with rfl | hx
    · exact r2.k.cov hss (read_cov s0 x)
    · exact c2 hss x hx

theorem emitReadAll_wk (ps : List (Rebuild w)) (vars : List Int) {s : Rebuild w}
    {os os' : Orders} {s' : Rebuild w}
    (hr : (emitReadAll ps vars s).run os = .ok (s', os')) (hwf : Wf s) : WK s s' :=
  (emitReadAll_wk_cov ps vars hr hwf).1

theorem clobber_wk {s : Rebuild w} (ps : List (Rebuild w)) (var : Int) (maybe : Bool)
    {os os' : Orders} {s' : Rebuild w} (hr : (clobber s ps var maybe).run os = .ok (s', os'))
    (hwf : Wf s) : WK s s' := by
  obtain ⟨_, hwf', _⟩ := clobber_spec ps hwf var maybe hr
  refine ⟨hwf', ?_⟩
  unfold clobber at hr
  rw [run_bind_ok] at hr
  obtain ⟨⟨s2, toEmit⟩, os1, h1, h2⟩ := hr
  rw [run_pure] at h2
  cases h2
  have hs0 : ∃ s0, s0 = (if !maybe then (removePending s var).1 else s) := ⟨_, rfl⟩
  obtain ⟨s0, hs0e⟩ := hs0
  rw [← hs0e] at h1
  have hwf0 : Wf s0 := by
    rw [hs0e]; split
    · exact removePending_wf hwf var
    · exact hwf
  have k0 : KStep s s0 := by
    rw [hs0e]; split
    · exact removePending_kstep s var
    · exact KStep.refl s
  have r := gatherEmit_kstep ps hwf0 var h1
  refine (k0.trans r.k).trans (insertWritten_kstep_nonknown _ var _ ?_)
  intro e; split <;> simp

theorem clobberAll_wk (ps : List (Rebuild w)) (vars : List (Int × Bool)) {s : Rebuild w}
    {os os' : Orders} {s' : Rebuild w}
    (hr : (clobberAll ps vars s).run os = .ok (s', os')) (hwf : Wf s) : WK s s' := by
  unfold clobberAll at hr
  refine foldlM_wk _ vars ?_ hwf hr
  intro s vm os s' os' _ hwf' h
  exact clobber_wk ps vm.1 vm.2 h hwf'

theorem performAll_wk {s : Rebuild w} {ps : List (Rebuild w)} {shift : Int}
    {calcs : List (Int × Expr w)} {os os' : Orders} {s' : Rebuild w}
    (hr : (performAll s ps shift calcs).run os = .ok (s', os')) (hwf : Wf s) : WK s s' := by
  rw [performAll_eq, run_bind_ok] at hr
  obtain ⟨s1, os1, h1, h2⟩ := hr
  rw [run_bind_ok] at h2
  obtain ⟨exprs, os2, h3, h4⟩ := h2
  rw [run_pure] at h4
  cases h4
  have r := performCheck_wk ps calcs h1 hwf
  obtain ⟨a, b⟩ := foldl_insertPending_wf r.wf ps exprs
  exact ⟨a, r.k.trans (KStep.of_sameButPend b)⟩

/-! ### the non-loop arms of `rebuildInstr` -/

theorem WK.of_same {s s1 s2 : Rebuild w} (h : WK s s1) (hwf : Wf s2) (hsub : s2.subShift = s1.subShift)
    (hr : s2.reads = s1.reads) (hw : s2.written = s1.written) : WK s s2 :=
  ⟨hwf, h.k.trans (KStep.of_same hsub hr hw)⟩

theorem rebuildInstr_wk {ps : List (Rebuild w)} {s : Rebuild w} {i : Instr w} {os os' : Orders}
    {s' : Rebuild w} (hr : (rebuildInstr ps s i).run os = .ok (s', os')) (hwf : Wf s)
    (hb : C01Dse.isBlock i = false) : WK s s' := by
  cases i with
  | output src =>
    rw [rebuildInstr] at hr
    split at hr
    · rename_i x hx
      rw [run_pure] at hr
      cases hr
      have r := (WK.refl hwf).read x
      exact r.of_same (r.wf.pushInsts _) rfl rfl rfl
    · rw [run_bind_ok] at hr
      obtain ⟨s1, os1, h1, h2⟩ := hr
      rw [run_pure] at h2
      cases h2
      have r := (emit_wk ps (src + s.shift) h1 hwf).read (src + s.shift)
      exact r.of_same (r.wf.pushInsts _) rfl rfl rfl
  | input dst =>
    rw [rebuildInstr, run_bind_ok] at hr
    obtain ⟨s1, os1, h1, h2⟩ := hr
    rw [run_pure] at h2
    cases h2
    have r := clobber_wk ps (dst + s.shift) false h1 hwf
    exact r.of_same (r.wf.pushInsts _) rfl rfl rfl
  | «calc» calcs =>
    rw [rebuildInstr] at hr
    exact performAll_wk hr hwf
  | loop c sh b o => simp [C01Dse.isBlock] at hb
  | ifnz c sh b => simp [C01Dse.isBlock] at hb

end OptProof
end Hpbf
