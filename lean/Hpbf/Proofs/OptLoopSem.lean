/-
Loop optimisations of `Hpbf/Opt.lean`, part A (semantic half): the loop as a sequence of memories, and the
meaning of the results of `constantsAmong` and `linearAmong`.

A round of the loop is `m ↦ Mem.par P (body k m)`: the emitted instructions of the body (`body k`, an arbitrary
memory transformer that may differ from round to round, e.g. because it consumes input) followed by the
pending simultaneous assignment `P = sub.pending`.  `run body P m0 k` is the memory at the start of round `k`.
With `body = fun _ m => m` this is `Mem.iter P k m0` (`run_id`).
-/
import Hpbf.Proofs.OptLoopConstFix

namespace Hpbf.OptLoop
open Hpbf Opt OptSem Expr

variable {w : Nat}

/-- The memory at the start of round `k`. -/
def run (body : Nat → Mem w → Mem w) (P : List (Int × Expr w)) (m0 : Mem w) : Nat → Mem w
  | 0 => m0
  | k + 1 => Mem.par P (body k (run body P m0 k))

/-- The memory in the middle of round `k`: after the emitted instructions, before the pending assignment. -/
def mid (body : Nat → Mem w → Mem w) (P : List (Int × Expr w)) (m0 : Mem w) (k : Nat) : Mem w :=
  body k (run body P m0 k)

@[simp] theorem run_zero (body : Nat → Mem w → Mem w) (P : List (Int × Expr w)) (m0 : Mem w) :
    run body P m0 0 = m0 := rfl

theorem run_succ (body : Nat → Mem w → Mem w) (P : List (Int × Expr w)) (m0 : Mem w) (k : Nat) :
    run body P m0 (k + 1) = Mem.par P (mid body P m0 k) := rfl

/-- Without emitted instructions the rounds are `Mem.iter`. -/
theorem run_id (P : List (Int × Expr w)) (m0 : Mem w) (k : Nat) :
    run (fun _ m => m) P m0 k = Mem.iter P k m0 := by
  induction k with
  | zero => rfl
  | succ k ih => rw [run_succ, mid, ih, iter_succ']

theorem mid_id (P : List (Int × Expr w)) (m0 : Mem w) (k : Nat) :
    mid (fun _ m => m) P m0 k = Mem.iter P k m0 := by
  rw [mid, run_id]

theorem run_pending {body : Nat → Mem w → Mem w} {P : List (Int × Expr w)} {m0 : Mem w} {v : Int}
    {e : Expr w} (h : mGet P v = some e) (k : Nat) :
    run body P m0 (k + 1) v = ev e (mid body P m0 k) := by
  rw [run_succ, par_of_get _ _ _ _ h]

theorem run_not_pending {body : Nat → Mem w → Mem w} {P : List (Int × Expr w)} {m0 : Mem w} {v : Int}
    (h : mGet P v = none) (k : Nat) :
    run body P m0 (k + 1) v = mid body P m0 k v := by
  rw [run_succ, par_of_not_mem _ _ _ h]

/-- What `sub.written` says about the emitted instructions of the body, along the run (owned by the main
prover). -/
structure BodyFacts (sub : Rebuild w) (body : Nat → Mem w → Mem w) (M : Nat → Mem w) : Prop where
  /-- a cell without an entry in `written` is not changed by the emitted instructions -/
  unwritten : ∀ k v, mGet sub.written v = none → body k (M k) v = M k v
  /-- a `known` entry is the value after the emitted instructions, over the memory at the start of the round -/
  known : ∀ k v e, mGet sub.written v = some (.known e) → body k (M k) v = ev e (M k)

/-- No emitted instructions: `written` is empty. -/
theorem bodyFacts_id (sub : Rebuild w) (M : Nat → Mem w) (h : sub.written = []) :
    BodyFacts sub (fun _ m => m) M :=
  ⟨fun _ _ _ => rfl, fun k v e he => by rw [h] at he; cases he⟩

/-! ### constants -/

/-- **Soundness of `Good` sets** (hence of `constantsAmong`): if `compare s ps (var v) e = ok true` means
`e` has the value of `v` in the memory `m0` at loop entry, then every variable of a `Good` set has, at the
start and in the middle of every round, the value it has in `m0`. -/
theorem constants_sound (s : Rebuild w) (ps : List (Rebuild w)) (sub : Rebuild w) (C : List Int)
    (m0 : Mem w) (body : Nat → Mem w → Mem w)
    (hgood : ∀ c ∈ C, Good s ps sub C c)
    (hcmp : ∀ v e, compare s ps (Expr.var v) e = .ok true → ev e m0 = m0 v)
    (hb : BodyFacts sub body (run body sub.pending m0)) :
    ∀ k, ∀ c ∈ C, run body sub.pending m0 k c = m0 c ∧ mid body sub.pending m0 k c = m0 c := by
  have hmid : ∀ k, (∀ c ∈ C, run body sub.pending m0 k c = m0 c) →
      ∀ c ∈ C, mid body sub.pending m0 k c = m0 c := by
    intro k hA c hc
    obtain ⟨vs, hcand, hvs⟩ := hgood c hc
    unfold IsCand at hcand
    cases hw : mGet sub.written c with
    | none => rw [mid, hb.unwritten k c hw]; exact hA c hc
    | some wv =>
      cases wv with
      | known wr =>
        simp only [hw] at hcand
        have hsub : ∀ x ∈ Expr.variables wr, x ∈ vs := by
          cases hp : mGet sub.pending c with
          | none => simp only [hp] at hcand; rw [hcand.2]; exact fun x hx => hx
          | some p =>
            simp only [hp] at hcand
            rw [hcand.2.2]; exact fun x hx => List.mem_append_left _ hx
        rw [mid, hb.known k c wr hw, ← hcmp c wr hcand.1]
        apply ev_congr
        intro x hx
        rcases hvs x (hsub x hx) with rfl | hxC
        · exact hA x hc
        · exact hA x hxC
      | unknown => simp only [hw] at hcand
      | maybe => simp only [hw] at hcand
  have hnext : ∀ k, (∀ c ∈ C, mid body sub.pending m0 k c = m0 c) →
      ∀ c ∈ C, run body sub.pending m0 (k + 1) c = m0 c := by
    intro k hB c hc
    cases hp : mGet sub.pending c with
    | none => rw [run_not_pending hp]; exact hB c hc
    | some p =>
      obtain ⟨vs, hcand, hvs⟩ := hgood c hc
      unfold IsCand at hcand
      have hpc : compare s ps (Expr.var c) p = .ok true ∧ ∀ x ∈ Expr.variables p, x ∈ vs := by
        cases hw : mGet sub.written c with
        | none =>
          simp only [hw, hp] at hcand
          exact ⟨hcand.1, by rw [hcand.2]; exact fun x hx => hx⟩
        | some wv =>
          cases wv with
          | known wr =>
            simp only [hw, hp] at hcand
            exact ⟨hcand.2.1, by rw [hcand.2.2]; exact fun x hx => List.mem_append_right _ hx⟩
          | unknown => simp only [hw] at hcand
          | maybe => simp only [hw] at hcand
      rw [run_pending hp, ← hcmp c p hpc.1]
      apply ev_congr
      intro x hx
      rcases hvs x (hpc.2 x hx) with rfl | hxC
      · exact hB x hc
      · exact hB x hxC
  intro k
  induction k with
  | zero =>
    have hA : ∀ c ∈ C, run body sub.pending m0 0 c = m0 c := fun c _ => rfl
    exact fun c hc => ⟨hA c hc, hmid 0 hA c hc⟩
  | succ k ih =>
    have hA := hnext k (fun c hc => (ih c hc).2)
    exact fun c hc => ⟨hA c hc, hmid (k + 1) hA c hc⟩

/-- **`constantsAmong_sound`**. -/
theorem constantsAmong_sound (s : Rebuild w) (ps : List (Rebuild w)) (sub : Rebuild w) (vars : List Int)
    (C : List Int) (m0 : Mem w) (body : Nat → Mem w → Mem w)
    (hC : constantsAmong s ps sub vars = .ok C) (hnd : vars.Nodup)
    (hcmp : ∀ v e, compare s ps (Expr.var v) e = .ok true → ev e m0 = m0 v)
    (hb : BodyFacts sub body (run body sub.pending m0)) :
    ∀ k, ∀ c ∈ C, run body sub.pending m0 k c = m0 c ∧ mid body sub.pending m0 k c = m0 c :=
  constants_sound s ps sub C m0 body (constantsAmong_good s ps sub vars C hnd hC) hcmp hb

/-- The version without emitted instructions: `n`-fold repetition of the pending assignment. -/
theorem constantsAmong_sound_iter (s : Rebuild w) (ps : List (Rebuild w)) (sub : Rebuild w)
    (vars : List Int) (C : List Int) (m0 : Mem w)
    (hC : constantsAmong s ps sub vars = .ok C) (hnd : vars.Nodup) (hwr : sub.written = [])
    (hcmp : ∀ v e, compare s ps (Expr.var v) e = .ok true → ev e m0 = m0 v) :
    ∀ n, ∀ c ∈ C, Mem.iter sub.pending n m0 c = m0 c := by
  intro n c hc
  rw [← run_id]
  exact (constantsAmong_sound s ps sub vars C m0 (fun _ m => m) hC hnd hcmp
    (bodyFacts_id sub _ hwr) n c hc).1

/-! ### linear variables -/

/-- The body of the loop of `linear_among`. -/
def linStep (s : Rebuild w) (ps : List (Rebuild w)) (sub : Rebuild w) (constant : List Int)
    (linear : List (Int × Expr w)) (var : Int) : List (Int × Expr w) :=
  if mHas sub.written var then linear
  else
    match getBoth sub (s :: ps) var with
    | some complete =>
      match Expr.incOf complete var with
      | some inc =>
        if (Expr.variables inc).all (fun x => constant.contains x) then mSet linear var inc else linear
      | none => linear
    | none => linear

theorem linearAmong_eq (s : Rebuild w) (ps : List (Rebuild w)) (sub : Rebuild w) (constant : List Int)
    (vars : List Int) :
    linearAmong s ps sub constant vars = vars.foldl (linStep s ps sub constant) [] := rfl

/-- What an entry `(v, inc)` of the result of `linearAmong` says. -/
def IsLin (s : Rebuild w) (ps : List (Rebuild w)) (sub : Rebuild w) (constant : List Int) (v : Int)
    (inc : Expr w) : Prop :=
  mGet sub.written v = none ∧
  ∃ complete, getBoth sub (s :: ps) v = some complete ∧ Expr.incOf complete v = some inc ∧
    ∀ x ∈ Expr.variables inc, constant.contains x = true

theorem linFold_spec (s : Rebuild w) (ps : List (Rebuild w)) (sub : Rebuild w) (constant : List Int)
    (vars : List Int) (acc : List (Int × Expr w)) (v : Int) (inc : Expr w)
    (h : mGet (vars.foldl (linStep s ps sub constant) acc) v = some inc) :
    mGet acc v = some inc ∨ (v ∈ vars ∧ IsLin s ps sub constant v inc) := by
  induction vars generalizing acc with
  | nil => exact Or.inl h
  | cons x vars ih =>
    rw [List.foldl_cons] at h
    rcases ih _ h with h1 | h1
    · unfold linStep at h1
      split at h1
      · exact Or.inl h1
      · rename_i hw
        split at h1
        · rename_i complete hgb
          split at h1
          · rename_i inc' hinc
            split at h1
            · rename_i hall
              rw [mGet_mSet] at h1
              split at h1
              · rename_i hxv
                subst hxv
                simp only [Option.some.injEq] at h1
                subst h1
                right
                refine ⟨List.mem_cons_self, ?_, complete, hgb, hinc, fun y hy => List.all_eq_true.1 hall y hy⟩
                simp only [mHas, Bool.not_eq_true, Option.isSome_eq_false_iff, Option.isNone_iff_eq_none] at hw
                exact hw
              · exact Or.inl h1
            · exact Or.inl h1
          · exact Or.inl h1
        · exact Or.inl h1
    · exact Or.inr ⟨List.mem_cons_of_mem _ h1.1, h1.2⟩

/-- **`linearAmong`**, syntactically. -/
theorem linearAmong_spec (s : Rebuild w) (ps : List (Rebuild w)) (sub : Rebuild w) (constant : List Int)
    (vars : List Int) (v : Int) (inc : Expr w)
    (h : mGet (linearAmong s ps sub constant vars) v = some inc) :
    v ∈ vars ∧ IsLin s ps sub constant v inc := by
  rw [linearAmong_eq] at h
  rcases linFold_spec s ps sub constant vars [] v inc h with h1 | h1
  · cases h1
  · exact h1

/-- What `getBoth` on the body state means along the run (owned by the main prover): the total effect of one
round on a cell, over the memory at the start of the round; the expression is in normal form. -/
def GetBothFacts (s : Rebuild w) (ps : List (Rebuild w)) (sub : Rebuild w) (M : Nat → Mem w) : Prop :=
  ∀ v e, getBoth sub (s :: ps) v = some e → WeakCanon e ∧ ∀ k, M (k + 1) v = ev e (M k)

/-- The semantic content of a linear entry: not written by the emitted instructions, the increment is over
constants and does not mention the variable, and every round adds the (constant) value of the increment. -/
structure LinSound (sub : Rebuild w) (C : List Int) (M : Nat → Mem w) (v : Int) (inc : Expr w) : Prop where
  unwritten : mGet sub.written v = none
  overConst : ∀ x ∈ Expr.variables inc, C.contains x = true
  fresh : v ∉ Expr.variables inc
  step : ∀ k, M (k + 1) v = M k v + ev inc (M k)
  closed : ∀ k, M k v = M 0 v + BitVec.ofNat w k * ev inc (M 0)

/-- **`linearAmong_sound`**. -/
theorem linearAmong_sound (s : Rebuild w) (ps : List (Rebuild w)) (sub : Rebuild w) (C : List Int)
    (vars : List Int) (M : Nat → Mem w)
    (hgb : GetBothFacts s ps sub M)
    (hconst : ∀ k, ∀ c ∈ C, M k c = M 0 c)
    (v : Int) (inc : Expr w) (h : mGet (linearAmong s ps sub C vars) v = some inc) :
    LinSound sub C M v inc := by
  obtain ⟨_, hw, complete, hg, hinc, hvars⟩ := linearAmong_spec s ps sub C vars v inc h
  obtain ⟨hcanon, hstep⟩ := hgb v complete hg
  have hincK : ∀ k, ev inc (M k) = ev inc (M 0) := by
    intro k
    apply ev_congr
    intro x hx
    exact hconst k x (by simpa using hvars x hx)
  have hstep' : ∀ k, M (k + 1) v = M k v + ev inc (M k) := by
    intro k
    rw [hstep k]
    exact C15.incOf_recompose complete inc v (M k) hcanon hinc
  refine ⟨hw, hvars, C15.incOf_fresh complete inc v hinc, hstep', ?_⟩
  intro k
  induction k with
  | zero => simp
  | succ k ih =>
    rw [hstep' k, ih, hincK k]
    generalize M 0 v = a
    generalize ev inc (M 0) = b
    bvring

end Hpbf.OptLoop
