/-
Rebuild-round proofs, stage 4: `factsAt_real` / `tripFacts_real` with the guard on the heads only required where the
body is really entered (for an `if`: head 0 only).  Proofs as in `OptRbAnal.lean`.
-/
import Hpbf.Proofs.OptRbAnal

namespace Hpbf
namespace OptProof
open Opt OptSem Ir

variable {w : Nat}

section Facts
variable {Gc : State w → Prop} {shP shC shS cS : Int} {bodyS : List (Instr w)}
  {s : Rebuild w} {ps : List (Rebuild w)} {sub0 sub : Rebuild w}

/-- **The flags of `analyzeLoop` are right for the source block**, for one source state related through the
parent. -/
theorem factsAt_real_g (hw : 0 < w) {M0 : Mem w} {σE σS : State w} {cond : Int} {isLoop oS : Bool}
    (hrel : RelAt shP s ps M0 σE σS) (hcond : cond = cS + shP)
    (hsh : shC + shS = (sub.shift - s.shift) + shP)
    (hrep : ChildRep Gc shP shC (s :: ps) sub0 (s :: ps) sub bodyS)
    (hentry : ∀ σE σS : State w, SameMem shP σS σE → σS.rd cS ≠ 0#w → Gc σS →
      ∃ M0, RelAt shP sub0 (s :: ps) M0 σE σS)
    (hw0 : sub0.written = [])
    (hGcH : ∀ k σk, Head cS shS bodyS σS k σk → (isLoop = false → k = 0) → σk.rd cS ≠ 0#w → Gc σk) :
    FactsAt isLoop cS shS bodyS oS (analyzeLoop s ps sub cond isLoop) σS := by
  have hc0 : σS.rd cS = memS σE σS cond := by rw [hrel.rdS cS, hcond]
  cases hnr : sub.noReturn with
  | true =>
    -- the body never returns
    have hnb : σS.rd cS ≠ 0#w → ∀ a, ¬ Exec bodyS σS (.fin a) :=
      fun hne => real_noReturn hrep hentry hnr (hGcH 0 σS Head.zero (fun _ => rfl) hne) hne
    rcases OptLoop.analyzeLoop_noReturn s ps sub cond isLoop hnr with ⟨hc, heq⟩ | ⟨_, heq⟩
    · rw [heq]
      have hz : σS.rd cS = 0#w := by rw [hc0]; exact getConstant_sound hrel.inv hc
      refine ⟨fun _ => hz, ?_, fun _ _ hne => absurd hz hne, fun _ => ofExpr_zero_amo, ?_, fun _ => Or.inl hz, ?_⟩
      · intro h; simp [OptLoop.ofExpr, OptLoop.constant_val] at h
      · intro h; simp [OptLoop.ofExpr] at h
      · intro _ h; rw [ofExpr_zero_amo] at h; cases h
    · rw [heq]
      have hal : isNonZero s ps cond = true → σS.rd cS ≠ 0#w := by
        intro h; rw [hc0]; exact isNonZero_sound hrel.inv h
      refine ⟨?_, ?_, ?_, fun _ => rfl, ?_, ?_, ?_⟩
      · intro h; simp [OptLoop.noReturn] at h
      · intro h; exact hal (by simpa [OptLoop.noReturn] using h)
      · intro _ _ hne σ1 hex; exact absurd hex (hnb hne σ1)
      · intro h
        have hne := hal (by simpa [OptLoop.noReturn] using h)
        exact block_nofin_of_body hne (hnb hne)
      · intro _
        by_cases hz : σS.rd cS = 0#w
        · exact Or.inl hz
        · exact Or.inr (block_nofin_of_body hz (hnb hz))
      · intro _ h; simp [OptLoop.noReturn] at h
  | false =>
    cases isLoop with
    | true =>
      have hcf := condFacts_real hrel hcond hsh hrep hentry hw0
        (fun k σk hh hne => hGcH k σk hh (fun h => by cases h) hne)
      have hm := OptLoop.analyzeLoop_sound' hw s ps sub cond true _ hcf hnr
      exact factsAt_of_meaning hm (fun k σk hh => cvSeq_head hh)
    | false =>
      have hnz : isNonZero s ps cond = true → σS.rd cS ≠ 0#w := by
        intro h; rw [hc0]; exact isNonZero_sound hrel.inv h
      rcases analyzeLoop_if s ps sub cond hnr with ⟨hc, heq⟩ | heq
      · rw [heq]
        have hz : σS.rd cS = 0#w := by rw [hc0]; exact getConstant_sound hrel.inv hc
        refine factsAt_if (cond := cond) ?_ ofExpr_zero_amo
        apply OptLoop.ofExpr_val_meaning
        refine ⟨fun k hk => ?_, ?_⟩
        · simp at hk
        · simpa using hz
      · rw [heq]
        refine factsAt_if (cond := cond) ?_ (atMostOnceOf_amo _)
        exact OptLoop.atMostOnceOf_meaning hw _ cond _ (by simpa using hnz) (fun _ => by simp)

end Facts

section TripFacts
variable {Gc : State w → Prop} {shP shC shS cS : Int} {bodyS : List (Instr w)}
  {s : Rebuild w} {ps : List (Rebuild w)} {sub0 sub : Rebuild w}

/-- What the loop-motion pack needs to know about the number of rounds. -/
theorem tripFacts_real_g (hw : 0 < w) {M0 : Mem w} {σE σS : State w} {cond : Int} {isLoop : Bool}
    (hrel : RelAt shP s ps M0 σE σS) (hcond : cond = cS + shP)
    (hsh : shC + shS = (sub.shift - s.shift) + shP)
    (hrep : ChildRep Gc shP shC (s :: ps) sub0 (s :: ps) sub bodyS)
    (hentry : ∀ σE σS : State w, SameMem shP σS σE → σS.rd cS ≠ 0#w → Gc σS →
      ∃ M0, RelAt shP sub0 (s :: ps) M0 σE σS)
    (hw0 : sub0.written = [])
    (hGcH : ∀ k σk, Head cS shS bodyS σS k σk → (isLoop = false → k = 0) → σk.rd cS ≠ 0#w → Gc σk)
    {n : Nat} (ht : Trip isLoop cS shS bodyS σS n) :
    OptLoop.TripFacts (analyzeLoop s ps sub cond isLoop) n (memS σE σS) ∧
    ((analyzeLoop s ps sub cond isLoop).atMostOnce = true → n ≤ 1) ∧
    ((analyzeLoop s ps sub cond isLoop).noEffect = true → n = 0) := by
  have hc0 : σS.rd cS = memS σE σS cond := by rw [hrel.rdS cS, hcond]
  cases hnr : sub.noReturn with
  | true =>
    have hnb : σS.rd cS ≠ 0#w → ∀ a, ¬ Exec bodyS σS (.fin a) :=
      fun hne => real_noReturn hrep hentry hnr (hGcH 0 σS Head.zero (fun _ => rfl) hne) hne
    -- no round is completed
    have hn0 : n = 0 ∧ σS.rd cS = 0#w := by
      unfold Trip at ht
      cases isLoop with
      | true =>
        simp only [if_true] at ht
        obtain ⟨σn, hh, hz⟩ := ht
        by_cases hn : n = 0
        · subst hn; cases hh; exact ⟨rfl, hz⟩
        · obtain ⟨hne, y, hy⟩ := head_first' hh hn
          exact absurd hy (hnb hne y)
      | false =>
        simp only [Bool.false_eq_true, if_false] at ht
        rcases ht with h | ⟨_, hne, a, ha⟩
        · exact h
        · exact absurd ha (hnb hne a)
    obtain ⟨rfl, hz⟩ := hn0
    rcases OptLoop.analyzeLoop_noReturn s ps sub cond isLoop hnr with ⟨_, heq⟩ | ⟨_, heq⟩
    · rw [heq]
      have hm : OptLoop.LoopMeaning (OptLoop.ofExpr (Expr.val 0#w)) (fun _ => (0#w : BitVec w)) cond := by
        apply OptLoop.ofExpr_val_meaning
        exact ⟨fun k hk => by simp at hk, rfl⟩
      exact OptLoop.tripFacts_of_meaning hw hm _ (by rw [← hc0]; exact hz) 0 ⟨fun k hk => by omega, rfl⟩
    · rw [heq]
      refine ⟨?_, fun _ => by omega, fun _ => rfl⟩
      intro expr he
      have hal : isNonZero s ps cond = false := by
        cases h : isNonZero s ps cond with
        | false => rfl
        | true =>
          have := isNonZero_sound hrel.inv h
          rw [← hc0] at this
          exact absurd hz this
      simp [OptLoop.noReturn, hal] at he
  | false =>
    cases isLoop with
    | true =>
      have hcf := condFacts_real hrel hcond hsh hrep hentry hw0
        (fun k σk hh hne => hGcH k σk hh (fun h => by cases h) hne)
      have hm := OptLoop.analyzeLoop_sound' hw s ps sub cond true _ hcf hnr
      unfold Trip at ht
      simp only [if_true] at ht
      obtain ⟨σn, hh, hz⟩ := ht
      refine OptLoop.tripFacts_of_meaning hw hm _ ?_ n ⟨?_, ?_⟩
      · show memS σE σS cond = σS.rd cS
        exact hc0.symm
      · intro k hk
        obtain ⟨σk, _, hhk, hne, _, _⟩ := head_prefix hh k hk
        rw [cvSeq_head hhk]; exact hne
      · rw [cvSeq_head hh]; exact hz
    | false =>
      have hnz : isNonZero s ps cond = true → σS.rd cS ≠ 0#w := by
        intro h; rw [hc0]; exact isNonZero_sound hrel.inv h
      have hm : OptLoop.LoopMeaning (analyzeLoop s ps sub cond false)
          (fun k => if k = 0 then σS.rd cS else 0#w) cond := by
        rcases analyzeLoop_if s ps sub cond hnr with ⟨hc, heq⟩ | heq
        · rw [heq]
          have hz : σS.rd cS = 0#w := by rw [hc0]; exact getConstant_sound hrel.inv hc
          apply OptLoop.ofExpr_val_meaning
          exact ⟨fun k hk => by simp at hk, by simpa using hz⟩
        · rw [heq]
          exact OptLoop.atMostOnceOf_meaning hw _ cond _ (by simpa using hnz) (fun _ => by simp)
      unfold Trip at ht
      simp only [Bool.false_eq_true, if_false] at ht
      refine OptLoop.tripFacts_of_meaning hw hm _ (by simpa using hc0.symm) n ?_
      rcases ht with ⟨rfl, hz⟩ | ⟨rfl, hne, _⟩
      · exact ⟨fun k hk => by omega, by simpa using hz⟩
      · refine ⟨fun k hk => ?_, by simp⟩
        have : k = 0 := by omega
        subst this
        simpa using hne

end TripFacts

end OptProof
end Hpbf
