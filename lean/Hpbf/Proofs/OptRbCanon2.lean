/-
Rebuild-round proofs: the normal-form invariant, part 2: the emitting primitives (`CStep`), the non-loop
arms of `rebuildInstr`, straight-line instruction lists, and the parser output.
-/
import Hpbf.Proofs.OptRbCanon

namespace Hpbf
namespace OptProof
open Opt OptSem Ir

variable {w : Nat}

/-! ### steps that keep the invariant and append good code -/

/-- `s'` is well-formed and canonical, and its code is the code of `s` followed by good instructions. -/
structure CStep (s s' : Rebuild w) : Prop where
  wf : Wf s'
  canon : CanonSt s'
  insts : ∃ new, s'.insts = s.insts ++ new ∧ GoodL new

theorem CStep.refl {s : Rebuild w} (hwf : Wf s) (hc : CanonSt s) : CStep s s :=
  ⟨hwf, hc, [], by simp, goodL_nil⟩

theorem CStep.trans {a b c : Rebuild w} (h1 : CStep a b) (h2 : CStep b c) : CStep a c := by
  obtain ⟨n1, e1, g1⟩ := h1.insts
  obtain ⟨n2, e2, g2⟩ := h2.insts
  exact ⟨h2.wf, h2.canon, n1 ++ n2, by rw [e2, e1, List.append_assoc], goodL_append.2 ⟨g1, g2⟩⟩

/-- The requested form of the conclusion. -/
theorem CStep.out {s s' : Rebuild w} (h : CStep s s') :
    CanonSt s' ∧ ∃ new, s'.insts = s.insts ++ new ∧ GoodL new := ⟨h.canon, h.insts⟩

/-- Followed by a change that appends the good instructions `l`. -/
theorem CStep.push {s s1 s2 : Rebuild w} (h : CStep s s1) (hwf : Wf s2) (hc : CanonSt s2)
    {l : List (Instr w)} (hi : s2.insts = s1.insts ++ l) (hl : GoodL l) : CStep s s2 := by
  obtain ⟨n1, e1, g1⟩ := h.insts
  exact ⟨hwf, hc, n1 ++ l, by rw [hi, e1, List.append_assoc], goodL_append.2 ⟨g1, hl⟩⟩

/-- Followed by a change that leaves the code alone. -/
theorem CStep.same {s s1 s2 : Rebuild w} (h : CStep s s1) (hwf : Wf s2) (hc : CanonSt s2)
    (hi : s2.insts = s1.insts) : CStep s s2 :=
  h.push hwf hc (l := []) (by rw [hi]; simp) goodL_nil

theorem CStep.read {s s1 : Rebuild w} (h : CStep s s1) (var : Int) : CStep s (Opt.read s1 var) :=
  h.same ((read_same s1 var).wf h.wf) (read_canon h.canon var) (read_same s1 var).2.2.2.2.2.2.2.2.2.1

/-- Invariant rule for `foldlM`. -/
theorem foldlM_cstep {γ : Type} (f : Rebuild w → γ → M (Rebuild w)) (l : List γ)
    (hstep : ∀ s x os s' os', x ∈ l → Wf s → CanonSt s → (f s x).run os = .ok (s', os') → CStep s s')
    {s : Rebuild w} {os : Orders} {s' : Rebuild w} {os' : Orders} (hwf : Wf s) (hc : CanonSt s)
    (hr : (l.foldlM f s).run os = .ok (s', os')) : CStep s s' := by
  induction l generalizing s os with
  | nil =>
    rw [List.foldlM_nil, run_pure] at hr
    cases hr; exact CStep.refl hwf hc
  | cons x l ih =>
    rw [List.foldlM_cons, run_bind_ok] at hr
    obtain ⟨s1, os1, h1, h2⟩ := hr
    have r1 := hstep s x os s1 os1 (by simp) hwf hc h1
    exact r1.trans (ih (fun s x os s' os' hx => hstep s x os s' os' (List.mem_cons_of_mem _ hx))
      r1.wf r1.canon h2)

/-! ### `gatherForEmit` + `emitStructured` -/

theorem gatherEmit_canon {s : Rebuild w} (ps : List (Rebuild w)) (hwf : Wf s) (hc : CanonSt s) (var : Int)
    {os os' : Orders} {s1 : Rebuild w} {toEmit : List (List (Int × Expr w))}
    (hr : (gatherForEmit s [var]).run os = .ok ((s1, toEmit), os')) :
    CStep s (emitStructured s1 ps toEmit) := by
  obtain ⟨g1, g2, g3, _, _, g6, g7, _, _⟩ := gatherForEmit_spec hwf var hr
  have hc1 : CanonSt s1 := by
    constructor
    · intro v e h; exact hc.1 v e (g3 v e h)
    · intro v e h
      rw [g2.2.2.2.2.2.2.2.1] at h
      exact hc.2 v e h
  have hgc : ∀ g ∈ toEmit, CanonCalcs g := fun g hg ve hve => hc.1 ve.1 ve.2 (g7 g hg ve hve)
  obtain ⟨k1, _, k3, _⟩ := emitStructured_struct g1 ps toEmit
  refine ⟨k3, emitStructured_canon hc1 ps hgc, toEmit.map Instr.calc, ?_, ?_⟩
  · rw [k1, g2.2.2.2.2.2.2.2.2.1]
  · exact goodL_calcs (fun g hg => (g6 g hg).1) hgc

theorem emit_canon {s : Rebuild w} (ps : List (Rebuild w)) (var : Int) {os os' : Orders} {s' : Rebuild w}
    (hr : (emit s ps var).run os = .ok (s', os')) (hwf : Wf s) (hc : CanonSt s) : CStep s s' := by
  unfold emit at hr
  split at hr
  · rw [run_bind_ok] at hr
    obtain ⟨⟨s1, toEmit⟩, os1, h1, h2⟩ := hr
    rw [run_pure] at h2
    cases h2
    exact gatherEmit_canon ps hwf hc var h1
  · rw [run_pure] at hr
    cases hr
    exact CStep.refl hwf hc

theorem explosionVars_canon (ps : List (Rebuild w)) (vars : List Int) (last : Option Int) {s : Rebuild w}
    {os os' : Orders} {s' : Rebuild w}
    (hr : (explosionVars ps vars last s).run os = .ok (s', os')) (hwf : Wf s) (hc : CanonSt s) :
    CStep s s' := by
  induction vars generalizing s os last with
  | nil =>
    rw [explosionVars, run_pure] at hr
    cases hr; exact CStep.refl hwf hc
  | cons var rest ih =>
    rw [explosionVars] at hr
    have hskip : ∀ {os : Orders}, ((do let s ← pure s; (fun s => explosionVars ps rest (some var) s) s) :
        M (Rebuild w)).run os = .ok (s', os') → CStep s s' := by
      intro os h
      rw [run_bind_ok] at h
      obtain ⟨s1, os1, h1, h2⟩ := h
      rw [run_pure] at h1; cases h1
      exact ih (some var) h2 hwf hc
    split at hr
    · split at hr
      · rw [run_bind_ok] at hr
        obtain ⟨s1, os1, h1, h2⟩ := hr
        have r1 := emit_canon ps var h1 hwf hc
        exact r1.trans (ih (some var) h2 r1.wf r1.canon)
      · exact hskip hr
    · exact hskip hr

theorem performCheck_canon (ps : List (Rebuild w)) (calcs : List (Int × Expr w)) {s : Rebuild w}
    {os os' : Orders} {s' : Rebuild w}
    (hr : (performCheck s ps calcs).run os = .ok (s', os')) (hwf : Wf s) (hc : CanonSt s) :
    CStep s s' := by
  unfold performCheck at hr
  refine foldlM_cstep _ calcs ?_ hwf hc hr
  intro s vc os s' os' _ hwf' hc' h
  refine foldlM_cstep _ (groupedVars vc.2) ?_ hwf' hc' h
  intro s vars os s' os' _ hwf'' hc'' h'
  split at h'
  · exact explosionVars_canon ps vars none h' hwf'' hc''
  · rw [run_pure] at h'; cases h'; exact CStep.refl hwf'' hc''

theorem emitAll_canon (ps : List (Rebuild w)) (vars : List Int) {s : Rebuild w}
    {os os' : Orders} {s' : Rebuild w}
    (hr : (emitAll ps vars s).run os = .ok (s', os')) (hwf : Wf s) (hc : CanonSt s) : CStep s s' := by
  unfold emitAll at hr
  refine foldlM_cstep _ vars ?_ hwf hc hr
  intro s var os s' os' _ hwf' hc' h
  exact emit_canon ps var h hwf' hc'

theorem emitReadAll_canon (ps : List (Rebuild w)) (vars : List Int) {s : Rebuild w}
    {os os' : Orders} {s' : Rebuild w}
    (hr : (emitReadAll ps vars s).run os = .ok (s', os')) (hwf : Wf s) (hc : CanonSt s) : CStep s s' := by
  unfold emitReadAll at hr
  refine foldlM_cstep _ vars ?_ hwf hc hr
  intro s var os s' os' _ hwf' hc' h
  rw [run_bind_ok] at h
  obtain ⟨s1, os1, h1, h2⟩ := h
  rw [run_pure] at h2
  cases h2
  exact (emit_canon ps var h1 hwf' hc').read var

theorem clobber_canon {s : Rebuild w} (ps : List (Rebuild w)) (var : Int) (maybe : Bool)
    {os os' : Orders} {s' : Rebuild w} (hr : (clobber s ps var maybe).run os = .ok (s', os'))
    (hwf : Wf s) (hc : CanonSt s) : CStep s s' := by
  unfold clobber at hr
  rw [run_bind_ok] at hr
  obtain ⟨⟨s2, toEmit⟩, os1, h1, h2⟩ := hr
  rw [run_pure] at h2
  cases h2
  have hs0 : ∃ s0, s0 = (if !maybe then (removePending s var).1 else s) := ⟨_, rfl⟩
  obtain ⟨s0, hs0e⟩ := hs0
  rw [← hs0e] at h1
  have hwf0 : Wf s0 := by
    rw [hs0e]; split
    · exact removePending_wf hwf var
    · exact hwf
  have hc0 : CanonSt s0 := by
    rw [hs0e]; split
    · exact removePending_canon hwf hc var
    · exact hc
  have hi0 : s0.insts = s.insts := by
    rw [hs0e]; split
    · exact (removePending_same s var).2.2.2.2.2.2.2.2.1
    · rfl
  have r := gatherEmit_canon ps hwf0 hc0 var h1
  have hk : ∀ e, (if maybe then OptWrite.maybe else OptWrite.unknown : OptWrite w) = .known e →
      Expr.Canon e := by
    intro e h; split at h <;> cases h
  obtain ⟨new, e1, g1⟩ := r.insts
  refine ⟨insertWritten_wf r.wf _ _, insertWritten_canon r.canon var _ hk, new, ?_, g1⟩
  rw [(insertWritten_same _ _ _).2.2.2.2.2.2.2.2.2.1, e1, hi0]

theorem clobberAll_canon (ps : List (Rebuild w)) (vars : List (Int × Bool)) {s : Rebuild w}
    {os os' : Orders} {s' : Rebuild w}
    (hr : (clobberAll ps vars s).run os = .ok (s', os')) (hwf : Wf s) (hc : CanonSt s) : CStep s s' := by
  unfold clobberAll at hr
  refine foldlM_cstep _ vars ?_ hwf hc hr
  intro s vm os s' os' _ hwf' hc' h
  exact clobber_canon ps vm.1 vm.2 h hwf' hc'

theorem all2_evalPending_canon {s : Rebuild w} {ps : List (Rebuild w)} {shift : Int}
    {calcs exprs : List (Int × Expr w)} (hc : CanonSt s) (hcalcs : CanonCalcs calcs)
    (hf : All2 (fun vc ve => ve.1 = shift + vc.1 ∧ evalPending s ps shift vc.2 = .ok ve.2) calcs exprs) :
    CanonCalcs exprs := by
  induction hf with
  | nil => intro ve h; cases h
  | cons hab _ ih =>
    intro ve h
    rcases List.mem_cons.1 h with rfl | h
    · exact evalPending_canon hc ps hab.2 (hcalcs _ (by simp))
    · exact ih (fun vc hvc => hcalcs vc (by simp [hvc])) ve h

theorem performAll_canon {s : Rebuild w} {ps : List (Rebuild w)} {shift : Int}
    {calcs : List (Int × Expr w)} {os os' : Orders} {s' : Rebuild w}
    (hr : (performAll s ps shift calcs).run os = .ok (s', os')) (hwf : Wf s) (hc : CanonSt s)
    (hcalcs : CanonCalcs calcs) : CStep s s' := by
  rw [performAll_eq, run_bind_ok] at hr
  obtain ⟨s1, os1, h1, h2⟩ := hr
  rw [run_bind_ok] at h2
  obtain ⟨exprs, os2, h3, h4⟩ := h2
  rw [run_pure] at h4
  cases h4
  have r := performCheck_canon ps calcs h1 hwf hc
  obtain ⟨_, hf⟩ := performEval_ok h3
  have hex := all2_evalPending_canon r.canon hcalcs hf
  obtain ⟨a, b⟩ := foldl_insertPending_wf r.wf ps exprs
  exact r.same a (foldl_insertPending_canon r.wf r.canon ps exprs hex) b.2.2.2.2.2.2.2.2.1

/-! ### the non-loop arms of `rebuildInstr` -/

theorem Wf.pushInsts {s : Rebuild w} (h : Wf s) (l : List (Instr w)) :
    Wf ({ s with insts := s.insts ++ l } : Rebuild w) := ⟨h.pend, h.writ, h.rev, h.revOk⟩

theorem CanonSt.pushInsts {s : Rebuild w} (h : CanonSt s) (l : List (Instr w)) :
    CanonSt ({ s with insts := s.insts ++ l } : Rebuild w) := ⟨h.1, h.2⟩

theorem rebuildInstr_cstep {ps : List (Rebuild w)} {s : Rebuild w} {i : Instr w} {os os' : Orders}
    {s' : Rebuild w} (hr : (rebuildInstr ps s i).run os = .ok (s', os')) (hwf : Wf s) (hc : CanonSt s)
    (hi : CanonL [i]) (hb : C01Dse.isBlock i = false) : CStep s s' := by
  cases i with
  | output src =>
    rw [rebuildInstr] at hr
    split at hr
    · rename_i x hx
      rw [run_pure] at hr
      cases hr
      have r := (CStep.refl hwf hc).read x
      exact r.push (r.wf.pushInsts _) (r.canon.pushInsts _) rfl (goodL_output x)
    · rw [run_bind_ok] at hr
      obtain ⟨s1, os1, h1, h2⟩ := hr
      rw [run_pure] at h2
      cases h2
      have r := (emit_canon ps (src + s.shift) h1 hwf hc).read (src + s.shift)
      exact r.push (r.wf.pushInsts _) (r.canon.pushInsts _) rfl (goodL_output _)
  | input dst =>
    rw [rebuildInstr, run_bind_ok] at hr
    obtain ⟨s1, os1, h1, h2⟩ := hr
    rw [run_pure] at h2
    cases h2
    have r := clobber_canon ps (dst + s.shift) false h1 hwf hc
    exact r.push (r.wf.pushInsts _) (r.canon.pushInsts _) rfl (goodL_input _)
  | «calc» calcs =>
    rw [rebuildInstr] at hr
    exact performAll_canon hr hwf hc (canonL_calc.1 hi)
  | loop c sh b o => simp [C01Dse.isBlock] at hb
  | ifnz c sh b => simp [C01Dse.isBlock] at hb

/-- The three non-loop arms of `rebuildInstr`. -/
theorem rebuildInstr_canon {ps : List (Rebuild w)} {s : Rebuild w} {i : Instr w} {os os' : Orders}
    {s' : Rebuild w} (hr : (rebuildInstr ps s i).run os = .ok (s', os')) (hwf : Wf s) (hc : CanonSt s)
    (hi : CanonL [i]) (hb : C01Dse.isBlock i = false) :
    CanonSt s' ∧ ∃ new, s'.insts = s.insts ++ new ∧ GoodL new :=
  (rebuildInstr_cstep hr hwf hc hi hb).out

theorem rebuildInsts_cstep {ps : List (Rebuild w)} (l : List (Instr w)) (hl : StraightL l)
    {s : Rebuild w} {os os' : Orders} {s' : Rebuild w} {done : Bool}
    (hr : (rebuildInsts ps s l).run os = .ok ((s', done), os')) (hwf : Wf s) (hc : CanonSt s)
    (hcl : CanonL l) (hnr : s.noReturn = false) : CStep s s' := by
  induction l generalizing s os with
  | nil =>
    rw [rebuildInsts, run_pure] at hr
    cases hr
    exact CStep.refl hwf hc
  | cons i rest ih =>
    rw [rebuildInsts, hnr] at hr
    simp only [Bool.false_eq_true, if_false] at hr
    rw [run_bind_ok] at hr
    obtain ⟨s1, os1, h1, h2⟩ := hr
    rw [canonL_cons] at hcl
    have hib := hl i (by simp)
    have r1 := rebuildInstr_cstep h1 hwf hc (canonL_single.2 hcl.1) hib
    obtain ⟨_, a2, _, _, _⟩ := rebuildInstr_straight hwf hib h1
    exact r1.trans (ih (fun j hj => hl j (by simp [hj])) h2 r1.wf r1.canon hcl.2 (by rw [a2, hnr]))

/-- Straight-line instruction lists. -/
theorem rebuildInsts_canon {ps : List (Rebuild w)} (l : List (Instr w)) (hl : StraightL l)
    {s : Rebuild w} {os os' : Orders} {s' : Rebuild w} {done : Bool}
    (hr : (rebuildInsts ps s l).run os = .ok ((s', done), os')) (hwf : Wf s) (hc : CanonSt s)
    (hcl : CanonL l) (hnr : s.noReturn = false) :
    CanonSt s' ∧ ∃ new, s'.insts = s.insts ++ new ∧ GoodL new :=
  (rebuildInsts_cstep l hl hr hwf hc hcl hnr).out

/-! ### the parser output -/

theorem goodL_reverse {a : List (Instr w)} : GoodL a.reverse ↔ GoodL a := by
  induction a with
  | nil => simp
  | cons i a ih =>
    rw [List.reverse_cons, goodL_append, ih, goodL_single, goodL_cons]
    exact And.comm

theorem goodI_add (k : Int) (v : BitVec w) : GoodI (Instr.add k v : Instr w) := by
  rw [Instr.add, GoodI]
  refine ⟨by simp, ?_⟩
  intro ve hve
  simp only [List.mem_singleton] at hve
  subst hve
  simp [Expr.Canon, Expr.CanonV, Expr.SortedVars, Expr.cmpVars]

theorem goodI_load (k : Int) (v : BitVec w) : GoodI (Instr.load k v : Instr w) := by
  rw [Instr.load, GoodI]
  refine ⟨by simp, ?_⟩
  intro ve hve
  simp only [List.mem_singleton] at hve
  subst hve
  exact Expr.canon_val v

theorem pushAdds_good (vars : List (Int × BitVec w)) (r : List (Instr w)) (h : GoodL r) :
    GoodL (pushAdds r vars) := by
  unfold pushAdds
  induction vars generalizing r with
  | nil => exact h
  | cons kv vars ih =>
    simp only [List.foldl_cons]
    apply ih
    split
    · exact goodL_cons.2 ⟨goodI_add _ _, h⟩
    · exact h

theorem flushOne_good (f : Frame w) (k : Int) (h : GoodL f.rinsts) : GoodL (flushOne f k).rinsts := by
  unfold flushOne
  split
  · exact h
  · split
    · exact goodL_cons.2 ⟨goodI_add _ _, h⟩
    · exact h

theorem foldl_flushOne_good (vars : List (Int × BitVec w)) (f : Frame w) (h : GoodL f.rinsts) :
    GoodL (vars.foldl (fun p kv => flushOne p kv.1) f).rinsts := by
  induction vars generalizing f with
  | nil => exact h
  | cons kv vars ih =>
    simp only [List.foldl_cons]
    exact ih _ (flushOne_good f kv.1 h)

theorem closeLoop_good (sub par : Frame w) (hs : GoodL sub.rinsts) (hp : GoodL par.rinsts) :
    GoodL (closeLoop sub par).rinsts := by
  unfold closeLoop
  dsimp only
  split
  · exact goodL_cons.2 ⟨goodI_load _ _, hp⟩
  · have h1 := foldl_flushOne_good (bsorted sub.buff) par hp
    generalize (bsorted sub.buff).foldl (fun p kv => flushOne p kv.1) par = par1 at h1 ⊢
    have hsub : GoodL (pushAdds sub.rinsts (bsorted sub.buff)).reverse :=
      goodL_reverse.2 (pushAdds_good _ _ hs)
    split
    · have h2 : GoodL (pushAdds par1.rinsts (bsorted par1.buff)) := pushAdds_good _ _ h1
      have h3 := flushOne_good
        { par1 with rinsts := pushAdds par1.rinsts (bsorted par1.buff),
                    buff := par1.buff.map (fun kv => (kv.1, 0#w)), moved := true }
        par1.shift h2
      refine goodL_cons.2 ⟨?_, h3⟩
      rw [GoodI]; exact hsub
    · have h3 := flushOne_good par1 par1.shift h1
      refine goodL_cons.2 ⟨?_, h3⟩
      rw [GoodI]; exact hsub

/-- Every frame of the parser state holds good instructions. -/
def PsGood (ps : PState w) : Prop := GoodL ps.top.rinsts ∧ ∀ f ∈ ps.rest, GoodL f.rinsts

theorem parseStep_good {ps ps' : PState w} {i : Nat} {k : Kind} (h : PsGood ps)
    (hs : parseStep ps i k = .ok ps') : PsGood ps' := by
  obtain ⟨ht, hr⟩ := h
  cases k with
  | right => simp only [parseStep, Except.ok.injEq] at hs; subst hs; exact ⟨ht, hr⟩
  | left => simp only [parseStep, Except.ok.injEq] at hs; subst hs; exact ⟨ht, hr⟩
  | inc => simp only [parseStep, Except.ok.injEq] at hs; subst hs; exact ⟨ht, hr⟩
  | dec => simp only [parseStep, Except.ok.injEq] at hs; subst hs; exact ⟨ht, hr⟩
  | comment => simp only [parseStep, Except.ok.injEq] at hs; subst hs; exact ⟨ht, hr⟩
  | out =>
    simp only [parseStep, Except.ok.injEq] at hs; subst hs
    refine ⟨?_, hr⟩
    refine goodL_cons.2 ⟨?_, flushOne_good _ _ ht⟩
    rw [GoodI]; trivial
  | inp =>
    simp only [parseStep, Except.ok.injEq] at hs; subst hs
    refine ⟨?_, hr⟩
    refine goodL_cons.2 ⟨?_, ht⟩
    rw [GoodI]; trivial
  | «open» =>
    simp only [parseStep, Except.ok.injEq] at hs; subst hs
    refine ⟨goodL_nil, ?_⟩
    intro f hf
    simp only [List.mem_cons] at hf
    rcases hf with rfl | hf
    · exact ht
    · exact hr f hf
  | close =>
    simp only [parseStep] at hs
    split at hs
    · cases hs
    · cases hs
    · rename_i poss par rest hpos hrest
      simp only [Except.ok.injEq] at hs; subst hs
      have hpar : GoodL par.rinsts := hr par (by rw [hrest]; exact List.mem_cons_self)
      refine ⟨closeLoop_good _ _ ht hpar, ?_⟩
      intro f hf
      exact hr f (by rw [hrest]; exact List.mem_cons_of_mem _ hf)

theorem parseLoop_good : ∀ (src : List Kind) (i : Nat) (ps ps' : PState w), PsGood ps →
    parseLoop src i ps = .ok ps' → PsGood ps'
  | [], _, ps, ps', h, hs => by
    simp only [parseLoop, Except.ok.injEq] at hs; subst hs; exact h
  | k :: ks, i, ps, ps', h, hs => by
    simp only [parseLoop] at hs
    cases hst : parseStep ps i k with
    | error e => rw [hst] at hs; cases hs
    | ok ps1 =>
      rw [hst] at hs
      exact parseLoop_good ks (i + 1) ps1 ps' (parseStep_good h hst) hs

/-- **Parser output**: every `calc` has one target and a canonical right-hand side. -/
theorem parse_good {src : List Kind} {b : Block w} (h : Ir.parse (w := w) src = .ok b) :
    GoodL b.insts := by
  unfold Ir.parse at h
  cases hl : parseLoop (w := w) src 0
      { top := { shift := 0, moved := false, rinsts := [], buff := [] }, rest := [], positions := [] } with
  | error e => rw [hl] at h; cases h
  | ok ps =>
    rw [hl] at h
    have hok : PsGood ps := parseLoop_good src 0 _ ps ⟨goodL_nil, fun f hf => by cases hf⟩ hl
    simp only at h
    split at h
    · simp only [Except.ok.injEq] at h
      subst h
      exact goodL_reverse.2 (pushAdds_good _ _ hok.1)
    · cases h
    · cases h

theorem parse_canonL {src : List Kind} {b : Block w} (h : Ir.parse (w := w) src = .ok b) :
    CanonL b.insts := goodL_canonL _ (parse_good h)

theorem parse_noDupTargets {src : List Kind} {b : Block w} (h : Ir.parse (w := w) src = .ok b) :
    C01Dse.NoDupTargets b := goodL_noDup _ (parse_good h)

end OptProof
end Hpbf
