/-
Chain, level 1, part 2: canonical Brainfuck semantics vs. every backend at optimisation level 1
(source → `Program::parse` → `Program::optimize(1)` → IR interpreter / `translate` → bytecode interpreter /
`compileX86` → machine code).

`b` = the parser's output, `orders` = an ARBITRARY oracle of hash iteration orders, `b'` the block the optimizer
model returns for it (`hopt : Opt.optimize b 1 orders = .ok b'`; that the optimizer succeeds is a hypothesis –
its totality is not proved), `p := translate b' numRegs fuse`.  Everything else is as at level 0
(`Props/ChainTotal.lean`): the ingredient is `OptProof.optimize_parse_level1` (observable equivalence of `b` and
`b'`, and `OnceOk b' env` – the `once` marks the optimizer puts on loops are justified), transported through
the generic composition of `Proofs/ChainO1Gen.lean`.
-/
import Hpbf.Proofs.ChainO1Gen
import Hpbf.Props.C10Opt

namespace Hpbf
namespace Chain

open Bc BcWf BcGen C11 C02

variable {w : Nat}

section Level1
variable (hw : 0 < w) {src : List Kind} {prog : Prog} (hp : Bf.tree src = some prog)
  {b b' : Ir.Block w} (hb : Ir.parse (w := w) src = .ok b) {orders : Opt.Orders}
  (hopt : Opt.optimize b 1 orders = .ok b') (env : Env)
include hw hp hb hopt

omit hp in
/-- The `once` marks of the optimized block are justified (the hypothesis of the emitter proofs). -/
theorem onceOk_level1 : OnceOk b' env := (OptProof.optimize_parse_level1 hw hb hopt env).2

theorem irAgrees_level1 : IrAgrees prog b' env :=
  irAgrees_of_behEq (irAgrees_level0 hw hp hb env) (OptProof.optimize_parse_level1 hw hb hopt env).1

theorem bcAgrees_level1 (numRegs : Nat) (fuse : Bool) : BcAgrees prog (translate b' numRegs fuse) env :=
  bcAgrees_of_ir (irAgrees_level1 hw hp hb hopt env) (onceOk_level1 hw hb hopt env) numRegs fuse

/-! ### 2. the IR interpreter at -O1 -/

/-- **Level 1, IR interpreter.** -/
theorem ir_level1 :
    ((∀ f (s : State w), Bf.run f prog env = .done s →
        ∃ f' c, Ir.run b' false 0 f' env = .done c ∧ c.st.trace = s.trace) ∧
     (∀ f (s : State w), Bf.run f prog env = .stopped s →
        ∃ f' c, Ir.run b' false 0 f' env = .stopped c ∧ c.st.trace = s.trace)) ∧
    ((∀ f' (c : Ir.Cfg w), Ir.run b' false 0 f' env = .done c →
        ∃ (f : Nat) (s : State w), Bf.run f prog env = .done s ∧ s.trace = c.st.trace) ∧
     (∀ f' (c : Ir.Cfg w), Ir.run b' false 0 f' env = .stopped c →
        ∃ (f : Nat) (s : State w), Bf.run f prog env = .stopped s ∧ s.trace = c.st.trace)) ∧
    ((∀ f', ∃ f, C01.traceOf (Ir.run b' false 0 f' env) = C01.traceOfBf (Bf.run (w := w) f prog env)) ∧
     (∀ f, ∃ f', C01.traceOf (Ir.run b' false 0 f' env) = C01.traceOfBf (Bf.run (w := w) f prog env))) :=
  irAgrees_level1 hw hp hb hopt env

/-- The IR interpreter in limited mode at -O1 (C07): finished ⇒ the complete canonical event sequence; always
an initial part of it; a canonically divergent program is never reported finished. -/
theorem ir_limited_level1 :
    (∀ (bd f' : Nat) (c : Ir.Cfg w), Ir.run b' true bd f' env = .done c →
      ∃ (f : Nat) (s : State w), Bf.run f prog env = .done s ∧ s.trace = c.st.trace) ∧
    (∀ (bd f' : Nat) (c : Ir.Cfg w), Ir.run b' true bd f' env = .stopped c →
      ∃ (f : Nat) (s : State w), Bf.run f prog env = .stopped s ∧ s.trace = c.st.trace) ∧
    (∀ bd f', ∃ f, ∀ g, f ≤ g →
      C07.traceOfIr (Ir.run b' true bd f' env) <:+ C01.traceOfBf (Bf.run (w := w) g prog env)) := by
  have I := irAgrees_level1 hw hp hb hopt env
  refine ⟨?_, ?_, ?_⟩
  · intro bd f' c hr
    obtain ⟨g, c', hg, hst⟩ := C07.ir_limited_done b' env bd f' c hr
    obtain ⟨f, s, hf, htr⟩ := I.2.1.1 g c' hg
    exact ⟨f, s, hf, by rw [htr, hst]⟩
  · intro bd f' c hr
    obtain ⟨g, c', hg, hst⟩ := C07.ir_limited_stopped b' env bd f' c hr
    obtain ⟨f, s, hf, htr⟩ := I.2.1.2 g c' hg
    exact ⟨f, s, hf, by rw [htr, hst]⟩
  · intro bd f'
    obtain ⟨g, _, hg⟩ := C07.ir_limited_prefix b' env bd f'
    obtain ⟨f, hf⟩ := I.2.2.1 g
    refine ⟨f, fun g' hg' => ?_⟩
    rw [hg, traceOfIr_eq, hf, ← traceOfBf_eq, ← traceOfBf_eq]
    exact C04.bf_trace_mono hg' _

/-! ### 1. the bytecode interpreter at -O1 -/

/-- **Level 1, bytecode interpreter, release dispatch.** -/
theorem bytecode_level1 (numRegs : Nat) (fuse : Bool) :
    ((∀ f (s : State w), Bf.run f prog env = .done s →
        ∃ f' c', Bc.run (translate b' numRegs fuse) false 0 f' env = .done c' ∧ c'.st.trace = s.trace) ∧
     (∀ f (s : State w), Bf.run f prog env = .stopped s →
        ∃ f' c', Bc.run (translate b' numRegs fuse) false 0 f' env = .stopped c' ∧ c'.st.trace = s.trace)) ∧
    ((∀ f' (c' : Bc.Cfg w), Bc.run (translate b' numRegs fuse) false 0 f' env = .done c' →
        ∃ (f : Nat) (s : State w), Bf.run f prog env = .done s ∧ s.trace = c'.st.trace) ∧
     (∀ f' (c' : Bc.Cfg w), Bc.run (translate b' numRegs fuse) false 0 f' env = .stopped c' →
        ∃ (f : Nat) (s : State w), Bf.run f prog env = .stopped s ∧ s.trace = c'.st.trace)) ∧
    ((∀ f', ∃ f, C07.traceOfBc (Bc.run (translate b' numRegs fuse) false 0 f' env) =
        C01.traceOfBf (Bf.run (w := w) f prog env)) ∧
     (∀ f, ∃ f', C07.traceOfBc (Bc.run (translate b' numRegs fuse) false 0 f' env) =
        C01.traceOfBf (Bf.run (w := w) f prog env))) :=
  bcAgrees_level1 hw hp hb hopt env numRegs fuse

/-- **Level 1, bytecode interpreter, debug build (trampolined dispatch).** -/
theorem bytecode_level1_debug (numRegs : Nat) (fuse : Bool) :
    ((∀ f (s : State w), Bf.run f prog env = .done s →
        ∃ f' c', runDebug (translate b' numRegs fuse) false 0 f' env = .done c' ∧ c'.st.trace = s.trace) ∧
     (∀ f (s : State w), Bf.run f prog env = .stopped s →
        ∃ f' c', runDebug (translate b' numRegs fuse) false 0 f' env = .stopped c' ∧ c'.st.trace = s.trace)) ∧
    ((∀ f' (c' : Bc.Cfg w), runDebug (translate b' numRegs fuse) false 0 f' env = .done c' →
        ∃ (f : Nat) (s : State w), Bf.run f prog env = .done s ∧ s.trace = c'.st.trace) ∧
     (∀ f' (c' : Bc.Cfg w), runDebug (translate b' numRegs fuse) false 0 f' env = .stopped c' →
        ∃ (f : Nat) (s : State w), Bf.run f prog env = .stopped s ∧ s.trace = c'.st.trace)) ∧
    ((∀ f', ∃ f, C07.traceOfBc (runDebug (translate b' numRegs fuse) false 0 f' env) =
        C01.traceOfBf (Bf.run (w := w) f prog env)) ∧
     (∀ f, ∃ f', C07.traceOfBc (runDebug (translate b' numRegs fuse) false 0 f' env) =
        C01.traceOfBf (Bf.run (w := w) f prog env))) :=
  bcAgrees_debug (bcAgrees_level1 hw hp hb hopt env numRegs fuse)

omit hw hp hb hopt in
/-- Never "malformed bytecode" (every mode, budget, fuel), never interrupted in unlimited mode (this holds for
the translation of EVERY block: `translate_never_bad_unconditional`). -/
theorem bytecode_level1_proper (numRegs : Nat) (fuse : Bool) :
    (∀ (l : Bool) (bd f' : Nat) (c' : Bc.Cfg w), Bc.run (translate b' numRegs fuse) l bd f' env ≠ .bad c') ∧
    (∀ (f' : Nat) (c' : Bc.Cfg w), Bc.run (translate b' numRegs fuse) false 0 f' env ≠ .interrupted c') :=
  translate_never_bad_unconditional b' numRegs fuse env

/-! ### 4. C05 / C07 / C08 for the bytecode interpreter at -O1 -/

theorem bc_never_returns_level1 (numRegs : Nat) (fuse : Bool) (hdiv : C05.BfDiverges w prog env) :
    (∀ (f' : Nat) (c : Bc.Cfg w),
      Bc.run (translate b' numRegs fuse) false 0 f' env ≠ .done c ∧
      Bc.run (translate b' numRegs fuse) false 0 f' env ≠ .stopped c) ∧
    (∀ (bd f' : Nat) (c : Bc.Cfg w),
      Bc.run (translate b' numRegs fuse) true bd f' env ≠ .done c ∧
      Bc.run (translate b' numRegs fuse) true bd f' env ≠ .stopped c) :=
  bc_never_returns_of_agrees (bcAgrees_level1 hw hp hb hopt env numRegs fuse) hdiv

theorem bc_runs_forever_level1 (numRegs : Nat) (fuse : Bool) (hdiv : C05.BfDiverges w prog env) :
    ∀ f', ∃ c : Bc.Cfg w, Bc.run (translate b' numRegs fuse) false 0 f' env = .outOfFuel c :=
  bc_runs_forever_of_agrees (bcAgrees_level1 hw hp hb hopt env numRegs fuse) hdiv
    (translate_never_bad_unconditional b' numRegs fuse env).1

theorem bc_limited_interrupted_level1 (numRegs : Nat) (fuse : Bool) (hdiv : C05.BfDiverges w prog env) :
    ∀ bd, ∃ f' c, Bc.run (translate b' numRegs fuse) true bd f' env = .interrupted c :=
  bc_limited_interrupted_of_agrees (bcAgrees_level1 hw hp hb hopt env numRegs fuse) hdiv
    (translate_never_bad_unconditional b' numRegs fuse env).1

theorem bc_divergent_output_level1 (numRegs : Nat) (fuse : Bool) (hdiv : C05.BfDiverges w prog env) :
    (∀ f, ∃ f' c c', Bf.run (w := w) f prog env = .outOfFuel c ∧
      Bc.run (translate b' numRegs fuse) false 0 f' env = .outOfFuel c' ∧ c'.st.trace = c.st.trace) ∧
    (∀ f', ∃ f c c', Bc.run (translate b' numRegs fuse) false 0 f' env = .outOfFuel c' ∧
      Bf.run (w := w) f prog env = .outOfFuel c ∧ c'.st.trace = c.st.trace) :=
  bc_divergent_output_of_agrees (bcAgrees_level1 hw hp hb hopt env numRegs fuse) hdiv
    (translate_never_bad_unconditional b' numRegs fuse env).1

theorem bc_limited_finished_level1 (numRegs : Nat) (fuse : Bool) :
    (∀ (bd f' : Nat) (c : Bc.Cfg w), Bc.run (translate b' numRegs fuse) true bd f' env = .done c →
      ∃ (f : Nat) (s : State w), Bf.run f prog env = .done s ∧ s.trace = c.st.trace) ∧
    (∀ (bd f' : Nat) (c : Bc.Cfg w), Bc.run (translate b' numRegs fuse) true bd f' env = .stopped c →
      ∃ (f : Nat) (s : State w), Bf.run f prog env = .stopped s ∧ s.trace = c.st.trace) :=
  bc_limited_finished_of_agrees (bcAgrees_level1 hw hp hb hopt env numRegs fuse)

theorem bc_limited_prefix_level1 (numRegs : Nat) (fuse : Bool) :
    ∀ bd f', ∃ f, ∀ g, f ≤ g →
      C07.traceOfBc (Bc.run (translate b' numRegs fuse) true bd f' env) <:+
        C01.traceOfBf (Bf.run (w := w) g prog env) :=
  bc_limited_is_prefix_of_agrees (bcAgrees_level1 hw hp hb hopt env numRegs fuse)

theorem bc_limited_enough_level1 (numRegs : Nat) (fuse : Bool) :
    (∀ (f : Nat) (s : State w), Bf.run f prog env = .done s →
      ∃ g, ∀ bd, g ≤ bd →
        ∃ f' c, Bc.run (translate b' numRegs fuse) true bd f' env = .done c ∧ c.st.trace = s.trace) ∧
    (∀ (f : Nat) (s : State w), Bf.run f prog env = .stopped s →
      ∃ g, ∀ bd, g ≤ bd →
        ∃ f' c, Bc.run (translate b' numRegs fuse) true bd f' env = .stopped c ∧ c.st.trace = s.trace) :=
  bc_limited_enough_of_agrees (bcAgrees_level1 hw hp hb hopt env numRegs fuse)

theorem bc_stops_like_canonical_level1 (numRegs : Nat) (fuse : Bool) :
    ∀ (f : Nat) (s : State w), Bf.run f prog env = .stopped s →
      ∃ f' c, (∀ k, Bc.run (translate b' numRegs fuse) false 0 (f' + k) env = .stopped c) ∧
        c.st.trace = s.trace :=
  bc_stops_like_canonical_of_agrees (bcAgrees_level1 hw hp hb hopt env numRegs fuse)

theorem bc_stops_only_like_canonical_level1 (numRegs : Nat) (fuse : Bool) :
    ∀ (l : Bool) (bd f' : Nat) (c : Bc.Cfg w), Bc.run (translate b' numRegs fuse) l bd f' env = .stopped c →
      (l = false → bd = 0) →
      ∃ (f : Nat) (s : State w), Bf.run f prog env = .stopped s ∧ s.trace = c.st.trace :=
  bc_stops_only_like_canonical_of_agrees (bcAgrees_level1 hw hp hb hopt env numRegs fuse)

/-! ### 3. the JIT at -O1 -/

section Jit
open Asm JitGen X86Sem X86Prog C03
variable {sz : Size} {safe : Bool} {cfg : X86Prog.Cfg} {buf0 rsp0 ra : BitVec 64}

theorem jit_level1_forward (R : JitRange sz (translate b' 11 false) false safe cfg buf0 rsp0 ra 0 env) :
    let p := translate b' 11 false
    let s0 : PState w := initState cfg buf0 rsp0 ra p.minAcc p.maxAcc 0 env
    (∀ f (s : State w), Bf.run f prog env = .done s →
      ∃ n s', X86Prog.run cfg n s0 = .ret s' ∧ s'.regs.rax = 1 ∧ s'.trace = s.trace) ∧
    (∀ f (s : State w), Bf.run f prog env = .stopped s →
      ∃ n s', X86Prog.run cfg n s0 = .ret s' ∧ s'.regs.rax = 0 ∧ s'.trace = s.trace) :=
  jit_forward_of_agrees (bcAgrees_level1 hw hp hb hopt env 11 false)
    (jitHyps_of_range (translate_ok b' 11 false) R)

theorem jit_level1_unique (R : JitRange sz (translate b' 11 false) false safe cfg buf0 rsp0 ra 0 env) :
    let p := translate b' 11 false
    let s0 : PState w := initState cfg buf0 rsp0 ra p.minAcc p.maxAcc 0 env
    (∀ f (s : State w), Bf.run f prog env = .done s →
      ∀ n s', X86Prog.run cfg n s0 = .ret s' → s'.regs.rax = 1 ∧ s'.trace = s.trace) ∧
    (∀ f (s : State w), Bf.run f prog env = .stopped s →
      ∀ n s', X86Prog.run cfg n s0 = .ret s' → s'.regs.rax = 0 ∧ s'.trace = s.trace) :=
  jit_unique_of_agrees (bcAgrees_level1 hw hp hb hopt env 11 false)
    (jitHyps_of_range (translate_ok b' 11 false) R)

theorem jit_level1_prefix (R : JitRange sz (translate b' 11 false) false safe cfg buf0 rsp0 ra 0 env) :
    let p := translate b' 11 false
    let s0 : PState w := initState cfg buf0 rsp0 ra p.minAcc p.maxAcc 0 env
    ∀ f, ∃ n s', (steps cfg n s0 = some s' ∨ X86Prog.run cfg n s0 = .ret s') ∧
      s'.trace = C01.traceOfBf (Bf.run (w := w) f prog env) :=
  jit_prefix_of_agrees (bcAgrees_level1 hw hp hb hopt env 11 false)
    (jitHyps_of_range (translate_ok b' 11 false) R)

theorem jit_level1_divergent (R : JitRange sz (translate b' 11 false) false safe cfg buf0 rsp0 ra 0 env)
    (hdiv : C05.BfDiverges w prog env) :
    let p := translate b' 11 false
    let s0 : PState w := initState cfg buf0 rsp0 ra p.minAcc p.maxAcc 0 env
    ∀ f, ∃ n s', steps cfg n s0 = some s' ∧ s'.trace = C01.traceOfBf (Bf.run (w := w) f prog env) :=
  jit_divergent_of_agrees (bcAgrees_level1 hw hp hb hopt env 11 false)
    (jitHyps_of_range (translate_ok b' 11 false) R) hdiv

theorem jit_level1_limited {bd : Nat}
    (R : JitRange sz (translate b' 11 false) true safe cfg buf0 rsp0 ra bd env) :
    let p := translate b' 11 false
    let s0 : PState w := initState cfg buf0 rsp0 ra p.minAcc p.maxAcc bd env
    ∃ n s', X86Prog.run cfg n s0 = .ret s' ∧
      (∀ n2 s2, X86Prog.run cfg n2 s0 = .ret s2 → s2 = s') ∧
      (s'.regs.rax = 1 ∨ s'.regs.rax = 0) ∧
      (s'.regs.rax = 1 → ∃ (f : Nat) (s : State w), Bf.run f prog env = .done s ∧ s.trace = s'.trace) ∧
      (∃ f, ∀ g, f ≤ g → s'.trace <:+ C01.traceOfBf (Bf.run (w := w) g prog env)) :=
  jit_limited_of_agrees (bcAgrees_level1 hw hp hb hopt env 11 false)
    (jitHyps_of_range (translate_ok b' 11 false) R)

theorem jit_level1_limited_enough :
    let p := translate b' 11 false
    (∀ f (s : State w), Bf.run f prog env = .done s → ∃ g, ∀ bd, g ≤ bd →
      JitRange sz p true safe cfg buf0 rsp0 ra bd env →
      ∃ n s', X86Prog.run cfg n (initState (w := w) cfg buf0 rsp0 ra p.minAcc p.maxAcc bd env) = .ret s' ∧
        s'.regs.rax = 1 ∧ s'.trace = s.trace) ∧
    (∀ f (s : State w), Bf.run f prog env = .stopped s → ∃ g, ∀ bd, g ≤ bd →
      JitRange sz p true safe cfg buf0 rsp0 ra bd env →
      ∃ n s', X86Prog.run cfg n (initState (w := w) cfg buf0 rsp0 ra p.minAcc p.maxAcc bd env) = .ret s' ∧
        s'.regs.rax = 0 ∧ s'.trace = s.trace) := by
  intro p
  have ht := translate_ok b' 11 false
  have E := bc_limited_enough_of_agrees (bcAgrees_level1 hw hp hb hopt env 11 false)
  constructor
  · intro f s hs
    obtain ⟨g, hg⟩ := E.1 f s hs
    refine ⟨g, fun bd hgb R => ?_⟩
    obtain ⟨f', c', hc', htr⟩ := hg bd hgb
    have := jit_of_bc (jitHyps_of_range ht R) f'
    simp only [hc'] at this
    obtain ⟨n, s', h1, h2, h3, _⟩ := this
    exact ⟨n, s', h1, h2, h3.trans htr⟩
  · intro f s hs
    obtain ⟨g, hg⟩ := E.2 f s hs
    refine ⟨g, fun bd hgb R => ?_⟩
    obtain ⟨f', c', hc', htr⟩ := hg bd hgb
    have := jit_of_bc (jitHyps_of_range ht R) f'
    simp only [hc'] at this
    obtain ⟨n, s', h1, h2, h3, _⟩ := this
    exact ⟨n, s', h1, h2, h3.trans htr⟩

end Jit

end Level1

/-! ### the access window of optimized code (C10 for optimized code): part of `JitRange` from the text length -/

/-- The access window of the bytecode for the optimized block lies within `[-length, length]` of the source
(any level, any oracle, any register count, fusion on/off). -/
theorem translate_window_optimized {src : List Kind} {b b' : Ir.Block w} {level : Nat} {orders : Opt.Orders}
    (hb : Ir.parse (w := w) src = .ok b) (hopt : Opt.optimize b level orders = .ok b')
    (numRegs : Nat) (fuse : Bool) :
    -(src.length : Int) ≤ (translate b' numRegs fuse).minAcc ∧
    (translate b' numRegs fuse).maxAcc ≤ (src.length : Int) := by
  obtain ⟨_, _, h1, h2, _⟩ := translate_shape (translate_ok b' numRegs fuse)
  rw [h1, h2]
  exact OptOffs.optimized_window_le_length hb hopt

/-- Hence the four window fields of `JitRange` follow from `bytes * length < 2^31`. -/
theorem jitRange_window_of_length {src : List Kind} {b b' : Ir.Block w} {level : Nat} {orders : Opt.Orders}
    (hb : Ir.parse (w := w) src = .ok b) (hopt : Opt.optimize b level orders = .ok b')
    (numRegs : Nat) (fuse : Bool) (sz : Asm.Size) (hlen : (sz.bytes : Int) * src.length < 2147483648) :
    let p := translate b' numRegs fuse
    (-2147483648 < p.minAcc ∧ p.maxAcc < 2147483648) ∧ C03.DispOk sz p.minAcc ∧ C03.DispOk sz p.maxAcc ∧
    C03.DispOk sz (-p.minAcc) ∧ C03.DispOk sz (-p.maxAcc) := by
  intro p
  obtain ⟨h1, h2⟩ := translate_window_optimized hb hopt numRegs fuse
  obtain ⟨_, _, e1, e2, _⟩ := translate_shape (translate_ok b' numRegs fuse)
  have z := Local.analyze_covers b'
  have hmin0 : p.minAcc ≤ 0 := by show (translate b' numRegs fuse).minAcc ≤ 0; rw [e1]; exact z.1
  have hmax0 : 0 ≤ p.maxAcc := by show 0 ≤ (translate b' numRegs fuse).maxAcc; rw [e2]; exact z.2.1
  have h1' : -(src.length : Int) ≤ p.minAcc := h1
  have h2' : p.maxAcc ≤ (src.length : Int) := h2
  have hle : p.minAcc ≤ p.maxAcc := Int.le_trans hmin0 hmax0
  unfold C03.DispOk
  cases sz <;> simp only [Asm.Size.bytes] at hlen ⊢ <;> omega

/-! ### 5. all backends at -O1 -/

/-- **Level 1, all backends.**  For every balanced source text `code` (bracket tree `prog`), every cell width
`w ≥ 1`, every environment `env`, every oracle `orders` of hash iteration orders for which the optimizer model
returns a block `b'` at level 1 (`Opt.optimize (parse code) 1 orders = .ok b'` – the ONLY hypothesis added to
`level0_all_backends`: totality of the optimizer is not proved; the oracle is arbitrary), with `canon f` the
result of the canonical Brainfuck run with fuel `f` (`some (true, events)`: ran off the end; `some (false,
events)`: stopped at a failing I/O operation; `none`: still running):

1. the in-place interpreter on the text,
2. the IR interpreter on the OPTIMIZED block `b'`,
3. the bytecode interpreter (tail-called dispatch) on `translate b'`, any register count, fusion on/off,
4. the same with the trampolined dispatch of debug builds,

each terminate exactly when the canonical run does, with the same kind of ending and the same events
(`SameResults`); and for the x86-64 code the baseline JIT generates for `translate b' 11 false`, under the range
hypotheses `JitRange` (see `Props/ChainTotal.lean` §3):

5. (unlimited) whenever the canonical run terminates, the compiled function returns with that ending and those
   events;
6. (limited, any budget) the compiled function returns; if it reports "finished" (`rax = 1`) the canonical run
   ran off the end with exactly those events; in every case its events are an initial part of the canonical
   event sequence.

Only events (and the kind of ending) are compared: the optimizer does not preserve the final tape or pointer
(`OptProof.tape_not_preserved`). -/
theorem level1_all_backends (hw : 0 < w) (code : Array Kind) (prog : Prog)
    (hp : Bf.tree code.toList = some prog) (orders : Opt.Orders) (b' : Ir.Block w)
    (hopt : Opt.optimize (irOf w code.toList) 1 orders = .ok b') (numRegs : Nat) (fuse : Bool) (env : Env) :
    let canon : Nat → Fin := fun f => finBf (Bf.run (w := w) f prog env)
    let p : Bc.Program w := translate b' numRegs fuse
    let pj : Bc.Program w := translate b' 11 false
    SameResults canon (fun f => finInplace (Inplace.run (w := w) code false 0 f env)) ∧
    SameResults canon (fun f => finIr (Ir.run b' false 0 f env)) ∧
    SameResults canon (fun f => finBc (Bc.run p false 0 f env)) ∧
    SameResults canon (fun f => finBc (C02.runDebug p false 0 f env)) ∧
    (∀ (sz : Asm.Size) (safe : Bool) (cfg : X86Prog.Cfg) (buf0 rsp0 ra : BitVec 64),
      JitRange sz pj false safe cfg buf0 rsp0 ra 0 env →
      ∀ r, (∃ f, canon f = some r) →
        ∃ n, finX86 (X86Prog.run cfg n (X86Prog.initState (w := w) cfg buf0 rsp0 ra pj.minAcc pj.maxAcc 0 env))
          = some r) ∧
    (∀ (sz : Asm.Size) (safe : Bool) (cfg : X86Prog.Cfg) (buf0 rsp0 ra : BitVec 64) (bd : Nat),
      JitRange sz pj true safe cfg buf0 rsp0 ra bd env →
      ∃ n r, finX86 (X86Prog.run cfg n (X86Prog.initState (w := w) cfg buf0 rsp0 ra pj.minAcc pj.maxAcc bd env))
          = some r ∧
        (r.1 = true → ∃ f, canon f = some r) ∧
        ∃ f, ∀ g, f ≤ g → r.2 <:+ C01.traceOfBf (Bf.run (w := w) g prog env)) := by
  intro canon p pj
  have hb := parse_irOf (w := w) hp
  have I := irAgrees_level1 hw hp hb hopt env
  have A := bcAgrees_level1 hw hp hb hopt env numRegs fuse
  have Aj := bcAgrees_level1 hw hp hb hopt env 11 false
  refine ⟨same_inplace code hp env 0, same_ir_of_agrees I, same_bc_of_agrees A, ?_, ?_, ?_⟩
  · show SameResults canon (fun f => finBc (C02.runDebug (translate b' numRegs fuse) false 0 f env))
    simp only [C02.runDebug_eq_run]
    exact same_bc_of_agrees A
  · intro sz safe cfg buf0 rsp0 ra R r hr
    exact jit_forward_fin_of_agrees Aj (jitHyps_of_range (translate_ok b' 11 false) R) r hr
  · intro sz safe cfg buf0 rsp0 ra bd R
    exact jit_limited_fin_of_agrees Aj (jitHyps_of_range (translate_ok b' 11 false) R)

end Chain
end Hpbf
