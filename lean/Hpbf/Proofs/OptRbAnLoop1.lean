/-
Rebuild-round proofs, stage 5 (the recorded analysis is sound for the emitted code): `loopOrIf` with a non-moving
child, part 1: the generic part.

* `HeadsW`: every head of the VALID run of the emitted block keeps the pointer and the cells outside `clobbered`
  (`Q`), and (when the body is entered) has a child-valid companion that agrees with it on the child's reads and on
  the protected cells `P` (the condition cell and the constant keys).
* `loopPrep_stay_headsW`: `HeadsW` for the run after the parent's preparation.
* `JW`, `jw_round`, `heads_mirror`: the heads of a MIRROR run correspond to heads of the valid run; hence they keep
  the pointer and the cells in `Q`, and (when the body is entered) mirror a child-valid state.
-/
import Hpbf.Proofs.OptRbAnKit
import Hpbf.Proofs.OptRbShape3

namespace Hpbf
namespace OptProof
open Opt OptSem Ir

variable {w : Nat}

/-- What is known at every head `a` of the valid run from `τ1`. -/
def HeadsW (Gc : State w → Prop) (shP cS : Int) (pc : List (Rebuild w)) (sub0 sub1 : Rebuild w)
    (isLoop : Bool) (P Q : Int → Prop) (τ1 : State w) : Prop :=
  ∀ k a, Head (cS + shP) 0 sub1.insts τ1 k a → (isLoop = false → k = 0) →
    (a.ptr = τ1.ptr ∧ ∀ x, Q x → memE a x = memE τ1 x) ∧
    (a.rd (cS + shP) ≠ 0#w →
      ∃ σX, ValidG Gc shP sub0 pc σX ∧ ¬ Bad sub1.insts σX ∧ σX.ptr = a.ptr ∧ σX.env = a.env ∧
        σX.trace = a.trace ∧ (∀ v ∈ sub1.reads, memE σX v = memE a v) ∧ (∀ v, P v → memE σX v = memE a v))

/-- The protected cells: the condition cell and the keys of the child's `written` that are constant. -/
def ProtP (sub1 : Rebuild w) (C : List Int) (c : Int) (v : Int) : Prop :=
  v = c ∨ (v ∈ mKeys sub1.written ∧ C.contains v = true)

/-- The cells outside `clobbered`. -/
def KeepQ (sub1 : Rebuild w) (C : List Int) (v : Int) : Prop :=
  v ∉ mKeys sub1.written ∨ C.contains v = true

theorem loopPrep_stay_headsW {shP shC shS cS : Int} {bodyS : List (Instr w)}
    {s : Rebuild w} {ps : List (Rebuild w)} {sub1 : Rebuild w} {isLoop : Bool} {L : OptLoop w}
    {C : List Int} {pc : List (Rebuild w)} {sub0 : Rebuild w} {os os' : Orders}
    {r : Rebuild w × Rebuild w × List Int} {G Gc : State w → Prop}
    (hc : ChildOk Gc shP shC pc sub0 sub1 cS bodyS) (hwf : Wf s) (hwf1 : Wf sub1)
    (hns1 : (sub1.subShift || sub1.shift != s.shift) = false)
    (hsh : shC + shS = shP)
    (hGc : ∀ M0 σE σS, RelAt shP s ps M0 σE σS → G σS → ∀ k σk, Head cS shS bodyS σS k σk →
      (isLoop = false → k = 0) → σk.rd cS ≠ 0#w → Gc σk)
    (hconst : ∀ M0 σE σS, RelAt shP s ps M0 σE σS → G σS → ∀ k σk, Head cS shS bodyS σS k σk →
      (isLoop = false → k ≤ 1) → ∀ x, C.contains x = true → memS σE σk x = memS σE σS x)
    (h2 : (loopPrep s ps sub1 (cS + shP) L C).run os = .ok (r, os')) :
    ∃ comps : List (List (Int × Expr w)), r.1.insts = s.insts ++ comps.map Instr.calc ∧
      ∀ M0 σ1 σS, RelAt shP s ps M0 σ1 σS → G σS →
        HeadsW Gc shP cS pc sub0 sub1 isLoop (ProtP sub1 C (cS + shP)) (KeepQ sub1 C) (comps.foldl doCalc σ1) := by
  obtain ⟨s3, comps, Dx, hreq, hclob, hdrop, hreads, hconstP, _, hminvx⟩ := loopPrep_stay hwf hns1 h2
  have e1 : r.1.insts = s3.insts := by
    rw [hreq]
    exact (condZero_same s3 _ (cS + shP)).2.2.2.2.2.2.2.2.2.1
  refine ⟨comps, e1.trans hclob.insts, ?_⟩
  intro M0 σE σS hrel hG
  obtain ⟨m1, m2, m3⟩ := foldl_doCalc_meta comps σE
  have hX : MInvX Dx s3 ps M0 (memE (comps.foldl doCalc σE)) (memS (comps.foldl doCalc σE) σS) := by
    rw [memE_foldl_doCalc σE comps hclob.nodup, memS_foldl_doCalc]
    exact hminvx M0 _ _ hrel.inv
  have hJ0 : StayJ shP cS shS bodyS sub1 s3 Dx σS (comps.foldl doCalc σE) 0 σS (comps.foldl doCalc σE) :=
    stayJ_init hX (by rw [m3]; exact hrel.tr) (by rw [m2]; exact hrel.env) (by rw [m1]; exact hrel.ptr)
  have hread' : ∀ v, v ∈ sub1.reads ∨ v = cS + shP → mGet s3.pending v = none ∧ ¬ Dx v := by
    intro v hv
    refine ⟨hreads v hv, fun hd => ?_⟩
    obtain ⟨n1, n2⟩ := hdrop.notRead v hd
    rcases hv with h | h
    · exact n1 h
    · exact n2 h
  have hDx' : ∀ v, Dx v → DefW sub1 v := by
    intro v hd
    obtain ⟨kk, hkk, hm⟩ := hdrop.written v hd
    exact ⟨kk, mGet_of_mem hwf1.writ hkk, hm⟩
  have hcondrd : ∀ (k : Nat) (a b : State w),
      StayJ shP cS shS bodyS sub1 s3 Dx σS (comps.foldl doCalc σE) k a b → a.rd cS = b.rd (cS + shP) := by
    intro k a b hJ
    obtain ⟨p1, p2⟩ := hread' (cS + shP) (Or.inr rfl)
    have := hJ.agree (cS + shP) p1 p2
    show a.tape.get (a.ptr + cS) = b.tape.get (b.ptr + (cS + shP))
    rw [hJ.ptr]
    have e : b.ptr + shP + cS = b.ptr + (cS + shP) := by omega
    rw [e]; exact this
  -- every emitted head has its source head
  have hheads : ∀ k b, Head (cS + shP) 0 sub1.insts (comps.foldl doCalc σE) k b → (isLoop = false → k = 0) →
      ∃ σk, StayJ shP cS shS bodyS sub1 s3 Dx σS (comps.foldl doCalc σE) k σk b := by
    intro k b hh
    induction hh with
    | zero => intro _; exact ⟨σS, hJ0⟩
    | @succ k' bk b' hprev hne hex ih =>
      intro hk
      have hil : isLoop = true := by
        cases h : isLoop with
        | true => rfl
        | false => have := hk h; omega
      obtain ⟨σk, hJ⟩ := ih (fun h => by rw [hil] at h; cases h)
      have hneS : σk.rd cS ≠ 0#w := by rw [hcondrd k' σk bk hJ]; exact hne
      have hg := hGc M0 σE σS hrel hG k' σk hJ.head (fun h => by rw [hil] at h; cases h) hneS
      obtain ⟨hs, _⟩ := stayJ_round hc hsh hread' hDx' hJ hneS hg
      obtain ⟨a', _, hq⟩ := hs.finR b' hex
      exact ⟨a'.mov shS, hq⟩
  intro k b hh hk
  obtain ⟨σk, hJ⟩ := hheads k b hh hk
  have hXptr : (σk.mov (-shP)).ptr = b.ptr := by
    show σk.ptr + -shP = b.ptr
    rw [hJ.ptr]; omega
  have hXS : ∀ v, memE (σk.mov (-shP)) v = memS b σk v := by
    intro v
    show σk.tape.get ((σk.mov (-shP)).ptr + v) = σk.tape.get (b.ptr + v)
    rw [hXptr]
  have hR : ∀ v, (v ∈ sub1.reads ∨ v = cS + shP) → memS b σk v = memE b v := by
    intro v hv
    obtain ⟨p1, p2⟩ := hread' v hv
    exact hJ.agree v p1 p2
  -- the constant keys
  have hCk : ∀ v, v ∈ mKeys sub1.written → C.contains v = true → memS b σk v = memE b v :=
    fun v hkey hC => hJ.agree v (hconstP v hkey hC)
      (fun hd => by have := hdrop.notConst v hd; rw [hC] at this; cases this)
  refine ⟨⟨hJ.ptrE, ?_⟩, ?_⟩
  · intro x hx
    by_cases hkey : x ∈ mKeys sub1.written
    · have hC : C.contains x = true := by
        rcases hx with h | h
        · exact absurd hkey h
        · exact h
      have hk1 : ∀ j : Nat, (isLoop = false → j = 0) → (isLoop = false → j ≤ 1) := by
        intro j hj h; rw [hj h]; omega
      have h1 := hconst M0 σE σS hrel hG k σk hJ.head (hk1 k hk) x hC
      have h0 : memS (comps.foldl doCalc σE) σS x = memE (comps.foldl doCalc σE) x :=
        hJ0.agree x (hconstP x hkey hC)
          (fun hd => by have := hdrop.notConst x hd; rw [hC] at this; cases this)
      have hp : b.ptr = σE.ptr := hJ.ptrE.trans m1
      rw [← hCk x hkey hC, ← h0]
      show σk.tape.get (b.ptr + x) = σS.tape.get ((comps.foldl doCalc σE).ptr + x)
      rw [hp, m1]
      exact h1
    · exact (hJ.frame x ((mGet_none_iff _ _).2 hkey)).1
  · intro hne
    have hneS : σk.rd cS ≠ 0#w := by rw [hcondrd k σk b hJ]; exact hne
    have hg := hGc M0 σE σS hrel hG k σk hJ.head hk hneS
    obtain ⟨M0c, hre⟩ := hc.entry (σk.mov (-shP)) σk (sameMem_movNeg shP σk) hneS hg
    refine ⟨σk.mov (-shP), ⟨M0c, σk, hre, hg⟩, (hc.rep M0c _ σk hre hg).2, hXptr, hJ.env, hJ.tr, ?_, ?_⟩
    · intro v hv
      rw [hXS v]; exact hR v (Or.inl hv)
    · rintro v (hv | ⟨hkey, hC⟩)
      · rw [hXS v]; exact hR v (Or.inr hv)
      · rw [hXS v]; exact hCk v hkey hC

/-! ### heads of a mirror run -/

/-- `a` is the `k`-th head of the valid run (from `τ1`), `b` agrees with it off a set that avoids the child's reads
and the protected cells. -/
def JW (sub1 : Rebuild w) (c : Int) (P : Int → Prop) (τ1 : State w) (k : Nat) (a b : State w) : Prop :=
  Head c 0 sub1.insts τ1 k a ∧ ∃ X : Int → Prop, AgreeOff X a b ∧ (∀ v, X v → v ∉ sub1.reads) ∧ (∀ v, P v → ¬ X v)

section Round
variable {Gc : State w → Prop} {shP shC cS : Int} {pc : List (Rebuild w)} {sub0 sub1 : Rebuild w}
  {bodyS : List (Instr w)} {P Q : Int → Prop} {τ1 : State w}

theorem jw_cond (hPc : P (cS + shP)) {k : Nat} {a b : State w} (hJ : JW sub1 (cS + shP) P τ1 k a b) :
    a.rd (cS + shP) = b.rd (cS + shP) := by
  obtain ⟨_, X, hag, _, hXP⟩ := hJ
  exact hag.2.2.2 _ (hXP _ hPc)

theorem jw_round (hc : ChildOk Gc shP shC pc sub0 sub1 cS bodyS)
    (hW : HeadsW Gc shP cS pc sub0 sub1 true P Q τ1) {k : Nat} {a b : State w}
    (hJ : JW sub1 (cS + shP) P τ1 k a b) (hne : a.rd (cS + shP) ≠ 0#w) :
    Sim (fun a' b' => JW sub1 (cS + shP) P τ1 (k + 1) (a'.mov 0) (b'.mov 0)) sub1.insts sub1.insts a b ∧
    (∀ b', Exec sub1.insts b (.fin b') →
      b'.ptr = b.ptr ∧ ∀ v, v ∉ mKeys sub1.written → v ∉ sub1.reads → memE b' v = memE b v) := by
  obtain ⟨hh, X, hag, hXr, hXP⟩ := hJ
  obtain ⟨σX, hvX, _, hXp, hXe, hXt, hXrd, hXPe⟩ := (hW k a hh (fun h => Bool.noConfusion h)).2 hne
  obtain ⟨Sc, _, hfr⟩ := child_chain hc.foot hc.badfoot hc.frame2 hc.noShift hc.w0 hvX hXr hXp hXe hXt hXrd hag
  refine ⟨?_, hfr⟩
  refine Sc.fin_strengthen.mono ?_
  rintro a' b' ⟨⟨q1, q2, q3, via, _⟩, hxa, _⟩
  refine ⟨Head.succ hh hne hxa,
    fun v => ¬ (DefW sub1 v ∨ ¬ (memE σX v ≠ memE a v ∨ X v)), ?_, ?_, ?_⟩
  · exact AgreeOff.mov0 ⟨q1, q2, q3, fun v hv => via v (Classical.not_not.1 hv)⟩
  · intro v hv hr
    apply hv
    right
    rintro (h | h)
    · exact h (hXrd v hr)
    · exact hXr v h hr
  · intro v hp h
    apply h
    right
    rintro (h' | h')
    · exact h' (hXPe v hp)
    · exact hXP v hp h'

/-- Every head of a mirror run corresponds to a head of the valid run; the mirror run keeps the pointer and the
cells that are neither keys of the child's `written` nor read by the child. -/
theorem heads_mirror (hc : ChildOk Gc shP shC pc sub0 sub1 cS bodyS)
    (hW : HeadsW Gc shP cS pc sub0 sub1 true P Q τ1) (hPc : P (cS + shP)) {τ2 : State w}
    (hJ0 : JW sub1 (cS + shP) P τ1 0 τ1 τ2) {k : Nat} {b : State w}
    (hh : Head (cS + shP) 0 sub1.insts τ2 k b) :
    ∃ a, JW sub1 (cS + shP) P τ1 k a b ∧ b.ptr = τ2.ptr ∧
      ∀ v, v ∉ mKeys sub1.written → v ∉ sub1.reads → memE b v = memE τ2 v := by
  induction hh with
  | zero => exact ⟨τ1, hJ0, rfl, fun _ _ _ => rfl⟩
  | @succ k' bk b' _ hne hex ih =>
    obtain ⟨a, hJ, hp, hm⟩ := ih
    have hnea : a.rd (cS + shP) ≠ 0#w := by rw [jw_cond hPc hJ]; exact hne
    obtain ⟨hs, hfr⟩ := jw_round hc hW hJ hnea
    obtain ⟨a', _, hJ'⟩ := hs.finR b' hex
    obtain ⟨p1, m1⟩ := hfr b' hex
    refine ⟨a'.mov 0, hJ', ?_, ?_⟩
    · show b'.ptr + 0 = τ2.ptr
      rw [Int.add_zero, p1, hp]
    · intro v h1 h2
      rw [memE_mov0, m1 v h1 h2, hm v h1 h2]

/-- The claim of the recorded node about the emitted loop, from a mirror of the start state. -/
theorem heads_mirror_clob (hc : ChildOk Gc shP shC pc sub0 sub1 cS bodyS)
    (hW : HeadsW Gc shP cS pc sub0 sub1 true P Q τ1) (hPc : P (cS + shP)) {τ2 : State w}
    (hJ0 : JW sub1 (cS + shP) P τ1 0 τ1 τ2)
    (hQ : ∀ v, Q v → v ∈ mKeys sub1.written → P v)
    {k : Nat} {b : State w} (hh : Head (cS + shP) 0 sub1.insts τ2 k b) :
    b.ptr = τ2.ptr ∧ ∀ x, Q x → b.rd x = τ2.rd x := by
  obtain ⟨a, hJ, hp, hm⟩ := heads_mirror hc hW hPc hJ0 hh
  refine ⟨hp, fun x hx => ?_⟩
  show memE b x = memE τ2 x
  obtain ⟨hha, X, hag, hXr, hXP⟩ := hJ
  obtain ⟨_, X0, hag0, hXr0, hXP0⟩ := hJ0
  obtain ⟨⟨_, hqa⟩, _⟩ := hW k a hha (fun h => Bool.noConfusion h)
  by_cases hkey : x ∈ mKeys sub1.written
  · have hP := hQ x hx hkey
    rw [← hag.2.2.2 x (hXP x hP), hqa x hx]
    exact hag0.2.2.2 x (hXP0 x hP)
  · by_cases hr : x ∈ sub1.reads
    · rw [← hag.2.2.2 x (fun h => hXr x h hr), hqa x hx]
      exact hag0.2.2.2 x (fun h => hXr0 x h hr)
    · exact hm x hkey hr

/-- A head of a mirror run at which the body is entered mirrors a child-valid state. -/
theorem jw_mirV (hc : ChildOk Gc shP shC pc sub0 sub1 cS bodyS) {isLoop : Bool}
    (hW : HeadsW Gc shP cS pc sub0 sub1 isLoop P Q τ1) (hPc : P (cS + shP)) {k : Nat} {a b : State w}
    (hk : isLoop = false → k = 0)
    (hJ : JW sub1 (cS + shP) P τ1 k a b) (hne : b.rd (cS + shP) ≠ 0#w) :
    MirV (ValidG Gc shP sub0 pc) sub0 sub1 b := by
  have hnea : a.rd (cS + shP) ≠ 0#w := by rw [jw_cond hPc hJ]; exact hne
  obtain ⟨hh, X, hag, hXr, _⟩ := hJ
  obtain ⟨σX, hvX, _, hXp, hXe, hXt, hXrd, _⟩ := (hW k a hh hk).2 hnea
  refine ⟨σX, fun v => memE σX v ≠ memE a v ∨ X v, hvX, ?_, ?_, ?_⟩
  · rintro v (h | h) hr
    · exact h (hXrd v hr)
    · exact hXr v h hr
  · intro h
    rw [hc.noShift] at h; cases h
  · refine ⟨hXp.trans hag.1, hXe.trans hag.2.1, hXt.trans hag.2.2.1, ?_⟩
    intro v hv
    have hv' : ¬ (memE σX v ≠ memE a v ∨ X v) := fun h => hv ((rest_fresh hc.w0 v).2 h)
    have e1 : memE σX v = memE a v := Classical.not_not.1 (fun h => hv' (Or.inl h))
    rw [e1]
    exact hag.2.2.2 v (fun h => hv' (Or.inr h))

end Round

end OptProof
end Hpbf
