/-
C02 (first phase), part 3: a `calc` instruction.  `calcValues` evaluates all right-hand sides into
temporaries (straight-line extension), `memWrites` stores them; together they implement `Ir.doCalc`.

`Seg T F g g'` is the summary of a code segment kept by the certificate `Em` (part 4): what the segment
does to the machine state (`F`), and how it changes the value-numbering table (entries `mem v`, `v ∈ T`,
may be replaced; every new entry is either a freshly numbered expression or such a `mem v`).
-/
import Hpbf.Proofs.C02EmitExpr

namespace Hpbf
namespace C02Emit
open BcGen Bc Sim Expr

variable {w : Nat}

structure Seg (T : List Int) (F : State w → State w) (g g' : G w) : Prop where
  n_le : g.n ≤ g'.n
  ext : Pre g.insts g'.insts
  eext : Pre g.exprs g'.exprs
  fresh : ∀ e, NewE g g' e → alGet g.values e = none
  wf : WfV g → WfV g'
  vals : ∀ e t, alGet g.values e = some t → (∀ v ∈ T, e ≠ .mem v) → alGet g'.values e = some t
  newvals : ∀ e t, alGet g'.values e = some t →
    alGet g.values e = some t ∨ NewE g g' e ∨ ∃ v ∈ T, e = .mem v
  sem : ∀ (p : Bc.Program w) (c : Bc.Cfg w), Agree p.insts g g' → c.pc = g.insts.size → WfV g →
    Sound g.values c →
    ∃ c', Steps (BcM p) (g'.insts.size - g.insts.size) c c' ∧ c'.pc = g'.insts.size ∧
      c'.st = F c.st ∧ Sound g'.values c'

/-! ### `calcValues` -/

/-- The temporaries listed in `vals` hold the right-hand sides of `calcs`. -/
def CV (g : G w) : List (Int × Expr w) → List (Int × Nat) → Prop
  | [], [] => True
  | ve :: calcs, vx :: vals =>
    (vx.1 = ve.1 ∧ vx.2 < g.n ∧ Val g vx.2 (fun st => evaluate ve.2 st.rd)) ∧ CV g calcs vals
  | _, _ => False

theorem CV.mono {g g' : G w} (h : SL g g') : ∀ {calcs : List (Int × Expr w)} {vals : List (Int × Nat)},
    CV g calcs vals → CV g' calcs vals := by
  intro calcs
  induction calcs with
  | nil =>
    intro vals hc
    cases vals with
    | nil => trivial
    | cons _ _ => simp [CV] at hc
  | cons ve calcs ih =>
    intro vals hc
    cases vals with
    | nil => simp [CV] at hc
    | cons vx vals =>
      simp only [CV] at hc ⊢
      exact ⟨⟨hc.1.1, Nat.lt_of_lt_of_le hc.1.2.1 h.n_le, hc.1.2.2.mono h⟩, ih hc.2⟩

theorem calcValues_spec : ∀ (calcs : List (Int × Expr w)) {s s' : St w} {vals : List (Int × Nat)},
    calcValues calcs s = .ok (vals, s') → WfV (core s) → SL (core s) (core s') ∧ CV (core s') calcs vals := by
  intro calcs
  induction calcs with
  | nil =>
    intro s s' vals h hw
    simp only [calcValues, pure_ok] at h
    obtain ⟨rfl, rfl⟩ := h
    exact ⟨SL.refl _, trivial⟩
  | cons ve calcs ih =>
    intro s s' vals h hw
    obtain ⟨v, e⟩ := ve
    simp only [calcValues, bind_ok, pure_ok] at h
    obtain ⟨x, s1, h1, r, s2, h2, rfl, rfl⟩ := h
    have o1 := getExprValue_spec e v h1 hw
    obtain ⟨sl2, cv2⟩ := ih h2 (o1.sl.wf hw)
    exact ⟨o1.sl.trans sl2, ⟨rfl, Nat.lt_of_lt_of_le o1.lt sl2.n_le, o1.val.mono sl2⟩, cv2⟩

/-! ### `memWrite` -/

theorem memWrite_core {var : Int} {value : Nat} {s s' : St w} {u : Unit}
    (h : memWrite var value s = .ok (u, s')) :
    core s' = ⟨s.insts.push (.copy (.mem var) (.tmp value)), alSet s.values (.mem var) value, s.exprs,
      s.ranges.size⟩ := by
  unfold memWrite at h
  simp only [bind_ok, modify_ok] at h
  obtain ⟨_, s1, h1, rfl⟩ := h
  have := (read_core h1).1
  simp only [core, G.mk.injEq] at this ⊢
  obtain ⟨i1, i2, i3, i4⟩ := this
  simp [i1, i2, i3, i4]

/-- The table after a sequence of stores. -/
def storeVals (V : List (GvnExpr w × Nat)) (vals : List (Int × Nat)) : List (GvnExpr w × Nat) :=
  vals.foldl (fun V vx => alSet V (.mem vx.1) vx.2) V

/-- The code of a sequence of stores. -/
def storeInsts (I : Array (Bc.Instr w)) (vals : List (Int × Nat)) : Array (Bc.Instr w) :=
  vals.foldl (fun I vx => I.push (.copy (.mem vx.1) (.tmp vx.2))) I

theorem memWrites_core : ∀ (vals : List (Int × Nat)) {s s' : St w} {u : Unit},
    memWrites vals s = .ok (u, s') →
    core s' = ⟨storeInsts s.insts vals, storeVals s.values vals, s.exprs, s.ranges.size⟩ := by
  intro vals
  induction vals with
  | nil =>
    intro s s' u h
    simp only [memWrites, pure_ok] at h
    obtain ⟨_, rfl⟩ := h
    rfl
  | cons vx vals ih =>
    intro s s' u h
    obtain ⟨v, x⟩ := vx
    simp only [memWrites, bind_ok] at h
    obtain ⟨_, s1, h1, h2⟩ := h
    have c1 := memWrite_core h1
    have c2 := ih h2
    rw [c2]
    simp only [core, G.mk.injEq] at c1
    obtain ⟨i1, i2, i3, i4⟩ := c1
    simp only [i1, i2, i3, i4, storeInsts, storeVals, List.foldl_cons]

theorem storeInsts_size (I : Array (Bc.Instr w)) (vals : List (Int × Nat)) :
    (storeInsts I vals).size = I.size + vals.length := by
  induction vals generalizing I with
  | nil => rfl
  | cons vx vals ih => simp only [storeInsts, List.foldl_cons, List.length_cons] at ih ⊢; rw [ih]; simp; omega

theorem storeInsts_pre (I : Array (Bc.Instr w)) (vals : List (Int × Nat)) : Pre I (storeInsts I vals) := by
  induction vals generalizing I with
  | nil => exact Pre.refl _
  | cons vx vals ih => exact (Pre.push _ _).trans (ih _)

theorem storeInsts_head (I : Array (Bc.Instr w)) (vx : Int × Nat) (vals : List (Int × Nat)) :
    (storeInsts I (vx :: vals))[I.size]? = some (.copy (.mem vx.1) (.tmp vx.2)) := by
  have := (storeInsts_pre (I.push (.copy (.mem vx.1) (.tmp vx.2))) vals).2 I.size (by simp)
  simp only [storeInsts, List.foldl_cons] at this ⊢
  rw [this]; simp

/-- Static facts about the table after the stores. -/
theorem storeVals_facts (n : Nat) : ∀ (vals : List (Int × Nat)) (V : List (GvnExpr w × Nat)),
    (keys V).Nodup → (∀ vx ∈ vals, vx.2 < n) →
    (keys (storeVals V vals)).Nodup ∧
    (∀ e t, alGet V e = some t → (∀ vx ∈ vals, e ≠ .mem vx.1) → alGet (storeVals V vals) e = some t) ∧
    (∀ e t, alGet (storeVals V vals) e = some t →
      alGet V e = some t ∨ (t < n ∧ ∃ vx ∈ vals, e = .mem vx.1)) := by
  intro vals
  induction vals with
  | nil => intro V hn _; exact ⟨hn, fun _ _ h _ => h, fun _ _ h => Or.inl h⟩
  | cons vx vals ih =>
    intro V hn hlt
    have hn1 := (keys_alSet_nodup V (.mem vx.1) vx.2 hn).1
    obtain ⟨a1, a2, a3⟩ := ih (alSet V (.mem vx.1) vx.2) hn1 (fun y hy => hlt y (List.mem_cons_of_mem _ hy))
    refine ⟨a1, ?_, ?_⟩
    · intro e t h hne
      apply a2 e t
      · rw [alGet_alSet]
        have : e ≠ .mem vx.1 := hne vx (List.mem_cons_self ..)
        simp only [this, if_false]; exact h
      · intro y hy; exact hne y (List.mem_cons_of_mem _ hy)
    · intro e t h
      rcases a3 e t h with h' | ⟨h1, y, hy, h2⟩
      · rw [alGet_alSet] at h'
        by_cases he : e = .mem vx.1
        · simp only [he, if_true, Option.some.injEq] at h'
          right
          exact ⟨h' ▸ hlt vx (List.mem_cons_self ..), vx, List.mem_cons_self .., he⟩
        · simp only [he, if_false] at h'; exact Or.inl h'
      · exact Or.inr ⟨h1, y, List.mem_cons_of_mem _ hy, h2⟩

/-- One store keeps the table sound. -/
theorem sound_store {V : List (GvnExpr w × Nat)} {c : Bc.Cfg w} (hs : Sound V c) (var : Int) (x : Nat)
    (pc : Nat) :
    Sound (alSet V (.mem var) x) { c with pc := pc, st := c.st.wr var (tget c.temps x) } := by
  intro e t h
  rw [alGet_alSet] at h
  by_cases he : e = .mem var
  · subst he
    simp only [if_true, Option.some.injEq] at h
    subst h
    simp [den, State.rd, State.wr]
  · simp only [he, if_false] at h
    rw [hs e t h]
    cases e with
    | imm v => rfl
    | add a b => rfl
    | sub a b => rfl
    | mul a b => rfl
    | mem u =>
      have : u ≠ var := fun e' => he (by rw [e'])
      simp only [den, State.rd, State.wr]
      rw [Tape.get_set_ne]
      omega

theorem step_store {p : Bc.Program w} {c : Bc.Cfg w} {var : Int} {x : Nat}
    (hi : p.insts[c.pc]? = some (.copy (.mem var) (.tmp x))) :
    (BcM p).step c = .next { c with pc := c.pc + 1, st := c.st.wr var (tget c.temps x) } := by
  apply BcM_step_of hi
  simp [C11.stepI, C11.isDst, C11.copyCfg, C11.wrCfg, C11.rdSt, C11.rdVal]

/-- Running the stores. -/
theorem stores_sem (p : Bc.Program w) : ∀ (vals : List (Int × Nat)) (I : Array (Bc.Instr w))
    (V : List (GvnExpr w × Nat)) (c : Bc.Cfg w),
    (∀ i, I.size ≤ i → i < (storeInsts I vals).size → p.insts[i]? = (storeInsts I vals)[i]?) →
    c.pc = I.size → Sound V c →
    ∃ c', Steps (BcM p) vals.length c c' ∧ c'.pc = (storeInsts I vals).size ∧
      c'.st = (vals.map (fun vx => (vx.1, tget c.temps vx.2))).foldl (fun s vv => s.wr vv.1 vv.2) c.st ∧
      Sound (storeVals V vals) c' := by
  intro vals
  induction vals with
  | nil =>
    intro I V c _ hpc hs
    exact ⟨c, Steps.refl (M := BcM p) c, hpc, rfl, hs⟩
  | cons vx vals ih =>
    intro I V c hag hpc hs
    have hsz := storeInsts_size I (vx :: vals)
    have hi : p.insts[c.pc]? = some (.copy (.mem vx.1) (.tmp vx.2)) := by
      rw [hpc, hag _ (Nat.le_refl _) (by rw [hsz]; simp), storeInsts_head]
    have st1 := step_store hi
    obtain ⟨c', st2, pc2, e2, s2⟩ := ih (I.push (.copy (.mem vx.1) (.tmp vx.2))) (alSet V (.mem vx.1) vx.2)
      { c with pc := c.pc + 1, st := c.st.wr vx.1 (tget c.temps vx.2) }
      (fun i hi1 hi2 => hag i (by simp at hi1; omega) hi2) (by simp [hpc]) (sound_store hs _ _ _)
    refine ⟨c', ?_, pc2, e2, s2⟩
    have := (Steps.one st1).trans st2
    exact this.cast (by simp; omega)

theorem cv_values {g : G w} {c : Bc.Cfg w} (hs : Sound g.values c) :
    ∀ {calcs : List (Int × Expr w)} {vals : List (Int × Nat)}, CV g calcs vals →
    vals.map (fun vx => (vx.1, tget c.temps vx.2))
      = calcs.map (fun ve => (ve.1, evaluate ve.2 (fun off => c.st.rd off))) := by
  intro calcs
  induction calcs with
  | nil => intro vals h; cases vals with | nil => rfl | cons _ _ => simp [CV] at h
  | cons ve calcs ih =>
    intro vals h
    cases vals with
    | nil => simp [CV] at h
    | cons vx vals =>
      simp only [CV] at h
      simp only [List.map_cons, ih h.2, h.1.1, h.1.2.2 c hs]

theorem cv_lt {g : G w} : ∀ {calcs : List (Int × Expr w)} {vals : List (Int × Nat)}, CV g calcs vals →
    (∀ vx ∈ vals, vx.2 < g.n) ∧ vals.map (·.1) = calcs.map (·.1) := by
  intro calcs
  induction calcs with
  | nil => intro vals h; cases vals with | nil => simp | cons _ _ => simp [CV] at h
  | cons ve calcs ih =>
    intro vals h
    cases vals with
    | nil => simp [CV] at h
    | cons vx vals =>
      simp only [CV] at h
      obtain ⟨i1, i2⟩ := ih h.2
      refine ⟨?_, by simp [i2, h.1.1]⟩
      intro y hy
      rcases List.mem_cons.1 hy with rfl | hy
      · exact h.1.2.1
      · exact i1 y hy

/-- A `calc` instruction as a segment. -/
theorem calc_seg {calcs : List (Int × Expr w)} {s s1 s' : St w} {vals : List (Int × Nat)} {u : Unit}
    (h1 : calcValues calcs s = .ok (vals, s1)) (h2 : memWrites vals s1 = .ok (u, s')) (hw : WfV (core s)) :
    Seg (calcs.map (·.1)) (fun st => Ir.doCalc st calcs) (core s) (core s') := by
  obtain ⟨sl, cv⟩ := calcValues_spec calcs h1 hw
  have hc := memWrites_core vals h2
  obtain ⟨hlt, htg⟩ := cv_lt cv
  have hw1 := sl.wf hw
  obtain ⟨f1, f2, f3⟩ := storeVals_facts (core s1).n vals s1.values hw1.nodup hlt
  have hmem : ∀ v, (∃ vx ∈ vals, v = vx.1) ↔ v ∈ calcs.map (·.1) := by
    intro v
    rw [← htg]
    simp only [List.mem_map]
    constructor
    · rintro ⟨vx, h, rfl⟩; exact ⟨vx, h, rfl⟩
    · rintro ⟨vx, h, rfl⟩; exact ⟨vx, h, rfl⟩
  have hnew : ∀ e, NewE (core s) (core s') e ↔ NewE (core s) (core s1) e := by
    intro e; simp only [NewE, hc, core_exprs]
  rw [hc] at *
  refine
    { n_le := sl.n_le
      ext := sl.ext.trans (storeInsts_pre _ _)
      eext := sl.eext
      fresh := fun e he => sl.fresh e he
      wf := fun _ => ⟨f1, fun e t h => ?_⟩
      vals := fun e t h hne => f2 e t (sl.vals e t h) (fun vx hvx => hne vx.1 ((hmem _).1 ⟨vx, hvx, rfl⟩))
      newvals := fun e t h => ?_
      sem := ?_ }
  · rcases f3 e t h with h' | ⟨h', vx, _, rfl⟩
    · exact hw1.lt e t h'
    · exact ⟨h', trivial⟩
  · rcases f3 e t h with h' | ⟨_, vx, hvx, rfl⟩
    · rcases sl.newvals e t h' with h'' | h''
      · exact Or.inl h''
      · exact Or.inr (Or.inl h'')
    · exact Or.inr (Or.inr ⟨vx.1, (hmem _).1 ⟨vx, hvx, rfl⟩, rfl⟩)
  · intro p c hag hpc hw0 hs
    have hsz := storeInsts_size s1.insts vals
    have hpre := storeInsts_pre s1.insts vals
    have ag1 : Agree p.insts (core s) (core s1) := by
      intro i hi hlt'
      rw [hag i hi (Nat.lt_of_lt_of_le hlt' hpre.1)]
      exact hpre.2 i hlt'
    obtain ⟨c1, st1, pc1, e1, so1⟩ := sl.sem p c ag1 hpc hw0 hs
    obtain ⟨c2, st2, pc2, e2, so2⟩ := stores_sem p vals s1.insts s1.values c1
      (fun i hi hlt' => hag i (Nat.le_trans sl.ext.1 hi) hlt') pc1 so1
    refine ⟨c2, (st1.trans st2).cast ?_, pc2, ?_, so2⟩
    · have := sl.ext.1
      simp only [core_insts] at this ⊢
      omega
    · rw [e2, cv_values so1 cv, e1]
      rfl

end C02Emit
end Hpbf
