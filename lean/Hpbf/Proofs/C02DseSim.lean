/-
C02, `dead_store_elim`, part 1: the semantic core.

`DseCert P Q D` is a certificate that `Q` is `P` with some stores replaced by `noop`:
`D i` is the set of tape offsets (relative to the pointer) that are DEAD at pc `i` – certainly overwritten
before any read, branch, pointer move, or the end.  A store to a dead cell, and an arithmetic instruction whose
destination is a temporary that no instruction of `Q` reads, may be replaced by `noop`.

`dse_run`: certified programs run in LOCKSTEP (same fuel, same pc, same budget – `noop` and the store it
replaces cost the same: one step of fuel, no budget), with the same pointer, environment and trace; the tapes
agree outside the dead cells of the current pc and the temporaries agree on those that `Q` reads.  The dead set
is empty at every branch, `mov`, `scan` and at the end, so `done` and `interrupted` outcomes have the same tape
(`ObsEqIO`).  Branch TARGETS need no treatment: the tapes are equal when the branch executes.
-/
import Hpbf.Proofs.C02Fuse

namespace Hpbf
namespace C02

open Bc BcWf BcGen C11

variable {w : Nat}

/-! ### configurations that agree on a set of cells and a set of temporaries -/

structure DseSim (X : Int → Prop) (A : Nat → Prop) (c1 c2 : Cfg w) : Prop where
  pc : c1.pc = c2.pc
  budget : c1.budget = c2.budget
  st : StSim X c1.st c2.st
  temps : ∀ t, A t → tget c1.temps t = tget c2.temps t

theorem DseSim.mono {X X' : Int → Prop} {A A' : Nat → Prop} {c1 c2 : Cfg w} (h : DseSim X A c1 c2)
    (hX : ∀ x, X' x → X x) (hA : ∀ t, A' t → A t) : DseSim X' A' c1 c2 :=
  ⟨h.pc, h.budget, ⟨h.st.ptr, h.st.env, h.st.trace, fun x hx => h.st.tape x (hX x hx)⟩,
    fun t ht => h.temps t (hA t ht)⟩

theorem DseSim.cfgIo {X : Int → Prop} {A : Nat → Prop} {c1 c2 : Cfg w} (h : DseSim X A c1 c2) : CfgIo c1 c2 :=
  ⟨⟨h.st.ptr, h.st.env, h.st.trace⟩, h.budget⟩

theorem DseSim.cfgEq {X : Int → Prop} {A : Nat → Prop} {c1 c2 : Cfg w} (h : DseSim X A c1 c2)
    (hX : ∀ x, X x) : CfgEq c1 c2 :=
  ⟨⟨⟨h.st.ptr, h.st.env, h.st.trace⟩, fun x => h.st.tape x (hX x)⟩, h.budget⟩

theorem DseSim.setPc {X : Int → Prop} {A : Nat → Prop} {c1 c2 : Cfg w} (h : DseSim X A c1 c2) (k : Nat) :
    DseSim X A { c1 with pc := k } { c2 with pc := k } := ⟨rfl, h.budget, h.st, h.temps⟩

theorem dse_rdVal {X : Int → Prop} {A : Nat → Prop} {c1 c2 : Cfg w} (h : DseSim X A c1 c2) (l : Loc w)
    (hx : ∀ o ∈ locMem l, X (c1.st.ptr + o)) (ht : ∀ t ∈ locTmp l, A t) : rdVal c1 l = rdVal c2 l := by
  cases l with
  | mem o => exact h.st.rd (hx o (by simp [locMem]))
  | memZero o => exact h.st.rd (hx o (by simp [locMem]))
  | tmp t => exact h.temps t (ht t (by simp [locTmp]))
  | imm v => rfl

/-- The cell written through a destination operand. -/
def dseDstCell (p : Int) : Loc w → Int → Prop
  | .mem o, x => x = p + o
  | _, _ => False

/-- Both sides write the same value: the written cell becomes equal. -/
theorem dse_wrCfg {X : Int → Prop} {A : Nat → Prop} {c1 c2 : Cfg w} (h : DseSim X A c1 c2) (v : BitVec w)
    (l : Loc w) : DseSim (fun x => X x ∨ dseDstCell c1.st.ptr l x) A (wrCfg c1 v l) (wrCfg c2 v l) := by
  cases l with
  | mem o =>
    refine ⟨h.pc, h.budget, ⟨h.st.ptr, h.st.env, h.st.trace, ?_⟩, h.temps⟩
    intro x hx
    simp only [wrCfg, State.wr, Tape.get_set, ← h.st.ptr]
    split
    · rfl
    · rename_i hne
      rcases hx with hx | hx
      · exact h.st.tape x hx
      · exact absurd hx hne
  | memZero o => exact h.mono (fun x hx => by simpa [dseDstCell] using hx) (fun _ ht => ht)
  | imm k => exact h.mono (fun x hx => by simpa [dseDstCell] using hx) (fun _ ht => ht)
  | tmp i =>
    refine ⟨h.pc, h.budget, ?_, ?_⟩
    · exact ⟨h.st.ptr, h.st.env, h.st.trace, fun x hx => h.st.tape x (by simpa [dseDstCell] using hx)⟩
    · intro t ht
      simp only [wrCfg, tget_tset]
      split
      · rfl
      · exact h.temps t ht

/-- Only the left side writes: the written location is no longer known to agree. -/
theorem dse_wrCfg_left {X : Int → Prop} {A : Nat → Prop} {c1 c2 : Cfg w} (h : DseSim X A c1 c2) (v : BitVec w)
    (l : Loc w) :
    DseSim (fun x => X x ∧ ¬ dseDstCell c1.st.ptr l x) (fun t => A t ∧ t ∉ locTmp l) (wrCfg c1 v l) c2 := by
  cases l with
  | mem o =>
    refine ⟨h.pc, h.budget, ⟨h.st.ptr, h.st.env, h.st.trace, ?_⟩, fun t ht => h.temps t ht.1⟩
    intro x hx
    simp only [wrCfg, State.wr]
    rw [Tape.get_set_ne _ _ _ _ (by simpa [dseDstCell] using hx.2)]
    exact h.st.tape x hx.1
  | memZero o => exact h.mono (fun x hx => hx.1) (fun _ ht => ht.1)
  | imm k => exact h.mono (fun x hx => hx.1) (fun _ ht => ht.1)
  | tmp i =>
    refine ⟨h.pc, h.budget, ?_, ?_⟩
    · exact ⟨h.st.ptr, h.st.env, h.st.trace, fun x hx => h.st.tape x hx.1⟩
    · intro t ht
      simp only [wrCfg]
      rw [tget_tset_ne _ _ (by simpa [locTmp] using ht.2)]
      exact h.temps t ht.1

/-! ### what an instruction reads and writes on the tape -/

/-- Offsets READ by an instruction (the destination of a two-operand form is also its first source). -/
def dseReadMems : Instr w → List Int
  | .add _ a b => locMem a ++ locMem b
  | .sub _ a b => locMem a ++ locMem b
  | .mul _ a b => locMem a ++ locMem b
  | .copy _ s => locMem s
  | .out m => [m]
  | .brz c _ => [c]
  | .brnz c _ => [c]
  | .scan c _ => [c]
  | _ => []

def dseDstMem : Loc w → List Int
  | .mem o => [o]
  | _ => []

/-- Offsets certainly WRITTEN (with a value that does not depend on the old content) when the instruction
continues at `pc + 1`. -/
def dseWriteMems : Instr w → List Int
  | .add d _ _ => dseDstMem d
  | .sub d _ _ => dseDstMem d
  | .mul d _ _ => dseDstMem d
  | .copy d _ => dseDstMem d
  | .inp m => [m]
  | _ => []

/-- Branches and pointer moves. -/
def dseIsCtl : Instr w → Bool
  | .brz _ _ => true
  | .brnz _ _ => true
  | .mov _ => true
  | .scan _ _ => true
  | _ => false

theorem dse_dstCell_iff (p : Int) (l : Loc w) (x : Int) : dseDstCell p l x ↔ ∃ o ∈ dseDstMem l, x = p + o := by
  cases l <;> simp [dseDstCell, dseDstMem]

/-! ### one step of the SAME instruction on both sides -/

theorem dse_input {X : Int → Prop} {s1 s2 : State w} (h : StSim X s1 s2) (off : Int) :
    (s1.input off).1 = (s2.input off).1 ∧ IoEq (s1.input off).2 (s2.input off).2 ∧
    ((s1.input off).1 = true →
      StSim (fun x => X x ∨ x = s1.ptr + off) (s1.input off).2 (s2.input off).2) := by
  unfold State.input
  rw [← h.env, ← h.trace]
  split
  · rename_i b e _
    refine ⟨rfl, ⟨h.ptr, rfl, rfl⟩, fun _ => ⟨h.ptr, rfl, rfl, ?_⟩⟩
    intro x hx
    simp only [State.wr, Tape.get_set, ← h.ptr]
    split
    · rfl
    · rename_i hne
      rcases hx with hx | hx
      · exact h.tape x hx
      · exact absurd hx hne
  · exact ⟨rfl, ⟨h.ptr, rfl, rfl⟩, fun hf => by simp at hf⟩
  · exact ⟨rfl, ⟨h.ptr, h.env, h.trace⟩, fun hf => by simp at hf⟩

theorem dse_branch {A : Nat → Prop} {c1 c2 : Cfg w} (h : DseSim (fun _ => True) A c1 c2) (p : Program w)
    (limited : Bool) (taken : Bool) (off : Int) :
    StepRel (DseSim (fun _ => True) A) (DseSim (fun _ => True) A) CfgIo
      (branch p limited c1 taken off) (branch p limited c2 taken off) := by
  obtain ⟨pc1, t1, b1, s1⟩ := c1
  obtain ⟨pc2, t2, b2, s2⟩ := c2
  obtain ⟨h1, h2, h3, h4⟩ := h
  simp only at h1 h2 h3 h4
  subst h1 h2
  unfold branch
  simp only
  split
  · exact ⟨rfl, rfl, h3, h4⟩
  · split
    · split
      · exact ⟨rfl, rfl, h3, h4⟩
      · exact ⟨⟨h3.ptr, h3.env, h3.trace⟩, rfl⟩
    · exact ⟨rfl, rfl, h3, h4⟩

/-- Branches, `mov`, `scan`: executed with equal tapes, they leave equal tapes (at whatever pc). -/
theorem dse_stepI_ctl {A : Nat → Prop} {c1 c2 : Cfg w} (h : DseSim (fun _ => True) A c1 c2) (p : Program w)
    (limited : Bool) (ins : Instr w) (hc : dseIsCtl ins = true) :
    StepRel (DseSim (fun _ => True) A) (DseSim (fun _ => True) A) CfgIo
      (stepI p limited c1 ins) (stepI p limited c2 ins) := by
  cases ins with
  | mov sh => exact ⟨h.pc ▸ rfl, h.budget, h.st.mov sh, h.temps⟩
  | scan cond sh =>
    have hcd : c1.st.rd cond = c2.st.rd cond := h.st.rd trivial
    simp only [stepI, ← hcd]
    split
    · exact ⟨h.pc ▸ rfl, h.budget, h.st, h.temps⟩
    · split
      · split
        · exact ⟨h.pc, rfl, h.st, h.temps⟩
        · exact h
      · exact ⟨h.pc, h.budget, h.st.mov sh, h.temps⟩
  | brz cond off =>
    have hcd : c1.st.rd cond = c2.st.rd cond := h.st.rd trivial
    simp only [stepI, ← hcd]
    exact dse_branch h p limited _ off
  | brnz cond off =>
    have hcd : c1.st.rd cond = c2.st.rd cond := h.st.rd trivial
    simp only [stepI, ← hcd]
    exact dse_branch h p limited _ off
  | noop => cases hc
  | inp d => cases hc
  | out s => cases hc
  | add d a b => cases hc
  | sub d a b => cases hc
  | mul d a b => cases hc
  | copy d s => cases hc

/-- What a straight-line step establishes: agreement on the old set plus the written cells, at `pc + 1`, with
the pointer unchanged. -/
def DseSameNext (X : Int → Prop) (A : Nat → Prop) (c1 : Cfg w) (ins : Instr w) (a b : Cfg w) : Prop :=
  DseSim (fun x => X x ∨ ∃ o ∈ dseWriteMems ins, x = c1.st.ptr + o) A a b ∧ a.pc = c1.pc + 1 ∧
    a.st.ptr = c1.st.ptr

theorem dse_wr_same {X : Int → Prop} {A : Nat → Prop} {c1 c2 : Cfg w} (h : DseSim X A c1 c2)
    (v1 v2 : BitVec w) (hv : v1 = v2) (d : Loc w) {ins : Instr w} (hw : dseWriteMems ins = dseDstMem d) :
    DseSameNext X A c1 ins { wrCfg c1 v1 d with pc := c1.pc + 1 } { wrCfg c2 v2 d with pc := c2.pc + 1 } := by
  subst hv
  refine ⟨?_, rfl, by simp [wrCfg_ptr]⟩
  rw [hw, ← h.pc]
  exact ((dse_wrCfg h v1 d).setPc (c1.pc + 1)).mono (fun x hx => by simpa [dse_dstCell_iff] using hx)
    (fun _ ht => ht)

theorem dse_arith_same {X : Int → Prop} {A : Nat → Prop} {c1 c2 : Cfg w} (h : DseSim X A c1 c2)
    (f : BitVec w → BitVec w → BitVec w) (d a b : Loc w) (ha : locNoZero a = true) (hb : locNoZero b = true)
    (hx : ∀ o ∈ locMem a ++ locMem b, X (c1.st.ptr + o)) (hu : ∀ t ∈ locTmp a ++ locTmp b, A t)
    {ins : Instr w} (hw : dseWriteMems ins = dseDstMem d) :
    StepRel (DseSameNext X A c1 ins) (fun _ _ => False) CfgIo (arith c1 f d a b) (arith c2 f d a b) := by
  have e1 : rdVal c1 a = rdVal c2 a :=
    dse_rdVal h a (fun o ho => hx o (by simp [ho])) (fun t ht => hu t (by simp [ht]))
  have e2 : rdVal c1 b = rdVal c2 b :=
    dse_rdVal h b (fun o ho => hx o (by simp [ho])) (fun t ht => hu t (by simp [ht]))
  simp only [arith, binopCfg_pure f _ d a b ha hb]
  split
  · exact dse_wr_same h _ _ (by rw [e1, e2]) d hw
  · exact h.cfgIo

/-- Straight-line instructions: the sources are read from cells and temporaries that agree. -/
theorem dse_stepI_same {X : Int → Prop} {A : Nat → Prop} {c1 c2 : Cfg w} (h : DseSim X A c1 c2) (p : Program w)
    (limited : Bool) (ins : Instr w) (hc : dseIsCtl ins = false) (hnz : NoMemZero ins)
    (hx : ∀ o ∈ dseReadMems ins, X (c1.st.ptr + o)) (hu : ∀ t ∈ uses ins, A t) :
    StepRel (DseSameNext X A c1 ins) (fun _ _ => False) CfgIo
      (stepI p limited c1 ins) (stepI p limited c2 ins) := by
  have hpc := h.pc
  cases ins with
  | mov sh => cases hc
  | scan cond sh => cases hc
  | brz cond off => cases hc
  | brnz cond off => cases hc
  | noop =>
    refine ⟨?_, rfl, rfl⟩
    rw [← hpc]
    exact (h.setPc (c1.pc + 1)).mono (fun x hx => by simpa [dseWriteMems] using hx) (fun _ ht => ht)
  | inp d =>
    obtain ⟨e1, e2, e3⟩ := dse_input h.st d
    simp only [stepI, ← e1]
    split
    · rename_i hok
      refine ⟨⟨by simp [hpc], h.budget, ?_, h.temps⟩, rfl, by simp [input_ptr]⟩
      have := e3 hok
      exact ⟨this.ptr, this.env, this.trace, fun x hx => this.tape x (by simpa [dseWriteMems] using hx)⟩
    · exact ⟨e2, h.budget⟩
  | out s =>
    obtain ⟨e1, e2⟩ := h.st.output (hx s (by simp [dseReadMems]))
    simp only [stepI, ← e1]
    split
    · refine ⟨⟨by simp [hpc], h.budget, ?_, h.temps⟩, rfl, by simp [output_ptr]⟩
      exact ⟨e2.ptr, e2.env, e2.trace, fun x hx => e2.tape x (by simpa [dseWriteMems] using hx)⟩
    · exact ⟨⟨e2.ptr, e2.env, e2.trace⟩, h.budget⟩
  | add d a b =>
    simp only [NoMemZero, noMemZero, Bool.and_eq_true] at hnz
    exact dse_arith_same h _ d a b hnz.1.2 hnz.2 hx hu rfl
  | sub d a b =>
    simp only [NoMemZero, noMemZero, Bool.and_eq_true] at hnz
    exact dse_arith_same h _ d a b hnz.1.2 hnz.2 hx hu rfl
  | mul d a b =>
    simp only [NoMemZero, noMemZero, Bool.and_eq_true] at hnz
    exact dse_arith_same h _ d a b hnz.1.2 hnz.2 hx hu rfl
  | copy d s =>
    simp only [NoMemZero, noMemZero, Bool.and_eq_true] at hnz
    have e1 : rdVal c1 s = rdVal c2 s := dse_rdVal h s hx hu
    simp only [stepI, copyCfg, rdSt_noZero _ hnz.2]
    split
    · exact dse_wr_same h _ _ e1 d rfl
    · exact h.cfgIo

/-! ### a store on the left, `noop` on the right -/

/-- `ins` is a `copy` or an arithmetic instruction with destination `d`. -/
def DseKillOf (ins : Instr w) (d : Loc w) : Prop :=
  (∃ s, ins = .copy d s) ∨ (∃ op a b, ins = mkArith op d a b)

theorem dse_stepI_kill {X : Int → Prop} {A : Nat → Prop} {c1 c2 : Cfg w} (h : DseSim X A c1 c2) (p : Program w)
    (limited : Bool) (ins : Instr w) (d : Loc w) (hk : DseKillOf ins d) (hd : isDst d = true)
    (hnz : NoMemZero ins) :
    ∃ c1', stepI p limited c1 ins = .next c1' ∧ c1'.pc = c1.pc + 1 ∧ c1'.st.ptr = c1.st.ptr ∧
      DseSim (fun x => X x ∧ ¬ dseDstCell c1.st.ptr d x) (fun t => A t ∧ t ∉ locTmp d) c1'
        { c2 with pc := c2.pc + 1 } := by
  have key : ∀ v, ∃ c1', (Bc.StepRes.next { wrCfg c1 v d with pc := c1.pc + 1 } : StepRes w) = .next c1' ∧
      c1'.pc = c1.pc + 1 ∧ c1'.st.ptr = c1.st.ptr ∧
      DseSim (fun x => X x ∧ ¬ dseDstCell c1.st.ptr d x) (fun t => A t ∧ t ∉ locTmp d) c1'
        { c2 with pc := c2.pc + 1 } := by
    intro v
    refine ⟨_, rfl, rfl, by simp [wrCfg_ptr], ?_⟩
    have := (dse_wrCfg_left h v d).setPc (c2.pc + 1)
    rw [h.pc]
    exact this
  rcases hk with ⟨s, rfl⟩ | ⟨op, a, b, rfl⟩
  · simp only [NoMemZero, noMemZero, Bool.and_eq_true] at hnz
    simp only [stepI, hd, if_true, copyCfg, rdSt_noZero _ hnz.2]
    exact key _
  · have hnz' : locNoZero a = true ∧ locNoZero b = true := by
      cases op <;> simp only [mkArith, NoMemZero, noMemZero, Bool.and_eq_true] at hnz <;> exact ⟨hnz.1.2, hnz.2⟩
    simp only [stepI_mkArith, arith, hd, if_true, binopCfg_pure _ _ d a b hnz'.1 hnz'.2]
    exact key _

/-! ### the certificate -/

/-- Temporaries read by some instruction of `Q`. -/
def DseRQ (Q : Array (Instr w)) (t : Nat) : Prop := ∃ (j : Nat) (ins : Instr w), Q[j]? = some ins ∧ t ∈ uses ins

/-- Local condition at one index: `ins` in the original, `ins'` in the result, `Db`/`Da` the dead sets before
and after the instruction. -/
def DseStepOk (Q : Array (Instr w)) (ins ins' : Instr w) (Db Da : List Int) : Prop :=
  (ins' = ins ∧ (∀ o ∈ dseReadMems ins, o ∉ Db) ∧ (dseIsCtl ins = true → Db = []) ∧
    (∀ o ∈ Db, o ∈ Da ∨ o ∈ dseWriteMems ins)) ∨
  (ins' = .noop ∧ Db = Da ∧ ∃ d, DseKillOf ins d ∧
    ((∃ m, d = .mem m ∧ m ∈ Da) ∨ (∃ t, d = .tmp t ∧ ¬ DseRQ Q t)))

structure DseCert (P Q : Array (Instr w)) (D : Nat → List Int) : Prop where
  size : Q.size = P.size
  noZero : ∀ ins ∈ P, NoMemZero ins
  last : D P.size = []
  step : ∀ (i : Nat) (ins ins' : Instr w), P[i]? = some ins → Q[i]? = some ins' →
    DseStepOk Q ins ins' (D i) (D (i + 1))

/-- The simulation relation. -/
def DseRel (Q : Array (Instr w)) (D : Nat → List Int) (c1 c2 : Cfg w) : Prop :=
  DseSim (fun x => x - c1.st.ptr ∉ D c1.pc) (DseRQ Q) c1 c2

theorem dse_stepRel_mono {R G E R' G' E' : Cfg w → Cfg w → Prop} {r1 r2 : StepRes w}
    (h : StepRel R G E r1 r2) (hR : ∀ a b, r1 = .next a → R a b → R' a b) (hG : ∀ a b, G a b → G' a b)
    (hE : ∀ a b, E a b → E' a b) : StepRel R' G' E' r1 r2 := by
  cases r1 <;> cases r2 <;> simp only [StepRel] at h ⊢
  all_goals first | exact hR _ _ rfl h | exact hG _ _ h | exact hE _ _ h

theorem dse_stepRel {P Q : Program w} {D : Nat → List Int} (hc : DseCert P.insts Q.insts D)
    (limited : Bool) (c1 c2 : Cfg w) (h : DseRel Q.insts D c1 c2) :
    StepRel (DseRel Q.insts D) CfgEq CfgIo (step P limited c1) (step Q limited c2) := by
  have hpc := h.pc
  cases hP : P.insts[c1.pc]? with
  | none =>
    have hge : P.insts.size ≤ c1.pc := by
      rcases Nat.lt_or_ge c1.pc P.insts.size with hlt | hge
      · rw [Array.getElem?_eq_getElem hlt] at hP; cases hP
      · exact hge
    have hQ : Q.insts[c2.pc]? = none := by
      rw [Array.getElem?_eq_none_iff, hc.size, ← hpc]; exact hge
    unfold step
    rw [hP, hQ]
    simp only [← hpc, hc.size]
    split
    · rename_i he
      refine h.cfgEq (fun x => ?_)
      rw [he, hc.last]; simp
    · exact h.cfgIo
  | some ins =>
    have hlt : c1.pc < P.insts.size := C07_lt hP
    have hlt2 : c2.pc < Q.insts.size := by rw [hc.size, ← hpc]; exact hlt
    have hQ : Q.insts[c2.pc]? = some Q.insts[c2.pc] := Array.getElem?_eq_getElem hlt2
    have hQ1 : Q.insts[c1.pc]? = some Q.insts[c2.pc] := by rw [hpc]; exact hQ
    have hnz : NoMemZero ins := hc.noZero ins (Array.mem_of_getElem? hP)
    rw [step_eq hP, step_eq hQ, stepI_size (p := P) (q := Q) hc.size]
    rcases hc.step c1.pc ins _ hP hQ1 with ⟨he, hrd, hctl, hsub⟩ | ⟨he, hD, d, hk, hdead⟩
    · rw [he]
      by_cases hcI : dseIsCtl ins = true
      · have hD := hctl hcI
        have h' : DseSim (fun _ => True) (DseRQ Q.insts) c1 c2 :=
          h.mono (fun x _ => by rw [hD]; simp) (fun _ ht => ht)
        refine dse_stepRel_mono (dse_stepI_ctl h' P limited ins hcI) ?_ ?_ (fun _ _ hE => hE)
        · intro a b _ hab
          exact hab.mono (fun _ _ => trivial) (fun _ ht => ht)
        · intro a b hab
          exact hab.cfgEq (fun _ => trivial)
      · have hcI' : dseIsCtl ins = false := by simpa using hcI
        refine dse_stepRel_mono (dse_stepI_same h P limited ins hcI' hnz ?_ ?_) ?_ (fun _ _ hF => hF.elim)
          (fun _ _ hE => hE)
        · intro o ho
          have : c1.st.ptr + o - c1.st.ptr = o := by omega
          rw [this]; exact hrd o ho
        · intro t ht
          exact ⟨c1.pc, ins, by rw [hQ1, he], ht⟩
        · rintro a b _ ⟨hab, hapc, haptr⟩
          refine hab.mono ?_ (fun _ ht => ht)
          intro x hx
          rw [hapc, haptr] at hx
          by_cases hm : x - c1.st.ptr ∈ D c1.pc
          · rcases hsub _ hm with h1 | h1
            · exact absurd h1 hx
            · exact Or.inr ⟨x - c1.st.ptr, h1, by omega⟩
          · exact Or.inl hm
    · rw [he]
      have hd : isDst d = true := by
        rcases hdead with ⟨m, rfl, _⟩ | ⟨t, rfl, _⟩ <;> rfl
      obtain ⟨c1', hs, hpc', hptr', hsim⟩ := dse_stepI_kill h P limited ins d hk hd hnz
      rw [hs]
      simp only [stepI, StepRel]
      refine hsim.mono ?_ ?_
      · intro x hx
        rw [hpc', hptr', ← hD] at hx
        refine ⟨hx, fun hcell => ?_⟩
        rcases hdead with ⟨m, rfl, hm⟩ | ⟨t, rfl, _⟩
        · simp only [dseDstCell] at hcell
          apply hx
          rw [hD]
          have : x - c1.st.ptr = m := by omega
          rw [this]; exact hm
        · exact hcell
      · intro t ht
        refine ⟨ht, fun hmem => ?_⟩
        rcases hdead with ⟨m, rfl, _⟩ | ⟨t', rfl, hnr⟩
        · simp [locTmp] at hmem
        · simp only [locTmp, List.mem_singleton] at hmem
          subst hmem
          exact hnr ht

theorem DseRel.refl (Q : Array (Instr w)) (D : Nat → List Int) (c : Cfg w) : DseRel Q D c c :=
  ⟨rfl, rfl, ⟨rfl, rfl, rfl, fun _ _ => rfl⟩, fun _ _ => rfl⟩

/-- Certified programs run in lockstep: same fuel, same outcome up to the tape of `stopped`/`bad`/`outOfFuel`. -/
theorem dse_run {P Q : Program w} {D : Nat → List Int} (hc : DseCert P.insts Q.insts D)
    (limited : Bool) (b fuel : Nat) (env : Env) :
    ObsEqIO (Bc.run P limited b fuel env) (Bc.run Q limited b fuel env) := by
  unfold Bc.run
  simp only
  split
  · exact CfgEq.refl _
  · exact lockstep_run (R := DseRel Q.insts D) (G := CfgEq) (E := CfgIo) (O := CfgIo)
      (fun c1 c2 h => dse_stepRel hc limited c1 c2 h) (fun c1 c2 h => DseSim.cfgIo h) fuel _ _ (DseRel.refl _ _ _)

theorem dse_behEqIO {P Q : Program w} {D : Nat → List Int} (hc : DseCert P.insts Q.insts D) : BehEqIO P Q :=
  ⟨fun limited b fuel env => ⟨fuel, dse_run hc limited b fuel env⟩,
   fun limited b fuel env => ⟨fuel, (dse_run hc limited b fuel env).symm⟩⟩

end C02
end Hpbf
