/-
C03 (control flow), stage 2: the straight-line instructions on the program machine: `noop`, the arithmetic /
copy instructions (lifting `selector_sound` through `plain_block`), and `mov` without bounds check.
-/
import Hpbf.Proofs.C03FlowBranch
import Hpbf.Proofs.C03FlowSlots
namespace Hpbf
namespace C03
open Asm JitGen X86Sem X86Prog
variable {w : Nat}

/-! ### `noop` -/

theorem flow_noop (K : Ctx w) {fr : Frame} {c : Bc.Cfg w} {s : PState w}
    (hi : K.p.insts[c.pc]? = some .noop) (hinv : Inv K fr c s) (hrel : Rel c (view s))
    {c' : Bc.Cfg w} (hstep : Bc.step K.p K.limited c = .next c') :
    ∃ n s', steps K.cfg n s = some s' ∧ Inv K fr c' s' ∧ Rel c' (view s') := by
  obtain ⟨lv, its, xs, hI⟩ := K.instrAt hi
  obtain ⟨hraw, -⟩ := emitInstr_raw hI.emit
  simp only [emitInstrRaw, Option.some.injEq] at hraw
  subst hraw
  simp only [Bc.step, hi, Bc.StepRes.next.injEq] at hstep
  subst hstep
  refine ⟨0, s, rfl, ?_, hrel⟩
  have := hinv.move (SameTmp.rfl' s) rfl (pc' := c.pc + 1) (b' := c.budget)
    (by rw [hinv.pc, hI.next]; simp) hinv.budget
  exact this

/-! ### Arithmetic / copy instructions on the program machine -/

theorem plains_inj {xs ys : List X86} (h : plains xs = plains ys) : xs = ys := by
  induction xs generalizing ys with
  | nil => cases ys <;> simp_all [plains]
  | cons x xs ih =>
    cases ys with
    | nil => simp [plains] at h
    | cons y ys =>
      simp only [plains, List.map_cons, List.cons.injEq, Item.plain.injEq] at h
      rw [h.1, ih h.2]

theorem emitInstr_arith {sz : Size} {limited safe : Bool} {minAcc maxAcc : Int} {aE aI aO i live : Nat}
    {ins : Bc.Instr w} (hok : ArithOk ins) {its : List Item}
    (h : emitInstr sz limited safe minAcc maxAcc aE aI aO i live ins = some its) :
    ∃ xs, its = plains xs ∧ emitArith sz live ins = some xs := by
  obtain ⟨hraw, hfit⟩ := emitInstr_raw h
  cases ins with
  | copy d s =>
    simp only [emitInstrRaw, Option.map_eq_some_iff] at hraw
    obtain ⟨xs, hxs, rfl⟩ := hraw
    rw [plains_all_fits] at hfit
    exact ⟨xs, rfl, by simp only [emitArith, hxs, Option.bind_some, hfit, if_true]⟩
  | add d a b =>
    simp only [emitInstrRaw, Option.map_eq_some_iff] at hraw
    obtain ⟨xs, hxs, rfl⟩ := hraw
    rw [plains_all_fits] at hfit
    exact ⟨xs, rfl, by simp only [emitArith, hxs, Option.bind_some, hfit, if_true]⟩
  | sub d a b =>
    simp only [emitInstrRaw, Option.map_eq_some_iff] at hraw
    obtain ⟨xs, hxs, rfl⟩ := hraw
    rw [plains_all_fits] at hfit
    exact ⟨xs, rfl, by simp only [emitArith, hxs, Option.bind_some, hfit, if_true]⟩
  | mul d a b =>
    simp only [emitInstrRaw, Option.map_eq_some_iff] at hraw
    obtain ⟨xs, hxs, rfl⟩ := hraw
    rw [plains_all_fits] at hfit
    exact ⟨xs, rfl, by simp only [emitArith, hxs, Option.bind_some, hfit, if_true]⟩
  | _ => exact absurd hok (by simp [ArithOk])

/-- What an arithmetic / copy step leaves alone on the bytecode side. -/
structure BcKeep (c c' : Bc.Cfg w) : Prop where
  pc : c'.pc = c.pc
  budget : c'.budget = c.budget
  env : c'.st.env = c.st.env
  trace : c'.st.trace = c.st.trace
  ptr : c'.st.ptr = c.st.ptr

theorem BcKeep.trans {a b c : Bc.Cfg w} (h1 : BcKeep a b) (h2 : BcKeep b c) : BcKeep a c :=
  ⟨h2.pc.trans h1.pc, h2.budget.trans h1.budget, h2.env.trans h1.env, h2.trace.trans h1.trace,
   h2.ptr.trans h1.ptr⟩

theorem readLoc_keep (c : Bc.Cfg w) (l : Bc.Loc w) : BcKeep c (Bc.readLoc c l).2 := by
  cases l <;> exact ⟨rfl, rfl, rfl, rfl, rfl⟩

theorem writeLoc_keep {c c' : Bc.Cfg w} {v : BitVec w} {l : Bc.Loc w} (h : Bc.writeLoc c v l = some c') :
    BcKeep c c' := by
  cases l <;> simp [Bc.writeLoc] at h <;> subst h <;> exact ⟨rfl, rfl, rfl, rfl, rfl⟩

theorem binop_keep {f : BitVec w → BitVec w → BitVec w} {c c' : Bc.Cfg w} {d a b : Bc.Loc w}
    (h : Bc.binop f c d a b = some c') : BcKeep c c' := by
  unfold Bc.binop at h
  split at h
  · exact ((readLoc_keep c b).trans (readLoc_keep _ d)).trans (writeLoc_keep h)
  · exact ((readLoc_keep c a).trans (readLoc_keep _ b)).trans (writeLoc_keep h)

theorem arith_keep {c c' : Bc.Cfg w} {ins : Bc.Instr w} (h : arith c ins = some c') : BcKeep c c' := by
  cases ins <;> simp only [arith] at h <;> try (cases h; done)
  · exact binop_keep h
  · exact binop_keep h
  · exact binop_keep h
  · exact (readLoc_keep c _).trans (writeLoc_keep h)

/-- `copy` / `add` / `sub` / `mul`: the selector's code runs on the program machine, from a fully related
state to one related on the live register temporaries and the destination. `n` bounds the temporaries of
the instruction (`BcWf`: `< p.temps`). -/
theorem flow_arith (K : Ctx w) {fr : Frame} {c : Bc.Cfg w} {s : PState w} {ins : Bc.Instr w}
    (hi : K.p.insts[c.pc]? = some ins) (hok : ArithOk ins)
    (htmps : ∀ t ∈ insTmps ins, t < alignedTemps K.p.temps)
    (hinv : Inv K fr c s) (hrel : Rel c (view s))
    {c' : Bc.Cfg w} (hstep : Bc.step K.p K.limited c = .next c') :
    ∃ lv n s', K.p.live[c.pc]? = some lv ∧ steps K.cfg n s = some s' ∧ Inv K fr c' s' ∧
      Rel' lv (dstOf ins) c' (view s') := by
  obtain ⟨lv, its, xs0, hI⟩ := K.instrAt hi
  obtain ⟨xs, hits, hemit⟩ := emitInstr_arith hok hI.emit
  obtain ⟨xs', hits', m', hx, hrel', hbx, hbp, hsp⟩ := sel_instr K.hszb K.limited K.safe K.p.minAcc K.p.maxAcc
    K.cfg.aE.toNat K.cfg.aI.toNat K.cfg.aO.toNat c.pc lv ins hok hI.emit K.p K.limited hi hrel hstep
  have : xs' = xs := plains_inj (hits'.symm.trans hits)
  subst this
  have hres := hI.res
  rw [hits] at hres
  obtain ⟨ys, hxs0, hres'⟩ := resolveItems_plains (its := []) (by simpa using hres)
  have := resolveItems_nil' hres'
  subst this
  have hat : At K.cfg K.code s.pc xs' := by
    rw [hinv.pc]; have := hI.at_; rw [hxs0] at this; simpa using this
  have hslots := emitArith_slotOk hemit hok htmps
  obtain ⟨s', hst, hview, hpc, hctl, hdrop⟩ := plain_block hat hx (n := alignedTemps K.p.temps)
    (by rw [hinv.len]; omega) hslots
  rw [step_arith K.p K.limited hi hok] at hstep
  cases ha : arith c ins with
  | none => rw [ha] at hstep; cases hstep
  | some c'' =>
    rw [ha] at hstep
    simp only [Bc.StepRes.next.injEq] at hstep
    have hkeep := arith_keep ha
    refine ⟨lv, xs'.length, s', hI.live, hst, ?_, by rw [hview]; exact hrel'⟩
    subst hstep
    refine ⟨?_, ?_, ?_, ?_, ?_, ?_, ?_, hinv.align, ?_, ?_, ?_⟩
    rotate_right
    · have : (view s').regs .rbp = (view s).regs .rbp := by rw [hview]; exact hbp
      exact hinv.phys.of_eq this hctl.buf hctl.lptr hctl.base
    · show s'.pc = K.loc (c''.pc + 1)
      rw [hpc, hkeep.pc, hI.next, hinv.pc, hits, itemsSize_plains]
    · have : (view s').regs .rbx = (view s).regs .rbx := by rw [hview]; exact hbx
      exact this.trans hinv.rbx
    · show s'.env = c''.st.env
      rw [hctl.env, hinv.env, hkeep.env]
    · show s'.trace = c''.st.trace
      rw [hctl.trace, hinv.trace, hkeep.trace]
    · show s'.budget.toNat = c''.budget
      rw [hctl.budget, hinv.budget, hkeep.budget]
    · rw [hctl.tapeOk]; exact hinv.tapeOk
    · have : (view s').regs .rsp = (view s).regs .rsp := by rw [hview]; exact hsp
      exact this.trans hinv.rsp
    · rw [hctl.len]; exact hinv.len
    · rw [hdrop]; exact hinv.saved


/-! ### `mov` without bounds check -/

theorem bytes_eq {sz : Size} (hsz : sz.bits = w) : ((sz.bytes : Nat) : Int) = cellBytes w ∧ sz.bytes ≠ 0 := by
  cases sz <;> simp only [Size.bits] at hsz <;> subst hsz <;> simp [Size.bytes, cellBytes]

/-- `add rbp, bytes * shift`: the tape pointer moves by `shift` cells. -/
theorem step_addRbp {cfg : Cfg} {code : List X86} {sz : Size} (hsz : sz.bits = w) {shift : Int}
    {rest : List X86} {s : PState w}
    (hat : At cfg code s.pc (addImm64 (.reg memr) ((sz.bytes : Int) * shift) :: rest))
    (hfit : (addImm64 (.reg memr) ((sz.bytes : Int) * shift)).fits = true) :
    ∃ z cf', step cfg s = .next { s with
      regs := s.regs.set .rbp (s.regs.get .rbp + BitVec.ofInt 64 ((sz.bytes : Int) * shift))
      lptr := s.lptr + shift, zf := z, cf := cf'
      pc := s.pc + (addImm64 (.reg memr) ((sz.bytes : Int) * shift)).size } := by
  rw [step_at hat]
  step_open hfit
  obtain ⟨hb, hb0⟩ := bytes_eq hsz
  have hb0' : cellBytes w ≠ 0 := by rw [← hb]; exact_mod_cast hb0
  simp only [addImm64, memr, reduceCtorEq, RegMem.reg.injEq, and_false, if_false, true_and, if_true,
    stepAddRbp, moveRbp]
  have hmod : (sz.bytes : Int) * shift % cellBytes w = 0 := by rw [hb]; exact Int.mul_emod_right _ _
  have hdiv : (sz.bytes : Int) * shift / cellBytes w = shift := by
    rw [hb]; exact Int.mul_ediv_cancel_left _ hb0'
  simp only [hb0', ne_eq, not_false_eq_true, hmod, and_self, if_true, hdiv]
  exact ⟨_, _, rfl⟩

theorem flow_mov_unchecked (K : Ctx w) (hsafe : K.safe = false) {fr : Frame} {c : Bc.Cfg w} {s : PState w}
    {shift : Int} (hi : K.p.insts[c.pc]? = some (.mov shift))
    (hsh : -2147483648 ≤ shift ∧ shift < 2147483648) (hinv : Inv K fr c s) (hrel : Rel c (view s))
    {c' : Bc.Cfg w} (hstep : Bc.step K.p K.limited c = .next c') :
    ∃ n s', steps K.cfg n s = some s' ∧ Inv K fr c' s' ∧ Rel c' (view s') := by
  obtain ⟨lv, its, xs, hI⟩ := K.instrAt hi
  obtain ⟨hraw, hfit⟩ := emitInstr_raw hI.emit
  simp only [emitInstrRaw, hsafe, Bool.false_eq_true, if_false, Option.some.injEq] at hraw
  subst hraw
  rw [i32_eq hsh.1 hsh.2] at hfit hI
  have hf : (addImm64 (.reg memr) ((K.C.sz.bytes : Int) * shift)).fits = true :=
    mem_all_fits hfit (by simp)
  obtain ⟨ys, hxs, hres⟩ := resolveItems_plain_cons hI.res
  have := resolveItems_nil' hres
  subst this
  have hat : At K.cfg K.code s.pc [addImm64 (.reg memr) ((K.C.sz.bytes : Int) * shift)] := by
    rw [hinv.pc, ← hxs]; exact hI.at_
  obtain ⟨z, cf', h1⟩ := step_addRbp K.hszb hat hf
  simp only [Bc.step, hi, Bc.StepRes.next.injEq] at hstep
  subst hstep
  refine ⟨1, _, steps_one h1, ?_, ?_⟩
  · refine ⟨?_, ?_, hinv.env, hinv.trace, hinv.budget, hinv.tapeOk, ?_, hinv.align, hinv.len, hinv.saved, ?_⟩
    rotate_right
    · have hp := hinv.phys
      unfold Phys at hp ⊢
      show (s.regs.set .rbp _).get .rbp = _
      simp only [regfile_set_get, if_true]
      have : s.regs.get .rbp = s.regs.rbp := rfl
      rw [this, hp, (bytes_eq K.hszb).1, BitVec.add_assoc, ← BitVec.ofInt_add]
      congr 2
      rw [Int.mul_sub, Int.mul_sub, Int.mul_add]; omega
    · show s.pc + _ = K.loc (c.pc + 1)
      rw [hI.next, hinv.pc]; simp [Item.size]
    · show (s.regs.set .rbp _).get .rbx = _
      simp; exact hinv.rbx
    · show (s.regs.set .rbp _).get .rsp = _
      simp; exact hinv.rsp
  · refine ⟨fun t r htr => ?_, fun t ht => hrel.2.1 t ht, fun o => ?_⟩
    · obtain ⟨hlt, rfl⟩ := tmpReg_eq_some.1 htr
      have hne := treg_ne hlt
      have := hrel.1 t _ htr
      simp only [view] at this ⊢
      simp [hne.2.2.2.2]; exact this
    · have := hrel.2.2 (shift + o)
      simp only [view, State.rd, State.mov] at this ⊢
      rw [Int.add_assoc]
      rw [this, Int.add_assoc]

end C03
end Hpbf
