/-
C02 (first phase), part 4: the shape of the code emitted for loops and ifs (`emitLoopIf`) on the core
state, and the certificate `Em`: a derivation that mirrors `emitInsts` and records, for every IR
instruction, the core states before and after its code.
-/
import Hpbf.Proofs.C02EmitCalc

namespace Hpbf
namespace C02Emit
open BcGen Bc Sim Expr

variable {w : Nat}

/-! ### the table at the head and at the exit of a block -/

def headVals (sub : Analysis) (V : List (GvnExpr w × Nat)) : List (GvnExpr w × Nat) :=
  if sub.hasShift then [] else removeMems V sub.writes

def exitVals (sub : Analysis) (once : Bool) (prevExprs : Nat) (exprs : Array (GvnExpr w))
    (V : List (GvnExpr w × Nat)) : List (GvnExpr w × Nat) :=
  if sub.hasShift then []
  else if once then V
  else (exprs.toList.drop prevExprs).foldl (fun vs e => alErase vs e) (removeMems V sub.writes)

def G.push (g : G w) (i : Bc.Instr w) : G w := { g with insts := g.insts.push i }

/-- State in which the body is emitted: after the placeholder for the leading `brz`. -/
def blockStart (once : Bool) (g0 : G w) : G w := if once then g0 else g0.push .noop

/-- State after the block: `g0` is the state at the head (values already adjusted), `g2` the state
after the body. -/
def blockEnd (isLoop once : Bool) (cond shift : Int) (sub : Analysis) (g0 g2 : G w) : G w :=
  let g3 := if shift = 0 then g2 else g2.push (.mov shift)
  let start := (blockStart once g0).insts.size
  let g4 := if isLoop then g3.push (.brnz cond ((start : Int) - (g3.insts.size : Int))) else g3
  let patch : Bc.Instr w := .brz cond ((g4.insts.size : Int) - ((start - 1 : Nat) : Int))
  let g5 : G w := if once then g4 else { g4 with insts := g4.insts.setIfInBounds (start - 1) patch }
  { g5 with values := exitVals sub once g0.exprs.size g5.exprs g5.values }

def headG (isLoop : Bool) (sub : Analysis) (g : G w) : G w :=
  if isLoop then { g with values := headVals sub g.values } else g

/-- State after a loop with empty body fused into `scan`. -/
def scanEnd (cond shift : Int) (sub : Analysis) (once : Bool) (g : G w) : G w :=
  { (headG true sub g).push (.scan cond shift) with
    values := exitVals sub once g.exprs.size g.exprs (headVals sub g.values) }

/-! ### `emitLoopIf` on the core state -/

section
variable {fuse : Bool} {ps : Nat} {cond shift : Int} {be : Bool} {sub : Analysis}
  {eb : Nat → M w Unit} {s s' : St w} {u : Unit}

set_option linter.unusedSimpArgs false in
theorem emitLoopIf_loop (B : G w → G w → Prop)
    (hB : ∀ ps s s' u, eb ps s = .ok (u, s') → B (core s) (core s'))
    (once : Bool) (hf : (!fuse || false || !be) = true)
    (h : emitLoopIf fuse ps true once cond shift be sub eb s = .ok (u, s')) :
    ∃ g2, B (blockStart once (headG true sub (core s))) g2 ∧
      core s' = blockEnd true once cond shift sub (headG true sub (core s)) g2 := by
  unfold emitLoopIf at h
  cases once <;> cases hsh : sub.hasShift <;> by_cases hs0 : shift = 0
  all_goals
    first
      | have hs0' : (shift != 0) = false := by simp [hs0]
      | have hs0' : (shift != 0) = true := by simp [hs0]
    simp only [hsh, hs0', Bool.not_true, Bool.not_false, hf, ↓reduceIte, Bool.false_eq_true] at h
    simp only [get_bind, modify_bind, pushInst_bind] at h
    rw [bind_ok] at h
    obtain ⟨_, s2, hb, h⟩ := h
    have hb' := hB _ _ _ _ hb
    try simp only [get_bind, modify_bind, pushInst_bind] at h
    rw [bind_ok] at h
    obtain ⟨_, s3, ho, h⟩ := h
    have ho := (outerLoop_core _ _ _ ho).1
    simp only [core, G.mk.injEq] at ho
    obtain ⟨i1, i2, i3, i4⟩ := ho
    simp only [get_bind, modify_bind, pushInst_bind, ite_run, throw_bind, ite_error_ok, set_bind,
      modify_ok] at h
    refine ⟨core s2, ?_, ?_⟩
    · simpa [core, blockStart, headG, G.push, headVals, hsh] using hb'
    · first
        | (obtain ⟨-, -, rfl⟩ := h
           simp [core, blockEnd, blockStart, headG, G.push, headVals, exitVals, hsh, hs0, i1, i2, i3, i4])
        | (subst h
           simp [core, blockEnd, blockStart, headG, G.push, headVals, exitVals, hsh, hs0, i1, i2, i3, i4])

set_option linter.unusedSimpArgs false in
theorem emitLoopIf_if (B : G w → G w → Prop)
    (hB : ∀ ps s s' u, eb ps s = .ok (u, s') → B (core s) (core s'))
    (h : emitLoopIf fuse ps false false cond shift be sub eb s = .ok (u, s')) :
    ∃ g2, B (blockStart false (core s)) g2 ∧
      core s' = blockEnd false false cond shift sub (core s) g2 := by
  unfold emitLoopIf at h
  have hf : (!fuse || true || !be) = true := by cases fuse <;> cases be <;> rfl
  cases hsh : sub.hasShift <;> by_cases hs0 : shift = 0
  all_goals
    first
      | have hs0' : (shift != 0) = false := by simp [hs0]
      | have hs0' : (shift != 0) = true := by simp [hs0]
    simp only [hsh, hs0', Bool.not_true, Bool.not_false, hf, ↓reduceIte, Bool.false_eq_true] at h
    simp only [get_bind, modify_bind, pushInst_bind] at h
    rw [bind_ok] at h
    obtain ⟨_, s2, hb, h⟩ := h
    have hb' := hB _ _ _ _ hb
    try simp only [get_bind, modify_bind, pushInst_bind] at h
    simp only [get_bind, modify_bind, pushInst_bind, ite_run, throw_bind, ite_error_ok, set_bind,
      modify_ok] at h
    refine ⟨core s2, ?_, ?_⟩
    · simpa [core, blockStart, G.push] using hb'
    · obtain ⟨-, -, rfl⟩ := h
      simp [core, blockEnd, blockStart, G.push, exitVals, hsh, hs0]

set_option linter.unusedSimpArgs false in
theorem emitLoopIf_scan (once : Bool) (hf : (!fuse || false || !be) = false)
    (h : emitLoopIf fuse ps true once cond shift be sub eb s = .ok (u, s')) :
    core s' = scanEnd cond shift sub once (core s) := by
  unfold emitLoopIf at h
  cases once <;> cases hsh : sub.hasShift
  all_goals
    simp only [hsh, Bool.not_true, Bool.not_false, hf, ↓reduceIte, Bool.false_eq_true] at h
    simp only [get_bind, modify_bind, pushInst_bind, modify_ok, pure_ok] at h
    first
      | (subst h; simp [core, scanEnd, headG, G.push, headVals, exitVals, hsh])
      | (obtain ⟨-, rfl⟩ := h; simp [core, scanEnd, headG, G.push, headVals, exitVals, hsh])

end

/-! ### the analysis of the sub-blocks -/

def subOf (shift : Int) (body : List (Ir.Instr w)) : Analysis :=
  (analyzeInsts body Analysis.empty).close shift

/-- The list `anal.sub_anal` consumed by `emit_block`. -/
def subsOf : List (Ir.Instr w) → List Analysis
  | [] => []
  | .loop _ shift body _ :: rest => subOf shift body :: subsOf rest
  | .ifnz _ shift body :: rest => subOf shift body :: subsOf rest
  | .output _ :: rest => subsOf rest
  | .input _ :: rest => subsOf rest
  | .calc _ :: rest => subsOf rest

theorem accessed_subAnal (a : Analysis) (v : Int) : (a.accessed v).subAnal = a.subAnal := by
  unfold Analysis.accessed
  dsimp only
  split <;> split <;> rfl

theorem written_subAnal (a : Analysis) (v : Int) : (a.written v).subAnal = a.subAnal := by
  unfold Analysis.written
  dsimp only
  split
  · exact accessed_subAnal a v
  · exact accessed_subAnal a v

theorem foldl_accessed_subAnal (l : List Int) (a : Analysis) :
    (l.foldl Analysis.accessed a).subAnal = a.subAnal := by
  induction l generalizing a with
  | nil => rfl
  | cons v l ih => simp only [List.foldl_cons, ih, accessed_subAnal]

theorem foldl_written_subAnal (l : List Int) (a : Analysis) :
    (l.foldl Analysis.written a).subAnal = a.subAnal := by
  induction l generalizing a with
  | nil => rfl
  | cons v l ih => simp only [List.foldl_cons, ih, written_subAnal]

theorem calc_subAnal (calcs : List (Int × Expr w)) (a : Analysis) : (a.calc calcs).subAnal = a.subAnal := by
  unfold Analysis.calc
  induction calcs generalizing a with
  | nil => rfl
  | cons ve calcs ih => simp only [List.foldl_cons, ih, written_subAnal, foldl_accessed_subAnal]

theorem absorb_subAnal (a : Analysis) (cond : Int) (sub : Analysis) :
    (a.absorb cond sub).subAnal = a.subAnal ++ [sub] := by
  unfold Analysis.absorb
  dsimp only
  split
  · simp only [accessed_subAnal]
  · split
    · simp only [foldl_written_subAnal, accessed_subAnal]
    · simp only [accessed_subAnal]

theorem analyzeInsts_subAnal : ∀ (l : List (Ir.Instr w)) (a : Analysis),
    (analyzeInsts l a).subAnal = a.subAnal ++ subsOf l := by
  intro l
  induction l with
  | nil => intro a; simp [analyzeInsts, subsOf]
  | cons i rest ih =>
    intro a
    rw [analyzeInsts, ih]
    cases i with
    | output src => simp only [analyzeInstr, accessed_subAnal, subsOf]
    | input dst => simp only [analyzeInstr, written_subAnal, subsOf]
    | «calc» calcs => simp only [analyzeInstr, calc_subAnal, subsOf]
    | loop cond shift body once =>
      simp only [analyzeInstr, absorb_subAnal, subsOf, subOf, List.append_assoc, List.singleton_append]
    | ifnz cond shift body =>
      simp only [analyzeInstr, absorb_subAnal, subsOf, subOf, List.append_assoc, List.singleton_append]

theorem close_subAnal (a : Analysis) (shift : Int) : (a.close shift).subAnal = a.subAnal := by
  unfold Analysis.close; split <;> rfl

theorem subOf_subAnal (shift : Int) (body : List (Ir.Instr w)) :
    (subOf shift body).subAnal = subsOf body := by
  unfold subOf
  rw [close_subAnal, analyzeInsts_subAnal]
  rfl

theorem analyze_subAnal (b : Ir.Block w) : (analyze b).subAnal = subsOf b.insts := by
  unfold analyze
  rw [close_subAnal, analyzeInsts_subAnal]
  rfl

/-! ### the certificate -/

inductive Em (fuse : Bool) : List (Ir.Instr w) → G w → G w → Prop
  | nil (g : G w) : Em fuse [] g g
  | output {src : Int} {rest : List (Ir.Instr w)} {g g' : G w} :
      Em fuse rest (g.push (.out src)) g' → Em fuse (.output src :: rest) g g'
  | input {dst : Int} {rest : List (Ir.Instr w)} {g g' : G w} :
      Em fuse rest { g.push (.inp dst) with values := alErase g.values (.mem dst) } g' →
      Em fuse (.input dst :: rest) g g'
  | calc {calcs : List (Int × Expr w)} {rest : List (Ir.Instr w)} {g g1 g' : G w} :
      (WfV g → Seg (calcs.map (·.1)) (fun st => Ir.doCalc st calcs) g g1) → Em fuse rest g1 g' →
      Em fuse (.calc calcs :: rest) g g'
  | scan {cond shift : Int} {once : Bool} {rest : List (Ir.Instr w)} {g g' : G w} :
      fuse = true → Em fuse rest (scanEnd cond shift (subOf shift ([] : List (Ir.Instr w))) once g) g' →
      Em fuse (.loop cond shift [] once :: rest) g g'
  | loop {cond shift : Int} {body : List (Ir.Instr w)} {once : Bool} {rest : List (Ir.Instr w)}
      {g g2 g' : G w} :
      (fuse && body.isEmpty) = false →
      Em fuse body (blockStart once (headG true (subOf shift body) g)) g2 →
      Em fuse rest (blockEnd true once cond shift (subOf shift body) (headG true (subOf shift body) g) g2) g' →
      Em fuse (.loop cond shift body once :: rest) g g'
  | ifnz {cond shift : Int} {body : List (Ir.Instr w)} {rest : List (Ir.Instr w)} {g g2 g' : G w} :
      Em fuse body (blockStart false g) g2 →
      Em fuse rest (blockEnd false false cond shift (subOf shift body) g g2) g' →
      Em fuse (.ifnz cond shift body :: rest) g g'

mutual
def isz : Ir.Instr w → Nat
  | .loop _ _ body _ => 2 + iszL body
  | .ifnz _ _ body => 2 + iszL body
  | .output _ => 1
  | .input _ => 1
  | .calc _ => 1
def iszL : List (Ir.Instr w) → Nat
  | [] => 0
  | i :: is => isz i + iszL is
end

theorem em_of_emitInsts (fuse : Bool) : ∀ (n : Nat) (l : List (Ir.Instr w)), iszL l ≤ n →
    ∀ (ps : Nat) (s s' : St w) (u : Unit),
    emitInsts fuse ps l (subsOf l) s = .ok (u, s') → Em fuse l (core s) (core s') := by
  intro n
  induction n with
  | zero =>
    intro l hl ps s s' u h
    cases l with
    | nil =>
      simp only [emitInsts, pure_ok] at h
      rw [h.2]; exact Em.nil _
    | cons i rest => cases i <;> simp [iszL, isz] at hl <;> omega
  | succ n ih =>
    intro l hl ps s s' u h
    cases l with
    | nil =>
      simp only [emitInsts, pure_ok] at h
      rw [h.2]; exact Em.nil _
    | cons i rest =>
      rw [emitInsts, bind_ok] at h
      obtain ⟨an', s1, h1, h2⟩ := h
      cases i with
      | output src =>
        simp only [emitInstr, bind_ok, pushInst_ok, pure_ok] at h1
        obtain ⟨_, s2, rfl, rfl, rfl⟩ := h1
        simp only [iszL, isz] at hl
        exact Em.output (ih rest (by omega) ps _ _ _ h2)
      | input dst =>
        simp only [emitInstr, bind_ok, modify_ok, pure_ok] at h1
        obtain ⟨_, s2, rfl, rfl, rfl⟩ := h1
        simp only [iszL, isz] at hl
        exact Em.input (ih rest (by omega) ps _ _ _ h2)
      | «calc» calcs =>
        simp only [emitInstr, bind_ok, pure_ok] at h1
        obtain ⟨vals, s2, hc, _, s3, hm, rfl, rfl⟩ := h1
        simp only [iszL, isz] at hl
        exact Em.calc (fun hw => calc_seg hc hm hw) (ih rest (by omega) ps _ _ _ h2)
      | loop cond shift body once =>
        simp only [subsOf, emitInstr, bind_ok, pure_ok] at h1
        obtain ⟨_, s2, hl1, rfl, rfl⟩ := h1
        simp only [iszL, isz] at hl
        rw [subOf_subAnal] at hl1
        have hrest := ih rest (by omega) ps _ _ _ h2
        cases hf : (fuse && body.isEmpty) with
        | false =>
          have hf' : (!fuse || false || !body.isEmpty) = true := by
            cases fuse <;> cases hb : body.isEmpty <;> simp_all
          obtain ⟨g2, hb2, hc⟩ := emitLoopIf_loop (Em fuse body)
            (fun ps s s' u h => ih body (by omega) ps s s' u h) once hf' hl1
          rw [hc] at hrest
          exact Em.loop hf hb2 hrest
        | true =>
          have hfu : fuse = true := by cases fuse <;> simp_all
          have hbe : body = [] := by
            cases body with
            | nil => rfl
            | cons _ _ => simp [hfu] at hf
          subst hbe
          have hf' : (!fuse || false || !([] : List (Ir.Instr w)).isEmpty) = false := by simp [hfu]
          have hc := emitLoopIf_scan once hf' hl1
          rw [hc] at hrest
          exact Em.scan hfu hrest
      | ifnz cond shift body =>
        simp only [subsOf, emitInstr, bind_ok, pure_ok] at h1
        obtain ⟨_, s2, hl1, rfl, rfl⟩ := h1
        simp only [iszL, isz] at hl
        rw [subOf_subAnal] at hl1
        have hrest := ih rest (by omega) ps _ _ _ h2
        obtain ⟨g2, hb2, hc⟩ := emitLoopIf_if (Em fuse body)
          (fun ps s s' u h => ih body (by omega) ps s s' u h) hl1
        rw [hc] at hrest
        exact Em.ifnz hb2 hrest

theorem em_of_emitState {prog : Ir.Block w} {fuse : Bool} {s : St w} (h : emitState prog fuse = .ok s) :
    Em fuse prog.insts ⟨#[], [], #[], 0⟩ (core s) := by
  unfold emitState at h
  rw [analyze_subAnal] at h
  cases hr : (emitInsts fuse 0 prog.insts (subsOf prog.insts)).run ({} : St w) with
  | error e => rw [hr] at h; cases h
  | ok p =>
    obtain ⟨u, s1⟩ := p
    rw [hr] at h
    cases h
    exact em_of_emitInsts fuse _ prog.insts (Nat.le_refl _) 0 {} s u hr

end C02Emit
end Hpbf
