/-
Offsets of optimized IR for the REPAIRED optimizer `OptFix.optimizeF` (port of `Props/C10Opt.lean` §2–3 and of
the tail of `Proofs/OptOffsMain.lean`).

`OptFix.optimizeOnceF` is `Opt.optimizeOnce` followed by a repair of the recorded ANALYSIS only
(`OptFix.fixClob`): the produced block is the one of `optimizeOnce`, so every proof is the old one with the
unfolding lemmas of `Proofs/OptRbFix1.lean` (`optimizeOnceF_ok`, `optimizeRoundsF_succ_ok`,
`optimizeRoundsF_zero_ok`, `optimizeF_ok_iff`, `optimizeMF_succ`, `optimizeMF_zero`) swapped in.

Theorems (`Hpbf.OptOffs`):
* `optimizeF_ok` / `optimizeF_keeps_bound`   any bound `R` on `drift + |offset|` of the input holds for the output;
* `optimizeF_reach`                          `reach b' ≤ reach b`;
* `optimizeF_tags`, `optimizeF_offsets`, `optimizeF_irOffs`
* `optimizeF_shift`                          `b' = b ∨ b'.shift = 0`;
* `optimizedF_offsets_le_length`, `optimizedF_window_le_length`, `optimizedF_window_le_moves`,
  `optimizedF_shift_le_length`               for `parse src = .ok b`.
-/
import Hpbf.Proofs.OptOffsMain
import Hpbf.Proofs.OptOffsParse
import Hpbf.Proofs.OptOffsWindow
import Hpbf.Proofs.OptRbFix1
import Hpbf.Proofs.C11LocalEmit

namespace Hpbf.OptOffs
open Hpbf Opt Ir

variable {w : Nat}

/-! ### `Local.irOffsL` is `Ir.offsets` (local copy of `irOffsL_eq` of `Props/C10Opt.lean`) -/

mutual
theorem irOffsF_eq : ∀ (i : Instr w), C02.Local.irOffs i = i.offsets
  | .output _ => rfl
  | .input _ => rfl
  | .calc _ => rfl
  | .loop c _ body _ => by rw [C02.Local.irOffs, Instr.offsets, irOffsLF_eq body]
  | .ifnz c _ body => by rw [C02.Local.irOffs, Instr.offsets, irOffsLF_eq body]
theorem irOffsLF_eq : ∀ (l : List (Instr w)), C02.Local.irOffsL l = offsets l
  | [] => rfl
  | i :: r => by rw [C02.Local.irOffsL, offsets, irOffsF_eq i, irOffsLF_eq r]
end

/-! ### one round, the rounds, the whole optimizer -/

theorem optimizeOnceF_okL {R : Nat} {b b' : Block w} {anal anal' : OptAnalysis w} {os os' : Orders}
    (hb : OkL R 0 b.insts) (h : (OptFix.optimizeOnceF b anal).run os = .ok ((b', anal'), os')) :
    OkL R 0 b'.insts := by
  obtain ⟨a0, h1, _⟩ := OptProof.optimizeOnceF_ok.1 h
  exact optimizeOnce_ok hb h1

theorem optimizeRoundsF_okL {R : Nat} : ∀ (n : Nat) (b b' : Block w) (anal : OptAnalysis w) (os os' : Orders),
    OkL R 0 b.insts → (OptFix.optimizeRoundsF n b anal).run os = .ok (b', os') → OkL R 0 b'.insts := by
  intro n
  induction n with
  | zero =>
    intro b b' anal os os' hb h
    rw [(OptProof.optimizeRoundsF_zero_ok.1 h).1]; exact hb
  | succ n ih =>
    intro b b' anal os os' hb h
    obtain ⟨b1, b2, anal2, os2, h1, h3, h4⟩ := OptProof.optimizeRoundsF_succ_ok.1 h
    exact ih _ _ _ _ _ (optimizeOnceF_okL (dse_ok hb h1) h3) h4

/-- **Main invariant** for `optimizeF`: whatever bound the input respects, the optimized block respects it. -/
theorem optimizeF_ok {R : Nat} {b b' : Block w} {level : Nat} {orders : Orders} (hb : OkL R 0 b.insts)
    (h : OptFix.optimizeF b level orders = .ok b') : OkL R 0 b'.insts := by
  have hrun := OptProof.optimizeF_ok_iff.1 h
  cases level with
  | zero =>
    rw [OptProof.optimizeMF_zero] at hrun
    simp only [run_pure, Except.ok.injEq, Prod.mk.injEq] at hrun
    rw [← hrun.1]; exact hb
  | succ n =>
    rw [OptProof.optimizeMF_succ, run_bind_ok] at hrun
    obtain ⟨⟨b1, anal1⟩, os1, h1, h2⟩ := hrun
    exact optimizeRoundsF_okL _ _ _ _ _ _ (optimizeOnceF_okL hb h1) h2

/-- `reach` never grows (any level, any oracle). -/
theorem optimizeF_reach {b b' : Block w} {level : Nat} {orders : Orders}
    (h : OptFix.optimizeF b level orders = .ok b') : reach b' ≤ reach b :=
  okL_iff_reach.1 (optimizeF_ok (okL_reach b) h)

/-! ### the shift of the top-level block -/

theorem optimizeOnceF_shift {b b' : Block w} {anal anal' : OptAnalysis w} {os os' : Orders}
    (h : (OptFix.optimizeOnceF b anal).run os = .ok ((b', anal'), os')) : b'.shift = 0 := by
  obtain ⟨a0, h1, _⟩ := OptProof.optimizeOnceF_ok.1 h
  exact optimizeOnce_shift h1

theorem optimizeRoundsF_shift : ∀ (n : Nat) (b b' : Block w) (anal : OptAnalysis w) (os os' : Orders),
    b.shift = 0 → (OptFix.optimizeRoundsF n b anal).run os = .ok (b', os') → b'.shift = 0 := by
  intro n
  induction n with
  | zero =>
    intro b b' anal os os' hb h
    rw [(OptProof.optimizeRoundsF_zero_ok.1 h).1]; exact hb
  | succ n ih =>
    intro b b' anal os os' _ h
    obtain ⟨b1, b2, anal2, os2, _, h3, h4⟩ := OptProof.optimizeRoundsF_succ_ok.1 h
    exact ih _ _ _ _ _ (optimizeOnceF_shift h3) h4

/-- The optimized block is the input (level 0) or has shift 0. -/
theorem optimizeF_shift {b b' : Block w} {level : Nat} {orders : Orders}
    (h : OptFix.optimizeF b level orders = .ok b') : b' = b ∨ b'.shift = 0 := by
  have hrun := OptProof.optimizeF_ok_iff.1 h
  cases level with
  | zero =>
    rw [OptProof.optimizeMF_zero] at hrun
    simp only [run_pure, Except.ok.injEq, Prod.mk.injEq] at hrun
    exact Or.inl hrun.1.symm
  | succ n =>
    rw [OptProof.optimizeMF_succ, run_bind_ok] at hrun
    obtain ⟨⟨b1, anal1⟩, os1, h1, h2⟩ := hrun
    exact Or.inr (optimizeRoundsF_shift _ _ _ _ _ _ (optimizeOnceF_shift h1) h2)

/-! ## 2. the repaired optimizer never exceeds the bound of its input -/

/-- Every mention `(drift, offset)` of the optimized block has `drift + |offset| ≤ reach b`. -/
theorem optimizeF_tags {b b' : Block w} {level : Nat} {orders : Orders}
    (h : OptFix.optimizeF b level orders = .ok b') : ∀ p ∈ tagL 0 b'.insts, p.1 + p.2.natAbs ≤ reach b :=
  okL_iff_reach.2 (optimizeF_reach h)

/-- Every offset mentioned in the optimized block is within the bound of the input. -/
theorem optimizeF_offsets {b b' : Block w} {level : Nat} {orders : Orders}
    (h : OptFix.optimizeF b level orders = .ok b') : ∀ o ∈ offsets b'.insts, o.natAbs ≤ reach b :=
  fun o ho => Nat.le_trans (offsets_le_reach b' o ho) (optimizeF_reach h)

/-- The same for `Local.irOffsL`. -/
theorem optimizeF_irOffs {b b' : Block w} {level : Nat} {orders : Orders}
    (h : OptFix.optimizeF b level orders = .ok b') : ∀ o ∈ C02.Local.irOffsL b'.insts, o.natAbs ≤ reach b := by
  rw [irOffsLF_eq]; exact optimizeF_offsets h

/-- The general form: ANY bound `R` on `drift + |offset|` of the input holds for the output. -/
theorem optimizeF_keeps_bound {R : Nat} {b b' : Block w} {level : Nat} {orders : Orders}
    (hb : ∀ p ∈ tagL 0 b.insts, p.1 + p.2.natAbs ≤ R) (h : OptFix.optimizeF b level orders = .ok b') :
    ∀ p ∈ tagL 0 b'.insts, p.1 + p.2.natAbs ≤ R := optimizeF_ok hb h

/-- One repaired rebuild round, separately. -/
theorem optimizeOnceF_reach {b b' : Block w} {anal anal' : OptAnalysis w} {os os' : Orders}
    (h : (OptFix.optimizeOnceF b anal).run os = .ok ((b', anal'), os')) : reach b' ≤ reach b :=
  okL_iff_reach.1 (optimizeOnceF_okL (okL_reach b) h)

/-! ## 3. C10: the margin "length of the program" suffices for code optimized by `optimizeF` -/

theorem optimizedF_offsets_le_length {src : List Kind} {b b' : Block w} {level : Nat} {orders : Orders}
    (hp : parse (w := w) src = .ok b) (h : OptFix.optimizeF b level orders = .ok b') :
    (∀ o ∈ C02.Local.irOffsL b'.insts, o.natAbs ≤ moves src) ∧
    (∀ o ∈ C02.Local.irOffsL b'.insts, o.natAbs ≤ src.length) := by
  have h1 : ∀ o ∈ C02.Local.irOffsL b'.insts, o.natAbs ≤ moves src :=
    fun o ho => Nat.le_trans (optimizeF_irOffs h o ho) (parse_reach_le_moves hp)
  exact ⟨h1, fun o ho => Nat.le_trans (h1 o ho) (C10.moves_le_length src)⟩

/-- The access window that `BcGen.analyze` computes for the block optimized by `optimizeF` lies within
`[-length, length]`. -/
theorem optimizedF_window_le_length {src : List Kind} {b b' : Block w} {level : Nat} {orders : Orders}
    (hp : parse (w := w) src = .ok b) (h : OptFix.optimizeF b level orders = .ok b') :
    -(src.length : Int) ≤ (BcGen.analyze b').minAcc ∧ (BcGen.analyze b').maxAcc ≤ (src.length : Int) := by
  apply analyze_tight b' _ _ ⟨by omega, by omega⟩
  intro o ho
  rw [← irOffsLF_eq] at ho
  have := (optimizedF_offsets_le_length hp h).2 o ho
  omega

/-- The sharper form with the number of moves. -/
theorem optimizedF_window_le_moves {src : List Kind} {b b' : Block w} {level : Nat} {orders : Orders}
    (hp : parse (w := w) src = .ok b) (h : OptFix.optimizeF b level orders = .ok b') :
    -(moves src : Int) ≤ (BcGen.analyze b').minAcc ∧ (BcGen.analyze b').maxAcc ≤ (moves src : Int) := by
  apply analyze_tight b' _ _ ⟨by omega, by omega⟩
  intro o ho
  rw [← irOffsLF_eq] at ho
  have := (optimizedF_offsets_le_length hp h).1 o ho
  omega

/-- The final shift of the top-level block optimized by `optimizeF`. -/
theorem optimizedF_shift_le_length {src : List Kind} {b b' : Block w} {level : Nat} {orders : Orders}
    (hp : parse (w := w) src = .ok b) (h : OptFix.optimizeF b level orders = .ok b') :
    b'.shift.natAbs ≤ src.length := by
  rcases optimizeF_shift h with e | e
  · rw [e]
    have h1 := (C10.parse_bd hp).1
    have h2 := C10.moves_le_length src
    unfold C10.Bd at h1
    omega
  · rw [e]; exact Nat.zero_le _

end Hpbf.OptOffs

#print axioms Hpbf.OptOffs.optimizeF_ok
#print axioms Hpbf.OptOffs.optimizeF_keeps_bound
#print axioms Hpbf.OptOffs.optimizeF_reach
#print axioms Hpbf.OptOffs.optimizeF_tags
#print axioms Hpbf.OptOffs.optimizeF_offsets
#print axioms Hpbf.OptOffs.optimizeF_irOffs
#print axioms Hpbf.OptOffs.optimizeF_shift
#print axioms Hpbf.OptOffs.optimizedF_offsets_le_length
#print axioms Hpbf.OptOffs.optimizedF_window_le_length
#print axioms Hpbf.OptOffs.optimizedF_window_le_moves
#print axioms Hpbf.OptOffs.optimizedF_shift_le_length
