/-
Basic facts about the data of the dead store elimination pass: the sets, the `DState` operations,
`calcScan`, `absorbSub`, unfolding of `elimInsts`, index arithmetic.
-/
import Hpbf.Proofs.C01DseDefs

namespace Hpbf
namespace C01Dse
open Ir OptDse

variable {w : Nat}

/-! ### sets -/

theorem mem_sins {s : List Int} {v x : Int} : x ∈ sins s v ↔ x = v ∨ x ∈ s := by
  unfold sins
  split
  · rename_i h
    have hv : v ∈ s := by simpa using h
    constructor
    · intro hx; exact Or.inr hx
    · rintro (rfl | hx)
      · exact hv
      · exact hx
  · simp

theorem mem_srem {s : List Int} {v x : Int} : x ∈ srem s v ↔ x ∈ s ∧ x ≠ v := by
  unfold srem
  simp

theorem contains_iff {s : List Int} {v : Int} : s.contains v = true ↔ v ∈ s := by simp

theorem contains_false_iff {s : List Int} {v : Int} : s.contains v = false ↔ v ∉ s := by simp

/-! ### `DState` operations -/

@[simp] theorem read_reads (s : DState) (v : Int) : (s.read v).reads = sins s.reads v := rfl
@[simp] theorem read_written (s : DState) (v : Int) : (s.read v).written = srem s.written v := rfl
@[simp] theorem read_hadShift (s : DState) (v : Int) : (s.read v).hadShift = s.hadShift := rfl
@[simp] theorem read_anal (s : DState) (v : Int) : (s.read v).anal = s.anal := rfl
@[simp] theorem read_shift (s : DState) (v : Int) : (s.read v).shift = s.shift := rfl
@[simp] theorem write_reads (s : DState) (v : Int) : (s.write v).reads = srem s.reads v := rfl
@[simp] theorem write_written (s : DState) (v : Int) : (s.write v).written = sins s.written v := rfl
@[simp] theorem write_hadShift (s : DState) (v : Int) : (s.write v).hadShift = s.hadShift := rfl
@[simp] theorem write_anal (s : DState) (v : Int) : (s.write v).anal = s.anal := rfl
@[simp] theorem write_shift (s : DState) (v : Int) : (s.write v).shift = s.shift := rfl

@[simp] theorem readAll_nil (s : DState) : readAll s [] = s := rfl
@[simp] theorem readAll_cons (s : DState) (v : Int) (vs : List Int) :
    readAll s (v :: vs) = readAll (s.read v) vs := rfl
@[simp] theorem writeAll_nil (s : DState) : writeAll s [] = s := rfl
@[simp] theorem writeAll_cons (s : DState) (v : Int) (vs : List Int) :
    writeAll s (v :: vs) = writeAll (s.write v) vs := rfl

theorem readAll_append (s : DState) (a b : List Int) : readAll s (a ++ b) = readAll (readAll s a) b := by
  unfold readAll; rw [List.foldl_append]

theorem mem_readAll_reads {s : DState} {vs : List Int} {x : Int} :
    x ∈ (readAll s vs).reads ↔ x ∈ vs ∨ x ∈ s.reads := by
  induction vs generalizing s with
  | nil => simp
  | cons v vs ih =>
    rw [readAll_cons, ih, read_reads, mem_sins, List.mem_cons]
    constructor
    · rintro (h | h | h)
      · exact Or.inl (Or.inr h)
      · exact Or.inl (Or.inl h)
      · exact Or.inr h
    · rintro ((h | h) | h)
      · exact Or.inr (Or.inl h)
      · exact Or.inl h
      · exact Or.inr (Or.inr h)

theorem mem_readAll_written {s : DState} {vs : List Int} {x : Int} :
    x ∈ (readAll s vs).written ↔ x ∈ s.written ∧ x ∉ vs := by
  induction vs generalizing s with
  | nil => simp
  | cons v vs ih =>
    rw [readAll_cons, ih, read_written, mem_srem, List.mem_cons]
    constructor
    · rintro ⟨⟨h1, h2⟩, h3⟩
      exact ⟨h1, fun h => h.elim h2 h3⟩
    · rintro ⟨h1, h2⟩
      exact ⟨⟨h1, fun h => h2 (Or.inl h)⟩, fun h => h2 (Or.inr h)⟩

@[simp] theorem readAll_hadShift (s : DState) (vs : List Int) : (readAll s vs).hadShift = s.hadShift := by
  induction vs generalizing s with
  | nil => rfl
  | cons v vs ih => rw [readAll_cons, ih, read_hadShift]
@[simp] theorem readAll_anal (s : DState) (vs : List Int) : (readAll s vs).anal = s.anal := by
  induction vs generalizing s with
  | nil => rfl
  | cons v vs ih => rw [readAll_cons, ih, read_anal]
@[simp] theorem readAll_shift (s : DState) (vs : List Int) : (readAll s vs).shift = s.shift := by
  induction vs generalizing s with
  | nil => rfl
  | cons v vs ih => rw [readAll_cons, ih, read_shift]

theorem mem_writeAll_written {s : DState} {vs : List Int} {x : Int} :
    x ∈ (writeAll s vs).written ↔ x ∈ vs ∨ x ∈ s.written := by
  induction vs generalizing s with
  | nil => simp
  | cons v vs ih =>
    rw [writeAll_cons, ih, write_written, mem_sins, List.mem_cons]
    constructor
    · rintro (h | h | h)
      · exact Or.inl (Or.inr h)
      · exact Or.inl (Or.inl h)
      · exact Or.inr h
    · rintro ((h | h) | h)
      · exact Or.inr (Or.inl h)
      · exact Or.inl h
      · exact Or.inr (Or.inr h)

theorem mem_writeAll_reads {s : DState} {vs : List Int} {x : Int} :
    x ∈ (writeAll s vs).reads ↔ x ∈ s.reads ∧ x ∉ vs := by
  induction vs generalizing s with
  | nil => simp
  | cons v vs ih =>
    rw [writeAll_cons, ih, write_reads, mem_srem, List.mem_cons]
    constructor
    · rintro ⟨⟨h1, h2⟩, h3⟩
      exact ⟨h1, fun h => h.elim h2 h3⟩
    · rintro ⟨h1, h2⟩
      exact ⟨⟨h1, fun h => h2 (Or.inl h)⟩, fun h => h2 (Or.inr h)⟩

@[simp] theorem writeAll_hadShift (s : DState) (vs : List Int) : (writeAll s vs).hadShift = s.hadShift := by
  induction vs generalizing s with
  | nil => rfl
  | cons v vs ih => rw [writeAll_cons, ih, write_hadShift]
@[simp] theorem writeAll_anal (s : DState) (vs : List Int) : (writeAll s vs).anal = s.anal := by
  induction vs generalizing s with
  | nil => rfl
  | cons v vs ih => rw [writeAll_cons, ih, write_anal]
@[simp] theorem writeAll_shift (s : DState) (vs : List Int) : (writeAll s vs).shift = s.shift := by
  induction vs generalizing s with
  | nil => rfl
  | cons v vs ih => rw [writeAll_cons, ih, write_shift]

theorem writeAll_append (s : DState) (a b : List Int) : writeAll s (a ++ b) = writeAll (writeAll s a) b := by
  unfold writeAll; rw [List.foldl_append]

theorem foldl_readAll_eq {α : Type} (f : α → List Int) (l : List α) (s : DState) :
    l.foldl (fun s c => readAll s (f c)) s = readAll s (l.flatMap f) := by
  induction l generalizing s with
  | nil => rfl
  | cons a l ih => rw [List.foldl_cons, ih, List.flatMap_cons, readAll_append]

/-! ### `absorbSub` -/

theorem absorb_hadShift (s sub : DState) (A : DAnal) (cond : Int) :
    (absorbSub s sub A cond).hadShift = (s.hadShift || A.hasShift) := by
  unfold absorbSub
  cases hA : A.hasShift <;> cases hL : A.atLeastOnce <;> simp

@[simp] theorem absorb_anal (s sub : DState) (A : DAnal) (cond : Int) :
    (absorbSub s sub A cond).anal = s.anal := by
  unfold absorbSub
  cases hA : A.hasShift <;> cases hL : A.atLeastOnce <;> simp

@[simp] theorem absorb_shift (s sub : DState) (A : DAnal) (cond : Int) :
    (absorbSub s sub A cond).shift = s.shift := by
  unfold absorbSub
  cases hA : A.hasShift <;> cases hL : A.atLeastOnce <;> simp

theorem mem_absorb_written {s sub : DState} {A : DAnal} {cond x : Int} :
    x ∈ (absorbSub s sub A cond).written ↔
      x ≠ cond ∧ x ∉ sub.reads ∧
        ((A.atLeastOnce = true ∧ x ∈ sub.written) ∨ (A.hasShift = false ∧ x ∈ s.written)) := by
  unfold absorbSub
  cases hA : A.hasShift <;> cases hL : A.atLeastOnce <;>
    simp [mem_srem, mem_readAll_written, mem_writeAll_written] <;> grind

theorem mem_absorb_reads {s sub : DState} {A : DAnal} {cond x : Int} :
    x ∈ (absorbSub s sub A cond).reads ↔
      x = cond ∨ x ∈ sub.reads ∨
        (A.hasShift = false ∧ x ∈ s.reads ∧ ¬ (A.atLeastOnce = true ∧ x ∈ sub.written)) := by
  unfold absorbSub
  cases hA : A.hasShift <;> cases hL : A.atLeastOnce <;>
    simp [mem_sins, mem_readAll_reads, mem_writeAll_reads]

/-! ### `willBeOverwritten` -/

theorem wbo_nil (s : DState) (v : Int) :
    willBeOverwritten s [] v = true ↔ (v ∈ s.written ∨ (v ∉ s.reads ∧ s.hadShift = false)) := by
  unfold willBeOverwritten
  by_cases h1 : v ∈ s.written
  · simp [h1]
  · by_cases h2 : v ∈ s.reads
    · simp [h1, h2]
    · cases h3 : s.hadShift <;> simp [h1, h2]

theorem wbo_cons (s p : DState) (rest : List DState) (v : Int) :
    willBeOverwritten s (p :: rest) v = true ↔
      (v ∈ s.written ∨ (v ∉ s.reads ∧ s.hadShift = false ∧
        (s.anal.atMostOnce = true ∨ (s.anal.hasShift = false ∧ v ∉ s.anal.reads)) ∧
        willBeOverwritten p rest (v - s.shift) = true)) := by
  rw [willBeOverwritten]
  by_cases h1 : v ∈ s.written
  · simp [h1]
  · by_cases h2 : v ∈ s.reads
    · simp [h1, h2]
    · cases h3 : s.hadShift
      · cases h4 : s.anal.atMostOnce
        · cases h5 : s.anal.hasShift
          · by_cases h6 : v ∈ s.anal.reads <;> simp [h1, h2, h6]
          · simp [h1, h2]
        · simp [h1, h2]
      · simp [h1, h2]

/-! ### `calcScan` -/

theorem calcScan_state (P : List DState) (l : List (Int × Expr w)) (s : DState) (rem : List Int) :
    ∃ ws, (calcScan P l s rem).1 = writeAll s ws ∧ ∀ x ∈ ws, x ∈ l.map Prod.fst := by
  induction l generalizing s rem with
  | nil => exact ⟨[], rfl, by simp⟩
  | cons ve rest ih =>
    obtain ⟨v, e⟩ := ve
    rw [calcScan]
    split
    · obtain ⟨ws, h1, h2⟩ := ih s (sins rem v)
      exact ⟨ws, h1, fun x hx => by simp [h2 x hx]⟩
    · obtain ⟨ws, h1, h2⟩ := ih (s.write v) rem
      refine ⟨v :: ws, h1, fun x hx => ?_⟩
      rcases List.mem_cons.1 hx with rfl | hx
      · simp
      · have := h2 x hx
        simp only [List.map_cons, List.mem_cons]
        exact Or.inr this

/-- A variable that ends up in the removal set was judged `willBeOverwritten` in a state that differs from
the initial one by writes of OTHER targets only (given that targets are not repeated). -/
theorem calcScan_rem (P : List DState) (l : List (Int × Expr w)) (s : DState) (rem : List Int) (v : Int)
    (hv : v ∈ (calcScan P l s rem).2) :
    v ∈ rem ∨ (v ∈ l.map Prod.fst ∧ ∃ ws, (∀ x ∈ ws, x ∈ l.map Prod.fst) ∧
      ((l.map Prod.fst).Nodup → v ∉ ws) ∧ willBeOverwritten (writeAll s ws) P v = true) := by
  induction l generalizing s rem with
  | nil => exact Or.inl hv
  | cons ue rest ih =>
    obtain ⟨u, e⟩ := ue
    rw [calcScan] at hv
    split at hv
    · rename_i hw
      rcases ih s (sins rem u) hv with h | ⟨hm, ws, h1, h2, h3⟩
      · rcases mem_sins.1 h with rfl | h
        · exact Or.inr ⟨by simp, [], by simp, by simp, hw⟩
        · exact Or.inl h
      · refine Or.inr ⟨by simp [hm], ws, fun x hx => by simp [h1 x hx], fun hnd => ?_, h3⟩
        exact h2 (List.nodup_cons.1 hnd).2
    · rcases ih (s.write u) rem hv with h | ⟨hm, ws, h1, h2, h3⟩
      · exact Or.inl h
      · refine Or.inr ⟨by simp [hm], u :: ws, ?_, fun hnd => ?_, h3⟩
        · intro x hx
          rcases List.mem_cons.1 hx with rfl | hx
          · simp
          · have := h1 x hx
            simp only [List.map_cons, List.mem_cons]
            exact Or.inr this
        · have hnd' : u ∉ rest.map Prod.fst ∧ (rest.map Prod.fst).Nodup := List.nodup_cons.1 hnd
          intro hmem
          rcases List.mem_cons.1 hmem with rfl | hmem
          · exact hnd'.1 hm
          · exact h2 hnd'.2 hmem

/-- Conversely: only targets are removed. -/
theorem calcScan_rem_sub (P : List DState) (l : List (Int × Expr w)) (s : DState) (rem : List Int) (v : Int)
    (hv : v ∈ (calcScan P l s rem).2) : v ∈ rem ∨ v ∈ l.map Prod.fst := by
  rcases calcScan_rem P l s rem v hv with h | ⟨h, _⟩
  · exact Or.inl h
  · exact Or.inr h

/-! ### Unfolding the pass -/

theorem elimInsts_nil (P : List DState) (s : DState) (idx : Nat) :
    elimInsts (w := w) P [] s idx = some ([], s, idx) := by
  rw [elimInsts]

theorem elimInsts_cons_some {P : List DState} {i : Instr w} {rest : List (Instr w)} {s : DState} {idx : Nat}
    {r : List (Instr w) × DState × Nat} (h : elimInsts P (i :: rest) s idx = some r) :
    ∃ rest' s1 idx1 i' s0 idx0, elimInsts P rest s idx = some (rest', s1, idx1) ∧
      elimInstr P i s1 idx1 = some (i', s0, idx0) ∧ r = (i' :: rest', s0, idx0) := by
  rw [elimInsts] at h
  split at h
  · exact absurd h (by simp)
  · rename_i rest' s1 idx1 h1
    split at h
    · exact absurd h (by simp)
    · rename_i i' s0 idx0 h2
      refine ⟨rest', s1, idx1, i', s0, idx0, h1, h2, ?_⟩
      simpa using h.symm

theorem elimInsts_cons_of {P : List DState} {i : Instr w} {rest : List (Instr w)} {s : DState} {idx : Nat}
    {rest' : List (Instr w)} {s1 : DState} {idx1 : Nat} {i' : Instr w} {s0 : DState} {idx0 : Nat}
    (h1 : elimInsts P rest s idx = some (rest', s1, idx1))
    (h2 : elimInstr P i s1 idx1 = some (i', s0, idx0)) :
    elimInsts P (i :: rest) s idx = some (i' :: rest', s0, idx0) := by
  rw [elimInsts, h1]
  simp only [h2]

theorem elimInstr_output (P : List DState) (src : Int) (s : DState) (idx : Nat) :
    elimInstr (w := w) P (.output src) s idx = some (.output src, s.read src, idx) := by
  rw [elimInstr]

theorem elimInstr_input (P : List DState) (dst : Int) (s : DState) (idx : Nat) :
    elimInstr (w := w) P (.input dst) s idx = some (.input dst, s.write dst, idx) := by
  rw [elimInstr]

/-- The retained assignments of a `calc`. -/
def keptCalcs (P : List DState) (calcs : List (Int × Expr w)) (s : DState) : List (Int × Expr w) :=
  calcs.filter (fun c => !(calcScan P calcs s []).2.contains c.1)

theorem elimInstr_calc (P : List DState) (calcs : List (Int × Expr w)) (s : DState) (idx : Nat) :
    elimInstr P (.calc calcs) s idx =
      some (.calc (keptCalcs P calcs s),
        readAll (calcScan P calcs s []).1 ((keptCalcs P calcs s).flatMap (fun c => Expr.variables c.2)), idx) := by
  rw [elimInstr]
  simp only [keptCalcs, foldl_readAll_eq]

theorem elimInstr_loop_some {P : List DState} {cond shift : Int} {body : List (Instr w)} {once : Bool}
    {s : DState} {idx : Nat} {r : Instr w × DState × Nat}
    (h : elimInstr P (.loop cond shift body once) s idx = some r) :
    ∃ k A1 body' sub idx1, idx = k + 1 ∧ s.anal.subs[k]? = some A1 ∧
      elimInsts (s.read cond :: P) body (DState.new shift A1) A1.subs.length = some (body', sub, idx1) ∧
      r = (.loop cond shift body' once, absorbSub (s.read cond) sub A1 cond, k) := by
  cases idx with
  | zero => rw [elimInstr] at h; exact absurd h (by simp)
  | succ k =>
    rw [elimInstr] at h
    simp only [read_anal] at h
    split at h
    · exact absurd h (by simp)
    · rename_i A1 hA
      split at h
      · exact absurd h (by simp)
      · rename_i body' sub idx1 hb
        exact ⟨k, A1, body', sub, idx1, rfl, hA, hb, by simpa using h.symm⟩

theorem elimInstr_ifnz_some {P : List DState} {cond shift : Int} {body : List (Instr w)}
    {s : DState} {idx : Nat} {r : Instr w × DState × Nat}
    (h : elimInstr P (.ifnz cond shift body) s idx = some r) :
    ∃ k A1 body' sub idx1, idx = k + 1 ∧ s.anal.subs[k]? = some A1 ∧
      elimInsts (s.read cond :: P) body (DState.new shift A1) A1.subs.length = some (body', sub, idx1) ∧
      r = (.ifnz cond shift body', absorbSub (s.read cond) sub A1 cond, k) := by
  cases idx with
  | zero => rw [elimInstr] at h; exact absurd h (by simp)
  | succ k =>
    rw [elimInstr] at h
    simp only [read_anal] at h
    split at h
    · exact absurd h (by simp)
    · rename_i A1 hA
      split at h
      · exact absurd h (by simp)
      · rename_i body' sub idx1 hb
        exact ⟨k, A1, body', sub, idx1, rfl, hA, hb, by simpa using h.symm⟩

theorem elimInstr_loop_of {P : List DState} {cond shift : Int} {body : List (Instr w)} {once : Bool}
    {s : DState} {k : Nat} {A1 : DAnal} {body' : List (Instr w)} {sub : DState} {idx1 : Nat}
    (hA : s.anal.subs[k]? = some A1)
    (hb : elimInsts (s.read cond :: P) body (DState.new shift A1) A1.subs.length = some (body', sub, idx1)) :
    elimInstr P (.loop cond shift body once) s (k + 1) =
      some (.loop cond shift body' once, absorbSub (s.read cond) sub A1 cond, k) := by
  rw [elimInstr]
  simp only [read_anal, hA, hb]

theorem elimInstr_ifnz_of {P : List DState} {cond shift : Int} {body : List (Instr w)}
    {s : DState} {k : Nat} {A1 : DAnal} {body' : List (Instr w)} {sub : DState} {idx1 : Nat}
    (hA : s.anal.subs[k]? = some A1)
    (hb : elimInsts (s.read cond :: P) body (DState.new shift A1) A1.subs.length = some (body', sub, idx1)) :
    elimInstr P (.ifnz cond shift body) s (k + 1) =
      some (.ifnz cond shift body', absorbSub (s.read cond) sub A1 cond, k) := by
  rw [elimInstr]
  simp only [read_anal, hA, hb]

end C01Dse
end Hpbf
