/-
Rebuild-round proofs, stage 4: rounds that USE the analysis of the previous round.

* `BlockIn`, `AnalInI`, `AnalInL`: the semantic soundness of a previous analysis for the SOURCE program of a round,
  relative to a guard `G` on the states in which the code is entered (what really occurs): a block whose node says
  `atMostOnce` runs at most once; in a block whose node says neither `atMostOnce` nor `hasShift`, the heads keep the
  pointer and the cells outside `clobbered` keep the values they had when the block was entered.
* `entry_anal`: the entry relation of a nested block whose fresh state carries an analysis node: everything the
  child may ask its parent is true of the memory at the head, because the askable cells still hold their
  block-entry values.
-/
import Hpbf.Proofs.OptRbEntry

namespace Hpbf
namespace OptProof
open Opt OptSem Ir

variable {w : Nat}

/-- The states in which the body of a block is entered (loop heads with non-zero condition), from guarded states. -/
def HeadG (G : State w → Prop) (isLoop : Bool) (c sh : Int) (body : List (Instr w)) : State w → Prop :=
  fun σ' => σ'.rd c ≠ 0#w ∧ ∃ σ, G σ ∧ if isLoop then ∃ k, Head c sh body σ k σ' else σ' = σ

/-- The states after a piece of code, from guarded states. -/
def AfterG (G : State w → Prop) (l : List (Instr w)) : State w → Prop :=
  fun σ' => ∃ σ, G σ ∧ Exec l σ (.fin σ')

/-- Soundness of one analysis node for a block entered from states satisfying `G`. -/
structure BlockIn (G : State w → Prop) (isLoop : Bool) (c sh : Int) (body : List (Instr w))
    (A : OptAnalysis w) : Prop where
  amo : A.loopAnal.atMostOnce = true → isLoop = true → ∀ σ, G σ → σ.rd c ≠ 0#w →
    ∀ a, Exec body σ (.fin a) → (a.mov sh).rd c = 0#w
  clob : A.loopAnal.atMostOnce = false → A.hasShift = false → isLoop = true → ∀ σ, G σ →
    ∀ k σk, Head c sh body σ k σk → σk.ptr = σ.ptr ∧ ∀ x, A.clobbered.contains x = false → σk.rd x = σ.rd x

mutual
/-- Soundness of the node paired with a block, and of the nodes below it. -/
def AnalInI (G : State w → Prop) : Instr w → OptAnalysis w → Prop
  | .loop c sh body _, A => BlockIn G true c sh body A ∧ AnalInL (HeadG G true c sh body) body A.subBlocks
  | .ifnz c sh body, A => BlockIn G false c sh body A ∧ AnalInL (HeadG G false c sh body) body A.subBlocks
  | _, _ => True
/-- Soundness of the nodes `subs` for the blocks of the list, in order (as they are popped). -/
def AnalInL (G : State w → Prop) : List (Instr w) → List (OptAnalysis w) → Prop
  | [], _ => True
  | i :: rest, subs =>
    if C01Dse.isBlock i then
      (match subs with
       | A :: subs' => AnalInI G i A ∧ AnalInL (AfterG G [i]) rest subs'
       | [] => True)
    else AnalInL (AfterG G [i]) rest subs
end

/-- The fresh state of a nested block with an analysis node. -/
def freshChildA (sh : Int) (cond : Int) (A : OptAnalysis w) : Rebuild w :=
  reverseSubBlocks (Rebuild.new sh (some cond) .parent (some A))

theorem canAsk_freshChildA (sh cond : Int) (A : OptAnalysis w) (v : Int) :
    canAskParentFor (freshChildA sh cond A) v =
      (A.loopAnal.atMostOnce || (!A.clobbered.contains (v - sh) && !A.hasShift)) := by
  cases A with
  | mk la hs rd cl subs => simp [freshChildA, reverseSubBlocks, Rebuild.new, canAskParentFor,
      OptAnalysis.setSubBlocks, OptAnalysis.loopAnal, OptAnalysis.clobbered, OptAnalysis.hasShift]

/-- The entry relation of a nested block with an analysis node, at a head whose askable cells hold their
block-entry values. -/
theorem entry_anal {s : Rebuild w} {ps : List (Rebuild w)} (hcs : CanonSt s) (A : OptAnalysis w) {cS : Int}
    {M0p : Mem w} {σEp σSp σk : State w} (hrelP : RelAt s.shift s ps M0p σEp σSp)
    (hptr : σk.ptr = σSp.ptr)
    (hag : ∀ v, canAskParentFor (freshChildA s.shift (cS + s.shift) A) v = true →
      σk.rd (v - s.shift) = σSp.rd (v - s.shift))
    (hne : σk.rd cS ≠ 0#w) :
    RelAt s.shift (freshChildA s.shift (cS + s.shift) A) (s :: ps) (memE (σk.mov (-s.shift)))
      (σk.mov (-s.shift)) σk := by
  have hmem : ∀ v, canAskParentFor (freshChildA s.shift (cS + s.shift) A) v = true →
      memE (σk.mov (-s.shift)) v = memS σEp σSp v := by
    intro v hv
    have h1 : memE (σk.mov (-s.shift)) v = σk.rd (v - s.shift) := by
      show σk.tape.get (σk.ptr + -s.shift + v) = σk.tape.get (σk.ptr + (v - s.shift))
      congr 1; omega
    have h2 : memS σEp σSp v = σSp.rd (v - s.shift) := by
      show σSp.tape.get (σEp.ptr + v) = σSp.tape.get (σSp.ptr + (v - s.shift))
      rw [hrelP.ptr]; congr 1; omega
    rw [h1, h2]; exact hag v hv
  have hpar : (freshChildA s.shift (cS + s.shift) A : Rebuild w).parent = .parent := by
    unfold freshChildA; rw [(reverseSubBlocks_fields _).1]; rfl
  have hcondf : (freshChildA s.shift (cS + s.shift) A : Rebuild w).cond = some (cS + s.shift) := by
    unfold freshChildA; rw [(reverseSubBlocks_fields _).2.2.1]; rfl
  have hssf : (freshChildA s.shift (cS + s.shift) A : Rebuild w).subShift = false := by
    unfold freshChildA; rw [(reverseSubBlocks_fields _).2.2.2.1]; rfl
  refine ⟨rfl, rfl, by show σk.ptr = σk.ptr + -s.shift + s.shift; omega, ?_, ?_, ?_, ?_⟩
  · unfold freshChildA; rw [(reverseSubBlocks_fields _).2.2.2.2.1]; rfl
  · have : (freshChildA s.shift (cS + s.shift) A : Rebuild w).pending = [] := by
      unfold freshChildA; rw [(reverseSubBlocks_fields _).2.2.2.2.2.2.2.1]; rfl
    rw [this, par_nil]; rfl
  · intro v
    have : (freshChildA s.shift (cS + s.shift) A : Rebuild w).written = [] := by
      unfold freshChildA; rw [(reverseSubBlocks_fields _).2.2.2.2.2.2.1]; rfl
    rw [this]; rfl
  · refine ⟨?_, ?_, ?_⟩
    · intro v c hc
      unfold getParentConstant at hc
      split at hc
      · rename_i hask
        rw [hpar] at hc
        simp only at hc
        rw [hmem v hask]; exact getConstant_sound hrelP.inv hc
      · cases hc
    · intro v hv
      unfold nonZeroParent at hv
      split at hv
      · rename_i hh
        simp only [Bool.and_eq_true, Bool.not_eq_true', beq_iff_eq] at hh
        rw [hcondf] at hh
        have : v = cS + s.shift := by have := hh.2; cases this; rfl
        rw [this]
        show σk.tape.get (σk.ptr + -s.shift + (cS + s.shift)) ≠ 0#w
        have e : σk.ptr + -s.shift + (cS + s.shift) = σk.ptr + cS := by omega
        rw [e]; exact hne
      · split at hv
        · rename_i hask
          rw [hpar] at hv
          simp only at hv
          rw [hmem v hask]; exact isNonZero_sound hrelP.inv hv
        · cases hv
    · intro a b ha hb hc
      unfold compareParent at hc
      split at hc
      · rename_i hab
        have : a = b := by simpa using hab
        rw [this]
      · split at hc
        · rename_i hall
          rw [hpar] at hc
          simp only at hc
          have hcmp := compare_sound hrelP.inv hcs ha hb hc
          have ea : ev a (memE (σk.mov (-s.shift))) = ev a (memS σEp σSp) := by
            apply ev_congr
            intro v hv
            simp only [List.all_eq_true, List.mem_append] at hall
            exact hmem v (hall v (Or.inl hv))
          have eb : ev b (memE (σk.mov (-s.shift))) = ev b (memS σEp σSp) := by
            apply ev_congr
            intro v hv
            simp only [List.all_eq_true, List.mem_append] at hall
            exact hmem v (hall v (Or.inr hv))
          rw [ea, eb]; exact hcmp
        · simp [pure, Except.pure] at hc

end OptProof
end Hpbf
