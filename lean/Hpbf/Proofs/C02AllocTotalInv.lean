/-
C02 / C13 (`allocate_temps` is total), part 3: the precondition `TotalPre` (what the input must satisfy so that no
lookup of the pass fails) and the additional loop invariant `TInv`.
-/
import Hpbf.Proofs.C02AllocTotalProg
import Hpbf.Proofs.C02AllocSim
set_option linter.unusedSimpArgs false

namespace Hpbf
namespace C02

open Bc BcWf BcGen C11

variable {w : Nat}

/-- The precondition for totality: `AllocPre` and
* `defd`   – a temporary written by an instruction has a first and a last use, after that instruction and inside
             the code (`can_alloc_reg:last_use.unwrap`, `first_use.unwrap`, `alloc_temp:last_use.unwrap`, the
             index `insts[first_use]`);
* `defAt`  – a temporary that is read is written by the instruction at its `created` position;
* `unread` – a temporary with use count `0` is not read (it gets no location);
* `lastLt` – recorded last uses are positions of the code;
* `mono`   – two computations that share an operand and whose first uses are stores reach those stores in the
             order of the computations (otherwise `range_extend_to` shrinks an extension,
             `alloc_shrunk_extension_panics`). -/
structure TotalPre (s : St w) : Prop where
  pre : AllocPre s
  defd : ∀ (i : Nat) (x : Instr w) (t : Nat), s.insts[i]? = some x → dstTmp? x = some t →
    ∃ (r : RangeInfo) (f L : Nat), s.ranges[t]? = some r ∧ r.firstUse = some f ∧ r.lastUse = some L ∧
      i < f ∧ f ≤ L
  defAt : ∀ (j : Nat) (x : Instr w) (t : Nat), s.insts[j]? = some x → t ∈ BcWf.uses x →
    ∃ (r : RangeInfo) (y : Instr w), s.ranges[t]? = some r ∧ s.insts[r.created]? = some y ∧ dstTmp? y = some t
  unread : ∀ (t : Nat) (r : RangeInfo), s.ranges[t]? = some r → r.numUses = 0 →
    ∀ (j : Nat) (x : Instr w), s.insts[j]? = some x → t ∉ BcWf.uses x
  lastLt : ∀ (t : Nat) (r : RangeInfo) (L : Nat), s.ranges[t]? = some r → r.lastUse = some L → L < s.insts.size
  mono : ∀ (i1 : Nat) (op1 : BcGen.Op) (t1 : Nat) (a1 b1 : Loc w) (f1 : Nat) (m1 : Int)
    (i2 : Nat) (op2 : BcGen.Op) (t2 : Nat) (a2 b2 : Loc w) (f2 : Nat) (m2 : Int) (u : Nat),
    Cand s i1 op1 t1 a1 b1 f1 m1 (.tmp t1) → Cand s i2 op2 t2 a2 b2 f2 m2 (.tmp t2) → i1 < i2 →
    (a1 = .tmp u ∨ b1 = .tmp u) → (a2 = .tmp u ∨ b2 = .tmp u) → f1 ≤ f2

namespace Alloc

/-- The additional invariant of the loop (state `a` before round `k`). -/
structure TInv (s : St w) (numRegs k : Nat) (a : ASt w) : Prop where
  /-- every temporary read by an instruction still to be processed and created earlier has a location -/
  complete : ∀ (j : Nat) (x : Instr w) (t : Nat) (r : RangeInfo), k ≤ j → a.st.insts[j]? = some x →
    t ∈ BcWf.uses x → s.ranges[t]? = some r → r.created < k → ∃ l, alGet a.repl t = some l
  /-- the current last use of an operand of a waiting computation is not before it -/
  fusedLast : ∀ (f : Nat) (op : BcGen.Op) (m : Int) (t' : Nat) (s0 s1 : Loc w) (t : Nat),
    Fused s k a f op m t' s0 s1 → (s0 = .tmp t ∨ s1 = .tmp t) →
    ∃ (r : RangeInfo) (L : Nat), a.st.ranges[t]? = some r ∧ r.lastUse = some L ∧ f ≤ L
  heapRange : HeapRange a
  replHeap : ∀ (t : Nat) (l : Loc w), alGet a.repl t = some l → ∃ e, (e, t) ∈ a.nre
  heapBound : ∀ (e t : Nat), (e, t) ∈ a.nre → k ≤ e ∧ e < s.insts.size
  sorted : SortedE a.nre
  freeLt : ∀ r ∈ a.freeRegs, r < numRegs
  rangeLt : ∀ (t : Nat) (r : RangeInfo) (L : Nat), a.st.ranges[t]? = some r → r.lastUse = some L →
    L < s.insts.size

theorem tinv_init {s : St w} (hp : TotalPre s) (numRegs : Nat) : TInv s numRegs 0 (initASt numRegs s) := by
  refine ⟨?_, ?_, ?_, ?_, ?_, List.Pairwise.nil, ?_, hp.lastLt⟩
  · intro j x t r _ _ _ _ hc; omega
  · intro f op m t' s0 s1 t h
    have h1 := h.2.1
    have h2 := h.2.2
    simp only [initASt] at h2
    rw [h1] at h2
    exact absurd (Option.some.inj h2).symm (mkArith_ne_copy _ _ _ _ _ _)
  · intro e t h; simp [initASt] at h
  · intro t l h; simp [initASt, alGet] at h
  · intro e t h; simp [initASt] at h
  · intro r hr
    simpa [initASt] using hr

/-! ### small facts about the phases -/

theorem fuseSrcP_sorted {f : Nat} {atf atf' : List Nat} {l : Loc w} {a a' : ASt w}
    (h : fuseSrcP f atf l a = .ok (atf', a')) (hs : SortedE a.nre) : SortedE a'.nre := by
  cases l with
  | tmp t =>
    simp only [fuseSrcP] at h
    cases he : extendTo a.st.ranges t f with
    | error e => simp [he] at h
    | ok rs =>
      simp only [he] at h
      split at h
      · simp only [Except.ok.injEq, Prod.mk.injEq] at h
        obtain ⟨_, rfl⟩ := h
        exact sortedE_nrePush hs
      · simp only [Except.ok.injEq, Prod.mk.injEq] at h
        obtain ⟨_, rfl⟩ := h
        exact hs
  | mem m => simp only [fuseSrcP, Except.ok.injEq, Prod.mk.injEq] at h; obtain ⟨_, rfl⟩ := h; exact hs
  | memZero m => simp only [fuseSrcP, Except.ok.injEq, Prod.mk.injEq] at h; obtain ⟨_, rfl⟩ := h; exact hs
  | imm c => simp only [fuseSrcP, Except.ok.injEq, Prod.mk.injEq] at h; obtain ⟨_, rfl⟩ := h; exact hs

/-- An operand that was about to be released gets a new heap entry. -/
theorem fuseSrcP_push {f : Nat} {atf atf' : List Nat} {u : Nat} {a a' : ASt w}
    (h : fuseSrcP f atf (.tmp u) a = .ok (atf', a')) (hu : u ∈ atf) : (f, u) ∈ a'.nre := by
  simp only [fuseSrcP] at h
  cases he : extendTo a.st.ranges u f with
  | error e => simp [he] at h
  | ok rs =>
    simp only [he] at h
    have hc : atf.contains u = true := by simpa using hu
    simp only [hc, if_true, Except.ok.injEq, Prod.mk.injEq] at h
    obtain ⟨_, rfl⟩ := h
    show (f, u) ∈ nrePush (f, u) a.nre
    rw [mem_nrePush]; exact Or.inl rfl

theorem freeOne_freeRegs_lt {numRegs : Nat} {a : ASt w} (h : ∀ r ∈ a.freeRegs, r < numRegs) (t : Nat) :
    ∀ r ∈ (freeOne numRegs a t).freeRegs, r < numRegs := by
  have hmin : ∀ (x : Nat) (l : List Nat) (y : Nat), y ∈ minPush x l → y = x ∨ y ∈ l := by
    intro x l
    induction l with
    | nil => intro y hy; simpa [minPush] using hy
    | cons z zs ih =>
      intro y hy
      simp only [minPush] at hy
      split at hy
      · rcases List.mem_cons.1 hy with rfl | hy
        · exact Or.inr List.mem_cons_self
        · rcases ih y hy with g | g
          · exact Or.inl g
          · exact Or.inr (List.mem_cons_of_mem _ g)
      · rcases List.mem_cons.1 hy with rfl | hy
        · exact Or.inl rfl
        · exact Or.inr hy
  unfold freeOne
  split
  · split
    · rename_i hlt
      intro r hr
      rcases hmin _ _ r hr with rfl | g
      · exact hlt
      · exact h r g
    · exact h
  · exact h

theorem freeList_freeRegs_lt {numRegs : Nat} (ts : List Nat) {a : ASt w} (h : ∀ r ∈ a.freeRegs, r < numRegs) :
    ∀ r ∈ (freeList numRegs ts a).freeRegs, r < numRegs := by
  induction ts generalizing a with
  | nil => exact h
  | cons t ts ih =>
    simp only [freeList, List.foldl_cons] at ih ⊢
    exact ih (freeOne_freeRegs_lt h t)

theorem pickTemp_freeRegs_sub (a : ASt w) (live : Nat) : ∀ r ∈ (pickTemp a live).2.1, r ∈ a.freeRegs := by
  unfold pickTemp
  split
  · cases hf : a.freeRegs with
    | cons r rs => intro x hx; exact List.mem_cons_of_mem _ hx
    | nil =>
      cases a.freeTemps <;> (intro x hx; simp at hx)
  · cases a.freeTemps <;> exact fun x hx => hx

end Alloc
end C02
end Hpbf
