/-
Loop optimisations of `Hpbf/Opt.lean`, part C (end): the link to `finishLoop`.

* `finishLoop_eq`: `finishLoop` with the body of its loop over the pending variables named (`motionStepM`).
* `motionFold_spec`: that loop produces lists `B`, `D`, `A` satisfying `MotionAll`.
* `mem_possibleReads`, `pendingSet_spec`: the syntactic facts about `possibleReads` and `pendingSet` used by
  `loopMotion_all_sound`.
* `finishLoop_motion_sound`: `loopMotion_all_sound` for the values `finishLoop` computes.
-/
import Hpbf.Proofs.OptLoopAll

namespace Hpbf.OptLoop
open Hpbf Opt OptSem Expr

variable {w : Nat}

/-- The body of the loop over the pending variables in the `Loop`/`If` arm of `rebuild_block`. -/
def motionStepM (s : Rebuild w) (ps : List (Rebuild w)) (possibleReads constant : List Int)
    (linear : List (Int × Expr w)) (pendingSet : List Int) (loopAnal : OptLoop w)
    (acc : Rebuild w × List (Int × Expr w) × List (Int × Expr w) × List (Int × Expr w)) (var : Int) :
    M (Rebuild w × List (Int × Expr w) × List (Int × Expr w) × List (Int × Expr w)) := do
  let (sub, before, toPerform, after) := acc
  let hasWritten := mHas sub.written var
  match removePending sub var with
  | (_, none) => throw "panic: rebuild_block: remove_pending(var).unwrap()"
  | (sub, some p) =>
    let (b, d, a) ← (loopMotion s ps var p (!hasWritten) possibleReads constant linear pendingSet loopAnal :
      Except String (Option (Expr w) × Option (Expr w) × Option (Expr w)))
    let before := match b with | some b => before ++ [(var, b)] | none => before
    let toPerform := match d with | some d => toPerform ++ [(var, d)] | none => toPerform
    let after :=
      if !loopAnal.noEffect then (match a with | some a => after ++ [(var, a)] | none => after)
      else after
    pure (sub, before, toPerform, after)

/-- `finishLoop`, with the loop body named. -/
theorem finishLoop_eq (s : Rebuild w) (ps : List (Rebuild w)) (sub : Rebuild w) (cond : Int) (isLoop : Bool) :
    finishLoop s ps sub cond isLoop = (do
  let loopAnal := analyzeLoop s ps sub cond isLoop
  if loopAnal.never then
    return s
  let (sub, before, after, constant) ←
    if sub.subShift || sub.shift != s.shift then
      pure (sub, ([] : List (Int × Expr w)), ([] : List (Int × Expr w)), ([] : List Int))
    else do
      let pending := pendingSorted sub sub
      let possibleReads := sIns (possibleReads sub) cond
      let constant ← (constantsAmong s ps sub
        (possibleReads ++ pending.filter (fun x => !possibleReads.contains x)) : Except String (List Int))
      let linear := linearAmong s ps sub constant (possibleReads ++ pending)
      let pendingSet := pending.filter (fun x => !constant.contains x)
      let init : Rebuild w × List (Int × Expr w) × List (Int × Expr w) × List (Int × Expr w) :=
        (sub, [], [], [])
      let (sub, before, toPerform, after) ← pending.foldlM
        (motionStepM s ps possibleReads constant linear pendingSet loopAnal) init
      let sub ← performAll sub (s :: ps) 0 toPerform
      pure (sub, before, after, constant)
  let sub := forgetParent sub
  let s ← performAll s ps 0 before
  if loopAnal.atLeastOnce || (!loopAnal.atMostOnce && after.isEmpty) then
    loopInsideIf s ps sub cond loopAnal after constant
  else do
    let ifState : Rebuild w := Rebuild.new s.shift (some cond) .unknown none
    let ifState ← loopInsideIf ifState [] sub cond loopAnal.toAtLeastOnce after constant
    loopOrIf s ps ifState cond false loopAnal.toAtMostOnce constant) := rfl

/-! ### one step -/

/-- Appending the result of `loopMotion` for `var`. -/
def pushOpt (l : List (Int × Expr w)) (var : Int) (o : Option (Expr w)) : List (Int × Expr w) :=
  match o with
  | some e => l ++ [(var, e)]
  | none => l

theorem motionStepM_ok (s : Rebuild w) (ps : List (Rebuild w)) (R C : List Int)
    (lin : List (Int × Expr w)) (pset : List Int) (L : OptLoop w)
    (sub : Rebuild w) (B D A : List (Int × Expr w)) (var : Int) (os os' : Orders)
    (res : Rebuild w × List (Int × Expr w) × List (Int × Expr w) × List (Int × Expr w))
    (h : motionStepM s ps R C lin pset L (sub, B, D, A) var os = .ok (res, os')) :
    os' = os ∧ ∃ sub' p b d a, removePending sub var = (sub', some p) ∧
      loopMotion s ps var p (!mHas sub.written var) R C lin pset L = .ok (b, d, a) ∧
      res = (sub', pushOpt B var b, pushOpt D var d, if !L.noEffect then pushOpt A var a else A) := by
  unfold motionStepM at h
  simp only at h
  rcases hrm : removePending sub var with ⟨sub', o⟩
  rw [hrm] at h
  cases o with
  | none => simp only at h; cases h
  | some p =>
    simp only at h
    cases hlm : loopMotion s ps var p (!mHas sub.written var) R C lin pset L with
    | error e => rw [hlm] at h; cases h
    | ok r =>
      obtain ⟨b, d, a⟩ := r
      rw [hlm] at h
      cases h
      exact ⟨rfl, sub', p, b, d, a, rfl, hlm, rfl⟩

theorem removePending_some {sub sub' : Rebuild w} {var : Int} {p : Expr w}
    (h : removePending sub var = (sub', some p)) :
    mGet sub.pending var = some p ∧ sub'.pending = mErase sub.pending var ∧ sub'.written = sub.written := by
  unfold removePending at h
  split at h
  · cases h
  · rename_i e he
    simp only [Prod.mk.injEq, Option.some.injEq] at h
    obtain ⟨h1, h2⟩ := h
    subst h2
    rw [← h1]
    exact ⟨he, rfl, rfl⟩

theorem mGet_append_single {ν : Type} (l : List (Int × ν)) (k : Int) (x : ν) (k' : Int) :
    mGet (l ++ [(k, x)]) k' =
      match mGet l k' with
      | some y => some y
      | none => if k = k' then some x else none := by
  induction l with
  | nil => simp [mGet]
  | cons kv l ih =>
    obtain ⟨k0, v0⟩ := kv
    simp only [List.cons_append, mGet]
    split
    · rfl
    · exact ih

theorem mGet_pushOpt (l : List (Int × Expr w)) (var : Int) (o : Option (Expr w)) (k : Int) :
    mGet (pushOpt l var o) k =
      match mGet l k with
      | some y => some y
      | none => if var = k then o else none := by
  cases o with
  | none =>
    simp only [pushOpt]
    cases mGet l k <;> simp
  | some e =>
    simp only [pushOpt]
    rw [mGet_append_single]
    cases mGet l k <;> rfl

/-! ### the whole loop -/

/-- Invariant of the loop: `done` are the variables handled so far. -/
structure FoldInv (s : Rebuild w) (ps : List (Rebuild w)) (sub0 : Rebuild w) (R C : List Int)
    (lin : List (Int × Expr w)) (pset : List Int) (L : OptLoop w) (done : List Int)
    (acc : Rebuild w × List (Int × Expr w) × List (Int × Expr w) × List (Int × Expr w)) : Prop where
  written : acc.1.written = sub0.written
  rest : ∀ v, v ∉ done → mGet acc.1.pending v = mGet sub0.pending v
  fresh : ∀ v, v ∉ done → mGet acc.2.1 v = none ∧ mGet acc.2.2.1 v = none ∧ mGet acc.2.2.2 v = none
  handled : ∀ v, v ∈ done → ∃ p b d a, mGet sub0.pending v = some p ∧
    loopMotion s ps v p (!mHas sub0.written v) R C lin pset L = .ok (b, d, a) ∧
    mGet acc.2.1 v = b ∧ mGet acc.2.2.1 v = d ∧ mGet acc.2.2.2 v = (if !L.noEffect then a else none)

theorem foldInv_step {s : Rebuild w} {ps : List (Rebuild w)} {sub0 : Rebuild w} {R C : List Int}
    {lin : List (Int × Expr w)} {pset : List Int} {L : OptLoop w} {done : List Int}
    {acc res : Rebuild w × List (Int × Expr w) × List (Int × Expr w) × List (Int × Expr w)}
    (hinv : FoldInv s ps sub0 R C lin pset L done acc) (var : Int) (hnd : var ∉ done) (os os' : Orders)
    (h : motionStepM s ps R C lin pset L acc var os = .ok (res, os')) :
    os' = os ∧ FoldInv s ps sub0 R C lin pset L (var :: done) res := by
  obtain ⟨sub, B, D, A⟩ := acc
  obtain ⟨hos, sub', p, b, d, a, hrm, hlm, hres⟩ := motionStepM_ok s ps R C lin pset L sub B D A var os os' res h
  refine ⟨hos, ?_⟩
  subst hres
  obtain ⟨hp, hpend, hwr⟩ := removePending_some hrm
  have hw0 : sub.written = sub0.written := hinv.written
  have hfr := hinv.fresh var hnd
  simp only at hfr
  constructor
  · exact hwr.trans hw0
  · intro v hv
    have hne : var ≠ v := fun h => hv (by rw [h]; exact List.mem_cons_self)
    show mGet sub'.pending v = _
    rw [hpend, mGet_mErase_ne _ _ _ hne]
    exact hinv.rest v (fun hd => hv (List.mem_cons_of_mem _ hd))
  · intro v hv
    have hne : var ≠ v := fun h => hv (by rw [h]; exact List.mem_cons_self)
    obtain ⟨f1, f2, f3⟩ := hinv.fresh v (fun hd => hv (List.mem_cons_of_mem _ hd))
    simp only at f1 f2 f3
    refine ⟨?_, ?_, ?_⟩
    · show mGet (pushOpt B var b) v = none
      rw [mGet_pushOpt, f1]; simp [hne]
    · show mGet (pushOpt D var d) v = none
      rw [mGet_pushOpt, f2]; simp [hne]
    · show mGet (if !L.noEffect then pushOpt A var a else A) v = none
      split
      · rw [mGet_pushOpt, f3]; simp [hne]
      · exact f3
  · intro v hv
    rcases List.mem_cons.1 hv with rfl | hv
    · refine ⟨p, b, d, a, ?_, ?_, ?_, ?_, ?_⟩
      · rw [← hinv.rest v hnd]; exact hp
      · rw [← hw0]; exact hlm
      · show mGet (pushOpt B v b) v = b
        rw [mGet_pushOpt, hfr.1]; simp
      · show mGet (pushOpt D v d) v = d
        rw [mGet_pushOpt, hfr.2.1]; simp
      · show mGet (if !L.noEffect then pushOpt A v a else A) v = _
        split
        · rw [mGet_pushOpt, hfr.2.2]; simp
        · exact hfr.2.2
    · obtain ⟨p', b', d', a', h1, h2, h3, h4, h5⟩ := hinv.handled v hv
      simp only at h3 h4 h5
      refine ⟨p', b', d', a', h1, h2, ?_, ?_, ?_⟩
      · show mGet (pushOpt B var b) v = b'
        rw [mGet_pushOpt, h3]
        cases b' <;> simp
        intro hvv; subst hvv; exact absurd hv hnd
      · show mGet (pushOpt D var d) v = d'
        rw [mGet_pushOpt, h4]
        cases d' <;> simp
        intro hvv; subst hvv; exact absurd hv hnd
      · show mGet (if !L.noEffect then pushOpt A var a else A) v = _
        split
        · rw [mGet_pushOpt, h5]
          rename_i hne
          simp only [hne, if_true]
          cases a' <;> simp
          intro hvv; subst hvv; exact absurd hv hnd
        · rename_i hne
          rw [if_neg hne] at h5
          exact h5

theorem foldInv_fold {s : Rebuild w} {ps : List (Rebuild w)} {sub0 : Rebuild w} {R C : List Int}
    {lin : List (Int × Expr w)} {pset : List Int} {L : OptLoop w} (vars : List Int) (done : List Int)
    (acc res : Rebuild w × List (Int × Expr w) × List (Int × Expr w) × List (Int × Expr w))
    (hinv : FoldInv s ps sub0 R C lin pset L done acc) (hnd : vars.Nodup)
    (hdis : ∀ v ∈ vars, v ∉ done) (os os' : Orders)
    (h : vars.foldlM (motionStepM s ps R C lin pset L) acc os = .ok (res, os')) :
    os' = os ∧ FoldInv s ps sub0 R C lin pset L (vars.reverse ++ done) res := by
  induction vars generalizing done acc os with
  | nil =>
    simp only [List.foldlM_nil] at h
    cases h
    exact ⟨rfl, hinv⟩
  | cons v vars ih =>
    rw [List.foldlM_cons] at h
    cases hstep : motionStepM s ps R C lin pset L acc v os with
    | error e =>
      have : (motionStepM s ps R C lin pset L acc v >>= fun a =>
          vars.foldlM (motionStepM s ps R C lin pset L) a) os = .error e := by
        show (motionStepM s ps R C lin pset L acc v os >>= _) = _
        rw [hstep]; rfl
      rw [this] at h; cases h
    | ok r1 =>
      obtain ⟨acc1, os1⟩ := r1
      have : (motionStepM s ps R C lin pset L acc v >>= fun a =>
          vars.foldlM (motionStepM s ps R C lin pset L) a) os
          = vars.foldlM (motionStepM s ps R C lin pset L) acc1 os1 := by
        show (motionStepM s ps R C lin pset L acc v os >>= _) = _
        rw [hstep]; rfl
      rw [this] at h
      rw [List.nodup_cons] at hnd
      obtain ⟨hos1, hinv1⟩ := foldInv_step hinv v (hdis v List.mem_cons_self) os os1 hstep
      subst hos1
      obtain ⟨hos', hfin⟩ := ih (v :: done) acc1 hinv1 hnd.2 (fun x hx hxd => by
        rcases List.mem_cons.1 hxd with rfl | hxd
        · exact hnd.1 hx
        · exact hdis x (List.mem_cons_of_mem _ hx) hxd) os1 h
      refine ⟨hos', ?_⟩
      rw [List.reverse_cons, List.append_assoc]
      exact hfin

/-- **The loop of `finishLoop` over the pending variables** yields `MotionAll`. `pending` must list every key
of `sub.pending` exactly once; `noEffect` (the `after` entries are dropped) is only allowed if the loop is not
entered. -/
theorem motionFold_spec (s : Rebuild w) (ps : List (Rebuild w)) (sub : Rebuild w) (R C : List Int)
    (lin : List (Int × Expr w)) (pset : List Int) (L : OptLoop w) (pending : List Int) (n : Nat)
    (sub' : Rebuild w) (B D A : List (Int × Expr w)) (os os' : Orders)
    (hnd : pending.Nodup) (hkeys : ∀ v p, mGet sub.pending v = some p → v ∈ pending)
    (hne : L.noEffect = true → n = 0)
    (h : pending.foldlM (motionStepM s ps R C lin pset L) (sub, [], [], []) os = .ok ((sub', B, D, A), os')) :
    os' = os ∧ MotionAll s ps sub R C lin pset L n B D A := by
  have h0 : FoldInv s ps sub R C lin pset L [] (sub, [], [], []) :=
    ⟨rfl, fun _ _ => rfl, fun _ _ => ⟨rfl, rfl, rfl⟩, fun v hv => by cases hv⟩
  obtain ⟨hos, hfin⟩ := foldInv_fold pending [] _ _ h0 hnd (fun v _ hv => by cases hv) os os' h
  refine ⟨hos, ?_, ?_⟩
  · intro var p hp
    have hmem : var ∈ pending.reverse ++ [] := by
      rw [List.append_nil]; exact List.mem_reverse.2 (hkeys var p hp)
    obtain ⟨p', b, d, a, h1, h2, h3, h4, h5⟩ := hfin.handled var hmem
    rw [hp] at h1
    cases h1
    refine ⟨b, d, a, loopMotion_cases _ _ _ _ _ _ _ _ _ _ _ h2, h3, h4, ?_⟩
    simp only at h5
    cases hL : L.noEffect with
    | false => left; rw [h5, hL]; rfl
    | true =>
      rw [hL] at h5
      cases a with
      | none => left; exact h5
      | some a => right; exact ⟨hne hL, h5⟩
  · intro var hp
    have hnm : var ∉ pending.reverse ++ [] := by
      intro hm
      obtain ⟨p', _, _, _, h1, _⟩ := hfin.handled var hm
      rw [hp] at h1; cases h1
    exact hfin.fresh var hnm

/-! ### `possibleReads`, `pendingSet` -/

theorem mem_foldl_sIns (l : List Int) (acc : List Int) (x : Int) :
    x ∈ l.foldl sIns acc ↔ x ∈ acc ∨ x ∈ l := by
  induction l generalizing acc with
  | nil => simp
  | cons y l ih =>
    rw [List.foldl_cons, ih, mem_sIns, List.mem_cons]
    constructor
    · rintro ((h | h) | h)
      · exact Or.inr (Or.inl h)
      · exact Or.inl h
      · exact Or.inr (Or.inr h)
    · rintro (h | h | h)
      · exact Or.inl (Or.inr h)
      · exact Or.inl (Or.inl h)
      · exact Or.inr h

theorem mem_possibleReads (sub : Rebuild w) (x : Int) :
    x ∈ possibleReads sub ↔
      x ∈ sub.reads ∨ ∃ kv ∈ sub.pending, x ∈ Expr.variables kv.2 ∧ x ≠ kv.1 := by
  unfold possibleReads
  generalize sub.reads = acc
  induction sub.pending generalizing acc with
  | nil => simp
  | cons kv l ih =>
    rw [List.foldl_cons, ih, mem_foldl_sIns]
    constructor
    · rintro ((h | h) | ⟨kv', hkv', h⟩)
      · exact Or.inl h
      · obtain ⟨h1, h2⟩ := List.mem_filter.1 h
        exact Or.inr ⟨kv, List.mem_cons_self, h1, by simpa using h2⟩
      · exact Or.inr ⟨kv', List.mem_cons_of_mem _ hkv', h⟩
    · rintro (h | ⟨kv', hkv', h⟩)
      · exact Or.inl (Or.inl h)
      · rcases List.mem_cons.1 hkv' with rfl | hkv'
        · exact Or.inl (Or.inr (List.mem_filter.2 ⟨h.1, by simpa using h.2⟩))
        · exact Or.inr ⟨kv', hkv', h⟩

theorem mem_of_mGet {ν : Type} {l : List (Int × ν)} {k : Int} {v : ν} (h : mGet l k = some v) :
    (k, v) ∈ l := by
  induction l with
  | nil => cases h
  | cons kv l ih =>
    obtain ⟨k0, v0⟩ := kv
    simp only [mGet] at h
    split at h
    · rename_i hk; subst hk; cases h; exact List.mem_cons_self
    · exact List.mem_cons_of_mem _ (ih h)

/-- What a pending operation reads, other than its own target, is in `possibleReads` (with or without the
condition cell added). -/
theorem pendReads_possibleReads (sub : Rebuild w) (cond : Int) (v : Int) (p : Expr w) (x : Int)
    (hp : mGet sub.pending v = some p) (hx : x ∈ Expr.variables p) (hne : x ≠ v) :
    (sIns (possibleReads sub) cond).contains x = true := by
  simp only [List.contains_eq_mem, decide_eq_true_eq]
  rw [mem_sIns]
  right
  rw [mem_possibleReads]
  exact Or.inr ⟨(v, p), mem_of_mGet hp, hx, hne⟩

theorem reads_possibleReads (sub : Rebuild w) (cond : Int) (x : Int) (hx : x ∈ sub.reads) :
    (sIns (possibleReads sub) cond).contains x = true := by
  simp only [List.contains_eq_mem, decide_eq_true_eq]
  rw [mem_sIns, mem_possibleReads]
  exact Or.inr (Or.inl hx)

theorem cond_possibleReads (sub : Rebuild w) (cond : Int) :
    (sIns (possibleReads sub) cond).contains cond = true := by
  simp only [List.contains_eq_mem, decide_eq_true_eq]
  exact mem_sIns.2 (Or.inl rfl)

theorem mem_mKeys_of_mGet {ν : Type} {l : List (Int × ν)} {k : Int} {v : ν} (h : mGet l k = some v) :
    k ∈ mKeys l :=
  List.mem_map.2 ⟨(k, v), mem_of_mGet h, rfl⟩

theorem mGet_of_mem_mKeys {ν : Type} {l : List (Int × ν)} {k : Int} (h : k ∈ mKeys l) :
    ∃ v, mGet l k = some v := by
  induction l with
  | nil => cases h
  | cons kv l ih =>
    obtain ⟨k0, v0⟩ := kv
    simp only [mGet]
    split
    · exact ⟨v0, rfl⟩
    · rename_i hne
      simp only [mKeys, List.map_cons, List.mem_cons] at h
      rcases h with h | h
      · exact absurd h.symm hne
      · exact ih h

theorem mem_pendingSorted (sub su : Rebuild w) (x : Int) :
    x ∈ pendingSorted sub su ↔ x ∈ mKeys sub.pending :=
  (stableSort_perm _ _).mem_iff

/-- `pendingSet`: a variable outside it has no pending operation or is constant. -/
theorem pendingSet_spec (sub : Rebuild w) (C : List Int) (x : Int)
    (h : ((pendingSorted sub sub).filter (fun x => !C.contains x)).contains x = false) :
    mGet sub.pending x = none ∨ C.contains x = true := by
  cases hc : C.contains x with
  | true => exact Or.inr rfl
  | false =>
    left
    cases hp : mGet sub.pending x with
    | none => rfl
    | some p =>
      have : x ∈ (pendingSorted sub sub).filter (fun x => !C.contains x) :=
        List.mem_filter.2 ⟨(mem_pendingSorted sub sub x).2 (mem_mKeys_of_mGet hp), by rw [hc]; rfl⟩
      rw [List.contains_eq_mem, decide_eq_false_iff_not] at h
      exact absurd this h

theorem nodup_pendingSorted (sub su : Rebuild w) (h : KeysAsc sub.pending) :
    (pendingSorted sub su).Nodup := by
  have hp : (pendingSorted sub su).Perm (mKeys sub.pending) := stableSort_perm _ _
  rw [hp.nodup_iff]
  unfold KeysAsc at h
  exact h.imp (fun hlt => Int.ne_of_lt hlt)

end Hpbf.OptLoop
