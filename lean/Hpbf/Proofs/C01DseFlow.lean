/-
One step of the lockstep simulation, control flow: entering / skipping a nested block, the end of a loop
iteration (back edge or exit), the end of an `if`, the end of the program.  These are the places where the
analysis facts `at_least_once`, `at_most_once`, `reads`, `has_shift` are used.
-/
import Hpbf.Proofs.C01DseStep

namespace Hpbf
namespace C01Dse
open Ir OptDse

variable {w : Nat}

theorem bool_false_of_not_true {b : Bool} (h : ¬ b = true) : b = false := by
  cases b
  · rfl
  · exact absurd rfl h

/-! ### loop head -/

theorem step_loop {lim : Bool} {bud : Nat} {b : Block w} {anal : DAnal} {env : Env}
    (hS : AnalSoundAt lim bud b anal env) {cond shift : Int} {body : List (Instr w)} {once : Bool}
    {rest cur' : List (Instr w)} {conts conts' : List (Cont w)} {budget budget' : Nat} {st st' : State w}
    (h : Inv lim bud b anal env ⟨.loop cond shift body once :: rest, conts, budget, st⟩
      ⟨cur', conts', budget', st'⟩) :
    StepRel lim bud b anal env (step lim ⟨.loop cond shift body once :: rest, conts, budget, st⟩)
      (step lim ⟨cur', conts', budget', st'⟩) := by
  obtain ⟨hreach, ⟨frs, A, sh, s0, idx0, hK, hcur, hst, htape⟩, hbud, hptr, henv, htr⟩ := h
  simp only at hK hcur hst htape hbud hptr henv htr
  obtain ⟨rest', s1, idx1, i', s0', idx0', h1, h2, hr⟩ := elimInsts_cons_some hcur
  obtain ⟨k, A1, body', sub, idxb, hk1, hA, hb, hr2⟩ := elimInstr_loop_some h2
  simp only [Prod.mk.injEq] at hr hr2
  obtain ⟨hi, hs0, _⟩ := hr2
  obtain ⟨hc', hs0', _⟩ := hr
  subst hc' hi hk1
  rw [hs0] at hs0'
  subst hs0'
  have hA1 : subAt A (nblocks rest + 1) = some A1 := subAt_of_elim h1 hA
  obtain ⟨mb1, mb2, _⟩ := elimInsts_meta hb
  have mb1' : sub.anal = A1 := mb1
  have mb2' : sub.shift = shift := mb2
  obtain ⟨hstb, hstsh⟩ := hst.loop hA1
  have hrd : st'.rd cond = st.rd cond := by
    unfold State.rd; rw [hptr]
    rcases htape (st.ptr + cond) with h | h | h
    · exact h.symm
    · exact absurd (sub_add_self _ _) (dead_head_ne_cond h)
    · exact absurd (by simp [stepReads]) (h.noread (by simp))
  have hF1 := hS.atLeast _ hreach (.loop cond shift body once) rest cond shift body A A1 rfl rfl hK.analOf hA1
  simp only at hF1
  simp only [step]
  rw [hrd]
  by_cases hz : st.rd cond ≠ 0#w
  · -- the body is entered
    rw [if_pos hz, if_pos hz]
    have hs : step lim ⟨.loop cond shift body once :: rest, conts, budget, st⟩ =
        .next ⟨body, .loopEnd cond shift body rest :: conts, budget, st⟩ := by
      simp only [step]; rw [if_pos hz]
    refine ⟨hreach.step hs, ⟨⟨sub, s1.read cond⟩ :: frs, A1, shift, sub, idxb,
      MatchK.loopEnd once hK h1 hA1 hb hst, by simpa using hb, hstb, fun a => ?_⟩, hbud, hptr, henv, htr⟩
    simp only
    rcases htape a with h | h | h
    · exact Or.inl h
    · refine Or.inr (Or.inl ?_)
      refine dead_enter h mb1' (fun hns => ?_)
      obtain ⟨g1, g2⟩ := hstsh hns
      exact ⟨mb2'.trans g1, (body_noShift hb hstb g2).1⟩
    · exact Or.inr (Or.inr (h.next hK.length.1 (by simp) hs (by simp [stepWrites])
        (fun _ h => h.trans (List.suffix_cons _ _))))
  · -- the loop is skipped
    rw [if_neg hz, if_neg hz]
    have hs : step lim ⟨.loop cond shift body once :: rest, conts, budget, st⟩ =
        .next ⟨rest, conts, budget, st⟩ := by
      simp only [step]; rw [if_neg hz]
    have hlo : A1.atLeastOnce = false := bool_false_of_not_true (fun h => hz (hF1 h))
    refine ⟨hreach.step hs, ⟨frs, A, sh, s1, k + 1, hK, h1, hst.tail, fun a => ?_⟩, hbud, hptr, henv, htr⟩
    simp only
    rcases htape a with h | h | h
    · exact Or.inl h
    · exact Or.inr (Or.inl (dead_skip h hlo))
    · exact Or.inr (Or.inr (h.next hK.length.1 (by simp) hs (by simp [stepWrites]) (fun _ h => h)))

/-! ### `if` head -/

theorem step_ifnz {lim : Bool} {bud : Nat} {b : Block w} {anal : DAnal} {env : Env}
    (hS : AnalSoundAt lim bud b anal env) {cond shift : Int} {body : List (Instr w)}
    {rest cur' : List (Instr w)} {conts conts' : List (Cont w)} {budget budget' : Nat} {st st' : State w}
    (h : Inv lim bud b anal env ⟨.ifnz cond shift body :: rest, conts, budget, st⟩
      ⟨cur', conts', budget', st'⟩) :
    StepRel lim bud b anal env (step lim ⟨.ifnz cond shift body :: rest, conts, budget, st⟩)
      (step lim ⟨cur', conts', budget', st'⟩) := by
  obtain ⟨hreach, ⟨frs, A, sh, s0, idx0, hK, hcur, hst, htape⟩, hbud, hptr, henv, htr⟩ := h
  simp only at hK hcur hst htape hbud hptr henv htr
  obtain ⟨rest', s1, idx1, i', s0', idx0', h1, h2, hr⟩ := elimInsts_cons_some hcur
  obtain ⟨k, A1, body', sub, idxb, hk1, hA, hb, hr2⟩ := elimInstr_ifnz_some h2
  simp only [Prod.mk.injEq] at hr hr2
  obtain ⟨hi, hs0, _⟩ := hr2
  obtain ⟨hc', hs0', _⟩ := hr
  subst hc' hi hk1
  rw [hs0] at hs0'
  subst hs0'
  have hA1 : subAt A (nblocks rest + 1) = some A1 := subAt_of_elim h1 hA
  obtain ⟨mb1, mb2, _⟩ := elimInsts_meta hb
  have mb1' : sub.anal = A1 := mb1
  have mb2' : sub.shift = shift := mb2
  obtain ⟨hstb, hstsh⟩ := hst.ifnz hA1
  have hrd : st'.rd cond = st.rd cond := by
    unfold State.rd; rw [hptr]
    rcases htape (st.ptr + cond) with h | h | h
    · exact h.symm
    · exact absurd (sub_add_self _ _) (dead_head_ne_cond h)
    · exact absurd (by simp [stepReads]) (h.noread (by simp))
  have hF1 := hS.atLeast _ hreach (.ifnz cond shift body) rest cond shift body A A1 rfl rfl hK.analOf hA1
  simp only at hF1
  simp only [step]
  rw [hrd]
  by_cases hz : st.rd cond ≠ 0#w
  · rw [if_pos hz, if_pos hz]
    have hs : step lim ⟨.ifnz cond shift body :: rest, conts, budget, st⟩ =
        .next ⟨body, .ifEnd shift rest :: conts, budget, st⟩ := by
      simp only [step]; rw [if_pos hz]
    refine ⟨hreach.step hs, ⟨⟨sub, s1.read cond⟩ :: frs, A1, shift, sub, idxb,
      MatchK.ifEnd cond hK h1 hA1 hb hst, by simpa using hb, hstb, fun a => ?_⟩, hbud, hptr, henv, htr⟩
    simp only
    rcases htape a with h | h | h
    · exact Or.inl h
    · refine Or.inr (Or.inl ?_)
      refine dead_enter h mb1' (fun hns => ?_)
      obtain ⟨g1, g2⟩ := hstsh hns
      exact ⟨mb2'.trans g1, (body_noShift hb hstb g2).1⟩
    · exact Or.inr (Or.inr (h.next hK.length.1 (by simp) hs (by simp [stepWrites])
        (fun _ h => h.trans (List.suffix_cons _ _))))
  · rw [if_neg hz, if_neg hz]
    have hs : step lim ⟨.ifnz cond shift body :: rest, conts, budget, st⟩ =
        .next ⟨rest, conts, budget, st⟩ := by
      simp only [step]; rw [if_neg hz]
    have hlo : A1.atLeastOnce = false := bool_false_of_not_true (fun h => hz (hF1 h))
    refine ⟨hreach.step hs, ⟨frs, A, sh, s1, k + 1, hK, h1, hst.tail, fun a => ?_⟩, hbud, hptr, henv, htr⟩
    simp only
    rcases htape a with h | h | h
    · exact Or.inl h
    · exact Or.inr (Or.inl (dead_skip h hlo))
    · exact Or.inr (Or.inr (h.next hK.length.1 (by simp) hs (by simp [stepWrites]) (fun _ h => h)))

/-! ### end of the program -/

theorem step_halt {lim : Bool} {bud : Nat} {b : Block w} {anal : DAnal} {env : Env}
    {cur' : List (Instr w)} {conts' : List (Cont w)} {budget budget' : Nat} {st st' : State w}
    (h : Inv lim bud b anal env ⟨[], [], budget, st⟩ ⟨cur', conts', budget', st'⟩) :
    StepRel lim bud b anal env (step lim ⟨[], [], budget, st⟩) (step lim ⟨cur', conts', budget', st'⟩) := by
  obtain ⟨hreach, ⟨frs, A, sh, s0, idx0, hK, hcur, hst, htape⟩, hbud, hptr, henv, htr⟩ := h
  simp only at hK hcur hst htape hbud hptr henv htr
  rw [elimInsts_nil] at hcur
  simp only [Option.some.injEq, Prod.mk.injEq] at hcur
  obtain ⟨hc', _, _⟩ := hcur
  subst hc'
  cases hK
  simp only [step]
  exact ⟨htr, henv, hptr, hbud⟩

/-! ### end of an `if` body -/

theorem step_ifEnd {lim : Bool} {bud : Nat} {b : Block w} {anal : DAnal} {env : Env}
    {shift : Int} {rest : List (Instr w)} {ks : List (Cont w)}
    {cur' : List (Instr w)} {conts' : List (Cont w)} {budget budget' : Nat} {st st' : State w}
    (h : Inv lim bud b anal env ⟨[], .ifEnd shift rest :: ks, budget, st⟩ ⟨cur', conts', budget', st'⟩) :
    StepRel lim bud b anal env (step lim ⟨[], .ifEnd shift rest :: ks, budget, st⟩)
      (step lim ⟨cur', conts', budget', st'⟩) := by
  obtain ⟨hreach, ⟨frs, A, sh, s0, idx0, hK, hcur, hst, htape⟩, hbud, hptr, henv, htr⟩ := h
  simp only at hK hcur hst htape hbud hptr henv htr
  rw [elimInsts_nil] at hcur
  simp only [Option.some.injEq, Prod.mk.injEq] at hcur
  obtain ⟨hc', hs0, _⟩ := hcur
  subst hc' hs0 hbud
  cases hK with
  | @ifEnd _ ks' frs0 A0 sh0 _ body body' _ rest' s idx _ sub idx1 cond hk hrest hA1 hbody hstK =>
  obtain ⟨mb1, mb2, _⟩ := elimInsts_meta hbody
  have mb2' : sub.shift = shift := mb2
  simp only [step]
  by_cases hl : (lim && budget' == 0) = true
  · rw [if_pos hl, if_pos hl]
    obtain ⟨u1, u2, u3⟩ := unwind_meta (st.mov shift) ks
    obtain ⟨u1', u2', u3'⟩ := unwind_meta (st'.mov shift) ks'
    refine ⟨?_, ?_, ?_, rfl⟩
    · rw [u2, u2']; simp only [State.mov, htr]
    · rw [u1, u1']; simp only [State.mov, henv]
    · rw [u3, u3', hk.shifts]; simp only [State.mov, hptr]
  · rw [if_neg hl, if_neg hl]
    have hs : step lim ⟨[], .ifEnd shift rest :: ks, budget', st⟩ =
        .next ⟨rest, ks, if lim = true then budget' - 1 else budget', st.mov shift⟩ := by
      simp only [step]; rw [if_neg hl]
    refine ⟨hreach.step hs, ⟨frs0, A0, sh0, s, idx, hk, hrest, hstK.tail, fun a => ?_⟩, rfl,
      by simp only [State.mov, hptr], henv, htr⟩
    simp only
    rcases htape a with h | h
    · exact Or.inl h
    · rcases DC.at_end h (by simp [hk.length.1]) rfl with hd | ⟨⟨_, pexit⟩, _⟩
      · refine Or.inr (Or.inl ?_)
        have e : a - (st.mov shift).ptr = a - st.ptr - sub.shift := by
          rw [mb2']; simp only [State.mov]; omega
        rw [e]
        exact (DeadI.of_read hd.2).1
      · exact Or.inr (Or.inr (pexit _ hs (by simp [stepWrites]) hk.length.1))

/-! ### end of a loop iteration -/

theorem step_loopEnd {lim : Bool} {bud : Nat} {b : Block w} {anal : DAnal} {env : Env}
    (hS : AnalSoundAt lim bud b anal env)
    {cond shift : Int} {body rest : List (Instr w)} {ks : List (Cont w)}
    {cur' : List (Instr w)} {conts' : List (Cont w)} {budget budget' : Nat} {st st' : State w}
    (h : Inv lim bud b anal env ⟨[], .loopEnd cond shift body rest :: ks, budget, st⟩
      ⟨cur', conts', budget', st'⟩) :
    StepRel lim bud b anal env (step lim ⟨[], .loopEnd cond shift body rest :: ks, budget, st⟩)
      (step lim ⟨cur', conts', budget', st'⟩) := by
  obtain ⟨hreach, ⟨frs, A, sh, s0, idx0, hK, hcur, hst, htape⟩, hbud, hptr, henv, htr⟩ := h
  simp only at hK hcur hst htape hbud hptr henv htr
  rw [elimInsts_nil] at hcur
  simp only [Option.some.injEq, Prod.mk.injEq] at hcur
  obtain ⟨hc', hs0, _⟩ := hcur
  subst hc' hs0 hbud
  cases hK with
  | @loopEnd _ ks' frs0 A0 sh0 _ _ _ body' _ rest' s idx _ sub idx1 once hk hrest hA1 hbody hstK =>
  have hKfull := MatchK.loopEnd once hk hrest hA1 hbody hstK
  obtain ⟨mb1, mb2, _⟩ := elimInsts_meta hbody
  have mb1' : sub.anal = A := mb1
  have mb2' : sub.shift = shift := mb2
  obtain ⟨hstb, hstsh⟩ := hstK.loop hA1
  have hlen : (Cont.loopEnd cond shift body rest :: ks).length = frs0.length + 1 := by
    simp [hk.length.1]
  simp only [step]
  by_cases hl : (lim && budget' == 0) = true
  · rw [if_pos hl, if_pos hl]
    obtain ⟨u1, u2, u3⟩ := unwind_meta (st.mov shift) ks
    obtain ⟨u1', u2', u3'⟩ := unwind_meta (st'.mov shift) ks'
    refine ⟨?_, ?_, ?_, rfl⟩
    · rw [u2, u2']; simp only [State.mov, htr]
    · rw [u1, u1']; simp only [State.mov, henv]
    · rw [u3, u3', hk.shifts]; simp only [State.mov, hptr]
  · rw [if_neg hl, if_neg hl]
    -- the re-tested condition cell agrees
    have hrd : (st'.mov shift).rd cond = (st.mov shift).rd cond := by
      show st'.tape.get (st'.ptr + shift + cond) = st.tape.get (st.ptr + shift + cond)
      rw [hptr]
      rcases htape (st.ptr + shift + cond) with h | h
      · exact h.symm
      · exfalso
        rcases DC.at_end h hlen rfl with hd | ⟨⟨nr, _⟩, _⟩
        · have e : st.ptr + shift + cond - st.ptr - sub.shift = cond := by rw [mb2']; omega
          have := (DeadI.of_read hd.2).2
          simp only at this
          rw [e] at this
          exact this rfl
        · exact nr (by simp [stepReads])
    rw [hrd]
    by_cases hz : (st.mov shift).rd cond ≠ 0#w
    · -- back edge
      rw [if_pos hz, if_pos hz]
      have hs : step lim ⟨[], .loopEnd cond shift body rest :: ks, budget', st⟩ =
          .next ⟨body, .loopEnd cond shift body rest :: ks, if lim = true then budget' - 1 else budget',
            st.mov shift⟩ := by
        simp only [step]; rw [if_neg hl, if_pos hz]
      refine ⟨hreach.step hs, ⟨⟨sub, s.read cond⟩ :: frs0, A, shift, sub, idx1, hKfull,
        by simpa using hbody, hstb, fun a => ?_⟩, rfl, by simp only [State.mov, hptr], henv, htr⟩
      simp only
      rcases htape a with h | h
      · exact Or.inl h
      · rcases DC.at_end h hlen rfl with hd | ⟨_, ⟨_, pre⟩⟩
        · obtain ⟨hLoop, hAfter⟩ := hd
          simp only at hLoop hAfter
          rcases hLoop with hA | ⟨hNS, hBC⟩
          · -- `at_most_once` contradicts the back edge
            exfalso
            rw [mb1'] at hA
            exact hz (hS.atMost _ hreach cond shift body rest ks A rfl rfl hKfull.analOf hA)
          · rw [mb1'] at hNS
            obtain ⟨hsh0, hused⟩ := hstsh hNS
            subst hsh0
            have hp0 : (st.mov 0).ptr = st.ptr := by simp [State.mov]
            rw [mb2', Int.sub_zero] at hAfter
            rcases hBC with hB | hC
            · -- protected by the `reads` fact
              refine Or.inr (Or.inr ⟨⟨sub, s.read cond⟩, frs0, List.suffix_refl _, ?_⟩)
              refine ⟨(body_noShift hbody hstb hused).2, nsAbove_le (by simp [hk.length.1]), fun n => ?_,
                by rw [mb1']; exact hNS, mb2', by simp only [hp0]; exact hB, by simp only [hp0]; exact hAfter⟩
              have := hS.reads _ hreach cond 0 body rest ks A _ rfl rfl hKfull.analOf hNS hz hs
                (a - st.ptr) n (by rw [← mb1']; exact hB)
              simp only [hp0, hlen] at this
              rw [show st.ptr + (a - st.ptr) = a by omega] at this
              exact this
            · refine Or.inr (Or.inl ?_)
              simp only [hp0]
              refine Or.inr ⟨hC.1, hC.2, ⟨Or.inr ⟨by rw [mb1']; exact hNS, Or.inr hC⟩, ?_⟩⟩
              simp only [mb2', Int.sub_zero]
              exact hAfter
        · exact Or.inr (Or.inr (pre _ hs (by simp [stepWrites]) hlen))
    · -- exit
      rw [if_neg hz, if_neg hz]
      have hs : step lim ⟨[], .loopEnd cond shift body rest :: ks, budget', st⟩ =
          .next ⟨rest, ks, if lim = true then budget' - 1 else budget', st.mov shift⟩ := by
        simp only [step]; rw [if_neg hl, if_neg hz]
      refine ⟨hreach.step hs, ⟨frs0, A0, sh0, s, idx, hk, hrest, hstK.tail, fun a => ?_⟩, rfl,
        by simp only [State.mov, hptr], henv, htr⟩
      simp only
      rcases htape a with h | h
      · exact Or.inl h
      · rcases DC.at_end h hlen rfl with hd | ⟨⟨_, pexit⟩, _⟩
        · refine Or.inr (Or.inl ?_)
          have e : a - (st.mov shift).ptr = a - st.ptr - sub.shift := by
            rw [mb2']; simp only [State.mov]; omega
          rw [e]
          exact (DeadI.of_read hd.2).1
        · exact Or.inr (Or.inr (pexit _ hs (by simp [stepWrites]) hk.length.1))

end C01Dse
end Hpbf
