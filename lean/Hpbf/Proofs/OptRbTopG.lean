/-
Rebuild-round proofs, stage 4: the top-level theorems for a round that uses the analysis of the previous round:
if the previous analysis fits the block (`ShapeL`) and is sound for its runs from the initial state (`AnalInL`),
the round preserves the observable behaviour and justifies the `once` marks it emits.
-/
import Hpbf.Proofs.OptRbMainG
import Hpbf.Proofs.OptRbTop1

namespace Hpbf
namespace OptProof
open Opt OptSem Ir

variable {w : Nat}

/-- The top-level state of a round. -/
theorem invA_top (prevAnal : OptAnalysis w) :
    InvA (reverseSubBlocks (Rebuild.new 0 none .zero (some prevAnal)) : Rebuild w) := by
  have hch : Child (reverseSubBlocks (Rebuild.new 0 none .zero (some prevAnal)) : Rebuild w) :=
    (child_new _ _ _ _).reverseSubBlocks
  obtain ⟨_, _, _, _, _, f6, f7, _⟩ :=
    reverseSubBlocks_fields (Rebuild.new 0 none .zero (some prevAnal) : Rebuild w)
  refine ⟨hch.wf, hch.canon, ?_, ?_⟩
  · intro _ v e hv
    rw [f7] at hv
    simp [Rebuild.new, mGet] at hv
  · rw [f6]
    exact List.Pairwise.nil

/-- The simulation behind the two top-level theorems. -/
theorem optimizeOnce_sim_g (hw : 0 < w) {b : Block w} (hcl : CanonL b.insts) {prevAnal : OptAnalysis w}
    (hamo : prevAnal.loopAnal.atMostOnce = true) {env : Env} (hs : ShapeL b.insts prevAnal.subBlocks)
    (ha : AnalInL (fun σ => σ = State.init env) b.insts prevAnal.subBlocks)
    {os os' : Orders} {b' : Block w} {anal' : OptAnalysis w}
    (hr : (optimizeOnce b prevAnal).run os = .ok ((b', anal'), os')) :
    (∃ Q : State w → State w → Prop, (∀ x y, Q x y → y.trace = x.trace ∧ y.env = x.env) ∧
      Sim Q b.insts b'.insts (State.init env) (State.init env)) ∧
    ¬ Bad b'.insts (State.init env) := by
  unfold optimizeOnce at hr
  rw [run_bind_ok] at hr
  obtain ⟨st, os1, h1, h2⟩ := hr
  rw [run_pure] at h2
  cases h2
  unfold rebuildBlock at h1
  rw [run_bind_ok] at h1
  obtain ⟨⟨s', done⟩, os2, h3, h4⟩ := h1
  rw [run_pure] at h4
  cases h4
  obtain ⟨f1, f2, f3, f4, f5, f6, f7, f8, f9, f10, f11⟩ :=
    reverseSubBlocks_fields (Rebuild.new 0 none .zero (some prevAnal) : Rebuild w)
  have hsubs : subsOf (reverseSubBlocks (Rebuild.new 0 none .zero (some prevAnal)) : Rebuild w) =
      prevAnal.subBlocks := subsOf_child _ _ _ _
  have hind : ShiftIndep (reverseSubBlocks (Rebuild.new 0 none .zero (some prevAnal)) : Rebuild w) := by
    unfold ShiftIndep
    rw [acore_child]
    exact Or.inl hamo
  obtain ⟨_, shE, new, hall, _⟩ := rebuildInsts_all_g hw b.insts (fun σ => σ = State.init env) [] _ os _ s'
    done h3 (invA_top prevAnal) hcl (by rw [f5]; rfl) (by rw [hsubs]; exact hs) (by rw [hsubs]; exact ha)
    (Or.inl hind) (pvClean_child _ _ _ _ _)
  have hrel := rel_init (w := w)
    (s := reverseSubBlocks (Rebuild.new 0 none .zero (some prevAnal))) []
    (by rw [f1]; rfl) (by rw [f3]; rfl) (by rw [f2]; rfl) (by rw [f8]; rfl) (by rw [f7]; rfl)
    (by rw [f5]; rfl) env
  obtain ⟨hS, hB⟩ := hall.step.2 _ _ _ hrel rfl
  have hinsts : (if done = true then { s' with shift := s'.shift + b.shift } else s').insts = new := by
    have : s'.insts = new := by rw [hall.insts, f10]; rfl
    split <;> exact this
  refine ⟨⟨StepQ shE [] s' (fun _ => 0#w) (State.init env), ?_, ?_⟩, ?_⟩
  · rintro x y ⟨M0', h, _⟩
    exact ⟨h.tr.symm, h.env.symm⟩
  · show Sim _ b.insts (if done = true then { s' with shift := s'.shift + b.shift } else s').insts _ _
    rw [hinsts]; exact hS
  · show ¬ Bad (if done = true then { s' with shift := s'.shift + b.shift } else s').insts _
    rw [hinsts]; exact hB

/-- **A round that uses a fitting and sound previous analysis preserves the observable behaviour.** -/
theorem optimizeOnce_preserves_g (hw : 0 < w) {b : Block w} (hcl : CanonL b.insts)
    {prevAnal : OptAnalysis w} (hamo : prevAnal.loopAnal.atMostOnce = true) {env : Env}
    (hs : ShapeL b.insts prevAnal.subBlocks)
    (ha : AnalInL (fun σ => σ = State.init env) b.insts prevAnal.subBlocks)
    {os os' : Orders} {b' : Block w} {anal' : OptAnalysis w}
    (hr : (optimizeOnce b prevAnal).run os = .ok ((b', anal'), os')) : BehEq b b' env := by
  obtain ⟨⟨Q, hQ, hsim⟩, _⟩ := optimizeOnce_sim_g hw hcl hamo hs ha hr
  exact behEq_of_sim hQ hsim

/-- **The `once` marks of the emitted block are justified.** -/
theorem optimizeOnce_onceOk_g (hw : 0 < w) {b : Block w} (hcl : CanonL b.insts)
    {prevAnal : OptAnalysis w} (hamo : prevAnal.loopAnal.atMostOnce = true) {env : Env}
    (hs : ShapeL b.insts prevAnal.subBlocks)
    (ha : AnalInL (fun σ => σ = State.init env) b.insts prevAnal.subBlocks)
    {os os' : Orders} {b' : Block w} {anal' : OptAnalysis w}
    (hr : (optimizeOnce b prevAnal).run os = .ok ((b', anal'), os')) : C02Emit.OnceOk b' env :=
  (onceOk_iff_not_bad b' env).2 (optimizeOnce_sim_g hw hcl hamo hs ha hr).2

#print axioms rebuildInsts_all_g
#print axioms optimizeOnce_preserves_g
#print axioms optimizeOnce_onceOk_g

end OptProof
end Hpbf
