/-
C02 (late passes of the bytecode generator), part 0: vocabulary.

* `StEq` / `IoEq`      – states equal extensionally (tape compared as a FUNCTION through `Tape.get`,
                          because `Tape.set` is move-to-front and passes may change the order of writes) /
                          equal up to the tape.
* `OutRel G E O`       – outcomes with the same constructor whose configurations are related by `G`
                          (`done`, `interrupted`), `E` (`stopped`, `bad`) and `O` (`outOfFuel`).
* `ObsEq'` (strong)    – `StEq` + budget for the four final outcomes, `IoEq` + budget for `outOfFuel`.
* `ObsEqIO` (weak)     – as `ObsEq'`, but `stopped`/`bad` only compare pointer, environment, trace, budget.
* `BehEq` / `BehEqIO`  – whole runs from the initial configuration, in both directions, `∃ fuel'`.
* `lockstep_run`       – a step-for-step simulation lifts to `runCfg` with the same fuel.
* `Bc.step` does not depend on `live`, `temps`, `minAcc`, `maxAcc` (`step_insts_only`).
-/
import Hpbf.BcGen
import Hpbf.Proofs.C11
import Hpbf.Proofs.C11Tape

namespace Hpbf
namespace C02

open Bc BcWf BcGen C11

variable {w : Nat}

/-! ### observations -/

/-- States equal up to the tape. -/
structure IoEq (s1 s2 : State w) : Prop where
  ptr : s1.ptr = s2.ptr
  env : s1.env = s2.env
  trace : s1.trace = s2.trace

/-- States equal, the tape compared as a function. -/
structure StEq (s1 s2 : State w) : Prop where
  io : IoEq s1 s2
  tape : ∀ x, s1.tape.get x = s2.tape.get x

theorem IoEq.refl (s : State w) : IoEq s s := ⟨rfl, rfl, rfl⟩
theorem IoEq.symm {s1 s2 : State w} (h : IoEq s1 s2) : IoEq s2 s1 := ⟨h.1.symm, h.2.symm, h.3.symm⟩
theorem IoEq.trans {s1 s2 s3 : State w} (h : IoEq s1 s2) (g : IoEq s2 s3) : IoEq s1 s3 :=
  ⟨h.1.trans g.1, h.2.trans g.2, h.3.trans g.3⟩
theorem StEq.refl (s : State w) : StEq s s := ⟨IoEq.refl s, fun _ => rfl⟩
theorem StEq.symm {s1 s2 : State w} (h : StEq s1 s2) : StEq s2 s1 := ⟨h.1.symm, fun x => (h.2 x).symm⟩
theorem StEq.trans {s1 s2 s3 : State w} (h : StEq s1 s2) (g : StEq s2 s3) : StEq s1 s3 :=
  ⟨h.1.trans g.1, fun x => (h.2 x).trans (g.2 x)⟩

/-- Final configurations: same state (extensionally), same budget; pc and temporaries are not observed. -/
def CfgEq (c1 c2 : Cfg w) : Prop := StEq c1.st c2.st ∧ c1.budget = c2.budget
/-- The same up to the tape. -/
def CfgIo (c1 c2 : Cfg w) : Prop := IoEq c1.st c2.st ∧ c1.budget = c2.budget

theorem CfgEq.io {c1 c2 : Cfg w} (h : CfgEq c1 c2) : CfgIo c1 c2 := ⟨h.1.1, h.2⟩

def OutRel (G E O : Cfg w → Cfg w → Prop) : Outcome w → Outcome w → Prop
  | .done a, .done b => G a b
  | .interrupted a, .interrupted b => G a b
  | .stopped a, .stopped b => E a b
  | .bad a, .bad b => E a b
  | .outOfFuel a, .outOfFuel b => O a b
  | _, _ => False

def StepRel (R G E : Cfg w → Cfg w → Prop) : StepRes w → StepRes w → Prop
  | .next a, .next b => R a b
  | .halt a, .halt b => G a b
  | .interrupted a, .interrupted b => G a b
  | .stop a, .stop b => E a b
  | .bad a, .bad b => E a b
  | _, _ => False

/-- Strong observation. -/
def ObsEq' : Outcome w → Outcome w → Prop := OutRel CfgEq CfgEq CfgIo
/-- Observation up to the tape after an error ending (`stopped` at a failing I/O operation, `bad`). -/
def ObsEqIO : Outcome w → Outcome w → Prop := OutRel CfgEq CfgIo CfgIo

theorem OutRel.mono {G E O G' E' O' : Cfg w → Cfg w → Prop} (hG : ∀ a b, G a b → G' a b)
    (hE : ∀ a b, E a b → E' a b) (hO : ∀ a b, O a b → O' a b) {o1 o2 : Outcome w}
    (h : OutRel G E O o1 o2) : OutRel G' E' O' o1 o2 := by
  cases o1 <;> cases o2 <;> simp only [OutRel] at h ⊢
  all_goals first | exact hG _ _ h | exact hE _ _ h | exact hO _ _ h

theorem OutRel.refl {G E O : Cfg w → Cfg w → Prop} (hG : ∀ a, G a a) (hE : ∀ a, E a a)
    (hO : ∀ a, O a a) (o : Outcome w) : OutRel G E O o o := by
  cases o <;> simp only [OutRel]
  all_goals first | exact hG _ | exact hE _ | exact hO _

theorem OutRel.symm {G E O : Cfg w → Cfg w → Prop} (hG : ∀ a b, G a b → G b a)
    (hE : ∀ a b, E a b → E b a) (hO : ∀ a b, O a b → O b a) {o1 o2 : Outcome w}
    (h : OutRel G E O o1 o2) : OutRel G E O o2 o1 := by
  cases o1 <;> cases o2 <;> simp only [OutRel] at h ⊢
  all_goals first | exact hG _ _ h | exact hE _ _ h | exact hO _ _ h

theorem OutRel.trans {G E O : Cfg w → Cfg w → Prop} (hG : ∀ a b c, G a b → G b c → G a c)
    (hE : ∀ a b c, E a b → E b c → E a c) (hO : ∀ a b c, O a b → O b c → O a c)
    {o1 o2 o3 : Outcome w} (h : OutRel G E O o1 o2) (g : OutRel G E O o2 o3) : OutRel G E O o1 o3 := by
  cases o1 <;> cases o2 <;> simp only [OutRel] at h <;> cases o3 <;> simp only [OutRel] at g ⊢
  all_goals first | exact hG _ _ _ h g | exact hE _ _ _ h g | exact hO _ _ _ h g

theorem CfgEq.refl (a : Cfg w) : CfgEq a a := ⟨StEq.refl _, rfl⟩
theorem CfgIo.refl (a : Cfg w) : CfgIo a a := ⟨IoEq.refl _, rfl⟩
theorem CfgEq.symm {a b : Cfg w} (h : CfgEq a b) : CfgEq b a := ⟨h.1.symm, h.2.symm⟩
theorem CfgIo.symm {a b : Cfg w} (h : CfgIo a b) : CfgIo b a := ⟨h.1.symm, h.2.symm⟩
theorem CfgEq.trans {a b c : Cfg w} (h : CfgEq a b) (g : CfgEq b c) : CfgEq a c :=
  ⟨h.1.trans g.1, h.2.trans g.2⟩
theorem CfgIo.trans {a b c : Cfg w} (h : CfgIo a b) (g : CfgIo b c) : CfgIo a c :=
  ⟨h.1.trans g.1, h.2.trans g.2⟩

theorem ObsEq'.refl (o : Outcome w) : ObsEq' o o := OutRel.refl CfgEq.refl CfgEq.refl CfgIo.refl o
theorem ObsEqIO.refl (o : Outcome w) : ObsEqIO o o := OutRel.refl CfgEq.refl CfgIo.refl CfgIo.refl o
theorem ObsEq'.symm {o1 o2 : Outcome w} (h : ObsEq' o1 o2) : ObsEq' o2 o1 :=
  OutRel.symm (fun _ _ h => CfgEq.symm h) (fun _ _ h => CfgEq.symm h) (fun _ _ h => CfgIo.symm h) h
theorem ObsEqIO.symm {o1 o2 : Outcome w} (h : ObsEqIO o1 o2) : ObsEqIO o2 o1 :=
  OutRel.symm (fun _ _ h => CfgEq.symm h) (fun _ _ h => CfgIo.symm h) (fun _ _ h => CfgIo.symm h) h
theorem ObsEq'.trans {o1 o2 o3 : Outcome w} (h : ObsEq' o1 o2) (g : ObsEq' o2 o3) : ObsEq' o1 o3 :=
  OutRel.trans (G := CfgEq) (E := CfgEq) (O := CfgIo) (fun _ _ _ h g => CfgEq.trans h g)
    (fun _ _ _ h g => CfgEq.trans h g) (fun _ _ _ h g => CfgIo.trans h g) h g
theorem ObsEqIO.trans {o1 o2 o3 : Outcome w} (h : ObsEqIO o1 o2) (g : ObsEqIO o2 o3) : ObsEqIO o1 o3 :=
  OutRel.trans (G := CfgEq) (E := CfgIo) (O := CfgIo) (fun _ _ _ h g => CfgEq.trans h g)
    (fun _ _ _ h g => CfgIo.trans h g) (fun _ _ _ h g => CfgIo.trans h g) h g
theorem ObsEq'.io {o1 o2 : Outcome w} (h : ObsEq' o1 o2) : ObsEqIO o1 o2 :=
  OutRel.mono (fun _ _ h => h) (fun _ _ h => h.io) (fun _ _ h => h) h

/-- Both observations imply: same constructor, same trace, same environment, same pointer, same budget. -/
theorem ObsEqIO.tag_io {o1 o2 : Outcome w} (h : ObsEqIO o1 o2) :
    o1.tag = o2.tag ∧ IoEq o1.cfg.st o2.cfg.st ∧ o1.cfg.budget = o2.cfg.budget := by
  cases o1 <;> cases o2 <;> simp only [ObsEqIO, OutRel] at h
  all_goals first | exact ⟨rfl, h.1.1, h.2⟩ | exact ⟨rfl, h.1, h.2⟩

/-! ### behavioural equivalence of whole runs -/

/-- Every run of `p` is matched by a run of `q` (with possibly different fuel). -/
def Beh (Ob : Outcome w → Outcome w → Prop) (p q : Program w) : Prop :=
  ∀ (limited : Bool) (b fuel : Nat) (env : Env),
    ∃ fuel', Ob (Bc.run p limited b fuel env) (Bc.run q limited b fuel' env)

def BehEq (p q : Program w) : Prop := Beh ObsEq' p q ∧ Beh ObsEq' q p
def BehEqIO (p q : Program w) : Prop := Beh ObsEqIO p q ∧ Beh ObsEqIO q p

theorem Beh.refl {Ob : Outcome w → Outcome w → Prop} (h : ∀ o, Ob o o) (p : Program w) : Beh Ob p p :=
  fun _ _ fuel _ => ⟨fuel, h _⟩

theorem Beh.trans {Ob : Outcome w → Outcome w → Prop} (h : ∀ a b c, Ob a b → Ob b c → Ob a c)
    {p q r : Program w} (h1 : Beh Ob p q) (h2 : Beh Ob q r) : Beh Ob p r := by
  intro limited b fuel env
  obtain ⟨f1, e1⟩ := h1 limited b fuel env
  obtain ⟨f2, e2⟩ := h2 limited b f1 env
  exact ⟨f2, h _ _ _ e1 e2⟩

theorem Beh.mono {Ob Ob' : Outcome w → Outcome w → Prop} (h : ∀ a b, Ob a b → Ob' a b)
    {p q : Program w} (h1 : Beh Ob p q) : Beh Ob' p q := by
  intro limited b fuel env
  obtain ⟨f1, e1⟩ := h1 limited b fuel env
  exact ⟨f1, h _ _ e1⟩

theorem BehEq.refl (p : Program w) : BehEq p p := ⟨Beh.refl ObsEq'.refl p, Beh.refl ObsEq'.refl p⟩
theorem BehEq.symm {p q : Program w} (h : BehEq p q) : BehEq q p := ⟨h.2, h.1⟩
theorem BehEq.trans {p q r : Program w} (h : BehEq p q) (g : BehEq q r) : BehEq p r :=
  ⟨Beh.trans (Ob := ObsEq') (fun _ _ _ h g => ObsEq'.trans h g) h.1 g.1, Beh.trans (Ob := ObsEq') (fun _ _ _ h g => ObsEq'.trans h g) g.2 h.2⟩
theorem BehEqIO.refl (p : Program w) : BehEqIO p p := ⟨Beh.refl ObsEqIO.refl p, Beh.refl ObsEqIO.refl p⟩
theorem BehEqIO.symm {p q : Program w} (h : BehEqIO p q) : BehEqIO q p := ⟨h.2, h.1⟩
theorem BehEqIO.trans {p q r : Program w} (h : BehEqIO p q) (g : BehEqIO q r) : BehEqIO p r :=
  ⟨Beh.trans (Ob := ObsEqIO) (fun _ _ _ h g => ObsEqIO.trans h g) h.1 g.1, Beh.trans (Ob := ObsEqIO) (fun _ _ _ h g => ObsEqIO.trans h g) g.2 h.2⟩
theorem BehEq.io {p q : Program w} (h : BehEq p q) : BehEqIO p q :=
  ⟨Beh.mono (fun _ _ h => ObsEq'.io h) h.1, Beh.mono (fun _ _ h => ObsEq'.io h) h.2⟩

/-- Relating `run`s reduces to relating `runCfg`s from the common initial configuration. -/
theorem beh_of_runCfg {Ob : Outcome w → Outcome w → Prop} {p q : Program w}
    (hint : ∀ c, Ob (.interrupted c) (.interrupted c))
    (h : ∀ (limited : Bool) (fuel : Nat) (c : Cfg w), c.pc = 0 →
      ∃ fuel', Ob (runCfg p limited fuel c) (runCfg q limited fuel' c)) : Beh Ob p q := by
  intro limited b fuel env
  unfold Bc.run
  by_cases hb : (limited && b == 0) = true
  · simp only [hb, if_true]
    exact ⟨0, hint _⟩
  · simp only [hb]
    exact h limited fuel _ rfl

/-! ### step-for-step simulations -/

theorem lockstep_run {p q : Program w} {limited : Bool} {R G E O : Cfg w → Cfg w → Prop}
    (hstep : ∀ c1 c2, R c1 c2 → StepRel R G E (step p limited c1) (step q limited c2))
    (hO : ∀ c1 c2, R c1 c2 → O c1 c2) :
    ∀ (fuel : Nat) (c1 c2 : Cfg w), R c1 c2 →
      OutRel G E O (runCfg p limited fuel c1) (runCfg q limited fuel c2) := by
  intro fuel
  induction fuel with
  | zero => intro c1 c2 h; exact hO _ _ h
  | succ n ih =>
    intro c1 c2 h
    have hs := hstep c1 c2 h
    simp only [runCfg]
    cases h1 : step p limited c1 <;> cases h2 : step q limited c2 <;> rw [h1, h2] at hs <;>
      simp only [StepRel] at hs
    all_goals first | exact ih _ _ hs | exact hs

/-! ### `Bc.step` only looks at the instructions -/

theorem step_insts_only {p q : Program w} (h : p.insts = q.insts) (limited : Bool) (c : Cfg w) :
    step p limited c = step q limited c := by
  unfold step
  rw [h]

theorem runCfg_insts_only {p q : Program w} (h : p.insts = q.insts) (limited : Bool) (fuel : Nat)
    (c : Cfg w) : runCfg p limited fuel c = runCfg q limited fuel c := by
  induction fuel generalizing c with
  | zero => rfl
  | succ n ih =>
    simp only [runCfg, step_insts_only h]
    cases step q limited c <;> simp only [ih]

theorem run_insts_only {p q : Program w} (h : p.insts = q.insts) (limited : Bool) (b fuel : Nat)
    (env : Env) : Bc.run p limited b fuel env = Bc.run q limited b fuel env := by
  unfold Bc.run
  simp only [runCfg_insts_only h]

/-- The fields `temps`, `minAcc`, `maxAcc`, `live` of a program do not influence its behaviour. -/
theorem run_fields_irrelevant (t t' : Nat) (mn mn' mx mx' : Int) (lv lv' : Array Nat)
    (insts : Array (Instr w)) (limited : Bool) (b fuel : Nat) (env : Env) :
    Bc.run ⟨t, mn, mx, lv, insts⟩ limited b fuel env = Bc.run ⟨t', mn', mx', lv', insts⟩ limited b fuel env :=
  run_insts_only (p := ⟨t, mn, mx, lv, insts⟩) (q := ⟨t', mn', mx', lv', insts⟩) rfl limited b fuel env

theorem behEq_of_insts_eq {p q : Program w} (h : p.insts = q.insts) : BehEq p q := by
  constructor <;> intro limited b fuel env
  · exact ⟨fuel, by rw [run_insts_only h]; exact ObsEq'.refl _⟩
  · exact ⟨fuel, by rw [run_insts_only h]; exact ObsEq'.refl _⟩

/-- One more step of fuel. -/
theorem runCfg_next {p : Program w} {limited : Bool} {c c' : Cfg w} (h : step p limited c = .next c')
    (fuel : Nat) : runCfg p limited (fuel + 1) c = runCfg p limited fuel c' := by
  simp only [runCfg, h]

end C02
end Hpbf
