/-
C11 for the output of `allocate_temps`, part 1: the dataflow solvers of the checker are COMPLETE.

`BcWf.check` tests `initOk p (initSolve p)` and `liveOk p numRegs (liveSolve p)`, where `initSolve` / `liveSolve`
iterate a round function a fixed number of times.  This file shows, for every program `p`:
* `alloc_initSolve_complete`: if SOME array `I` (with entries below `p.temps`) is accepted by `initOk`, then the
  computed array `initSolve p` is accepted (it is the greatest solution, and the iteration count suffices);
* `alloc_liveSolve_complete`: if SOME array `O` is accepted by `liveOk` (and the temporaries read by the
  instructions are below `p.temps`), then `liveSolve p` is accepted (least solution).
So exhibiting any solution is enough to make the boolean checker answer `true`.
-/
import Hpbf.Proofs.C11Basic
set_option linter.unusedSimpArgs false

namespace Hpbf
namespace C02
namespace Alloc

open Bc BcWf C11

variable {w : Nat}

namespace Wf

/-! ### the measure -/

def mu (A : Array (List Nat)) : Nat := (A.toList.map List.length).sum

theorem sum_set (l : List (List Nat)) : ∀ (j : Nat) (v : List Nat) (h : j < l.length),
    ((l.set j v).map List.length).sum + (l[j]).length = (l.map List.length).sum + v.length := by
  induction l with
  | nil => intro j v h; simp at h
  | cons a t ih =>
    intro j v h
    cases j with
    | zero => simp; omega
    | succ j =>
      have := ih j v (by simpa using h)
      simp only [List.set_cons_succ, List.map_cons, List.sum_cons, List.getElem_cons_succ]
      omega

theorem getD_eq_getElem {A : Array (List Nat)} {j : Nat} (h : j < A.size) : BcWf.getD A j = A[j] := by
  simp [BcWf.getD, Array.getElem?_eq_getElem h]

theorem mu_set {A : Array (List Nat)} {j : Nat} (v : List Nat) (h : j < A.size) :
    mu (A.setIfInBounds j v) + (BcWf.getD A j).length = mu A + v.length := by
  unfold mu
  rw [Array.toList_setIfInBounds, getD_eq_getElem h]
  have := sum_set A.toList j v (by simpa using h)
  rw [Array.getElem_toList] at this
  exact this

theorem getD_set {A : Array (List Nat)} {j : Nat} (v : List Nat) (h : j < A.size) (i : Nat) :
    BcWf.getD (A.setIfInBounds j v) i = if i = j then v else BcWf.getD A i := by
  unfold BcWf.getD
  rw [Array.getElem?_setIfInBounds]
  by_cases e : j = i
  · subst e; simp [h]
  · have : ¬ i = j := fun h => e h.symm
    simp [e, this]

theorem set_getD_self {A : Array (List Nat)} {j : Nat} (h : j < A.size) :
    A.setIfInBounds j (BcWf.getD A j) = A := by
  apply Array.ext
  · rw [Array.size_setIfInBounds]
  · intro i h1 h2
    rw [Array.getElem_setIfInBounds]
    split
    · rename_i e; subst e; rw [getD_eq_getElem h]
    · rfl

theorem mu_le_of_bound {A : Array (List Nat)} {B : Nat} (h : ∀ l ∈ A.toList, List.length l ≤ B) :
    mu A ≤ A.size * B := by
  unfold mu
  rw [← Array.length_toList]
  generalize A.toList = l at h
  induction l with
  | nil => simp
  | cons a t ih =>
    have h1 := h a List.mem_cons_self
    have h2 := ih (fun l hl => h l (List.mem_cons_of_mem _ hl))
    simp only [List.map_cons, List.sum_cons, List.length_cons]
    rw [Nat.add_mul]
    omega

/-! ### `initRound` -/

/-- One propagation `i → j`. -/
@[reducible] def upd (out : List Nat) (acc : Array (List Nat)) (j : Nat) : Array (List Nat) :=
  if j < acc.size then acc.setIfInBounds j (inter (BcWf.getD acc j) out) else acc

/-- All propagations out of `i`. -/
def stepI (p : Program w) (acc : Array (List Nat)) (i : Nat) : Array (List Nat) :=
  match p.insts[i]? with
  | none => acc
  | some instr =>
    match succs p.insts.size i instr with
    | none => acc
    | some ss => ss.foldl (upd (union (BcWf.getD acc i) (defs instr))) acc

theorem initRound_eq (p : Program w) (ins : Array (List Nat)) :
    initRound p ins = (List.range p.insts.size).foldl (stepI p) ins := by
  unfold initRound
  congr 1

/-- Pointwise inclusion. -/
def Sub (A B : Array (List Nat)) : Prop := ∀ i t, t ∈ BcWf.getD A i → t ∈ BcWf.getD B i

theorem Sub.refl (A : Array (List Nat)) : Sub A A := fun _ _ h => h
theorem Sub.trans {A B C : Array (List Nat)} (h1 : Sub A B) (h2 : Sub B C) : Sub A C :=
  fun i t h => h2 i t (h1 i t h)

theorem upd_size (out : List Nat) (acc : Array (List Nat)) (j : Nat) : (upd out acc j).size = acc.size := by
  unfold upd; split <;> simp

theorem getD_upd (out : List Nat) (acc : Array (List Nat)) (j i : Nat) :
    BcWf.getD (upd out acc j) i = if i = j then inter (BcWf.getD acc j) out else BcWf.getD acc i := by
  unfold upd
  split
  · rename_i h; exact getD_set _ h i
  · rename_i h
    split
    · rename_i e; subst e
      rw [getD_oob (Nat.le_of_not_lt h)]; rfl
    · rfl

theorem upd_sub (out : List Nat) (acc : Array (List Nat)) (j : Nat) : Sub (upd out acc j) acc := by
  intro i t ht
  rw [getD_upd] at ht
  split at ht
  · rename_i e; subst e; exact (mem_inter.1 ht).1
  · exact ht

theorem mu_upd (out : List Nat) (acc : Array (List Nat)) (j : Nat) :
    mu (upd out acc j) ≤ mu acc ∧ (mu (upd out acc j) = mu acc → upd out acc j = acc) := by
  unfold upd
  split
  · rename_i h
    have h1 := mu_set (inter (BcWf.getD acc j) out) h
    have h2 : (inter (BcWf.getD acc j) out).length ≤ (BcWf.getD acc j).length := List.length_filter_le _ _
    refine ⟨by omega, fun he => ?_⟩
    have h3 : (inter (BcWf.getD acc j) out).length = (BcWf.getD acc j).length := by omega
    have h4 : inter (BcWf.getD acc j) out = BcWf.getD acc j :=
      List.filter_eq_self.2 (List.length_filter_eq_length_iff.1 h3)
    rw [h4]; exact set_getD_self h
  · exact ⟨Nat.le_refl _, fun _ => rfl⟩

theorem upd_fix {out : List Nat} {acc : Array (List Nat)} {j : Nat} (h : upd out acc j = acc) :
    ∀ t ∈ BcWf.getD acc j, t ∈ out := by
  intro t ht
  have := getD_upd out acc j j
  rw [h] at this
  simp only [if_true] at this
  rw [this] at ht
  exact (mem_inter.1 ht).2

/-- The inner loop. -/
theorem inner_spec (out : List Nat) : ∀ (ss : List Nat) (acc : Array (List Nat)),
    (ss.foldl (upd out) acc).size = acc.size ∧ Sub (ss.foldl (upd out) acc) acc ∧
    mu (ss.foldl (upd out) acc) ≤ mu acc ∧
    (mu (ss.foldl (upd out) acc) = mu acc → ss.foldl (upd out) acc = acc ∧ ∀ j ∈ ss, upd out acc j = acc) := by
  intro ss
  induction ss with
  | nil => intro acc; exact ⟨rfl, Sub.refl _, Nat.le_refl _, fun _ => ⟨rfl, fun j hj => by cases hj⟩⟩
  | cons j ss ih =>
    intro acc
    obtain ⟨i1, i2, i3, i4⟩ := ih (upd out acc j)
    obtain ⟨u1, u2⟩ := mu_upd out acc j
    simp only [List.foldl_cons]
    refine ⟨by rw [i1, upd_size], i2.trans (upd_sub out acc j), Nat.le_trans i3 u1, ?_⟩
    intro he
    have e1 : mu (upd out acc j) = mu acc := by omega
    have e2 := u2 e1
    rw [e2] at i4 he ⊢
    obtain ⟨q1, q2⟩ := i4 he
    refine ⟨q1, fun j' hj' => ?_⟩
    rcases List.mem_cons.1 hj' with rfl | h
    · exact e2
    · exact q2 j' h

theorem inner_lower {out : List Nat} {I : Array (List Nat)} : ∀ (ss : List Nat) (acc : Array (List Nat)),
    (∀ j ∈ ss, ∀ t ∈ BcWf.getD I j, t ∈ out) → Sub I acc → Sub I (ss.foldl (upd out) acc) := by
  intro ss
  induction ss with
  | nil => intro acc _ h; exact h
  | cons j ss ih =>
    intro acc h1 h2
    simp only [List.foldl_cons]
    apply ih _ (fun j' hj' => h1 j' (List.mem_cons_of_mem _ hj'))
    intro i t ht
    rw [getD_upd]
    split
    · rename_i e; subst e
      exact mem_inter.2 ⟨h2 i t ht, h1 i List.mem_cons_self t ht⟩
    · exact h2 i t ht

/-- The array is stable under the propagations out of `i`. -/
def FixAt (p : Program w) (A : Array (List Nat)) (i : Nat) : Prop :=
  ∀ instr ss, p.insts[i]? = some instr → succs p.insts.size i instr = some ss →
    ∀ j ∈ ss, ∀ t ∈ BcWf.getD A j, t ∈ BcWf.getD A i ∨ t ∈ defs instr

theorem stepI_spec (p : Program w) (acc : Array (List Nat)) (i : Nat) :
    (stepI p acc i).size = acc.size ∧ Sub (stepI p acc i) acc ∧ mu (stepI p acc i) ≤ mu acc ∧
    (mu (stepI p acc i) = mu acc → stepI p acc i = acc ∧ FixAt p acc i) := by
  unfold stepI FixAt
  cases hi : p.insts[i]? with
  | none => exact ⟨rfl, Sub.refl _, Nat.le_refl _, fun _ => ⟨rfl, fun _ _ h => by cases h⟩⟩
  | some instr =>
    simp only
    cases hs : succs p.insts.size i instr with
    | none =>
      exact ⟨rfl, Sub.refl _, Nat.le_refl _, fun _ => ⟨rfl, fun _ _ e1 e2 => by cases e1; rw [hs] at e2; cases e2⟩⟩
    | some ss =>
      simp only
      obtain ⟨i1, i2, i3, i4⟩ := inner_spec (union (BcWf.getD acc i) (defs instr)) ss acc
      refine ⟨i1, i2, i3, fun he => ?_⟩
      obtain ⟨q1, q2⟩ := i4 he
      refine ⟨q1, ?_⟩
      intro instr' ss' e1 e2 j hj t ht
      cases e1
      rw [hs] at e2; cases e2
      exact mem_union.1 (upd_fix (q2 j hj) t ht)

theorem stepI_lower {p : Program w} {I : Array (List Nat)} (hI : InitFacts p I) {acc : Array (List Nat)}
    (h : Sub I acc) (i : Nat) : Sub I (stepI p acc i) := by
  unfold stepI
  cases hi : p.insts[i]? with
  | none => exact h
  | some instr =>
    simp only
    cases hs : succs p.insts.size i instr with
    | none => exact h
    | some ss =>
      simp only
      apply inner_lower ss acc _ h
      intro j hj t ht
      obtain ⟨ss', e, hf⟩ := hI.flow hi
      rw [hs] at e; cases e
      rcases hf j hj t ht with g | g
      · exact mem_union.2 (Or.inl (h i t g))
      · exact mem_union.2 (Or.inr g)

theorem round_spec (p : Program w) : ∀ (is : List Nat) (acc : Array (List Nat)),
    (is.foldl (stepI p) acc).size = acc.size ∧ Sub (is.foldl (stepI p) acc) acc ∧
    mu (is.foldl (stepI p) acc) ≤ mu acc ∧
    (mu (is.foldl (stepI p) acc) = mu acc → is.foldl (stepI p) acc = acc ∧ ∀ i ∈ is, FixAt p acc i) := by
  intro is
  induction is with
  | nil => intro acc; exact ⟨rfl, Sub.refl _, Nat.le_refl _, fun _ => ⟨rfl, fun j hj => by cases hj⟩⟩
  | cons i is ih =>
    intro acc
    obtain ⟨i1, i2, i3, i4⟩ := ih (stepI p acc i)
    obtain ⟨u0, u1, u2, u3⟩ := stepI_spec p acc i
    simp only [List.foldl_cons]
    refine ⟨by rw [i1, u0], i2.trans u1, Nat.le_trans i3 u2, ?_⟩
    intro he
    have e1 : mu (stepI p acc i) = mu acc := by omega
    obtain ⟨e2, e3⟩ := u3 e1
    rw [e2] at i4 he ⊢
    obtain ⟨q1, q2⟩ := i4 he
    refine ⟨q1, fun j' hj' => ?_⟩
    rcases List.mem_cons.1 hj' with rfl | h
    · exact e3
    · exact q2 j' h

theorem round_lower {p : Program w} {I : Array (List Nat)} (hI : InitFacts p I) :
    ∀ (is : List Nat) (acc : Array (List Nat)), Sub I acc → Sub I (is.foldl (stepI p) acc) := by
  intro is
  induction is with
  | nil => intro acc h; exact h
  | cons i is ih => intro acc h; exact ih _ (stepI_lower hI h i)

/-! ### iteration -/

theorem iterate_fixed {α : Type} (f : α → α) {x : α} (h : f x = x) : ∀ k, iterate f k x = x := by
  intro k
  induction k with
  | zero => rfl
  | succ k ih => rw [iterate, h, ih]

/-- A round function that does not increase a measure and is the identity when the measure stays the same reaches
a fixed point after more rounds than the initial measure. -/
theorem iterate_reaches_fix {α : Type} (f : α → α) (m : α → Nat) (P : α → Prop)
    (hP : ∀ x, P x → P (f x))
    (hle : ∀ x, P x → m (f x) ≤ m x) (heq : ∀ x, P x → m (f x) = m x → f x = x) :
    ∀ (k : Nat) (x : α), P x → m x < k → f (iterate f k x) = iterate f k x ∧ P (iterate f k x) := by
  intro k
  induction k with
  | zero => intro x _ h; omega
  | succ k ih =>
    intro x hx h
    rw [iterate]
    by_cases e : m (f x) = m x
    · have := heq x hx e
      rw [this, iterate_fixed f this]
      exact ⟨this, hx⟩
    · have := hle x hx
      exact ih (f x) (hP x hx) (by omega)

theorem iterate_inv {α : Type} (f : α → α) (P : α → Prop) (hP : ∀ x, P x → P (f x)) :
    ∀ (k : Nat) (x : α), P x → P (iterate f k x) := by
  intro k
  induction k with
  | zero => intro x h; exact h
  | succ k ih => intro x h; rw [iterate]; exact ih _ (hP x h)

/-! ### `initSolve` -/

theorem getD_replicate (n : Nat) (v : List Nat) (i : Nat) :
    BcWf.getD (Array.replicate n v) i = if i < n then v else [] := by
  unfold BcWf.getD
  rw [Array.getElem?_replicate]
  split <;> rfl

def initStart (p : Program w) : Array (List Nat) :=
  (Array.replicate p.insts.size (List.range p.temps)).setIfInBounds 0 []

theorem initSolve_eq (p : Program w) :
    initSolve p = iterate (initRound p) (p.insts.size * (p.temps + 1) + 1) (initStart p) := rfl

theorem getD_initStart (p : Program w) (i : Nat) :
    BcWf.getD (initStart p) i = if i = 0 then [] else if i < p.insts.size then List.range p.temps else [] := by
  unfold initStart
  by_cases h : 0 < p.insts.size
  · rw [getD_set _ (by simpa using h), getD_replicate]
  · rw [getD_oob (by simp; omega)]
    have : ¬ i < p.insts.size := by omega
    simp [this]

theorem mu_initStart (p : Program w) : mu (initStart p) ≤ p.insts.size * p.temps := by
  have h := mu_le_of_bound (A := initStart p) (B := p.temps) (by
    intro l hl
    obtain ⟨i, hi, rfl⟩ := List.getElem_of_mem hl
    rw [Array.getElem_toList, ← getD_eq_getElem (by simpa using hi), getD_initStart]
    split
    · simp
    · split <;> simp)
  have : (initStart p).size = p.insts.size := by simp [initStart]
  rw [this] at h
  exact h

end Wf

open Wf

/-- `initOk` is exactly `InitFacts`. -/
theorem alloc_initOk_of_facts {p : Program w} {I : Array (List Nat)} (h : InitFacts p I) :
    initOk p I = true := by
  simp only [initOk, Bool.and_eq_true, beq_iff_eq, Bool.or_eq_true, List.all_eq_true, List.mem_range]
  refine ⟨⟨h.size, Or.inr (by rw [h.entry])⟩, ?_⟩
  intro i hi
  have hget : p.insts[i]? = some p.insts[i] := Array.getElem?_eq_getElem hi
  obtain ⟨ss, hs, hf⟩ := h.flow hget
  simp only [hget, hs, Bool.and_eq_true, List.all_eq_true, Bool.or_eq_true, decide_eq_true_eq]
  refine ⟨subset_iff.2 (h.uses hget), ?_⟩
  intro j hj
  by_cases hjn : j ≥ p.insts.size
  · exact Or.inl hjn
  · exact Or.inr (subset_iff.2 (fun t ht => mem_union.2 (hf j hj t ht)))

/-- **Completeness of `initSolve`.** -/
theorem alloc_initSolve_facts {p : Program w} {I : Array (List Nat)} (hI : InitFacts p I)
    (hb : ∀ i t, t ∈ BcWf.getD I i → t < p.temps) : InitFacts p (initSolve p) := by
  have hIstart : Sub I (initStart p) := by
    intro i t ht
    rw [getD_initStart]
    split
    · rename_i e; subst e; rw [hI.entry] at ht; cases ht
    · split
      · exact List.mem_range.2 (hb i t ht)
      · rename_i h1; rw [getD_oob (by rw [hI.size]; omega)] at ht; cases ht
  obtain ⟨hfix, hsz, hlow, hup⟩ := iterate_reaches_fix (initRound p) mu
    (fun A => A.size = p.insts.size ∧ Sub I A ∧ Sub A (initStart p))
    (fun A ⟨h1, h2, h3⟩ => by
      rw [initRound_eq]
      obtain ⟨q1, q2, _⟩ := round_spec p (List.range p.insts.size) A
      exact ⟨q1.trans h1, round_lower hI _ A h2, q2.trans h3⟩)
    (fun A _ => by rw [initRound_eq]; exact (round_spec p _ A).2.2.1)
    (fun A _ he => by rw [initRound_eq] at he ⊢; exact ((round_spec p _ A).2.2.2 he).1)
    (p.insts.size * (p.temps + 1) + 1) (initStart p)
    ⟨by simp [initStart], hIstart, Sub.refl _⟩
    (by have := mu_initStart p; rw [Nat.mul_succ]; omega)
  rw [← initSolve_eq] at hfix hsz hlow hup
  have hFix : ∀ i, i < p.insts.size → FixAt p (initSolve p) i := by
    intro i hi
    rw [initRound_eq] at hfix
    exact ((round_spec p _ (initSolve p)).2.2.2 (by rw [hfix])).2 i (List.mem_range.2 hi)
  refine ⟨hsz, ?_, ?_, ?_⟩
  · apply List.eq_nil_iff_forall_not_mem.2
    intro t ht
    have := hup 0 t ht
    rw [getD_initStart] at this
    simp at this
  · intro i ins hi t ht
    exact hlow i t (hI.uses hi t ht)
  · intro i ins hi
    obtain ⟨ss, hs, _⟩ := hI.flow hi
    exact ⟨ss, hs, fun j hj t ht => hFix i (getElem?_lt hi) ins ss hi hs j hj t ht⟩

theorem alloc_initSolve_complete {p : Program w} {I : Array (List Nat)} (hI : initOk p I = true)
    (hb : ∀ i t, t ∈ BcWf.getD I i → t < p.temps) : initOk p (initSolve p) = true :=
  alloc_initOk_of_facts (alloc_initSolve_facts (initOk_facts hI) hb)

namespace Wf

/-! ### the measure for the liveness solver: distinct elements below `T` -/

/-- Number of `t < T` that occur in `l`. -/
def cnt (T : Nat) (l : List Nat) : Nat := ((List.range T).filter (fun t => l.contains t)).length

def nu (T : Nat) (A : Array (List Nat)) : Nat := (A.toList.map (cnt T)).sum

theorem cnt_le (T : Nat) (l : List Nat) : cnt T l ≤ T := by
  unfold cnt
  have := List.length_filter_le (fun t => l.contains t) (List.range T)
  simpa using this

theorem filter_length_mono {α : Type} (p q : α → Bool) (l : List α) (h : ∀ x ∈ l, p x = true → q x = true) :
    (l.filter p).length ≤ (l.filter q).length := by
  induction l with
  | nil => simp
  | cons a t ih =>
    have ih' := ih (fun x hx => h x (List.mem_cons_of_mem _ hx))
    have ha := h a List.mem_cons_self
    simp only [List.filter_cons]
    cases hp : p a with
    | true => rw [ha hp]; simp; omega
    | false =>
      cases hq : q a <;> simp <;> omega

theorem filter_length_lt {α : Type} (p q : α → Bool) (l : List α) (h : ∀ x ∈ l, p x = true → q x = true)
    {y : α} (hy : y ∈ l) (hq : q y = true) (hp : p y = false) :
    (l.filter p).length < (l.filter q).length := by
  induction l with
  | nil => cases hy
  | cons a t ih =>
    have hmono := filter_length_mono p q t (fun x hx => h x (List.mem_cons_of_mem _ hx))
    simp only [List.filter_cons]
    rcases List.mem_cons.1 hy with rfl | hy'
    · rw [hp, hq]; simp; omega
    · have ih' := ih (fun x hx => h x (List.mem_cons_of_mem _ hx)) hy'
      have ha := h a List.mem_cons_self
      cases hpa : p a with
      | true => rw [ha hpa]; simp; omega
      | false => cases hqa : q a <;> simp <;> omega

theorem cnt_mono {T : Nat} {l l' : List Nat} (h : ∀ t ∈ l, t ∈ l') : cnt T l ≤ cnt T l' := by
  unfold cnt
  apply filter_length_mono
  intro x _ hx
  simp only [List.contains_eq_mem, decide_eq_true_eq] at hx ⊢
  exact h x hx

theorem cnt_lt {T : Nat} {l l' : List Nat} (h : ∀ t ∈ l, t ∈ l') {y : Nat} (hy : y < T) (h1 : y ∈ l')
    (h2 : y ∉ l) : cnt T l < cnt T l' := by
  unfold cnt
  apply filter_length_lt _ _ _ _ (List.mem_range.2 hy)
  · simpa using h1
  · simpa using h2
  · intro x _ hx
    simp only [List.contains_eq_mem, decide_eq_true_eq] at hx ⊢
    exact h x hx

theorem sum_set_f (f : List Nat → Nat) (l : List (List Nat)) : ∀ (j : Nat) (v : List Nat) (h : j < l.length),
    ((l.set j v).map f).sum + f (l[j]) = (l.map f).sum + f v := by
  induction l with
  | nil => intro j v h; simp at h
  | cons a t ih =>
    intro j v h
    cases j with
    | zero => simp; omega
    | succ j =>
      have := ih j v (by simpa using h)
      simp only [List.set_cons_succ, List.map_cons, List.sum_cons, List.getElem_cons_succ]
      omega

theorem nu_set {T : Nat} {A : Array (List Nat)} {j : Nat} (v : List Nat) (h : j < A.size) :
    nu T (A.setIfInBounds j v) + cnt T (BcWf.getD A j) = nu T A + cnt T v := by
  unfold nu
  rw [Array.toList_setIfInBounds, getD_eq_getElem h]
  have := sum_set_f (cnt T) A.toList j v (by simpa using h)
  rw [Array.getElem_toList] at this
  exact this

theorem nu_le (T : Nat) (A : Array (List Nat)) : nu T A ≤ A.size * T := by
  unfold nu
  rw [← Array.length_toList]
  generalize A.toList = l
  induction l with
  | nil => simp
  | cons a t ih =>
    have := cnt_le T a
    simp only [List.map_cons, List.sum_cons, List.length_cons]
    rw [Nat.add_mul]
    omega

/-! ### `liveRound` -/

/-- All entries are below `T`. -/
def Bdd (T : Nat) (A : Array (List Nat)) : Prop := ∀ i t, t ∈ BcWf.getD A i → t < T

/-- The new entry for `i`. -/
def oOf (p : Program w) (acc : Array (List Nat)) (ss : List Nat) (o0 : List Nat) : List Nat :=
  ss.foldl (fun o j =>
    match p.insts[j]? with
    | some ij => union o (liveIn ij (BcWf.getD acc j))
    | none => o) o0

def stepL (p : Program w) (i : Nat) (acc : Array (List Nat)) : Array (List Nat) :=
  match p.insts[i]? with
  | none => acc
  | some instr =>
    match succs p.insts.size i instr with
    | none => acc
    | some ss => acc.setIfInBounds i (oOf p acc ss (BcWf.getD acc i))

theorem liveRound_eq (p : Program w) (outs : Array (List Nat)) :
    liveRound p outs = (List.range p.insts.size).foldr (stepL p) outs := by
  unfold liveRound
  congr 1

theorem union_eq_self {o x : List Nat} (h : ∀ t ∈ x, t ∈ o) : union o x = o := by
  unfold union
  have : x.filter (fun y => !o.contains y) = [] := by
    apply List.filter_eq_nil_iff.2
    intro a ha
    simp [h a ha]
  rw [this, List.append_nil]

/-- The temporaries read by the instructions are below `T`. -/
def UsesLt (p : Program w) (T : Nat) : Prop :=
  ∀ (i : Nat) (ins : Instr w), p.insts[i]? = some ins → ∀ t ∈ uses ins, t < T

theorem oOf_spec {p : Program w} {T : Nat} (hu : UsesLt p T) {acc : Array (List Nat)} (hb : Bdd T acc) :
    ∀ (ss : List Nat) (o0 : List Nat), (∀ t ∈ o0, t < T) →
    (∀ t ∈ oOf p acc ss o0, t < T) ∧ (∀ t ∈ o0, t ∈ oOf p acc ss o0) ∧
    (∀ t ∈ oOf p acc ss o0, t ∈ o0 ∨ ∃ j ∈ ss, ∃ ij, p.insts[j]? = some ij ∧ t ∈ liveIn ij (BcWf.getD acc j)) ∧
    (∀ j ∈ ss, ∀ ij, p.insts[j]? = some ij → ∀ t ∈ liveIn ij (BcWf.getD acc j), t ∈ oOf p acc ss o0) ∧
    cnt T o0 ≤ cnt T (oOf p acc ss o0) ∧
    (cnt T (oOf p acc ss o0) = cnt T o0 → oOf p acc ss o0 = o0) := by
  intro ss
  induction ss with
  | nil =>
    intro o0 h0
    exact ⟨h0, fun t h => h, fun t h => Or.inl h, (fun j hj => by cases hj), Nat.le_refl _, fun _ => rfl⟩
  | cons j ss ih =>
    intro o0 h0
    unfold oOf
    simp only [List.foldl_cons]
    cases hj : p.insts[j]? with
    | none =>
      simp only
      obtain ⟨a1, a2, a3, a4, a5, a6⟩ := ih o0 h0
      refine ⟨a1, a2, ?_, ?_, a5, a6⟩
      · intro t ht
        rcases a3 t ht with g | ⟨j', g1, g2⟩
        · exact Or.inl g
        · exact Or.inr ⟨j', List.mem_cons_of_mem _ g1, g2⟩
      · intro j' hj' ij hij
        rcases List.mem_cons.1 hj' with rfl | g
        · rw [hj] at hij; cases hij
        · exact a4 j' g ij hij
    | some ij =>
      simp only
      have hlt : ∀ t ∈ liveIn ij (BcWf.getD acc j), t < T := by
        intro t ht
        rcases mem_liveIn.1 ht with g | ⟨g, _⟩
        · exact hu j ij hj t g
        · exact hb j t g
      have h1 : ∀ t ∈ union o0 (liveIn ij (BcWf.getD acc j)), t < T := by
        intro t ht
        rcases mem_union.1 ht with g | g
        · exact h0 t g
        · exact hlt t g
      obtain ⟨a1, a2, a3, a4, a5, a6⟩ := ih _ h1
      have hsub : ∀ t ∈ o0, t ∈ union o0 (liveIn ij (BcWf.getD acc j)) := fun t ht => mem_union.2 (Or.inl ht)
      have hc := cnt_mono (T := T) hsub
      refine ⟨a1, fun t ht => a2 t (hsub t ht), ?_, ?_, Nat.le_trans hc a5, ?_⟩
      · intro t ht
        rcases a3 t ht with g | ⟨j', g1, g2⟩
        · rcases mem_union.1 g with g' | g'
          · exact Or.inl g'
          · exact Or.inr ⟨j, List.mem_cons_self, ij, hj, g'⟩
        · exact Or.inr ⟨j', List.mem_cons_of_mem _ g1, g2⟩
      · intro j' hj' ij' hij' t ht
        rcases List.mem_cons.1 hj' with rfl | g
        · rw [hj] at hij'; cases hij'
          exact a2 t (mem_union.2 (Or.inr ht))
        · exact a4 j' g ij' hij' t ht
      · intro he
        have e1 : cnt T (union o0 (liveIn ij (BcWf.getD acc j))) = cnt T o0 := by
          have : oOf p acc ss (union o0 (liveIn ij (BcWf.getD acc j))) =
            List.foldl (fun o j => match p.insts[j]? with
              | some ij => union o (liveIn ij (BcWf.getD acc j))
              | none => o) (union o0 (liveIn ij (BcWf.getD acc j))) ss := rfl
          rw [this] at a5
          omega
        have hall : ∀ t ∈ liveIn ij (BcWf.getD acc j), t ∈ o0 := by
          intro t ht
          apply Classical.byContradiction
          intro hn
          have := cnt_lt (T := T) hsub (hlt t ht) (mem_union.2 (Or.inr ht)) hn
          omega
        have e2 := union_eq_self hall
        rw [e2] at a6 ⊢
        exact a6 (by
          have : oOf p acc ss o0 = List.foldl (fun o j => match p.insts[j]? with
              | some ij => union o (liveIn ij (BcWf.getD acc j))
              | none => o) o0 ss := rfl
          rw [this]; rw [e2] at he; exact he)

/-- The array is stable under the propagations into `i`. -/
def FixL (p : Program w) (A : Array (List Nat)) (i : Nat) : Prop :=
  ∀ instr ss, p.insts[i]? = some instr → succs p.insts.size i instr = some ss →
    ∀ j ∈ ss, ∀ ij, p.insts[j]? = some ij → ∀ t ∈ liveIn ij (BcWf.getD A j), t ∈ BcWf.getD A i

theorem stepL_spec {p : Program w} {T : Nat} (hu : UsesLt p T) {acc : Array (List Nat)} (hb : Bdd T acc)
    (hsz : acc.size = p.insts.size) (i : Nat) :
    (stepL p i acc).size = acc.size ∧ Bdd T (stepL p i acc) ∧ Sub acc (stepL p i acc) ∧
    nu T acc ≤ nu T (stepL p i acc) ∧
    (nu T (stepL p i acc) = nu T acc → stepL p i acc = acc ∧ FixL p acc i) ∧
    (∀ O : Array (List Nat), (∀ {i : Nat} {ins : Instr w}, p.insts[i]? = some ins →
        ∃ ss, succs p.insts.size i ins = some ss ∧
        ∀ j ∈ ss, ∀ ij, p.insts[j]? = some ij → ∀ t ∈ liveIn ij (BcWf.getD O j), t ∈ BcWf.getD O i) →
      Sub acc O → Sub (stepL p i acc) O) := by
  unfold stepL FixL
  cases hi : p.insts[i]? with
  | none =>
    exact ⟨rfl, hb, Sub.refl _, Nat.le_refl _, fun _ => ⟨rfl, fun _ _ h => by cases h⟩, fun _ _ h => h⟩
  | some instr =>
    simp only
    cases hs : succs p.insts.size i instr with
    | none =>
      exact ⟨rfl, hb, Sub.refl _, Nat.le_refl _,
        fun _ => ⟨rfl, fun _ _ e1 e2 => by cases e1; rw [hs] at e2; cases e2⟩, fun _ _ h => h⟩
    | some ss =>
      simp only
      obtain ⟨a1, a2, a3, a4, a5, a6⟩ := oOf_spec hu hb ss (BcWf.getD acc i) (hb i)
      by_cases hlt : i < acc.size
      · have hn := nu_set (T := T) (oOf p acc ss (BcWf.getD acc i)) hlt
        refine ⟨by simp, ?_, ?_, by omega, ?_, ?_⟩
        · intro i' t ht
          rw [getD_set _ hlt] at ht
          split at ht
          · exact a1 t ht
          · exact hb i' t ht
        · intro i' t ht
          rw [getD_set _ hlt]
          split
          · rename_i e; subst e; exact a2 t ht
          · exact ht
        · intro he
          have e1 : oOf p acc ss (BcWf.getD acc i) = BcWf.getD acc i := a6 (by omega)
          rw [e1]
          refine ⟨set_getD_self hlt, ?_⟩
          intro instr' ss' q1 q2 j hj ij hij t ht
          cases q1
          rw [hs] at q2; cases q2
          have := a4 j hj ij hij t ht
          rw [e1] at this
          exact this
        · intro O hO hsub i' t ht
          rw [getD_set _ hlt] at ht
          split at ht
          · rename_i e; subst e
            rcases a3 t ht with g | ⟨j, hj, ij, hij, g⟩
            · exact hsub _ t g
            · obtain ⟨ss', e, hf⟩ := hO hi
              rw [hs] at e; cases e
              apply hf j hj ij hij t
              rcases mem_liveIn.1 g with g' | ⟨g1, g2⟩
              · exact mem_liveIn.2 (Or.inl g')
              · exact mem_liveIn.2 (Or.inr ⟨hsub j t g1, g2⟩)
          · exact hsub i' t ht
      · exact absurd (by rw [hsz]; exact getElem?_lt hi) hlt

theorem roundL_spec {p : Program w} {T : Nat} (hu : UsesLt p T) : ∀ (is : List Nat) {acc : Array (List Nat)},
    Bdd T acc → acc.size = p.insts.size →
    (is.foldr (stepL p) acc).size = acc.size ∧ Bdd T (is.foldr (stepL p) acc) ∧
    Sub acc (is.foldr (stepL p) acc) ∧ nu T acc ≤ nu T (is.foldr (stepL p) acc) ∧
    (nu T (is.foldr (stepL p) acc) = nu T acc → is.foldr (stepL p) acc = acc ∧ ∀ i ∈ is, FixL p acc i) ∧
    (∀ O : Array (List Nat), (∀ {i : Nat} {ins : Instr w}, p.insts[i]? = some ins →
        ∃ ss, succs p.insts.size i ins = some ss ∧
        ∀ j ∈ ss, ∀ ij, p.insts[j]? = some ij → ∀ t ∈ liveIn ij (BcWf.getD O j), t ∈ BcWf.getD O i) →
      Sub acc O → Sub (is.foldr (stepL p) acc) O) := by
  intro is
  induction is with
  | nil =>
    intro acc hb _
    exact ⟨rfl, hb, Sub.refl _, Nat.le_refl _, fun _ => ⟨rfl, fun j hj => by cases hj⟩, fun _ _ h => h⟩
  | cons i is ih =>
    intro acc hb hsz
    obtain ⟨i1, i2, i3, i4, i5, i6⟩ := ih hb hsz
    obtain ⟨u1, u2, u3, u4, u5, u6⟩ := stepL_spec hu i2 (i1.trans hsz) i
    simp only [List.foldr_cons]
    refine ⟨u1.trans i1, u2, i3.trans u3, Nat.le_trans i4 u4, ?_, fun O hO h => u6 O hO (i6 O hO h)⟩
    intro he
    have e1 : nu T (is.foldr (stepL p) acc) = nu T acc := by omega
    obtain ⟨q1, q2⟩ := i5 e1
    rw [q1] at u5 ⊢
    obtain ⟨r1, r2⟩ := u5 (by rw [q1] at he; exact he)
    refine ⟨r1, fun j hj => ?_⟩
    rcases List.mem_cons.1 hj with rfl | g
    · exact r2
    · exact q2 j g

theorem liveSolve_eq (p : Program w) :
    liveSolve p = iterate (liveRound p) (p.insts.size * (p.temps + 1) + 1) (Array.replicate p.insts.size []) := rfl

end Wf

open Wf

/-- A solution can be cut down to the temporaries below a bound that covers all reads. -/
theorem alloc_initFacts_restrict {p : Program w} {I : Array (List Nat)} (hI : InitFacts p I) {T : Nat}
    (hu : UsesLt p T) : InitFacts p (I.map (fun l => l.filter (fun t => decide (t < T)))) := by
  have hget : ∀ i, BcWf.getD (I.map (fun l => l.filter (fun t => decide (t < T)))) i =
      (BcWf.getD I i).filter (fun t => decide (t < T)) := by
    intro i
    unfold BcWf.getD
    rw [Array.getElem?_map]
    cases I[i]? <;> rfl
  refine ⟨by simp [hI.size], by rw [hget, hI.entry]; rfl, ?_, ?_⟩
  · intro i ins hi t ht
    rw [hget]
    exact List.mem_filter.2 ⟨hI.uses hi t ht, by simpa using hu i ins hi t ht⟩
  · intro i ins hi
    obtain ⟨ss, hs, hf⟩ := hI.flow hi
    refine ⟨ss, hs, ?_⟩
    intro j hj t ht
    rw [hget] at ht
    obtain ⟨h1, h2⟩ := List.mem_filter.1 ht
    rcases hf j hj t h1 with g | g
    · left; rw [hget]; exact List.mem_filter.2 ⟨g, h2⟩
    · exact Or.inr g

/-- **Completeness of `initSolve`**, for any accepted array. -/
theorem alloc_initSolve_facts' {p : Program w} {I : Array (List Nat)} (hI : InitFacts p I)
    (hu : UsesLt p p.temps) : InitFacts p (initSolve p) := by
  apply alloc_initSolve_facts (alloc_initFacts_restrict hI hu)
  intro i t ht
  have hget : BcWf.getD (I.map (fun l => l.filter (fun t => decide (t < p.temps)))) i =
      (BcWf.getD I i).filter (fun t => decide (t < p.temps)) := by
    unfold BcWf.getD
    rw [Array.getElem?_map]
    cases I[i]? <;> rfl
  rw [hget] at ht
  simpa using (List.mem_filter.1 ht).2

/-- `liveOk` is exactly `LiveFacts`. -/
theorem alloc_liveOk_of_facts {p : Program w} {numRegs : Nat} {O : Array (List Nat)}
    (h : LiveFacts p numRegs O) : liveOk p numRegs O = true := by
  simp only [liveOk, Bool.and_eq_true, beq_iff_eq, List.all_eq_true, List.mem_range]
  refine ⟨h.size, ?_⟩
  intro i hi
  have hget : p.insts[i]? = some p.insts[i] := Array.getElem?_eq_getElem hi
  obtain ⟨ss, hs, hf⟩ := h.flow hget
  simp only [hget, hs, Bool.and_eq_true, List.all_eq_true, Bool.or_eq_true]
  refine ⟨?_, ?_⟩
  · intro j hj
    cases hij : p.insts[j]? with
    | none => rfl
    | some ij => exact subset_iff.2 (hf j hj ij hij)
  · cases hb : isBranch p.insts[i] with
    | true => exact Or.inl rfl
    | false =>
      right
      intro t ht
      by_cases h1 : t < numRegs
      · by_cases h2 : t < 16
        · rcases h.declared hget hb t ht h1 h2 with g | g
          · simp [g]
          · simp [g]
        · simp [h2]
      · simp [h1]

/-- **Completeness of `liveSolve`.** -/
theorem alloc_liveSolve_facts {p : Program w} {numRegs : Nat} {O : Array (List Nat)}
    (hO : LiveFacts p numRegs O) (hu : UsesLt p p.temps) : LiveFacts p numRegs (liveSolve p) := by
  have hstart : Bdd p.temps (Array.replicate p.insts.size ([] : List Nat)) := by
    intro i t ht
    rw [getD_replicate] at ht
    split at ht <;> cases ht
  have hsub0 : Sub (Array.replicate p.insts.size ([] : List Nat)) O := by
    intro i t ht
    rw [getD_replicate] at ht
    split at ht <;> cases ht
  obtain ⟨hfix, hsz, hbd, hup⟩ := iterate_reaches_fix (liveRound p)
    (fun A => p.insts.size * p.temps - nu p.temps A)
    (fun A => A.size = p.insts.size ∧ Bdd p.temps A ∧ Sub A O)
    (fun A ⟨h1, h2, h3⟩ => by
      rw [liveRound_eq]
      obtain ⟨q1, q2, _, _, _, q6⟩ := roundL_spec hu (List.range p.insts.size) h2 h1
      exact ⟨q1.trans h1, q2, q6 O (fun hi => hO.flow hi) h3⟩)
    (fun A ⟨h1, h2, _⟩ => by
      rw [liveRound_eq]
      have := (roundL_spec hu (List.range p.insts.size) h2 h1).2.2.2.1
      omega)
    (fun A ⟨h1, h2, _⟩ he => by
      rw [liveRound_eq] at he ⊢
      obtain ⟨q1, _, _, q4, q5, _⟩ := roundL_spec hu (List.range p.insts.size) h2 h1
      have b1 := nu_le p.temps A
      have b2 := nu_le p.temps ((List.range p.insts.size).foldr (stepL p) A)
      rw [q1, h1] at b2
      rw [h1] at b1
      exact (q5 (by omega)).1)
    (p.insts.size * (p.temps + 1) + 1) (Array.replicate p.insts.size [])
    ⟨by simp, hstart, hsub0⟩
    (by rw [Nat.mul_succ]; omega)
  rw [← liveSolve_eq] at hfix hsz hbd hup
  have hFix : ∀ i, i < p.insts.size → FixL p (liveSolve p) i := by
    intro i hi
    rw [liveRound_eq] at hfix
    exact ((roundL_spec hu (List.range p.insts.size) hbd hsz).2.2.2.2.1 (by rw [hfix])).2 i
      (List.mem_range.2 hi)
  refine ⟨hsz, ?_, ?_⟩
  · intro i ins hi
    obtain ⟨ss, hs, _⟩ := hO.flow hi
    exact ⟨ss, hs, fun j hj ij hij t ht => hFix i (getElem?_lt hi) ins ss hi hs j hj ij hij t ht⟩
  · intro i ins hi hb t ht h1 h2
    exact hO.declared hi hb t (hup i t ht) h1 h2

theorem alloc_liveSolve_complete {p : Program w} {numRegs : Nat} {O : Array (List Nat)}
    (hO : liveOk p numRegs O = true) (hu : UsesLt p p.temps) : liveOk p numRegs (liveSolve p) = true :=
  alloc_liveOk_of_facts (alloc_liveSolve_facts (liveOk_facts hO) hu)

namespace Wf

end Wf
end Alloc
end C02
end Hpbf
