/-
Rebuild-round proofs, stage 5: the nodes `finishLoop` records are sound for the code it emits: `finishLoop_an`.
A copy of the proof of `finishLoop_ok_g` that collects the `AStep` instead (`finishEnd_an`); the child of the
transformed loop has the same code and nodes as the real child, and its mirror states are mirror states of the
real child (through the real partner).
-/
import Hpbf.Proofs.OptRbAnLoop4
import Hpbf.Proofs.OptRbFinishLoopG

namespace Hpbf
namespace OptProof
open Opt OptSem Ir

variable {w : Nat}

section FinishLoopAn
variable {G Gc : State w → Prop} {shP shC shS cS : Int} {bodyS : List (Instr w)} {isLoop : Bool}
  {s : Rebuild w} {ps : List (Rebuild w)} {sub0 sub : Rebuild w} {cond : Int} {os os' : Orders} {s' : Rebuild w}

theorem finishLoop_an (hw : 0 < w)
    (hr : (finishLoop s ps sub cond isLoop).run os = .ok (s', os'))
    (hwf : Wf s) (hcs : CanonSt s) (hsf : sub.subShift = false → AskStable s sub.shift)
    (hcond : cond = cS + shP)
    (hsh : shC + shS = (sub.shift - s.shift) + shP)
    (hall : StepAll Gc shP shC (s :: ps) sub0 sub bodyS sub.insts)
    (hi0 : sub0.insts = []) (hw0 : sub0.written = []) (hp0 : sub0.pending = [])
    (hentry : ∀ σE σS : State w, SameMem shP σS σE → σS.rd cS ≠ 0#w → Gc σS →
      ∃ M0, RelAt shP sub0 (s :: ps) M0 σE σS)
    (hGcH : ∀ M0 σE σS, RelAt shP s ps M0 σE σS → G σS → ∀ k σk, Head cS shS bodyS σS k σk →
      (isLoop = false → k = 0) → σk.rd cS ≠ 0#w → Gc σk)
    (hcsub : CanonSt sub) (hkvs : KnownVars sub) (hreads : OptLoop.SAsc sub.reads)
    (hfootNB : FootStepV (fun σ => ¬ Bad sub.insts σ) sub0 sub sub.insts)
    (hpv : PVClean sub (s :: ps)) (hcf : sub.cond = some cond)
    (hsa0 : sub0.subAnal = []) (hshs : ShapeSt sub) (hchild : Child sub)
    (hcA : AStep (ValidG Gc shP sub0 (s :: ps)) sub0 sub sub.insts) :
    ∃ new, s'.insts = s.insts ++ new ∧ AStep (ValidG G shP s ps) s s' new := by
  obtain ⟨oS⟩ : Nonempty Bool := ⟨false⟩
  have hrepC : ChildRep Gc shP shC (s :: ps) sub0 (s :: ps) sub bodyS := hall.step.2
  have hfacts : ∀ M0 σE σS, RelAt shP s ps M0 σE σS → G σS →
      FactsAt isLoop cS shS bodyS oS (analyzeLoop s ps sub cond isLoop) σS :=
    fun M0 σE σS hrel hG => factsAt_real_g hw hrel hcond hsh hrepC hentry hw0 (hGcH M0 σE σS hrel hG)
  -- the flag-only fact
  have hifamo : isLoop = false → (analyzeLoop s ps sub cond isLoop).atMostOnce = true := by
    intro hi
    cases hi
    cases hnr : sub.noReturn with
    | true =>
      rcases OptLoop.analyzeLoop_noReturn s ps sub cond false hnr with ⟨_, heq⟩ | ⟨_, heq⟩
      · rw [heq]; exact ofExpr_zero_amo
      · rw [heq]; rfl
    | false =>
      rcases analyzeLoop_if s ps sub cond hnr with ⟨_, heq⟩ | heq
      · rw [heq]; exact ofExpr_zero_amo
      · rw [heq]; exact atMostOnceOf_amo _
  have hGcL : ∀ M0 σE σS, RelAt shP s ps M0 σE σS → G σS → ∀ k σk, Head cS shS bodyS σS k σk →
      ((analyzeLoop s ps sub cond isLoop).atMostOnce = true → k = 0) → σk.rd cS ≠ 0#w → Gc σk :=
    fun M0 σE σS hrel hG k σk hh hk hne => hGcH M0 σE σS hrel hG k σk hh (fun hi => hk (hifamo hi)) hne
  have hwfsub : Wf sub := hall.wf
  rw [finishLoop_cut] at hr
  split at hr
  · -- never entered
    rename_i hnever
    rw [run_pure] at hr
    cases hr
    exact ⟨[], by simp, AStep.refl _ _⟩
  · split at hr
    · -- the child moves the pointer: no loop motion
      rename_i hnever hshift
      rw [run_bind_ok] at hr
      obtain ⟨x, os1, h1, h2⟩ := hr
      rw [run_pure] at h1
      cases h1
      have hLF : ∀ s1 os1, (performAll s ps 0 []).run os = .ok (s1, os1) →
          LoopFacts (fun σ => G σ ∧ ∃ M0 σE, RelAt shP s ps M0 σE σ) shP s1 ps isLoop cS shS bodyS oS
            (analyzeLoop s ps sub cond isLoop) [] := by
        intro s1 os1 hp
        rw [performAll_nil, run_pure] at hp
        cases hp
        exact ⟨fun h M0 σE σS hrel hG => (hfacts M0 σE σS hrel hG.1).alo h,
          fun h hi M0 σE σS hrel hG => (hfacts M0 σE σS hrel hG.1).amo h hi,
          hifamo,
          fun h M0 σE σS hrel hG => (hfacts M0 σE σS hrel hG.1).nc h,
          fun h M0 σE σS hrel hG => (hfacts M0 σE σS hrel hG.1).ne h,
          fun _ _ _ _ _ _ _ _ _ x hx => by simp at hx,
          fun h ha M0 σE σS hrel hG => (hfacts M0 σE σS hrel hG.1).fin h ha⟩
      -- the heads are guarded (the parent state after `performAll … []` is the parent state)
      have hGcS : ∀ (s1 : Rebuild w) M0 σE σS, RelAt shP s1 ps M0 σE σS →
          (G σS ∧ ∃ M0 σE, RelAt shP s ps M0 σE σS) → ∀ k σk, Head cS shS bodyS σS k σk →
          ((analyzeLoop s ps sub cond isLoop).atMostOnce = true → k = 0) → σk.rd cS ≠ 0#w → Gc σk := by
        rintro s1 _ _ σS _ ⟨hG, M0, σE, hrel⟩ k σk hh hk hne
        exact hGcL M0 σE σS hrel hG k σk hh hk hne
      obtain ⟨new, hi, hA⟩ :=
        finishEnd_an (G := fun σ => G σ ∧ ∃ M0 σE, RelAt shP s ps M0 σE σ)
          (G1 := fun σ => G σ ∧ ∃ M0 σE, RelAt shP s ps M0 σE σ) (oS := oS) h2 hwf hsf hcond hsh (childRep_forget hall) hentry hwfsub
          (fun hns => childPre_of_stepAll hall hi0 hw0 hns hentry) hkvs
          (fun h => absurd rfl h) (fun h => absurd rfl h)
          (fun M0 σE σS σS' _ hG hex => by rw [exec_calc_nil_fin hex]; exact hG)
          hLF hGcS
          (fun _ _ _ _ _ _ _ _ _ x hx => by simp at hx)
          (AStep.congr_right (s' := sub) (t' := forgetParent sub) rfl rfl rfl hcA) hsa0 hshs hchild
      refine ⟨new, hi, hA.weaken ?_⟩
      rintro σ ⟨M0, σS, hrel, hG⟩
      exact ⟨M0, σS, hrel, hG, M0, σ, hrel⟩
    · -- balanced child: loop motion
      rename_i hnever hshift
      have hns : sub.subShift = false := by
        cases h : sub.subShift with
        | false => rfl
        | true => rw [h] at hshift; simp at hshift
      have hse : sub.shift = s.shift := by
        rw [hns] at hshift
        simpa using hshift
      have hshB : shC + shS = shP := by rw [hsh, hse]; omega
      obtain ⟨C, sub1, B, D, A, os2, sub', os3, hC, hfold, h5, h6⟩ := finishMotionK_cut hr
      obtain ⟨hwf1, hsame1, hpend1⟩ := motionFold_sub_all hfold hwfsub
      have md : MotionData s ps sub sub1 (cS + shP) (analyzeLoop s ps sub cond isLoop) C B D A os os2 := by
        rw [← hcond]
        exact ⟨hC, hfold, hreads, hwfsub, hcsub, hcs⟩
      have hall' : StepAll Gc shP shC (s :: ps) sub0 sub bodyS sub.insts := hall
      have hc : BalChild Gc shP shC shS cS bodyS s ps sub0 sub := ⟨hall, hw0, hp0, hns, hshB, hentry⟩
      -- the variables of `D` are variables of pending operations: the parent is never asked about them
      have hDask : ∀ vc ∈ D, ∀ x ∈ Expr.variables vc.2, mGet sub.written x = none →
          getParentConstant sub (s :: ps) x = none := by
        intro vc hvc x hx hwx
        have hd : mGet D vc.1 = some vc.2 := OptLoop.mGet_of_mem md.nodup.2.1 hvc
        cases hp : mGet sub.pending vc.1 with
        | none =>
          have := (md.allE.nopend vc.1 hp).2.1
          rw [this] at hd; cases hd
        | some p =>
          exact hpv vc.1 p hp x (OptLoop.motionAllE_D_vars hw md.allE hp hd x hx) hwx
      obtain ⟨hpre', hwf', hsh', hss', hnr', hkv'⟩ :=
        childPre_motion_g (cS := cS) (R := sIns (possibleReads sub) (cS + shP)) hall' hi0 hw0 hp0 hns hkvs hentry
          hfootNB (fun r hr => List.contains_iff_mem.1 (OptLoop.reads_possibleReads sub (cS + shP) r hr))
          (List.contains_iff_mem.1 (OptLoop.cond_possibleReads sub (cS + shP)))
          (fun v hv => by rw [hcf] at hv; cases hv; exact hcond) hDask hwf1 hsame1 hpend1 h5
      -- everything at one source state
      have hAt : ∀ M0 σE σS, RelAt shP s ps M0 σE σS → G σS →
          MAtG Gc shP shC shS cS bodyS isLoop oS s ps sub0 sub sub1 (analyzeLoop s ps sub cond isLoop) C B D A
            os os2 M0 σE σS (doCalc (σS.mov (-shP)) B) := by
        intro M0 σE σS hrel hG
        refine ⟨md, hc, hGcL M0 σE σS hrel hG, hrel, rfl, hfacts M0 σE σS hrel hG, ?_⟩
        intro n ht
        have := tripFacts_real_g hw hrel hcond hsh hrepC hentry hw0 (hGcH M0 σE σS hrel hG) ht
        rw [← memE_movNeg hrel] at this
        exact this
      -- the heads of the transformed loop have real partners
      have hGc₂ : ∀ (s1 : Rebuild w) M0 σE τ0, RelAt 0 s1 ps M0 σE τ0 → G1M G shP s ps B τ0 →
          ∀ k τk, Head (cS + shP) 0 (sub.insts ++ [.calc D]) τ0 k τk →
          ((analyzeLoop s ps sub cond isLoop).atMostOnce = true → k = 0) → τk.rd (cS + shP) ≠ 0#w →
          PartnerG Gc shP cS (sIns (possibleReads sub) (cS + shP)) τk := by
        rintro s1 _ _ _ _ ⟨σS, M0, σE, hrel, hG, rfl⟩ k τk hh hk hne
        have hgl := hGcL M0 σE σS hrel hG
        obtain ⟨σ, hJ⟩ := heads_bwd_g md hc hgl hrel rfl hh (fun h => by have := hk h; omega)
        have hcσ : σ.rd cS ≠ 0#w := by rw [← hJ.cond_agree_g md hc hgl hrel hk]; exact hne
        refine ⟨σ, hgl k σ hJ.hd hk hcσ, hcσ, hJ.ptr.symm, hJ.env.symm, hJ.tr.symm, ?_⟩
        intro v hv
        have hv' : v ∈ sIns (possibleReads sub) (cS + shP) := Classical.not_not.1 hv
        exact (hJ.reads_agree_g md hc hgl hrel hk (List.contains_iff_mem.2 hv')).symm
      -- the child of the transformed loop: same code, same nodes; its states mirror real heads
      have hsb1 := hsame1
      obtain ⟨_, _, hsame', _⟩ := performAll_spec_c hwf1 hpend1 h5
      have hsa' : sub'.subAnal = sub.subAnal := hsame'.2.2.2.2.2.2.2.2.2.trans hsame1.2.2.2.2.2.2.2.2.2
      have hrd' : sub'.reads = sub.reads := hsame'.2.2.2.2.2.2.1.trans hsame1.2.2.2.2.2.2.1
      have hin' : sub'.insts = sub.insts := hsame'.2.2.2.2.2.2.2.2.1.trans hsame1.2.2.2.2.2.2.2.2.1
      obtain ⟨newA, hnA, hshA, hanA⟩ := hcA.ext
      rw [hsa0, List.nil_append] at hnA
      have hcA₂ : AStep (ValidG (PartnerG Gc shP cS (sIns (possibleReads sub) (cS + shP))) 0
          (freshChildU sub0.shift (cS + shP)) []) (freshChildU sub0.shift (cS + shP)) (forgetParent sub')
          sub'.insts := by
        refine ⟨newA, ?_, by rw [hin']; exact hshA, ?_⟩
        · show sub'.subAnal = [] ++ newA
          rw [hsa', hnA]; rfl
        · rw [hin']
          refine analInL_mono ?_ hanA
          rintro σ3 ⟨σ1', K, ⟨M0, τ, hrelU, hpart⟩, hK, hKs, hag⟩
          obtain ⟨hst, _⟩ := relAt_freshU hrelU
          obtain ⟨σ, hg, hne, hagP, hrelP, _⟩ := partner_ctx hall hw0 hentry hpart
          have hm0 : MirV (ValidG Gc shP sub0 (s :: ps)) sub0 sub (σ.mov (-shP)) :=
            MirV.self ⟨_, σ, hrelP, hg⟩
          have hm1 := MirV.of_agree hw0 hm0 hagP
            (fun v hv hr => hv (List.contains_iff_mem.1 (OptLoop.reads_possibleReads sub (cS + shP) v hr)))
            (fun h => by rw [hns] at h; cases h)
          have hm2 := MirV.of_agree hw0 hm1 (AgreeOff.of_stEq (K := fun _ => False) hst)
            (fun _ h => h.elim) (fun _ _ h => h)
          have hagK : AgreeOff K σ1' σ3 := by
            have : Rest K (freshChildU sub0.shift (cS + shP) : Rebuild w) = K := rest_eq_of_written_nil rfl
            rw [this] at hag; exact hag
          exact MirV.of_agree hw0 hm2 hagK (fun v hv => by rw [← hrd']; exact hK v hv)
            (fun h => by rw [hns] at h; cases h)
      have hshs' : ShapeSt sub' := hshs.of_same hin' hsa' (hss'.trans hns.symm)
      have hchild' : Child sub' := by
        have hinv : MotionInv (sub1, B, D, A) := by
          refine foldlM_inv (fun acc _ => MotionInv acc) _ (pendingSorted sub sub) ?_
            (b := (sub, [], [], [])) (os := os) ?_ hfold
          · intro acc x os acc' os' _ hi hstep
            exact motionStepM_canon (fun v l h => linearAmong_canon_get hchild.canon _ _ h)
              (fun e he => analyzeLoop_canon s ps sub cond isLoop he) hi hstep
          · exact ⟨hchild, canonCalcs_nil, canonCalcs_nil, canonCalcs_nil⟩
        obtain ⟨hch, _, hD, _⟩ := hinv
        exact hch.step (performAll_canon h5 hch.wf hch.canon hD)
      obtain ⟨new, hi, hA⟩ :=
        finishEnd_an (shP := 0) (shC := 0) (shS := 0) (cS := cS + shP)
          (bodyS := sub.insts ++ [.calc D]) (oS := oS)
          (isLoop := !(analyzeLoop s ps sub cond isLoop).atMostOnce)
          (G := fun σ0 => ∃ σS M0 σE, RelAt shP s ps M0 σE σS ∧ G σS ∧ σ0 = σS.mov (-shP))
          (G1 := G1M G shP s ps B) (Gc := PartnerG Gc shP cS (sIns (possibleReads sub) (cS + shP)))
          h6 hwf (fun _ => by rw [hsh']; exact hsf hns) (by rw [hcond]; omega) (by rw [hsh', hse]; omega)
          hpre'.rep hpre'.entry hwf'
          (fun _ => hpre') (fun _ => hkv') (fun _ => rfl) (fun _ => ⟨rfl, by rw [hsh', hse]⟩)
          (by
            rintro M0 σE σ0 σ' _ ⟨σS, M0', σE', hrel, hG, rfl⟩ hex
            refine ⟨σS, M0', σE', hrel, hG, ?_⟩
            rw [exec_calc_iff] at hex
            rcases (exec_nil_iff _ _).1 hex with h' | h'
            · cases h'
            · cases h'; rfl)
          (fun s1 _ _ => loopFacts₂_g hAt s1)
          hGc₂
          (fun s1 M0' σE' τ hrel' hg hne σ1 hex x hx => constW₂_g hw hAt s1 M0' σE' τ hrel' hg hne σ1 hex x hx)
          hcA₂ rfl hshs' hchild'
      refine ⟨new, hi, hA.weaken ?_⟩
      rintro σ ⟨M0, σS, hrel, hG⟩
      exact ⟨M0, σS.mov (-shP), relAt_unshift_coord hrel, σS, M0, σ, hrel, hG, rfl⟩

end FinishLoopAn

end OptProof
end Hpbf
