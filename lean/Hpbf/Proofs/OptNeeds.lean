/-
What the proof of the rebuild round (`Hpbf/Proofs/OptRb*.lean`) needs from the loop-optimisation pack
(`Hpbf/Proofs/OptLoop*.lean`, prover "proof-opt-loop"), in ONE place.  Everything listed here has been delivered;
the `#check`s below fail to elaborate if a name or its shape disappears.

The pack works with an ABSTRACT loop: a body function `body : Nat → Mem → Mem` (what the emitted instructions of
the child do in round `k`), the memories `run body P m0 k` at the successive loop heads when the pending operations
`P` are performed at the end of every round, and a total sequence `cv` of values of the condition cell.  The rebuild
proof instantiates
* `body := MCtx.absBody` (`OptRbMotion1.lean`): the real effect of the child's code at the `k`-th real head, the
  same for the `k`-th head of the transformed loop, the identity on unwritten cells elsewhere;
* `cv := cvSeq` (`OptRbAnal.lean`): the real values while the loop has heads, the child's prediction afterwards.

NEEDED, AND WHERE IT IS USED
1. `analyzeLoop_sound'` (`CondFacts'`: the `getBoth` fact only when `getConstant` fails and `sub.subShift = false`),
   `analyzeLoop_noReturn`, `atMostOnceOf_meaning`, `ofExpr_val_meaning`, `LoopMeaning`, `tripFacts_of_meaning`:
   meaning of the flags of `analyzeLoop` (`factsAt_real`, `tripFacts_real`).
2. `finishLoop_prefix_sound_c` and `finishLoop_ctx_c` at a horizon `N` (only the rounds `< N` are known to
   complete): agreement of the two loops outside `Differ'`, constancy of the cells of `C`
   (`MotionData.prefix_at`); `finishLoop_motion_sound_c` at the exit head (`MotionData.full_at`).
   `compare` is only assumed sound on normal forms (`Canon`).
3. the structure of `B`, `D`, `A`: `motionFold_spec_e` (`MotionAllE`), `motionFold_keys_nodup`,
   `motionAllE_B_facts`, `varBD` (`VarBD`), `Differ'`; `motionStepM_ok` (the child after the fold).
4. `reads_possibleReads`, `cond_possibleReads`, `mem_pendingSorted`, `nodup_pendingSorted`, `SAsc`, `KeysAsc`.
NOT needed any more: `CondFacts` / `analyzeLoop_sound` (replaced by the primed versions), the versions without
horizon (`finishLoop_motion_sound`, `finishLoop_prefix_sound`), the `_h` versions (replaced by `_c`).
-/
import Hpbf.Proofs.OptLoopExtra

namespace Hpbf.OptLoop
open Hpbf Opt OptSem

#check @analyzeLoop_sound'
#check @CondFacts'
#check @analyzeLoop_noReturn
#check @atMostOnceOf_meaning
#check @ofExpr_val_meaning
#check @LoopMeaning
#check @tripFacts_of_meaning
#check @TripFacts
#check @finishLoop_prefix_sound_c
#check @finishLoop_ctx_c
#check @finishLoop_motion_sound_c
#check @MotionCtxH.constRun
#check @BodyFactsH
#check @GetBothFactsH
#check @motionFold_spec_e
#check @MotionAllE.toBD
#check @motionFold_keys_nodup
#check @motionAllE_B_facts
#check @varBD
#check @Differ'
#check @motionStepM_ok
#check @reads_possibleReads
#check @cond_possibleReads
#check @mem_pendingSorted
#check @nodup_pendingSorted
#check @run_succ

end Hpbf.OptLoop
