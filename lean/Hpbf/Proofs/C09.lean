/-
C09 — the tape API (`runtime::Memory<C>`, model `Hpbf.Mem`) is an unbounded zero-initialised array
under any call history.  Lemmas; the property theorems are in `Hpbf/Props/C09.lean`.

Range guard.  All claims are made for states and arguments below `bound = 2^59` *cells*
(`size < 2^59`, `|offset as isize| < 2^59`, `|argument| < 2^59`).  What is assumed: the real code
cannot leave this range before the allocator fails, because `Layout::array::<C>(n)` needs
`n * size_of::<C>() ≤ isize::MAX = 2^63 - 1` bytes and no x86-64 process can map more than 2^56
bytes (57-bit linear addresses, half of them user space), i.e. fewer than 2^56 cells; offsets and
arguments are compile-time `isize` constants of a program whose text must fit in the same address
space.  `2^59` (rather than `2^61`/`2^62`) is what makes the *byte*-pointer theorems
(`setCurrentPtr_currentPtr`, `checkPtr_currentPtr`) hold for 8-byte cells: `offset * 8` and
`(offset + off) * 8` must not wrap in an `isize`.  Outside the guard the model says what wraps and
no claim is made.
-/
import Hpbf.Mem

namespace Hpbf

/-! ### 64-bit wrap arithmetic -/

theorem asI64_wrapU64 {x : Int} (h1 : -9223372036854775808 ≤ x) (h2 : x < 9223372036854775808) :
    asI64 (wrapU64 x) = x := by
  unfold asI64 wrapU64 two63 two64
  split <;> omega

theorem wrapU64_lt (x : Int) : wrapU64 x < two64 := by
  unfold wrapU64 two64; omega

/-- `o.wrapping_add_signed(x)` only depends on `o as isize`. -/
theorem wrapU64_off (o : Nat) (x : Int) :
    wrapU64 ((o : Int) + x) = wrapU64 (asI64 o + x) := by
  unfold wrapU64 asI64 two63 two64 at *
  split <;> omega

theorem wrapU64_nonneg {x : Int} (h1 : 0 ≤ x) (h2 : x < 18446744073709551616) :
    wrapU64 x = x.toNat := by
  unfold wrapU64 two64; omega

theorem wrapU64_neg {x : Int} (h1 : x < 0) (h2 : -18446744073709551616 ≤ x) :
    (wrapU64 x : Int) = x + 18446744073709551616 := by
  unfold wrapU64 two64; omega

theorem asI64_small {n : Nat} (h : n < two63) : asI64 n = n := by
  unfold asI64; simp [h]

namespace Mem
variable {w : Nat}

/-! ### Well-formedness, range guard, abstraction -/

/-- Representation invariant of `Memory`: `size` is the length of the allocation and `offset` is a
`usize`. -/
def WF (m : Mem w) : Prop := m.size = m.buf.size ∧ m.offset < two64

/-- `2^59`, the range guard (see the header comment). -/
def bound : Int := 576460752303423488

theorem bound_eq : bound = 2 ^ 59 := by decide

/-- Range guard on a state. -/
def Small (m : Mem w) : Prop :=
  (m.size : Int) < bound ∧ -bound < asI64 m.offset ∧ asI64 m.offset < bound

/-- Range guard on an `isize` argument. -/
def SmallArg (x : Int) : Prop := -bound < x ∧ x < bound

instance (m : Mem w) : Decidable (WF m) := by unfold WF; infer_instance
instance (m : Mem w) : Decidable (Small m) := by unfold Small; infer_instance
instance (x : Int) : Decidable (SmallArg x) := by unfold SmallArg; infer_instance

/-- The logical cell at offset `off` from the current pointer. -/
def cell (m : Mem w) (off : Int) : BitVec w :=
  let p := asI64 m.offset + off
  if 0 ≤ p ∧ p < m.size then m.buf[p.toNat]?.getD 0#w else 0#w

/-! ### read / check -/

/-- Core of every bounds test: an unsigned compare of the wrapped sum against `size`. -/
theorem wrap_lt_iff_raw {o S : Nat} {x : Int} (hS : (S : Int) ≤ 9223372036854775808)
    (h1 : -9223372036854775808 ≤ asI64 o + x) (h2 : asI64 o + x < 9223372036854775808) :
    wrapU64 (o + x) < S ↔ 0 ≤ asI64 o + x ∧ asI64 o + x < S := by
  rw [wrapU64_off]
  generalize asI64 o = O at *
  unfold wrapU64 two64
  omega

theorem wrap_eq_toNat_raw {o : Nat} {x : Int} (h0 : 0 ≤ asI64 o + x)
    (h2 : asI64 o + x < 9223372036854775808) :
    wrapU64 (o + x) = (asI64 o + x).toNat := by
  rw [wrapU64_off]
  apply wrapU64_nonneg h0
  omega

theorem wrap_lt_size_iff {m : Mem w} {off : Int} (hs : Small m) (ho : SmallArg off) :
    wrapU64 (m.offset + off) < m.size ↔
      0 ≤ asI64 m.offset + off ∧ asI64 m.offset + off < m.size := by
  obtain ⟨h1, h2, h3⟩ := hs
  obtain ⟨h4, h5⟩ := ho
  unfold bound at *
  apply wrap_lt_iff_raw <;> omega

theorem wrap_eq_toNat {m : Mem w} {off : Int} (hs : Small m) (ho : SmallArg off)
    (h0 : 0 ≤ asI64 m.offset + off) :
    wrapU64 (m.offset + off) = (asI64 m.offset + off).toNat := by
  obtain ⟨h1, h2, h3⟩ := hs
  obtain ⟨h4, h5⟩ := ho
  unfold bound at *
  apply wrap_eq_toNat_raw h0
  omega

theorem check_iff' {m : Mem w} {off : Int} (hs : Small m) (ho : SmallArg off) :
    m.check off = true ↔ 0 ≤ asI64 m.offset + off ∧ asI64 m.offset + off < m.size := by
  unfold check
  rw [decide_eq_true_iff]
  exact wrap_lt_size_iff hs ho

theorem read_eq_cell' {m : Mem w} {off : Int} (hs : Small m) (ho : SmallArg off) :
    m.read off = m.cell off := by
  unfold read cell
  simp only
  by_cases h : 0 ≤ asI64 m.offset + off ∧ asI64 m.offset + off < m.size
  · rw [if_pos ((wrap_lt_size_iff hs ho).2 h), if_pos h, wrap_eq_toNat hs ho h.1]
  · rw [if_neg (fun h' => h ((wrap_lt_size_iff hs ho).1 h')), if_neg h]

/-! ### mov -/

theorem mov_wf {m : Mem w} (d : Int) (hwf : WF m) : WF (m.mov d) :=
  ⟨hwf.1, wrapU64_lt _⟩

theorem mov_offset {m : Mem w} {d : Int} (hs : Small m) (hd : SmallArg d) :
    asI64 (m.mov d).offset = asI64 m.offset + d := by
  unfold mov
  simp only
  rw [wrapU64_off]
  obtain ⟨h1, h2, h3⟩ := hs
  obtain ⟨h4, h5⟩ := hd
  unfold bound at *
  apply asI64_wrapU64 <;> omega

theorem mov_cell' {m : Mem w} {d : Int} (hs : Small m) (hd : SmallArg d) (off : Int) :
    (m.mov d).cell off = m.cell (off + d) := by
  have h := mov_offset hs hd
  unfold cell
  rw [h]
  have e : asI64 m.offset + d + off = asI64 m.offset + (off + d) := by omega
  rw [e]
  rfl

/-! ### make_accessible -/

/-- `needed_below` without wrap-arounds (valid under the guard): `max 0 (-(offset + start))`. -/
def neededBelow (m : Mem w) (start : Int) : Nat := (-(asI64 m.offset + start)).toNat
/-- `needed_above` without wrap-arounds: `max 0 (offset + stop - size)`. -/
def neededAbove (m : Mem w) (stop : Int) : Nat := (asI64 m.offset + stop - m.size).toNat
/-- `new_size` of `make_accessible` when it grows. -/
def newSize (m : Mem w) (start stop : Int) : Nat :=
  m.size + max (m.size / 2) (m.neededBelow start + m.neededAbove stop)
/-- `added_below` of `make_accessible` when it grows (the three-case `match`). -/
def addedBelow (m : Mem w) (start stop : Int) : Nat :=
  if m.neededBelow start = 0 then 0
  else if m.neededAbove stop = 0 then m.newSize start stop - m.size
  else min (max (m.neededBelow start) ((m.newSize start stop - m.size) / 2))
    (m.newSize start stop - m.size - m.neededAbove stop)

/-- The four numbers computed by `make_accessible`, without wrap-arounds. -/
def growthSpec (m : Mem w) (start stop : Int) : Nat × Nat × Nat × Nat :=
  (m.neededBelow start, m.neededAbove stop, m.newSize start stop, m.addedBelow start stop)

theorem growth_eq {m : Mem w} {a b : Int} (hs : Small m)
    (ha1 : -bound ≤ a) (ha2 : a ≤ bound) (hb1 : -bound ≤ b) (hb2 : b ≤ bound) :
    m.growth a b = m.growthSpec a b := by
  obtain ⟨h1, h2, h3⟩ := hs
  unfold bound at *
  have e1 : asI64 (wrapU64 (asI64 m.offset + a)) = asI64 m.offset + a := by
    apply asI64_wrapU64 <;> omega
  have e2 : asI64 (wrapU64 (asI64 m.offset + b)) = asI64 m.offset + b := by
    apply asI64_wrapU64 <;> omega
  have e3 : asI64 m.size = m.size := by
    apply asI64_small; unfold two63; omega
  unfold growth growthSpec addedBelow newSize neededBelow neededAbove
  simp only [e1, e2, e3]
  have hnb : (if asI64 m.offset + a < 0 then (asI64 m.offset + a).natAbs else 0)
      = (-(asI64 m.offset + a)).toNat := by
    split <;> omega
  have hna : (if asI64 m.offset + b > (m.size : Int) then wrapU64 (asI64 m.offset + b - m.size) else 0)
      = (asI64 m.offset + b - m.size).toNat := by
    split
    · apply wrapU64_nonneg <;> omega
    · omega
  rw [hnb, hna]

/-- A state `m'` is `m` with `ab` zero cells added below and `g` zero cells added above, the
pointer moved up by `ab` (so that it designates the same logical cell). -/
structure Grown (m m' : Mem w) (ab g : Nat) : Prop where
  buf : m'.buf = Array.replicate ab 0#w ++ m.buf ++ Array.replicate g 0#w
  size : m'.size = ab + m.size + g
  offset_lt : m'.offset < two64
  offset : asI64 m'.offset = asI64 m.offset + ab

theorem Grown.wf {m m' : Mem w} {ab g : Nat} (h : Grown m m' ab g) (hwf : WF m) : WF m' := by
  refine ⟨?_, h.offset_lt⟩
  rw [h.size, h.buf, hwf.1]
  simp only [Array.size_append, Array.size_replicate]

theorem Grown.cell {m m' : Mem w} {ab g : Nat} (h : Grown m m' ab g) (hwf : WF m) (off : Int) :
    m'.cell off = m.cell off := by
  unfold Mem.cell
  simp only [h.offset, h.size, h.buf, Array.getElem?_append, Array.getElem?_replicate,
    Array.size_append, Array.size_replicate]
  have hsz := hwf.1
  generalize asI64 m.offset = O at *
  by_cases c1 : 0 ≤ O + off ∧ O + off < (m.size : Int)
  · have c2 : 0 ≤ O + (ab : Int) + off ∧ O + (ab : Int) + off < ((ab + m.size + g : Nat) : Int) := by
      omega
    rw [if_pos c1, if_pos c2]
    have c3 : (O + (ab : Int) + off).toNat < ab + m.buf.size := by omega
    have c4 : ¬ (O + (ab : Int) + off).toNat < ab := by omega
    rw [if_pos c3, if_neg c4]
    have c5 : (O + (ab : Int) + off).toNat - ab = (O + off).toNat := by omega
    rw [c5]
  · rw [if_neg c1]
    split
    · split
      · split
        · rfl
        · rw [Array.getElem?_eq_none (by omega)]; rfl
      · split
        · rfl
        · rfl
    · rfl

/-- `make_accessible` needs to do nothing: the range is already inside the allocation. -/
def NoGrowth (m : Mem w) (a b : Int) : Prop := m.neededBelow a = 0 ∧ m.neededAbove b = 0

instance (m : Mem w) (a b : Int) : Decidable (NoGrowth m a b) := by unfold NoGrowth; infer_instance

theorem noGrowth_iff (m : Mem w) (a b : Int) :
    NoGrowth m a b ↔ 0 ≤ asI64 m.offset + a ∧ asI64 m.offset + b ≤ m.size := by
  unfold NoGrowth neededBelow neededAbove; omega

theorem makeAccessible_eq {m : Mem w} {a b : Int} (hs : Small m)
    (ha1 : -bound ≤ a) (ha2 : a ≤ bound) (hb1 : -bound ≤ b) (hb2 : b ≤ bound) :
    m.makeAccessible a b =
      if NoGrowth m a b then m
      else
        { buf := Array.replicate (m.addedBelow a b) 0#w ++ m.buf ++
            Array.replicate (m.newSize a b - m.size - m.addedBelow a b) 0#w
          size := m.newSize a b
          offset := wrapU64 (m.offset + m.addedBelow a b) } := by
  unfold makeAccessible
  rw [growth_eq hs ha1 ha2 hb1 hb2]
  rfl

/-- What the three-case `match` guarantees. -/
theorem addedBelow_bounds (m : Mem w) (a b : Int) :
    m.neededBelow a ≤ m.addedBelow a b ∧
    m.addedBelow a b + m.neededAbove b ≤ m.newSize a b - m.size ∧
    (m.neededBelow a = 0 → m.addedBelow a b = 0) ∧
    (m.neededBelow a ≠ 0 → m.neededAbove b = 0 → m.addedBelow a b = m.newSize a b - m.size) ∧
    (m.neededBelow a ≠ 0 → m.neededAbove b ≠ 0 →
      m.addedBelow a b = max (m.neededBelow a) ((m.newSize a b - m.size) / 2) ∨
      m.addedBelow a b = m.newSize a b - m.size - m.neededAbove b) := by
  have hg : m.newSize a b - m.size = max (m.size / 2) (m.neededBelow a + m.neededAbove b) := by
    unfold newSize; omega
  unfold addedBelow
  rw [hg]
  generalize m.neededBelow a = nb at *
  generalize m.neededAbove b = na at *
  generalize m.size / 2 = h at *
  refine ⟨?_, ?_, ?_, ?_, ?_⟩
  · split <;> (try split) <;> omega
  · split <;> (try split) <;> omega
  · intro h0; simp [h0]
  · intro h0 h1; simp [h0, h1]
  · intro h0 h1; simp only [if_neg h0, if_neg h1]; omega

theorem makeAccessible_grown {m : Mem w} {a b : Int} (hwf : WF m) (hs : Small m)
    (ha1 : -bound ≤ a) (ha2 : a ≤ bound) (hb1 : -bound ≤ b) (hb2 : b ≤ bound) :
    Grown m (m.makeAccessible a b)
      (if NoGrowth m a b then 0 else m.addedBelow a b)
      (if NoGrowth m a b then 0 else m.newSize a b - m.size - m.addedBelow a b) := by
  rw [makeAccessible_eq hs ha1 ha2 hb1 hb2]
  by_cases hn : NoGrowth m a b
  · simp only [if_pos hn]
    exact ⟨by simp, by simp, hwf.2, by simp⟩
  · simp only [if_neg hn]
    obtain ⟨h1, h2⟩ := addedBelow_bounds m a b
    have hg : m.newSize a b - m.size = max (m.size / 2) (m.neededBelow a + m.neededAbove b) := by
      unfold newSize; omega
    refine ⟨rfl, ?_, ?_, ?_⟩
    · show m.newSize a b = _
      unfold newSize at *; omega
    · dsimp only; exact wrapU64_lt _
    · dsimp only
      rw [wrapU64_off]
      obtain ⟨s1, s2, s3⟩ := hs
      unfold bound neededBelow neededAbove at *
      apply asI64_wrapU64 <;> omega

/-- The grown allocation covers the requested range and stays far below `2^63`. -/
theorem grown_cover {m : Mem w} {a b : Int} (hs : Small m)
    (ha1 : -bound ≤ a) (ha2 : a ≤ bound) (hb1 : -bound ≤ b) (hb2 : b ≤ bound) :
    let ab := (if NoGrowth m a b then 0 else m.addedBelow a b)
    let g := (if NoGrowth m a b then 0 else m.newSize a b - m.size - m.addedBelow a b)
    0 ≤ asI64 m.offset + a + ab ∧ asI64 m.offset + b ≤ m.size + g ∧ (ab : Int) + g ≤ 4 * bound := by
  intro ab g
  by_cases hn : NoGrowth m a b
  · have h := (noGrowth_iff m a b).1 hn
    simp only [ab, g, if_pos hn]
    unfold bound; omega
  · simp only [ab, g, if_neg hn]
    obtain ⟨h1, h2, _⟩ := addedBelow_bounds m a b
    have hg : m.newSize a b - m.size = max (m.size / 2) (m.neededBelow a + m.neededAbove b) := by
      unfold newSize; omega
    obtain ⟨s1, s2, s3⟩ := hs
    have n1 : m.neededBelow a = (-(asI64 m.offset + a)).toNat := rfl
    have n2 : m.neededAbove b = (asI64 m.offset + b - m.size).toNat := rfl
    generalize m.neededBelow a = nb at *
    generalize m.neededAbove b = na at *
    generalize m.addedBelow a b = AB at *
    generalize m.newSize a b - m.size = N at *
    generalize asI64 m.offset = O at *
    generalize m.size = S at *
    unfold bound at *
    clear hn
    have hN : (N : Int) ≤ 2305843009213693952 := by
      rcases Nat.le_total (S / 2) (nb + na) with c | c
      · rw [Nat.max_eq_right c] at hg; omega
      · rw [Nat.max_eq_left c] at hg; omega
    clear hg
    refine ⟨by omega, by omega, by omega⟩

theorem makeAccessible_wf' {m : Mem w} {a b : Int} (hwf : WF m) (hs : Small m)
    (ha1 : -bound ≤ a) (ha2 : a ≤ bound) (hb1 : -bound ≤ b) (hb2 : b ≤ bound) :
    WF (m.makeAccessible a b) :=
  (makeAccessible_grown hwf hs ha1 ha2 hb1 hb2).wf hwf

theorem makeAccessible_cell' {m : Mem w} {a b : Int} (hwf : WF m) (hs : Small m)
    (ha1 : -bound ≤ a) (ha2 : a ≤ bound) (hb1 : -bound ≤ b) (hb2 : b ≤ bound) (off : Int) :
    (m.makeAccessible a b).cell off = m.cell off :=
  (makeAccessible_grown hwf hs ha1 ha2 hb1 hb2).cell hwf off

/-- After `make_accessible a b`, every `i ∈ [a, b)` is inside the allocation (as an integer
statement about the new state; `check` is derived from it). -/
theorem makeAccessible_inside {m : Mem w} {a b i : Int} (hwf : WF m) (hs : Small m)
    (ha1 : -bound ≤ a) (ha2 : a ≤ bound) (hb1 : -bound ≤ b) (hb2 : b ≤ bound)
    (hi1 : a ≤ i) (hi2 : i < b) :
    0 ≤ asI64 (m.makeAccessible a b).offset + i ∧
    asI64 (m.makeAccessible a b).offset + i < (m.makeAccessible a b).size ∧
    wrapU64 ((m.makeAccessible a b).offset + i) = (asI64 (m.makeAccessible a b).offset + i).toNat := by
  have G := makeAccessible_grown hwf hs ha1 ha2 hb1 hb2
  have C := grown_cover hs ha1 ha2 hb1 hb2
  simp only at C
  obtain ⟨c1, c2, c3⟩ := C
  obtain ⟨s1, s2, s3⟩ := hs
  have e1 := G.offset
  have e2 := G.size
  generalize (if NoGrowth m a b then 0 else m.addedBelow a b) = ab at *
  generalize (if NoGrowth m a b then 0 else m.newSize a b - m.size - m.addedBelow a b) = g at *
  unfold bound at *
  have p1 : 0 ≤ asI64 (m.makeAccessible a b).offset + i := by omega
  refine ⟨p1, by omega, ?_⟩
  apply wrap_eq_toNat_raw p1
  omega

theorem makeAccessible_check' {m : Mem w} {a b i : Int} (hwf : WF m) (hs : Small m)
    (ha1 : -bound ≤ a) (ha2 : a ≤ bound) (hb1 : -bound ≤ b) (hb2 : b ≤ bound)
    (hi1 : a ≤ i) (hi2 : i < b) :
    (m.makeAccessible a b).check i = true := by
  obtain ⟨p1, p2, p3⟩ := makeAccessible_inside hwf hs ha1 ha2 hb1 hb2 hi1 hi2
  unfold check
  rw [decide_eq_true_iff, p3]
  omega

theorem makeAccessible_size' {m : Mem w} {a b : Int} (hs : Small m)
    (ha1 : -bound ≤ a) (ha2 : a ≤ bound) (hb1 : -bound ≤ b) (hb2 : b ≤ bound) :
    (m.makeAccessible a b).size =
      if NoGrowth m a b then m.size
      else m.size + max (m.size / 2) (m.neededBelow a + m.neededAbove b) := by
  rw [makeAccessible_eq hs ha1 ha2 hb1 hb2]
  split <;> rfl

/-! ### write -/

/-- Storing into an in-bounds cell changes exactly that logical cell. -/
theorem cell_set {m : Mem w} (hwf : WF m) {off : Int} (v : BitVec w)
    (h0 : 0 ≤ asI64 m.offset + off) (h1 : asI64 m.offset + off < m.size) (off' : Int) :
    ({ m with buf := m.buf.setIfInBounds (asI64 m.offset + off).toNat v } : Mem w).cell off' =
      if off' = off then v else m.cell off' := by
  unfold cell
  simp only [Array.getElem?_setIfInBounds]
  have hsz := hwf.1
  generalize asI64 m.offset = O at *
  by_cases e : off' = off
  · subst e
    rw [if_pos rfl, if_pos ⟨h0, h1⟩, if_pos rfl, if_pos (by omega)]
    rfl
  · rw [if_neg e]
    split
    · rw [if_neg (by omega)]
    · rfl

theorem write_wf' {m : Mem w} {off : Int} (v : BitVec w) (hwf : WF m) (hs : Small m)
    (ho : SmallArg off) : WF (m.write off v) := by
  unfold write
  simp only
  split
  · exact ⟨by simp [hwf.1], hwf.2⟩
  · obtain ⟨o1, o2⟩ := ho
    have W := makeAccessible_wf' (a := off) (b := off + 1) hwf hs (by omega) (by omega)
      (by unfold bound at *; omega) (by omega)
    exact ⟨by simp [W.1], W.2⟩

theorem write_cell' {m : Mem w} {off : Int} (v : BitVec w) (hwf : WF m) (hs : Small m)
    (ho : SmallArg off) (off' : Int) :
    (m.write off v).cell off' = if off' = off then v else m.cell off' := by
  unfold write
  simp only
  split
  · rename_i h
    have h' := (wrap_lt_size_iff hs ho).1 h
    rw [wrap_eq_toNat hs ho h'.1]
    exact cell_set hwf v h'.1 h'.2 off'
  · obtain ⟨o1, o2⟩ := ho
    have b1 : -bound ≤ off := by omega
    have b2 : off ≤ bound := by omega
    have b3 : -bound ≤ off + 1 := by unfold bound at *; omega
    have b4 : off + 1 ≤ bound := by omega
    have W := makeAccessible_wf' hwf hs b1 b2 b3 b4
    obtain ⟨p1, p2, p3⟩ := makeAccessible_inside (i := off) hwf hs b1 b2 b3 b4 (by omega) (by omega)
    rw [p3, cell_set W v p1 p2 off', makeAccessible_cell' hwf hs b1 b2 b3 b4]

/-! ### byte pointers: current_ptr / set_current_ptr / check_ptr -/

/-- The four cell widths of `impl CellType` (u8/u16/u32/u64). -/
def RustWidth (w : Nat) : Prop := w = 8 ∨ w = 16 ∨ w = 32 ∨ w = 64

theorem cellBytes_cases (hw : RustWidth w) :
    cellBytes w = 1 ∨ cellBytes w = 2 ∨ cellBytes w = 4 ∨ cellBytes w = 8 := by
  rcases hw with h | h | h | h <;> subst h <;> decide

theorem setCurrentPtr_offset {m : Mem w} (hw : RustWidth w) (hwf : WF m) (hs : Small m) :
    wrapU64 (Int.tdiv (asI64 m.currentPtr) (cellBytes w : Int)) = m.offset := by
  obtain ⟨s1, s2, s3⟩ := hs
  have hlt := hwf.2
  have key : asI64 m.currentPtr = asI64 m.offset * (cellBytes w : Int) := by
    unfold currentPtr
    rcases cellBytes_cases hw with h | h | h | h <;> rw [h] <;>
      unfold asI64 two63 two64 bound at * <;> split at s2 <;> split at s3 <;> split <;> omega
  rw [key, Int.mul_tdiv_cancel]
  · unfold wrapU64 asI64 two63 two64 at *; split <;> omega
  · rcases cellBytes_cases hw with h | h | h | h <;> rw [h] <;> decide

theorem setCurrentPtr_currentPtr' {m : Mem w} (hw : RustWidth w) (hwf : WF m) (hs : Small m) :
    m.setCurrentPtr m.currentPtr = m := by
  unfold setCurrentPtr
  rw [setCurrentPtr_offset hw hwf hs]

theorem checkPtr_currentPtr' {m : Mem w} {off : Int} (hw : RustWidth w) (hwf : WF m) (hs : Small m)
    (ho : SmallArg off) :
    m.checkPtr (wrapU64 ((m.currentPtr : Int) + off * (cellBytes w : Int))) = m.check off := by
  unfold checkPtr check
  rw [decide_eq_decide, wrap_lt_size_iff hs ho]
  obtain ⟨s1, s2, s3⟩ := hs
  obtain ⟨o1, o2⟩ := ho
  have hlt := hwf.2
  unfold currentPtr
  rcases cellBytes_cases hw with h | h | h | h <;> rw [h] <;>
    unfold wrapU64 asI64 two63 two64 bound at * <;> split at s2 <;> split at s3 <;> split <;> omega

end Mem

/-! ### Abstract specification: an unbounded zero-initialised tape -/

/-- Abstract tape: a total function from logical positions to cells, and the pointer. -/
structure Spec (w : Nat) where
  tape : Int → BitVec w
  ptr : Int

/-- One call on a tape object. -/
inductive MemOp (w : Nat) where
  | mov (d : Int)
  | read (off : Int)
  | write (off : Int) (v : BitVec w)
  | makeAccessible (a b : Int)
  | check (off : Int)

namespace Spec
variable {w : Nat}

/-- The all-zero tape with the pointer at position 0 (abstract counterpart of `Memory::new`). -/
def zero : Spec w := { tape := fun _ => 0#w, ptr := 0 }

/-- Abstract step.  `make_accessible` is a no-op, `check` has no visible effect (its result is
deliberately unconstrained), only `read` produces an output. -/
def apply (s : Spec w) : MemOp w → Spec w × Option (BitVec w)
  | .mov d => ({ s with ptr := s.ptr + d }, none)
  | .read off => (s, some (s.tape (s.ptr + off)))
  | .write off v => ({ s with tape := fun i => if i = s.ptr + off then v else s.tape i }, none)
  | .makeAccessible _ _ => (s, none)
  | .check _ => (s, none)

/-- Run a history; one output slot per call (`some v` for reads, `none` otherwise). -/
def run (s : Spec w) : List (MemOp w) → Spec w × List (Option (BitVec w))
  | [] => (s, [])
  | op :: ops =>
    let r := s.apply op
    let rs := run r.1 ops
    (rs.1, r.2 :: rs.2)

end Spec

namespace Mem
variable {w : Nat}

/-- Concrete step on the model of `Memory`. -/
def apply (m : Mem w) : MemOp w → Mem w × Option (BitVec w)
  | .mov d => (m.mov d, none)
  | .read off => (m, some (m.read off))
  | .write off v => (m.write off v, none)
  | .makeAccessible a b => (m.makeAccessible a b, none)
  | .check _ => (m, none)

/-- Run a history on the model; one output slot per call. -/
def run (m : Mem w) : List (MemOp w) → Mem w × List (Option (BitVec w))
  | [] => (m, [])
  | op :: ops =>
    let r := m.apply op
    let rs := run r.1 ops
    (rs.1, r.2 :: rs.2)

/-- Range guard on the arguments of one call. -/
def ArgGuard : MemOp w → Prop
  | .mov d => SmallArg d
  | .read off => SmallArg off
  | .write off _ => SmallArg off
  | .makeAccessible a b => SmallArg a ∧ SmallArg b
  | .check off => SmallArg off

instance (op : MemOp w) : Decidable (ArgGuard op) := by
  cases op <;> unfold ArgGuard <;> infer_instance

/-- Range guard for one step: state and arguments below `2^59`. -/
def Guard (m : Mem w) (op : MemOp w) : Prop := Small m ∧ ArgGuard op

instance (m : Mem w) (op : MemOp w) : Decidable (Guard m op) := by unfold Guard; infer_instance

/-- The range guard holds at every intermediate state of the concrete run. -/
def GuardAll (m : Mem w) : List (MemOp w) → Prop
  | [] => True
  | op :: ops => Guard m op ∧ GuardAll (m.apply op).1 ops

instance decGuardAll : (m : Mem w) → (ops : List (MemOp w)) → Decidable (GuardAll m ops)
  | _, [] => isTrue trivial
  | m, op :: ops =>
    have := decGuardAll (m.apply op).1 ops
    by unfold GuardAll; infer_instance

/-- Abstraction relation: the logical cell at every offset from the pointer agrees. -/
def Abs (m : Mem w) (s : Spec w) : Prop := ∀ off : Int, m.cell off = s.tape (s.ptr + off)

theorem abs_new : Abs (Mem.new : Mem w) Spec.zero := by
  intro off
  unfold cell new Spec.zero
  simp

theorem wf_new : WF (Mem.new : Mem w) := by
  unfold WF new two64; simp

theorem small_new : Small (Mem.new : Mem w) := by
  unfold Small new asI64 two63 bound; simp

/-- One step of the refinement. -/
theorem step_refines {m : Mem w} {s : Spec w} (op : MemOp w) (hwf : WF m) (habs : Abs m s)
    (hg : Guard m op) :
    (m.apply op).2 = (s.apply op).2 ∧ Abs (m.apply op).1 (s.apply op).1 ∧ WF (m.apply op).1 := by
  obtain ⟨hs, ha⟩ := hg
  cases op with
  | mov d =>
    refine ⟨rfl, ?_, mov_wf d hwf⟩
    intro off
    show (m.mov d).cell off = s.tape (s.ptr + d + off)
    rw [mov_cell' hs ha, habs]
    congr 1; omega
  | read off =>
    refine ⟨?_, habs, hwf⟩
    show some (m.read off) = some (s.tape (s.ptr + off))
    rw [read_eq_cell' hs ha, habs]
  | write off v =>
    refine ⟨rfl, ?_, write_wf' v hwf hs ha⟩
    intro off'
    show (m.write off v).cell off' = if s.ptr + off' = s.ptr + off then v else s.tape (s.ptr + off')
    rw [write_cell' v hwf hs ha, habs]
    by_cases e : off' = off
    · subst e; simp
    · rw [if_neg e, if_neg (by omega)]
  | makeAccessible a b =>
    obtain ⟨⟨a1, a2⟩, ⟨b1, b2⟩⟩ := ha
    have a1' : -bound ≤ a := by omega
    have a2' : a ≤ bound := by omega
    have b1' : -bound ≤ b := by omega
    have b2' : b ≤ bound := by omega
    refine ⟨rfl, ?_, makeAccessible_wf' hwf hs a1' a2' b1' b2'⟩
    intro off
    show (m.makeAccessible a b).cell off = s.tape (s.ptr + off)
    rw [makeAccessible_cell' hwf hs a1' a2' b1' b2', habs]
  | check off => exact ⟨rfl, habs, hwf⟩

theorem history_refines' (ops : List (MemOp w)) (m : Mem w) (s : Spec w)
    (hwf : WF m) (habs : Abs m s) (hg : GuardAll m ops) :
    (m.run ops).2 = (s.run ops).2 ∧ Abs (m.run ops).1 (s.run ops).1 ∧ WF (m.run ops).1 := by
  induction ops generalizing m s with
  | nil => exact ⟨rfl, habs, hwf⟩
  | cons op ops ih =>
    obtain ⟨g1, g2⟩ := hg
    obtain ⟨e, a, wf⟩ := step_refines op hwf habs g1
    obtain ⟨e', a', wf'⟩ := ih _ _ wf a g2
    refine ⟨?_, a', wf'⟩
    show (m.apply op).2 :: ((m.apply op).1.run ops).2 = (s.apply op).2 :: ((s.apply op).1.run ops).2
    rw [e, e']

theorem run_append (m : Mem w) (xs ys : List (MemOp w)) :
    m.run (xs ++ ys) = ((m.run xs).1.run ys |>.1, (m.run xs).2 ++ ((m.run xs).1.run ys).2) := by
  induction xs generalizing m with
  | nil => rfl
  | cons x xs ih =>
    show (((m.apply x).1.run (xs ++ ys)).1, (m.apply x).2 :: ((m.apply x).1.run (xs ++ ys)).2) = _
    rw [ih]
    rfl

theorem run_length (m : Mem w) (ops : List (MemOp w)) : (m.run ops).2.length = ops.length := by
  induction ops generalizing m with
  | nil => rfl
  | cons op ops ih =>
    show ((m.apply op).1.run ops).2.length + 1 = ops.length + 1
    rw [ih]

/-- Outputs of a prefix of the history do not depend on what comes later. -/
theorem run_prefix_out (m : Mem w) (xs ys : List (MemOp w)) (i : Nat) (hi : i < xs.length) :
    (m.run (xs ++ ys)).2[i]? = (m.run xs).2[i]? := by
  rw [run_append]
  simp only
  rw [List.getElem?_append_left (by rw [run_length]; exact hi)]

end Mem

/-! ### "most recently written value, 0 if never written", stated on the history itself -/

namespace MemOp
variable {w : Nat}

/-- Logical pointer position after a history that started at position `p`. -/
def ptrAfter (p : Int) : List (MemOp w) → Int
  | [] => p
  | .mov d :: ops => ptrAfter (p + d) ops
  | _ :: ops => ptrAfter p ops

/-- The value most recently written to logical position `pos` by a history that started with the
pointer at `p`; `none` if the history never wrote to `pos`. -/
def lastWrite (p : Int) (pos : Int) : List (MemOp w) → Option (BitVec w)
  | [] => none
  | .mov d :: ops => lastWrite (p + d) pos ops
  | .write off v :: ops =>
    match lastWrite p pos ops with
    | some v' => some v'
    | none => if pos = p + off then some v else none
  | _ :: ops => lastWrite p pos ops

theorem lastWrite_write (p pos off : Int) (v : BitVec w) (ops : List (MemOp w)) :
    lastWrite p pos (.write off v :: ops) =
      match lastWrite p pos ops with
      | some v' => some v'
      | none => if pos = p + off then some v else none := rfl

end MemOp

namespace Spec
variable {w : Nat}

theorem run_ptr (s : Spec w) (ops : List (MemOp w)) : (s.run ops).1.ptr = MemOp.ptrAfter s.ptr ops := by
  induction ops generalizing s with
  | nil => rfl
  | cons op ops ih =>
    show ((s.apply op).1.run ops).1.ptr = _
    rw [ih]
    cases op <;> rfl

theorem run_tape (s : Spec w) (ops : List (MemOp w)) (pos : Int) :
    (s.run ops).1.tape pos = (MemOp.lastWrite s.ptr pos ops).getD (s.tape pos) := by
  induction ops generalizing s with
  | nil => rfl
  | cons op ops ih =>
    show ((s.apply op).1.run ops).1.tape pos = _
    rw [ih]
    cases op with
    | write off v =>
      show (MemOp.lastWrite s.ptr pos ops).getD (if pos = s.ptr + off then v else s.tape pos) = _
      rw [MemOp.lastWrite_write]
      cases MemOp.lastWrite s.ptr pos ops with
      | some v' => rfl
      | none => by_cases e : pos = s.ptr + off <;> simp [e]
    | _ => rfl

theorem run_append (s : Spec w) (xs ys : List (MemOp w)) :
    s.run (xs ++ ys) = ((s.run xs).1.run ys |>.1, (s.run xs).2 ++ ((s.run xs).1.run ys).2) := by
  induction xs generalizing s with
  | nil => rfl
  | cons x xs ih =>
    show (((s.apply x).1.run (xs ++ ys)).1, (s.apply x).2 :: ((s.apply x).1.run (xs ++ ys)).2) = _
    rw [ih]
    rfl

theorem run_length (s : Spec w) (ops : List (MemOp w)) : (s.run ops).2.length = ops.length := by
  induction ops generalizing s with
  | nil => rfl
  | cons op ops ih =>
    show ((s.apply op).1.run ops).2.length + 1 = ops.length + 1
    rw [ih]

/-- In the abstract run from the zero tape, the read that follows the prefix `pre` returns the
value most recently written to its logical position, `0` if never written. -/
theorem run_read_out (pre post : List (MemOp w)) (off : Int) :
    ((Spec.zero : Spec w).run (pre ++ MemOp.read off :: post)).2[pre.length]? =
      some (some ((MemOp.lastWrite 0 (MemOp.ptrAfter 0 pre + off) pre).getD 0#w)) := by
  rw [run_append]
  simp only
  rw [List.getElem?_append_right (by rw [run_length]; exact Nat.le_refl _), run_length,
    Nat.sub_self]
  show some (some (((Spec.zero : Spec w).run pre).1.tape (((Spec.zero : Spec w).run pre).1.ptr + off))) = _
  rw [run_ptr, run_tape]
  rfl

end Spec

end Hpbf
