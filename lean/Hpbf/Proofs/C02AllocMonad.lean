/-
C02 (`allocate_temps`), part 1: the pass as a sequence of named phases.

`BcGen.allocStep` is one `do` block whose elaboration threads join points through the whole body.  Here the
block is cut into phases (`phCan`, `phFuse`, `phRewrite`, `freeAll`, `phLive`, `phDst`); `allocStep_eq` shows
that `allocStep` is their sequential composition, and `allocStep_ok` turns a successful run into the chain
of intermediate states.
-/
import Hpbf.BcGen

namespace Hpbf
namespace C02
namespace Alloc

open Bc BcGen

variable {w : Nat}

/-! ### the state/exception monad on successful runs -/

theorem bind_ok {α β : Type} (m : A w α) (f : α → A w β) (s s' : ASt w) (b : β) :
    (m >>= f) s = .ok (b, s') ↔ ∃ a s1, m s = .ok (a, s1) ∧ f a s1 = .ok (b, s') := by
  simp only [bind, StateT.bind, Except.bind]
  cases h : m s with
  | error e => simp
  | ok p =>
    obtain ⟨a, s1⟩ := p
    constructor
    · intro h'; exact ⟨a, s1, rfl, h'⟩
    · rintro ⟨a', s1', h1, h2⟩; cases h1; exact h2

theorem pure_ok {α : Type} (a b : α) (s s' : ASt w) :
    (pure a : A w α) s = .ok (b, s') ↔ b = a ∧ s' = s := by
  simp only [pure, StateT.pure, Except.pure, Except.ok.injEq, Prod.mk.injEq]
  constructor <;> rintro ⟨h1, h2⟩ <;> exact ⟨h1.symm, h2.symm⟩

theorem get_ok (a s s' : ASt w) : (get : A w (ASt w)) s = .ok (a, s') ↔ a = s ∧ s' = s := by
  simp only [get, getThe, MonadStateOf.get, StateT.get, pure, Except.pure, Except.ok.injEq,
    Prod.mk.injEq]
  constructor <;> rintro ⟨h1, h2⟩ <;> exact ⟨h1.symm, h2.symm⟩

theorem set_ok (x s s' : ASt w) (u : Unit) : (set x : A w Unit) s = .ok (u, s') ↔ s' = x := by
  simp only [set, MonadStateOf.set, StateT.set, pure, Except.pure, Except.ok.injEq, Prod.mk.injEq]
  constructor
  · rintro ⟨_, h⟩; exact h.symm
  · intro h; exact ⟨trivial, h.symm⟩

theorem modify_ok (f : ASt w → ASt w) (s s' : ASt w) (u : Unit) :
    (modify f : A w Unit) s = .ok (u, s') ↔ s' = f s := by
  simp only [modify, modifyGet, MonadStateOf.modifyGet, StateT.modifyGet, pure, Except.pure,
    Except.ok.injEq, Prod.mk.injEq]
  constructor
  · rintro ⟨_, h⟩; exact h.symm
  · intro h; exact ⟨trivial, h.symm⟩

theorem throw_ok {α : Type} (e : String) (s s' : ASt w) (a : α) :
    (throw e : A w α) s = .ok (a, s') ↔ False := by
  simp [throw, throwThe, MonadExceptOf.throw, StateT.lift, Except.bind, bind]

theorem get_bind {β : Type} (f : ASt w → A w β) (s : ASt w) :
    ((get : A w (ASt w)) >>= f) s = f s s := rfl
theorem set_bind {β : Type} (x : ASt w) (f : Unit → A w β) (s : ASt w) :
    ((set x : A w Unit) >>= f) s = f () x := rfl
theorem modify_bind {β : Type} (g : ASt w → ASt w) (f : Unit → A w β) (s : ASt w) :
    ((modify g : A w Unit) >>= f) s = f () (g s) := rfl
theorem pure_bind' {α β : Type} (a : α) (f : α → A w β) (s : ASt w) :
    ((pure a : A w α) >>= f) s = f a s := rfl
theorem throw_bind {α β : Type} (e : String) (f : α → A w β) :
    ((throw e : A w α) >>= f) = throw e := rfl
theorem throw_run {α : Type} (e : String) (s : ASt w) : (throw e : A w α) s = .error e := rfl

theorem ite_run {α : Type} (c : Prop) [Decidable c] (a b : A w α) (s : ASt w) :
    (if c then a else b) s = if c then a s else b s := by
  split <;> rfl

/-! ### small state updates -/

/-- `insts[i] = x` (ignored out of bounds). -/
def _root_.Hpbf.BcGen.ASt.setI (a : ASt w) (i : Nat) (x : Instr w) : ASt w :=
  { a with st := { a.st with insts := a.st.insts.setIfInBounds i x } }

theorem setInst_ok (i : Nat) (x : Instr w) (a a' : ASt w) (u : Unit) :
    setInst i x a = .ok (u, a') ↔ a' = a.setI i x := by
  unfold setInst; exact modify_ok _ _ _ _

theorem setInst_bind {β : Type} (i : Nat) (x : Instr w) (f : Unit → A w β) (a : ASt w) :
    (setInst i x >>= f) a = f () (a.setI i x) := rfl

theorem instAt_ok (site : String) (i : Nat) (a a' : ASt w) (x : Instr w) :
    instAt site i a = .ok (x, a') ↔ a.st.insts[i]? = some x ∧ a' = a := by
  unfold instAt
  simp only [get_bind]
  cases h : a.st.insts[i]? with
  | none => simp [throw_run]
  | some y =>
    simp only [pure, StateT.pure, Except.pure, Except.ok.injEq, Prod.mk.injEq, Option.some.injEq]
    constructor
    · rintro ⟨rfl, rfl⟩; exact ⟨rfl, rfl⟩
    · rintro ⟨rfl, rfl⟩; exact ⟨rfl, rfl⟩

theorem rangeAt_ok (site : String) (t : Nat) (a a' : ASt w) (r : RangeInfo) :
    rangeAt site t a = .ok (r, a') ↔ a.st.ranges[t]? = some r ∧ a' = a := by
  unfold rangeAt
  simp only [get_bind]
  cases h : a.st.ranges[t]? with
  | none => simp [throw_run]
  | some y =>
    simp only [pure, StateT.pure, Except.pure, Except.ok.injEq, Prod.mk.injEq, Option.some.injEq]
    constructor
    · rintro ⟨rfl, rfl⟩; exact ⟨rfl, rfl⟩
    · rintro ⟨rfl, rfl⟩; exact ⟨rfl, rfl⟩

theorem lastUseOf_ok (site : String) (t : Nat) (a a' : ASt w) (l : Nat) :
    lastUseOf site t a = .ok (l, a') ↔
      (∃ r, a.st.ranges[t]? = some r ∧ r.lastUse = some l) ∧ a' = a := by
  unfold lastUseOf
  rw [bind_ok]
  constructor
  · rintro ⟨r, a1, h1, h2⟩
    rw [rangeAt_ok] at h1
    obtain ⟨h1, rfl⟩ := h1
    cases hl : r.lastUse with
    | none => simp [hl, throw_run] at h2
    | some l' =>
      simp only [hl] at h2
      rw [pure_ok] at h2
      obtain ⟨rfl, rfl⟩ := h2
      exact ⟨⟨r, h1, hl⟩, rfl⟩
  · rintro ⟨⟨r, h1, hl⟩, h⟩
    subst h
    refine ⟨r, _, (rangeAt_ok _ _ _ _ _).2 ⟨h1, rfl⟩, ?_⟩
    simp only [hl]
    rfl

/-! ### the phases of `allocStep` in continuation-passing form (definitionally the original) -/

def phCanK (numRegs i : Nat) (atf0 : List Nat) (inst0 : Instr w) (k : Bool → A w Unit) : A w Unit :=
  match dstTmp? inst0 with
  | some tmp => do
    let lastUse ← lastUseOf "allocate_temps:can_alloc_reg:last_use.unwrap" tmp
    if lastUse < i then throw "allocate_temps:can_alloc_reg:last_use-i-underflow"
    let live := lastUse - i
    let a ← get
    let can ← pure ((live < 16 || a.freeRegs.length > 2)
      && (!a.freeRegs.isEmpty || atf0.any (fun x => decide (x < numRegs))))
    k can
  | none => do let can ← pure false; k can

def phFuseK (i : Nat) (canAllocReg : Bool) (atf0 : List Nat) (inst0 : Instr w)
    (k : List Nat → A w Unit) : A w Unit := do
  let mut atf := atf0
  match arith? inst0 with
  | some (_, .tmp tmp, s0, s1) =>
    let r ← rangeAt "allocate_temps:ranges-index" tmp
    match r.lastUse with
    | some lastUse =>
      let firstUse ←
        match r.firstUse with
        | some f => pure f
        | none => throw "allocate_temps:first_use.unwrap"
      let fi ← instAt "allocate_temps:insts[first_use]-index" firstUse
      match fi with
      | .copy (.mem mem) _ =>
        let a ← get
        let c1 := (r.numUses == 1 || !canAllocReg) && !hasWriteInRange a.st mem (firstUse + 1) lastUse
        let ok ←
          if c1 then
            match srcOk a i firstUse s0 with
            | .error e => throw e
            | .ok false => pure false
            | .ok true =>
              match srcOk a i firstUse s1 with
              | .error e => throw e
              | .ok b => pure b
          else pure false
        if ok then
          atf ← fuseSrc firstUse atf s0
          atf ← fuseSrc firstUse atf s1
          modify fun a =>
            { a with repl := alSet a.repl tmp (.mem mem), nre := nrePush (lastUse, tmp) a.nre }
          setInst firstUse inst0
          setInst i .noop
          match arith? (← instAt "allocate_temps:insts[first_use]-index" firstUse) with
          | some (op, _, x0, x1) => setInst firstUse (mkArith op (.mem mem) x0 x1)
          | none => pure ()
      | _ => pure ()
    | none => pure ()
  | _ => pure ()
  k atf

def phRewriteK (i : Nat) (k : Unit → A w Unit) : A w Unit := do
  let inst1 ← instAt "allocate_temps:insts-index" i
  let repl := (← get).repl
  match inst1 with
  | .copy d s =>
    match replSrc repl s with
    | .error e => throw e
    | .ok s' => setInst i (.copy d s')
  | _ =>
    match arith? inst1 with
    | some (op, d, s0, s1) =>
      match replSrc repl s0 with
      | .error e => throw e
      | .ok s0' =>
        match replSrc repl s1 with
        | .error e => throw e
        | .ok s1' => setInst i (mkArith op d s0' s1')
    | none => pure ()
  k ()

def phLiveK (numRegs : Nat) (k : Unit → A w Unit) : A w Unit := do
  match liveMask numRegs (← get).freeRegs with
  | .error e => throw e
  | .ok live => modify fun a => { a with st := { a.st with live := a.st.live.push live } }
  k ()

/-- Step 7 of `allocStep`: the destination. -/
def phDst (i : Nat) (canAllocReg : Bool) : A w Unit := do
  let inst2 ← instAt "allocate_temps:insts-index" i
  match inst2 with
  | .copy (.tmp tmp) src =>
    let r ← rangeAt "allocate_temps:ranges-index" tmp
    match r.lastUse with
    | some lastUse =>
      if r.numUses == 0 then setInst i .noop
      else
        match src with
        | .imm _ => forward i tmp lastUse src
        | .mem mem =>
          if (r.numUses == 1 || !canAllocReg) && !hasWriteInRange (← get).st mem i lastUse then
            forward i tmp lastUse src
          else allocTemp i tmp
        | _ => allocTemp i tmp
    | none => setInst i .noop
  | _ =>
    match arith? inst2 with
    | some (_, .tmp tmp, _, _) =>
      let r ← rangeAt "allocate_temps:ranges-index" tmp
      if r.numUses != 0 then allocTemp i tmp else setInst i .noop
    | _ => pure ()

theorem allocStep_eqK (numRegs i : Nat) :
    (allocStep numRegs i : A w Unit) = (do
      let atf0 ← drainEnds i (2 * (← get).nre.length + 2) []
      let inst0 ← instAt "allocate_temps:insts-index" i
      phCanK numRegs i atf0 inst0 fun can =>
        phFuseK i can atf0 inst0 fun atf =>
          phRewriteK i fun _ => do
            freeAll numRegs atf
            phLiveK numRegs fun _ => phDst i can) := rfl

end Alloc
end C02
end Hpbf
