/-
Loop optimisations of `Hpbf/Opt.lean`, part D: the small expression lemmas.

* `ev` wrappers of the C15 value theorems, congruence (`ev_congr`: the value only depends on the variables
  that occur), sums over iterations (`accN`).
* `VarsIn S e` (all variables of `e` satisfy `S`) and its preservation by `symbEvaluate`
  (`symbEvaluate_varsIn`): substitution does not invent variables.
* `groupedVars`, `shiftVars`, `reduceConst`, `splitAlong`.
-/
import Hpbf.Proofs.OptSem
import Hpbf.Props.C01Opt

namespace Hpbf.OptLoop
open Hpbf Opt OptSem Expr

variable {w : Nat}

/-! ### `ev` -/

@[simp] theorem ev_nil (m : Mem w) : ev ([] : Expr w) m = 0#w := rfl
@[simp] theorem ev_val (c : BitVec w) (m : Mem w) : ev (Expr.val c) m = c := eval_val c m
@[simp] theorem ev_var (v : Int) (m : Mem w) : ev (Expr.var v : Expr w) m = m v := eval_var v m
@[simp] theorem ev_add (a b : Expr w) (m : Mem w) : ev (Expr.add a b) m = ev a m + ev b m :=
  eval_add a b m
@[simp] theorem ev_mul (a b : Expr w) (m : Mem w) : ev (Expr.mul a b) m = ev a m * ev b m :=
  eval_mul a b m
theorem ev_append (a b : Expr w) (m : Mem w) : ev (a ++ b) m = ev a m + ev b m :=
  evaluate_append m a b
theorem ev_cons (p : Part w) (e : Expr w) (m : Mem w) : ev (p :: e) m = ev [p] m + ev e m :=
  ev_append [p] e m
theorem ev_singleton (p : Part w) (m : Mem w) : ev [p] m = p.coef * mono m p.vars :=
  evaluate_singleton m p

theorem mono_congr (f g : Int → BitVec w) (vs : List Int) (h : ∀ v ∈ vs, f v = g v) :
    mono f vs = mono g vs := by
  induction vs with
  | nil => rfl
  | cons v vs ih =>
    simp only [mono_cons]
    rw [h v List.mem_cons_self, ih (fun x hx => h x (List.mem_cons_of_mem _ hx))]

theorem variables_cons (p : Part w) (e : Expr w) : Expr.variables (p :: e) = p.vars ++ Expr.variables e := by
  simp [Expr.variables]

theorem mem_variables {e : Expr w} {v : Int} : v ∈ Expr.variables e ↔ ∃ p ∈ e, v ∈ p.vars := by
  simp [Expr.variables, List.mem_flatMap]

/-- The value of an expression only depends on the variables that occur in it. -/
theorem evaluate_congr (e : Expr w) (f g : Int → BitVec w) (h : ∀ v ∈ Expr.variables e, f v = g v) :
    evaluate e f = evaluate e g := by
  induction e with
  | nil => rfl
  | cons p e ih =>
    rw [evaluate_cons', evaluate_cons']
    rw [variables_cons] at h
    rw [mono_congr f g p.vars (fun v hv => h v (List.mem_append_left _ hv)),
      ih (fun v hv => h v (List.mem_append_right _ hv))]

theorem ev_congr (e : Expr w) (m m' : Mem w) (h : ∀ v ∈ Expr.variables e, m v = m' v) : ev e m = ev e m' :=
  evaluate_congr e m m' h

/-! ### sums over the iterations -/

/-- `g 0 + g 1 + … + g (n-1)`. -/
def accN (g : Nat → BitVec w) : Nat → BitVec w
  | 0 => 0#w
  | n + 1 => accN g n + g n

@[simp] theorem accN_zero (g : Nat → BitVec w) : accN g 0 = 0#w := rfl
@[simp] theorem accN_succ (g : Nat → BitVec w) (n : Nat) : accN g (n + 1) = accN g n + g n := rfl

theorem accN_congr (g h : Nat → BitVec w) (n : Nat) (hgh : ∀ k, k < n → g k = h k) :
    accN g n = accN h n := by
  induction n with
  | zero => rfl
  | succ n ih =>
    rw [accN_succ, accN_succ, ih (fun k hk => hgh k (Nat.lt_succ_of_lt hk)), hgh n (Nat.lt_succ_self n)]

open C01Opt.Lemmas in
theorem accN_add (g h : Nat → BitVec w) (n : Nat) :
    accN (fun k => g k + h k) n = accN g n + accN h n := by
  induction n with
  | zero => simp
  | succ n ih => simp only [accN_succ, ih]; bvring

open C01Opt.Lemmas in
theorem accN_const (c : BitVec w) (n : Nat) : accN (fun _ => c) n = BitVec.ofNat w n * c := by
  induction n with
  | zero => simp
  | succ n ih => simp only [accN_succ, ih]; bvring

/-- The sum of an arithmetic progression is `C01Opt.tri` (by definition). -/
theorem accN_lin (I D : BitVec w) (n : Nat) :
    accN (fun k => I + BitVec.ofNat w k * D) n = C01Opt.tri I D n := by
  induction n with
  | zero => rfl
  | succ n ih => rw [accN_succ, ih]; rfl

/-- A cell that receives `g k` in round `k`. -/
theorem accN_run (x : Nat → BitVec w) (g : Nat → BitVec w) (n : Nat)
    (h : ∀ k, k < n → x (k + 1) = x k + g k) : x n = x 0 + accN g n := by
  induction n with
  | zero => simp
  | succ n ih =>
    rw [h n (Nat.lt_succ_self n), ih (fun k hk => h k (Nat.lt_succ_of_lt hk)), accN_succ,
      BitVec.add_assoc]

/-! ### `VarsIn` -/

/-- Every variable of `e` satisfies `S`. -/
def VarsIn (S : Int → Prop) (e : Expr w) : Prop := ∀ p ∈ e, ∀ x ∈ p.vars, S x

theorem varsIn_iff {S : Int → Prop} {e : Expr w} : VarsIn S e ↔ ∀ x ∈ Expr.variables e, S x := by
  constructor
  · intro h x hx
    obtain ⟨p, hp, hxp⟩ := mem_variables.1 hx
    exact h p hp x hxp
  · intro h p hp x hx
    exact h x (mem_variables.2 ⟨p, hp, hx⟩)

/-- The same for the accumulation tables of `mul`/`symbEvaluate`. -/
def TblIn (S : Int → Prop) (m : List (List Int × BitVec w)) : Prop := ∀ kc ∈ m, ∀ x ∈ kc.1, S x

theorem tblIn_accum {S : Int → Prop} {m : List (List Int × BitVec w)} (hm : TblIn S m) (k : List Int)
    (c : BitVec w) (hk : ∀ x ∈ k, S x) : TblIn S (accum m k c) := by
  induction m with
  | nil =>
    intro kc hkc
    simp only [accum, List.mem_singleton] at hkc
    subst hkc; exact hk
  | cons kc m ih =>
    obtain ⟨k', c'⟩ := kc
    simp only [accum]
    split
    · intro kc hkc
      rcases List.mem_cons.1 hkc with rfl | h
      · exact hm (k', c') List.mem_cons_self
      · exact hm kc (List.mem_cons_of_mem _ h)
    · intro kc hkc
      rcases List.mem_cons.1 hkc with rfl | h
      · exact hm (k', c') List.mem_cons_self
      · exact ih (fun kc h => hm kc (List.mem_cons_of_mem _ h)) kc h

theorem sortVars_mem {vs : List Int} {x : Int} : x ∈ sortVars vs ↔ x ∈ vs :=
  (sortVars_perm vs).mem_iff

theorem varsIn_ofTable {S : Int → Prop} {m : List (List Int × BitVec w)} (hm : TblIn S m) :
    VarsIn S ((m.filter (fun kc => kc.2 != 0#w)).map
      (fun kc => ({ coef := kc.2, vars := kc.1 } : Part w))) := by
  intro p hp x hx
  obtain ⟨kc, hkc, rfl⟩ := List.mem_map.1 hp
  exact hm kc (List.mem_filter.1 hkc).1 x hx

theorem varsIn_finish {S : Int → Prop} {m : List (List Int × BitVec w)} (hm : TblIn S m) :
    VarsIn S (finish m) := by
  intro p hp x hx
  unfold finish at hp
  exact varsIn_ofTable hm p ((stableSort_perm _ _).mem_iff.1 hp) x hx

theorem varsIn_scaleMap {S : Int → Prop} {e : Expr w} {q : Part w} (he : VarsIn S e)
    (hq : ∀ x ∈ q.vars, S x) :
    VarsIn S ((e.map (fun p => ({ coef := p.coef * q.coef, vars := sortVars (p.vars ++ q.vars) } : Part w))).filter
      (fun p => p.coef != 0#w)) := by
  intro p hp x hx
  obtain ⟨p0, hp0, rfl⟩ := List.mem_map.1 (List.mem_filter.1 hp).1
  rcases List.mem_append.1 (sortVars_mem.1 hx) with h | h
  · exact he p0 hp0 x h
  · exact hq x h

theorem tblIn_mulLoop {S : Int → Prop} {a b : Expr w} (ha : VarsIn S a) (hb : VarsIn S b)
    (m : List (List Int × BitVec w)) (hm : TblIn S m) :
    TblIn S (a.foldl (fun m sp =>
      b.foldl (fun m op => accum m (sortVars (sp.vars ++ op.vars)) (sp.coef * op.coef)) m) m) := by
  induction a generalizing m with
  | nil => exact hm
  | cons sp a ih =>
    simp only [List.foldl_cons]
    apply ih (fun p hp => ha p (List.mem_cons_of_mem _ hp))
    have hsp := ha sp List.mem_cons_self
    clear ih
    induction b generalizing m with
    | nil => exact hm
    | cons op b ihb =>
      simp only [List.foldl_cons]
      apply ihb (fun p hp => hb p (List.mem_cons_of_mem _ hp))
      apply tblIn_accum hm
      intro x hx
      rcases List.mem_append.1 (sortVars_mem.1 hx) with h | h
      · exact hsp x h
      · exact hb op List.mem_cons_self x h

theorem varsIn_mulParts {S : Int → Prop} {l r : Expr w} (hl : VarsIn S l) (hr : VarsIn S r) :
    VarsIn S (mulParts l r) := by
  unfold mulParts
  split
  · intro p hp; cases hp
  · intro p hp; cases hp
  · exact varsIn_scaleMap hr (hl _ List.mem_cons_self)
  · exact varsIn_scaleMap hl (hr _ List.mem_cons_self)
  · exact varsIn_ofTable (tblIn_mulLoop hr hl [] (fun kc h => by cases h))

theorem varsIn_substProd {S : Int → Prop} (g : Int → Option (Expr w)) (vs : List Int)
    (hg : ∀ v ∈ vs, ∀ e, g v = some e → VarsIn S e) (part pr : Expr w) (hp : VarsIn S part)
    (h : substProd g part vs = some pr) : VarsIn S pr := by
  induction vs generalizing part with
  | nil =>
    simp only [substProd, Option.some.injEq] at h
    subst h; exact hp
  | cons v vs ih =>
    simp only [substProd] at h
    cases hgv : g v with
    | none => simp [hgv] at h
    | some e =>
      simp only [hgv] at h
      exact ih (fun x hx => hg x (List.mem_cons_of_mem _ hx)) _
        (varsIn_mulParts hp (hg v List.mem_cons_self e hgv)) h

theorem tblIn_scaledFold {S : Int → Prop} (c : BitVec w) {e : Expr w} (he : VarsIn S e)
    (m : List (List Int × BitVec w)) (hm : TblIn S m) :
    TblIn S (e.foldl (fun m vp => accum m vp.vars (c * vp.coef)) m) := by
  induction e generalizing m with
  | nil => exact hm
  | cons p e ih =>
    simp only [List.foldl_cons]
    exact ih (fun q hq => he q (List.mem_cons_of_mem _ hq)) _
      (tblIn_accum hm _ _ (he p List.mem_cons_self))

theorem tblIn_symbLoop {S : Int → Prop} (g : Int → Option (Expr w)) (ps : List (Part w))
    (hg : ∀ v ∈ Expr.variables ps, ∀ e, g v = some e → VarsIn S e)
    (m m' : List (List Int × BitVec w)) (hm : TblIn S m) (h : symbLoop g ps m = some m') :
    TblIn S m' := by
  induction ps generalizing m with
  | nil =>
    simp only [symbLoop, Option.some.injEq] at h
    subst h; exact hm
  | cons p ps ih =>
    rw [symbLoop] at h
    rw [variables_cons] at hg
    have hg' : ∀ v ∈ Expr.variables ps, ∀ e, g v = some e → VarsIn S e :=
      fun v hv => hg v (List.mem_append_right _ hv)
    split at h
    · exact ih hg' _ (tblIn_accum hm _ _ (fun x hx => by cases hx)) h
    · rename_i v hv
      cases hgv : g v with
      | none => simp [hgv] at h
      | some e =>
        simp only [hgv] at h
        have hve := hg v (List.mem_append_left _ (by rw [hv]; exact List.mem_cons_self)) e hgv
        exact ih hg' _ (tblIn_scaledFold _ hve m hm) h
    · rename_i v vs hne hv
      cases hgv : g v with
      | none => simp [hgv] at h
      | some e0 =>
        simp only [hgv] at h
        cases hs : substProd g e0 vs with
        | none => simp [hs] at h
        | some pr =>
          simp only [hs] at h
          have hve := hg v (List.mem_append_left _ (by rw [hv]; exact List.mem_cons_self)) e0 hgv
          have hvs : ∀ x ∈ vs, ∀ e, g x = some e → VarsIn S e :=
            fun x hx => hg x (List.mem_append_left _ (by rw [hv]; exact List.mem_cons_of_mem _ hx))
          exact ih hg' _ (tblIn_scaledFold _ (varsIn_substProd g vs hvs e0 pr hve hs) m hm) h

/-- Substitution does not invent variables. -/
theorem symbEvaluate_varsIn {S : Int → Prop} (g : Int → Option (Expr w)) (e r : Expr w)
    (hg : ∀ v ∈ Expr.variables e, ∀ e', g v = some e' → VarsIn S e')
    (h : symbEvaluate e g = some r) : VarsIn S r := by
  unfold symbEvaluate at h
  split at h
  · rename_i v hid
    refine hg v ?_ r h
    rw [identity_some hid]; simp [Expr.variables]
  · split at h
    · rename_i c hc
      simp only [Option.some.injEq] at h
      subst h
      unfold Expr.val
      split
      · intro p hp; cases hp
      · intro p hp x hx
        simp only [List.mem_singleton] at hp
        subst hp; cases hx
    · cases hs : symbLoop g e [] with
      | none => simp [hs] at h
      | some m =>
        simp only [hs, Option.some.injEq] at h
        subst h
        exact varsIn_finish (tblIn_symbLoop g e hg [] m (fun kc h => by cases h) hs)

end Hpbf.OptLoop
