/-
C02 / C13 (`allocate_temps` is total), part 9: the input the pass receives in `translate` satisfies `TotalPre`,
hence `allocate_temps` – and with it the whole of `translate` – never panics.
-/
import Hpbf.Proofs.C02AllocTotalLoop
import Hpbf.Proofs.C02AllocTotalDse
import Hpbf.Proofs.C02AllocTotalOrd
import Hpbf.Proofs.ChainPhases
import Hpbf.Props.C02EmitTotal
set_option linter.unusedSimpArgs false

namespace Hpbf
namespace C02

open Bc BcWf BcGen C11 Alloc AEmit

variable {w : Nat}

namespace Alloc

theorem dseLike_size {s s' : St w} (h : DseLike s s') : s'.insts.size = s.insts.size := by
  apply Nat.le_antisymm
  · apply Nat.le_of_not_lt
    intro hlt
    rcases h.insts s.insts.size with e | ⟨_, x, hx, _⟩
    · rw [Array.getElem?_eq_getElem hlt] at e
      simp at e
    · simp at hx
  · apply Nat.le_of_not_lt
    intro hlt
    rcases h.insts s'.insts.size with e | ⟨e, _⟩
    · rw [Array.getElem?_eq_getElem hlt] at e
      simp at e
    · simp at e

end Alloc

/-- **The precondition for totality holds in the pipeline.** -/
theorem totalPre_of_emit {prog : Ir.Block w} {fuse : Bool} {s1 s2 : St w} (h1 : emitState prog fuse = .ok s1)
    (h2 : deadStoreElim s1 = .ok s2) : TotalPre s2 := by
  have hD := deadStoreElim_dseLike h2
  have hl := linv_of_emit h1
  have hx := xinv_of_emit h1
  obtain ⟨hnu, hord⟩ := oi_of_emit h1
  have hdi := deadStoreElim_dinv (dinv_of_emit h1) h2
  have hF : FInv [((0 : Nat), (0 : Nat))] 0 s1 := closedI_emitState (closedI_finv fuse) h1 _ finv_init
  -- range entries of `s2` seen in `s1`
  have hrng : ∀ (t : Nat) (r2 : RangeInfo), s2.ranges[t]? = some r2 →
      ∃ r1 : RangeInfo, s1.ranges[t]? = some r1 ∧ SameRange r1 r2 := by
    intro t r2 hr2
    rcases hD.ranges t with ⟨e, _⟩ | ⟨r, r', e1, e2, e3⟩
    · rw [hr2] at e; cases e
    · rw [hr2] at e2; cases e2
      exact ⟨r, e1, e3⟩
  have hrng' : ∀ (t : Nat) (r1 : RangeInfo), s1.ranges[t]? = some r1 →
      ∃ r2 : RangeInfo, s2.ranges[t]? = some r2 ∧ SameRange r1 r2 := by
    intro t r1 hr1
    rcases hD.ranges t with ⟨_, e⟩ | ⟨r, r', e1, e2, e3⟩
    · rw [hr1] at e; cases e
    · rw [hr1] at e1; cases e1
      exact ⟨r', e2, e3⟩
  have hdst_ne : ∀ {x : Instr w} {t : Nat}, dstTmp? x = some t → x ≠ .noop := by
    intro x t h e; subst e; cases h
  refine ⟨AEmit.allocPre_of_emit h1 h2, ?_, hdi.defUse, ?_, ?_, ?_⟩
  · -- defd
    intro i x t hi hd
    have hi1 := hD.inst_of hi (hdst_ne hd)
    obtain ⟨r1, g1, g2⟩ := hl.defs i x t hi1 (mem_defs_of_dstTmp? hd)
    obtain ⟨r2, q1, q2⟩ := hrng' t r1 g1
    cases hf : r1.firstUse with
    | none => exact absurd ⟨r1, g1, hf⟩ (hnu t)
    | some f =>
      obtain ⟨L, hL, hfl⟩ := (hx.fl t r1 g1).1 f hf
      obtain ⟨_, _, g5⟩ := hl.rwf t r1 g1
      have := (g5 f hf).1
      exact ⟨r2, f, L, q1, by rw [q2.2.1]; exact hf, by rw [q2.2.2]; exact hL, by omega, hfl⟩
  · -- unread
    intro t r hr h0 j x hj
    have := hdi.count t r hr
    rw [h0] at this
    exact not_mem_of_occ_zero (Nat.le_zero.1 this) hj
  · -- lastLt
    intro t r2 L hr2 hL
    obtain ⟨r1, g1, g2⟩ := hrng t r2 hr2
    rw [dseLike_size hD]
    exact hF.lastLt t r1 L g1 (by rw [← g2.2.2]; exact hL)
  · -- mono
    intro i1 op1 t1 a1 b1 f1 m1 i2 op2 t2 a2 b2 f2 m2 u c1 c2 hlt _ _
    have hi1 := hD.inst_of c1.inst (mkArith_ne_noop _ _ _ _)
    have hi2 := hD.inst_of c2.inst (mkArith_ne_noop _ _ _ _)
    have hs2 := hD.inst_of c2.store (by intro e; cases e)
    obtain ⟨r1', L1, p1, p2, _⟩ := c1.first
    obtain ⟨r2', L2, q1, q2, _⟩ := c2.first
    obtain ⟨r1, g1, g2⟩ := hrng t1 r1' p1
    obtain ⟨r2, e1, e2⟩ := hrng t2 r2' q1
    obtain ⟨rd1, d1, d2⟩ := hl.defs i1 _ t1 hi1 (by rw [defs_mkArith]; simp [locTmp])
    obtain ⟨rd2, d3, d4⟩ := hl.defs i2 _ t2 hi2 (by rw [defs_mkArith]; simp [locTmp])
    rw [g1] at d1; cases d1
    rw [e1] at d3; cases d3
    obtain ⟨f1', k1, k2⟩ := hord t1 t2 r1 r2 f2 _ g1 e1 (by omega) (by rw [← e2.2.1]; exact q2) hs2 ⟨m2, rfl⟩
    rw [g2.2.1, k1] at p2
    cases p2
    omega

/-- **`allocate_temps` never panics on the code it receives in `translate`**, for every number of registers. -/
theorem allocateTemps_total_of_emit {prog : Ir.Block w} {fuse : Bool} {s1 s2 : St w} (numRegs : Nat)
    (h1 : emitState prog fuse = .ok s1) (h2 : deadStoreElim s1 = .ok s2) :
    ∃ s3, allocateTemps numRegs s2 = .ok s3 :=
  allocateTemps_total_of_pre (totalPre_of_emit h1 h2) numRegs

/-- **`translate` is total** (property C13 for the bytecode generator): every IR block, every number of
registers, both values of `fuse`. -/
theorem translateE_total (prog : Ir.Block w) (numRegs : Nat) (fuse : Bool) :
    ∃ p, translateE prog numRegs fuse = .ok p := by
  obtain ⟨s1, h1⟩ := emit_total prog fuse
  obtain ⟨s2, h2, hrest⟩ := Chain.translateE_ok_of_alloc (numRegs := numRegs) h1
  obtain ⟨s3, h3⟩ := allocateTemps_total_of_emit numRegs h1 h2
  exact hrest s3 h3

end C02
end Hpbf
