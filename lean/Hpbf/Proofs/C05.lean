/-
C05 lemmas: divergence certificates for the canonical machine.

* `normTape_lookup`: the normal form of a tape denotes the same function as the tape;
* `StEq` / `CfgEq`: configurations equal up to the trace and the representation of the tape;
* `stepRel_of_cfgEq`: `Bf.step` respects `CfgEq`, and the events appended are the same;
* `diverges_of_repeat`: a configuration reached again (up to `CfgEq`) after `k > 0` steps never terminates;
* `findCycle_diverges` / `findCycle_halts`: soundness of Brent's search in `Cert.findCycle`.
-/
import Hpbf.Cert
import Hpbf.Proofs.C04

namespace Hpbf
namespace C05

variable {w : Nat}

/-! ### `normTape` denotes the tape -/

theorem lookup_not_mem (l : List (Int × BitVec w)) (i : Int) (h : ∀ kv ∈ l, kv.1 ≠ i) :
    Tape.lookup l i = 0#w := by
  induction l with
  | nil => rfl
  | cons kv rest ih =>
    obtain ⟨k, v⟩ := kv
    have hk : k ≠ i := h (k, v) (by simp)
    simp only [Tape.lookup, hk, if_false]
    exact ih (fun kv hkv => h kv (by simp [hkv]))

theorem mem_insertCell {k : Int} {v : BitVec w} {l : List (Int × BitVec w)} {kv : Int × BitVec w}
    (h : kv ∈ Cert.insertCell k v l) : kv.1 = k ∨ kv ∈ l := by
  induction l with
  | nil => simp [Cert.insertCell] at h; left; rw [h]
  | cons ju rest ih =>
    obtain ⟨j, u⟩ := ju
    simp only [Cert.insertCell] at h
    split at h
    · rcases List.mem_cons.1 h with h | h
      · left; rw [h]
      · right; exact h
    · split at h
      · right; exact h
      · rcases List.mem_cons.1 h with h | h
        · right; rw [h]; simp
        · rcases ih h with h | h
          · left; exact h
          · right; simp [h]

theorem lookup_insertCell (k : Int) (v : BitVec w) (l : List (Int × BitVec w))
    (hk : ∀ kv ∈ l, kv.1 ≠ k) (i : Int) :
    Tape.lookup (Cert.insertCell k v l) i = if i = k then v else Tape.lookup l i := by
  induction l with
  | nil =>
    simp only [Cert.insertCell, Tape.lookup]
    by_cases h : i = k
    · simp [h]
    · have : ¬ k = i := fun e => h e.symm
      simp [h, this]
  | cons ju rest ih =>
    obtain ⟨j, u⟩ := ju
    have hj : j ≠ k := hk (j, u) (by simp)
    have ih := ih (fun kv hkv => hk kv (by simp [hkv]))
    simp only [Cert.insertCell]
    split
    · simp only [Tape.lookup]
      by_cases h : i = k
      · simp [h]
      · have : ¬ k = i := fun e => h e.symm
        simp [h, this]
    · have hkj : ¬ k = j := fun e => hj e.symm
      simp only [hkj, if_false, Tape.lookup, ih]
      by_cases h : j = i
      · have : ¬ i = k := fun e => hj (h.trans e)
        simp [h, this]
      · simp [h]

/-- The fold of `normTape`, generalised over the accumulator. -/
def normStep (acc : List Int × List (Int × BitVec w)) (kv : Int × BitVec w) :
    List Int × List (Int × BitVec w) :=
  if acc.1.contains kv.1 then acc
  else (kv.1 :: acc.1, if kv.2 = 0#w then acc.2 else Cert.insertCell kv.1 kv.2 acc.2)

theorem normTape_eq (t : Tape w) : Cert.normTape t = (t.cells.foldl normStep ([], [])).2 := rfl

theorem lookup_fold (l : List (Int × BitVec w)) :
    ∀ (seen : List Int) (out : List (Int × BitVec w)), (∀ kv ∈ out, kv.1 ∈ seen) →
      ∀ i, Tape.lookup (l.foldl normStep (seen, out)).2 i =
        if i ∈ seen then Tape.lookup out i else Tape.lookup l i := by
  induction l with
  | nil =>
    intro seen out hinv i
    simp only [List.foldl, Tape.lookup]
    by_cases hi : i ∈ seen
    · simp [hi]
    · simp only [hi, if_false]
      exact lookup_not_mem out i (fun kv hkv e => hi (e ▸ hinv kv hkv))
  | cons kv rest ih =>
    obtain ⟨k, v⟩ := kv
    intro seen out hinv i
    simp only [List.foldl]
    by_cases hk : k ∈ seen
    · have hs : normStep (seen, out) (k, v) = (seen, out) := by
        simp [normStep, hk]
      rw [hs, ih seen out hinv i]
      by_cases hi : i ∈ seen
      · simp [hi]
      · have : ¬ k = i := fun e => hi (e ▸ hk)
        simp [hi, Tape.lookup, this]
    · have hkout : ∀ kv ∈ out, kv.1 ≠ k := fun kv hkv e => hk (e ▸ hinv kv hkv)
      have hs : normStep (seen, out) (k, v) =
          (k :: seen, if v = 0#w then out else Cert.insertCell k v out) := by
        simp [normStep, hk]
      have hinv' : ∀ kv ∈ (if v = 0#w then out else Cert.insertCell k v out), kv.1 ∈ k :: seen := by
        intro kv hkv
        split at hkv
        · exact List.mem_cons_of_mem _ (hinv kv hkv)
        · rcases mem_insertCell hkv with h | h
          · rw [h]; simp
          · exact List.mem_cons_of_mem _ (hinv kv h)
      rw [hs, ih _ _ hinv' i]
      have hlk : Tape.lookup (if v = 0#w then out else Cert.insertCell k v out) i =
          if i = k then v else Tape.lookup out i := by
        split
        · rename_i hv
          by_cases hik : i = k
          · subst hik; simp [hv, lookup_not_mem out i hkout]
          · simp [hik]
        · exact lookup_insertCell k v out hkout i
      by_cases hik : i = k
      · subst hik
        simp [hk, hlk, Tape.lookup]
      · have hki : ¬ k = i := fun e => hik e.symm
        by_cases hi : i ∈ seen
        · simp [hi, hlk, hik]
        · simp [hi, hik, hki, Tape.lookup]

/-- The normal form denotes the same function as the tape. -/
theorem normTape_lookup (t : Tape w) (i : Int) : Tape.lookup (Cert.normTape t) i = t.get i := by
  rw [normTape_eq, lookup_fold t.cells [] [] (by simp) i]
  simp [Tape.get]

theorem get_eq_of_normTape_eq {s t : Tape w} (h : Cert.normTape s = Cert.normTape t) (i : Int) :
    s.get i = t.get i := by
  rw [← normTape_lookup, ← normTape_lookup, h]

/-! ### Equality up to trace and tape representation -/

/-- Same pointer and environment, tapes equal as functions; traces arbitrary. -/
structure StEq (s t : State w) : Prop where
  ptr : s.ptr = t.ptr
  env : s.env = t.env
  tape : ∀ i, s.tape.get i = t.tape.get i

/-- Same code and continuations, states related by `StEq`. -/
structure CfgEq (a b : Bf.Config w) : Prop where
  cur : a.cur = b.cur
  conts : a.conts = b.conts
  st : StEq a.st b.st

theorem StEq.refl (s : State w) : StEq s s := ⟨rfl, rfl, fun _ => rfl⟩
theorem StEq.symm {s t : State w} (h : StEq s t) : StEq t s :=
  ⟨h.ptr.symm, h.env.symm, fun i => (h.tape i).symm⟩
theorem StEq.trans {s t u : State w} (h : StEq s t) (h' : StEq t u) : StEq s u :=
  ⟨h.ptr.trans h'.ptr, h.env.trans h'.env, fun i => (h.tape i).trans (h'.tape i)⟩
theorem CfgEq.refl (a : Bf.Config w) : CfgEq a a := ⟨rfl, rfl, StEq.refl _⟩
theorem CfgEq.symm {a b : Bf.Config w} (h : CfgEq a b) : CfgEq b a :=
  ⟨h.cur.symm, h.conts.symm, h.st.symm⟩
theorem CfgEq.trans {a b c : Bf.Config w} (h : CfgEq a b) (h' : CfgEq b c) : CfgEq a c :=
  ⟨h.cur.trans h'.cur, h.conts.trans h'.conts, h.st.trans h'.st⟩

theorem sameCfg_cfgEq {a b : Bf.Config w} (h : Cert.sameCfg a b = true) : CfgEq a b := by
  simp only [Cert.sameCfg, Bool.and_eq_true, beq_iff_eq] at h
  obtain ⟨⟨⟨⟨h1, h2⟩, h3⟩, h4⟩, h5⟩ := h
  exact ⟨h1, h2, h3, h4, get_eq_of_normTape_eq h5⟩

theorem StEq.rd {s t : State w} (h : StEq s t) (off : Int) : s.rd off = t.rd off := by
  simp [State.rd, h.ptr, h.tape]

theorem StEq.wr {s t : State w} (h : StEq s t) (off : Int) (v : BitVec w) :
    StEq (s.wr off v) (t.wr off v) := by
  refine ⟨h.ptr, h.env, fun i => ?_⟩
  simp [State.wr, Tape.get_set, h.ptr, h.tape]

theorem StEq.mov {s t : State w} (h : StEq s t) (d : Int) : StEq (s.mov d) (t.mov d) := by
  refine ⟨?_, h.env, h.tape⟩
  simp [State.mov, h.ptr]

/-- Result of an I/O operation on related states: same verdict, related states, same new events. -/
def IoRel (s t : State w) (rs rt : Bool × State w) : Prop :=
  rs.1 = rt.1 ∧ StEq rs.2 rt.2 ∧
    ∃ evs, rs.2.trace = evs ++ s.trace ∧ rt.2.trace = evs ++ t.trace

theorem StEq.input {s t : State w} (h : StEq s t) (off : Int) :
    IoRel s t (s.input off) (t.input off) := by
  unfold State.input
  rw [← h.env]
  cases s.env.readByte with
  | got b e =>
    exact ⟨rfl, ⟨h.ptr, rfl, (h.wr off _).tape⟩, [Ev.inp b], rfl, rfl⟩
  | failed e => exact ⟨rfl, ⟨h.ptr, rfl, h.tape⟩, [Ev.inpFail], rfl, rfl⟩
  | absent => exact ⟨rfl, h, [], rfl, rfl⟩

theorem StEq.output {s t : State w} (h : StEq s t) (off : Int) :
    IoRel s t (s.output off) (t.output off) := by
  unfold State.output
  rw [← h.env, ← h.rd off]
  simp only
  split
  · rcases hw : s.env.writeByte with ⟨ok, e⟩
    cases ok
    · exact ⟨rfl, ⟨h.ptr, rfl, h.tape⟩, [Ev.outFail _], rfl, rfl⟩
    · exact ⟨rfl, ⟨h.ptr, rfl, h.tape⟩, [Ev.out _], rfl, rfl⟩
  · exact ⟨rfl, h, [], rfl, rfl⟩

theorem StEq.applyOp {s t : State w} (h : StEq s t) (op : Op) :
    IoRel s t (Bf.applyOp op s) (Bf.applyOp op t) := by
  cases op with
  | inc => simp only [Bf.applyOp, h.rd]; exact ⟨rfl, h.wr _ _, [], rfl, rfl⟩
  | dec => simp only [Bf.applyOp, h.rd]; exact ⟨rfl, h.wr _ _, [], rfl, rfl⟩
  | left => exact ⟨rfl, h.mov _, [], rfl, rfl⟩
  | right => exact ⟨rfl, h.mov _, [], rfl, rfl⟩
  | inp => exact h.input 0
  | out => exact h.output 0

/-- What `step_congr` asserts about the two step results. -/
def StepRel (a b : Bf.Config w) : Bf.StepRes w → Bf.StepRes w → Prop
  | .next a', .next b' =>
    CfgEq a' b' ∧ ∃ evs, a'.st.trace = evs ++ a.st.trace ∧ b'.st.trace = evs ++ b.st.trace
  | .halt s, .halt t =>
    StEq s t ∧ ∃ evs, s.trace = evs ++ a.st.trace ∧ t.trace = evs ++ b.st.trace
  | .stop s, .stop t =>
    StEq s t ∧ ∃ evs, s.trace = evs ++ a.st.trace ∧ t.trace = evs ++ b.st.trace
  | _, _ => False

/-- `Bf.step` respects `CfgEq`; the events appended by the two steps are the same. -/
theorem stepRel_of_cfgEq {a b : Bf.Config w} (h : CfgEq a b) : StepRel a b (Bf.step a) (Bf.step b) := by
  obtain ⟨acur, aconts, ast⟩ := a
  obtain ⟨bcur, bconts, bst⟩ := b
  obtain ⟨hc, hk, hs⟩ := h
  simp only at hc hk hs
  subst hc hk
  cases acur with
  | nil =>
    cases aconts with
    | nil => exact ⟨hs, [], rfl, rfl⟩
    | cons k ks => exact ⟨⟨rfl, rfl, hs⟩, [], rfl, rfl⟩
  | cmd op rest =>
    have hio := hs.applyOp op
    simp only [Bf.step]
    rcases ha : Bf.applyOp op ast with ⟨oka, sa⟩
    rcases hb : Bf.applyOp op bst with ⟨okb, sb⟩
    rw [ha, hb] at hio
    obtain ⟨hok, hst, hev⟩ := hio
    simp only at hok hst hev
    subst hok
    cases oka
    · exact ⟨hst, hev⟩
    · exact ⟨⟨rfl, rfl, hst⟩, hev⟩
  | loop body rest =>
    simp only [Bf.step, ← hs.rd 0]
    split
    · exact ⟨⟨rfl, rfl, hs⟩, [], rfl, rfl⟩
    · exact ⟨⟨rfl, rfl, hs⟩, [], rfl, rfl⟩

/-! ### Runs -/

/-- The canonical machine never returns from `c`. -/
def Diverges (c : Bf.Config w) : Prop := ∀ f, ∃ c', Bf.runCfg f c = .outOfFuel c'

theorem runCfg_split {m : Nat} {c c' : Bf.Config w} (h : Bf.runCfg m c = .outOfFuel c') (n : Nat) :
    Bf.runCfg (m + n) c = Bf.runCfg n c' := by
  induction m generalizing c with
  | zero =>
    simp only [Bf.runCfg] at h
    cases h
    simp
  | succ m ih =>
    have e : m + 1 + n = (m + n) + 1 := by omega
    rw [e]
    cases hs : Bf.step c with
    | next c1 =>
      rw [Bf.runCfg_succ_next hs] at h ⊢
      exact ih h
    | halt s => rw [Bf.runCfg_succ_halt hs] at h; cases h
    | stop s => rw [Bf.runCfg_succ_stop hs] at h; cases h

theorem runCfg_snoc {m : Nat} {c c' c'' : Bf.Config w} (h : Bf.runCfg m c = .outOfFuel c')
    (hs : Bf.step c' = .next c'') : Bf.runCfg (m + 1) c = .outOfFuel c'' := by
  rw [runCfg_split h 1, Bf.runCfg_succ_next hs]
  rfl

theorem outOfFuel_of_le {f f' : Nat} {c c' : Bf.Config w} (h : Bf.runCfg f' c = .outOfFuel c')
    (hf : f ≤ f') : ∃ c'', Bf.runCfg f c = .outOfFuel c'' := by
  have := Bf.not_halted_of_le (c := c) (f := f) (f' := f') (by rw [h]; exact id) hf
  cases hr : Bf.runCfg f c with
  | outOfFuel c'' => exact ⟨c'', rfl⟩
  | done s => rw [hr] at this; exact (this trivial).elim
  | stopped s => rw [hr] at this; exact (this trivial).elim

/-- If `b` is reached from `a` and never returns, `a` never returns. -/
theorem diverges_of_reach {n : Nat} {a b : Bf.Config w} (h : Bf.runCfg n a = .outOfFuel b)
    (hb : Diverges b) : Diverges a := by
  intro f
  rcases Nat.le_total f n with hle | hle
  · exact outOfFuel_of_le h hle
  · obtain ⟨g, rfl⟩ : ∃ g, f = n + g := ⟨f - n, by omega⟩
    rw [runCfg_split h g]
    exact hb g

/-- Running related configurations: out of fuel together, in related configurations. -/
theorem runCfg_congr {f : Nat} {a b a' : Bf.Config w} (h : CfgEq a b)
    (hr : Bf.runCfg f a = .outOfFuel a') : ∃ b', Bf.runCfg f b = .outOfFuel b' ∧ CfgEq a' b' := by
  induction f generalizing a b with
  | zero =>
    simp only [Bf.runCfg] at hr
    cases hr
    exact ⟨b, rfl, h⟩
  | succ f ih =>
    have hsc := stepRel_of_cfgEq h
    cases hsa : Bf.step a with
    | next a1 =>
      cases hsb : Bf.step b with
      | next b1 =>
        rw [hsa, hsb] at hsc
        rw [Bf.runCfg_succ_next hsa] at hr
        rw [Bf.runCfg_succ_next hsb]
        exact ih hsc.1 hr
      | halt s => rw [hsa, hsb] at hsc; exact hsc.elim
      | stop s => rw [hsa, hsb] at hsc; exact hsc.elim
    | halt s => rw [Bf.runCfg_succ_halt hsa] at hr; cases hr
    | stop s => rw [Bf.runCfg_succ_stop hsa] at hr; cases hr

theorem Diverges.congr {a b : Bf.Config w} (h : CfgEq a b) (ha : Diverges a) : Diverges b := by
  intro f
  obtain ⟨a', ha'⟩ := ha f
  obtain ⟨b', hb', _⟩ := runCfg_congr h ha'
  exact ⟨b', hb'⟩

/-- A configuration that is reached again (up to trace and tape representation) after `k > 0` steps
never terminates. -/
theorem diverges_of_repeat {k : Nat} {c c' : Bf.Config w} (hr : Bf.runCfg k c = .outOfFuel c')
    (hk : 0 < k) (he : CfgEq c' c) : Diverges c := by
  intro f
  induction f using Nat.strongRecOn with
  | _ f ih =>
    rcases Nat.le_total f k with hle | hle
    · exact outOfFuel_of_le hr hle
    · obtain ⟨g, rfl⟩ : ∃ g, f = k + g := ⟨f - k, by omega⟩
      rw [runCfg_split hr g]
      obtain ⟨c1, hc1⟩ := ih g (by omega)
      obtain ⟨c2, hc2, _⟩ := runCfg_congr he.symm hc1
      exact ⟨c2, hc2⟩

/-! ### Soundness of `Cert.findCycle` -/

theorem findCycle_diverges (fuel : Nat) :
    ∀ (tort hare : Bf.Config w) (power lam : Nat) (c : Bf.Config w) (per : Nat),
      Bf.runCfg lam tort = .outOfFuel hare →
      Cert.findCycle fuel tort hare power lam = .diverges c per →
      Diverges tort ∧ Diverges c ∧ 0 < per ∧ ∃ c', Bf.runCfg per c = .outOfFuel c' ∧ CfgEq c c' := by
  induction fuel with
  | zero => intro tort hare power lam c per _ h; simp [Cert.findCycle] at h
  | succ fuel ih =>
    intro tort hare power lam c per hreach h
    simp only [Cert.findCycle] at h
    cases hs : Bf.step hare with
    | halt s => rw [hs] at h; cases h
    | stop s => rw [hs] at h; cases h
    | next hare' =>
      rw [hs] at h
      simp only at h
      have hreach' := runCfg_snoc hreach hs
      split at h
      · rename_i hsame
        cases h
        have he := sameCfg_cfgEq hsame
        have hd := diverges_of_repeat hreach' (Nat.succ_pos _) he.symm
        exact ⟨hd, hd, Nat.succ_pos _, hare', hreach', he⟩
      · split at h
        · obtain ⟨hd, rest⟩ := ih hare' hare' (power * 2) 0 c per rfl h
          exact ⟨diverges_of_reach hreach' hd, rest⟩
        · exact ih tort hare' power (lam + 1) c per hreach' h

theorem findCycle_halts (fuel : Nat) :
    ∀ (tort hare : Bf.Config w) (power lam : Nat) (k : String) (s : State w),
      Cert.findCycle fuel tort hare power lam = .halts k s →
      (k = "done" ∧ ∃ f, Bf.runCfg f hare = .done s) ∨
      (k = "stopped" ∧ ∃ f, Bf.runCfg f hare = .stopped s) := by
  induction fuel with
  | zero => intro tort hare power lam k s h; simp [Cert.findCycle] at h
  | succ fuel ih =>
    intro tort hare power lam k s h
    simp only [Cert.findCycle] at h
    cases hs : Bf.step hare with
    | halt s' =>
      rw [hs] at h
      simp only [Cert.Verdict.halts.injEq] at h
      obtain ⟨rfl, rfl⟩ := h
      exact Or.inl ⟨rfl, 1, Bf.runCfg_succ_halt hs 0⟩
    | stop s' =>
      rw [hs] at h
      simp only [Cert.Verdict.halts.injEq] at h
      obtain ⟨rfl, rfl⟩ := h
      exact Or.inr ⟨rfl, 1, Bf.runCfg_succ_stop hs 0⟩
    | next hare' =>
      rw [hs] at h
      simp only at h
      have lift : ((k = "done" ∧ ∃ f, Bf.runCfg f hare' = .done s) ∨
          (k = "stopped" ∧ ∃ f, Bf.runCfg f hare' = .stopped s)) →
          ((k = "done" ∧ ∃ f, Bf.runCfg f hare = .done s) ∨
          (k = "stopped" ∧ ∃ f, Bf.runCfg f hare = .stopped s)) := by
        rintro (⟨hk, f, hf⟩ | ⟨hk, f, hf⟩)
        · exact Or.inl ⟨hk, f + 1, by rw [Bf.runCfg_succ_next hs]; exact hf⟩
        · exact Or.inr ⟨hk, f + 1, by rw [Bf.runCfg_succ_next hs]; exact hf⟩
      split at h
      · cases h
      · split at h
        · exact lift (ih _ _ _ _ k s h)
        · exact lift (ih _ _ _ _ k s h)

end C05
end Hpbf
