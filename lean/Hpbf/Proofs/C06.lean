/-
C06 — the bounds-checked modes keep the declared access window inside the tape allocation.
Lemmas about the layout model `Hpbf/Window.lean`; the property theorems are in `Hpbf/Props/C06.lean`.

Range guard.  As in C09 all claims are made below `Mem.bound = 2^59` cells: allocation sizes along the
run, the window constants `minAcc`, `maxAcc` and the shifts of the program.  (Why this covers what
the real code can reach before the allocator fails is explained at the top of `Proofs/C09.lean`.)
Between a move and its probe the pointer index can be up to `2 * bound` away from the allocation,
therefore the closed form of `Mem.growth` is re-established here for the wider range `2^61`
(`growth_eq_wide`; same proof as C09's `growth_eq`, nothing wraps below `2^63`).
-/
import Hpbf.Window
import Hpbf.Proofs.C09
import Hpbf.Proofs.C11

namespace Hpbf
namespace C06

open Window Mem

variable {w : Nat}

/-! ### the closed form of `Mem.growth` for the range `2^61` -/

theorem growth_eq_wide {m : Mem w} {a b : Int}
    (h1 : (m.size : Int) ≤ 2305843009213693952)
    (h2 : -2305843009213693952 ≤ asI64 m.offset) (h3 : asI64 m.offset ≤ 2305843009213693952)
    (ha1 : -2305843009213693952 ≤ a) (ha2 : a ≤ 2305843009213693952)
    (hb1 : -2305843009213693952 ≤ b) (hb2 : b ≤ 2305843009213693952) :
    m.growth a b = m.growthSpec a b := by
  have e1 : asI64 (wrapU64 (asI64 m.offset + a)) = asI64 m.offset + a := by
    apply asI64_wrapU64 <;> omega
  have e2 : asI64 (wrapU64 (asI64 m.offset + b)) = asI64 m.offset + b := by
    apply asI64_wrapU64 <;> omega
  have e3 : asI64 m.size = m.size := by
    apply asI64_small; unfold two63; omega
  unfold growth growthSpec addedBelow newSize neededBelow neededAbove
  simp only [e1, e2, e3]
  have hnb : (if asI64 m.offset + a < 0 then (asI64 m.offset + a).natAbs else 0)
      = (-(asI64 m.offset + a)).toNat := by
    split <;> omega
  have hna : (if asI64 m.offset + b > (m.size : Int) then wrapU64 (asI64 m.offset + b - m.size) else 0)
      = (asI64 m.offset + b - m.size).toNat := by
    split
    · apply wrapU64_nonneg <;> omega
    · omega
  rw [hnb, hna]

/-! ### layouts -/

/-- Range guard on a layout: size and pointer index below `2^59`. -/
def _root_.Hpbf.Window.Lay.Small (l : Lay) : Prop :=
  (l.size : Int) < bound ∧ -bound < l.cur ∧ l.cur < bound

instance (l : Lay) : Decidable l.Small := by unfold Lay.Small; infer_instance

/-- The wider range in which the closed forms hold (`4 * bound = 2^61`). -/
def _root_.Hpbf.Window.Lay.Wide (l : Lay) : Prop :=
  (l.size : Int) ≤ 4 * bound ∧ -(4 * bound) ≤ l.cur ∧ l.cur ≤ 4 * bound

theorem _root_.Hpbf.Window.Lay.Small.wide {l : Lay} (h : l.Small) : l.Wide := by
  unfold Lay.Small Lay.Wide bound at *; omega

/-- The dummy memory `Lay.grow` computes with. -/
def _root_.Hpbf.Window.Lay.mem (l : Lay) : Mem 8 := { buf := #[], size := l.size, offset := wrapU64 l.cur }

/-- The layout of a tape object. -/
def _root_.Hpbf.Window.Lay.ofMem (m : Mem w) : Lay := ⟨m.size, asI64 m.offset⟩

theorem mem_offset {l : Lay} (h : l.Wide) : asI64 l.mem.offset = l.cur := by
  unfold Lay.Wide bound at h
  unfold Lay.mem
  apply asI64_wrapU64 <;> omega

/-- Cells `make_accessible` needs below / above the allocation (wrap-free). -/
def _root_.Hpbf.Window.Lay.needBelow (l : Lay) (a : Int) : Nat := (-(l.cur + a)).toNat
def _root_.Hpbf.Window.Lay.needAbove (l : Lay) (b : Int) : Nat := (l.cur + b - l.size).toNat

/-- Workhorse: under the (wide) guard `Lay.grow` either does nothing (the range is already inside)
or adds `ab` cells below and `g` cells above with the relations guaranteed by `make_accessible`. -/
theorem grow_cases {l : Lay} {a b : Int} (hl : l.Wide)
    (ha1 : -(4 * bound) ≤ a) (ha2 : a ≤ 4 * bound) (hb1 : -(4 * bound) ≤ b) (hb2 : b ≤ 4 * bound) :
    (0 ≤ l.cur + a ∧ l.cur + b ≤ l.size ∧ l.grow a b = l) ∨
    (¬ (0 ≤ l.cur + a ∧ l.cur + b ≤ l.size) ∧
      ∃ ab g : Nat, l.grow a b = { size := ab + l.size + g, cur := l.cur + ab } ∧
        l.needBelow a ≤ ab ∧ l.needAbove b ≤ g ∧
        ab + g = max (l.size / 2) (l.needBelow a + l.needAbove b) ∧
        (l.needBelow a = 0 → ab = 0) ∧ (l.needBelow a ≠ 0 → l.needAbove b = 0 → g = 0) ∧
        ab = l.mem.addedBelow a b) := by
  have ho := mem_offset hl
  have hg : l.mem.growth a b = l.mem.growthSpec a b := by
    unfold Lay.Wide bound at hl
    unfold bound at *
    apply growth_eq_wide <;> (try rw [ho]) <;> (try (show ((l.size : Nat) : Int) ≤ _)) <;> omega
  have hnb : l.mem.neededBelow a = l.needBelow a := by
    unfold neededBelow Lay.needBelow; rw [ho]
  have hna : l.mem.neededAbove b = l.needAbove b := by
    unfold neededAbove Lay.needAbove; rw [ho]; rfl
  have hgrow : l.grow a b =
      if l.needBelow a = 0 ∧ l.needAbove b = 0 then l
      else { size := l.mem.newSize a b, cur := l.cur + (l.mem.addedBelow a b : Int) } := by
    show (if (l.mem.growth a b).1 = 0 ∧ (l.mem.growth a b).2.1 = 0 then l
      else { size := (l.mem.growth a b).2.2.1, cur := l.cur + ((l.mem.growth a b).2.2.2 : Int) }) = _
    rw [hg]
    simp only [growthSpec, hnb, hna]
  rw [hgrow]
  obtain ⟨b1, b2, b3, b4, _⟩ := addedBelow_bounds l.mem a b
  have hns : l.mem.newSize a b = l.size + max (l.size / 2) (l.needBelow a + l.needAbove b) := by
    unfold newSize; rw [hnb, hna]; rfl
  rw [hnb] at b1 b3 b4
  rw [hna] at b2 b4
  rw [hns] at b2 b4 ⊢
  generalize l.mem.addedBelow a b = AB at *
  have dnb : l.needBelow a = (-(l.cur + a)).toNat := rfl
  have dna : l.needAbove b = (l.cur + b - l.size).toNat := rfl
  generalize l.needBelow a = nb at *
  generalize l.needAbove b = na at *
  by_cases hn : nb = 0 ∧ na = 0
  · rw [if_pos hn]
    exact Or.inl ⟨by omega, by omega, rfl⟩
  · rw [if_neg hn]
    refine Or.inr ⟨by omega, AB, max (l.size / 2) (nb + na) - AB, ?_, b1, by omega, by omega, b3, ?_, rfl⟩
    · congr 1; omega
    · intro h0 h1
      have := b4 h0 h1
      omega

/-- `grow` never shrinks (no guard needed: `new_size = size + max(..)`). -/
theorem grow_size_ge (l : Lay) (a b : Int) : l.size ≤ (l.grow a b).size := by
  unfold Lay.grow
  simp only
  split
  · exact Nat.le_refl _
  · show l.size ≤ l.size + _
    omega

theorem inBounds_iff (l : Lay) (o : Int) :
    l.inBounds o = true ↔ 0 ≤ l.cur + o ∧ l.cur + o < (l.size : Int) := by
  unfold Lay.inBounds
  simp only [Bool.and_eq_true, decide_eq_true_eq]

theorem inBounds_false_iff (l : Lay) (o : Int) :
    ¬ (l.inBounds o = true) ↔ (l.cur + o < 0 ∨ (l.size : Int) ≤ l.cur + o) := by
  rw [inBounds_iff]; omega

end C06
end Hpbf
