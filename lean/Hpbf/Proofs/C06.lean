/-
C06 — the bounds-checked modes keep the declared access window inside the tape allocation.
Lemmas about the layout model `Hpbf/Window.lean`; the property theorems are in `Hpbf/Props/C06.lean`.

Range guard.  As in C09 all claims are made below `bound = 2^59` cells: allocation sizes along the
run, the window constants `minAcc`, `maxAcc` and the shifts of the program.  (Why this covers what
the real code can reach before the allocator fails is explained at the top of `Proofs/C09.lean`.)
Between a move and its probe the pointer index can be up to `2 * bound` away from the allocation,
therefore the closed form of `Mem.growth` is established here for the wider range `2^61`
(`growth_closed`; nothing wraps below `2^63`).

This file cannot import `Hpbf/Proofs/C09.lean` (its `Hpbf.Op` clashes with `Hpbf.Op` of `Hpbf/Bf.lean`,
which `Hpbf/Window.lean` imports), so the few facts about `wrapU64`/`asI64` are proved again, in this
namespace.  The closed forms are the ones of C09 (`neededBelow`, `neededAbove`, `newSize`,
`addedBelow`), written over layouts.
-/
import Hpbf.Window
import Hpbf.Proofs.C11

namespace Hpbf
namespace C06

open Window

variable {w : Nat}

/-! ### 64-bit wrap arithmetic -/

theorem asI64_wrapU64 {x : Int} (h1 : -9223372036854775808 ≤ x) (h2 : x < 9223372036854775808) :
    asI64 (wrapU64 x) = x := by
  unfold asI64 wrapU64 two63 two64
  split <;> omega

theorem wrapU64_off (o : Nat) (x : Int) :
    wrapU64 ((o : Int) + x) = wrapU64 (asI64 o + x) := by
  unfold wrapU64 asI64 two63 two64 at *
  split <;> omega

theorem wrapU64_nonneg {x : Int} (h1 : 0 ≤ x) (h2 : x < 18446744073709551616) :
    wrapU64 x = x.toNat := by
  unfold wrapU64 two64; omega

theorem asI64_small {n : Nat} (h : n < two63) : asI64 n = n := by
  unfold asI64; simp [h]

/-! ### guard -/

/-- `2^59`, the range guard (the same number as `Mem.bound` of C09). -/
def bound : Int := 576460752303423488

theorem bound_eq : bound = 2 ^ 59 := by decide

/-- Range guard on an `isize` constant (window bound, shift). -/
def SmallArg (x : Int) : Prop := -bound < x ∧ x < bound

instance (x : Int) : Decidable (SmallArg x) := by unfold SmallArg; infer_instance

/-- Range guard on a layout: size and pointer index below `2^59`. -/
def _root_.Hpbf.Window.Lay.Small (l : Lay) : Prop :=
  (l.size : Int) < bound ∧ -bound < l.cur ∧ l.cur < bound

instance (l : Lay) : Decidable l.Small := by unfold Lay.Small; infer_instance

instance (l : Lay) (mn mx : Int) : Decidable (l.InWindow mn mx) := by unfold Lay.InWindow; infer_instance

/-- The wider range in which the closed forms hold (`4 * bound = 2^61`). -/
def _root_.Hpbf.Window.Lay.Wide (l : Lay) : Prop :=
  (l.size : Int) ≤ 4 * bound ∧ -(4 * bound) ≤ l.cur ∧ l.cur ≤ 4 * bound

theorem _root_.Hpbf.Window.Lay.Small.wide {l : Lay} (h : l.Small) : l.Wide := by
  unfold Lay.Small Lay.Wide bound at *; omega

/-- The layout of a tape object: allocation size and `offset as isize`. -/
def _root_.Hpbf.Window.Lay.ofMem (m : Mem w) : Lay := ⟨m.size, asI64 m.offset⟩

/-! ### closed forms of `make_accessible` over layouts (cf. C09) -/

/-- `needed_below` without wrap-arounds: `max 0 (-(cur + a))`. -/
def _root_.Hpbf.Window.Lay.needBelow (l : Lay) (a : Int) : Nat := (-(l.cur + a)).toNat
/-- `needed_above` without wrap-arounds: `max 0 (cur + b - size)`. -/
def _root_.Hpbf.Window.Lay.needAbove (l : Lay) (b : Int) : Nat := (l.cur + b - l.size).toNat
/-- Number of new cells when `make_accessible` grows. -/
def _root_.Hpbf.Window.Lay.added (l : Lay) (a b : Int) : Nat :=
  max (l.size / 2) (l.needBelow a + l.needAbove b)
/-- `added_below` (the three-case `match`). -/
def _root_.Hpbf.Window.Lay.addedBelow (l : Lay) (a b : Int) : Nat :=
  if l.needBelow a = 0 then 0
  else if l.needAbove b = 0 then l.added a b
  else min (max (l.needBelow a) (l.added a b / 2)) (l.added a b - l.needAbove b)

/-- `make_accessible a b` has nothing to do. -/
def _root_.Hpbf.Window.Lay.NoGrowth (l : Lay) (a b : Int) : Prop := l.needBelow a = 0 ∧ l.needAbove b = 0

instance (l : Lay) (a b : Int) : Decidable (l.NoGrowth a b) := by unfold Lay.NoGrowth; infer_instance

theorem noGrowth_iff (l : Lay) (a b : Int) :
    l.NoGrowth a b ↔ 0 ≤ l.cur + a ∧ l.cur + b ≤ l.size := by
  unfold Lay.NoGrowth Lay.needBelow Lay.needAbove; omega

/-- The numbers computed by the model's `make_accessible` are the wrap-free ones, for sizes,
offsets and arguments up to `2^61`. -/
theorem growth_closed {m : Mem w} {a b : Int} (hm : (Lay.ofMem m).Wide)
    (ha1 : -(4 * bound) ≤ a) (ha2 : a ≤ 4 * bound) (hb1 : -(4 * bound) ≤ b) (hb2 : b ≤ 4 * bound) :
    m.growth a b = ((Lay.ofMem m).needBelow a, (Lay.ofMem m).needAbove b,
      m.size + (Lay.ofMem m).added a b, (Lay.ofMem m).addedBelow a b) := by
  obtain ⟨h1, h2, h3⟩ := hm
  simp only [Lay.ofMem] at h1 h2 h3
  unfold bound at *
  have e1 : asI64 (wrapU64 (asI64 m.offset + a)) = asI64 m.offset + a := by
    apply asI64_wrapU64 <;> omega
  have e2 : asI64 (wrapU64 (asI64 m.offset + b)) = asI64 m.offset + b := by
    apply asI64_wrapU64 <;> omega
  have e3 : asI64 m.size = m.size := by
    apply asI64_small; unfold two63; omega
  unfold Mem.growth Lay.addedBelow Lay.added Lay.needBelow Lay.needAbove Lay.ofMem
  simp only [e1, e2, e3]
  have hnb : (if asI64 m.offset + a < 0 then (asI64 m.offset + a).natAbs else 0)
      = (-(asI64 m.offset + a)).toNat := by
    split <;> omega
  have hna : (if asI64 m.offset + b > (m.size : Int) then wrapU64 (asI64 m.offset + b - m.size) else 0)
      = (asI64 m.offset + b - m.size).toNat := by
    split
    · apply wrapU64_nonneg <;> omega
    · omega
  rw [hnb, hna]
  simp only [Nat.add_sub_cancel_left]

/-- What the three-case `match` guarantees (pure arithmetic). -/
theorem addedBelow_bounds (l : Lay) (a b : Int) :
    l.needBelow a ≤ l.addedBelow a b ∧
    l.addedBelow a b + l.needAbove b ≤ l.added a b ∧
    (l.needBelow a = 0 → l.addedBelow a b = 0) ∧
    (l.needBelow a ≠ 0 → l.needAbove b = 0 → l.addedBelow a b = l.added a b) := by
  unfold Lay.addedBelow Lay.added
  generalize l.needBelow a = nb at *
  generalize l.needAbove b = na at *
  generalize l.size / 2 = h at *
  refine ⟨?_, ?_, ?_, ?_⟩
  · split <;> (try split) <;> omega
  · split <;> (try split) <;> omega
  · intro h0; simp [h0]
  · intro h0 h1; simp [h0, h1]

/-- `Lay.grow` in closed form. -/
theorem grow_eq {l : Lay} {a b : Int} (hl : l.Wide)
    (ha1 : -(4 * bound) ≤ a) (ha2 : a ≤ 4 * bound) (hb1 : -(4 * bound) ≤ b) (hb2 : b ≤ 4 * bound) :
    l.grow a b =
      if l.NoGrowth a b then l
      else { size := l.size + l.added a b, cur := l.cur + (l.addedBelow a b : Nat) } := by
  have ho : asI64 (wrapU64 l.cur) = l.cur := by
    unfold Lay.Wide bound at hl
    apply asI64_wrapU64 <;> omega
  have hof : Lay.ofMem ({ buf := #[], size := l.size, offset := wrapU64 l.cur } : Mem 8) = l := by
    unfold Lay.ofMem; rw [ho]
  have hg := growth_closed (m := ({ buf := #[], size := l.size, offset := wrapU64 l.cur } : Mem 8))
    (a := a) (b := b) (by rw [hof]; exact hl) ha1 ha2 hb1 hb2
  rw [hof] at hg
  unfold Lay.grow
  simp only [hg]
  rfl

/-- Workhorse: under the (wide) guard `Lay.grow` either does nothing (the range is already inside)
or adds `ab` cells below and `g` cells above with the relations guaranteed by `make_accessible`. -/
theorem grow_cases {l : Lay} {a b : Int} (hl : l.Wide)
    (ha1 : -(4 * bound) ≤ a) (ha2 : a ≤ 4 * bound) (hb1 : -(4 * bound) ≤ b) (hb2 : b ≤ 4 * bound) :
    (0 ≤ l.cur + a ∧ l.cur + b ≤ l.size ∧ l.grow a b = l) ∨
    (¬ (0 ≤ l.cur + a ∧ l.cur + b ≤ l.size) ∧
      ∃ ab g : Nat, l.grow a b = { size := ab + l.size + g, cur := l.cur + ab } ∧
        l.needBelow a ≤ ab ∧ l.needAbove b ≤ g ∧
        ab + g = max (l.size / 2) (l.needBelow a + l.needAbove b) ∧
        (l.needBelow a = 0 → ab = 0) ∧ (l.needBelow a ≠ 0 → l.needAbove b = 0 → g = 0) ∧
        ab = l.addedBelow a b) := by
  rw [grow_eq hl ha1 ha2 hb1 hb2]
  obtain ⟨b1, b2, b3, b4⟩ := addedBelow_bounds l a b
  have hn := noGrowth_iff l a b
  by_cases h : l.NoGrowth a b
  · rw [if_pos h]
    exact Or.inl ⟨(hn.1 h).1, (hn.1 h).2, rfl⟩
  · rw [if_neg h]
    refine Or.inr ⟨fun h' => h (hn.2 h'), l.addedBelow a b, l.added a b - l.addedBelow a b, ?_, b1,
      by omega, ?_, b3, ?_, rfl⟩
    · congr 1; omega
    · show _ = l.added a b; omega
    · intro h0 h1
      have := b4 h0 h1
      omega

/-- `grow` never shrinks (no guard needed: `new_size = size + max(..)`). -/
theorem grow_size_ge (l : Lay) (a b : Int) : l.size ≤ (l.grow a b).size := by
  unfold Lay.grow
  simp only
  split
  · exact Nat.le_refl _
  · show l.size ≤ l.size + _
    omega

theorem inBounds_iff (l : Lay) (o : Int) :
    l.inBounds o = true ↔ 0 ≤ l.cur + o ∧ l.cur + o < (l.size : Int) := by
  unfold Lay.inBounds
  simp only [Bool.and_eq_true, decide_eq_true_eq]

theorem not_inBounds_iff (l : Lay) (o : Int) :
    ¬ (l.inBounds o = true) ↔ (l.cur + o < 0 ∨ (l.size : Int) ≤ l.cur + o) := by
  rw [inBounds_iff]; omega

theorem inWindow_iff (l : Lay) (mn mx : Int) :
    l.InWindow mn mx ↔ 0 ≤ l.cur + mn ∧ l.cur + mx < (l.size : Int) := Iff.rfl

/-- The shape of a growth: `below` cells added below, `above` cells above, the pointer index moves up
by `below`; the requested range is inside afterwards and nothing that was inside falls out. -/
theorem grow_shape {l : Lay} {a b : Int} (hl : l.Wide)
    (ha1 : -(4 * bound) ≤ a) (ha2 : a ≤ 4 * bound) (hb1 : -(4 * bound) ≤ b) (hb2 : b ≤ 4 * bound) :
    ∃ below above : Nat,
      (l.grow a b).size = below + l.size + above ∧
      (l.grow a b).cur = l.cur + below ∧
      below = (if l.NoGrowth a b then 0 else l.addedBelow a b) ∧
      (∀ i, a ≤ i → i < b → (l.grow a b).inBounds i = true) ∧
      (∀ o, l.inBounds o = true → (l.grow a b).inBounds o = true) := by
  have hn := noGrowth_iff l a b
  rcases grow_cases hl ha1 ha2 hb1 hb2 with ⟨h1, h2, h3⟩ | ⟨h1, ab, g, h3, h4, h5, h6, h7, h8, h9⟩
  · refine ⟨0, 0, by rw [h3]; omega, by rw [h3]; omega, by rw [if_pos (hn.2 ⟨h1, h2⟩)], ?_, ?_⟩
    · intro i hi1 hi2
      rw [h3, inBounds_iff]; omega
    · intro o ho; rw [h3]; exact ho
  · refine ⟨ab, g, by rw [h3], by rw [h3], by rw [if_neg (fun h => h1 (hn.1 h))]; exact h9, ?_, ?_⟩
    · intro i hi1 hi2
      rw [h3, inBounds_iff]
      unfold Lay.needBelow at h4
      unfold Lay.needAbove at h5
      simp only
      omega
    · intro o ho
      rw [inBounds_iff] at ho
      rw [h3, inBounds_iff]
      simp only
      omega

/-! ### moves -/

/-- The window after a growth for `[mn, mx + 1)`. -/
theorem grow_inWindow {l : Lay} {mn mx : Int} (hl : l.Wide) (h0 : mn ≤ mx)
    (hmn : SmallArg mn) (hmx : SmallArg mx) : (l.grow mn (mx + 1)).InWindow mn mx := by
  obtain ⟨m1, m2⟩ := hmn
  obtain ⟨m3, m4⟩ := hmx
  obtain ⟨_, _, _, _, _, h, _⟩ := grow_shape (l := l) (a := mn) (b := mx + 1) hl
    (by unfold bound at *; omega) (by unfold bound at *; omega) (by unfold bound at *; omega)
    (by unfold bound at *; omega)
  have h1 := (inBounds_iff _ _).1 (h mn (Int.le_refl _) (by omega))
  have h2 := (inBounds_iff _ _).1 (h mx h0 (by omega))
  exact ⟨h1.1, h2.2⟩

/-- What a move in the JIT's checked mode does when the probe fails: it is `make_accessible` for the
single probe cell, expressed relative to the moved pointer. -/
theorem move_jit_eq (mn mx : Int) (l : Lay) (sh : Int) :
    Lay.move .jitSafe mn mx l sh =
      let l' : Lay := { l with cur := l.cur + sh }
      let probe := if sh < 0 then mn else mx
      if l'.inBounds probe then l'
      else
        let lg := ({ l' with cur := l'.cur + probe } : Lay).grow 0 1
        { lg with cur := lg.cur - probe } := rfl

theorem move_threaded_eq (mn mx : Int) (l : Lay) (sh : Int) :
    Lay.move .threadedSafe mn mx l sh =
      let l' : Lay := { l with cur := l.cur + sh }
      let probe := if sh < 0 then mn else mx
      if l'.inBounds probe then l' else l'.grow mn (mx + 1) := rfl

/-- The window invariant is kept by every move in the two checked modes. -/
theorem move_inWindow' {mode : Mode} (hmode : mode ≠ .unchecked) {mn mx : Int} {l : Lay} (sh : Int)
    (h0 : mn ≤ 0) (h1 : 0 ≤ mx) (hw : l.InWindow mn mx)
    (hs : (l.size : Int) < bound) (hmn : SmallArg mn) (hmx : SmallArg mx) (hsh : SmallArg sh) :
    (Lay.move mode mn mx l sh).InWindow mn mx := by
  obtain ⟨w1, w2⟩ := hw
  have m1 := hmn.1; have m2 := hmn.2; have m3 := hmx.1; have m4 := hmx.2
  have s1 := hsh.1; have s2 := hsh.2
  cases mode with
  | unchecked => exact absurd rfl hmode
  | threadedSafe =>
    rw [move_threaded_eq]
    simp only
    by_cases hneg : sh < 0
    · simp only [hneg, ↓reduceIte]
      by_cases hp : ({ size := l.size, cur := l.cur + sh } : Lay).inBounds mn = true
      · rw [if_pos hp]
        rw [inBounds_iff] at hp
        simp only at hp
        exact ⟨hp.1, by simp only; omega⟩
      · rw [if_neg hp]
        apply grow_inWindow _ (by omega) hmn hmx
        unfold Lay.Wide bound at *
        simp only
        omega
    · simp only [hneg, ↓reduceIte]
      by_cases hp : ({ size := l.size, cur := l.cur + sh } : Lay).inBounds mx = true
      · rw [if_pos hp]
        rw [inBounds_iff] at hp
        simp only at hp
        exact ⟨by simp only; omega, hp.2⟩
      · rw [if_neg hp]
        apply grow_inWindow _ (by omega) hmn hmx
        unfold Lay.Wide bound at *
        simp only
        omega
  | jitSafe =>
    rw [move_jit_eq]
    simp only
    by_cases hneg : sh < 0
    · simp only [hneg, ↓reduceIte]
      by_cases hp : ({ size := l.size, cur := l.cur + sh } : Lay).inBounds mn = true
      · rw [if_pos hp]
        rw [inBounds_iff] at hp
        simp only at hp
        exact ⟨hp.1, by simp only; omega⟩
      · rw [if_neg hp]
        rw [not_inBounds_iff] at hp
        simp only at hp
        have hwide : ({ size := l.size, cur := l.cur + sh + mn } : Lay).Wide := by
          unfold Lay.Wide bound at *
          simp only
          omega
        rcases grow_cases (a := 0) (b := 1) hwide (by unfold bound; omega) (by unfold bound; omega)
          (by unfold bound; omega) (by unfold bound; omega) with
          ⟨c1, c2, c3⟩ | ⟨c1, ab, g, c3, c4, c5, c6, c7, c8, _⟩
        · simp only at c1 c2
          omega
        · rw [c3]
          unfold Lay.needBelow at c4 c7 c8
          unfold Lay.needAbove at c5 c8
          unfold Lay.needBelow Lay.needAbove at c6
          simp only at c1 c4 c5 c6 c7 c8
          unfold Lay.InWindow
          simp only
          have hg : g = 0 := c8 (by omega) (by omega)
          omega
    · simp only [hneg, ↓reduceIte]
      by_cases hp : ({ size := l.size, cur := l.cur + sh } : Lay).inBounds mx = true
      · rw [if_pos hp]
        rw [inBounds_iff] at hp
        simp only at hp
        exact ⟨by simp only; omega, hp.2⟩
      · rw [if_neg hp]
        rw [not_inBounds_iff] at hp
        simp only at hp
        have hwide : ({ size := l.size, cur := l.cur + sh + mx } : Lay).Wide := by
          unfold Lay.Wide bound at *
          simp only
          omega
        rcases grow_cases (a := 0) (b := 1) hwide (by unfold bound; omega) (by unfold bound; omega)
          (by unfold bound; omega) (by unfold bound; omega) with
          ⟨c1, c2, c3⟩ | ⟨c1, ab, g, c3, c4, c5, c6, c7, c8, _⟩
        · simp only at c1 c2
          omega
        · rw [c3]
          unfold Lay.needBelow at c4 c7 c8
          unfold Lay.needAbove at c5 c8
          unfold Lay.needBelow Lay.needAbove at c6
          simp only at c1 c4 c5 c6 c7 c8
          unfold Lay.InWindow
          simp only
          have hab : ab = 0 := c7 (by omega)
          omega

/-- `enter` establishes the window from any layout inside the guard. -/
theorem enter_inWindow' {mode : Mode} (hmode : mode ≠ .unchecked) {mn mx : Int} {l : Lay}
    (h0 : mn ≤ mx) (hl : l.Small) (hmn : SmallArg mn) (hmx : SmallArg mx) :
    (l.enter mode mn mx).InWindow mn mx := by
  cases mode with
  | unchecked => exact absurd rfl hmode
  | threadedSafe => exact grow_inWindow hl.wide h0 hmn hmx
  | jitSafe => exact grow_inWindow hl.wide h0 hmn hmx

/-- A growth request for a window that is already inside changes nothing. -/
theorem grow_noop {l : Lay} {mn mx : Int} (hw : l.InWindow mn mx) (h0 : mn ≤ mx)
    (hs : (l.size : Int) < bound) (hmn : SmallArg mn) (hmx : SmallArg mx) :
    l.grow mn (mx + 1) = l := by
  obtain ⟨w1, w2⟩ := hw
  have m1 := hmn.1; have m2 := hmn.2; have m3 := hmx.1; have m4 := hmx.2
  have hwide : l.Wide := by unfold Lay.Wide bound at *; omega
  rcases grow_cases (a := mn) (b := mx + 1) hwide (by unfold bound at *; omega)
    (by unfold bound at *; omega) (by unfold bound at *; omega) (by unfold bound at *; omega) with
    ⟨_, _, c3⟩ | ⟨c1, _⟩
  · exact c3
  · omega

theorem re_enter_noop' (mode : Mode) {l : Lay} {mn mx : Int} (hw : l.InWindow mn mx) (h0 : mn ≤ mx)
    (hs : (l.size : Int) < bound) (hmn : SmallArg mn) (hmx : SmallArg mx) :
    l.enter mode mn mx = l := by
  cases mode with
  | unchecked => rfl
  | threadedSafe => exact grow_noop hw h0 hs hmn hmx
  | jitSafe => exact grow_noop hw h0 hs hmn hmx

/-! ### the link to the tape object -/

/-- The layout after `Memory::make_accessible` is `Lay.grow` of the layout before. -/
theorem lay_of_makeAccessible' {m : Mem w} {a b : Int} (hm : (Lay.ofMem m).Small)
    (ha : SmallArg a) (hb : SmallArg b) :
    Lay.ofMem (m.makeAccessible a b) = (Lay.ofMem m).grow a b := by
  have a1 := ha.1; have a2 := ha.2; have b1 := hb.1; have b2 := hb.2
  have hg := growth_closed (m := m) (a := a) (b := b) hm.wide (by unfold bound at *; omega)
    (by unfold bound at *; omega) (by unfold bound at *; omega) (by unfold bound at *; omega)
  rw [grow_eq hm.wide (by unfold bound at *; omega) (by unfold bound at *; omega)
    (by unfold bound at *; omega) (by unfold bound at *; omega)]
  unfold Mem.makeAccessible
  rw [hg]
  simp only
  by_cases hn : (Lay.ofMem m).NoGrowth a b
  · have hn' : (Lay.ofMem m).needBelow a = 0 ∧ (Lay.ofMem m).needAbove b = 0 := hn
    rw [if_pos hn, if_pos hn']
  · have hn' : ¬ ((Lay.ofMem m).needBelow a = 0 ∧ (Lay.ofMem m).needAbove b = 0) := hn
    rw [if_neg hn, if_neg hn']
    obtain ⟨_, q2, _, _⟩ := addedBelow_bounds (Lay.ofMem m) a b
    have hadd : (Lay.ofMem m).added a b =
        max (m.size / 2) ((-(asI64 m.offset + a)).toNat + (asI64 m.offset + b - m.size).toNat) := rfl
    obtain ⟨s1, s2, s3⟩ := hm
    simp only [Lay.ofMem] at s1 s2 s3
    generalize (Lay.ofMem m).addedBelow a b = AB at *
    generalize (Lay.ofMem m).added a b = AD at *
    unfold Lay.ofMem
    simp only
    congr 1
    rw [wrapU64_off]
    unfold bound at *
    apply asI64_wrapU64 <;> omega

/-! ### runs -/

open Bc BcWf

/-- The pointer shift an instruction can cause. -/
def shiftOf : Instr w → Int
  | .mov sh => sh
  | .scan _ sh => sh
  | _ => 0

/-- Static part of the range guard: the window constants and every shift of the program are below
`2^59` in magnitude. -/
def SmallProg (p : Program w) : Prop :=
  SmallArg p.minAcc ∧ SmallArg p.maxAcc ∧ ∀ ins ∈ p.insts.toList, SmallArg (shiftOf ins)

instance (p : Program w) : Decidable (SmallProg p) := by unfold SmallProg; infer_instance

theorem SmallProg.shift {p : Program w} (h : SmallProg p) {i : Nat} {ins : Instr w}
    (hi : p.insts[i]? = some ins) : SmallArg (shiftOf ins) :=
  h.2.2 ins (Array.mem_toList_iff.2 (Array.mem_of_getElem? hi))

/-- Dynamic part of the range guard, by recursion along `runLay`: the allocation is smaller than
`2^59` cells at every instruction boundary of the run. -/
def smallRun (mode : Mode) (p : Program w) (limited : Bool) : Nat → Cfg w → Lay → Bool
  | 0, _, l => decide ((l.size : Int) < bound)
  | fuel + 1, c, l =>
    decide ((l.size : Int) < bound) &&
    match Bc.step p limited c with
    | .next c' => smallRun mode p limited fuel c' (layStep mode p c c' l)
    | _ => true

theorem move_size_ge (mode : Mode) (mn mx : Int) (l : Lay) (sh : Int) :
    l.size ≤ (Lay.move mode mn mx l sh).size := by
  cases mode with
  | unchecked => exact Nat.le_refl _
  | threadedSafe =>
    rw [move_threaded_eq]
    simp only
    generalize (if sh < 0 then mn else mx) = probe
    split
    · exact Nat.le_refl _
    · exact grow_size_ge { size := l.size, cur := l.cur + sh } mn (mx + 1)
  | jitSafe =>
    rw [move_jit_eq]
    simp only
    generalize (if sh < 0 then mn else mx) = probe
    split
    · exact Nat.le_refl _
    · exact grow_size_ge { size := l.size, cur := l.cur + sh + probe } 0 1

theorem layStep_size_ge (mode : Mode) (p : Program w) (c c' : Cfg w) (l : Lay) :
    l.size ≤ (layStep mode p c c' l).size := by
  unfold layStep
  split
  · exact move_size_ge _ _ _ _ _
  · split
    · exact move_size_ge _ _ _ _ _
    · exact Nat.le_refl _
  · exact Nat.le_refl _

/-- The allocation only grows along a run (every mode, no guard). -/
theorem runLay_size_ge (mode : Mode) (p : Program w) (limited : Bool) :
    ∀ (fuel : Nat) (c : Cfg w) (l : Lay) (ok : Bool),
      l.size ≤ (runLay mode p limited fuel c l ok).lay.size := by
  intro fuel
  induction fuel with
  | zero => intro c l ok; simp only [runLay]; exact Nat.le_refl _
  | succ n ih =>
    intro c l ok
    simp only [runLay]
    cases hs : Bc.step p limited c with
    | next c' =>
      simp only
      exact Nat.le_trans (layStep_size_ge mode p c c' l) (ih _ _ _)
    | halt c' => exact Nat.le_refl _
    | stop c' => exact Nat.le_refl _
    | interrupted c' => exact Nat.le_refl _
    | bad c' => exact Nat.le_refl _

/-- Because sizes are monotone, the dynamic guard follows from a bound on the FINAL size. -/
theorem smallRun_of_final (mode : Mode) (p : Program w) (limited : Bool) :
    ∀ (fuel : Nat) (c : Cfg w) (l : Lay) (ok : Bool),
      ((runLay mode p limited fuel c l ok).lay.size : Int) < bound →
      smallRun mode p limited fuel c l = true := by
  intro fuel
  induction fuel with
  | zero =>
    intro c l ok h
    simp only [runLay] at h
    simp only [smallRun, decide_eq_true_eq]
    exact h
  | succ n ih =>
    intro c l ok h
    have hge := runLay_size_ge mode p limited (n + 1) c l ok
    simp only [smallRun, Bool.and_eq_true, decide_eq_true_eq]
    refine ⟨by omega, ?_⟩
    simp only [runLay] at h
    cases hs : Bc.step p limited c with
    | next c' =>
      simp only [hs] at h
      simp only
      exact ih _ _ _ h
    | halt c' => rfl
    | stop c' => rfl
    | interrupted c' => rfl
    | bad c' => rfl

theorem accessOk_of_inWindow {p : Program w} (L : C11.LocalFacts p) (pc : Nat) {l : Lay}
    (hw : l.InWindow p.minAcc p.maxAcc) : accessOk p pc l = true := by
  unfold accessOk
  cases hi : p.insts[pc]? with
  | none => rfl
  | some ins =>
    simp only [List.all_eq_true]
    intro o ho
    have := L.window hi o ho
    rw [inBounds_iff]
    obtain ⟨w1, w2⟩ := hw
    omega

theorem layStep_inWindow {mode : Mode} (hmode : mode ≠ .unchecked) {p : Program w}
    (L : C11.LocalFacts p) (hp : SmallProg p) (c c' : Cfg w) {l : Lay}
    (hw : l.InWindow p.minAcc p.maxAcc) (hs : (l.size : Int) < bound) :
    (layStep mode p c c' l).InWindow p.minAcc p.maxAcc := by
  unfold layStep
  split
  · rename_i sh hi
    exact move_inWindow' hmode sh L.min0 L.max0 hw hs hp.1 hp.2.1 (hp.shift hi)
  · rename_i cond sh hi
    split
    · exact move_inWindow' hmode sh L.min0 L.max0 hw hs hp.1 hp.2.1 (hp.shift hi)
    · exact hw
  · exact hw

/-- The invariant: in the checked modes the window is inside the allocation at every instruction
boundary, hence every access is inside. -/
theorem runLay_ok {mode : Mode} (hmode : mode ≠ .unchecked) {p : Program w}
    (L : C11.LocalFacts p) (hp : SmallProg p) (limited : Bool) :
    ∀ (fuel : Nat) (c : Cfg w) (l : Lay), l.InWindow p.minAcc p.maxAcc →
      smallRun mode p limited fuel c l = true →
      (runLay mode p limited fuel c l true).ok = true ∧
      (runLay mode p limited fuel c l true).lay.InWindow p.minAcc p.maxAcc := by
  intro fuel
  induction fuel with
  | zero => intro c l hw _; simp only [runLay]; exact ⟨trivial, hw⟩
  | succ n ih =>
    intro c l hw hg
    simp only [smallRun, Bool.and_eq_true, decide_eq_true_eq] at hg
    obtain ⟨hs, hg⟩ := hg
    simp only [runLay, accessOk_of_inWindow L c.pc hw, Bool.and_self]
    cases hst : Bc.step p limited c with
    | next c' =>
      simp only [hst] at hg
      simp only
      exact ih _ _ (layStep_inWindow hmode L hp c c' hw hs) hg
    | halt c' => exact ⟨rfl, hw⟩
    | stop c' => exact ⟨rfl, hw⟩
    | interrupted c' => exact ⟨rfl, hw⟩
    | bad c' => exact ⟨rfl, hw⟩

end C06
end Hpbf
