/-
Loop optimisations of `Hpbf/Opt.lean`: everything put together for the values `finishLoop` computes
(`finishLoop_motion_sound`).
-/
import Hpbf.Proofs.OptLoopFinish

namespace Hpbf.OptLoop
open Hpbf Opt OptSem Expr

variable {w : Nat}

/-- Strictly ascending (the canonical representation of a set in the port). -/
def SAsc (l : List Int) : Prop := l.Pairwise (· < ·)

theorem sasc_sIns (l : List Int) (k : Int) (h : SAsc l) : SAsc (sIns l k) := by
  induction l with
  | nil => simp [sIns, SAsc]
  | cons x xs ih =>
    unfold SAsc at h ih ⊢
    rw [List.pairwise_cons] at h
    simp only [sIns]
    split
    · exact List.pairwise_cons.2 h
    · rename_i hne
      split
      · rename_i hlt
        refine List.pairwise_cons.2 ⟨fun y hy => ?_, List.pairwise_cons.2 h⟩
        rcases List.mem_cons.1 hy with rfl | hy
        · exact hlt
        · exact Int.lt_trans hlt (h.1 y hy)
      · rename_i hnlt
        refine List.pairwise_cons.2 ⟨fun y hy => ?_, ih h.2⟩
        rcases mem_sIns.1 hy with rfl | hy
        · omega
        · exact h.1 y hy

theorem sasc_foldl_sIns (l acc : List Int) (h : SAsc acc) : SAsc (l.foldl sIns acc) := by
  induction l generalizing acc with
  | nil => exact h
  | cons x l ih => exact ih _ (sasc_sIns acc x h)

theorem sasc_possibleReads (sub : Rebuild w) (h : SAsc sub.reads) : SAsc (possibleReads sub) := by
  unfold possibleReads
  generalize sub.reads = acc at h
  induction sub.pending generalizing acc with
  | nil => exact h
  | cons kv l ih => exact ih _ (sasc_foldl_sIns _ acc h)

theorem SAsc.nodup {l : List Int} (h : SAsc l) : l.Nodup :=
  h.imp (fun hlt => Int.ne_of_lt hlt)

/-- The list of variables `finishLoop` hands to `constantsAmong` is duplicate-free. -/
theorem nodup_constVars (sub : Rebuild w) (cond : Int) (hr : SAsc sub.reads) (hp : KeysAsc sub.pending) :
    (sIns (possibleReads sub) cond ++
      (pendingSorted sub sub).filter (fun x => !(sIns (possibleReads sub) cond).contains x)).Nodup := by
  rw [List.nodup_append]
  refine ⟨(sasc_sIns _ cond (sasc_possibleReads sub hr)).nodup,
    (nodup_pendingSorted sub sub hp).filter _, ?_⟩
  intro a ha b hb hab
  subst hab
  have := (List.mem_filter.1 hb).2
  simp only [List.contains_eq_mem, Bool.not_eq_true', decide_eq_false_iff_not] at this
  exact this ha

/-- **`loopMotion_all_sound` for `finishLoop`.**  `R`, `C`, `lin`, `pset` are the values `finishLoop` computes
(possible reads with the condition cell, constants, linear variables, non-constant pending variables), and
`B`, `D`, `A` the results of its loop over the pending variables.  The remaining hypotheses are the facts
about the states that the main proof owns. -/
theorem finishLoop_motion_sound (hw : 0 < w) (s : Rebuild w) (ps : List (Rebuild w)) (sub sub' : Rebuild w)
    (cond : Int) (L : OptLoop w) (C : List Int) (B D A : List (Int × Expr w)) (os os' : Orders)
    (m0 : Mem w) (body : Nat → Mem w → Mem w) (n : Nat)
    -- what `finishLoop` computed
    (hC : constantsAmong s ps sub (sIns (possibleReads sub) cond ++
      (pendingSorted sub sub).filter (fun x => !(sIns (possibleReads sub) cond).contains x)) = .ok C)
    (hfold : (pendingSorted sub sub).foldlM
      (motionStepM s ps (sIns (possibleReads sub) cond) C
        (linearAmong s ps sub C (sIns (possibleReads sub) cond ++ pendingSorted sub sub))
        ((pendingSorted sub sub).filter (fun x => !C.contains x)) L) (sub, [], [], []) os
      = .ok ((sub', B, D, A), os'))
    -- representation invariants of the state
    (hreadsAsc : SAsc sub.reads) (hpendAsc : KeysAsc sub.pending)
    (hcanon : ∀ v p, mGet sub.pending v = some p → Canon p)
    -- soundness of the queries on the parent (at loop entry) and on the body state (along the run)
    (hcmp : ∀ v e, compare s ps (Expr.var v) e = .ok true → ev e m0 = m0 v)
    (hknown : ∀ i c, getConstant s ps i = some c → m0 i = c)
    (hbody : BodyFacts sub body (run body sub.pending m0))
    (hgb : GetBothFacts s ps sub (run body sub.pending m0))
    -- the emitted instructions of the body only read `possibleReads`, and never write unwritten cells
    (hNI : ∀ k (m' : Mem w) (Z : Int → Prop),
      (∀ z, Z z → (sIns (possibleReads sub) cond).contains z = false) →
      (∀ v, ¬ Z v → m' v = run body sub.pending m0 k v) →
      ∀ v, ¬ Z v → body k m' v = body k (run body sub.pending m0 k) v)
    (hframe : ∀ k (m' : Mem w) v, mGet sub.written v = none → body k m' v = m' v)
    -- the trip count
    (htrip : TripFacts L n m0) (hamo : L.atMostOnce = true → n ≤ 1) (hne : L.noEffect = true → n = 0) :
    os' = os ∧
    (∀ k, k < n → ∀ r, (sIns (possibleReads sub) cond).contains r = true →
      run body D (Mem.par B m0) k r = run body sub.pending m0 k r) ∧
    (∀ k, k ≤ n → ∀ v, ¬ Differ C B A v →
      run body D (Mem.par B m0) k v = run body sub.pending m0 k v) ∧
    (∀ v, mGet A v = none → run body D (Mem.par B m0) n v = run body sub.pending m0 n v) ∧
    (0 < n → Mem.par A (run body D (Mem.par B m0) n) = run body sub.pending m0 n) ∧
    (n = 0 → Mem.par B m0 = m0) := by
  have hconst := constantsAmong_sound s ps sub _ C m0 body hC
    (nodup_constVars sub cond hreadsAsc hpendAsc) hcmp hbody
  have hmemC : ∀ c, C.contains c = true → c ∈ C := fun c h => by simpa using h
  have ctx : MotionCtx s ps sub C
      (linearAmong s ps sub C (sIns (possibleReads sub) cond ++ pendingSorted sub sub)) m0 body := by
    constructor
    · exact fun k c hc => hconst k c (hmemC c hc)
    · exact fun i c _ h => hknown i c h
    · intro v inc hv
      exact linearAmong_sound s ps sub C _ (run body sub.pending m0) hgb
        (fun k c hc => (hconst k c hc).1) v inc hv
    · exact hbody
  obtain ⟨hos, hall⟩ := motionFold_spec s ps sub (sIns (possibleReads sub) cond) C _ _ L
    (pendingSorted sub sub) n sub' B D A os os' (nodup_pendingSorted sub sub hpendAsc)
    (fun v p hp => (mem_pendingSorted sub sub v).2 (mem_mKeys_of_mGet hp)) hne hfold
  have hrf : ReadFacts sub (sIns (possibleReads sub) cond) body (run body sub.pending m0) :=
    ⟨fun v p x hp hx hne => pendReads_possibleReads sub cond v p x hp hx hne, hNI, hframe⟩
  exact ⟨hos, loopMotion_all_sound hw ctx htrip hcanon hall hrf (pendingSet_spec sub C) hamo⟩

/-! ### from the meaning of the analysis to the hypotheses about the trip count -/

/-- `LoopMeaning` (what `analyzeLoop_sound` gives) provides `TripFacts` and the two side conditions of
`loopMotion_all_sound` for the number of rounds `n` of the loop. -/
theorem tripFacts_of_meaning (hw : 0 < w) {L : OptLoop w} {cv : Nat → BitVec w} {cond : Int}
    (h : LoopMeaning L cv cond) (m0 : Mem w) (hm0 : m0 cond = cv 0) (n : Nat) (hn : RunsExactly cv n) :
    TripFacts L n m0 ∧ (L.atMostOnce = true → n ≤ 1) ∧ (L.noEffect = true → n = 0) := by
  refine ⟨fun expr he => triOk_of_meaning hw expr cv cond (h.expr expr he) m0 hm0 n hn, ?_, ?_⟩
  · intro ha
    rcases h.atMostOnce ha with h0 | h1
    · rcases Nat.eq_zero_or_pos n with hz | hp
      · omega
      · exact absurd h0 (hn.1 0 hp)
    · rcases Nat.lt_or_ge 1 n with hlt | hge
      · exact absurd h1 (hn.1 1 hlt)
      · exact hge
  · intro he
    rcases h.noEffect he with h0 | hd
    · rcases Nat.eq_zero_or_pos n with hz | hp
      · exact hz
      · exact absurd h0 (hn.1 0 hp)
    · exact absurd hd (not_diverges_of_runsExactly hn)

/-- Trip count of a balanced loop without emitted instructions whose pending assignment adds the constant `c`
to the condition cell: `OptArith.tripCount`. -/
theorem tripCount_iter (hw : 0 < w) (P : List (Int × Expr w)) (cond : Int) (c n : BitVec w) (m0 : Mem w)
    (hstep : ∀ m : Mem w, Mem.par P m cond = m cond + c)
    (h : OptArith.tripCount (m0 cond) c = some n) :
    RunsExactly (fun k => Mem.iter P k m0 cond) n.toNat :=
  tripCount_runs hw (fun k => Mem.iter P k m0 cond) c n
    (fun k _ => by show Mem.iter P (k + 1) m0 cond = _; rw [iter_succ', hstep]) h

/-- … `none`: the loop never leaves. -/
theorem tripCount_iter_none (hw : 0 < w) (P : List (Int × Expr w)) (cond : Int) (c : BitVec w) (m0 : Mem w)
    (hstep : ∀ m : Mem w, Mem.par P m cond = m cond + c)
    (h : OptArith.tripCount (m0 cond) c = none) :
    Diverges (fun k => Mem.iter P k m0 cond) :=
  tripCount_diverges hw (fun k => Mem.iter P k m0 cond) c
    (fun k _ => by show Mem.iter P (k + 1) m0 cond = _; rw [iter_succ', hstep]) h

/-- … odd step, any initial value: `inv * x` rounds. -/
theorem tripInv_iter (hw : 0 < w) (P : List (Int × Expr w)) (cond : Int) (c inv : BitVec w) (m0 : Mem w)
    (hstep : ∀ m : Mem w, Mem.par P m cond = m cond + c)
    (h : OptArith.tripInv c = some inv) :
    RunsExactly (fun k => Mem.iter P k m0 cond) (inv * m0 cond).toNat :=
  tripInv_runs hw (fun k => Mem.iter P k m0 cond) c inv
    (fun k _ => by show Mem.iter P (k + 1) m0 cond = _; rw [iter_succ', hstep]) h

end Hpbf.OptLoop
