/-
Rebuild-round proofs, part 4: the mutating primitives that do not need the DFS, at the level of memories:
`insertPending` (one assignment of the source), the evaluation/insertion phases of `performAll`,
`read`, `writtenCalcs`, `emitStructured` (the emitted groups are executed: `E` becomes `Mem.seq groups E`).
-/
import Hpbf.Proofs.OptRbAcc
import Hpbf.Proofs.OptRbMonad

namespace Hpbf
namespace OptProof
open Opt OptSem

variable {w : Nat}

theorem WrOk.of_written_eq {s s' : Rebuild w} {M0 E : Mem w} (h : s'.written = s.written)
    (hw : WrOk s M0 E) : WrOk s' M0 E := by
  unfold WrOk at *; rw [h]; exact hw

/-! ### `insertPending` -/

theorem insertPending_minv {s : Rebuild w} {ps : List (Rebuild w)} {M0 E S : Mem w} (hwf : Wf s)
    (h : MInv s ps M0 E S) (var : Int) (expr : Expr w) :
    MInv (insertPending s ps var expr) ps M0 E (upd S var (ev expr E)) := by
  have hsame := insertPending_same s ps var expr
  have hw' : WrOk (insertPending s ps var expr) M0 E := h.writ.of_written_eq hsame.2.2.2.2.2.2.2.1
  refine ⟨?_, hw', h.pk.congr hsame.hdr⟩
  funext v
  unfold Mem.par
  rw [insertPending_get hwf]
  by_cases hv : var = v
  · subst hv
    simp only [if_true, upd_same]
    cases hc : compareWrittenNoParent (removePending s var).1 ps (Expr.var var) expr with
    | true =>
      simp only [if_true]
      have hs1 := removePending_same s var
      have := compareWrittenNoParent_sound' (s := (removePending s var).1) (ps := ps) (M0 := M0) (E := E)
        (h.writ.of_written_eq hs1.2.2.2.2.2.2.2.1) (h.pk.congr hs1.hdr) hc
      rw [← this]; exact Expr.eval_var var E
    | false =>
      simp only [Bool.false_eq_true, if_false]
      exact (Expr.eval_normalize expr E).symm
  · simp only [hv, if_false]
    have : v ≠ var := fun e => hv e.symm
    rw [upd_ne _ _ _ _ this, h.pend]
    rfl

/-- Sequential assignment of already evaluated right-hand sides (later bindings win). -/
def assignE (E : Mem w) (exprs : List (Int × Expr w)) (S : Mem w) : Mem w :=
  exprs.foldl (fun S ve => upd S ve.1 (ev ve.2 E)) S

theorem foldl_insertPending_minv {s : Rebuild w} {ps : List (Rebuild w)} {M0 E S : Mem w} (hwf : Wf s)
    (h : MInv s ps M0 E S) (exprs : List (Int × Expr w)) :
    Wf (exprs.foldl (fun s ve => insertPending s ps ve.1 ve.2) s) ∧
    SameButPend s (exprs.foldl (fun s ve => insertPending s ps ve.1 ve.2) s) ∧
    MInv (exprs.foldl (fun s ve => insertPending s ps ve.1 ve.2) s) ps M0 E (assignE E exprs S) := by
  induction exprs generalizing s S with
  | nil => exact ⟨hwf, SameButPend.refl s, h⟩
  | cons ve exprs ih =>
    simp only [List.foldl_cons]
    obtain ⟨a, b, c⟩ := ih (insertPending_wf hwf ps ve.1 ve.2) (insertPending_minv hwf h ve.1 ve.2)
    exact ⟨a, (insertPending_same s ps ve.1 ve.2).trans b, c⟩

theorem foldl_insertPending_wf {s : Rebuild w} (hwf : Wf s) (ps : List (Rebuild w))
    (exprs : List (Int × Expr w)) :
    Wf (exprs.foldl (fun s ve => insertPending s ps ve.1 ve.2) s) ∧
    SameButPend s (exprs.foldl (fun s ve => insertPending s ps ve.1 ve.2) s) := by
  induction exprs generalizing s with
  | nil => exact ⟨hwf, SameButPend.refl s⟩
  | cons ve exprs ih =>
    simp only [List.foldl_cons]
    obtain ⟨a, b⟩ := ih (insertPending_wf hwf ps ve.1 ve.2)
    exact ⟨a, (insertPending_same s ps ve.1 ve.2).trans b⟩

/-! ### the evaluation phase of `performAll` -/

/-- Pointwise relation of two lists. -/
inductive All2 {α β : Type} (R : α → β → Prop) : List α → List β → Prop
  | nil : All2 R [] []
  | cons {a : α} {b : β} {as : List α} {bs : List β} : R a b → All2 R as bs → All2 R (a :: as) (b :: bs)

/-- The explosion-check phase of `performAll`. -/
def performCheck (s : Rebuild w) (ps : List (Rebuild w)) (calcs : List (Int × Expr w)) : M (Rebuild w) :=
  calcs.foldlM (fun s vc =>
    (groupedVars vc.2).foldlM (fun s vars =>
      if vars.length ≥ 2 then explosionVars ps vars none s else pure s) s) s

/-- The evaluation phase of `performAll`. -/
def performEval (s : Rebuild w) (ps : List (Rebuild w)) (shift : Int) (calcs : List (Int × Expr w)) :
    M (List (Int × Expr w)) :=
  calcs.mapM (fun vc => do
    let pending ← (evalPending s ps shift vc.2 : Except String (Expr w))
    pure (shift + vc.1, pending))

theorem performAll_eq (s : Rebuild w) (ps : List (Rebuild w)) (shift : Int) (calcs : List (Int × Expr w)) :
    performAll s ps shift calcs = (do
      let s ← performCheck s ps calcs
      let exprs ← performEval s ps shift calcs
      pure (exprs.foldl (fun s ve => insertPending s ps ve.1 ve.2) s)) := rfl

theorem performEval_ok {s : Rebuild w} {ps : List (Rebuild w)} {shift : Int} {calcs : List (Int × Expr w)}
    {os os' : Orders} {exprs : List (Int × Expr w)}
    (h : (performEval s ps shift calcs).run os = .ok (exprs, os')) :
    os' = os ∧ All2 (fun vc ve => ve.1 = shift + vc.1 ∧ evalPending s ps shift vc.2 = .ok ve.2)
      calcs exprs := by
  unfold performEval at h
  induction calcs generalizing exprs os os' with
  | nil =>
    rw [List.mapM_nil, run_pure] at h
    cases h; exact ⟨rfl, .nil⟩
  | cons vc calcs ih =>
    rw [List.mapM_cons, run_bind_ok] at h
    obtain ⟨b, os1, h1, h2⟩ := h
    rw [run_bind_ok] at h1
    obtain ⟨p, os2, h3, h4⟩ := h1
    rw [run_monadLift_ok] at h3
    rw [run_pure] at h4
    cases h4
    rw [run_bind_ok] at h2
    obtain ⟨bs, os3, h5, h6⟩ := h2
    rw [run_pure] at h6
    cases h6
    obtain ⟨e1, e2⟩ := ih h5
    simp only at h3
    refine ⟨by rw [e1, h3.2], .cons ⟨rfl, h3.1⟩ e2⟩

/-- The source-side meaning of a `calc` instruction at the level of memories: all right-hand sides are
evaluated in the old memory (variables shifted by `shift`), then assigned left to right. -/
def assignS (shift : Int) (calcs : List (Int × Expr w)) (S : Mem w) : Mem w :=
  (calcs.map (fun vc => (shift + vc.1, Expr.evaluate vc.2 (fun x => S (x + shift))))).foldl
    (fun m kv => upd m kv.1 kv.2) S

theorem assignE_eq_assignS {s : Rebuild w} {ps : List (Rebuild w)} {M0 E S : Mem w}
    (h : MInv s ps M0 E S) {shift : Int} {calcs exprs : List (Int × Expr w)}
    (hf : All2 (fun vc ve => ve.1 = shift + vc.1 ∧ evalPending s ps shift vc.2 = .ok ve.2)
      calcs exprs) :
    assignE E exprs S = assignS shift calcs S := by
  unfold assignE assignS
  -- generalize the accumulator
  suffices H : ∀ (acc : Mem w),
      exprs.foldl (fun S ve => upd S ve.1 (ev ve.2 E)) acc =
      (calcs.map (fun vc => (shift + vc.1, Expr.evaluate vc.2 (fun x => S (x + shift))))).foldl
        (fun m kv => upd m kv.1 kv.2) acc from H S
  intro acc
  induction hf generalizing acc with
  | nil => rfl
  | cons hab _ ih =>
    simp only [List.foldl_cons, List.map_cons]
    rw [hab.1, evalPending_sound h hab.2]
    exact ih _

/-! ### `read` -/

theorem read_fields (s : Rebuild w) (var : Int) :
    (Opt.read s var).parent = s.parent ∧ (Opt.read s var).anal = s.anal ∧ (Opt.read s var).shift = s.shift ∧
    (Opt.read s var).cond = s.cond ∧ (Opt.read s var).subShift = s.subShift ∧ (Opt.read s var).noReturn = s.noReturn ∧
    (Opt.read s var).written = s.written ∧ (Opt.read s var).pending = s.pending ∧
    (Opt.read s var).reverse = s.reverse ∧ (Opt.read s var).insts = s.insts ∧ (Opt.read s var).subAnal = s.subAnal := by
  unfold Opt.read
  split <;> exact ⟨rfl, rfl, rfl, rfl, rfl, rfl, rfl, rfl, rfl, rfl, rfl⟩

/-- Everything but `reads` is unchanged. -/
def SameButReads (s s' : Rebuild w) : Prop :=
  s'.parent = s.parent ∧ s'.anal = s.anal ∧ s'.shift = s.shift ∧
  s'.cond = s.cond ∧ s'.subShift = s.subShift ∧ s'.noReturn = s.noReturn ∧
  s'.written = s.written ∧ s'.pending = s.pending ∧
  s'.reverse = s.reverse ∧ s'.insts = s.insts ∧ s'.subAnal = s.subAnal

theorem SameButReads.refl (s : Rebuild w) : SameButReads s s :=
  ⟨rfl, rfl, rfl, rfl, rfl, rfl, rfl, rfl, rfl, rfl, rfl⟩

theorem SameButReads.trans {a b c : Rebuild w} (h1 : SameButReads a b) (h2 : SameButReads b c) :
    SameButReads a c := by
  obtain ⟨a1, a2, a3, a4, a5, a6, a7, a8, a9, a10, a11⟩ := h1
  obtain ⟨b1, b2, b3, b4, b5, b6, b7, b8, b9, b10, b11⟩ := h2
  exact ⟨b1.trans a1, b2.trans a2, b3.trans a3, b4.trans a4, b5.trans a5, b6.trans a6, b7.trans a7,
    b8.trans a8, b9.trans a9, b10.trans a10, b11.trans a11⟩

theorem SameButReads.hdr {s s' : Rebuild w} (h : SameButReads s s') : SameHdr s s' :=
  ⟨h.1, h.2.1, h.2.2.1, h.2.2.2.1, h.2.2.2.2.1⟩

theorem SameButReads.wf {s s' : Rebuild w} (h : SameButReads s s') (hwf : Wf s) : Wf s' := by
  obtain ⟨_, _, _, _, _, _, a7, a8, a9, _, _⟩ := h
  exact ⟨by rw [a8]; exact hwf.pend, by rw [a7]; exact hwf.writ, by rw [a9]; exact hwf.rev,
    by rw [a8, a9]; exact hwf.revOk⟩

theorem read_same (s : Rebuild w) (var : Int) : SameButReads s (Opt.read s var) := read_fields s var

theorem foldl_read_same (s : Rebuild w) (vs : List Int) : SameButReads s (vs.foldl Opt.read s) := by
  induction vs generalizing s with
  | nil => exact SameButReads.refl s
  | cons v vs ih => exact (read_same s v).trans (ih _)

/-- The `read` phase of one emitted group. -/
def readGroup (s : Rebuild w) (calcs : List (Int × Expr w)) : Rebuild w :=
  calcs.foldl (fun s vc => (Expr.variables vc.2).foldl Opt.read s) s

theorem readGroup_same (s : Rebuild w) (calcs : List (Int × Expr w)) : SameButReads s (readGroup s calcs) := by
  unfold readGroup
  induction calcs generalizing s with
  | nil => exact SameButReads.refl s
  | cons vc calcs ih => exact (foldl_read_same s _).trans (ih _)

/-! ### `writtenCalcs` -/

theorem mGet_foldl_mSet_notin {ν : Type} (l : List (Int × ν)) (m0 : List (Int × ν)) (v : Int)
    (h : v ∉ l.map (·.1)) : mGet (l.foldl (fun m kv => mSet m kv.1 kv.2) m0) v = mGet m0 v := by
  induction l generalizing m0 with
  | nil => rfl
  | cons kv l ih =>
    simp only [List.map_cons, List.mem_cons, not_or] at h
    simp only [List.foldl_cons]
    rw [ih _ h.2, mGet_mSet_ne _ _ _ _ (fun e => h.1 e.symm)]

theorem mGet_foldl_mSet_in {ν : Type} (l : List (Int × ν)) (m0 : List (Int × ν)) (v : Int) (x : ν)
    (hnd : (l.map (·.1)).Nodup) (h : (v, x) ∈ l) :
    mGet (l.foldl (fun m kv => mSet m kv.1 kv.2) m0) v = some x := by
  induction l generalizing m0 with
  | nil => simp at h
  | cons kv l ih =>
    simp only [List.map_cons, List.nodup_cons] at hnd
    simp only [List.foldl_cons]
    rcases List.mem_cons.1 h with e | e
    · subst e
      rw [mGet_foldl_mSet_notin _ _ _ hnd.1, mGet_mSet_same]
    · exact ih _ hnd.2 e

theorem sorted_foldl_mSet {ν : Type} (l : List (Int × ν)) {m0 : List (Int × ν)} (h : Sorted m0) :
    Sorted (l.foldl (fun m kv => mSet m kv.1 kv.2) m0) := by
  induction l generalizing m0 with
  | nil => exact h
  | cons kv l ih => exact ih (sorted_mSet h _ _)

/-- The value `writtenCalcs` records for one calculation. -/
def knownOf (s : Rebuild w) (ps : List (Rebuild w)) (e : Expr w) : OptWrite w :=
  if Expr.opCount e < 32 then
    match evalWritten s ps e with
    | some c => OptWrite.known (Expr.normalize c)
    | none => OptWrite.unknown
  else OptWrite.unknown

theorem foldl_insertWritten (l : List (Int × OptWrite w)) (s : Rebuild w) :
    SameButWritten s (l.foldl (fun s vk => insertWritten s vk.1 vk.2) s) ∧
    (l.foldl (fun s vk => insertWritten s vk.1 vk.2) s).reads = s.reads ∧
    (l.foldl (fun s vk => insertWritten s vk.1 vk.2) s).written =
      (l.map (fun vk => (vk.1, (match vk.2 with | .known e => OptWrite.known (Expr.normalize e) | v => v)))).foldl
        (fun m kv => mSet m kv.1 kv.2) s.written := by
  induction l generalizing s with
  | nil => exact ⟨⟨rfl, rfl, rfl, rfl, rfl, rfl, rfl, rfl, rfl, rfl, rfl⟩, rfl, rfl⟩
  | cons vk l ih =>
    simp only [List.foldl_cons, List.map_cons]
    obtain ⟨a, b, c⟩ := ih (insertWritten s vk.1 vk.2)
    have hs := insertWritten_same s vk.1 vk.2
    obtain ⟨a1, a2, a3, a4, a5, a6, a7, a8, a9, a10, a11⟩ := a
    obtain ⟨b1, b2, b3, b4, b5, b6, b7, b8, b9, b10, b11⟩ := hs
    refine ⟨⟨a1.trans b1, a2.trans b2, a3.trans b3, a4.trans b4, a5.trans b5, a6.trans b6, a7.trans b7,
      a8.trans b8, a9.trans b9, a10.trans b10, a11.trans b11⟩, b.trans b7, ?_⟩
    rw [c, insertWritten_written]
    rfl

theorem writtenCalcs_eq (s : Rebuild w) (ps : List (Rebuild w)) (calcs : List (Int × Expr w)) :
    SameButWritten s (writtenCalcs s ps calcs) ∧ (writtenCalcs s ps calcs).reads = s.reads ∧
    (writtenCalcs s ps calcs).written =
      (calcs.map (fun vc => (vc.1, knownOf s ps vc.2))).foldl (fun m kv => mSet m kv.1 kv.2) s.written := by
  unfold writtenCalcs
  obtain ⟨a, b, c⟩ := foldl_insertWritten (calcs.map (fun vc =>
    if Expr.opCount vc.2 < 32 then
      match evalWritten s ps vc.2 with
      | some c => (vc.1, OptWrite.known c)
      | none => (vc.1, OptWrite.unknown)
    else (vc.1, OptWrite.unknown))) s
  refine ⟨a, b, ?_⟩
  refine c.trans ?_
  rw [List.map_map]
  congr 1
  apply List.map_congr_left
  intro vc _
  simp only [Function.comp, knownOf]
  split
  · split <;> rfl
  · rfl

theorem par_of_mem {g : List (Int × Expr w)} (hnd : (g.map (·.1)).Nodup) {v : Int} {e : Expr w}
    (h : (v, e) ∈ g) (m : Mem w) : Mem.par g m v = ev e m := by
  have : mGet g v = some e := by
    induction g with
    | nil => simp at h
    | cons kv g ih =>
      obtain ⟨a, b⟩ := kv
      simp only [List.map_cons, List.nodup_cons] at hnd
      simp only [mGet]
      rcases List.mem_cons.1 h with e' | e'
      · cases e'; simp
      · have : a ≠ v := by
          rintro rfl
          exact hnd.1 (List.mem_map.2 ⟨(a, e), e', rfl⟩)
        simp only [this, if_false]
        exact ih hnd.2 e'
  exact par_of_get g m v e this

theorem par_of_notin {g : List (Int × Expr w)} {v : Int} (h : v ∉ g.map (·.1)) (m : Mem w) :
    Mem.par g m v = m v := by
  apply par_of_not_mem
  rw [mGet_none_iff]; exact h

/-! ### `emitStructured` -/

/-- One group of `emitStructured`. -/
def emitGroup (ps : List (Rebuild w)) (s : Rebuild w) (calcs : List (Int × Expr w)) : Rebuild w :=
  let s := readGroup s calcs
  let s := writtenCalcs s ps calcs
  { s with insts := s.insts ++ [Ir.Instr.calc calcs] }

theorem emitStructured_eq (s : Rebuild w) (ps : List (Rebuild w)) (toEmit : List (List (Int × Expr w))) :
    emitStructured s ps toEmit = toEmit.foldl (emitGroup ps) s := rfl

/-- What `emitStructured` leaves unchanged. -/
def SameButEmit (s s' : Rebuild w) : Prop :=
  s'.parent = s.parent ∧ s'.anal = s.anal ∧ s'.shift = s.shift ∧
  s'.cond = s.cond ∧ s'.subShift = s.subShift ∧ s'.noReturn = s.noReturn ∧
  s'.pending = s.pending ∧ s'.reverse = s.reverse ∧ s'.subAnal = s.subAnal

theorem SameButEmit.hdr {s s' : Rebuild w} (h : SameButEmit s s') : SameHdr s s' :=
  ⟨h.1, h.2.1, h.2.2.1, h.2.2.2.1, h.2.2.2.2.1⟩

theorem emitGroup_struct {s : Rebuild w} (hwf : Wf s) (ps : List (Rebuild w)) (calcs : List (Int × Expr w)) :
    Wf (emitGroup ps s calcs) ∧
    (emitGroup ps s calcs).insts = s.insts ++ [Ir.Instr.calc calcs] ∧
    SameButEmit s (emitGroup ps s calcs) ∧
    (∀ v, v ∉ calcs.map (·.1) → mGet (emitGroup ps s calcs).written v = mGet s.written v) := by
  have hr := readGroup_same s calcs
  obtain ⟨hwc, _, hwr⟩ := writtenCalcs_eq (readGroup s calcs) ps calcs
  have hwf1 : Wf (readGroup s calcs) := hr.wf hwf
  obtain ⟨c1, c2, c3, c4, c5, c6, c7, c8, c9, c10, c11⟩ := hwc
  obtain ⟨r1, r2, r3, r4, r5, r6, r7, r8, r9, r10, r11⟩ := hr
  refine ⟨⟨?_, ?_, ?_, ?_⟩, ?_, ?_, ?_⟩
  · show Sorted (writtenCalcs (readGroup s calcs) ps calcs).pending
    rw [c8]; exact hwf1.pend
  · show Sorted (writtenCalcs (readGroup s calcs) ps calcs).written
    rw [hwr]; exact sorted_foldl_mSet _ hwf1.writ
  · show Sorted (writtenCalcs (readGroup s calcs) ps calcs).reverse
    rw [c9]; exact hwf1.rev
  · show RevOk (writtenCalcs (readGroup s calcs) ps calcs).pending
      (writtenCalcs (readGroup s calcs) ps calcs).reverse
    rw [c8, c9]; exact hwf1.revOk
  · show (writtenCalcs (readGroup s calcs) ps calcs).insts ++ _ = _
    rw [c10, r10]
  · exact ⟨c1.trans r1, c2.trans r2, c3.trans r3, c4.trans r4, c5.trans r5, c6.trans r6, c8.trans r8,
      c9.trans r9, c11.trans r11⟩
  · intro v hv
    show mGet (writtenCalcs (readGroup s calcs) ps calcs).written v = _
    have hv' : v ∉ (calcs.map (fun vc => (vc.1, knownOf (readGroup s calcs) ps vc.2))).map (·.1) := by
      rw [List.map_map]; exact hv
    rw [hwr, mGet_foldl_mSet_notin _ _ _ hv', r7]

/-- What `emitGroup` records for a target. -/
theorem emitGroup_written_target {s : Rebuild w} (ps : List (Rebuild w)) (calcs : List (Int × Expr w))
    (hnd : (calcs.map (·.1)).Nodup) {vc : Int × Expr w} (hvc : vc ∈ calcs) :
    mGet (emitGroup ps s calcs).written vc.1 = some (knownOf (readGroup s calcs) ps vc.2) := by
  obtain ⟨_, _, hwr⟩ := writtenCalcs_eq (readGroup s calcs) ps calcs
  show mGet (writtenCalcs (readGroup s calcs) ps calcs).written vc.1 = _
  rw [hwr]
  have hnd' : ((calcs.map (fun vc => (vc.1, knownOf (readGroup s calcs) ps vc.2))).map (·.1)).Nodup := by
    rw [List.map_map]; exact hnd
  exact mGet_foldl_mSet_in _ _ vc.1 _ hnd' (List.mem_map.2 ⟨vc, hvc, rfl⟩)

theorem emitGroup_writ {s : Rebuild w} {ps : List (Rebuild w)} {M0 E : Mem w} (hwf : Wf s)
    (hw : WrOk s M0 E) (hk : PK s ps M0) (calcs : List (Int × Expr w))
    (hnd : (calcs.map (·.1)).Nodup) : WrOk (emitGroup ps s calcs) M0 (Mem.par calcs E) := by
  have hr := readGroup_same s calcs
  have hw1 : WrOk (readGroup s calcs) M0 E := hw.of_written_eq hr.2.2.2.2.2.2.1
  have hk1 : PK (readGroup s calcs) ps M0 := hk.congr hr.hdr
  obtain ⟨_, _, _, hoff⟩ := emitGroup_struct hwf ps calcs
  intro v
  by_cases hv : v ∈ calcs.map (·.1)
  · obtain ⟨vc, hvc, rfl⟩ := List.mem_map.1 hv
    rw [emitGroup_written_target ps calcs hnd hvc]
    by_cases hop : Expr.opCount vc.2 < 32
    · cases hc : evalWritten (readGroup s calcs) ps vc.2 with
      | none => simp only [knownOf, hop, hc, if_true]
      | some c =>
        simp only [knownOf, hop, hc, if_true]
        rw [par_of_mem hnd (show (vc.1, vc.2) ∈ calcs from hvc)]
        rw [← evalWritten_sound' hw1 hk1 hc]
        exact (Expr.eval_normalize c M0).symm
    · simp only [knownOf, hop, if_false]
  · rw [hoff v hv, par_of_notin hv]
    exact hw v

theorem emitStructured_struct {s : Rebuild w} (hwf : Wf s) (ps : List (Rebuild w))
    (toEmit : List (List (Int × Expr w))) :
    (emitStructured s ps toEmit).insts = s.insts ++ toEmit.map Ir.Instr.calc ∧
    SameButEmit s (emitStructured s ps toEmit) ∧ Wf (emitStructured s ps toEmit) ∧
    (∀ v, (∀ g ∈ toEmit, v ∉ g.map (·.1)) →
      mGet (emitStructured s ps toEmit).written v = mGet s.written v) := by
  rw [emitStructured_eq]
  induction toEmit generalizing s with
  | nil => exact ⟨by simp, ⟨rfl, rfl, rfl, rfl, rfl, rfl, rfl, rfl, rfl⟩, hwf, fun _ _ => rfl⟩
  | cons g toEmit ih =>
    obtain ⟨a1, a3, a4, a5⟩ := emitGroup_struct hwf ps g
    obtain ⟨b3, b4, b1, b5⟩ := ih a1
    simp only [List.foldl_cons, List.map_cons]
    refine ⟨?_, ?_, b1, ?_⟩
    · rw [b3, a3]; simp
    · obtain ⟨x1, x2, x3, x4, x5, x6, x7, x8, x9⟩ := a4
      obtain ⟨y1, y2, y3, y4, y5, y6, y7, y8, y9⟩ := b4
      exact ⟨y1.trans x1, y2.trans x2, y3.trans x3, y4.trans x4, y5.trans x5, y6.trans x6, y7.trans x7,
        y8.trans x8, y9.trans x9⟩
    · intro v hv
      rw [b5 v (fun g' hg' => hv g' (by simp [hg'])), a5 v (hv g (by simp))]

theorem emitStructured_writ {s : Rebuild w} {ps : List (Rebuild w)} {M0 E : Mem w} (hwf : Wf s)
    (hw : WrOk s M0 E) (hk : PK s ps M0) (toEmit : List (List (Int × Expr w)))
    (hnd : ∀ g ∈ toEmit, (g.map (·.1)).Nodup) :
    WrOk (emitStructured s ps toEmit) M0 (Mem.seq toEmit E) := by
  rw [emitStructured_eq]
  induction toEmit generalizing s E with
  | nil => exact hw
  | cons g toEmit ih =>
    obtain ⟨a1, _, a4, _⟩ := emitGroup_struct hwf ps g
    have a2 := emitGroup_writ hwf hw hk g (hnd g (by simp))
    simp only [List.foldl_cons, seq_cons]
    exact ih a1 a2 (hk.congr a4.hdr) (fun g' hg' => hnd g' (by simp [hg']))

end OptProof
end Hpbf
