/-
C15, part 3: `constant`, `identity` and the substitution lemma for `symbEvaluate`.
-/
import Hpbf.Proofs.C15Basic

namespace Hpbf
namespace Expr
variable {w : Nat}

/-! ### `constant` and `identity` (unconditional) -/

theorem constant_some {e : Expr w} {c : BitVec w} (h : constant e = some c) :
    (e = [] ∧ c = 0#w) ∨ e = [{ coef := c, vars := [] }] := by
  unfold constant at h
  split at h
  · left; simp_all
  · rename_i p
    split at h
    · rename_i hv
      simp only [Option.some.injEq] at h
      right
      obtain ⟨pc, pv⟩ := p
      simp only [List.isEmpty_iff] at hv
      simp_all
    · cases h
  · cases h

theorem eval_constant (e : Expr w) (c : BitVec w) (f : Int → BitVec w) (h : constant e = some c) :
    evaluate e f = c := by
  rcases constant_some h with ⟨rfl, rfl⟩ | rfl
  · rfl
  · simp [evaluate_singleton]

theorem identity_some {e : Expr w} {v : Int} (h : identity e = some v) :
    e = [{ coef := 1#w, vars := [v] }] := by
  unfold identity at h
  split at h
  · rename_i p
    split at h
    · rename_i hc
      split at h
      · rename_i v' hv
        simp only [Option.some.injEq] at h
        obtain ⟨pc, pv⟩ := p
        simp_all
      · cases h
    · cases h
  · cases h

theorem eval_identity (e : Expr w) (v : Int) (f : Int → BitVec w) (h : identity e = some v) :
    evaluate e f = f v := by
  rw [identity_some h]; simp [evaluate_singleton]

/-! ### Substitution -/

/-- The assignment induced by a symbolic assignment `g` (undefined variables read as 0). -/
def substVal (g : Int → Option (Expr w)) (f : Int → BitVec w) : Int → BitVec w :=
  fun v => match g v with
    | some ev => evaluate ev f
    | none => 0#w

theorem substVal_some {g : Int → Option (Expr w)} {f : Int → BitVec w} {v : Int} {e : Expr w}
    (h : g v = some e) : substVal g f v = evaluate e f := by
  simp [substVal, h]

theorem substProd_eval (g : Int → Option (Expr w)) (f : Int → BitVec w) (vs : List Int)
    (part pr : Expr w) (h : substProd g part vs = some pr) :
    evaluate pr f = evaluate part f * mono (substVal g f) vs := by
  induction vs generalizing part with
  | nil =>
    simp only [substProd, Option.some.injEq] at h
    subst h; simp
  | cons v vs ih =>
    simp only [substProd] at h
    cases hg : g v with
    | none => simp [hg] at h
    | some e =>
      simp only [hg] at h
      rw [ih _ h, eval_mulParts, mono_cons, substVal_some hg, BitVec.mul_assoc]

theorem substProd_isSome (g : Int → Option (Expr w)) (vs : List Int) (part : Expr w) :
    (substProd g part vs).isSome ↔ ∀ v ∈ vs, (g v).isSome := by
  induction vs generalizing part with
  | nil => simp [substProd]
  | cons v vs ih =>
    simp only [substProd]
    cases hg : g v with
    | none => simp [hg]
    | some e => simp [hg, ih]

theorem foldr_scaled (f : Int → BitVec w) (c : BitVec w) (e : Expr w) :
    (e.map (fun vp : Part w => c * vp.coef * mono f vp.vars)).foldr (· + ·) 0#w = c * evaluate e f := by
  induction e with
  | nil => simp
  | cons p e ih => simp only [List.map_cons, List.foldr_cons, ih, evaluate_cons']; grind

theorem evalM_scaledFold (f : Int → BitVec w) (c : BitVec w) (e : Expr w)
    (m : List (List Int × BitVec w)) :
    evalM f (e.foldl (fun m vp => accum m vp.vars (c * vp.coef)) m) = evalM f m + c * evaluate e f := by
  rw [evalM_foldl_accum f (fun vp : Part w => vp.vars) (fun vp => c * vp.coef), foldr_scaled]

theorem symbLoop_eval (g : Int → Option (Expr w)) (f : Int → BitVec w) (ps : List (Part w))
    (m m' : List (List Int × BitVec w)) (h : symbLoop g ps m = some m') :
    evalM f m' = evalM f m + evaluate ps (substVal g f) := by
  induction ps generalizing m with
  | nil =>
    simp only [symbLoop, Option.some.injEq] at h
    subst h; simp
  | cons p ps ih =>
    rw [symbLoop] at h
    rw [evaluate_cons']
    split at h
    · rename_i hv
      rw [ih _ h, evalM_accum, hv]; simp; grind
    · rename_i v hv
      cases hg : g v with
      | none => simp [hg] at h
      | some e =>
        simp only [hg] at h
        rw [ih _ h, evalM_scaledFold, hv, mono_cons, substVal_some hg]; simp; grind
    · rename_i v vs hne hv
      cases hg : g v with
      | none => simp [hg] at h
      | some e0 =>
        simp only [hg] at h
        cases hs : substProd g e0 vs with
        | none => simp [hs] at h
        | some pr =>
          simp only [hs] at h
          rw [ih _ h, evalM_scaledFold, hv, mono_cons, substVal_some hg, substProd_eval g f vs e0 pr hs]
          grind

theorem symbLoop_isSome (g : Int → Option (Expr w)) (ps : List (Part w))
    (m : List (List Int × BitVec w)) :
    (symbLoop g ps m).isSome ↔ ∀ v ∈ variables ps, (g v).isSome := by
  induction ps generalizing m with
  | nil => simp [symbLoop, variables]
  | cons p ps ih =>
    rw [symbLoop]
    have hvars : variables (p :: ps) = p.vars ++ variables ps := by simp [variables]
    rw [hvars]
    split
    · rename_i hv
      rw [ih, hv]; simp
    · rename_i v hv
      rw [hv]
      cases hg : g v with
      | none => simp [hg]
      | some e => simp [hg, ih]
    · rename_i v vs hne hv
      rw [hv]
      cases hg : g v with
      | none => simp [hg]
      | some e0 =>
        simp only
        cases hs : substProd g e0 vs with
        | none =>
          have := (substProd_isSome g vs e0)
          rw [hs] at this
          simp only [Option.isSome_none, Bool.false_eq_true, false_iff] at this ⊢
          intro hall
          apply this
          intro u hu
          exact hall u (by simp [hu])
        | some pr =>
          have := (substProd_isSome g vs e0)
          rw [hs] at this
          simp only [Option.isSome_some, true_iff] at this
          simp only [ih]
          constructor
          · intro hall u hu
            simp only [List.cons_append, List.mem_cons, List.mem_append] at hu
            rcases hu with rfl | hu | hu
            · simp [hg]
            · exact this u hu
            · exact hall u hu
          · intro hall u hu
            exact hall u (by simp [hu])

/-- Substitution lemma: symbolic evaluation followed by evaluation is evaluation under the induced
assignment. (No side condition: a `some` result implies every needed variable was defined.) -/
theorem eval_symbEvaluate (e e' : Expr w) (g : Int → Option (Expr w)) (f : Int → BitVec w)
    (h : symbEvaluate e g = some e') :
    evaluate e' f = evaluate e (substVal g f) := by
  unfold symbEvaluate at h
  split at h
  · rename_i v hid
    rw [eval_identity e v _ hid, substVal_some h]
  · split at h
    · rename_i c hc
      simp only [Option.some.injEq] at h
      subst h
      rw [eval_val, eval_constant e c _ hc]
    · split at h
      · cases h
      · rename_i m hm
        simp only [Option.some.injEq] at h
        subst h
        rw [evaluate_finish, symbLoop_eval g f e [] m hm]; simp

/-- `symbEvaluate` is defined exactly when every variable of the expression is. -/
theorem symbEvaluate_isSome (e : Expr w) (g : Int → Option (Expr w)) :
    (symbEvaluate e g).isSome ↔ ∀ v ∈ variables e, (g v).isSome := by
  unfold symbEvaluate
  split
  · rename_i v hid
    rw [identity_some hid]; simp [variables]
  · split
    · rename_i c hc
      rcases constant_some hc with ⟨rfl, _⟩ | rfl <;> simp [variables]
    · have := symbLoop_isSome g e []
      split
      · rename_i hn
        rw [hn] at this; simpa using this
      · rename_i m hm
        rw [hm] at this; simpa using this

theorem symbEvaluate_eq_none (e : Expr w) (g : Int → Option (Expr w)) :
    symbEvaluate e g = none ↔ ∃ v ∈ variables e, g v = none := by
  have := symbEvaluate_isSome e g
  constructor
  · intro hn
    rw [hn] at this
    simp only [Option.isSome_none, Bool.false_eq_true, false_iff] at this
    apply Classical.byContradiction
    intro hex
    apply this
    intro v hv
    cases hg : g v with
    | none => exact absurd ⟨v, hv, hg⟩ hex
    | some _ => rfl
  · rintro ⟨v, hv, hg⟩
    cases hs : symbEvaluate e g with
    | none => rfl
    | some r =>
      rw [hs] at this
      have := this.1 rfl v hv
      simp [hg] at this

end Expr
end Hpbf
