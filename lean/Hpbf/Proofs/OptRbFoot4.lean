/-
Rebuild-round proofs: the FOOTPRINT invariants, part 4: the code emitted for a loop / if (`loopOrIf`).
* `loopOrIf_shift_foot`: the child moves the pointer: `subShift` becomes `true`, the footprint claims are void.
* `loopOrIf_stay_foot`: the child does not move the pointer: read footprint relative to valid start states.
-/
import Hpbf.Proofs.OptRbFoot3

namespace Hpbf
namespace OptProof
open Opt OptSem Ir

variable {w : Nat}

/-! ### helpers -/

theorem emit_defW_mono {s : Rebuild w} (ps : List (Rebuild w)) (hwf : Wf s) (var : Int) {os os' : Orders}
    {s' : Rebuild w} (hr : (emit s ps var).run os = .ok (s', os')) (v : Int) (h : DefW s v) : DefW s' v := by
  unfold emit at hr
  split at hr
  · rw [run_bind_ok] at hr
    obtain ⟨⟨s1, toEmit⟩, os1, h1, h2⟩ := hr
    rw [run_pure] at h2
    cases h2
    obtain ⟨g1, g2, _, _, _, g6, _⟩ := gatherForEmit_spec hwf var h1
    rw [emitStructured_defW g1 ps toEmit (fun g hg => (g6 g hg).1) v, DefW.congr g2.2.2.2.2.2.2.2.1]
    exact Or.inl h
  · rw [run_pure] at hr
    cases hr
    exact h

/-- After `emitReadAll`, every listed variable is recorded in `reads` or definitely written. -/
theorem emitReadAll_reads (ps : List (Rebuild w)) (vars : List Int) {s : Rebuild w} (hwf : Wf s)
    {os os' : Orders} {s' : Rebuild w} (hr : (emitReadAll ps vars s).run os = .ok (s', os')) :
    (∀ v, DefW s v → DefW s' v) ∧ (∀ v, v ∈ s.reads → v ∈ s'.reads) ∧
    ∀ v ∈ vars, v ∈ s'.reads ∨ DefW s' v := by
  induction vars generalizing s os with
  | nil =>
    unfold emitReadAll at hr
    rw [List.foldlM_nil, run_pure] at hr
    cases hr
    exact ⟨fun _ h => h, fun _ h => h, fun _ h => absurd h (by simp)⟩
  | cons x rest ih =>
    unfold emitReadAll at hr
    rw [List.foldlM_cons, run_bind_ok] at hr
    obtain ⟨s1, os1, h1, h2⟩ := hr
    rw [run_bind_ok] at h1
    obtain ⟨s0, os0, h3, h4⟩ := h1
    rw [run_pure] at h4
    cases h4
    obtain ⟨c1, r1, f1⟩ := emit_foot ps hwf x h3
    have hsr := read_same s0 x
    have hwf1 : Wf (Opt.read s0 x) := hsr.wf r1.wf
    obtain ⟨d2, m2, k2⟩ := ih hwf1 (show (emitReadAll ps rest (Opt.read s0 x)).run os1 = _ from h2)
    have hdr : ∀ v, DefW (Opt.read s0 x) v ↔ DefW s0 v := fun v => DefW.congr hsr.2.2.2.2.2.2.1 v
    refine ⟨?_, ?_, ?_⟩
    · intro v hv
      exact d2 v ((hdr v).2 (emit_defW_mono ps hwf x h3 v hv))
    · intro v hv
      exact m2 v ((read_readsMono s0 x).1 v (f1.mono.1 v hv))
    · intro v hv
      rcases List.mem_cons.1 hv with e | e
      · subst e
        by_cases hd : DefW s0 v
        · exact Or.inr (d2 v ((hdr v).2 hd))
        · exact Or.inl (m2 v ((mem_reads_read s0 v v).2 (Or.inr ⟨rfl, hd⟩)))
      · exact k2 v e

/-- The same emitted `calc` groups in front of both programs. -/
theorem Sim.calcs_both {Q : State w → State w → Prop} {a b : List (Instr w)} {σ1 σ2 : State w}
    (gs gs' : List (List (Int × Expr w))) (h : Sim Q a b (gs.foldl doCalc σ1) (gs'.foldl doCalc σ2)) :
    Sim Q (gs.map Instr.calc ++ a) (gs'.map Instr.calc ++ b) σ1 σ2 := by
  refine ⟨?_, ?_, ?_, ?_, ?_, ?_⟩
  · intro x hx
    obtain ⟨y, hy, hq⟩ := h.finL x ((exec_calcs_iff gs a σ1 _).1 hx)
    exact ⟨y, (exec_calcs_iff gs' b σ2 _).2 hy, hq⟩
  · intro x hx
    obtain ⟨y, hy, hq⟩ := h.stopL x ((exec_calcs_iff gs a σ1 _).1 hx)
    exact ⟨y, (exec_calcs_iff gs' b σ2 _).2 hy, hq⟩
  · intro t ht
    exact (exec_calcs_iff gs' b σ2 _).2 (h.partL t ((exec_calcs_iff gs a σ1 _).1 ht))
  · intro y hy
    obtain ⟨x, hx, hq⟩ := h.finR y ((exec_calcs_iff gs' b σ2 _).1 hy)
    exact ⟨x, (exec_calcs_iff gs a σ1 _).2 hx, hq⟩
  · intro y hy
    obtain ⟨x, hx, hq⟩ := h.stopR y ((exec_calcs_iff gs' b σ2 _).1 hy)
    exact ⟨x, (exec_calcs_iff gs a σ1 _).2 hx, hq⟩
  · intro t ht
    exact (exec_calcs_iff gs a σ1 _).2 (h.partR t ((exec_calcs_iff gs' b σ2 _).1 ht))

theorem AgreeOff.mov0 {X : Int → Prop} {a b : State w} (h : AgreeOff X a b) :
    AgreeOff X (a.mov 0) (b.mov 0) := by
  refine ⟨?_, h.2.1, h.2.2.1, ?_⟩
  · show a.ptr + 0 = b.ptr + 0
    rw [h.1]
  · intro v hv
    rw [memE_mov0, memE_mov0]
    exact h.2.2.2 v hv

theorem condZero_written_ne (s sub : Rebuild w) (cond v : Int) (hv : v ≠ cond) :
    mGet (condZero s sub cond).written v = mGet s.written v := by
  rcases condZero_cases s sub cond with h | ⟨h, _⟩
  · rw [h]
  · rw [h, insertWritten_written, mGet_mSet_ne _ _ _ _ (fun e => hv e.symm)]

theorem condZero_written_none (s sub : Rebuild w) (cond v : Int)
    (h : mGet (condZero s sub cond).written v = none) : mGet s.written v = none := by
  by_cases hv : v = cond
  · rcases condZero_cases s sub cond with h' | ⟨h', _⟩
    · rw [h'] at h; exact h
    · rw [h', insertWritten_written, hv, mGet_mSet_same] at h
      cases h
  · rw [← condZero_written_ne s sub cond v hv]; exact h

/-- A state whose condition cell is not zero is a valid entry state of the child, when the child's guard is
trivial (the case of a real loop). -/
theorem ChildOk.valid_head {Gc : State w → Prop} {shP shC cS : Int} {pc : List (Rebuild w)}
    {sub0 sub1 : Rebuild w} {bodyS : List (Instr w)} (hc : ChildOk Gc shP shC pc sub0 sub1 cS bodyS)
    (hall : ∀ σ, Gc σ) {σ : State w} (hne : σ.rd (cS + shP) ≠ 0#w) : ValidG Gc shP sub0 pc σ := by
  have hsm : SameMem shP (σ.mov shP) σ := ⟨rfl, rfl, rfl, by funext v; rfl⟩
  have hne' : (σ.mov shP).rd cS ≠ 0#w := by
    show σ.tape.get (σ.ptr + shP + cS) ≠ 0#w
    have e : σ.ptr + shP + cS = σ.ptr + (cS + shP) := by omega
    rw [e]; exact hne
  obtain ⟨M0c, hre⟩ := hc.entry σ (σ.mov shP) hsm hne' (hall _)
  exact ⟨M0c, _, hre, hall _⟩

/-- One execution of a child along the footprint when only a THIRD state `σX` (the source memory at the emitted
program's pointer) is a valid entry state of the child: the child's footprint is used twice with `σX` as the valid
first run (against `τ1` and against `τ2`) and the two simulations are composed. -/
theorem child_chain {Gc : State w → Prop} {shP : Int} {pc : List (Rebuild w)} {sub0 sub : Rebuild w}
    (hfoot : FootStepV (ValidG Gc shP sub0 pc) sub0 sub sub.insts)
    (hbad : FootBadV (ValidG Gc shP sub0 pc) sub0 sub sub.insts)
    (hframe : FootFrameV (ValidG Gc shP sub0 pc) sub0 sub sub.insts)
    (hns : sub.subShift = false) (hw0 : sub0.written = [])
    {σX τ1 τ2 : State w} (hvX : ValidG Gc shP sub0 pc σX) {X : Int → Prop}
    (hXr : ∀ v, X v → v ∉ sub.reads)
    (hp : σX.ptr = τ1.ptr) (he : σX.env = τ1.env) (ht : σX.trace = τ1.trace)
    (hR : ∀ v ∈ sub.reads, memE σX v = memE τ1 v) (hag : AgreeOff X τ1 τ2) :
    Sim (fun a b => a.ptr = b.ptr ∧ a.env = b.env ∧ a.trace = b.trace ∧
        (∀ v, (DefW sub v ∨ ¬ (memE σX v ≠ memE τ1 v ∨ X v)) → memE a v = memE b v) ∧
        (∀ v, v ∉ mKeys sub.written → v ∉ sub.reads → memE a v = memE τ1 v ∧ memE b v = memE τ2 v))
      sub.insts sub.insts τ1 τ2 ∧
    (Bad sub.insts τ2 → Bad sub.insts σX) ∧
    (∀ b, Exec sub.insts τ2 (.fin b) →
      b.ptr = τ2.ptr ∧ ∀ v, v ∉ mKeys sub.written → v ∉ sub.reads → memE b v = memE τ2 v) := by
  have hK1r : ∀ v, memE σX v ≠ memE τ1 v → v ∉ sub.reads := fun v h hr' => h (hR v hr')
  have hK2r : ∀ v, (memE σX v ≠ memE τ1 v ∨ X v) → v ∉ sub.reads := by
    rintro v (h | h) hr'
    · exact h (hR v hr')
    · exact hXr v h hr'
  have hag1 : AgreeOff (Rest (fun v => memE σX v ≠ memE τ1 v) sub0) σX τ1 :=
    ⟨hp, he, ht, fun v hv => Classical.not_not.1 (fun h => hv ((rest_fresh hw0 v).2 h))⟩
  have hag2 : AgreeOff (Rest (fun v => memE σX v ≠ memE τ1 v ∨ X v) sub0) σX τ2 := by
    refine ⟨hp.trans hag.1, he.trans hag.2.1, ht.trans hag.2.2.1, ?_⟩
    intro v hv
    have hv' : ¬ (memE σX v ≠ memE τ1 v ∨ X v) := fun h => hv ((rest_fresh hw0 v).2 h)
    have e1 : memE σX v = memE τ1 v := Classical.not_not.1 (fun h => hv' (Or.inl h))
    rw [e1]
    exact hag.2.2.2 v (fun h => hv' (Or.inr h))
  refine ⟨?_, fun hb => hbad hns _ hK2r σX τ2 hvX hag2 hb, fun b hb => hframe hns _ hK2r σX τ2 hvX hag2 b hb⟩
  have S1 := (hfoot hns _ hK1r σX τ1 hvX hag1).fin_strengthen
  have S2 := (hfoot hns _ hK2r σX τ2 hvX hag2).fin_strengthen
  refine (Sim.trans S1.symm S2).mono ?_
  rintro a b ⟨y, ⟨hya, _, hea⟩, ⟨hyb, _, heb⟩⟩
  obtain ⟨_, fa⟩ := hframe hns _ hK1r σX τ1 hvX hag1 a hea
  obtain ⟨_, fb⟩ := hframe hns _ hK2r σX τ2 hvX hag2 b heb
  refine ⟨hya.1.symm.trans hyb.1, hya.2.1.symm.trans hyb.2.1, hya.2.2.1.symm.trans hyb.2.2.1, ?_,
    fun v h1 h2 => ⟨fa v h1 h2, fb v h1 h2⟩⟩
  intro v h
  have ha : memE y v = memE a v := by
    apply hya.2.2.2 v
    rintro ⟨hk, hnd⟩
    rcases h with h | h
    · exact hnd h
    · exact h (Or.inl hk)
  have hb : memE y v = memE b v := by
    apply hyb.2.2.2 v
    rintro ⟨hk, hnd⟩
    rcases h with h | h
    · exact hnd h
    · exact h hk
  rw [← ha, hb]

/-- If the source instruction has no terminating run, neither has the emitted code (from a related state). -/
theorem nofin_of_step {G : State w → Prop} {sh sh' : Int} {ps : List (Rebuild w)} {s s' : Rebuild w}
    {src new : List (Instr w)} (hst : StepNG G sh sh' ps s s' src new) {M0 : Mem w} {σ1 σS : State w}
    (hrel : RelAt sh s ps M0 σ1 σS) (hg : G σS) (hn : ∀ x, ¬ Exec src σS (.fin x)) :
    ∀ x, ¬ Exec new σ1 (.fin x) := by
  intro x hx
  obtain ⟨y, hy, _⟩ := (hst.2 M0 σ1 σS hrel hg).1.finR x hx
  exact hn y hy

/-! ### the child moves the pointer -/

theorem loopOrIf_shift_foot {s : Rebuild w} {ps : List (Rebuild w)} {sub : Rebuild w} {cond : Int}
    {isLoop : Bool} {L : OptLoop w} {C : List Int} {os os' : Orders} {s' : Rebuild w}
    (hr : (loopOrIf s ps sub cond isLoop L C).run os = .ok (s', os'))
    (hwf : Wf s) (hwfc : Wf sub)
    (hshift : (sub.subShift || sub.shift != s.shift) = true) :
    s'.subShift = true ∧ ReadsMono s s' ∧
    ∀ (V : State w → Prop) (new : List (Instr w)), FootStepV V s s' new ∧ FrameStepV V s s' new := by
  obtain ⟨sub1, os1, r, h1, h2, rfl⟩ := loopOrIf_run hr
  have hsub1 : SameHdr sub sub1 := by
    split at h1
    · obtain ⟨c, res⟩ := emitAll_res [] (pendingSorted sub sub) hwfc h1
      exact res.hdr
    · rw [run_pure] at h1
      cases h1
      exact SameHdr.refl _
  have hshift1 : (sub1.subShift || sub1.shift != s.shift) = true := by
    rw [hsub1.2.2.2.2, hsub1.2.2.1]; exact hshift
  unfold loopPrep at h2
  rw [if_pos hshift1, run_bind_ok] at h2
  obtain ⟨s1, os2, h3, h4⟩ := h2
  rw [run_pure] at h4
  cases h4
  obtain ⟨c, _, ft⟩ := emitAll_foot ps (pendingSorted s s) hwf h3
  obtain ⟨t1, _, _, t4, _, _, _⟩ :=
    loopTail_fields (uncertainShift s1) sub1 cond isLoop L (sub1.subShift || sub1.shift != s.shift) []
  have hsub' : (loopTail (uncertainShift s1) sub1 cond isLoop L
      (sub1.subShift || sub1.shift != s.shift) []).subShift = true := by rw [t1.2.2.2.2]; rfl
  refine ⟨hsub', ⟨?_, fun h => absurd (hsub'.symm.trans h) (by simp)⟩, fun V new => ⟨?_, ?_⟩⟩
  · intro v hv
    rw [t4]
    show v ∈ s1.reads
    exact ft.mono.1 v hv
  · intro h
    exact absurd (hsub'.symm.trans h) (by simp)
  · intro h
    exact absurd (hsub'.symm.trans h) (by simp)

/-! ### the child does not move the pointer: the parent's preparation -/

/-- `loopPrep` (non-moving child) cut into its three emitting phases. -/
theorem loopPrep_stay_cut {s : Rebuild w} {ps : List (Rebuild w)} {sub1 : Rebuild w} {cond : Int}
    {L : OptLoop w} {C : List Int} (hns : (sub1.subShift || sub1.shift != s.shift) = false)
    {os os' : Orders} {r : Rebuild w × Rebuild w × List Int}
    (hr : (loopPrep s ps sub1 cond L C).run os = .ok (r, os')) :
    ∃ s1 s2 s3 os1 os2,
      (emitReadAll ps (readsSorted { sub1 with reads := sIns sub1.reads cond } s) s).run os = .ok (s1, os1) ∧
      (emitReadAll ps ((mKeys sub1.written).filter (fun var => C.contains var)) s1).run os1 = .ok (s2, os2) ∧
      (clobberPhase s2 ps { sub1 with reads := sIns sub1.reads cond } L C).run os2 = .ok (s3, os') ∧
      r = (condZero s3 { sub1 with reads := sIns sub1.reads cond } cond,
        { sub1 with reads := sIns sub1.reads cond }, (mKeys sub1.written).filter (fun var => !C.contains var)) := by
  unfold loopPrep at hr
  rw [if_neg (by rw [hns]; simp), run_bind_ok] at hr
  obtain ⟨s1, os1, h1, h2⟩ := hr
  rw [run_bind_ok] at h2
  obtain ⟨s2, os2, h3, h4⟩ := h2
  rw [run_bind_ok] at h4
  obtain ⟨s3, os3, h5, h6⟩ := h4
  rw [run_pure] at h6
  cases h6
  exact ⟨s1, s2, s3, os1, os2, h1, h3, h5, rfl⟩

/-- The agreement set at the loop head. -/
def HeadSet (K : Int → Prop) (sP sub1 : Rebuild w) (cond : Int) (L : OptLoop w) (C : List Int) (v : Int) : Prop :=
  (v ∉ sub1.reads ∧ v ≠ cond) ∧ (Rest K sP v ∨ (K v ∧ ClobSet L C sub1 v))

/-- The read footprint of the groups emitted by `loopPrep` (non-moving child): afterwards two runs agree on
everything the child reads and on the condition cell, and differ at most on `Rest K` and the clobbered cells. -/
theorem loopPrep_stay_foot {s : Rebuild w} {ps : List (Rebuild w)} {sub1 : Rebuild w} {cond : Int}
    {L : OptLoop w} {C : List Int} (hwf : Wf s) (hwf1 : Wf sub1)
    (hns : (sub1.subShift || sub1.shift != s.shift) = false)
    {os os' : Orders} {r : Rebuild w × Rebuild w × List Int}
    (hr : (loopPrep s ps sub1 cond L C).run os = .ok (r, os')) :
    ∃ comps : List (List (Int × Expr w)),
      r.2.1 = { sub1 with reads := sIns sub1.reads cond } ∧
      r.1.insts = s.insts ++ comps.map Instr.calc ∧ (∀ g ∈ comps, (g.map (·.1)).Nodup) ∧
      SameHdr s r.1 ∧ ReadsMono s r.1 ∧
      (r.1.subShift = false → ∀ (K : Int → Prop), (∀ v, K v → v ∉ r.1.reads) → ∀ σ1 σ2 : State w,
        AgreeOff (Rest K s) σ1 σ2 →
        AgreeOff (HeadSet K r.1 sub1 cond L C) (comps.foldl doCalc σ1) (comps.foldl doCalc σ2)) ∧
      (∀ v, v ≠ cond → ClobSet L C sub1 v → DefW r.1 v → L.atLeastOnce = true ∧ DefW sub1 v) ∧
      (r.1.subShift = false → ∀ v, mGet r.1.written v = none → mGet s.written v = none) := by
  obtain ⟨s1, s2, s3, os1, os2, e1, e2, e3, rfl⟩ := loopPrep_stay_cut hns hr
  obtain ⟨c1, r1, f1⟩ := emitReadAll_foot ps _ hwf e1
  obtain ⟨_, _, n1⟩ := emitReadAll_pending_none ps _ hwf e1
  obtain ⟨_, _, k1⟩ := emitReadAll_reads ps _ hwf e1
  obtain ⟨c2, r2, f2⟩ := emitReadAll_foot ps _ r1.wf e2
  obtain ⟨c3, q1, q2, q3, q4, q5, q6, q7, q8⟩ :=
    clobberPhase_foot ps { sub1 with reads := sIns sub1.reads cond } L C r2.wf hwf1.writ e3
  have hcz := condZero_same s3 { sub1 with reads := sIns sub1.reads cond } cond
  have hczr : (condZero s3 { sub1 with reads := sIns sub1.reads cond } cond).reads = s3.reads :=
    hcz.2.2.2.2.2.2.1
  have hczs : (condZero s3 { sub1 with reads := sIns sub1.reads cond } cond).subShift = s3.subShift :=
    hcz.2.2.2.2.1
  -- what the child reads (and the condition cell) is in `readsSorted`
  have hmemR : ∀ v, (v ∈ sub1.reads ∨ v = cond) →
      v ∈ readsSorted { sub1 with reads := sIns sub1.reads cond } s := by
    intro v hv
    unfold readsSorted
    rw [(Expr.stableSort_perm _ _).mem_iff]
    show v ∈ sIns sub1.reads cond
    rw [mem_sIns]
    rcases hv with h | h
    · exact Or.inr h
    · exact Or.inl h
  have hdefne : ∀ v, v ≠ cond →
      (DefW (condZero s3 { sub1 with reads := sIns sub1.reads cond } cond) v ↔ DefW s3 v) :=
    fun v hv => DefW.of_get_eq (condZero_written_ne _ _ _ v hv)
  refine ⟨c1 ++ c2 ++ c3, rfl, ?_, ?_, ((r1.hdr.trans r2.hdr).trans q3).trans hcz.hdr, ?_, ?_, ?_, ?_⟩
  · show (condZero s3 _ cond).insts = _
    rw [hcz.2.2.2.2.2.2.2.2.2.1, q1, r2.insts, r1.insts]
    simp
  · intro g hg
    rcases List.mem_append.1 hg with h | h
    · rcases List.mem_append.1 h with h | h
      · exact r1.nodup g h
      · exact r2.nodup g h
    · exact q2 g h
  · refine ⟨fun v hv => ?_, fun h => ?_⟩
    · show v ∈ (condZero s3 _ cond).reads
      rw [hczr]
      exact q4.1 v (f2.mono.1 v (f1.mono.1 v hv))
    · exact f1.mono.2 (f2.mono.2 (q4.2 (by rw [← hczs]; exact h)))
  · intro hss K hK σ1 σ2 hag
    have hs3 : s3.subShift = false := by rw [← hczs]; exact hss
    have hs2 : s2.subShift = false := q4.2 hs3
    have hs1 : s1.subShift = false := f2.mono.2 hs2
    have hK3 : ∀ v, K v → v ∉ s3.reads := fun v hv hr' => hK v hv (by
      show v ∈ (condZero s3 _ cond).reads
      rw [hczr]; exact hr')
    have hK2 : ∀ v, K v → v ∉ s2.reads := fun v hv hr' => hK3 v hv (q4.1 v hr')
    have hK1 : ∀ v, K v → v ∉ s1.reads := fun v hv hr' => hK2 v hv (f2.mono.1 v hr')
    have a1 := f1.foot hs1 K hK1 σ1 σ2 hag
    have a2 := f2.foot hs2 K hK2 _ _ a1
    have a3 := q6 hs3 K hK3 _ _ a2
    rw [List.foldl_append, List.foldl_append, List.foldl_append, List.foldl_append]
    -- agreement on what the child reads, right after `emitReadAll`
    have hR1 : ∀ v, (v ∈ sub1.reads ∨ v = cond) →
        memE (c1.foldl doCalc σ1) v = memE (c1.foldl doCalc σ2) v := by
      intro v hv
      apply a1.2.2.2 v
      rintro ⟨hkv, hnv⟩
      rcases k1 v (hmemR v hv) with h | h
      · exact hK1 v hkv h
      · exact hnv h
    -- the later groups do not write these cells
    have hnot2 : ∀ v, (v ∈ sub1.reads ∨ v = cond) → ∀ g ∈ c2, v ∉ g.map (·.1) := by
      intro v hv g hg hvg
      obtain ⟨ve, hve, e⟩ := List.mem_map.1 hvg
      have := r2.tgt g hg ve hve
      rw [e, n1 v (hmemR v hv)] at this
      cases this
    have hnot3 : ∀ v, (v ∈ sub1.reads ∨ v = cond) → ∀ g ∈ c3, v ∉ g.map (·.1) := by
      intro v hv g hg hvg
      obtain ⟨ve, hve, e⟩ := List.mem_map.1 hvg
      have := r2.sub _ _ (q5 g hg ve hve)
      rw [e, n1 v (hmemR v hv)] at this
      cases this
    have hkeep : ∀ (σ : State w) v, (v ∈ sub1.reads ∨ v = cond) →
        memE (c3.foldl doCalc (c2.foldl doCalc σ)) v = memE σ v := by
      intro σ v hv
      rw [memE_foldl_doCalc _ c3 q2, memE_foldl_doCalc _ c2 r2.nodup,
        seq_of_notin c3 _ v (hnot3 v hv), seq_of_notin c2 _ v (hnot2 v hv)]
    refine ⟨a3.1, a3.2.1, a3.2.2.1, ?_⟩
    intro v hv
    by_cases hR : v ∈ sub1.reads ∨ v = cond
    · rw [hkeep _ v hR, hkeep _ v hR]
      exact hR1 v hR
    · have hR' : v ∉ sub1.reads ∧ v ≠ cond := ⟨fun h => hR (Or.inl h), fun h => hR (Or.inr h)⟩
      apply a3.2.2.2 v
      rintro (⟨hkv, hnv⟩ | h)
      · exact hv ⟨hR', Or.inl ⟨hkv, fun hd => hnv ((hdefne v hR'.2).1 hd)⟩⟩
      · exact hv ⟨hR', Or.inr h⟩
  · intro v hv hcl hd
    exact q7 v hcl ((hdefne v hv).1 hd)
  · intro hss v hv
    have hs3 : s3.subShift = false := by rw [← hczs]; exact hss
    have hs2 : s2.subShift = false := q4.2 hs3
    have hs1 : s1.subShift = false := f2.mono.2 hs2
    exact (f1.frame hs1).1 v ((f2.frame hs2).1 v (q8 hs3 v (condZero_written_none _ _ _ v hv)))

/-- The semantic side of the parent's preparation: after the groups the condition cell of a related emitted
state holds the source's value; and the state with the SOURCE memory at the emitted program's pointer is a valid
entry state of the child that agrees with the emitted memory on what the child reads and (when the loop has an
effect) on the cells the child only maybe-writes. -/
theorem loopPrep_stay_semctx {Gc : State w → Prop} {shP shC cS : Int} {bodyS : List (Instr w)} {s : Rebuild w}
    {ps : List (Rebuild w)} {sub1 : Rebuild w} {L : OptLoop w} {C : List Int} {pc : List (Rebuild w)}
    {sub0 : Rebuild w} (hc : ChildOk Gc shP shC pc sub0 sub1 cS bodyS) (hwf : Wf s) (hwf1 : Wf sub1)
    (hns : (sub1.subShift || sub1.shift != s.shift) = false)
    {os os' : Orders} {r : Rebuild w × Rebuild w × List Int}
    (hr : (loopPrep s ps sub1 (cS + shP) L C).run os = .ok (r, os')) :
    ∃ comps : List (List (Int × Expr w)), r.1.insts = s.insts ++ comps.map Instr.calc ∧
      ∀ M0 (σ1 σS : State w), RelAt shP s ps M0 σ1 σS →
        (comps.foldl doCalc σ1).rd (cS + shP) = σS.rd cS ∧
        (σS.rd cS ≠ 0#w → Gc σS →
          ValidG Gc shP sub0 pc (σS.mov (-shP)) ∧ ¬ Bad sub1.insts (σS.mov (-shP)) ∧
          (σS.mov (-shP)).ptr = (comps.foldl doCalc σ1).ptr ∧
          (σS.mov (-shP)).env = (comps.foldl doCalc σ1).env ∧
          (σS.mov (-shP)).trace = (comps.foldl doCalc σ1).trace ∧
          (∀ v ∈ sub1.reads, memE (σS.mov (-shP)) v = memE (comps.foldl doCalc σ1) v) ∧
          (L.noEffect = false → ∀ v k, (v, k) ∈ sub1.written → k.isMaybe = true →
            memE (σS.mov (-shP)) v = memE (comps.foldl doCalc σ1) v)) := by
  obtain ⟨s3', comps, Dx, hreq, hclob, hdrop, hreads, hconstP, hdead, hminvx⟩ := loopPrep_stay hwf hns hr
  have e1 : r.1.insts = s3'.insts := by
    rw [hreq]
    exact (condZero_same s3' _ (cS + shP)).2.2.2.2.2.2.2.2.2.1
  refine ⟨comps, e1.trans hclob.insts, ?_⟩
  intro M0 σ1 σS hrel
  obtain ⟨m1, m2, m3⟩ := foldl_doCalc_meta comps σ1
  have hX : MInvX Dx s3' ps M0 (memE (comps.foldl doCalc σ1)) (memS (comps.foldl doCalc σ1) σS) := by
    rw [memE_foldl_doCalc σ1 comps hclob.nodup, memS_foldl_doCalc]
    exact hminvx M0 _ _ hrel.inv
  have hSE : ∀ v, mGet s3'.pending v = none → ¬ Dx v →
      memS (comps.foldl doCalc σ1) σS v = memE (comps.foldl doCalc σ1) v := by
    intro v hp hd
    rw [hX.pendX v hd]; exact par_of_not_mem _ _ _ hp
  have hR : ∀ v, (v ∈ sub1.reads ∨ v = cS + shP) →
      memS (comps.foldl doCalc σ1) σS v = memE (comps.foldl doCalc σ1) v := by
    intro v hv
    apply hSE v (hreads v hv)
    intro hd
    obtain ⟨n1, n2⟩ := hdrop.notRead v hd
    rcases hv with h | h
    · exact n1 h
    · exact n2 h
  refine ⟨?_, ?_⟩
  · have h2' : σS.rd cS = memS (comps.foldl doCalc σ1) σS (cS + shP) := by
      rw [memS_foldl_doCalc]
      exact hrel.rdS cS
    rw [h2', hR _ (Or.inr rfl)]
    rfl
  · intro hne hg
    have hXptr : (σS.mov (-shP)).ptr = (comps.foldl doCalc σ1).ptr := by
      rw [m1]
      show σS.ptr + -shP = σ1.ptr
      rw [hrel.ptr]; omega
    have hsm : SameMem shP σS (σS.mov (-shP)) := by
      refine ⟨rfl, rfl, ?_, by funext v; rfl⟩
      show σS.ptr = σS.ptr + -shP + shP
      omega
    obtain ⟨M0c, hre⟩ := hc.entry (σS.mov (-shP)) σS hsm hne hg
    have hXS : ∀ v, memE (σS.mov (-shP)) v = memS (comps.foldl doCalc σ1) σS v := by
      intro v
      show σS.tape.get ((σS.mov (-shP)).ptr + v) = σS.tape.get ((comps.foldl doCalc σ1).ptr + v)
      rw [hXptr]
    refine ⟨⟨M0c, σS, hre, hg⟩, (hc.rep M0c _ σS hre hg).2, hXptr, ?_, ?_, ?_, ?_⟩
    · show σS.env = _
      rw [m2]; exact hrel.env
    · show σS.trace = _
      rw [m3]; exact hrel.tr
    · intro v hv
      rw [hXS v]
      exact hR v (Or.inl hv)
    · intro hnev v k hvk hm
      rw [hXS v]
      have hkey : v ∈ mKeys sub1.written := List.mem_map.2 ⟨(v, k), hvk, rfl⟩
      have hnd : ¬ Dx v := by
        intro hd
        obtain ⟨k', hk', hm'⟩ := hdrop.written v hd
        have g1 := mGet_of_mem hwf1.writ hvk
        have g2 := mGet_of_mem hwf1.writ hk'
        rw [g1] at g2
        cases g2
        rw [hm] at hm'
        cases hm'
      cases hC : C.contains v with
      | true => exact hSE v (hconstP v hkey hC) hnd
      | false => exact hSE v (hdead hnev (v, k) hvk hC).1 hnd

/-! ### the child does not move the pointer: `loopOrIf` -/

theorem loopOrIf_stay_foot {shP shC shS cS : Int} {bodyS : List (Instr w)}
    {s : Rebuild w} {ps : List (Rebuild w)} {sub : Rebuild w} {cond : Int} {isLoop : Bool} {L : OptLoop w}
    {C : List Int} {pc : List (Rebuild w)} {sub0 : Rebuild w} {os os' : Orders} {s' : Rebuild w}
    {G Gc : State w → Prop}
    (hr : (loopOrIf s ps sub cond isLoop L C).run os = .ok (s', os'))
    (hwf : Wf s) (hpre : ChildPre Gc shP shC pc sub0 sub cS bodyS)
    (hns : (sub.subShift || sub.shift != s.shift) = false)
    (hcond : cond = cS + shP)
    (hGc : ∀ M0 σE σS, RelAt shP s ps M0 σE σS → G σS → ∀ k σk, Head cS shS bodyS σS k σk →
      (isLoop = false → k = 0) → σk.rd cS ≠ 0#w → Gc σk)
    (hGcT : isLoop = true → ∀ σ, Gc σ)
    (hifne : isLoop = false → L.noEffect = true → ∀ M0 σ1 σS, RelAt shP s ps M0 σ1 σS → G σS →
      σS.rd cS ≠ 0#w → ∀ new x, s'.insts = s.insts ++ new → ¬ Exec new σ1 (.fin x))
    (halo : L.atLeastOnce = true → ∀ M0 σE σS, RelAt shP s ps M0 σE σS → G σS → σS.rd cS ≠ 0#w) :
    ∃ new, s'.insts = s.insts ++ new ∧ FootStepV (ValidG G shP s ps) s s' new ∧ ReadsMono s s' ∧
      (s'.subShift = false → ∀ v, mGet s'.written v = none → mGet s.written v = none) := by
  subst hcond
  obtain ⟨sub1, os1, r, h1, h2, rfl⟩ := loopOrIf_run hr
  obtain ⟨hc, hwf1, hshift1⟩ := hpre.emit h1
  have hshEq : sub.shift = s.shift := by
    have := hns
    simp only [Bool.or_eq_false_iff, bne_eq_false_iff_eq] at this
    exact this.2
  have hns1 : (sub1.subShift || sub1.shift != s.shift) = false := by
    rw [hc.noShift, hshift1, hshEq]; simp
  -- the semantic package
  obtain ⟨compsL, eL, hsemc⟩ := loopPrep_stay_semctx hc hwf hwf1 hns1 h2
  -- the footprint package
  obtain ⟨comps, hsubR, p1, p2, p3, p4, p5, p6, p7⟩ := loopPrep_stay_foot hwf hwf1 hns1 h2
  have hcompsL : compsL = comps := calc_map_inj (List.append_cancel_left (eL.symm.trans p1))
  subst hcompsL
  -- fields of the result
  obtain ⟨t1, _, _, t4, t5, _, t7⟩ := loopTail_fields r.1 r.2.1 (cS + shP) isLoop L
    (sub1.subShift || sub1.shift != s.shift) r.2.2
  have hbs : r.2.1.shift - r.1.shift = 0 := by
    rw [hsubR, p3.2.2.1]
    show sub1.shift - s.shift = 0
    rw [hshift1, hshEq]; omega
  have hinsR : r.2.1.insts = sub1.insts := by rw [hsubR]
  rw [hbs, hinsR] at t7
  have hssEq : (loopTail r.1 r.2.1 (cS + shP) isLoop L (sub1.subShift || sub1.shift != s.shift) r.2.2).subShift =
      r.1.subShift := t1.2.2.2.2
  -- `written` of the result away from the condition cell
  have hwne : ∀ v, v ≠ cS + shP →
      mGet (loopTail r.1 r.2.1 (cS + shP) isLoop L (sub1.subShift || sub1.shift != s.shift) r.2.2).written v =
        mGet r.1.written v := by
    intro v hv
    rw [t5]
    split
    · rw [mGet_mSet_ne _ _ _ _ (fun e => hv e.symm)]
    · rfl
  have hwnone : ∀ v,
      mGet (loopTail r.1 r.2.1 (cS + shP) isLoop L (sub1.subShift || sub1.shift != s.shift) r.2.2).written v =
        none → mGet r.1.written v = none := by
    intro v hv
    rw [t5] at hv
    split at hv
    · rw [mGet_mSet] at hv
      split at hv
      · cases hv
      · exact hv
    · exact hv
  have hinsts : (loopTail r.1 r.2.1 (cS + shP) isLoop L (sub1.subShift || sub1.shift != s.shift) r.2.2).insts =
      s.insts ++ (compsL.map Instr.calc ++ [if isLoop then Instr.loop (cS + shP) 0 sub1.insts L.atLeastOnce
        else Instr.ifnz (cS + shP) 0 sub1.insts]) := by
    rw [t7, p1, List.append_assoc]
  refine ⟨compsL.map Instr.calc ++ [if isLoop then Instr.loop (cS + shP) 0 sub1.insts L.atLeastOnce
      else Instr.ifnz (cS + shP) 0 sub1.insts], hinsts, ?_, ?_, ?_⟩
  · -- the read footprint
    intro hss K hK σ1 σ2 v1 hag
    have hssP : r.1.subShift = false := by rw [← hssEq]; exact hss
    have hKP : ∀ v, K v → v ∉ r.1.reads := fun v hv hr' => hK v hv (by rw [t4]; exact hr')
    have hA := p5 hssP K hKP σ1 σ2 hag
    refine Sim.calcs_both compsL compsL ?_
    -- names for the two head states
    obtain ⟨τ1, hτ1⟩ : ∃ τ, τ = compsL.foldl doCalc σ1 := ⟨_, rfl⟩
    obtain ⟨τ2, hτ2⟩ : ∃ τ, τ = compsL.foldl doCalc σ2 := ⟨_, rfl⟩
    rw [← hτ1, ← hτ2] at hA ⊢
    -- the condition cell is read alike
    have hAcond : ∀ (X : Int → Prop) (a b : State w), (∀ v, X v → HeadSet K r.1 sub1 (cS + shP) L C v) →
        AgreeOff X a b → a.rd (cS + shP) = b.rd (cS + shP) := by
      intro X a b hX hab
      exact hab.2.2.2 (cS + shP) (fun h => (hX _ h).1.2 rfl)
    have hAreads : ∀ v, HeadSet K r.1 sub1 (cS + shP) L C v → v ∉ sub1.reads := fun v h => h.1.1
    -- one round
    have hround : (∀ σ, Gc σ) → ∀ a b : State w, AgreeOff (HeadSet K r.1 sub1 (cS + shP) L C) a b →
        a.rd (cS + shP) ≠ 0#w →
        Sim (fun a' b' => AgreeOff (Rest (HeadSet K r.1 sub1 (cS + shP) L C) sub1) (a'.mov 0) (b'.mov 0))
          sub1.insts sub1.insts a b := by
      intro hall a b hab hne
      have hab0 : AgreeOff (Rest (HeadSet K r.1 sub1 (cS + shP) L C) sub0) a b :=
        hab.congr (fun v => (rest_fresh hc.w0 v).symm)
      exact (hc.foot hc.noShift _ hAreads a b (hc.valid_head hall hne) hab0).mono
        (fun a' b' h => h.mov0)
    -- the loop runs at least once when that is claimed
    have hfirst : L.atLeastOnce = true → τ1.rd (cS + shP) ≠ 0#w := by
      intro hal
      obtain ⟨M0, σS, hrel, hg⟩ := v1
      rw [hτ1, (hsemc M0 σ1 σS hrel).1]
      exact halo hal M0 σ1 σS hrel hg
    -- leaving the loop / if
    have hexit : ∀ a b : State w, AgreeOff (HeadSet K r.1 sub1 (cS + shP) L C) a b →
        (L.atLeastOnce = true → AgreeOff (Rest (HeadSet K r.1 sub1 (cS + shP) L C) sub1) a b) →
        AgreeOff (Rest K (loopTail r.1 r.2.1 (cS + shP) isLoop L
          (sub1.subShift || sub1.shift != s.shift) r.2.2)) a b := by
      intro a b hab hlater
      refine ⟨hab.1, hab.2.1, hab.2.2.1, ?_⟩
      intro v hv
      by_cases hAv : HeadSet K r.1 sub1 (cS + shP) L C v
      · obtain ⟨⟨_, hvc⟩, hcase⟩ := hAv
        have hdw : DefW (loopTail r.1 r.2.1 (cS + shP) isLoop L
            (sub1.subShift || sub1.shift != s.shift) r.2.2) v ↔ DefW r.1 v := DefW.of_get_eq (hwne v hvc)
        rcases hcase with ⟨hk, hnd⟩ | ⟨hk, hcl⟩
        · exact absurd ⟨hk, fun hd => hnd (hdw.1 hd)⟩ hv
        · by_cases hd : DefW r.1 v
          · obtain ⟨hal, hdsub⟩ := p6 v hvc hcl hd
            exact (hlater hal).2.2.2 v (fun hrest => hrest.2 hdsub)
          · exact absurd ⟨hk, fun hd' => hd (hdw.1 hd')⟩ hv
      · exact hab.2.2.2 v hAv
    cases isLoop with
    | true =>
      simp only [if_true]
      refine Sim.loop (J := fun a b => AgreeOff (HeadSet K r.1 sub1 (cS + shP) L C) a b ∧
        ((a = τ1 ∧ b = τ2) ∨ AgreeOff (Rest (HeadSet K r.1 sub1 (cS + shP) L C) sub1) a b))
        ?_ ?_ ?_ ?_ ⟨hA, Or.inl ⟨rfl, rfl⟩⟩
      · rintro a b ⟨hab, _⟩
        rw [hAcond _ a b (fun _ h => h) hab]
      · rintro a b ⟨hab, _⟩
        exact hab.2.2.1.symm
      · rintro a b ⟨hab, _⟩ hne
        refine (hround (hGcT rfl) a b hab hne).mono ?_
        intro a' b' h
        exact ⟨h.mono (fun v hv => hv.1), Or.inr h⟩
      · rintro a b ⟨hab, hor⟩ hz
        refine hexit a b hab ?_
        intro hal
        rcases hor with ⟨ea, _⟩ | h
        · rw [ea] at hz
          exact absurd hz (hfirst hal)
        · exact h
    | false =>
      simp only [Bool.false_eq_true, if_false]
      refine Sim.ifnz ?_ hA.2.2.1.symm ?_ ?_
      · rw [hAcond _ τ1 τ2 (fun _ h => h) hA]
      · intro hne
        -- the body runs once, from the head that corresponds to the real source state
        obtain ⟨M0, σS, hrel, hg⟩ := v1
        obtain ⟨hcell, hctx⟩ := hsemc M0 σ1 σS hrel
        rw [← hτ1] at hcell hctx
        have hneS : σS.rd cS ≠ 0#w := by rw [← hcell]; exact hne
        have hGcS : Gc σS := hGc M0 σ1 σS hrel hg 0 σS Head.zero (fun _ => rfl) hneS
        obtain ⟨hvX, _, hXp, hXe, hXt, hXr, hXm⟩ := hctx hneS hGcS
        obtain ⟨Sc, _, _⟩ := child_chain hc.foot hc.badfoot hc.frame2 hc.noShift hc.w0 hvX hAreads hXp hXe hXt
          hXr hA
        cases hnev : L.noEffect with
        | true =>
          -- once entered, the block never ends: the end-state relation is void
          refine Sc.of_no_fin ?_
          intro x hx
          refine hifne rfl hnev M0 σ1 σS hrel hg hneS _ (x.mov 0) hinsts ?_
          refine (exec_calcs_iff compsL _ σ1 _).2 ?_
          simp only [Bool.false_eq_true, if_false]
          rw [← hτ1]
          exact Exec.ifIter hne hx (Exec.nil _)
        | false =>
          refine Sc.mono ?_
          rintro a b ⟨q1, q2, q3, via, fr⟩
          refine AgreeOff.mov0 ⟨q1, q2, q3, ?_⟩
          intro v hv
          by_cases hd : DefW sub1 v
          · exact via v (Or.inl hd)
          by_cases hXv : HeadSet K r.1 sub1 (cS + shP) L C v
          · obtain ⟨⟨_, hvc⟩, hcase⟩ := hXv
            have hdw := DefW.of_get_eq (hwne v hvc)
            rcases hcase with ⟨hk, hnd⟩ | ⟨hk, hcl⟩
            · exact absurd ⟨hk, fun hd' => hnd (hdw.1 hd')⟩ hv
            · by_cases hd' : DefW r.1 v
              · exact absurd (p6 v hvc hcl hd').2 hd
              · exact absurd ⟨hk, fun h => hd' (hdw.1 h)⟩ hv
          by_cases hk1 : memE (σS.mov (-shP)) v = memE τ1 v
          · exact via v (Or.inr (fun h => h.elim (fun h' => h' hk1) hXv))
          · by_cases hkey : v ∈ mKeys sub1.written
            · exfalso
              obtain ⟨vk, hvk, e⟩ := List.mem_map.1 hkey
              have hmb : vk.2.isMaybe = true := by
                cases hm : vk.2.isMaybe with
                | true => rfl
                | false =>
                  exact absurd ⟨vk.2, by rw [← e]; exact mGet_of_mem hwf1.writ hvk, hm⟩ hd
              exact hk1 (hXm hnev v vk.2 (by rw [← e]; exact hvk) hmb)
            · have hrd : v ∉ sub1.reads := fun h => hk1 (hXr v h)
              obtain ⟨fa, fb⟩ := fr v hkey hrd
              rw [fa, fb]
              exact hA.2.2.2 v hXv
      · intro hz
        exact hexit τ1 τ2 hA (fun hal => absurd hz (hfirst hal))
  · refine ⟨fun v hv => ?_, fun h => p4.2 (by rw [← hssEq]; exact h)⟩
    rw [t4]
    exact p4.1 v hv
  · intro hss v hv
    exact p7 (by rw [← hssEq]; exact hss) v (hwnone v hv)

end OptProof
end Hpbf

#print axioms Hpbf.OptProof.loopOrIf_shift_foot
#print axioms Hpbf.OptProof.loopOrIf_stay_foot
