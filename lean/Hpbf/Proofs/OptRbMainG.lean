/-
Rebuild-round proofs, stage 4: the induction over `rebuildInstr` / `rebuildInsts` for rounds that use the analysis
of the previous round (`rebuildInsts_all_g`).  Same skeleton as level 1 (`OptRbMain.lean`), with guards: the child
of a block is entered from the heads `HeadV G s ps …` of the block, for which the node popped for the block is sound.
-/
import Hpbf.Proofs.OptRbFinishLoopG
import Hpbf.Proofs.OptRbSubs
import Hpbf.Proofs.OptRbAnalCheck
import Hpbf.Proofs.OptRbRdFoot
import Hpbf.Proofs.OptRbMain

namespace Hpbf
namespace OptProof
open Opt OptSem Ir

variable {w : Nat}

/-! ### helpers -/

/-- The end state with another `shift` that does not change what it may ask its parent. -/
theorem StepAll.retarget_g {G : State w → Prop} {sh shE shE' : Int} {ps : List (Rebuild w)} {a b b' : Rebuild w}
    {src new : List (Instr w)} (h : StepAll G sh shE ps a b src new)
    (hb' : b' = b ∨ ∃ x, b' = { b with shift := x } ∧ AskStable b x)
    (hoff : b.noReturn = false → shE' = shE) :
    StepAll G sh shE' ps a b' src new := by
  have hpk : ∀ M0, PK b ps M0 → PK b' ps M0 := by
    intro M0 hp
    rcases hb' with rfl | ⟨x, rfl, hx⟩
    · exact hp
    · exact hp.shift' hx
  have f1 : b'.insts = b.insts := by rcases hb' with rfl | ⟨x, rfl, _⟩ <;> rfl
  have f2 : b'.subShift = b.subShift := by rcases hb' with rfl | ⟨x, rfl, _⟩ <;> rfl
  have f3 : b'.reads = b.reads := by rcases hb' with rfl | ⟨x, rfl, _⟩ <;> rfl
  have f4 : b'.written = b.written := by rcases hb' with rfl | ⟨x, rfl, _⟩ <;> rfl
  have f5 : b'.pending = b.pending := by rcases hb' with rfl | ⟨x, rfl, _⟩ <;> rfl
  have f6 : b'.noReturn = b.noReturn := by rcases hb' with rfl | ⟨x, rfl, _⟩ <;> rfl
  have f7 : b'.reverse = b.reverse := by rcases hb' with rfl | ⟨x, rfl, _⟩ <;> rfl
  have hfa : FootAll (ValidG G sh a ps) a b' new :=
    (FootAll.congr (V := ValidG G sh a ps) ⟨h.foot, h.bad, h.frame, h.mono, h.keys⟩ rfl rfl rfl f2 f3 f4)
  refine ⟨by rw [f1]; exact h.insts, ⟨by rw [f5]; exact h.wf.pend, by rw [f4]; exact h.wf.writ,
    by rw [f7]; exact h.wf.rev, by rw [f5, f7]; exact h.wf.revOk⟩, ⟨by rw [f2]; exact h.step.1, ?_⟩,
    hfa.1, hfa.2.1, hfa.2.2.1, hfa.2.2.2.1, hfa.2.2.2.2⟩
  intro M0 σE σS hrel hG
  obtain ⟨hs, hb⟩ := h.step.2 M0 σE σS hrel hG
  refine ⟨hs.mono ?_, hb⟩
  rintro x y ⟨M0', hr', hk'⟩
  have := hoff hr'.nr
  subst this
  refine ⟨M0', ⟨hr'.tr, hr'.env, hr'.ptr, by rw [f6]; exact hr'.nr, ?_⟩, by rw [f2]; exact hk'⟩
  exact ⟨by rw [f5]; exact hr'.inv.pend, hr'.inv.writ.of_written_eq f4, hpk M0' hr'.inv.pk⟩

/-- The static invariants of the fresh child with an analysis node. -/
theorem invA_fresh (sh cond : Int) (A : OptAnalysis w) : InvA (freshChildA sh cond A : Rebuild w) := by
  have hch : Child (freshChildA sh cond A : Rebuild w) := (child_new _ _ _ _).reverseSubBlocks
  obtain ⟨_, _, _, _, _, f6, f7, _⟩ :=
    reverseSubBlocks_fields (Rebuild.new sh (some cond) .parent (some A) : Rebuild w)
  refine ⟨hch.wf, hch.canon, ?_, ?_⟩
  · intro _ v e hv
    have : (freshChildA sh cond A : Rebuild w).written = [] := by unfold freshChildA; rw [f7]; rfl
    rw [this] at hv; simp [mGet] at hv
  · have : (freshChildA sh cond A : Rebuild w).reads = [] := by unfold freshChildA; rw [f6]; rfl
    rw [this]
    exact List.Pairwise.nil

/-- The invariants after one instruction (from the structural passes). -/
theorem InvA.instr {ps : List (Rebuild w)} {s s' : Rebuild w} (h : InvA s) (i : Instr w) {os os' : Orders}
    (hr : (rebuildInstr ps s i).run os = .ok (s', os')) (hci : CanonL [i]) : InvA s' := by
  have c := rebuildInstr_cstep_all i hr h.wf h.canon hci
  exact ⟨c.wf, c.canon, (rebuildInstr_wk_all i hr h.wf h.canon hci).known h.known,
    rebuildInstr_sasc_all i hr h.wf h.canon hci h.reads⟩

/-- `entry_anal` without its unused pointer hypothesis. -/
theorem entry_anal' {s : Rebuild w} {ps : List (Rebuild w)} (hcs : CanonSt s) (A : OptAnalysis w) {cS : Int}
    {M0p : Mem w} {σEp σSp σk : State w} (hrelP : RelAt s.shift s ps M0p σEp σSp)
    (hag : ∀ v, canAskParentFor (freshChildA s.shift (cS + s.shift) A) v = true →
      σk.rd (v - s.shift) = σSp.rd (v - s.shift))
    (hne : σk.rd cS ≠ 0#w) :
    PK (freshChildA s.shift (cS + s.shift) A) (s :: ps) (memE (σk.mov (-s.shift))) := by
  have hmem : ∀ v, canAskParentFor (freshChildA s.shift (cS + s.shift) A) v = true →
      memE (σk.mov (-s.shift)) v = memS σEp σSp v := by
    intro v hv
    have h1 : memE (σk.mov (-s.shift)) v = σk.rd (v - s.shift) := by
      show σk.tape.get (σk.ptr + -s.shift + v) = σk.tape.get (σk.ptr + (v - s.shift))
      congr 1; omega
    have h2 : memS σEp σSp v = σSp.rd (v - s.shift) := by
      show σSp.tape.get (σEp.ptr + v) = σSp.tape.get (σSp.ptr + (v - s.shift))
      rw [hrelP.ptr]; congr 1; omega
    rw [h1, h2]; exact hag v hv
  have hpar : (freshChildA s.shift (cS + s.shift) A : Rebuild w).parent = .parent := by
    unfold freshChildA; rw [(reverseSubBlocks_fields _).1]; rfl
  have hcondf : (freshChildA s.shift (cS + s.shift) A : Rebuild w).cond = some (cS + s.shift) := by
    unfold freshChildA; rw [(reverseSubBlocks_fields _).2.2.1]; rfl
  refine ⟨?_, ?_, ?_⟩
  · intro v c hc
    unfold getParentConstant at hc
    split at hc
    · rename_i hask
      rw [hpar] at hc
      simp only at hc
      rw [hmem v hask]; exact getConstant_sound hrelP.inv hc
    · cases hc
  · intro v hv
    unfold nonZeroParent at hv
    split at hv
    · rename_i hh
      simp only [Bool.and_eq_true, Bool.not_eq_true', beq_iff_eq] at hh
      rw [hcondf] at hh
      have : v = cS + s.shift := by have := hh.2; cases this; rfl
      rw [this]
      show σk.tape.get (σk.ptr + -s.shift + (cS + s.shift)) ≠ 0#w
      have e : σk.ptr + -s.shift + (cS + s.shift) = σk.ptr + cS := by omega
      rw [e]; exact hne
    · split at hv
      · rename_i hask
        rw [hpar] at hv
        simp only at hv
        rw [hmem v hask]; exact isNonZero_sound hrelP.inv hv
      · cases hv
  · intro a b ha hb hc
    unfold compareParent at hc
    split at hc
    · rename_i hab
      have : a = b := by simpa using hab
      rw [this]
    · split at hc
      · rename_i hall
        rw [hpar] at hc
        simp only at hc
        have hcmp := compare_sound hrelP.inv hcs ha hb hc
        have ea : ev a (memE (σk.mov (-s.shift))) = ev a (memS σEp σSp) := by
          apply ev_congr
          intro v hv
          simp only [List.all_eq_true, List.mem_append] at hall
          exact hmem v (hall v (Or.inl hv))
        have eb : ev b (memE (σk.mov (-s.shift))) = ev b (memS σEp σSp) := by
          apply ev_congr
          intro v hv
          simp only [List.all_eq_true, List.mem_append] at hall
          exact hmem v (hall v (Or.inr hv))
        rw [ea, eb]; exact hcmp
      · simp [pure, Except.pure] at hc

/-- A head with non-zero condition of a loop that runs at most once is the entry state. -/
theorem head_amo_zero {G : State w → Prop} {c sh : Int} {body : List (Instr w)} {A : OptAnalysis w}
    (hB : BlockIn G true c sh body A) (hamo : A.loopAnal.atMostOnce = true) {σ σk : State w} (hG : G σ)
    {k : Nat} (hh : Head c sh body σ k σk) (hne : σk.rd c ≠ 0#w) : σk = σ := by
  cases k with
  | zero => exact head_zero_inv hh
  | succ j =>
    exfalso
    obtain ⟨hnz, σ1, hex, hh1⟩ := head_uncons hh
    have hz := hB.amo hamo rfl σ hG hnz σ1 hex
    cases j with
    | zero =>
      have := head_zero_inv hh1
      rw [this] at hne
      exact hne hz
    | succ j' =>
      obtain ⟨hnz', _⟩ := head_uncons hh1
      exact hnz' hz

/-- **The entry relation of the child of a block**, at every head that satisfies the child's guard. -/
theorem entry_headV {G : State w → Prop} {s : Rebuild w} {ps : List (Rebuild w)} (hcs : CanonSt s)
    {isLoop : Bool} {c shS : Int} {body : List (Instr w)} {A : OptAnalysis w}
    (hB : BlockIn G isLoop c shS body A) {σE σk : State w} (hm : SameMem s.shift σk σE)
    (hgc : HeadV G s ps isLoop c shS body σk) :
    ∃ M0, RelAt s.shift (freshChildA s.shift (c + s.shift) A) (s :: ps) M0 σE σk := by
  obtain ⟨hne, M0p, σEp, σSp, hrelP, hG, hk⟩ := hgc
  obtain ⟨m1, m2, m3, m4⟩ := hm
  have hag : ∀ v, canAskParentFor (freshChildA s.shift (c + s.shift) A) v = true →
      σk.rd (v - s.shift) = σSp.rd (v - s.shift) := by
    intro v hv
    cases isLoop with
    | false =>
      simp only [Bool.false_eq_true, if_false] at hk
      rw [hk]
    | true =>
      simp only [if_true] at hk
      obtain ⟨k, hh⟩ := hk
      cases hamo : A.loopAnal.atMostOnce with
      | true => rw [head_amo_zero hB hamo hG hh hne]
      | false =>
        rw [canAsk_freshChildA, hamo] at hv
        simp only [Bool.false_or, Bool.and_eq_true, Bool.not_eq_true'] at hv
        exact (hB.clob hamo hv.2 rfl σSp hG k σk hh).2 _ hv.1
  have hpk := entry_anal' hcs A (cS := c) hrelP hag hne
  have hmem : memE (σk.mov (-s.shift)) = memE σE := by
    rw [← m4]
    funext v
    show σk.tape.get (σk.ptr + -s.shift + v) = σk.tape.get (σE.ptr + v)
    rw [m3]; congr 1; omega
  rw [hmem] at hpk
  obtain ⟨_, _, _, _, f5, _, f7, f8, _⟩ :=
    reverseSubBlocks_fields (Rebuild.new s.shift (some (c + s.shift)) .parent (some A) : Rebuild w)
  refine ⟨memE σE, m1, m2, m3, by unfold freshChildA; rw [f5]; rfl, ?_, ?_, hpk⟩
  · have : (freshChildA s.shift (c + s.shift) A : Rebuild w).pending = [] := by
      unfold freshChildA; rw [f8]; rfl
    rw [this, par_nil]; exact m4
  · intro v
    have : (freshChildA s.shift (c + s.shift) A : Rebuild w).written = [] := by
      unfold freshChildA; rw [f7]; rfl
    rw [this]; rfl

/-! ### the statements -/

/-- What the rebuild of an instruction list achieves (from the guarded states). -/
def ListResG (G : State w → Prop) (ps : List (Rebuild w)) (s s' : Rebuild w) (done : Bool)
    (l : List (Instr w)) : Prop :=
  s'.cond = s.cond ∧
  ∃ shE new, StepAll G s.shift shE ps s s' l new ∧ (s'.noReturn = false → shE = s'.shift ∧ done = true)

/-- The statement for an instruction list. -/
def ListStmtG (l : List (Instr w)) : Prop :=
  ∀ (G : State w → Prop) (ps : List (Rebuild w)) (s : Rebuild w) (os os' : Orders) (s' : Rebuild w)
    (done : Bool),
    (rebuildInsts ps s l).run os = .ok ((s', done), os') → InvA s → CanonL l → s.noReturn = false →
    ShapeL l (subsOf s) → AnalInL G l (subsOf s) → StableAsk s l → PVClean s ps → ListResG G ps s s' done l

theorem blockParts_blockInstr (isLoop : Bool) (c shS : Int) (body : List (Instr w)) (oS : Bool) :
    C01Dse.blockParts (blockInstr isLoop c shS body oS) = some (c, shS, body) := by
  cases isLoop <;> simp [blockInstr, C01Dse.blockParts]

theorem shapeI_blockInstr {isLoop : Bool} {c shS : Int} {body : List (Instr w)} {oS : Bool}
    {A : OptAnalysis w} (h : ShapeI (blockInstr isLoop c shS body oS) A) : ShapeL body A.subBlocks := by
  cases isLoop with
  | true =>
    have h' : ShapeI (.loop c shS body oS) A := by simpa [blockInstr] using h
    exact (shapeI_loop h').2.2.2
  | false =>
    have h' : ShapeI (.ifnz c shS body) A := by simpa [blockInstr] using h
    exact (shapeI_ifnz h').2.2

/-! ### the `Loop` / `If` arm -/

theorem blockArm_ok_g (hw : 0 < w) {G : State w → Prop} {ps : List (Rebuild w)} {s : Rebuild w}
    {c shS : Int} {body : List (Instr w)} {isLoop oS : Bool} (IH : ListStmtG body) {os os' : Orders}
    {s' : Rebuild w}
    (hr : (do
      let cond := c + s.shift
      let (s, subAnal) := popSubAnal s
      let sub : Rebuild w := reverseSubBlocks (Rebuild.new s.shift (some cond) .parent subAnal)
      let (sub, completed) ← rebuildInsts (s :: ps) sub body
      let sub := if completed then { sub with shift := sub.shift + shS } else sub
      finishLoop s ps sub cond isLoop : M (Rebuild w)).run os = .ok (s', os'))
    (hinv : InvA s) (hcb : CanonL body) {A : OptAnalysis w} {subs' : List (OptAnalysis w)}
    (hsubs : subsOf s = A :: subs') (hshape : ShapeI (blockInstr isLoop c shS body oS) A)
    (hB : BlockIn G isLoop c shS body A) (hAn : AnalInL (HeadG G isLoop c shS body) body A.subBlocks)
    (hst : StableAsk s [blockInstr isLoop c shS body oS]) :
    s'.cond = s.cond ∧ subsOf s' = subs' ∧
    ∃ shE new, StepAll G s.shift shE ps s s' [blockInstr isLoop c shS body oS] new ∧
      (s'.noReturn = false → shE = s'.shift) := by
  -- the state after the pop
  obtain ⟨hpop2, hpop1⟩ := popSubAnal_cons hsubs
  obtain ⟨p1, p2, p3, p4, p5, p6, p7, p8, p9, p10, p11⟩ := popSubAnal_same s
  have hinv1 : InvA (popSubAnal s).1 := ⟨popSubAnal_wf.2 hinv.wf, popSubAnal_canonSt.2 hinv.canon,
    popSubAnal_knownVars.2 hinv.known, popSubAnal_sasc.2 hinv.reads⟩
  have hst1 : StableAsk (popSubAnal s).1 [blockInstr isLoop c shS body oS] :=
    stableAsk_of_core hst (acore_popSubAnal s)
  have hrelpop : ∀ (sh : Int) (M0 : Mem w) (σE σS : State w),
      RelAt sh (popSubAnal s).1 ps M0 σE σS ↔ RelAt sh s ps M0 σE σS := fun _ _ _ _ => relAt_pop
  rcases hps : popSubAnal s with ⟨s1, sa⟩
  rw [hps] at hr hpop2 hpop1 p1 p2 p3 p4 p5 p6 p7 p8 p9 p10 p11 hinv1 hst1 hrelpop
  dsimp only at hr hpop2 hpop1 p1 p2 p3 p4 p5 p6 p7 p8 p9 p10 p11 hinv1 hst1 hrelpop
  subst hpop2
  rw [← p2] at hr
  rw [run_bind_ok] at hr
  obtain ⟨⟨subR, completed⟩, os1, h1, h2⟩ := hr
  dsimp only at h2
  have hp := blockParts_blockInstr isLoop c shS body oS
  -- the child
  have hinv0 := invA_fresh (w := w) s1.shift (c + s1.shift) A
  have hfresh : (reverseSubBlocks (Rebuild.new s1.shift (some (c + s1.shift)) .parent (some A)) : Rebuild w) =
      freshChildA s1.shift (c + s1.shift) A := rfl
  obtain ⟨hpvR, hpvSub, hstC⟩ := child_pv hshape hp s1.shift (c + s1.shift) (s1 :: ps) h1 hcb
  rw [hfresh] at h1 hstC
  have hsub0 : subsOf (freshChildA s1.shift (c + s1.shift) A : Rebuild w) = A.subBlocks :=
    subsOf_child _ _ _ _
  have hnr0 : (freshChildA s1.shift (c + s1.shift) A : Rebuild w).noReturn = false := rfl
  have hAnC : AnalInL (HeadV G s1 ps isLoop c shS body) body A.subBlocks :=
    analInL_cover body A.subBlocks _ (fun σ hσ => ⟨_, hσ.headG, hAn⟩)
  obtain ⟨hcondR, shE, newC, hallR, hoffR⟩ :=
    IH (HeadV G s1 ps isLoop c shS body) (s1 :: ps) _ os os1 subR completed h1 hinv0 hcb hnr0
      (by rw [hsub0]; exact shapeI_blockInstr hshape) (by rw [hsub0]; exact hAnC) hstC
      (pvClean_child _ _ _ _ _)
  -- the static invariants of the child
  have hcstep := rebuildInsts_cstep_all body h1 hinv0.wf hinv0.canon hcb
  have hkvR : KnownVars subR := (rebuildInsts_wk_all body h1 hinv0.wf hinv0.canon hcb).known hinv0.known
  have hrdR : OptLoop.SAsc subR.reads := rebuildInsts_sasc_all body h1 hinv0.wf hinv0.canon hcb hinv0.reads
  have hcoreR : acore subR = some (A.loopAnal.atMostOnce, A.hasShift, A.clobbered) := by
    rw [rebuildInsts_acore (ps := s1 :: ps) body h1 hinv0.wf hinv0.canon hcb]
    exact acore_child _ _ _ _
  have hflag := (stableAsk_child_of_shapeI hshape s1.shift (some (c + s1.shift)) .parent hp).2
  have haskR : AskStable subR (subR.shift + shS) := by
    rcases hflag with h | h | h
    · exact askStable_of_shiftIndep (by unfold ShiftIndep; rw [hcoreR]; exact Or.inl h) _
    · exact askStable_of_shiftIndep (by unfold ShiftIndep; rw [hcoreR]; exact Or.inr h) _
    · exact AskStable.of_eq (by rw [h]; omega)
  -- the child as `finishLoop` sees it
  have hsubEq : (if completed = true then { subR with shift := subR.shift + shS } else subR) = subR ∨
      ∃ x, (if completed = true then { subR with shift := subR.shift + shS } else subR) =
        { subR with shift := x } ∧ AskStable subR x := by
    split
    · exact Or.inr ⟨_, rfl, haskR⟩
    · exact Or.inl rfl
  have hshC : ∃ shC : Int, shC = (if completed = true then { subR with shift := subR.shift + shS } else subR).shift
      - shS := ⟨_, rfl⟩
  obtain ⟨shC, hshC'⟩ := hshC
  have hall : StepAll (HeadV G s1 ps isLoop c shS body) s1.shift shC (s1 :: ps)
      (freshChildA s1.shift (c + s1.shift) A)
      (if completed = true then { subR with shift := subR.shift + shS } else subR) body newC := by
    refine hallR.retarget_g hsubEq ?_
    intro hnr
    obtain ⟨e1, e2⟩ := hoffR hnr
    rw [hshC', e2, e1]
    show subR.shift + shS - shS = subR.shift
    omega
  have hinstsC : (if completed = true then { subR with shift := subR.shift + shS } else subR).insts = newC := by
    rw [hall.insts]; rfl
  rw [← hinstsC] at hall
  have hfieldsR : ∀ (P : Rebuild w → Prop), P subR → (∀ x, P { subR with shift := x }) →
      P (if completed = true then { subR with shift := subR.shift + shS } else subR) := by
    intro P h1' h2'
    split
    · exact h2' _
    · exact h1'
  -- the read footprint of the child
  obtain ⟨newF, hiF, hfF, _⟩ := rebuildInsts_footNB h1 hinv0.wf hinv0.canon hcb
  have hiF' : subR.insts = newF := by rw [hiF]; rfl
  have hfoot : FootStepV (fun σ => ¬ Bad
        (if completed = true then { subR with shift := subR.shift + shS } else subR).insts σ)
      (freshChildA s1.shift (c + s1.shift) A)
      (if completed = true then { subR with shift := subR.shift + shS } else subR)
      (if completed = true then { subR with shift := subR.shift + shS } else subR).insts := by
    refine hfieldsR (fun r => FootStepV (fun σ => ¬ Bad r.insts σ) (freshChildA s1.shift (c + s1.shift) A) r
      r.insts) ?_ ?_
    · rw [hiF']; exact hfF
    · intro x
      show FootStepV (fun σ => ¬ Bad subR.insts σ) _ _ subR.insts
      rw [hiF']
      exact hfF.congr_right rfl rfl rfl
  -- what the parent may ask when the child's shift is installed
  have hsf : (if completed = true then { subR with shift := subR.shift + shS } else subR).subShift = false →
      AskStable s1 (if completed = true then { subR with shift := subR.shift + shS } else subR).shift := by
    intro _
    obtain ⟨a1, a2⟩ := askStable_block (s := s1) (s1 := s1) (ps := ps) hst1 hp h1 rfl hinv0.wf hinv0.canon hcb
    split
    · exact a2
    · exact a1
  obtain ⟨w1, w2, w3, shE', new, hEs, hi, hstep, hfootA⟩ :=
    finishLoop_ok_g (G := G) (Gc := HeadV G s1 ps isLoop c shS body) (cS := c) (shP := s1.shift) (shC := shC)
      (shS := shS) (bodyS := body) (oS := oS) hw h2 hinv1.wf hinv1.canon hsf rfl
      (by rw [hshC']; omega) hall rfl rfl rfl
      (fun σE σS hm _ hgc => entry_headV hinv1.canon hB hm hgc)
      (fun M0 σE σS hrel hG k σk hh hk0 hne => ⟨hne, M0, σE, σS, hrel, hG, by
        cases isLoop with
        | true => exact ⟨k, hh⟩
        | false =>
          have := hk0 rfl
          subst this
          exact head_zero_inv hh⟩)
      (hfieldsR CanonSt hcstep.canon (fun _ => hcstep.canon))
      (hfieldsR KnownVars hkvR (fun _ => hkvR))
      (hfieldsR (fun r => OptLoop.SAsc r.reads) hrdR (fun _ => hrdR))
      hfoot hpvSub
      (hfieldsR (fun r => r.cond = some (c + s1.shift)) (hcondR.trans rfl) (fun _ => hcondR.trans rfl))
  -- back from the popped state to `s`
  have hV : ValidG G s1.shift s1 ps = ValidG G s.shift s ps := by
    funext σ
    apply propext
    unfold ValidG
    constructor
    · rintro ⟨M0, σS, hr', hg⟩
      exact ⟨M0, σS, by rw [← p2]; exact (hrelpop _ _ _ _).1 hr', hg⟩
    · rintro ⟨M0, σS, hr', hg⟩
      exact ⟨M0, σS, (hrelpop _ _ _ _).2 (by rw [p2]; exact hr'), hg⟩
  have hfootS : FootAll (ValidG G s.shift s ps) s s' new := by
    rw [← hV]
    exact hfootA.congr p4.symm p6.symm p7.symm rfl rfl rfl
  refine ⟨w3.trans p3, (subsOf_congr w2).trans hpop1, shE', new,
    ⟨by rw [hi, p10], w1, ⟨fun h => by rw [← p4]; exact hstep.1 h, ?_⟩, hfootS.1, hfootS.2.1, hfootS.2.2.1,
      hfootS.2.2.2.1, hfootS.2.2.2.2⟩, ?_⟩
  · intro M0 σE σS hrel hG
    exact hstep.2 M0 σE σS ((hrelpop _ _ _ _).2 (by rw [p2]; exact hrel)) hG
  · intro hn
    rw [hEs hn]; omega

/-! ### the induction -/

/-- What the rebuild of one instruction achieves. -/
def InstrResG (G : State w → Prop) (ps : List (Rebuild w)) (s s' : Rebuild w) (i : Instr w) : Prop :=
  s'.cond = s.cond ∧ subsOf s' = (if C01Dse.isBlock i then (subsOf s).tail else subsOf s) ∧
  ∃ shE new, StepAll G s.shift shE ps s s' [i] new ∧ (s'.noReturn = false → shE = s'.shift)

/-- One instruction, given the statement for the lists inside it. -/
theorem rebuildInstr_of_lists_g (hw : 0 < w) (n : Nat)
    (IH : ∀ l : List (Instr w), sizeL l ≤ n → ListStmtG l) (i : Instr w) (hi : sizeI i ≤ n + 1)
    {G : State w → Prop} {ps : List (Rebuild w)} {s : Rebuild w} {os os' : Orders} {s' : Rebuild w}
    (hr : (rebuildInstr ps s i).run os = .ok (s', os')) (hinv : InvA s) (hci : CanonL [i])
    {rest : List (Instr w)} (hsh : ShapeL (i :: rest) (subsOf s)) (han : AnalInL G (i :: rest) (subsOf s))
    (hst : StableAsk s [i]) : InstrResG G ps s s' i := by
  cases i with
  | output src =>
    obtain ⟨_, hdr, new, hstep⟩ := stepAll_straight (G := G) hinv.wf (i := .output src) rfl hr
    exact ⟨hdr.2.2.2.1, subsOf_congr hdr.2.1, s'.shift, new, hstep, fun _ => rfl⟩
  | input dst =>
    obtain ⟨_, hdr, new, hstep⟩ := stepAll_straight (G := G) hinv.wf (i := .input dst) rfl hr
    exact ⟨hdr.2.2.2.1, subsOf_congr hdr.2.1, s'.shift, new, hstep, fun _ => rfl⟩
  | «calc» calcs =>
    obtain ⟨_, hdr, new, hstep⟩ := stepAll_straight (G := G) hinv.wf (i := .calc calcs) rfl hr
    exact ⟨hdr.2.2.2.1, subsOf_congr hdr.2.1, s'.shift, new, hstep, fun _ => rfl⟩
  | loop c sh body o =>
    have hsz : sizeL body ≤ n := by rw [sizeI] at hi; omega
    have hcb : CanonL body := canonL_loop.1 hci
    rw [shapeL_cons_block rfl] at hsh
    obtain ⟨A, subs', hsubs, hshape, _⟩ := hsh
    rw [hsubs, analInL_cons_block G rfl, analInI_loop] at han
    rw [rebuildInstr] at hr
    have hbi : blockInstr true c sh body o = Instr.loop c sh body o := by simp [blockInstr]
    have := blockArm_ok_g (G := G) (isLoop := true) (oS := o) hw (IH body hsz) hr hinv hcb hsubs
      (by rw [hbi]; exact hshape) han.1.1 han.1.2 (by rw [hbi]; exact hst)
    rw [hbi] at this
    refine ⟨this.1, ?_, this.2.2⟩
    rw [this.2.1, hsubs]; rfl
  | ifnz c sh body =>
    have hsz : sizeL body ≤ n := by rw [sizeI] at hi; omega
    have hcb : CanonL body := canonL_ifnz.1 hci
    rw [shapeL_cons_block rfl] at hsh
    obtain ⟨A, subs', hsubs, hshape, _⟩ := hsh
    rw [hsubs, analInL_cons_block G rfl, analInI_ifnz] at han
    rw [rebuildInstr] at hr
    have hbi : blockInstr false c sh body false = Instr.ifnz c sh body := by simp [blockInstr]
    have := blockArm_ok_g (G := G) (isLoop := false) (oS := false) hw (IH body hsz) hr hinv hcb hsubs
      (by rw [hbi]; exact hshape) han.1.1 han.1.2 (by rw [hbi]; exact hst)
    rw [hbi] at this
    refine ⟨this.1, ?_, this.2.2⟩
    rw [this.2.1, hsubs]; rfl

theorem stableAsk_head {s : Rebuild w} {i : Instr w} {rest : List (Instr w)} (h : StableAsk s (i :: rest)) :
    StableAsk s [i] ∧ (ShiftIndep s ∨ C01Dse.noShiftI i = true) := by
  rcases h with h | h
  · exact ⟨Or.inl h, Or.inl h⟩
  · rw [C01Dse.noShiftL] at h
    simp only [Bool.and_eq_true] at h
    refine ⟨Or.inr ?_, Or.inr h.1⟩
    rw [C01Dse.noShiftL, h.1]; rfl

theorem rebuildInsts_size_g (hw : 0 < w) (n : Nat) : ∀ l : List (Instr w), sizeL l ≤ n → ListStmtG l := by
  induction n with
  | zero =>
    intro l hl
    cases l with
    | nil =>
      intro G ps s os os' s' done hr hinv _ _ _ _ _ _
      rw [rebuildInsts, run_pure] at hr
      cases hr
      exact ⟨rfl, s.shift, [], StepAll.refl _ _ ps hinv.wf, fun _ => ⟨rfl, rfl⟩⟩
    | cons i rest =>
      rw [sizeL] at hl
      have := sizeI_pos i
      omega
  | succ n ih =>
    intro l
    induction l with
    | nil =>
      intro _ G ps s os os' s' done hr hinv _ _ _ _ _ _
      rw [rebuildInsts, run_pure] at hr
      cases hr
      exact ⟨rfl, s.shift, [], StepAll.refl _ _ ps hinv.wf, fun _ => ⟨rfl, rfl⟩⟩
    | cons i rest ihl =>
      intro hl G ps s os os' s' done hr hinv hcl hnr hsh han hst hpv
      rw [sizeL] at hl
      have hpos := sizeI_pos i
      rw [canonL_cons] at hcl
      have hci : CanonL [i] := canonL_single.2 hcl.1
      rw [rebuildInsts, hnr] at hr
      simp only [Bool.false_eq_true, if_false] at hr
      rw [run_bind_ok] at hr
      obtain ⟨s1, os1, h1, h2⟩ := hr
      obtain ⟨hst1, hstI⟩ := stableAsk_head hst
      obtain ⟨hc1, hsubs1, shE1, new1, hstep1, hoff1⟩ :=
        rebuildInstr_of_lists_g hw n ih i (by omega) (G := G) h1 hinv hci hsh han hst1
      have hinv1 : InvA s1 := hinv.instr i h1 hci
      cases hnr1 : s1.noReturn with
      | true =>
        -- the rest is never reached
        have hs' : s' = s1 := by
          cases rest with
          | nil =>
            rw [rebuildInsts, run_pure] at h2
            cases h2; rfl
          | cons j rest' =>
            rw [rebuildInsts, hnr1] at h2
            simp only [if_true] at h2
            rw [run_pure] at h2
            cases h2; rfl
        subst hs'
        refine ⟨hc1, shE1, new1, ?_, fun h => by rw [hnr1] at h; cases h⟩
        have := hstep1.extend_nofin hnr1 rest shE1
        simpa using this
      | false =>
        obtain ⟨e1⟩ := hoff1 hnr1
        -- the hypotheses for the rest
        have hb := rebuildInstr_b_all (ps := ps) i h1 hinv.wf hinv.canon hci
        have hpv1 : PVClean s1 ps := hb.pv hstI hpv
        have hstR : StableAsk s1 rest := stableAsk_tail hst hb.core
        have hshR : ShapeL rest (subsOf s1) ∧ AnalInL (AfterG G [i]) rest (subsOf s1) := by
          rw [hsubs1]
          cases hbl : C01Dse.isBlock i with
          | false =>
            simp only [Bool.false_eq_true, if_false]
            exact ⟨(shapeL_cons_nonblock hbl).1 hsh, (analInL_cons_nonblock G hbl rest _).1 han⟩
          | true =>
            simp only [if_true]
            rw [shapeL_cons_block hbl] at hsh
            obtain ⟨A, subs', hsubs, _, hrest⟩ := hsh
            rw [hsubs, analInL_cons_block G hbl] at han
            rw [hsubs]
            exact ⟨hrest, han.2⟩
        obtain ⟨hc2, shE2, new2, hstep2, hoff2⟩ :=
          ihl (by omega) (AfterG G [i]) ps s1 os1 os' s' done h2 hinv1 hcl.2 hnr1 hshR.1 hshR.2 hstR hpv1
        refine ⟨hc2.trans hc1, shE2, new1 ++ new2, ?_, hoff2⟩
        have := hstep1.trans hstep2 (fun _ _ σS σS' _ hG hex => ⟨σS, hG, hex⟩)
        simpa using this

/-- **Every instruction list is simulated by the code the rebuild emits for it**, for the runs that start in
guarded states for which the previous analysis is sound. -/
theorem rebuildInsts_all_g (hw : 0 < w) (l : List (Instr w)) : ListStmtG l :=
  rebuildInsts_size_g hw (sizeL l) l (Nat.le_refl _)

end OptProof
end Hpbf
