/-
Rebuild-round proofs, stage 4: `inline` (non-moving child) for states whose analysis may make `canAskParentFor`
depend on `shift`: the hypothesis `ShiftFree s` of `inline_stay_ok` is replaced by `AskStable s sub.shift` (setting the
shift to the child's shift does not change what may be asked).  The proof is the one of `inline_stay_ok`.
-/
import Hpbf.Proofs.OptRbInline2

namespace Hpbf
namespace OptProof
open Opt OptSem Ir

variable {w : Nat}

/-- Setting `shift := x` does not change what the state may ask its parent. -/
def AskStable (s : Rebuild w) (x : Int) : Prop :=
  ∀ v, canAskParentFor { s with shift := x } v = canAskParentFor s v

theorem AskStable.of_shiftFree {s : Rebuild w} (h : ShiftFree s) (x : Int) : AskStable s x :=
  fun v => canAsk_shift h x v

theorem AskStable.of_eq {s : Rebuild w} {x : Int} (h : x = s.shift) : AskStable s x := by
  intro v; subst h; rfl

theorem AskStable.of_hdr {s s' : Rebuild w} {x : Int} (h : AskStable s x) (hh : SameHdr s s') :
    AskStable s' x := by
  intro v
  have := h v
  unfold canAskParentFor at this ⊢
  obtain ⟨_, h2, h3, _, h5⟩ := hh
  simp only at this ⊢
  rw [h2, h5, h3]
  exact this

theorem PK.shift' {s : Rebuild w} {ps : List (Rebuild w)} {M0 : Mem w} {x : Int} (h : PK s ps M0)
    (hca : AskStable s x) : PK { s with shift := x } ps M0 := by
  refine ⟨?_, ?_, ?_⟩
  · intro v c hc
    apply h.const v c
    unfold getParentConstant at hc ⊢
    rw [hca] at hc; exact hc
  · intro v hv
    apply h.nz v
    unfold nonZeroParent at hv ⊢
    rw [hca] at hv; exact hv
  · intro a b ha hb hc
    apply h.cmp a b ha hb
    unfold compareParent at hc ⊢
    have : (fun y => canAskParentFor { s with shift := x } y) = (fun y => canAskParentFor s y) := by
      funext y; exact hca y
    rw [this] at hc; exact hc

theorem inline_stay_ok_g {shP shC shS cS : Int} {bodyS : List (Instr w)}
    {s : Rebuild w} {ps : List (Rebuild w)} {sub : Rebuild w} {pc : List (Rebuild w)} {sub0 : Rebuild w}
    {os os' : Orders} {s' : Rebuild w} {G Gc : State w → Prop}
    (hr : (Opt.inline s ps sub).run os = .ok (s', os'))
    (hwf : Wf s) (hpre : ChildPre Gc shP shC pc sub0 sub cS bodyS) (hsf : AskStable s sub.shift)
    (hkv : ∀ v e, mGet sub.written v = some (.known e) → ∀ x ∈ Expr.variables e, x ∈ sub.reads)
    (hne : ∀ M0 σE σS, RelAt shP s ps M0 σE σS → G σS → σS.rd cS ≠ 0#w)
    (hGc : ∀ M0 σE σS, RelAt shP s ps M0 σE σS → G σS → Gc σS) :
    Wf s' ∧ s'.subShift = s.subShift ∧ s'.parent = s.parent ∧ s'.anal = s.anal ∧ s'.cond = s.cond ∧
    (sub.noReturn = true → s'.noReturn = true) ∧ (sub.noReturn = false → s'.shift = sub.shift) ∧
    ∃ new, s'.insts = s.insts ++ new ∧
      ∀ M0 σE σS, RelAt shP s ps M0 σE σS → G σS →
        Sim (fun a b => StepQ (shC + shS) ps s' M0 σE (a.mov shS) b) bodyS new σS σE ∧ ¬ Bad new σE := by
  rw [inline_eq, if_neg (by rw [hpre.noShift]; simp), run_bind_ok] at hr
  obtain ⟨s1, os1, h1, h2⟩ := hr
  obtain ⟨s2, os2, s4, h3, h4, rfl⟩ := inlineRest_run h2
  obtain ⟨c1, r1, n1⟩ := emitReadAll_pending_none ps _ hwf h1
  have hcp : (clobberPhase s1 ps sub (OptLoop.unknown true) []).run os1 = .ok (s2, os2) := by
    rw [clobberPhase_eq]
    have : (!(OptLoop.unknown true : OptLoop w).noEffect) = true := rfl
    rw [if_pos this, ← ifold_eq]; exact h3
  obtain ⟨c2, r2, d2, k2⟩ := clobberPhase_res ps sub (OptLoop.unknown true) [] r1.wf hcp
  have hdead : ∀ vk ∈ sub.written, Dead s2 vk.1 := fun vk hvk => d2 rfl vk hvk (by simp)
  have hreads2 : ∀ v ∈ sub.reads, mGet s2.pending v = none := by
    intro v hv
    have hm : v ∈ readsSorted sub s := by
      unfold readsSorted; rw [(Expr.stableSort_perm _ _).mem_iff]; exact hv
    cases hp : mGet s2.pending v with
    | none => rfl
    | some e =>
      have := n1 v hm
      rw [r2.sub v e hp] at this; cases this
  have hreads1 : ∀ v ∈ sub.reads, mGet s1.pending v = none := fun v hv =>
    n1 v (by unfold readsSorted; rw [(Expr.stableSort_perm _ _).mem_iff]; exact hv)
  -- the recorded state
  have hwc := writtenCalcs_eq ({ s2 with insts := s2.insts ++ sub.insts } : Rebuild w) ps (knownsOf sub)
  obtain ⟨hsame3, _, hwr3⟩ := hwc
  have hwf3 : Wf (writtenCalcs ({ s2 with insts := s2.insts ++ sub.insts } : Rebuild w) ps (knownsOf sub)) := by
    refine ⟨by rw [hsame3.2.2.2.2.2.2.2.1]; exact r2.wf.pend, ?_, by rw [hsame3.2.2.2.2.2.2.2.2.1]; exact r2.wf.rev,
      by rw [hsame3.2.2.2.2.2.2.2.1, hsame3.2.2.2.2.2.2.2.2.1]; exact r2.wf.revOk⟩
    rw [hwr3]; exact sorted_foldl_mSet _ r2.wf.writ
  have hinsts3 : (writtenCalcs ({ s2 with insts := s2.insts ++ sub.insts } : Rebuild w) ps (knownsOf sub)).insts
      = s.insts ++ (c1 ++ c2).map Instr.calc ++ sub.insts := by
    rw [hsame3.2.2.2.2.2.2.2.2.2.1]
    show s2.insts ++ sub.insts = _
    rw [r2.insts, r1.insts]; simp
  have hhdr3 : SameHdr s (writtenCalcs ({ s2 with insts := s2.insts ++ sub.insts } : Rebuild w) ps (knownsOf sub)) :=
    (r1.hdr.trans r2.hdr).trans hsame3.hdr
  -- the semantic core, up to the recorded state
  have hcore : ∀ M0 σE σS, RelAt shP s ps M0 σE σS → G σS →
      Sim (fun a b => ∃ y M0c, RelAt shC sub [] M0c y a ∧ y.ptr = b.ptr ∧ a.trace = b.trace ∧ a.env = b.env ∧
          b.ptr = σE.ptr ∧
          MInv (writtenCalcs ({ s2 with insts := s2.insts ++ sub.insts } : Rebuild w) ps (knownsOf sub)) ps M0
            (memE b) (memE y))
        bodyS ((c1 ++ c2).map Instr.calc ++ sub.insts) σS σE ∧
      ¬ Bad ((c1 ++ c2).map Instr.calc ++ sub.insts) σE := by
    intro M0 σE σS hrel hG
    obtain ⟨m1, m2, m3⟩ := foldl_doCalc_meta (c1 ++ c2) σE
    have hnd12 : ∀ g ∈ c1 ++ c2, (g.map (·.1)).Nodup := by
      intro g hg
      rcases List.mem_append.1 hg with h | h
      · exact r1.nodup g h
      · exact r2.nodup g h
    have hX : MInvX (fun v => False ∨ ((OptLoop.unknown true : OptLoop w).noEffect = false ∧
          DropL (OptLoop.unknown true) [] sub.written s1 v)) s2 ps M0
        (memE ((c1 ++ c2).foldl doCalc σE)) (memS ((c1 ++ c2).foldl doCalc σE) σS) := by
      rw [memE_foldl_doCalc σE _ hnd12, memS_foldl_doCalc, seq_append]
      exact k2 _ M0 _ _ ((r1.minv hrel.inv).toX _)
    have hDxW : ∀ v, (False ∨ ((OptLoop.unknown true : OptLoop w).noEffect = false ∧
        DropL (OptLoop.unknown true) [] sub.written s1 v)) → ∃ k, (v, k) ∈ sub.written ∧ k.isMaybe = false := by
      rintro v (h | ⟨_, vk, hvk, e1, _, e3, _⟩)
      · exact absurd h id
      · refine ⟨vk.2, by rw [← e1]; exact hvk, ?_⟩
        cases hm : vk.2.isMaybe with
        | false => rfl
        | true => rw [hm] at e3; simp at e3
    have hDxR : ∀ v ∈ sub.reads, mGet s2.pending v = none ∧ ¬ (False ∨ ((OptLoop.unknown true : OptLoop w).noEffect = false ∧
        DropL (OptLoop.unknown true) [] sub.written s1 v)) := by
      intro v hv
      refine ⟨hreads2 v hv, ?_⟩
      rintro (h | ⟨_, vk, _, e1, _, _, e4⟩)
      · exact h
      · exact e4 (hreads1 v hv)
    have hSE : ∀ v, mGet s2.pending v = none → ¬ (False ∨ ((OptLoop.unknown true : OptLoop w).noEffect = false ∧
        DropL (OptLoop.unknown true) [] sub.written s1 v)) →
        memS ((c1 ++ c2).foldl doCalc σE) σS v = memE ((c1 ++ c2).foldl doCalc σE) v := by
      intro v hp hd
      rw [hX.pendX v hd]; exact par_of_not_mem _ _ _ hp
    have hK : ∀ v, memS ((c1 ++ c2).foldl doCalc σE) σS v ≠ memE ((c1 ++ c2).foldl doCalc σE) v →
        v ∉ sub.reads := by
      intro v hv hr'
      obtain ⟨hp, hd⟩ := hDxR v hr'
      exact hv (hSE v hp hd)
    have honce := child_once hpre
      (fun v => memS ((c1 ++ c2).foldl doCalc σE) σS v ≠ memE ((c1 ++ c2).foldl doCalc σE) v) hK
      (by rw [m3]; exact hrel.tr) (by rw [m2]; exact hrel.env) (by rw [m1]; exact hrel.ptr)
      (fun v hv => Classical.not_not.1 hv) (hne M0 σE σS hrel hG) (hGc M0 σE σS hrel hG)
    refine ⟨Sim.calcs_right (c1 ++ c2) (honce.1.mono ?_), ?_⟩
    · rintro a b ⟨y, M0c, hr', hab, pb, hM0c, hfb⟩
      refine ⟨y, M0c, hr', hab.1, hr'.tr.trans hab.2.2.1, hr'.env.trans hab.2.1, pb.trans m1, ?_⟩
      refine inline_minv r2.wf hpre.wf hX hdead hDxW hDxR hkv hM0c hr'.inv.writ ?_ hfb _
      intro v hv
      apply hab.2.2.2 v
      rintro ⟨h1', h2'⟩
      exact hv ⟨h1', h2'⟩
    · rw [bad_calcs_iff]
      exact honce.2
  have hs1nr : s2.noReturn = s.noReturn := r2.noRet.trans r1.noRet
  unfold inlineEnd at h4
  split at h4
  · -- the child never returns
    rename_i hnr
    rw [run_pure] at h4
    cases h4
    refine ⟨⟨hwf3.pend, hwf3.writ, hwf3.rev, hwf3.revOk⟩, hhdr3.2.2.2.2, hhdr3.1, hhdr3.2.1, hhdr3.2.2.2.1,
      fun _ => rfl, fun h => absurd (hnr.symm.trans h) (by simp),
      (c1 ++ c2).map Instr.calc ++ sub.insts, ?_, ?_⟩
    · show (writtenCalcs _ ps (knownsOf sub)).insts = _
      rw [hinsts3, List.append_assoc]
    · intro M0 σE σS hrel hG
      obtain ⟨hs, hb⟩ := hcore M0 σE σS hrel hG
      refine ⟨hs.mono ?_, hb⟩
      rintro a b ⟨y, M0c, hr', _⟩
      have := hr'.nr
      rw [hnr] at this; cases this
  · rename_i hnr
    rw [run_bind_ok] at h4
    obtain ⟨l, os3, h5, h6⟩ := h4
    rw [run_bind_ok] at h6
    obtain ⟨s5, os5, h7, h8⟩ := h6
    rw [run_pure] at h8
    cases h8
    obtain ⟨hl1, hl2⟩ := takeInlineOrder_cover hpre.wf.pend h5
    obtain ⟨c3, s3', res3, hwf5, hsame5, hminv5⟩ := performAll_spec hwf3 h7
    have hhdr5 : SameHdr s s5 := hhdr3.trans (res3.hdr.trans hsame5.hdr)
    refine ⟨⟨hwf5.pend, hwf5.writ, hwf5.rev, hwf5.revOk⟩, hhdr5.2.2.2.2, hhdr5.1, hhdr5.2.1, hhdr5.2.2.2.1,
      fun h => absurd h hnr, fun _ => rfl,
      ((c1 ++ c2).map Instr.calc ++ sub.insts) ++ c3.map Instr.calc, ?_, ?_⟩
    · show s5.insts = _
      rw [hsame5.2.2.2.2.2.2.2.2.1, res3.insts, hinsts3]
      simp only [List.append_assoc]
    · intro M0 σE σS hrel hG
      obtain ⟨hs, hb⟩ := hcore M0 σE σS hrel hG
      refine ⟨?_, ?_⟩
      · have : Sim (fun a b => StepQ (shC + shS) ps
            ({ ({ s5 with shift := sub.shift } : Rebuild w) with
              subAnal := ({ s5 with shift := sub.shift } : Rebuild w).subAnal ++ sub.subAnal }) M0 σE (a.mov shS) b)
            (bodyS ++ []) (((c1 ++ c2).map Instr.calc ++ sub.insts) ++ c3.map Instr.calc) σS σE := by
          refine Sim.append hs ?_
          rintro a b ⟨y, M0c, hr', hyb, htr, henv, hbp, hm3⟩
          obtain ⟨m1, m2, m3⟩ := foldl_doCalc_meta c3 b
          refine Sim.of_atomic (atomic_calcs ([] : List (List (Int × Expr w)))) (atomic_calcs c3)
            htr.symm rfl (m3.trans htr.symm) (m2.trans henv.symm) ?_
          intro _
          refine ⟨M0, ⟨?_, ?_, ?_, ?_, ?_⟩, fun _ => ⟨rfl, m1.trans hbp⟩⟩
          · show a.trace = (c3.foldl doCalc b).trace
            rw [m3]; exact htr
          · show a.env = (c3.foldl doCalc b).env
            rw [m2]; exact henv
          · show a.ptr + shS = (c3.foldl doCalc b).ptr + (shC + shS)
            rw [m1, hr'.ptr, hyb]; omega
          · show s5.noReturn = false
            rw [hsame5.2.2.2.2.2.1, res3.noRet, hsame3.2.2.2.2.2.1]
            show s2.noReturn = false
            rw [hs1nr]; exact hrel.nr
          · have hS : memS (c3.foldl doCalc b) (a.mov shS) = assignS 0 l (memE y) := by
              have e1 : memS (c3.foldl doCalc b) (a.mov shS) = memS y a := by
                funext v
                show a.tape.get ((c3.foldl doCalc b).ptr + v) = a.tape.get (y.ptr + v)
                rw [m1, hyb]
              rw [e1, hr'.inv.pend, assignS_eq_par hl1 hl2]
            have hE : memE (c3.foldl doCalc b) = Mem.seq c3 (memE b) := memE_foldl_doCalc b c3 res3.nodup
            show MInv _ ps M0 (memE (c3.foldl doCalc b)) (memS (c3.foldl doCalc b) (a.mov shS))
            rw [hS, hE]
            have h5m := hminv5 M0 _ _ hm3
            exact ⟨h5m.pend, h5m.writ, (h5m.pk.shift' (hsf.of_hdr hhdr5)).congr ⟨rfl, rfl, rfl, rfl, rfl⟩⟩
        rw [List.append_nil] at this
        exact this
      · intro hbad
        rcases bad_append.1 hbad with h1' | ⟨σ1, _, h2'⟩
        · exact hb h1'
        · exact not_bad_of_noBlocks (noBlocks_calcs c3) _ h2'

end OptProof
end Hpbf
