/-
C02 / C13 (totality of the emission phase), part 2: the `outer_accessed` loop after a loop body never
runs out of the model's fuel and never indexes out of bounds.

Potential: `(|outer_accessed| - i) + #stale`, where a value is stale if its `last_use` is unset or below
`current_start`.  Every iteration lowers it: either `i` advances, or `range_extend(var)` is called.  If
that call pushes `var` again (it was stale) the following `swap_remove(i)` restores the length but `var`
is no longer stale (`last_use = insts.len() ≥ current_start`); otherwise `swap_remove(i)` shortens the
vector.  Hence `|outer_accessed| + |ranges| + 1` iterations suffice.

Panic sites discharged here: `emit_block:outer_accessed-loop-fuel`, `emit_block:outer_accessed-index`,
`emit_block:ranges-index` (and `range_extend:ranges-index` for the call inside the loop).
-/
import Hpbf.Proofs.C02EmitTotalExpr

namespace Hpbf
namespace C02
open BcGen C02Emit

variable {w : Nat}

def emitTotal_staleN (s : St w) : Nat := s.ranges.countP (emitTotal_stale s.currentStart)

theorem emitTotal_staleN_le (s : St w) : emitTotal_staleN s ≤ s.ranges.size := by
  unfold emitTotal_staleN
  exact Array.countP_le_size

/-- `swap_remove(i)`. -/
theorem emitTotal_swapRemove_get {a : Array Nat} {i : Nat} {last : Nat} (hi : i < a.size)
    (idx : Nat) (x : Nat) (h : ((a.setIfInBounds i last).pop)[idx]? = some x) :
    x = last ∨ a[idx]? = some x := by
  rw [Array.getElem?_pop] at h
  split at h
  · rw [Array.getElem?_setIfInBounds] at h
    split at h
    · left; exact (Option.some.inj h).symm
    · right; exact h
  · cases h

theorem emitTotal_ext_not_stale (r : RangeInfo) {to cs : Nat} (h : cs ≤ to) :
    emitTotal_stale cs (emitTotal_ext r to) = false := by
  simp [emitTotal_stale, emitTotal_ext]
  omega

theorem emitTotal_outerLoop (ps : Nat) : ∀ (fuel i : Nat) (s : St w), emitTotal_Inv s →
    (s.outerAccessed.size - i) + emitTotal_staleN s < fuel →
    ∃ s', outerLoop ps fuel i s = .ok ((), s') ∧ emitTotal_Inv s' := by
  intro fuel
  induction fuel with
  | zero => intro i s _ h; omega
  | succ fuel ih =>
    intro i s h hm
    simp only [outerLoop, get_bind]
    by_cases hi : i < s.outerAccessed.size
    · have ho : s.outerAccessed[i]? = some s.outerAccessed[i] := Array.getElem?_eq_getElem hi
      have hvar : s.outerAccessed[i] < s.ranges.size := h.oa i _ ho
      have hr : s.ranges[s.outerAccessed[i]]? = some s.ranges[s.outerAccessed[i]] :=
        Array.getElem?_eq_getElem hvar
      simp only [hi, if_true, ho, hr]
      by_cases hc : s.ranges[s.outerAccessed[i]].created < ps
      · simp only [hc, if_true]
        exact ih (i + 1) s h (by omega)
      · simp only [hc, if_false]
        rw [emitTotal_bind_of_ok (emitTotal_rangeExtend hvar), modify_bind]
        generalize hvdef : s.outerAccessed[i] = var at hvar hr hc
        -- the state after `range_extend(var)`
        generalize hoa1 : (if (decide (s.ranges[var].created < s.currentStart) &&
            emitTotal_stale s.currentStart s.ranges[var]) = true
          then s.outerAccessed.push var else s.outerAccessed) = oa1
        have hoa1sz : i < oa1.size := by
          rw [← hoa1]; split
          · simp only [Array.size_push]; omega
          · exact hi
        have hoa1el : ∀ (j : Nat) (x : Nat), oa1[j]? = some x → x < s.ranges.size := by
          intro j x hx
          rw [← hoa1] at hx
          split at hx
          · rw [Array.getElem?_push] at hx
            split at hx
            · cases hx; exact hvar
            · exact h.oa j x hx
          · exact h.oa j x hx
        have hback : oa1.back? = some oa1[oa1.size - 1] := by
          rw [Array.back?_eq_getElem?]
          exact Array.getElem?_eq_getElem (by omega)
        simp only [hback]
        apply ih
        · refine ⟨?_, ?_, h.cs⟩
          · intro p hp
            simp only [Array.size_setIfInBounds]
            exact h.vals p hp
          · intro j x hx
            simp only [Array.size_setIfInBounds]
            rcases emitTotal_swapRemove_get hoa1sz j x hx with rfl | hx'
            · exact hoa1el (oa1.size - 1) _ (Array.getElem?_eq_getElem (by omega))
            · exact hoa1el j x hx'
        · -- the potential decreases
          have hns : emitTotal_stale s.currentStart (emitTotal_ext s.ranges[var] s.insts.size) = false :=
            emitTotal_ext_not_stale _ h.cs
          have hcnt : (s.ranges.setIfInBounds var (emitTotal_ext s.ranges[var] s.insts.size)).countP
              (emitTotal_stale s.currentStart)
              = s.ranges.countP (emitTotal_stale s.currentStart)
                - (if emitTotal_stale s.currentStart s.ranges[var] then 1 else 0) := by
            rw [Array.setIfInBounds_def]
            simp only [hvar, dite_true]
            rw [Array.countP_set hvar, hns]
            simp
          have hle := Array.boole_getElem_le_countP (p := emitTotal_stale s.currentStart) hvar
          simp only [emitTotal_staleN, Array.size_pop, Array.size_setIfInBounds, hcnt] at hm ⊢
          rw [← hoa1]
          cases hst : emitTotal_stale s.currentStart s.ranges[var]
          · simp only [Bool.and_false, Bool.false_eq_true, if_false, Nat.sub_zero] at hm ⊢
            omega
          · simp only [hst, if_true] at hle
            by_cases hcr : s.ranges[var].created < s.currentStart
            · simp only [hcr, decide_true, Bool.and_self, if_true, Array.size_push]
              omega
            · simp only [hcr, decide_false, Bool.false_and, Bool.false_eq_true, if_false]
              omega
    · simp only [hi, if_false]
      exact ⟨s, (pure_ok _ _ _ _).2 ⟨rfl, rfl⟩, h⟩

/-- The call as it appears in `emit_block`. -/
theorem emitTotal_outerLoop_call (ps numOuter : Nat) {s : St w} (h : emitTotal_Inv s) :
    ∃ s', outerLoop ps (s.outerAccessed.size + s.ranges.size + 1) numOuter s = .ok ((), s') ∧
      emitTotal_Step s s' ∧ s'.insts = s.insts ∧ s'.values = s.values ∧ s'.exprs = s.exprs := by
  obtain ⟨s', h1, h2⟩ := emitTotal_outerLoop ps (s.outerAccessed.size + s.ranges.size + 1) numOuter s h (by
    have := emitTotal_staleN_le s; omega)
  obtain ⟨hc, hcs⟩ := outerLoop_core ps _ _ h1
  have e1 : s'.insts = s.insts := congrArg G.insts hc
  have e2 : s'.values = s.values := congrArg G.values hc
  have e3 : s'.exprs = s.exprs := congrArg G.exprs hc
  have e4 : s'.ranges.size = s.ranges.size := congrArg G.n hc
  exact ⟨s', h1, ⟨h2, Nat.le_of_eq e4.symm, Nat.le_of_eq (by rw [e1]), hcs⟩, e1, e2, e3⟩

end C02
end Hpbf
