/-
C02 (`allocate_temps`), part 18: the induction principle for invariants of `emit_block` that depend on the
position in the IR program and on the enclosing blocks.

`J c ps a l s`: `s` is the generator state while the block whose remaining instructions are `l` is emitted;
`a` is the state of `Analysis::analyze` of that block before `l`, `ps` the `current_start` on entry of the
block, and `c` whatever the invariant wants to remember about the enclosing blocks.  `closedI_emitInsts`: if the
rules `ClosedI` hold, then `J c ps a l s` before `emitInsts … l` gives `J c ps (analyzeInsts l a) [] s'` after it.
-/
import Hpbf.Proofs.C02AllocEmitPre
set_option linter.unusedSimpArgs false

namespace Hpbf
namespace C02
namespace AEmit

open Bc BcWf BcGen C11 C02Emit

variable {w : Nat}

/-- State after the last instruction of a loop (`so` = state after `outerLoop`). -/
def loopEnd (once : Bool) (cond : Int) (sub : Analysis) (ps : Nat) (s s1 so : St w) : St w :=
  lhExit once sub s.exprs.size
    { (if once then lhBrnz cond s1.insts.size so else lhPatch cond s1.insts.size (lhBrnz cond s1.insts.size so))
      with currentStart := ps }

/-- State after an `if` (`sb` = state after the body). -/
def ifEnd (cond shift : Int) (sub : Analysis) (ps : Nat) (s s1 sb : St w) : St w :=
  lhExit false sub s.exprs.size { lhPatch cond s1.insts.size (lhMov shift sb) with currentStart := ps }

structure ClosedI {Ctx : Type} (fuse : Bool)
    (J : Ctx → Nat → Analysis → List (Ir.Instr w) → St w → Prop) : Prop where
  out : ∀ c ps a src rest s, J c ps a (.output src :: rest) s →
    J c ps (analyzeInstr (.output src : Ir.Instr w) a) rest { s with insts := s.insts.push (.out src) }
  inp : ∀ c ps a dst rest s, J c ps a (.input dst :: rest) s →
    J c ps (analyzeInstr (.input dst : Ir.Instr w) a) rest
      { s with values := alErase s.values (.mem dst), writes := addWrite s.writes dst s.insts.size,
               insts := s.insts.push (.inp dst) }
  calcR : ∀ c ps a calcs rest s vals s1 s' u, J c ps a (.calc calcs :: rest) s →
    calcValues calcs s = .ok (vals, s1) → memWrites vals s1 = .ok (u, s') →
    J c ps (analyzeInstr (.calc calcs : Ir.Instr w) a) rest s'
  scan : ∀ c ps a cond shift once rest s, fuse = true → J c ps a (.loop cond shift [] once :: rest) s →
    J c ps (analyzeInstr (.loop cond shift [] once : Ir.Instr w) a) rest
      (lhExit once (subOf shift ([] : List (Ir.Instr w))) s.exprs.size
        { lhHead true (subOf shift ([] : List (Ir.Instr w))) s with
          insts := (lhHead true (subOf shift ([] : List (Ir.Instr w))) s).insts.push (.scan cond shift) })
  loop : ∀ c ps a cond shift body once rest s, (fuse && body.isEmpty) = false →
    J c ps a (.loop cond shift body once :: rest) s →
    ∃ c', J c' (lhPro true once (lhHead true (subOf shift body) s)).currentStart Analysis.empty body
        (lhPro true once (lhHead true (subOf shift body) s)) ∧
      ∀ sb so u1 u2 fuel,
        emitInsts fuse (lhPro true once (lhHead true (subOf shift body) s)).currentStart body (subsOf body)
          (lhPro true once (lhHead true (subOf shift body) s)) = .ok (u1, sb) →
        J c' (lhPro true once (lhHead true (subOf shift body) s)).currentStart (analyzeInsts body Analysis.empty) [] sb →
        Pre (lhPro true once (lhHead true (subOf shift body) s)).insts sb.insts →
        outerLoop ps fuel s.outerAccessed.size (lhMov shift sb) = .ok (u2, so) →
        J c ps (analyzeInstr (.loop cond shift body once : Ir.Instr w) a) rest
          (loopEnd once cond (subOf shift body) ps s (lhPro true once (lhHead true (subOf shift body) s)) so)
  ifz : ∀ c ps a cond shift body rest s, J c ps a (.ifnz cond shift body :: rest) s →
    ∃ c', J c' (lhPro false false s).currentStart Analysis.empty body (lhPro false false s) ∧
      ∀ sb u1, emitInsts fuse (lhPro false false s).currentStart body (subsOf body) (lhPro false false s) = .ok (u1, sb) →
        J c' (lhPro false false s).currentStart (analyzeInsts body Analysis.empty) [] sb →
        Pre (lhPro false false s).insts sb.insts →
        J c ps (analyzeInstr (.ifnz cond shift body : Ir.Instr w) a) rest
          (ifEnd cond shift (subOf shift body) ps s (lhPro false false s) sb)

/-! ### unconditional preservation through the expression code generator -/

section codegen0
variable {K : St w → Prop}
  (hg : ∀ (e : GvnExpr w) (s : St w) (v : Nat) (s' : St w), K s → getValue e s = .ok (v, s') → K s')
  (hm : ∀ (var : Int) (x : Nat) (s s' : St w) (u : Unit), K s → memWrite var x s = .ok (u, s') → K s')
include hg

theorem codegenVars_pres0 : ∀ (vs : List Int) (result : Nat) {s s' : St w} {r : Nat},
    codegenVars result vs s = .ok (r, s') → K s → K s'
  | [], result, s, s', r, h, hk => by
    simp only [codegenVars, pure_ok] at h
    rw [h.2]; exact hk
  | v :: vs, result, s, s', r, h, hk => by
    simp only [codegenVars, bind_ok] at h
    obtain ⟨m, s1, h1, r1, s2, h2, h3⟩ := h
    exact codegenVars_pres0 vs r1 h3 (hg _ _ _ _ (hg _ _ _ _ hk h1) h2)

theorem codegenPart_pres0 (var : Int) (p : Part w) {s s' : St w} {r : Nat}
    (h : codegenPart var p s = .ok (r, s')) (hk : K s) : K s' := by
  unfold codegenPart at h
  generalize Expr.stableSort (fun a b => decide (ordering var a ≤ ordering var b)) p.vars = sorted at h
  cases sorted with
  | nil => exact hg _ _ _ _ hk h
  | cons v0 vs =>
    simp only [bind_ok] at h
    obtain ⟨r0, s1, h1, r1, s2, h2, h3⟩ := h
    have k2 := codegenVars_pres0 hg _ _ h2 (hg _ _ _ _ hk h1)
    split at h3
    · rw [pure_ok] at h3; rw [h3.2]; exact k2
    · simp only [bind_ok] at h3
      obtain ⟨i, s3, h4, h5⟩ := h3
      exact hg _ _ _ _ (hg _ _ _ _ k2 h4) h5

theorem codegenRest_pres0 (var : Int) : ∀ (ps : List (Part w)) (result : Nat) {s s' : St w} {r : Nat},
    codegenRest var result ps s = .ok (r, s') → K s → K s'
  | [], result, s, s', r, h, hk => by
    simp only [codegenRest, pure_ok] at h
    rw [h.2]; exact hk
  | p :: ps, result, s, s', r, h, hk => by
    simp only [codegenRest, bind_ok] at h
    obtain ⟨pr, s1, h1, h⟩ := h
    have k1 := codegenPart_pres0 hg var p h1 hk
    cases hn : isNegVar p with
    | true =>
      simp only [hn, if_true, bind_ok] at h
      obtain ⟨r1, s2, h2, h3⟩ := h
      exact codegenRest_pres0 var ps r1 h3 (hg _ _ _ _ k1 h2)
    | false =>
      simp only [hn, Bool.false_eq_true, if_false, bind_ok] at h
      obtain ⟨r1, s2, h2, h3⟩ := h
      exact codegenRest_pres0 var ps r1 h3 (hg _ _ _ _ k1 h2)

theorem getExprValue_pres0 (e : Expr w) (var : Int) {s s' : St w} {r : Nat}
    (h : getExprValue e var s = .ok (r, s')) (hk : K s) : K s' := by
  unfold getExprValue at h
  generalize orderParts var e = parts at h
  cases parts with
  | nil => exact hg _ _ _ _ hk h
  | cons p0 ps =>
    simp only [bind_ok] at h
    obtain ⟨r0, s1, h1, h⟩ := h
    have k1 := codegenPart_pres0 hg var p0 h1 hk
    cases hn : isNegVar p0 with
    | true =>
      simp only [hn, if_true, bind_ok] at h
      obtain ⟨z, s3, h4, r1, s2, h5, h3⟩ := h
      exact codegenRest_pres0 hg var ps r1 h3 (hg _ _ _ _ (hg _ _ _ _ k1 h4) h5)
    | false =>
      simp only [hn, Bool.false_eq_true, if_false, pure_bind'] at h
      exact codegenRest_pres0 hg var ps r0 h k1

theorem calcValues_pres0 : ∀ (calcs : List (Int × Expr w)) {s s' : St w} {vals : List (Int × Nat)},
    calcValues calcs s = .ok (vals, s') → K s → K s'
  | [], s, s', vals, h, hk => by
    simp only [calcValues, pure_ok] at h
    rw [h.2]; exact hk
  | (v, e) :: rest, s, s', vals, h, hk => by
    simp only [calcValues, bind_ok, pure_ok] at h
    obtain ⟨x, s1, h1, r, s2, h2, _, rfl⟩ := h
    exact calcValues_pres0 rest h2 (getExprValue_pres0 hg e v h1 hk)

omit hg in
include hm in
theorem memWrites_pres0 : ∀ (vals : List (Int × Nat)) {s s' : St w} {u : Unit},
    memWrites vals s = .ok (u, s') → K s → K s'
  | [], s, s', u, h, hk => by
    simp only [memWrites, pure_ok] at h
    rw [h.2]; exact hk
  | (v, x) :: rest, s, s', u, h, hk => by
    simp only [memWrites, bind_ok] at h
    obtain ⟨_, s1, h1, h2⟩ := h
    exact memWrites_pres0 rest h2 (hm _ _ _ _ _ hk h1)

end codegen0

theorem calc_pre {calcs : List (Int × Expr w)} {s s1 s' : St w} {vals : List (Int × Nat)} {u : Unit}
    (hc : calcValues calcs s = .ok (vals, s1)) (hm : memWrites vals s1 = .ok (u, s')) :
    Pre s.insts s'.insts := by
  have k1 : Pre s.insts s1.insts :=
    calcValues_pres0 (K := fun a => Pre s.insts a.insts)
      (fun e a v a' hk hh => hk.trans (getValue_pre hh)) calcs hc (Pre.refl _)
  exact memWrites_pres0 (K := fun a => Pre s.insts a.insts)
    (fun var x a a' u hk hh => hk.trans (memWrite_pre hh)) vals hm k1

/-! ### the induction -/

theorem closedI_emitInsts {Ctx : Type} {fuse : Bool} {J : Ctx → Nat → Analysis → List (Ir.Instr w) → St w → Prop}
    (C : ClosedI fuse J) : ∀ (n : Nat) (l : List (Ir.Instr w)), iszL l ≤ n →
    ∀ (c : Ctx) (a : Analysis) (ps : Nat) (s s' : St w) (u : Unit),
    emitInsts fuse ps l (subsOf l) s = .ok (u, s') → J c ps a l s →
    J c ps (analyzeInsts l a) [] s' ∧ Pre s.insts s'.insts := by
  intro n
  induction n with
  | zero =>
    intro l hl c a ps s s' u h hJ
    cases l with
    | nil =>
      simp only [emitInsts, pure_ok] at h
      rw [h.2]; exact ⟨hJ, Pre.refl _⟩
    | cons i rest => cases i <;> simp [iszL, isz] at hl <;> omega
  | succ n ih =>
    intro l hl c a ps s s' u h hJ
    cases l with
    | nil =>
      simp only [emitInsts, pure_ok] at h
      rw [h.2]; exact ⟨hJ, Pre.refl _⟩
    | cons i rest =>
      rw [emitInsts, bind_ok] at h
      obtain ⟨an', s1, h1, h2⟩ := h
      rw [analyzeInsts]
      suffices hfirst : (J c ps (analyzeInstr i a) rest s1 ∧ Pre s.insts s1.insts) ∧ an' = subsOf rest ∧
          iszL rest ≤ n by
        obtain ⟨⟨k1, p1⟩, rfl, hle⟩ := hfirst
        obtain ⟨k2, p2⟩ := ih rest hle c _ ps _ _ _ h2 k1
        exact ⟨k2, p1.trans p2⟩
      cases i with
      | output src =>
        simp only [emitInstr, bind_ok, pushInst_ok, pure_ok] at h1
        obtain ⟨_, s2, rfl, rfl, rfl⟩ := h1
        simp only [iszL, isz] at hl
        exact ⟨⟨C.out _ _ _ _ _ _ hJ, Pre.push _ _⟩, rfl, by omega⟩
      | input dst =>
        simp only [emitInstr, bind_ok, modify_ok, pure_ok] at h1
        obtain ⟨_, s2, rfl, rfl, rfl⟩ := h1
        simp only [iszL, isz] at hl
        exact ⟨⟨C.inp _ _ _ _ _ _ hJ, Pre.push _ _⟩, rfl, by omega⟩
      | «calc» calcs =>
        simp only [emitInstr, bind_ok, pure_ok] at h1
        obtain ⟨vals, s2, hc, _, s3, hm, rfl, rfl⟩ := h1
        simp only [iszL, isz] at hl
        exact ⟨⟨C.calcR _ _ _ _ _ _ _ _ _ _ hJ hc hm, calc_pre hc hm⟩, rfl, by omega⟩
      | loop cond shift body once =>
        simp only [subsOf, emitInstr, bind_ok, pure_ok] at h1
        obtain ⟨_, s2, hl1, rfl, rfl⟩ := h1
        simp only [iszL, isz] at hl
        rw [subOf_subAnal] at hl1
        refine ⟨?_, rfl, by omega⟩
        cases hf : (fuse && body.isEmpty) with
        | false =>
          have hf' : (!fuse || false || !body.isEmpty) = true := by
            cases fuse <;> cases hb : body.isEmpty <;> simp_all
          obtain ⟨sb, so, u1, u2, fuel, e1, e2, e3, e4⟩ := emitLoop_ok hf' hl1
          obtain ⟨c', j1, hexit⟩ := C.loop c ps a cond shift body once rest s hf hJ
          have p1 : Pre s.insts (lhPro true once (lhHead true (subOf shift body) s)).insts := by
            unfold lhPro
            cases once
            · simp only [Bool.false_eq_true, if_false, if_true, lhHead_insts]; exact Pre.push _ _
            · simp only [if_true, lhHead_insts]; exact Pre.refl _
          obtain ⟨jb, pb⟩ := ih body (by omega) c' _ _ _ _ _ e1 j1
          have pm : Pre sb.insts (lhMov shift sb).insts := by
            unfold lhMov; split
            · exact Pre.refl _
            · exact Pre.push _ _
          have po : so.insts = (lhMov shift sb).insts := by
            have := (outerLoop_core _ _ _ e2).1
            exact congrArg G.insts this
          have pz : Pre s.insts (lhBrnz cond (lhPro true once (lhHead true (subOf shift body) s)).insts.size so).insts := by
            refine ((p1.trans pb).trans pm).trans ?_
            show Pre _ (so.insts.push _)
            rw [po]; exact Pre.push _ _
          refine ⟨by rw [e4]; exact hexit sb so u1 u2 fuel e1 jb pb e2, ?_⟩
          rw [e4, lhExit_insts]
          cases once with
          | true => simp only [if_true]; exact pz
          | false =>
            simp only [Bool.false_eq_true, if_false]
            show Pre s.insts (Array.setIfInBounds _ _ _)
            refine pre_setIfInBounds pz ?_ _
            simp [lhPro, lhHead_insts]
        | true =>
          have hfu : fuse = true := by cases fuse <;> simp_all
          have hbe : body = [] := by
            cases body with
            | nil => rfl
            | cons _ _ => simp [hfu] at hf
          subst hbe
          have hf' : (!fuse || false || !([] : List (Ir.Instr w)).isEmpty) = false := by simp [hfu]
          have hc := emitScan_ok hf' hl1
          rw [hc]
          refine ⟨C.scan _ _ _ _ _ _ _ _ hfu hJ, ?_⟩
          rw [lhExit_insts]
          show Pre s.insts (Array.push _ _)
          rw [lhHead_insts]; exact Pre.push _ _
      | ifnz cond shift body =>
        simp only [subsOf, emitInstr, bind_ok, pure_ok] at h1
        obtain ⟨_, s2, hl1, rfl, rfl⟩ := h1
        simp only [iszL, isz] at hl
        rw [subOf_subAnal] at hl1
        refine ⟨?_, rfl, by omega⟩
        obtain ⟨sb, u1, e1, ⟨g1, g2⟩, e4⟩ := emitIf_ok hl1
        obtain ⟨c', j1, hexit⟩ := C.ifz c ps a cond shift body rest s hJ
        have p1 : Pre s.insts (lhPro false false s).insts := by
          unfold lhPro
          exact Pre.push _ _
        obtain ⟨jb, pb⟩ := ih body (by omega) c' _ _ _ _ _ e1 j1
        have pm : Pre sb.insts (lhMov shift sb).insts := by
          unfold lhMov; split
          · exact Pre.refl _
          · exact Pre.push _ _
        refine ⟨by rw [e4]; exact hexit sb u1 e1 jb pb, ?_⟩
        rw [e4, lhExit_insts]
        show Pre s.insts (Array.setIfInBounds _ _ _)
        refine pre_setIfInBounds ((p1.trans pb).trans pm) ?_ _
        simp [lhPro]

theorem closedI_emitState {Ctx : Type} {fuse : Bool} {J : Ctx → Nat → Analysis → List (Ir.Instr w) → St w → Prop}
    (C : ClosedI fuse J) {prog : Ir.Block w} {s : St w} (h : emitState prog fuse = .ok s) (c : Ctx)
    (h0 : J c 0 Analysis.empty prog.insts ({} : St w)) :
    J c 0 (analyzeInsts prog.insts Analysis.empty) [] s := by
  unfold emitState at h
  rw [analyze_subAnal] at h
  cases hr : (emitInsts fuse 0 prog.insts (subsOf prog.insts)).run ({} : St w) with
  | error e => rw [hr] at h; cases h
  | ok p =>
    obtain ⟨u, s1⟩ := p
    rw [hr] at h
    cases h
    exact (closedI_emitInsts C _ prog.insts (Nat.le_refl _) c _ 0 {} s u hr h0).1

end AEmit
end C02
end Hpbf
