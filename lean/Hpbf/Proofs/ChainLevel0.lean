/-
Chain, part 4 and 5: canonical Brainfuck semantics vs. the bytecode machine at optimisation level 0
(source → `Program::parse` → `translate` → threaded interpreter), and the corollaries for divergence (C05),
limited mode (C07) and I/O failure (C08).

Conventions: `src : List Kind` the classified source text, `prog` its bracket tree (`Bf.tree src = some prog`,
i.e. the text is balanced), `blk` the block `Ir.parse` returns at cell width `w > 0`, `p` the program
`translateE blk numRegs fuse` returns (that the generator does not hit one of its modelled panic sites is a
hypothesis: `ht`), `env` an arbitrary environment.  Traces are lists of events, most recent first.
Only the events are compared with the canonical machine (C01 compares events only).
-/
import Hpbf.Proofs.ChainRefine
import Hpbf.Proofs.ChainParse
import Hpbf.Props.C05
import Hpbf.Props.C08
import Hpbf.Props.C11

namespace Hpbf
namespace Chain

open Bc BcWf BcGen C11 C02

variable {w : Nat}

theorem traceOfBf_eq (o : Bf.Outcome w) : C04.traceOfBf o = C01.traceOfBf o := by cases o <;> rfl
theorem traceOfIr_eq (o : Ir.Outcome w) : C07.traceOfIr o = C01.traceOf o := by cases o <;> rfl

/-- A finished bytecode run stays finished with more fuel (any mode). -/
theorem bc_run_more (p : Bc.Program w) (l : Bool) (b f k : Nat) (env : Env) (o : Bc.Outcome w)
    (h : Bc.run p l b f env = o) (hn : ∀ x, o ≠ .outOfFuel x) : Bc.run p l b (f + k) env = o := by
  unfold Bc.run at h ⊢
  split
  · rename_i hb; rw [if_pos hb] at h; exact h
  · rename_i hb; rw [if_neg hb] at h
    exact emit_bc_run_more p l f k _ o h hn

theorem bc_run_det (p : Bc.Program w) (l : Bool) (b : Nat) (env : Env) {f1 f2 : Nat} {o1 o2 : Bc.Outcome w}
    (h1 : Bc.run p l b f1 env = o1) (h2 : Bc.run p l b f2 env = o2)
    (n1 : ∀ x, o1 ≠ .outOfFuel x) (n2 : ∀ x, o2 ≠ .outOfFuel x) : o1 = o2 := by
  have a := bc_run_more p l b f1 f2 env o1 h1 n1
  have c := bc_run_more p l b f2 f1 env o2 h2 n2
  rw [Nat.add_comm] at c
  rw [← a, ← c]

section Level0
variable (hw : 0 < w) {src : List Kind} {prog : Prog} (hp : Bf.tree src = some prog)
  {blk : Ir.Block w} (hb : Ir.parse (w := w) src = .ok blk)
  {numRegs : Nat} {fuse : Bool} {p : Bc.Program w} (ht : translateE blk numRegs fuse = .ok p) (env : Env)
include hw hp hb ht

/-! ### 4. `bytecode_level0` -/

/-- Forward: a terminating canonical run is reproduced by the bytecode machine: same events, same kind of
ending (ran off the end / stopped at a failing I/O operation). -/
theorem bytecode_level0_forward :
    (∀ f (s : State w), Bf.run f prog env = .done s →
      ∃ f' c', Bc.run p false 0 f' env = .done c' ∧ c'.st.trace = s.trace) ∧
    (∀ f (s : State w), Bf.run f prog env = .stopped s →
      ∃ f' c', Bc.run p false 0 f' env = .stopped c' ∧ c'.st.trace = s.trace) := by
  have ho := parse_onceOk hb env
  constructor
  · intro f s hs
    obtain ⟨f1, c1, h1, t1⟩ := (C01.parse_forward hw hp hb env).1 f s hs
    obtain ⟨f', c', h', t', _⟩ := (translate_forward env ht ho).1 f1 c1 h1
    exact ⟨f', c', h', t'.trans t1⟩
  · intro f s hs
    obtain ⟨f1, c1, h1, t1⟩ := (C01.parse_forward hw hp hb env).2 f s hs
    obtain ⟨f', c', h', t', _⟩ := (translate_forward env ht ho).2 f1 c1 h1
    exact ⟨f', c', h', t'.trans t1⟩

/-- Backward: the bytecode run terminates only if the canonical run does, with the same events. -/
theorem bytecode_level0_backward :
    (∀ f' (c' : Bc.Cfg w), Bc.run p false 0 f' env = .done c' →
      ∃ (f : Nat) (s : State w), Bf.run f prog env = .done s ∧ s.trace = c'.st.trace) ∧
    (∀ f' (c' : Bc.Cfg w), Bc.run p false 0 f' env = .stopped c' →
      ∃ (f : Nat) (s : State w), Bf.run f prog env = .stopped s ∧ s.trace = c'.st.trace) := by
  have ho := parse_onceOk hb env
  constructor
  · intro f' c' hc'
    obtain ⟨f1, c1, h1, t1, _⟩ := (translate_backward env ht ho).1 f' c' hc'
    obtain ⟨f, s, h, t⟩ := (C01.parse_backward hw hp hb env).1 f1 c1 h1
    exact ⟨f, s, h, t.trans t1⟩
  · intro f' c' hc'
    obtain ⟨f1, c1, h1, t1, _⟩ := (translate_backward env ht ho).2 f' c' hc'
    obtain ⟨f, s, h, t⟩ := (C01.parse_backward hw hp hb env).2 f1 c1 h1
    exact ⟨f, s, h, t.trans t1⟩

/-- Prefix: cut off anywhere, neither machine has emitted anything the other does not emit. -/
theorem bytecode_level0_prefix :
    (∀ f', ∃ f, C07.traceOfBc (Bc.run p false 0 f' env) = C01.traceOfBf (Bf.run (w := w) f prog env)) ∧
    (∀ f, ∃ f', C07.traceOfBc (Bc.run p false 0 f' env) = C01.traceOfBf (Bf.run (w := w) f prog env)) := by
  have ho := parse_onceOk hb env
  constructor
  · intro f'
    obtain ⟨f1, h1⟩ := (translate_prefix env ht ho).1 f'
    obtain ⟨f, h⟩ := (C01.parse_prefix hw hp hb env).1 f1
    exact ⟨f, by rw [← h1, h]⟩
  · intro f
    obtain ⟨f1, h1⟩ := (C01.parse_prefix hw hp hb env).2 f
    obtain ⟨f', h'⟩ := (translate_prefix env ht ho).2 f1
    exact ⟨f', by rw [h', h1]⟩

/-- The unlimited bytecode run is never interrupted, and once the canonical run terminates it never reports
malformed bytecode. -/
theorem bytecode_level0_proper :
    (∀ f' c', Bc.run p false 0 f' env ≠ .interrupted c') ∧
    (∀ f (s : State w), (Bf.run f prog env = .done s ∨ Bf.run f prog env = .stopped s) →
      ∀ f' c', Bc.run p false 0 f' env ≠ .bad c') := by
  refine ⟨fun f' c' => translate_never_interrupted p f' env c', ?_⟩
  intro f s hs f' c'
  have ho := parse_onceOk hb env
  rcases hs with hs | hs
  · obtain ⟨f1, c1, h1, _⟩ := (C01.parse_forward hw hp hb env).1 f s hs
    exact translate_not_bad_of_terminates env ht ho (Or.inl h1) f' c'
  · obtain ⟨f1, c1, h1, _⟩ := (C01.parse_forward hw hp hb env).2 f s hs
    exact translate_not_bad_of_terminates env ht ho (Or.inr h1) f' c'

/-- **Level 0, bytecode interpreter (release dispatch).** -/
theorem bytecode_level0 :
    ((∀ f (s : State w), Bf.run f prog env = .done s →
        ∃ f' c', Bc.run p false 0 f' env = .done c' ∧ c'.st.trace = s.trace) ∧
     (∀ f (s : State w), Bf.run f prog env = .stopped s →
        ∃ f' c', Bc.run p false 0 f' env = .stopped c' ∧ c'.st.trace = s.trace)) ∧
    ((∀ f' (c' : Bc.Cfg w), Bc.run p false 0 f' env = .done c' →
        ∃ (f : Nat) (s : State w), Bf.run f prog env = .done s ∧ s.trace = c'.st.trace) ∧
     (∀ f' (c' : Bc.Cfg w), Bc.run p false 0 f' env = .stopped c' →
        ∃ (f : Nat) (s : State w), Bf.run f prog env = .stopped s ∧ s.trace = c'.st.trace)) ∧
    ((∀ f', ∃ f, C07.traceOfBc (Bc.run p false 0 f' env) = C01.traceOfBf (Bf.run (w := w) f prog env)) ∧
     (∀ f, ∃ f', C07.traceOfBc (Bc.run p false 0 f' env) = C01.traceOfBf (Bf.run (w := w) f prog env))) :=
  ⟨bytecode_level0_forward hw hp hb ht env, bytecode_level0_backward hw hp hb ht env,
   bytecode_level0_prefix hw hp hb ht env⟩

/-- **Level 0, bytecode interpreter, debug build (trampolined dispatch, budget test before every
instruction).** -/
theorem bytecode_level0_debug :
    ((∀ f (s : State w), Bf.run f prog env = .done s →
        ∃ f' c', runDebug p false 0 f' env = .done c' ∧ c'.st.trace = s.trace) ∧
     (∀ f (s : State w), Bf.run f prog env = .stopped s →
        ∃ f' c', runDebug p false 0 f' env = .stopped c' ∧ c'.st.trace = s.trace)) ∧
    ((∀ f' (c' : Bc.Cfg w), runDebug p false 0 f' env = .done c' →
        ∃ (f : Nat) (s : State w), Bf.run f prog env = .done s ∧ s.trace = c'.st.trace) ∧
     (∀ f' (c' : Bc.Cfg w), runDebug p false 0 f' env = .stopped c' →
        ∃ (f : Nat) (s : State w), Bf.run f prog env = .stopped s ∧ s.trace = c'.st.trace)) ∧
    ((∀ f', ∃ f, C07.traceOfBc (runDebug p false 0 f' env) = C01.traceOfBf (Bf.run (w := w) f prog env)) ∧
     (∀ f, ∃ f', C07.traceOfBc (runDebug p false 0 f' env) = C01.traceOfBf (Bf.run (w := w) f prog env))) := by
  simp only [runDebug_eq_run]
  exact bytecode_level0 hw hp hb ht env

/-! ### 5a. C05: divergence and termination -/

/-- A canonically divergent program never returns from the bytecode interpreter: unlimited mode, and limited
mode with any budget (it is never reported "finished"). -/
theorem bc_never_returns (hdiv : C05.BfDiverges w prog env) :
    (∀ (f' : Nat) (c : Bc.Cfg w),
      Bc.run p false 0 f' env ≠ .done c ∧ Bc.run p false 0 f' env ≠ .stopped c) ∧
    (∀ (b f' : Nat) (c : Bc.Cfg w),
      Bc.run p true b f' env ≠ .done c ∧ Bc.run p true b f' env ≠ .stopped c) := by
  have hunl : ∀ (f' : Nat) (c : Bc.Cfg w),
      Bc.run p false 0 f' env ≠ .done c ∧ Bc.run p false 0 f' env ≠ .stopped c := by
    intro f' c
    constructor
    · intro hr
      obtain ⟨f, s, hf, _⟩ := (bytecode_level0_backward hw hp hb ht env).1 f' c hr
      obtain ⟨c', hc'⟩ := hdiv f
      rw [hf] at hc'; cases hc'
    · intro hr
      obtain ⟨f, s, hf, _⟩ := (bytecode_level0_backward hw hp hb ht env).2 f' c hr
      obtain ⟨c', hc'⟩ := hdiv f
      rw [hf] at hc'; cases hc'
  refine ⟨hunl, fun b f' c => ⟨fun hr => ?_, fun hr => ?_⟩⟩
  · obtain ⟨g, c', hg, _⟩ := C07.bc_limited_done p env b f' c hr
    exact (hunl g c').1 hg
  · obtain ⟨g, c', hg, _⟩ := C07.bc_limited_stopped p env b f' c hr
    exact (hunl g c').2 hg

/-- Unlimited mode, divergent program: after any number of steps the interpreter is still running – provided
the program passes the contract checker (which excludes the outcome "malformed bytecode"; the simulation of
the emission phase treats that outcome like divergence). -/
theorem bc_runs_forever (hdiv : C05.BfDiverges w prog env) {n : Nat} (hchk : BcWf.check p n = true) :
    ∀ f', ∃ c : Bc.Cfg w, Bc.run p false 0 f' env = .outOfFuel c := by
  intro f'
  have hn := (bc_never_returns hw hp hb ht env hdiv).1 f'
  cases hr : Bc.run p false 0 f' env with
  | outOfFuel c => exact ⟨c, rfl⟩
  | done c => exact ((hn c).1 hr).elim
  | stopped c => exact ((hn c).2 hr).elim
  | interrupted c => exact (translate_never_interrupted p f' env c hr).elim
  | bad c => exact (C11.check_run_not_bad hchk false 0 f' env c hr).elim

/-- Without the checker: still running, or malformed bytecode reached (never "finished"). -/
theorem bc_runs_forever_or_bad (hdiv : C05.BfDiverges w prog env) :
    ∀ f', (∃ c : Bc.Cfg w, Bc.run p false 0 f' env = .outOfFuel c) ∨
      (∃ c : Bc.Cfg w, Bc.run p false 0 f' env = .bad c) := by
  intro f'
  have hn := (bc_never_returns hw hp hb ht env hdiv).1 f'
  cases hr : Bc.run p false 0 f' env with
  | outOfFuel c => exact Or.inl ⟨c, rfl⟩
  | done c => exact ((hn c).1 hr).elim
  | stopped c => exact ((hn c).2 hr).elim
  | interrupted c => exact (translate_never_interrupted p f' env c hr).elim
  | bad c => exact Or.inr ⟨c, rfl⟩

/-- Limited mode, divergent program: the call comes back and reports "budget exhausted" (checked program). -/
theorem bc_limited_interrupted (hdiv : C05.BfDiverges w prog env) {n : Nat} (hchk : BcWf.check p n = true) :
    ∀ b, ∃ f' c, Bc.run p true b f' env = .interrupted c := by
  intro b
  obtain ⟨f', hf'⟩ := C07.bc_limited_terminates p env b
  have hn := (bc_never_returns hw hp hb ht env hdiv).2 b f'
  cases hr : Bc.run p true b f' env with
  | outOfFuel c => exact (hf' c hr).elim
  | done c => exact ((hn c).1 hr).elim
  | stopped c => exact ((hn c).2 hr).elim
  | interrupted c => exact ⟨f', c, hr⟩
  | bad c => exact (C11.check_run_not_bad hchk true b f' env c hr).elim

/-- A canonically terminating program terminates in the bytecode interpreter with the same events (unlimited
mode, and limited mode with any sufficiently large budget). -/
theorem bc_terminates :
    (∀ (f : Nat) (s : State w), Bf.run f prog env = .done s →
      ∃ f' c, Bc.run p false 0 f' env = .done c ∧ c.st.trace = s.trace) ∧
    (∀ (f : Nat) (s : State w), Bf.run f prog env = .stopped s →
      ∃ f' c, Bc.run p false 0 f' env = .stopped c ∧ c.st.trace = s.trace) ∧
    (∀ (f : Nat) (s : State w), Bf.run f prog env = .done s →
      ∃ g, ∀ b, g ≤ b → ∃ f' c, Bc.run p true b f' env = .done c ∧ c.st.trace = s.trace) := by
  refine ⟨(bytecode_level0_forward hw hp hb ht env).1, (bytecode_level0_forward hw hp hb ht env).2, ?_⟩
  intro f s hr
  obtain ⟨g, c, hc, htr⟩ := (bytecode_level0_forward hw hp hb ht env).1 f s hr
  refine ⟨g, fun b hgb => ?_⟩
  obtain ⟨f', c', hc', hst⟩ := C07.bc_limited_enough p env g c hc b hgb
  exact ⟨f', c', hc', by rw [hst]; exact htr⟩

/-- Everything a divergent program outputs is output by the bytecode interpreter, in order and with nothing
extra (checked program: both runs are still running). -/
theorem bc_divergent_output (hdiv : C05.BfDiverges w prog env) {n : Nat} (hchk : BcWf.check p n = true) :
    (∀ f, ∃ f' c c', Bf.run (w := w) f prog env = .outOfFuel c ∧
      Bc.run p false 0 f' env = .outOfFuel c' ∧ c'.st.trace = c.st.trace) ∧
    (∀ f', ∃ f c c', Bc.run p false 0 f' env = .outOfFuel c' ∧
      Bf.run (w := w) f prog env = .outOfFuel c ∧ c'.st.trace = c.st.trace) := by
  constructor
  · intro f
    obtain ⟨c, hc⟩ := hdiv f
    obtain ⟨f', hf'⟩ := (bytecode_level0_prefix hw hp hb ht env).2 f
    obtain ⟨c', hc'⟩ := bc_runs_forever hw hp hb ht env hdiv hchk f'
    rw [hc, hc'] at hf'
    exact ⟨f', c, c', hc, hc', hf'⟩
  · intro f'
    obtain ⟨c', hc'⟩ := bc_runs_forever hw hp hb ht env hdiv hchk f'
    obtain ⟨f, hf⟩ := (bytecode_level0_prefix hw hp hb ht env).1 f'
    obtain ⟨c, hc⟩ := hdiv f
    rw [hc, hc'] at hf
    exact ⟨f, c, c', hc', hc, hf⟩

/-! ### 5b. C07: limited mode -/

/-- A limited run that reports "finished" has produced exactly the complete canonical event sequence, and
the canonical run ends the same way. -/
theorem bc_limited_finished :
    (∀ (b f' : Nat) (c : Bc.Cfg w), Bc.run p true b f' env = .done c →
      ∃ (f : Nat) (s : State w), Bf.run f prog env = .done s ∧ s.trace = c.st.trace) ∧
    (∀ (b f' : Nat) (c : Bc.Cfg w), Bc.run p true b f' env = .stopped c →
      ∃ (f : Nat) (s : State w), Bf.run f prog env = .stopped s ∧ s.trace = c.st.trace) := by
  constructor
  · intro b f' c hr
    obtain ⟨g, c', hg, hst⟩ := C07.bc_limited_done p env b f' c hr
    obtain ⟨f, s, hf, htr⟩ := (bytecode_level0_backward hw hp hb ht env).1 g c' hg
    exact ⟨f, s, hf, by rw [htr, hst]⟩
  · intro b f' c hr
    obtain ⟨g, c', hg, hst⟩ := C07.bc_limited_stopped p env b f' c hr
    obtain ⟨f, s, hf, htr⟩ := (bytecode_level0_backward hw hp hb ht env).2 g c' hg
    exact ⟨f, s, hf, by rw [htr, hst]⟩

/-- Whatever the limited run has emitted (finished, interrupted, or still running) is what the canonical
machine has emitted after some number of steps … -/
theorem bc_limited_prefix :
    ∀ b f', ∃ f, C07.traceOfBc (Bc.run p true b f' env) = C01.traceOfBf (Bf.run (w := w) f prog env) := by
  intro b f'
  obtain ⟨g, _, hg⟩ := C07.bc_limited_prefix p env b f'
  obtain ⟨f, hf⟩ := (bytecode_level0_prefix hw hp hb ht env).1 g
  exact ⟨f, by rw [hg, hf]⟩

/-- … hence literally an initial part of the canonical event sequence (traces are most recent first, so
"initial part" is `<:+`), for every sufficiently long canonical run. -/
theorem bc_limited_is_prefix :
    ∀ b f', ∃ f, ∀ g, f ≤ g →
      C07.traceOfBc (Bc.run p true b f' env) <:+ C01.traceOfBf (Bf.run (w := w) g prog env) := by
  intro b f'
  obtain ⟨f, hf⟩ := bc_limited_prefix hw hp hb ht env b f'
  refine ⟨f, fun g hg => ?_⟩
  rw [hf, ← traceOfBf_eq, ← traceOfBf_eq]
  exact C04.bf_trace_mono hg _

/-- With a sufficiently large budget a canonically terminating program is reported "finished" with the
complete canonical event sequence (both kinds of ending). -/
theorem bc_limited_enough :
    (∀ (f : Nat) (s : State w), Bf.run f prog env = .done s →
      ∃ g, ∀ b, g ≤ b → ∃ f' c, Bc.run p true b f' env = .done c ∧ c.st.trace = s.trace) ∧
    (∀ (f : Nat) (s : State w), Bf.run f prog env = .stopped s →
      ∃ g, ∀ b, g ≤ b → ∃ f' c, Bc.run p true b f' env = .stopped c ∧ c.st.trace = s.trace) := by
  refine ⟨(bc_terminates hw hp hb ht env).2.2, ?_⟩
  intro f s hr
  obtain ⟨g, c, hc, htr⟩ := (bytecode_level0_forward hw hp hb ht env).2 f s hr
  refine ⟨g, fun b hgb => ?_⟩
  obtain ⟨f', c', hc', hst⟩ := C07.bc_limited_enough_stopped p env g c hc b hgb
  exact ⟨f', c', hc', by rw [hst]; exact htr⟩

/- That the limited run always returns is `C07.bc_limited_terminates` (for every program). -/

/-! ### 5c. C08: I/O failure -/

/-- If the canonical run stops at a failing I/O operation (refused output byte, absent source, read error),
the bytecode interpreter stops there too: same events (the failed request included), no later event (the
outcome is the same for every larger number of steps), normal return (`.stopped`, not `.bad`). -/
theorem bc_stops_like_canonical :
    ∀ (f : Nat) (s : State w), Bf.run f prog env = .stopped s →
      ∃ f' c, (∀ k, Bc.run p false 0 (f' + k) env = .stopped c) ∧ c.st.trace = s.trace := by
  intro f s hs
  obtain ⟨f', c, hc, htr⟩ := (bytecode_level0_forward hw hp hb ht env).2 f s hs
  exact ⟨f', c, fun k => bc_run_more p false 0 f' k env _ hc (by intro x; simp), htr⟩

/-- The same in limited mode with any sufficiently large budget. -/
theorem bc_limited_stops_like_canonical :
    ∀ (f : Nat) (s : State w), Bf.run f prog env = .stopped s →
      ∃ g, ∀ b, g ≤ b → ∃ f' c, (∀ k, Bc.run p true b (f' + k) env = .stopped c) ∧ c.st.trace = s.trace := by
  intro f s hs
  obtain ⟨g, hg⟩ := (bc_limited_enough hw hp hb ht env).2 f s hs
  refine ⟨g, fun b hgb => ?_⟩
  obtain ⟨f', c, hc, htr⟩ := hg b hgb
  exact ⟨f', c, fun k => bc_run_more p true b f' k env _ hc (by intro x; simp), htr⟩

/-- The bytecode interpreter stops only where the canonical machine stops (either mode, any budget). -/
theorem bc_stops_only_like_canonical :
    ∀ (l : Bool) (b f' : Nat) (c : Bc.Cfg w), Bc.run p l b f' env = .stopped c →
      (l = false → b = 0) →
      ∃ (f : Nat) (s : State w), Bf.run f prog env = .stopped s ∧ s.trace = c.st.trace := by
  intro l b f' c hr hl
  cases l with
  | false =>
    have := hl rfl; subst this
    exact (bytecode_level0_backward hw hp hb ht env).2 f' c hr
  | true => exact (bc_limited_finished hw hp hb ht env).2 b f' c hr

/-- A refused output byte under the bytecode backend: the events before it and the refused byte are the
canonical ones. -/
theorem bc_refused_byte (f : Nat) (s : State w) (b : UInt8) (t : List Ev)
    (hrun : Bf.run f prog env = .stopped s) (htr : s.trace = Ev.outFail b :: t) :
    ∃ f' c, Bc.run p false 0 f' env = .stopped c ∧ c.st.trace = Ev.outFail b :: t := by
  obtain ⟨f', c, hc, hs⟩ := (bytecode_level0_forward hw hp hb ht env).2 f s hrun
  exact ⟨f', c, hc, by rw [hs, htr]⟩

end Level0

end Chain
end Hpbf
