/-
C03 (control flow), stage 2: entering and leaving the function – the fall-through exit (`flow_halt`), the
prologue from the state `enter_jit_code` sets up (`prologue_run`), and the bytecode configuration a machine
state stands for (`shadowTemps`, `rel_shadow`).
-/
import Hpbf.Proofs.C03FlowIO
namespace Hpbf
namespace C03
open Asm JitGen X86Sem X86Prog
variable {w : Nat}

/-! ### Halting: the fall-through exit -/

theorem flow_halt (K : Ctx w) (htemps : alignedTemps K.p.temps * 8 < 2147483648)
    {fr : Frame} (h7 : fr.saved.length = 7) {c : Bc.Cfg w} {s : PState w}
    (hpc : c.pc = K.n) (hinv : Inv K fr c s) (hrel : Rel c (view s)) (k : Nat) :
    ∃ s', run K.cfg (10 + k) s = .ret s' ∧ s'.regs.rax = 1 ∧ Final fr K.p.temps c s' ∧
      s'.budget = s.budget := by
  obtain ⟨s', hrun, hrax, hret⟩ := exit_normal K htemps (fr := fr) (by rw [hinv.pc, hpc]) hinv.rsp hinv.len
    hinv.saved h7 k
  refine ⟨s', hrun, hrax, Final.of_returned hret hinv.env hinv.trace (fun o => hrel.2.2 o), hret.budget⟩

/-! ### The prologue -/

theorem step_subRsp {cfg : Cfg} {code : List X86} {imm : Int} {rest : List X86} {s : PState w}
    (hat : At cfg code s.pc (.subRmImm (.reg .rsp) imm :: rest)) (h0 : 0 ≤ imm) (h8 : imm % 8 = 0)
    (hfit : imm < 2147483648) :
    ∃ z c, step cfg s = .next { s with stk := List.replicate (imm / 8).toNat (cfg.junk .rsp) ++ s.stk
                                       regs := s.regs.set .rsp (s.regs.rsp - immVal imm)
                                       zf := z, cf := c, pc := s.pc + (X86.subRmImm (.reg .rsp) imm).size } := by
  rw [step_at hat]
  have hfit' : (X86.subRmImm (.reg .rsp) imm).fits = true := by
    simp only [X86.fits, RegMem.fits, Bool.true_and, fitsS_32]
    omega
  step_open hfit'
  simp only [if_true, stepSubRsp, h0, h8, and_self, alu, trunc64]
  exact ⟨_, _, rfl⟩

/-- `mov r, r'` (64-bit, `r` neither `rsp` nor `rbp`). -/
theorem step_mov64Reg {cfg : Cfg} {code : List X86} {d r : Reg} {rest : List X86} {s : PState w}
    (hat : At cfg code s.pc (mov64 d (.reg r) :: rest)) (hd : d ≠ .rsp ∧ d ≠ .rbp) :
    step cfg s = .next { s with regs := s.regs.set d (s.regs.get r), pc := s.pc + (mov64 d (.reg r)).size } := by
  rw [step_at hat]
  step_open (show (mov64 d (.reg r)).fits = true from rfl)
  simp only [mov64, hd.2, and_false, if_false, cxtDisp, Option.isSome_none, Bool.false_eq_true,
    stepPlain, exec, show (X86.movRRm .b64 d (.reg r)).fits = true from rfl, if_true,
    execCore, X86Sem.resolve, Option.bind_eq_bind, Option.bind_some, readPlace, writeReg, hd.1,
    or_self, placeOf, rmOf, sizedWrite_b64]
  rfl

/-- `mov rbp, r`: the tape pointer is loaded. -/
theorem step_loadRbpReg {cfg : Cfg} {code : List X86} {r : Reg} {rest : List X86} {s s' : PState w}
    (hat : At cfg code s.pc (mov64 memr (.reg r) :: rest)) (hl : loadRbp s (s.regs.get r) = some s') :
    step cfg s = .next (s'.adv (mov64 memr (.reg r))) := by
  rw [step_at hat]
  step_open (show (mov64 memr (.reg r)).fits = true from rfl)
  simp only [mov64, memr, and_self, if_true, stepLoadRbp, src64, hl]


/-! ### The bytecode configuration a machine state stands for -/

/-- Temporaries read off a machine state: the first `n` of them. -/
def shadowTemps (m : MState w) (n : Nat) : Bc.Temps w := (List.range n).map (fun t => (t, lo (tmpVal m t)))

theorem tget_map_self (f : Nat → BitVec w) (l : List Nat) (t : Nat) :
    Bc.tget (l.map (fun t => (t, f t))) t = if t ∈ l then f t else 0#w := by
  induction l with
  | nil => simp [Bc.tget]
  | cons a l ih =>
    simp only [List.map_cons, Bc.tget, List.mem_cons]
    by_cases h : a = t
    · subst h; simp
    · have h' : ¬ t = a := fun e => h e.symm
      simp only [h, if_false, ih, h', false_or]

theorem tget_shadow (m : MState w) (n t : Nat) :
    Bc.tget (shadowTemps m n) t = if t < n then lo (tmpVal m t) else 0#w := by
  unfold shadowTemps
  rw [tget_map_self]
  simp [List.mem_range]

/-- Every state is fully related to the configuration with its own temporaries, provided the tapes agree
and the stack beyond `n ≥ 11` slots reads zero. -/
theorem rel_shadow {m : MState w} {n : Nat} (hn : 11 ≤ n) (hstack : ∀ t, n ≤ t → m.stack t = 0)
    {pc b : Nat} {st : State w} (htape : ∀ o, m.tape o = st.rd o) :
    Rel { pc := pc, temps := shadowTemps m n, budget := b, st := st } m := by
  refine ⟨fun t r htr => ?_, fun t ht => ?_, htape⟩
  · obtain ⟨hlt, rfl⟩ := tmpReg_eq_some.1 htr
    show _ = Bc.tget (shadowTemps m n) t
    rw [tget_shadow, if_pos (by omega), ← regs_treg m hlt]
  · show _ = Bc.tget (shadowTemps m n) t
    rw [tget_shadow]
    split
    · simp [tmpVal, tmpReg_ge ht]
    · rw [hstack t (by omega)]; simp

/-! ### The prologue -/

/-- What `enter_jit_code` guarantees when it calls the compiled function. -/
structure Entry (K : Ctx w) (s0 : PState w) (ra : BitVec 64) : Prop where
  pc : s0.pc = 0
  stk : s0.stk = [ra]
  rdi : s0.regs.rdi = K.cfg.cxtAddr
  align : s0.regs.rsp.toNat % 16 = 8
  /-- `rsi` points at a cell of the buffer -/
  ptr : ((s0.regs.rsi - s0.buf).toInt) % cellBytes w = 0
  fresh : ∀ a, s0.tape.get a = 0#w

/-- The frame the prologue builds. -/
def frameOf (K : Ctx w) (s0 : PState w) (ra : BitVec 64) : Frame :=
  { rsp := s0.regs.rsp - BitVec.ofNat 64 (8 * 6) - BitVec.ofNat 64 (alignedTemps K.p.temps * 8)
    saved := [s0.regs.r15, s0.regs.r14, s0.regs.r13, s0.regs.r12, s0.regs.rbx, s0.regs.rbp, ra] }

theorem alignedTemps_odd (t : Nat) : alignedTemps t % 2 = 1 := by
  unfold alignedTemps; split <;> simp_all <;> omega

theorem prologue_run (K : Ctx w) (htemps : alignedTemps K.p.temps * 8 < 2147483648) (hw : 8 ≤ w ∧ w ≤ 64)
    {s0 : PState w} {ra : BitVec 64} (hE : Entry K s0 ra) (env : Env) (henv : s0.env = env)
    (htr : s0.trace = []) :
    ∃ s T, steps K.cfg 9 s0 = some s ∧
      Inv K (frameOf K s0 ra) { pc := 0, temps := T, budget := s0.budget.toNat, st := State.init env } s ∧
      Rel { pc := 0, temps := T, budget := s0.budget.toNat, st := State.init env } (view s) ∧
      s.buf = s0.buf ∧ s.size = s0.size ∧ s.base = s0.base := by
  have hN : i32 ((alignedTemps K.p.temps * 8 : Nat) : Int) = ((alignedTemps K.p.temps * 8 : Nat) : Int) :=
    i32_nat (by omega)
  have hcode : ∃ B, K.code = [] ++ prologue K.p.temps ++ B :=
    ⟨K.C.rcode ++ (epilogueHead ++ epilogueTail K.p.temps), by have := K.C.hcode; simpa using this⟩
  obtain ⟨B, hB⟩ := hcode
  have hat : At K.cfg K.code s0.pc (prologue K.p.temps) := by
    rw [hE.pc]; exact ⟨K.hfetch, [], B, hB, rfl⟩
  unfold prologue at hat
  rw [hN] at hat
  -- six pushes
  have hat1 : At K.cfg K.code s0.pc ([Reg.rbp, .rbx, .r12, .r13, .r14, .r15].map X86.push ++
      [.subRmImm (.reg .rsp) ((alignedTemps K.p.temps * 8 : Nat) : Int), mov64 cxt (.reg .rdi),
       mov64 memr (.reg .rsi)]) := by simpa using hat
  obtain ⟨s1, hst1, hstk1, hregs1, hrsp1, hpc1, hk1⟩ := push_all _ hat1 (by decide)
  have hat2 := hat1.drop
  rw [← hpc1] at hat2
  -- sub rsp, N
  obtain ⟨z, cf, h2⟩ := step_subRsp hat2 (by omega) (by omega) (by omega)
  obtain ⟨s2, hs2, e2⟩ : ∃ x : PState w, step K.cfg s1 = .next x ∧ x = _ := ⟨_, h2, rfl⟩
  have hat3 : At K.cfg K.code s2.pc [mov64 cxt (.reg .rdi), mov64 memr (.reg .rsi)] := by
    rw [e2]; exact hat2.tail
  -- mov rbx, rdi
  have h3 := step_mov64Reg hat3 (by decide)
  obtain ⟨s3, hs3, e3⟩ : ∃ x : PState w, step K.cfg s2 = .next x ∧ x = _ := ⟨_, h3, rfl⟩
  have hat4 : At K.cfg K.code s3.pc [mov64 memr (.reg .rsi)] := by rw [e3]; exact hat3.tail
  -- mov rbp, rsi
  have hrsi3 : s3.regs.get .rsi = s0.regs.rsi := by
    rw [e3, e2]; simp [cxt]; exact hregs1 .rsi (by decide)
  have hbuf3 : s3.buf = s0.buf := by rw [e3, e2]; exact hk1.buf
  have hb0 : cellBytes w ≠ 0 := by unfold cellBytes; omega
  have hl : loadRbp s3 (s3.regs.get .rsi) = some { s3 with
      regs := s3.regs.set .rbp s0.regs.rsi,
      lptr := s3.base + (s0.regs.rsi - s0.buf).toInt / cellBytes w, tapeOk := true } := by
    unfold loadRbp
    simp only [hrsi3, hbuf3, hb0, ne_eq, not_false_eq_true, hE.ptr, and_self, if_true]
  have h4 := step_loadRbpReg hat4 hl
  obtain ⟨s4, hs4, e4⟩ : ∃ x : PState w, step K.cfg s3 = .next x ∧ x = _ := ⟨_, h4, rfl⟩
  have hdiv : (((alignedTemps K.p.temps * 8 : Nat) : Int) / 8).toNat = alignedTemps K.p.temps := by omega
  have hstk4 : s4.stk = List.replicate (alignedTemps K.p.temps) (K.cfg.junk .rsp) ++
      [s0.regs.r15, s0.regs.r14, s0.regs.r13, s0.regs.r12, s0.regs.rbx, s0.regs.rbp, ra] := by
    rw [e4, e3, e2]; simp only [PState.adv, hdiv, hstk1, hE.stk]; rfl
  obtain ⟨T, hT⟩ : ∃ T, T = shadowTemps (view s4) (max 11 s4.stk.length) := ⟨_, rfl⟩
  refine ⟨s4, T, ?_, ?_, ?_, ?_, ?_, ?_⟩
  · exact steps_trans hst1 (steps_trans (steps_trans (steps_one hs2) (steps_one hs3)) (steps_one hs4))
  · refine ⟨?_, ?_, ?_, ?_, ?_, ?_, ?_, ?_, ?_, ?_, ?_⟩
    rotate_right
    · unfold Phys
      have e1 : s4.regs.rbp = s0.regs.rsi := by
        show s4.regs.get .rbp = _
        rw [e4]; simp [PState.adv]
      have e2 : s4.buf = s0.buf := by rw [e4]; exact hbuf3
      have e3 : s4.lptr - s4.base = (s0.regs.rsi - s0.buf).toInt / cellBytes w := by
        rw [e4]; simp only [PState.adv]; omega
      rw [e1, e2, e3, Int.mul_ediv_cancel' (Int.dvd_of_emod_eq_zero hE.ptr), BitVec.ofInt_toInt]
      bv_omega
    rotate_left 4
    · show s4.budget.toNat = s0.budget.toNat
      rw [e4, e3, e2]; simp only [PState.adv]; rw [hk1.budget]
    rotate_right 4
    · show s4.pc = K.loc 0
      rw [e4, e3, e2]; simp only [PState.adv, hpc1, hE.pc]
      simp only [Ctx.loc, locOf, offAt, startOf, prologue, hN, List.take_zero, List.flatten_nil,
        itemsSize_nil, sizeAll_cons, sizeAll_nil, List.map_cons, List.map_nil, Nat.zero_add, Nat.add_zero]
      omega
    · show s4.regs.get .rbx = _
      rw [e4, e3, e2]; simp [PState.adv, cxt, memr]
      rw [hregs1 .rdi (by decide)]; exact hE.rdi
    · rw [e4, e3, e2]; exact hk1.env.trans henv
    · rw [e4, e3, e2]; exact hk1.trace.trans htr
    · rw [e4]; rfl
    · show s4.regs.get .rsp = _
      rw [e4, e3, e2]; simp [PState.adv, cxt, memr]
      have : s1.regs.rsp = s1.regs.get .rsp := rfl
      rw [this, hrsp1, immVal]
      have : ((alignedTemps K.p.temps : Int) * 8) = ((alignedTemps K.p.temps * 8 : Nat) : Int) := by
        push_cast; rfl
      rw [this, BitVec.ofInt_natCast]; rfl
    · show (s0.regs.rsp - BitVec.ofNat 64 (8 * 6) - BitVec.ofNat 64 (alignedTemps K.p.temps * 8)).toNat % 16 = 0
      have := hE.align
      have ho := alignedTemps_odd K.p.temps
      have := s0.regs.rsp.isLt
      simp only [BitVec.toNat_sub, BitVec.toNat_ofNat]
      omega
    · rw [hstk4]; simp [frameOf]
    · rw [hstk4]; simp [frameOf]
  · rw [hT]
    refine rel_shadow (Nat.le_max_left _ _) ?_ ?_
    · intro t ht
      simp only [view]
      rw [List.getD_eq_getElem?_getD, List.getElem?_eq_none (by omega)]; rfl
    · intro o
      simp only [view]
      have : s4.tape = s0.tape := by rw [e4, e3, e2]; exact hk1.tape
      rw [this, hE.fresh]; rfl
  · rw [e4, e3, e2]; exact hk1.buf
  · rw [e4, e3, e2]; exact hk1.size
  · rw [e4, e3, e2]; exact hk1.base

end C03
end Hpbf
