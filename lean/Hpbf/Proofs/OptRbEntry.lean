/-
Rebuild-round proofs, stage 3: the entry relation of a nested block at level 1, WITHOUT assuming that the parent
state is inhabited: `compare` on closed normal forms is sound in every memory (`compare_closed_sound`), so a state
without analysis learns nothing from its parent chain (`pk_noanal'`, `entry_l1'`).
-/
import Hpbf.Proofs.OptRbAll

namespace Hpbf
namespace OptProof
open Opt OptSem Ir

variable {w : Nat}

theorem evalPending_closed (s : Rebuild w) (ps : List (Rebuild w)) (a : Expr w) (ha : Expr.variables a = []) :
    evalPending s ps 0 a = .ok a := by
  unfold evalPending
  rw [ha]
  simp [pure, Except.pure]

theorem evalWritten_closed (s : Rebuild w) (ps : List (Rebuild w)) (a : Expr w) (ha : Expr.variables a = []) :
    evalWritten s ps a = some a := by
  unfold evalWritten
  rw [ha]
  simp

/-- `compare` on closed normal forms only answers `true` when the values are equal. -/
theorem compare_closed_sound (ps : List (Rebuild w)) : ∀ (s : Rebuild w) (a b : Expr w),
    Expr.variables a = [] → Expr.variables b = [] → Expr.Canon a → Expr.Canon b →
    Opt.compare s ps a b = .ok true → ∀ m : Mem w, ev a m = ev b m := by
  induction ps with
  | nil =>
    intro s a b hva hvb ha hb hcmp m
    rw [compare_eq] at hcmp
    split at hcmp
    · rename_i hab
      have : a = b := by simpa using hab
      rw [this]
    · rename_i hne
      rw [evalPending_closed s [] a hva, evalPending_closed s [] b hvb] at hcmp
      simp only [bind, Except.bind] at hcmp
      rw [if_neg hne, evalWritten_closed s [] a hva, evalWritten_closed s [] b hvb] at hcmp
      simp only at hcmp
      unfold compareParent at hcmp
      rw [if_neg hne] at hcmp
      split at hcmp
      · cases hpar : s.parent with
        | zero =>
          rw [hpar] at hcmp
          simp only [pure, Except.pure, Except.ok.injEq, beq_iff_eq] at hcmp
          rw [ev_varfree a hva m (fun _ => 0#w), ev_varfree b hvb m (fun _ => 0#w)]
          show Expr.evaluate a _ = Expr.evaluate b _
          rw [← Expr.eval_constantPart a ha.weak, ← Expr.eval_constantPart b hb.weak, hcmp]
        | unknown => rw [hpar] at hcmp; simp [pure, Except.pure] at hcmp
        | parent => rw [hpar] at hcmp; simp [pure, Except.pure] at hcmp
      · simp [pure, Except.pure] at hcmp
  | cons p ps' ih =>
    intro s a b hva hvb ha hb hcmp m
    rw [compare_eq] at hcmp
    split at hcmp
    · rename_i hab
      have : a = b := by simpa using hab
      rw [this]
    · rename_i hne
      rw [evalPending_closed s _ a hva, evalPending_closed s _ b hvb] at hcmp
      simp only [bind, Except.bind] at hcmp
      rw [if_neg hne, evalWritten_closed s _ a hva, evalWritten_closed s _ b hvb] at hcmp
      simp only at hcmp
      unfold compareParent at hcmp
      rw [if_neg hne] at hcmp
      split at hcmp
      · cases hpar : s.parent with
        | zero =>
          rw [hpar] at hcmp
          simp only [pure, Except.pure, Except.ok.injEq, beq_iff_eq] at hcmp
          rw [ev_varfree a hva m (fun _ => 0#w), ev_varfree b hvb m (fun _ => 0#w)]
          show Expr.evaluate a _ = Expr.evaluate b _
          rw [← Expr.eval_constantPart a ha.weak, ← Expr.eval_constantPart b hb.weak, hcmp]
        | unknown => rw [hpar] at hcmp; simp [pure, Except.pure] at hcmp
        | parent =>
          rw [hpar] at hcmp
          simp only at hcmp
          exact ih p a b hva hvb ha hb hcmp m
      · simp [pure, Except.pure] at hcmp

/-- A state without analysis knows nothing through its parent chain except what holds in every memory, and that
its condition cell is not zero. -/
theorem pk_noanal' {c : Rebuild w} (pc : List (Rebuild w)) (hanal : c.anal = none) (M0 : Mem w)
    (hcond : c.subShift = false → ∀ v, c.cond = some v → M0 v ≠ 0#w) : PK c pc M0 := by
  have hca : ∀ v, canAskParentFor c v = false := by
    intro v; unfold canAskParentFor; rw [hanal]; simp
  refine ⟨?_, ?_, ?_⟩
  · intro v cst h
    unfold getParentConstant at h
    rw [hca] at h; simp at h
  · intro v h
    unfold nonZeroParent at h
    rw [hca] at h
    simp only [Bool.false_eq_true, if_false, Bool.and_eq_true, Bool.not_eq_true', beq_iff_eq] at h
    split at h
    · rename_i hh
      exact hcond hh.1 v hh.2
    · cases h
  · intro a b ha hb h
    unfold compareParent at h
    split at h
    · rename_i hab
      have : a = b := by simpa using hab
      rw [this]
    · split at h
      · rename_i hall
        have hva : Expr.variables a = [] := by
          cases hv : Expr.variables a with
          | nil => rfl
          | cons x xs =>
            simp only [List.all_eq_true, List.mem_append] at hall
            have := hall x (Or.inl (by rw [hv]; simp))
            rw [hca] at this; cases this
        have hvb : Expr.variables b = [] := by
          cases hv : Expr.variables b with
          | nil => rfl
          | cons x xs =>
            simp only [List.all_eq_true, List.mem_append] at hall
            have := hall x (Or.inr (by rw [hv]; simp))
            rw [hca] at this; cases this
        cases hpar : c.parent with
        | zero =>
          rw [hpar] at h
          simp only [pure, Except.pure, Except.ok.injEq, beq_iff_eq] at h
          rw [ev_varfree a hva M0 (fun _ => 0#w), ev_varfree b hvb M0 (fun _ => 0#w)]
          show Expr.evaluate a _ = Expr.evaluate b _
          rw [← Expr.eval_constantPart a ha.weak, ← Expr.eval_constantPart b hb.weak, h]
        | unknown => rw [hpar] at h; simp [pure, Except.pure] at h
        | parent =>
          rw [hpar] at h
          cases pc with
          | nil => simp [pure, Except.pure] at h
          | cons p pc' =>
            simp only at h
            exact compare_closed_sound pc' p a b hva hvb ha hb h M0
      · simp [pure, Except.pure] at h

/-- Level 1: the entry relation of a nested block, for every state with the same memory and a non-zero
condition cell. -/
theorem entry_l1' (s : Rebuild w) (ps : List (Rebuild w)) (shP cS : Int) :
    ∀ σE σS : State w, SameMem shP σS σE → σS.rd cS ≠ 0#w →
      ∃ M0, RelAt shP (freshChild s.shift (cS + shP)) (s :: ps) M0 σE σS := by
  intro σE σS hm hne
  refine ⟨memE σE, hm.1, hm.2.1, hm.2.2.1, rfl, ?_, fun v => rfl, ?_⟩
  · show memS σE σS = Mem.par [] (memE σE)
    rw [par_nil]; exact hm.2.2.2
  · refine pk_noanal' _ rfl (memE σE) ?_
    intro _ v hv
    have : v = cS + shP := by
      have : (freshChild s.shift (cS + shP) : Rebuild w).cond = some (cS + shP) := rfl
      rw [this] at hv; cases hv; rfl
    rw [this, ← sameMem_cond hm]; exact hne

end OptProof
end Hpbf
