/-
Rebuild-round proofs: the FOOTPRINT of the emitted instructions (what `reads` and the keys of `written` mean).

`reads`  : the cells whose value from before the block (or after a `maybe` write) the emitted instructions may
           read: two runs of the emitted instructions from states that differ only on cells outside `reads`
           behave the same, and afterwards differ at most on those cells that have not been DEFINITELY
           written (`known` / `unknown` entry of `written`).
`written`: a cell without an entry is not written by the emitted instructions; the pointer is not moved.
Both only while `subShift = false` (after an uncertain move the state does not describe the block entry any more).

The invariants are stated per step (`FootStep`, `FrameStep`: for the instructions `new` appended when the state
goes from `s` to `s'`), and compose along `List.append`.
-/
import Hpbf.Proofs.OptRbStep

namespace Hpbf
namespace OptProof
open Opt OptSem Ir

variable {w : Nat}

/-- Same pointer, environment and trace; the memories (relative to the pointer) agree outside `K`. -/
def AgreeOff (K : Int → Prop) (σ1 σ2 : State w) : Prop :=
  σ1.ptr = σ2.ptr ∧ σ1.env = σ2.env ∧ σ1.trace = σ2.trace ∧ ∀ v, ¬ K v → memE σ1 v = memE σ2 v

/-- `v` has been definitely written (entry `known` or `unknown`). -/
def DefW (s : Rebuild w) (v : Int) : Prop := ∃ k, mGet s.written v = some k ∧ k.isMaybe = false

/-- The cells on which two runs may still differ: initially `K`, minus what has been definitely written. -/
def Rest (K : Int → Prop) (s : Rebuild w) (v : Int) : Prop := K v ∧ ¬ DefW s v

/-- Read footprint of the instructions `new` appended between `s` and `s'`. -/
def FootStep (s s' : Rebuild w) (new : List (Instr w)) : Prop :=
  s'.subShift = false →
  ∀ (K : Int → Prop), (∀ v, K v → v ∉ s'.reads) →
  ∀ σ1 σ2 : State w, AgreeOff (Rest K s) σ1 σ2 →
    Sim (fun a b => AgreeOff (Rest K s') a b) new new σ1 σ2

/-- Write footprint of the instructions `new` appended between `s` and `s'`. -/
def FrameStep (s s' : Rebuild w) (new : List (Instr w)) : Prop :=
  s'.subShift = false →
  (∀ v, mGet s'.written v = none → mGet s.written v = none) ∧
  ∀ σ σ' : State w, Exec new σ (.fin σ') →
    σ'.ptr = σ.ptr ∧ ∀ v, mGet s'.written v = none → memE σ' v = memE σ v

/-- `reads` only grows, and `subShift` is never reset. -/
def ReadsMono (s s' : Rebuild w) : Prop :=
  (∀ v, v ∈ s.reads → v ∈ s'.reads) ∧ (s'.subShift = false → s.subShift = false)

theorem AgreeOff.refl (K : Int → Prop) (σ : State w) : AgreeOff K σ σ := ⟨rfl, rfl, rfl, fun _ _ => rfl⟩

theorem AgreeOff.mono {K K' : Int → Prop} {σ1 σ2 : State w} (h : AgreeOff K σ1 σ2) (hK : ∀ v, K v → K' v) :
    AgreeOff K' σ1 σ2 :=
  ⟨h.1, h.2.1, h.2.2.1, fun v hv => h.2.2.2 v (fun hk => hv (hK v hk))⟩

theorem ReadsMono.refl (s : Rebuild w) : ReadsMono s s := ⟨fun _ h => h, fun h => h⟩

theorem ReadsMono.trans {a b c : Rebuild w} (h1 : ReadsMono a b) (h2 : ReadsMono b c) : ReadsMono a c :=
  ⟨fun v h => h2.1 v (h1.1 v h), fun h => h1.2 (h2.2 h)⟩

theorem FootStep.refl (s : Rebuild w) : FootStep s s [] := by
  intro _ K _ σ1 σ2 h
  exact Sim.nil h h.2.2.1.symm

theorem FootStep.trans {a b c : Rebuild w} {n1 n2 : List (Instr w)} (h1 : FootStep a b n1)
    (h2 : FootStep b c n2) (hm : ReadsMono b c) : FootStep a c (n1 ++ n2) := by
  intro hs K hK σ1 σ2 h
  refine Sim.append (h1 (hm.2 hs) K (fun v hv hr => hK v hv (hm.1 v hr)) σ1 σ2 h) ?_
  intro x y hxy
  exact h2 hs K hK x y hxy

theorem FrameStep.refl (s : Rebuild w) : FrameStep s s [] := by
  intro _
  refine ⟨fun _ h => h, ?_⟩
  intro σ σ' h
  cases h
  exact ⟨rfl, fun _ _ => rfl⟩

theorem FrameStep.trans {a b c : Rebuild w} {n1 n2 : List (Instr w)} (h1 : FrameStep a b n1)
    (h2 : FrameStep b c n2) (hm : ReadsMono b c) : FrameStep a c (n1 ++ n2) := by
  intro hs
  obtain ⟨w2, f2⟩ := h2 hs
  obtain ⟨w1, f1⟩ := h1 (hm.2 hs)
  refine ⟨fun v h => w1 v (w2 v h), ?_⟩
  intro σ σ' h
  rcases exec_append.1 h with ⟨hf, _⟩ | ⟨σ1, e1, e2⟩
  · cases hf
  · obtain ⟨p1, m1⟩ := f1 σ σ1 e1
    obtain ⟨p2, m2⟩ := f2 σ1 σ' e2
    refine ⟨p2.trans p1, fun v hv => ?_⟩
    rw [m2 v hv, m1 v (w2 v hv)]

/-- The end states of a simulation are end states. -/
theorem Sim.fin_strengthen {Q : State w → State w → Prop} {a b : List (Instr w)} {σS σE : State w}
    (h : Sim Q a b σS σE) :
    Sim (fun x y => Q x y ∧ Exec a σS (.fin x) ∧ Exec b σE (.fin y)) a b σS σE := by
  refine ⟨?_, h.stopL, h.partL, ?_, h.stopR, h.partR⟩
  · intro x hx
    obtain ⟨y, hy, hq⟩ := h.finL x hx
    exact ⟨y, hy, hq, hx, hy⟩
  · intro y hy
    obtain ⟨x, hx, hq⟩ := h.finR y hy
    exact ⟨x, hx, hq, hx, hy⟩

/-! ### relativized to valid states

(Only the FIRST of the two runs has to be valid: the second one agrees with it on everything that is read.)
For loops the footprint only holds for states that really occur (e.g. a cell recorded as definitely written by
a loop that "runs at least once" is written only if the claim about the loop is true): `V` is the set of valid
start states (those related to some state of the source program). -/

/-- The state of the emitted program is related to some state of the source program. -/
def Valid (sh : Int) (s : Rebuild w) (ps : List (Rebuild w)) (σ : State w) : Prop :=
  ∃ M0 σS, RelAt sh s ps M0 σ σS

/-- … and the source state satisfies the guard `G` (facts known about the source states that really occur). -/
def ValidG (G : State w → Prop) (sh : Int) (s : Rebuild w) (ps : List (Rebuild w)) (σ : State w) : Prop :=
  ∃ M0 σS, RelAt sh s ps M0 σ σS ∧ G σS

def FootStepV (V : State w → Prop) (s s' : Rebuild w) (new : List (Instr w)) : Prop :=
  s'.subShift = false →
  ∀ (K : Int → Prop), (∀ v, K v → v ∉ s'.reads) →
  ∀ σ1 σ2 : State w, V σ1 → AgreeOff (Rest K s) σ1 σ2 →
    Sim (fun a b => AgreeOff (Rest K s') a b) new new σ1 σ2

def FrameStepV (V : State w → Prop) (s s' : Rebuild w) (new : List (Instr w)) : Prop :=
  s'.subShift = false →
  (∀ v, mGet s'.written v = none → mGet s.written v = none) ∧
  ∀ σ σ' : State w, V σ → Exec new σ (.fin σ') →
    σ'.ptr = σ.ptr ∧ ∀ v, mGet s'.written v = none → memE σ' v = memE σ v

/-- Badness (reaching a `once` loop with a zero condition) is mirrored along the footprint: if the second run
goes bad so does the (valid) first one. -/
def FootBadV (V : State w → Prop) (s s' : Rebuild w) (new : List (Instr w)) : Prop :=
  s'.subShift = false →
  ∀ (K : Int → Prop), (∀ v, K v → v ∉ s'.reads) →
  ∀ σ1 σ2 : State w, V σ1 → AgreeOff (Rest K s) σ1 σ2 → Bad new σ2 → Bad new σ1

/-- Write frame along the footprint: in a run that mirrors a valid run, the pointer comes back and the cells
that are neither keys of `written` nor in `reads` are untouched.  (For most code this holds for every run,
syntactically; for a loop that is known never to exit once entered (`noEffect`) it holds because a run that
reaches the end has not entered the loop.) -/
def FootFrameV (V : State w → Prop) (s s' : Rebuild w) (new : List (Instr w)) : Prop :=
  s'.subShift = false →
  ∀ (K : Int → Prop), (∀ v, K v → v ∉ s'.reads) →
  ∀ σ1 σ2 : State w, V σ1 → AgreeOff (Rest K s) σ1 σ2 → ∀ b, Exec new σ2 (.fin b) →
    b.ptr = σ2.ptr ∧ ∀ v, v ∉ mKeys s'.written → v ∉ s'.reads → memE b v = memE σ2 v

/-- `written` keys only grow (while no uncertain move happens). -/
def KeysMono' (s s' : Rebuild w) : Prop :=
  s'.subShift = false → ∀ v, v ∈ mKeys s.written → v ∈ mKeys s'.written

theorem FootFrameV.trans {V V' : State w → Prop} {a b c : Rebuild w} {n1 n2 : List (Instr w)}
    (f1 : FootFrameV V a b n1) (h1 : FootStepV V a b n1) (f2 : FootFrameV V' b c n2)
    (hv : ∀ σ σ', V σ → Exec n1 σ (.fin σ') → V' σ') (hm : ReadsMono b c) (hk : KeysMono' b c) :
    FootFrameV V a c (n1 ++ n2) := by
  intro hs K hK σ1 σ2 v1 hag bb hex
  have hsb := hm.2 hs
  have hKb : ∀ v, K v → v ∉ b.reads := fun v hv' hr => hK v hv' (hm.1 v hr)
  rcases exec_append.1 hex with ⟨hf, _⟩ | ⟨σ2', e1, e2⟩
  · cases hf
  · obtain ⟨σ1', e1', hag'⟩ := (h1 hsb K hKb σ1 σ2 v1 hag).finR σ2' e1
    obtain ⟨p1, m1⟩ := f1 hsb K hKb σ1 σ2 v1 hag σ2' e1
    obtain ⟨p2, m2⟩ := f2 hs K hK σ1' σ2' (hv σ1 σ1' v1 e1') hag' bb e2
    refine ⟨p2.trans p1, fun v hv1 hv2 => ?_⟩
    rw [m2 v hv1 hv2]
    exact m1 v (fun h => hv1 (hk hs v h)) (fun h => hv2 (hm.1 v h))

theorem FootStep.toV {s s' : Rebuild w} {new : List (Instr w)} (h : FootStep s s' new) (V : State w → Prop) :
    FootStepV V s s' new := fun hs K hK σ1 σ2 _ hag => h hs K hK σ1 σ2 hag

theorem FrameStep.toV {s s' : Rebuild w} {new : List (Instr w)} (h : FrameStep s s' new) (V : State w → Prop) :
    FrameStepV V s s' new := fun hs => ⟨(h hs).1, fun σ σ' _ hex => (h hs).2 σ σ' hex⟩

theorem FootStepV.trans {V V' : State w → Prop} {a b c : Rebuild w} {n1 n2 : List (Instr w)}
    (h1 : FootStepV V a b n1) (h2 : FootStepV V' b c n2)
    (hv : ∀ σ σ', V σ → Exec n1 σ (.fin σ') → V' σ') (hm : ReadsMono b c) : FootStepV V a c (n1 ++ n2) := by
  intro hs K hK σ1 σ2 v1 h
  have hs1 := (h1 (hm.2 hs) K (fun v hv' hr => hK v hv' (hm.1 v hr)) σ1 σ2 v1 h).fin_strengthen
  refine Sim.append hs1 ?_
  rintro x y ⟨hxy, hx, _⟩
  exact h2 hs K hK x y (hv σ1 x v1 hx) hxy

theorem FrameStepV.trans {V V' : State w → Prop} {a b c : Rebuild w} {n1 n2 : List (Instr w)}
    (h1 : FrameStepV V a b n1) (h2 : FrameStepV V' b c n2)
    (hv : ∀ σ σ', V σ → Exec n1 σ (.fin σ') → V' σ') (hm : ReadsMono b c) : FrameStepV V a c (n1 ++ n2) := by
  intro hs
  obtain ⟨w2, f2⟩ := h2 hs
  obtain ⟨w1, f1⟩ := h1 (hm.2 hs)
  refine ⟨fun v h => w1 v (w2 v h), ?_⟩
  intro σ σ' hvσ h
  rcases exec_append.1 h with ⟨hf, _⟩ | ⟨σ1, e1, e2⟩
  · cases hf
  · obtain ⟨p1, m1⟩ := f1 σ σ1 hvσ e1
    obtain ⟨p2, m2⟩ := f2 σ1 σ' (hv σ σ1 hvσ e1) e2
    refine ⟨p2.trans p1, fun v hv' => ?_⟩
    rw [m2 v hv', m1 v (w2 v hv')]

end OptProof
end Hpbf
