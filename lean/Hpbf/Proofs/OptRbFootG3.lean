/-
Rebuild-round proofs: the FOOTPRINT of `loopInsideIf` without the hypothesis `hGcT` (the child's guard trivial for real
loops), and with `AskStable` instead of `ShiftFree` (as `loopInsideIf_ok_g`).  Proofs as in `OptRbFoot8.lean`.
-/
import Hpbf.Proofs.OptRbFootG2
import Hpbf.Proofs.OptRbLoopInG

namespace Hpbf
namespace OptProof
open Opt OptSem Ir

variable {w : Nat}

/-- The first half of `loopInsideIf`: the block itself. -/
theorem loopInsideIf_first_foot_g {shP shC shS cS : Int} {bodyS : List (Instr w)} {oS : Bool} {isLoop : Bool}
    {s : Rebuild w} {ps : List (Rebuild w)} {sub : Rebuild w} {cond : Int} {L : OptLoop w}
    {C : List Int} {pc : List (Rebuild w)} {sub0 : Rebuild w} {os os' : Orders} {s' : Rebuild w}
    {G Gc : State w → Prop}
    (hr : ((if L.atMostOnce then Opt.inline s ps sub
      else if L.finite && sub.shift == s.shift && sub.insts.isEmpty && sub.pending.length == 1
          && mHas sub.pending cond then performAll s ps 0 [(cond, Expr.val 0#w)]
      else loopOrIf s ps sub cond true L C : M (Rebuild w))).run os = .ok (s', os'))
    (hwf : Wf s) (hsf : sub.subShift = false → AskStable s sub.shift) (hcond : cond = cS + shP)
    (hsh : shC + shS = (sub.shift - s.shift) + shP)
    (hrep : ChildRep Gc shP shC pc sub0 [] sub bodyS)
    (hentry : ∀ σE σS : State w, SameMem shP σS σE → σS.rd cS ≠ 0#w → Gc σS →
      ∃ M0, RelAt shP sub0 pc M0 σE σS)
    (hGc : ∀ M0 σE σS, RelAt shP s ps M0 σE σS → G σS → ∀ k σk, Head cS shS bodyS σS k σk →
      (L.atMostOnce = true → k = 0) → σk.rd cS ≠ 0#w → Gc σk)
    (hwfc : Wf sub)
    (hpre : sub.subShift = false → ChildPre Gc shP shC pc sub0 sub cS bodyS)
    (hkv : sub.subShift = false →
      ∀ v e, mGet sub.written v = some (.known e) → ∀ x ∈ Expr.variables e, x ∈ sub.reads)
    (hF : LoopFacts G shP s ps isLoop cS shS bodyS oS L C)
    (hamoalo : L.atMostOnce = true → L.atLeastOnce = true) :
    Wf s' ∧ ∃ new, s'.insts = s.insts ++ new ∧ FootAll (ValidG G shP s ps) s s' new := by
  -- the emitted instructions and `Wf` from the semantic lemma
  obtain ⟨hwf', _, _, _, new, _, _, hi, _⟩ :=
    loopInsideIf_first_g hr hwf hsf hcond hsh hrep hentry hGc hwfc hpre hkv hF hamoalo
  refine ⟨hwf', new, hi, ?_⟩
  split at hr
  · -- inlined
    rename_i hamo
    have hne : ∀ M0 σE σS, RelAt shP s ps M0 σE σS → G σS → σS.rd cS ≠ 0#w := hF.alo (hamoalo hamo)
    cases hss : sub.subShift with
    | true =>
      obtain ⟨h1, h2, _⟩ := inline_shift_void hr hwf hss
      exact FootAll.void h1 h2 new
    | false =>
      obtain ⟨new', hi', a1, a2, a3, a4, a5⟩ := inline_stay_foot hr hwf (hpre hss) hne
        (fun M0 σE σS hrel hg => hGc M0 σE σS hrel hg 0 σS Head.zero (fun _ => rfl) (hne M0 σE σS hrel hg))
      have : new' = new := List.append_cancel_left (hi'.symm.trans hi)
      subst this
      exact ⟨a1, a2, a3, a4, a5⟩
  · rename_i hamo
    have hil : isLoop = true := by
      cases h : isLoop with
      | true => rfl
      | false => exact absurd (hF.ifamo h) hamo
    subst hil
    split at hr
    · -- `cond := 0`
      obtain ⟨new', hi', _, a1, a2, a3, a4, a5⟩ := performAll_footAll (V := ValidG G shP s ps) hr hwf
      have : new' = new := List.append_cancel_left (hi'.symm.trans hi)
      subst this
      exact ⟨a1, a2, a3, a4, a5⟩
    · cases hns : (sub.subShift || sub.shift != s.shift) with
      | true =>
        obtain ⟨h1, h2, _⟩ := loopOrIf_shift_foot hr hwf hwfc hns
        exact FootAll.void h1 h2 new
      | false =>
        have hss : sub.subShift = false := by
          simp only [Bool.or_eq_false_iff] at hns; exact hns.1
        have hse : sub.shift = s.shift := by
          simp only [Bool.or_eq_false_iff, bne_eq_false_iff_eq] at hns; exact hns.2
        have hGc' : ∀ M0 σE σS, RelAt shP s ps M0 σE σS → G σS → ∀ k σk, Head cS shS bodyS σS k σk →
            (true = false → k = 0) → σk.rd cS ≠ 0#w → Gc σk :=
          fun M0 σE σS hrel hg k σk hh _ hne' => hGc M0 σE σS hrel hg k σk hh (fun h => absurd h hamo) hne'
        have hsh' : shC + shS = shP := by rw [hsh, hse]; omega
        obtain ⟨n1, e1, a1, a4, a5⟩ := loopOrIf_stay_foot_g' (oS := oS) hr hwf (hpre hss) hns hcond hsh' hGc'
          hF.alo hF.nc hF.ne hF.const
        obtain ⟨n2, e2, a2⟩ := loopOrIf_stay_footBad_g (G := G) hr hwf (hpre hss) hns hcond hsh' hGc'
        obtain ⟨n3, e3, a3⟩ := loopOrIf_stay_footFrame_g (oS := oS) hr hwf (hpre hss) hns hcond hsh' hGc'
          hF.alo hF.nc hF.ne hF.const
        have h1 : n1 = new := List.append_cancel_left (e1.symm.trans hi)
        have h2 : n2 = new := List.append_cancel_left (e2.symm.trans hi)
        have h3 : n3 = new := List.append_cancel_left (e3.symm.trans hi)
        subst h1
        rw [h2] at a2
        rw [h3] at a3
        refine ⟨a1, a2, a3, a4, ?_⟩
        intro hs v hv
        exact keys_of_none_mono (a5 hs) hv

/-- `loopInsideIf`: the block, then the operations moved behind it. -/
theorem loopInsideIf_foot_g {shP shC shS cS : Int} {bodyS : List (Instr w)} {oS : Bool} {isLoop : Bool}
    {s : Rebuild w} {ps : List (Rebuild w)} {sub : Rebuild w} {cond : Int} {L : OptLoop w}
    {after : List (Int × Expr w)}
    {C : List Int} {pc : List (Rebuild w)} {sub0 : Rebuild w} {os os' : Orders} {s' : Rebuild w}
    {G Gc : State w → Prop}
    (hr : (loopInsideIf s ps sub cond L after C).run os = .ok (s', os'))
    (hwf : Wf s) (hsf : sub.subShift = false → AskStable s sub.shift) (hcond : cond = cS + shP)
    (hsh : shC + shS = (sub.shift - s.shift) + shP)
    (hrep : ChildRep Gc shP shC pc sub0 [] sub bodyS)
    (hentry : ∀ σE σS : State w, SameMem shP σS σE → σS.rd cS ≠ 0#w → Gc σS →
      ∃ M0, RelAt shP sub0 pc M0 σE σS)
    (hGc : ∀ M0 σE σS, RelAt shP s ps M0 σE σS → G σS → ∀ k σk, Head cS shS bodyS σS k σk →
      (L.atMostOnce = true → k = 0) → σk.rd cS ≠ 0#w → Gc σk)
    (hwfc : Wf sub)
    (hpre : sub.subShift = false → ChildPre Gc shP shC pc sub0 sub cS bodyS)
    (hkv : sub.subShift = false →
      ∀ v e, mGet sub.written v = some (.known e) → ∀ x ∈ Expr.variables e, x ∈ sub.reads)
    (hF : LoopFacts G shP s ps isLoop cS shS bodyS oS L C)
    (hamoalo : L.atMostOnce = true → L.atLeastOnce = true)
    (_hafter : after ≠ [] → shP = 0 ∧ sub.shift = s.shift) :
    ∃ new, s'.insts = s.insts ++ new ∧ FootStepV (ValidG G shP s ps) s s' new ∧
      FootBadV (ValidG G shP s ps) s s' new ∧ FootFrameV (ValidG G shP s ps) s s' new ∧
      ReadsMono s s' ∧ KeysMono' s s' := by
  obtain ⟨s1, os1, h1, h2⟩ := loopInsideIf_run hr
  obtain ⟨hwf1, new1, hi1, hf1⟩ :=
    loopInsideIf_first_foot_g h1 hwf hsf hcond hsh hrep hentry hGc hwfc hpre hkv hF hamoalo
  obtain ⟨new2, hi2, _, b1, b2, b3, b4, b5⟩ := performAll_footAll (V := fun _ => True) h2 hwf1
  exact ⟨new1 ++ new2, by rw [hi2, hi1, List.append_assoc],
    FootAll.trans hf1 ⟨b1, b2, b3, b4, b5⟩ (fun _ _ _ _ => trivial)⟩
end OptProof
end Hpbf

#print axioms Hpbf.OptProof.loopInsideIf_first_foot_g
#print axioms Hpbf.OptProof.loopInsideIf_foot_g
