/-
C02 (`allocate_temps`), part 4: association lists, the free lists, and the register part of the invariant.
-/
import Hpbf.Proofs.C02AllocPre
set_option linter.unusedSimpArgs false

namespace Hpbf
namespace C02
namespace Alloc

open Bc BcWf BcGen C11

variable {w : Nat}

/-! ### association lists -/

section AL
variable {κ ν : Type} [DecidableEq κ]

theorem alGet_alSet (l : List (κ × ν)) (k k' : κ) (v : ν) :
    alGet (alSet l k v) k' = if k = k' then some v else alGet l k' := by
  induction l with
  | nil => simp [alSet, alGet]
  | cons p rest ih =>
    obtain ⟨k0, v0⟩ := p
    simp only [alSet]
    by_cases h0 : k0 = k
    · subst h0
      simp only [if_true, alGet]
      by_cases h1 : k0 = k' <;> simp [h1]
    · simp only [h0, if_false, alGet, ih]
      by_cases h1 : k0 = k'
      · subst h1; simp [Ne.symm h0]
      · simp [h1]

theorem alGet_alSet_self (l : List (κ × ν)) (k : κ) (v : ν) : alGet (alSet l k v) k = some v := by
  rw [alGet_alSet]; simp

theorem alGet_alSet_ne (l : List (κ × ν)) {k k' : κ} (v : ν) (h : k ≠ k') :
    alGet (alSet l k v) k' = alGet l k' := by
  rw [alGet_alSet]; simp [h]

theorem alGet_none_of_not_mem (l : List (κ × ν)) (k : κ) (h : k ∉ l.map (·.1)) : alGet l k = none := by
  induction l with
  | nil => rfl
  | cons p rest ih =>
    obtain ⟨k0, v0⟩ := p
    simp only [List.map_cons, List.mem_cons, not_or] at h
    simp only [alGet, Ne.symm h.1, if_false]
    exact ih h.2

theorem mem_keys_of_alGet (l : List (κ × ν)) (k : κ) (v : ν) (h : alGet l k = some v) : k ∈ l.map (·.1) := by
  by_cases hm : k ∈ l.map (·.1)
  · exact hm
  · rw [alGet_none_of_not_mem l k hm] at h; cases h

theorem keys_alSet (l : List (κ × ν)) (k : κ) (v : ν) :
    (alSet l k v).map (·.1) = if k ∈ l.map (·.1) then l.map (·.1) else l.map (·.1) ++ [k] := by
  induction l with
  | nil => simp [alSet]
  | cons p rest ih =>
    obtain ⟨k0, v0⟩ := p
    simp only [alSet]
    by_cases h0 : k0 = k
    · subst h0; simp
    · simp only [h0, if_false, List.map_cons, ih, List.mem_cons, Ne.symm h0, false_or]
      split <;> simp

theorem nodup_keys_alSet (l : List (κ × ν)) (k : κ) (v : ν) (h : (l.map (·.1)).Nodup) :
    ((alSet l k v).map (·.1)).Nodup := by
  rw [keys_alSet]
  split
  · exact h
  · rename_i hk
    rw [List.nodup_append]
    refine ⟨h, by simp, ?_⟩
    intro a ha b hb
    rw [List.mem_singleton] at hb
    subst hb
    intro e; subst e; exact hk ha

theorem alGet_alErase_ne (l : List (κ × ν)) {k k' : κ} (h : k ≠ k') :
    alGet (alErase l k) k' = alGet l k' := by
  induction l with
  | nil => rfl
  | cons p rest ih =>
    obtain ⟨k0, v0⟩ := p
    simp only [alErase]
    by_cases h0 : k0 = k
    · subst h0; simp [alGet, h]
    · simp [h0, alGet, ih]

theorem keys_alErase_sublist (l : List (κ × ν)) (k : κ) :
    ((alErase l k).map (·.1)).Sublist (l.map (·.1)) := by
  induction l with
  | nil => exact List.Sublist.refl _
  | cons p rest ih =>
    obtain ⟨k0, v0⟩ := p
    simp only [alErase]
    by_cases h0 : k0 = k
    · simp only [h0, if_true, List.map_cons]; exact List.sublist_cons_self _ _
    · simp only [h0, if_false, List.map_cons]; exact ih.cons_cons _

theorem nodup_keys_alErase (l : List (κ × ν)) (k : κ) (h : (l.map (·.1)).Nodup) :
    ((alErase l k).map (·.1)).Nodup := h.sublist (keys_alErase_sublist l k)

theorem alGet_alErase_self (l : List (κ × ν)) (k : κ) (h : (l.map (·.1)).Nodup) :
    alGet (alErase l k) k = none := by
  induction l with
  | nil => rfl
  | cons p rest ih =>
    obtain ⟨k0, v0⟩ := p
    simp only [List.map_cons, List.nodup_cons] at h
    simp only [alErase]
    by_cases h0 : k0 = k
    · subst h0
      simp only [if_true]
      exact alGet_none_of_not_mem _ _ h.1
    · simp only [h0, if_false, alGet]
      exact ih h.2

theorem alGet_alErase (l : List (κ × ν)) (k k' : κ) (h : (l.map (·.1)).Nodup) :
    alGet (alErase l k) k' = if k = k' then none else alGet l k' := by
  by_cases hk : k = k'
  · subst hk; simp [alGet_alErase_self l k h]
  · simp [hk, alGet_alErase_ne l hk]

end AL

/-! ### heaps and sets -/

theorem mem_minPush {x y : Nat} {l : List Nat} : y ∈ minPush x l ↔ y = x ∨ y ∈ l := by
  induction l with
  | nil => simp [minPush]
  | cons z zs ih =>
    simp only [minPush]
    split
    · simp only [List.mem_cons, ih]
      constructor
      · rintro (h | h | h)
        · exact Or.inr (Or.inl h)
        · exact Or.inl h
        · exact Or.inr (Or.inr h)
      · rintro (h | h | h)
        · exact Or.inr (Or.inl h)
        · exact Or.inl h
        · exact Or.inr (Or.inr h)
    · simp only [List.mem_cons]

theorem nodup_minPush {x : Nat} {l : List Nat} (hx : x ∉ l) (hl : l.Nodup) : (minPush x l).Nodup := by
  induction l with
  | nil => simp [minPush]
  | cons z zs ih =>
    simp only [minPush]
    simp only [List.mem_cons, not_or] at hx
    rw [List.nodup_cons] at hl
    split
    · rw [List.nodup_cons]
      refine ⟨?_, ih hx.2 hl.2⟩
      rw [mem_minPush]
      rintro (h | h)
      · exact hx.1 h.symm
      · exact hl.1 h
    · rw [List.nodup_cons]
      refine ⟨?_, List.nodup_cons.2 hl⟩
      simp only [List.mem_cons, not_or]
      exact hx

theorem mem_setErase {x y : Nat} {l : List Nat} : y ∈ setErase l x ↔ y ∈ l ∧ y ≠ x := by
  simp [setErase]

theorem mem_setInsert {x y : Nat} {l : List Nat} : y ∈ setInsert l x ↔ y ∈ l ∨ y = x := by
  unfold setInsert
  split
  · rename_i h
    constructor
    · exact Or.inl
    · rintro (h' | rfl)
      · exact h'
      · simpa using h
  · simp

theorem hasWriteInRange_congr {s s' : St w} (h : s'.writes = s.writes) (m : Int) (lo hi : Nat) :
    hasWriteInRange s' m lo hi = hasWriteInRange s m lo hi := by
  unfold hasWriteInRange; rw [h]

/-- Use of a negative write check. -/
theorem no_write_of_check {s : St w} (hp : AllocPre s) {m : Int} {lo hi j : Nat} {ins : Instr w}
    (hc : hasWriteInRange s m lo hi = false) (hlo : lo ≤ j) (hhi : j < hi) (hj0 : s.insts[j]? = some ins) :
    m ∉ memDefs ins := by
  intro hm
  obtain ⟨ws, hws, hj⟩ := hp.writes j ins m hj0 hm
  unfold hasWriteInRange at hc
  have hlt : lo < hi := Nat.lt_of_le_of_lt hlo hhi
  simp only [hws, hlt, decide_true, Bool.true_and] at hc
  have : (ws.any fun x => decide (lo ≤ x) && decide (x < hi)) = true := by
    rw [List.any_eq_true]
    exact ⟨j, hj, by simp [hlo, hhi]⟩
  rw [this] at hc
  cases hc

/-! ### instructions -/

theorem arith?_eq_some {x : Instr w} {op : BcGen.Op} {d a b : Loc w} :
    arith? x = some (op, d, a, b) ↔ x = mkArith op d a b := by
  cases x <;> cases op <;> simp [arith?, mkArith] <;> (try (constructor <;> (rintro ⟨rfl, rfl, rfl⟩; exact ⟨rfl, rfl, rfl⟩)))

theorem arith?_mkArith (op : BcGen.Op) (d a b : Loc w) : arith? (mkArith op d a b) = some (op, d, a, b) :=
  arith?_eq_some.2 rfl

end Alloc
end C02
end Hpbf
