/-
Loop optimisations of `Hpbf/Opt.lean`, HORIZON variants (part C, one variable): the closed forms of `loopMotion`
for a trip count `n ≤ N`, with the facts about the run known only for the real rounds `k < N`.
-/
import Hpbf.Proofs.OptLoopHSem

namespace Hpbf.OptLoop
open Hpbf Opt OptSem Expr

variable {w : Nat}

/-- `MotionCtx` with a horizon `N`. -/
structure MotionCtxH (s : Rebuild w) (ps : List (Rebuild w)) (sub : Rebuild w) (C : List Int)
    (lin : List (Int × Expr w)) (m0 : Mem w) (body : Nat → Mem w → Mem w) (N : Nat) : Prop where
  constRun : ∀ k, k ≤ N → ∀ c, C.contains c = true → run body sub.pending m0 k c = m0 c
  constMid : ∀ k, k < N → ∀ c, C.contains c = true → mid body sub.pending m0 k c = m0 c
  known : ∀ i c, C.contains i = true → getConstant s ps i = some c → m0 i = c
  lin : ∀ v inc, mGet lin v = some inc → LinSoundH sub C (run body sub.pending m0) N v inc
  body : BodyFactsH sub body (run body sub.pending m0) N

theorem MotionCtx.toH {s : Rebuild w} {ps : List (Rebuild w)} {sub : Rebuild w} {C : List Int}
    {lin : List (Int × Expr w)} {m0 : Mem w} {body : Nat → Mem w → Mem w}
    (h : MotionCtx s ps sub C lin m0 body) (N : Nat) : MotionCtxH s ps sub C lin m0 body N :=
  ⟨fun k _ c hc => (h.const k c hc).1, fun k _ c hc => (h.const k c hc).2, h.known,
    fun v inc hv => let r := h.lin v inc hv
      ⟨r.unwritten, r.overConst, r.fresh, fun k _ => r.step k, fun k _ => r.closed k⟩,
    h.body.toH N⟩

theorem MotionCtxH.mono {s : Rebuild w} {ps : List (Rebuild w)} {sub : Rebuild w} {C : List Int}
    {lin : List (Int × Expr w)} {m0 : Mem w} {body : Nat → Mem w → Mem w} {N N' : Nat}
    (h : MotionCtxH s ps sub C lin m0 body N) (hle : N' ≤ N) : MotionCtxH s ps sub C lin m0 body N' :=
  ⟨fun k hk => h.constRun k (by omega), fun k hk => h.constMid k (by omega), h.known,
    fun v inc hv => let r := h.lin v inc hv
      ⟨r.unwritten, r.overConst, r.fresh, fun k hk => r.step k (by omega),
        fun k hk => r.closed k (by omega)⟩,
    h.body.mono hle⟩

section
variable {s : Rebuild w} {ps : List (Rebuild w)} {sub : Rebuild w} {C : List Int}
  {lin : List (Int × Expr w)} {m0 : Mem w} {body : Nat → Mem w → Mem w} {N : Nat}

theorem reduce_mid_h (ctx : MotionCtxH s ps sub C lin m0 body N) {p p' : Expr w}
    (hp' : reduceConst s ps p C = .ok p') (k : Nat) (hk : k < N) :
    ev p' (mid body sub.pending m0 k) = ev p (mid body sub.pending m0 k) :=
  reduceConst_value s ps p p' C hp' _ (fun i _ hi c hc => by
    rw [ctx.constMid k hk i hi]; exact ctx.known i c hi hc)

theorem reduce_run_h (ctx : MotionCtxH s ps sub C lin m0 body N) {p p' : Expr w}
    (hp' : reduceConst s ps p C = .ok p') (k : Nat) (hk : k ≤ N) :
    ev p' (run body sub.pending m0 k) = ev p (run body sub.pending m0 k) :=
  reduceConst_value s ps p p' C hp' _ (fun i _ hi c hc => by
    rw [ctx.constRun k hk i hi]; exact ctx.known i c hi hc)

theorem ev_mid_const_h (ctx : MotionCtxH s ps sub C lin m0 body N) (e : Expr w)
    (he : ∀ x ∈ Expr.variables e, C.contains x = true) (k : Nat) (hk : k < N) :
    ev e (mid body sub.pending m0 k) = ev e m0 :=
  ev_congr e _ _ (fun x hx => ctx.constMid k hk x (he x hx))

theorem linPart_mid_h (ctx : MotionCtxH s ps sub C lin m0 body N) {e : Expr w} {il : Expr w × Expr w}
    (h : LinPart C lin e il) (k : Nat) (hk : k < N) :
    ev il.1 (mid body sub.pending m0 k) = ev il.1 m0 + BitVec.ofNat w k * ev il.2 m0 := by
  obtain ⟨part, lv, l, _, _, _, _, hl, hall, hval⟩ := linPart_value h
  have hls := ctx.lin lv l hl
  have hq : ev [incPart part lv] (mid body sub.pending m0 k) = ev [incPart part lv] m0 := by
    apply ev_mid_const_h ctx _ _ k hk
    intro x hx
    have hx' : x ∈ part.vars.filter (fun x => !(x == lv)) := by
      simpa [Expr.variables, incPart] using hx
    obtain ⟨hxm, hne⟩ := List.mem_filter.1 hx'
    rcases hall x hxm with rfl | hc
    · simp at hne
    · exact hc
  have hlv : mid body sub.pending m0 k lv = m0 lv + BitVec.ofNat w k * ev l m0 := by
    rw [mid, ctx.body.unwritten k hk lv hls.unwritten, hls.closed k (by omega)]; rfl
  rw [(hval _).1, (hval m0).1, (hval m0).2, hq, hlv]
  generalize ev [incPart part lv] m0 = q
  generalize ev l m0 = l0
  generalize m0 lv = a
  bvring

/-- `triFold_spec` needing the linear parts only for the rounds `k < n`. -/
theorem triFold_spec_h (expr : Expr w) (n : Nat) (m0 : Mem w) (E : Nat → Mem w) (htri : TriOk expr n m0)
    (linears : List (Expr w × Expr w))
    (hlin : ∀ il ∈ linears, ∀ k, k < n → ev il.1 (E k) = ev il.1 m0 + BitVec.ofNat w k * ev il.2 m0)
    (ba0 : Expr w × Expr w) :
    ev (linears.foldl (triFoldStep expr) ba0).1 m0
        + accN (fun k => ev (linears.foldl (triFoldStep expr) ba0).2 (E k)) n
      = ev ba0.1 m0 + accN (fun k => ev ba0.2 (E k)) n
        + sumL (fun il => C01Opt.tri (ev il.1 m0) (ev il.2 m0) n) linears ∧
    (∀ q ∈ (linears.foldl (triFoldStep expr) ba0).2,
      (∃ t ∈ ba0.2, q.vars = t.vars) ∨ ∃ il ∈ linears, ∃ t ∈ il.1, q.vars = t.vars) := by
  induction linears generalizing ba0 with
  | nil => exact ⟨by simp, fun q hq => Or.inl ⟨q, hq, rfl⟩⟩
  | cons il linears ih =>
    rw [List.foldl_cons]
    obtain ⟨hval, hvars⟩ :=
      ih (fun il' h' => hlin il' (List.mem_cons_of_mem _ h')) (triFoldStep expr ba0 il)
    have hil := hlin il List.mem_cons_self
    constructor
    · rw [hval, sumL_cons]
      unfold triFoldStep
      simp only
      split
      · simp only [ev_add]
        rw [accN_add, accN_congr (fun k => ev il.1 (E k)) _ n (fun k hk => hil k hk), accN_lin]
        generalize ev ba0.1 m0 = a
        generalize accN (fun k => ev ba0.2 (E k)) n = b
        generalize C01Opt.tri (ev il.1 m0) (ev il.2 m0) n = c
        generalize sumL (fun il => C01Opt.tri (ev il.1 m0) (ev il.2 m0) n) linears = d
        bvring
      · rename_i hb
        have hb' : (OptArith.triStep expr il.1 il.2 ba0.1).1 ≠ 0 := by simpa using hb
        rw [htri il.1 il.2 ba0.1 (OptArith.triStep expr il.1 il.2 ba0.1).2
          (OptArith.triStep expr il.1 il.2 ba0.1).1 rfl hb']
        simp only
        generalize ev ba0.1 m0 = a
        generalize accN (fun k => ev ba0.2 (E k)) n = b
        generalize C01Opt.tri (ev il.1 m0) (ev il.2 m0) n = c
        generalize sumL (fun il => C01Opt.tri (ev il.1 m0) (ev il.2 m0) n) linears = d
        bvring
    · intro q hq
      rcases hvars q hq with ⟨t, ht, e⟩ | ⟨il', hil', t, ht, e⟩
      · unfold triFoldStep at ht
        simp only at ht
        split at ht
        · simp only at ht
          rcases mem_add_vars ht with ⟨t', ht', e'⟩ | ⟨t', ht', e'⟩
          · exact Or.inl ⟨t', ht', e.trans e'⟩
          · exact Or.inr ⟨il, List.mem_cons_self, t', ht', e.trans e'⟩
        · exact Or.inl ⟨t, ht, e⟩
      · exact Or.inr ⟨il', List.mem_cons_of_mem _ hil', t, ht, e⟩

/-- `tri` outcome, trip count `n ≤ N`. -/
theorem tri_sem_h (ctx : MotionCtxH s ps sub C lin m0 body N) {var : Int}
    {p p' expr inc cst other : Expr w} {linears : List (Expr w × Expr w)} {n : Nat} (hnN : n ≤ N)
    (hp : mGet sub.pending var = some p) (hunw : mGet sub.written var = none) (hcanon : Canon p)
    (hp' : reduceConst s ps p C = .ok p')
    (hev : ev expr m0 = BitVec.ofNat w n) (htri : TriOk expr n m0)
    (hpi : Expr.prodIncOf p' var = some (inc, 1#w))
    (hsplit : splitAlong inc C lin = .ok (cst, other, linears)) :
    MovedSem sub body m0 n var p
      (Expr.add (Expr.var var) (linears.foldl (triFoldStep expr) (Expr.mul expr cst, other)).1)
      (some (Expr.add (Expr.var var) (linears.foldl (triFoldStep expr) (Expr.mul expr cst, other)).2)) := by
  obtain ⟨hrec, hcstv, hcstsub, hothsub, hlinp⟩ := splitAlong_recompose inc C lin cst other linears hsplit
  have hwc : WeakCanon p' := C15.canon_implies_weakCanon (reduceConst_canon s ps p p' C hp' hcanon)
  have hstep : ∀ k, k < n → run body sub.pending m0 (k + 1) var
      = run body sub.pending m0 k var + ev inc (mid body sub.pending m0 k) := by
    intro k hk
    rw [run_pending hp, ← reduce_mid_h ctx hp' k (by omega)]
    show evaluate p' _ = _
    rw [C15.prodIncOf_recompose p' inc var 1#w _ hwc hpi, mid,
      ctx.body.unwritten k (by omega) var hunw, BitVec.one_mul]
    rfl
  have hsum := accN_run (fun k => run body sub.pending m0 k var)
    (fun k => ev inc (mid body sub.pending m0 k)) n hstep
  simp only [run_zero] at hsum
  have hinc : ∀ k, k < n → ev inc (mid body sub.pending m0 k)
      = ev cst m0 + ev other (mid body sub.pending m0 k)
        + sumL (fun il => ev il.1 m0 + BitVec.ofNat w k * ev il.2 m0) linears := by
    intro k hk
    rw [hrec, ev_mid_const_h ctx cst hcstv k (by omega)]
    congr 1
    clear hsum hstep hsplit hrec
    induction linears with
    | nil => rfl
    | cons il linears ih =>
      simp only [sumL_cons]
      rw [linPart_mid_h ctx (hlinp il List.mem_cons_self) k (by omega),
        ih (fun il' h' => hlinp il' (List.mem_cons_of_mem _ h'))]
  have hacc : accN (fun k => ev inc (mid body sub.pending m0 k)) n
      = BitVec.ofNat w n * ev cst m0 + accN (fun k => ev other (mid body sub.pending m0 k)) n
        + sumL (fun il => C01Opt.tri (ev il.1 m0) (ev il.2 m0) n) linears := by
    rw [accN_congr _ _ n (fun k hk => hinc k hk), accN_add, accN_add, accN_const, accN_sumL]
    congr 1
    clear hinc hsum hstep hsplit hrec hlinp
    induction linears with
    | nil => rfl
    | cons il linears _ => simp only [sumL_cons, accN_lin]
  obtain ⟨hfold, hfvars⟩ := triFold_spec_h expr n m0 (mid body sub.pending m0) htri linears
    (fun il hil k hk => linPart_mid_h ctx (hlinp il hil) k (by omega)) (Expr.mul expr cst, other)
  refine ⟨_, Or.inl rfl, ?_, ?_⟩
  · intro x hx
    obtain ⟨q, hq, hxq⟩ := mem_variables.1 hx
    have hqinc : ∃ t ∈ inc, q.vars = t.vars := by
      rcases hfvars q hq with ⟨t, ht, e⟩ | ⟨il, hil, t, ht, e⟩
      · exact ⟨t, hothsub t ht, e⟩
      · obtain ⟨part, lv, l, hpe, h1, _⟩ := hlinp il hil
        rw [h1] at ht
        simp only [List.mem_singleton] at ht
        subst ht
        exact ⟨t, hpe, e⟩
    obtain ⟨t, ht, e⟩ := hqinc
    have hxinc : x ∈ Expr.variables inc := mem_variables.2 ⟨t, ht, e ▸ hxq⟩
    have hxp' : x ∈ Expr.variables p' := mem_variables.2 ⟨t, prodIncOf_sub hpi t ht, e ▸ hxq⟩
    refine ⟨reduceConst_varsIn s ps p p' C hp' x hxp', ?_⟩
    rintro rfl
    exact C15.prodIncOf_fresh p' inc x 1#w hpi hxinc
  · rw [hsum, hacc, ev_add, ev_var]
    simp only [ev_mul, hev] at hfold
    generalize ev (linears.foldl (triFoldStep expr) (Expr.mul expr cst, other)).1 m0 = A at hfold ⊢
    generalize accN (fun k => ev (linears.foldl (triFoldStep expr) (Expr.mul expr cst, other)).2
      (mid body sub.pending m0 k)) n = B at hfold ⊢
    rw [BitVec.add_assoc, hfold]

/-- `geo0` / `geo` outcomes, trip count `n ≤ N`. -/
theorem geo_sem_h (hw : 0 < w) (ctx : MotionCtxH s ps sub C lin m0 body N) {var : Int}
    {p p' expr inc : Expr w} {mul c : BitVec w} {n : Nat} (hnN : n ≤ N)
    (hp : mGet sub.pending var = some p) (hunw : mGet sub.written var = none) (hcanon : Canon p)
    (hp' : reduceConst s ps p C = .ok p')
    (hev : ev expr m0 = BitVec.ofNat w n) (hlt : n < 2 ^ w)
    (hpi : Expr.prodIncOf p' var = some (inc, mul))
    (hc : Expr.constant expr = some c)
    (hinc : ∀ x ∈ Expr.variables inc, C.contains x = true) :
    run body sub.pending m0 n var
      = Cell.wrappingPow mul c * m0 var + OptArith.geomSum mul c * ev inc m0 := by
  have hwc : WeakCanon p' := C15.canon_implies_weakCanon (reduceConst_canon s ps p p' C hp' hcanon)
  have hstep : ∀ k, k < n → run body sub.pending m0 (k + 1) var
      = run body sub.pending m0 k var * mul + ev inc m0 := by
    intro k hk
    rw [run_pending hp, ← reduce_mid_h ctx hp' k (by omega)]
    show evaluate p' _ = _
    rw [C15.prodIncOf_recompose p' inc var mul _ hwc hpi, mid, ctx.body.unwritten k (by omega) var hunw]
    have := ev_mid_const_h ctx inc hinc k (by omega)
    unfold ev mid at this
    rw [this, BitVec.mul_comm]
    rfl
  have hiter : ∀ k, k ≤ n →
      run body sub.pending m0 k var = (fun x => x * mul + ev inc m0)^[k] (m0 var) := by
    intro k
    induction k with
    | zero => exact fun _ => rfl
    | succ k ih =>
      intro hk
      rw [hstep k (by omega), ih (by omega), Function.iterate_succ_apply']
  have hcn : c.toNat = n := by
    have : ev expr m0 = c := C15.constant_recompose expr c m0 hc
    rw [this] at hev
    rw [hev, BitVec.toNat_ofNat, Nat.mod_eq_of_lt hlt]
  rw [hiter n (Nat.le_refl n), ← hcn, C01Opt.affine_loop hw mul (ev inc m0) (m0 var) c]
  generalize Cell.wrappingPow mul c = P
  generalize OptArith.geomSum mul c = G
  generalize ev inc m0 = i
  generalize m0 var = a
  bvring

/-- **`loopMotion_sound`, moved variables, with a horizon**: trip count `n ≤ N`. -/
theorem loopMotion_moved_sound_h (hw : 0 < w) (ctx : MotionCtxH s ps sub C lin m0 body N) {var : Int}
    {p : Expr w} {complete : Bool} {reads otherPending : List Int} {L : OptLoop w} {n : Nat}
    {b : Expr w} {d a : Option (Expr w)} (hnN : n ≤ N)
    (hp : mGet sub.pending var = some p) (hcomp : complete = true → mGet sub.written var = none)
    (hcanon : Canon p) (htrip : TripFacts L n m0)
    (hcase : MotionCase s ps var p complete reads C lin otherPending L (some b, d, a)) :
    a = none ∧ reads.contains var = false ∧ complete = true ∧ C.contains var = false ∧
      MovedSem sub body m0 n var p b d := by
  generalize hr : (some b, d, a) = r at hcase
  cases hcase with
  | gone _ _ => cases hr
  | after p' _ _ _ => cases hr
  | stay p' _ => cases hr
  | tri p' expr inc cst other linears h1 h2 h3 hp' hexpr hpi hsplit =>
    simp only [Prod.mk.injEq, Option.some.injEq] at hr
    obtain ⟨rfl, rfl, rfl⟩ := hr
    obtain ⟨hev, _, htri⟩ := htrip expr hexpr
    exact ⟨rfl, h1, h2, h3, tri_sem_h ctx hnN hp (hcomp h2) hcanon hp' hev htri hpi hsplit⟩
  | geo0 p' expr inc mul c h1 h2 h3 hp' hexpr hpi hm1 hc hz =>
    simp only [Prod.mk.injEq, Option.some.injEq] at hr
    obtain ⟨rfl, rfl, rfl⟩ := hr
    obtain ⟨hev, hlt, _⟩ := htrip expr hexpr
    refine ⟨rfl, h1, h2, h3, [], Or.inr ⟨rfl, rfl⟩, fun x hx => (by cases hx), ?_⟩
    have := geo_sem_h hw ctx hnN hp (hcomp h2) hcanon hp' hev hlt hpi hc
      (by rw [hz]; intro x hx; cases hx)
    rw [this, hz]
    simp only [ev_nil, ev_mul, ev_val, ev_var, accN_zero_fn]
    simp
  | geo p' expr inc mul c h1 h2 h3 hp' hexpr hpi hm1 hc hall =>
    simp only [Prod.mk.injEq, Option.some.injEq] at hr
    obtain ⟨rfl, rfl, rfl⟩ := hr
    obtain ⟨hev, hlt, _⟩ := htrip expr hexpr
    refine ⟨rfl, h1, h2, h3, [], Or.inr ⟨rfl, rfl⟩, fun x hx => (by cases hx), ?_⟩
    have := geo_sem_h hw ctx hnN hp (hcomp h2) hcanon hp' hev hlt hpi hc hall
    rw [this]
    simp only [ev_nil, ev_add, ev_mul, ev_val, ev_var, accN_zero_fn]
    simp

/-- A moved variable (an outcome with a `before` expression) is not read, not written by the emitted
instructions and not constant — no trip count needed. -/
theorem moved_facts {var : Int} {p : Expr w} {complete : Bool} {reads otherPending : List Int}
    {L : OptLoop w} {b : Expr w} {d a : Option (Expr w)}
    (hcase : MotionCase s ps var p complete reads C lin otherPending L (some b, d, a)) :
    reads.contains var = false ∧ complete = true ∧ C.contains var = false := by
  generalize hr : (some b, d, a) = r at hcase
  cases hcase with
  | gone _ _ => cases hr
  | after p' _ _ _ => cases hr
  | stay p' _ => cases hr
  | tri p' expr inc cst other linears h1 h2 h3 _ _ _ _ => exact ⟨h1, h2, h3⟩
  | geo0 p' expr inc mul c h1 h2 h3 _ _ _ _ _ _ => exact ⟨h1, h2, h3⟩
  | geo p' expr inc mul c h1 h2 h3 _ _ _ _ _ _ => exact ⟨h1, h2, h3⟩

end

end Hpbf.OptLoop
