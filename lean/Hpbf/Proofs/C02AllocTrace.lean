/-
C02 (`allocate_temps`), part 8: the whole loop.  A successful run of `allocLoop` yields the sequence `tr 0 … tr n`
of states before each round; the invariant holds along it, finished instructions are never touched again,
and the location of a temporary is the same at every position of its range.
-/
import Hpbf.Proofs.C02AllocStep
set_option linter.unusedSimpArgs false

namespace Hpbf
namespace C02
namespace Alloc

open Bc BcWf BcGen C11

variable {w : Nat} {s : St w}

def initASt (numRegs : Nat) (s : St w) : ASt w :=
  { st := s, nextFresh := numRegs, freeRegs := List.range numRegs, freeTemps := [], nre := [], repl := [] }

theorem passInv_init (hp : AllocPre s) (numRegs : Nat) : PassInv s 0 (initASt numRegs s) := by
  refine ⟨rfl, rfl, fun t r h => ⟨r, h, rfl, rfl, fun _ => rfl⟩, fun j _ => Or.inl rfl, ?_, ?_, ?_, ?_, ?_, ?_⟩
  · intro j x hx
    exact ⟨hp.noZero j x hx, x, hx, rfl⟩
  · refine ⟨List.nodup_nil, ?_, ?_, List.nodup_range, List.nodup_nil, ?_, ?_⟩
    · intro t t' r h; simp [initASt, alGet] at h
    · intro t r h; simp [initASt, alGet] at h
    · intro r _ h; simp [initASt] at h
    · intro r h
      simp only [initASt, List.mem_range, List.not_mem_nil, or_false] at h
      exact h
  · intro t l h; simp [initASt, alGet] at h
  · intro t m h; simp [initASt, alGet] at h
  · intro e t h; simp [initASt] at h
  · intro f op m t s0 s1 h
    have h1 := h.2.1
    have h2 := h.2.2
    simp only [initASt] at h2
    rw [h1] at h2
    exact absurd (Option.some.inj h2).symm (mkArith_ne_copy _ _ _ _ _ _)

/-- The states before each round. -/
structure Trace (s : St w) (numRegs : Nat) (tr : Nat → ASt w) : Prop where
  init : tr 0 = initASt numRegs s
  step : ∀ k, k < s.insts.size → ∃ u, allocStep numRegs k (tr k) = .ok (u, tr (k + 1))

theorem allocLoop_trace (numRegs n : Nat) : ∀ (j : Nat) (a a' : ASt w) (u : Unit), j ≤ n →
    allocLoop numRegs n j a = .ok (u, a') →
    ∃ tr : Nat → ASt w, tr (n - j) = a ∧ tr n = a' ∧
      ∀ k, n - j ≤ k → k < n → ∃ u, allocStep numRegs k (tr k) = .ok (u, tr (k + 1)) := by
  intro j
  induction j with
  | zero =>
    intro a a' u _ h
    simp only [allocLoop] at h
    rw [pure_ok] at h
    obtain ⟨_, rfl⟩ := h
    exact ⟨fun _ => a', rfl, rfl, fun k h1 h2 => absurd h2 (by omega)⟩
  | succ j ih =>
    intro a a' u hj h
    simp only [allocLoop] at h
    rw [bind_ok] at h
    obtain ⟨u1, a1, h1, h2⟩ := h
    obtain ⟨tr', t1, t2, t3⟩ := ih a1 a' u (by omega) h2
    refine ⟨fun k => if k ≤ n - (j + 1) then a else tr' k, ?_, ?_, ?_⟩
    · simp
    · have : ¬ n ≤ n - (j + 1) := by omega
      simp only [this, if_false]; exact t2
    · intro k hk1 hk2
      by_cases hk : k = n - (j + 1)
      · subst hk
        have : ¬ (n - (j + 1) + 1 ≤ n - (j + 1)) := by omega
        simp only [Nat.le_refl, if_true, this, if_false]
        have e : n - (j + 1) + 1 = n - j := by omega
        rw [e, t1]
        exact ⟨u1, h1⟩
      · have g1 : ¬ k ≤ n - (j + 1) := by omega
        have g2 : ¬ k + 1 ≤ n - (j + 1) := by omega
        simp only [g1, g2, if_false]
        exact t3 k (by omega) hk2

theorem trace_of_allocateTemps {numRegs : Nat} {s' : St w} (h : allocateTemps numRegs s = .ok s') :
    ∃ tr, Trace s numRegs tr ∧ (tr s.insts.size).st = s' := by
  unfold allocateTemps at h
  simp only at h
  cases hr : (allocLoop numRegs s.insts.size s.insts.size).run
      { st := s, nextFresh := numRegs, freeRegs := List.range numRegs, freeTemps := [], nre := [], repl := [] } with
  | error e => rw [hr] at h; cases h
  | ok p =>
    obtain ⟨u, a⟩ := p
    rw [hr] at h
    simp only at h
    split at h
    · cases h
      obtain ⟨tr, t1, t2, t3⟩ := allocLoop_trace numRegs s.insts.size s.insts.size _ a u (Nat.le_refl _) hr
      refine ⟨tr, ⟨?_, fun k hk => t3 k (by omega) hk⟩, by rw [t2]⟩
      rw [Nat.sub_self] at t1
      exact t1
    · cases h

section
variable {numRegs : Nat} {tr : Nat → ASt w}

theorem trace_inv (hp : AllocPre s) (T : Trace s numRegs tr) : ∀ k, k ≤ s.insts.size → PassInv s k (tr k) := by
  intro k
  induction k with
  | zero => intro _; rw [T.init]; exact passInv_init hp numRegs
  | succ k ih =>
    intro hk
    obtain ⟨u, h⟩ := T.step k (by omega)
    exact (alloc_step hp (ih (by omega)) h).inv

theorem trace_sum (hp : AllocPre s) (T : Trace s numRegs tr) {k : Nat} (hk : k < s.insts.size) :
    StepSum s k (tr k) (tr (k + 1)) := by
  obtain ⟨u, h⟩ := T.step k hk
  exact alloc_step hp (trace_inv hp T k (by omega)) h

theorem stepKind_insts_lt {k : Nat} {a a' : ASt w} (h : StepKind s k a a') {j : Nat} (hj : j < k) :
    a'.st.insts[j]? = a.st.insts[j]? := by
  cases h with
  | other x hx hpl hq hi hr => exact hi j (by omega)
  | fuse op t s0 s1 f m hx hPk hkf hPf hfa hq hf hi hnone hr => exact hi j (by omega) (by omega)
  | rw cur new q hx hpl hn hq hi hd => exact hi j (by omega)

/-- Finished instructions are final. -/
theorem trace_insts_final (hp : AllocPre s) (T : Trace s numRegs tr) {j : Nat} :
    ∀ k, j < k → k ≤ s.insts.size → (tr k).st.insts[j]? = (tr (j + 1)).st.insts[j]? := by
  intro k
  induction k with
  | zero => intro h; omega
  | succ k ih =>
    intro h1 h2
    by_cases hk : k = j
    · subst hk; rfl
    · rw [stepKind_insts_lt (trace_sum hp T (by omega)).kind (by omega)]
      exact ih (by omega) (by omega)

theorem trace_live_size (hp : AllocPre s) (T : Trace s numRegs tr) :
    ∀ k, k ≤ s.insts.size → (tr k).st.live.size = k := by
  intro k
  induction k with
  | zero => intro _; rw [T.init]; exact hp.live0
  | succ k ih =>
    intro hk
    rw [(trace_sum hp T (by omega)).live, ih (by omega)]

/-- An entry present after round `k` for a temporary not created at `k` was present before. -/
theorem repl_back (hp : AllocPre s) {k : Nat} {a a' : ASt w} (h : StepKind s k a a') {t : Nat} {v : Loc w}
    (hv : alGet a'.repl t = some v) (hc : ∀ r : RangeInfo, s.ranges[t]? = some r → r.created ≠ k) :
    alGet a.repl t = some v := by
  cases h with
  | other x hx hpl hq hi hr => exact hr t v hv
  | fuse op t0 s0 s1 f m hx hPk hkf hPf hfa hq hf hi hnone hr =>
    rcases hr.2 t v hv with ⟨rfl, _⟩ | h
    · obtain ⟨r0, hr0, hcr0⟩ := hp.defs k _ t hPk (by rw [defs_mkArith]; simp [locTmp])
      exact absurd hcr0 (hc r0 hr0)
    · exact h
  | rw cur new q hx hpl hn hq hi hd =>
    rcases hd with ⟨_, _, h⟩ | ⟨t0, _, _, ⟨r0, hr0, hcr0⟩, h⟩
    · exact h t v hv
    · rcases h with ⟨_, h⟩ | ⟨src, _, _, _, h⟩ | ⟨r, _, h⟩
      · exact h t v hv
      · rcases h.2 t v hv with ⟨rfl, _⟩ | h
        · exact absurd hcr0 (hc r0 hr0)
        · exact h
      · rcases h.2 t v hv with ⟨rfl, _⟩ | h
        · exact absurd hcr0 (hc r0 hr0)
        · exact h

/-- The location of a temporary does not change inside its range. -/
theorem repl_stable (hp : AllocPre s) (T : Trace s numRegs tr) {t : Nat} {r : RangeInfo} {L : Nat}
    (hr : s.ranges[t]? = some r) (hL : r.lastUse = some L) {k1 : Nat} (h1 : r.created < k1) :
    ∀ k2, k1 ≤ k2 → k2 ≤ L → k2 ≤ s.insts.size → alGet (tr k2).repl t = alGet (tr k1).repl t := by
  intro k2
  induction k2 with
  | zero =>
    intro h _ _
    have : k1 = 0 := by omega
    subst this; rfl
  | succ k ih =>
    intro h2 h3 h4
    by_cases hk : k1 = k + 1
    · subst hk; rfl
    · have ih' := ih (by omega) (by omega) (by omega)
      rw [← ih']
      have S := trace_sum hp T (k := k) (by omega)
      cases hg : alGet (tr k).repl t with
      | some v =>
        rcases S.keep t v hg with h | h
        · exact h
        · have := h r L hr hL
          omega
      | none =>
        cases hg' : alGet (tr (k + 1)).repl t with
        | none => rfl
        | some v =>
          have := repl_back hp S.kind hg' (by
            intro r' hr'
            rw [hr] at hr'; cases hr'
            omega)
          rw [hg] at this; cases this

end

end Alloc
end C02
end Hpbf
