/-
One step of the lockstep simulation, straight-line instructions: `output`, `input`, `calc`.
-/
import Hpbf.Proofs.C01DseInv

namespace Hpbf
namespace C01Dse
open Ir OptDse

variable {w : Nat}

/-! ### I/O on two states that agree on what is observed -/

theorem output_congr {st st' : State w} {off : Int} (hptr : st'.ptr = st.ptr) (henv : st'.env = st.env)
    (htr : st'.trace = st.trace) (hrd : st'.rd off = st.rd off) :
    (st'.output off).1 = (st.output off).1 ∧ (st'.output off).2.env = (st.output off).2.env ∧
      (st'.output off).2.trace = (st.output off).2.trace ∧ (st'.output off).2.ptr = (st.output off).2.ptr ∧
      (st'.output off).2.tape = st'.tape ∧ (st.output off).2.tape = st.tape ∧
      (st.output off).2.ptr = st.ptr := by
  unfold State.output
  rw [hrd, henv]
  cases st.env.sink
  · simp [hptr, henv, htr]
  · cases hw : st.env.writeByte with
    | mk ok e => cases ok <;> simp [hptr, htr]

theorem input_congr {st st' : State w} {off : Int} (hptr : st'.ptr = st.ptr) (henv : st'.env = st.env)
    (htr : st'.trace = st.trace) :
    (st'.input off).1 = (st.input off).1 ∧ (st'.input off).2.env = (st.input off).2.env ∧
      (st'.input off).2.trace = (st.input off).2.trace ∧ (st'.input off).2.ptr = (st.input off).2.ptr ∧
      (st.input off).2.ptr = st.ptr ∧
      (∀ a, a ≠ st.ptr + off → (st.input off).2.tape.get a = st.tape.get a ∧
        (st'.input off).2.tape.get a = st'.tape.get a) ∧
      ((st.input off).1 = true →
        (st.input off).2.tape.get (st.ptr + off) = (st'.input off).2.tape.get (st.ptr + off)) := by
  unfold State.input
  rw [henv]
  cases st.env.readByte with
  | got b e =>
    refine ⟨rfl, rfl, by simp [htr], by simp [State.wr, hptr], by simp [State.wr], ?_, ?_⟩
    · intro a ha
      simp only [State.wr]
      rw [Tape.get_set_ne _ _ _ _ ha, hptr, Tape.get_set_ne _ _ _ _ ha]
      exact ⟨rfl, rfl⟩
    · intro _
      simp only [State.wr, hptr, Tape.get_set_same]
  | failed e =>
    refine ⟨rfl, rfl, by simp [htr], by simp [hptr], rfl, fun a _ => ⟨rfl, rfl⟩, by simp⟩
  | absent =>
    refine ⟨rfl, by simp [henv], by simp [htr], by simp [hptr], rfl, fun a _ => ⟨rfl, rfl⟩, by simp⟩

theorem sub_add_self (p v : Int) : p + v - p = v := by omega

/-! ### `output` -/

theorem step_output {lim : Bool} {bud : Nat} {b : Block w} {anal : DAnal} {env : Env} {src : Int}
    {rest cur' : List (Instr w)} {conts conts' : List (Cont w)} {budget budget' : Nat} {st st' : State w}
    (h : Inv lim bud b anal env ⟨.output src :: rest, conts, budget, st⟩ ⟨cur', conts', budget', st'⟩) :
    StepRel lim bud b anal env (step lim ⟨.output src :: rest, conts, budget, st⟩)
      (step lim ⟨cur', conts', budget', st'⟩) := by
  obtain ⟨hreach, ⟨frs, A, sh, s0, idx0, hK, hcur, hst, htape⟩, hbud, hptr, henv, htr⟩ := h
  simp only at hK hcur hst htape hbud hptr henv htr
  obtain ⟨rest', s1, idx1, i', s0', idx0', h1, h2, hr⟩ := elimInsts_cons_some hcur
  rw [elimInstr_output] at h2
  simp only [Option.some.injEq, Prod.mk.injEq] at h2 hr
  obtain ⟨hi, hs0, _⟩ := h2
  obtain ⟨hc', hs0', _⟩ := hr
  subst hc' hi
  rw [← hs0] at hs0'
  subst hs0'
  have hrd : st'.rd src = st.rd src := by
    unfold State.rd; rw [hptr]
    rcases htape (st.ptr + src) with h | h | h
    · exact h.symm
    · exact absurd (sub_add_self _ _) (DeadI.of_read h).2
    · exact absurd (by simp [stepReads]) (h.noread (by simp))
  obtain ⟨e1, e2, e3, e4, e5, e6, e7⟩ := output_congr hptr henv htr hrd
  simp only [step]
  cases ho : st.output src with
  | mk ok s2 =>
    cases ho' : st'.output src with
    | mk ok' s2' =>
      rw [ho, ho'] at e1 e2 e3 e4
      rw [ho'] at e5
      rw [ho] at e6 e7
      simp only at e1 e2 e3 e4 e5 e6 e7
      subst e1
      cases ok' with
      | false => exact ⟨e3, e2, e4, hbud⟩
      | true =>
        have hs : step lim ⟨.output src :: rest, conts, budget, st⟩ = .next ⟨rest, conts, budget, s2⟩ := by
          simp only [step, ho]
        refine ⟨hreach.step hs, ⟨frs, A, sh, s1, idx1, hK, h1, hst.tail, fun a => ?_⟩, hbud, e4, e2, e3⟩
        simp only
        rw [e5, e6]
        rcases htape a with h | h | h
        · exact Or.inl h
        · refine Or.inr (Or.inl ?_)
          simp only [e7]
          exact (DeadI.of_read h).1
        · exact Or.inr (Or.inr (h.next hK.length.1 (by simp) hs (by simp [stepWrites]) (fun _ h => h)))

/-! ### `input` -/

theorem step_input {lim : Bool} {bud : Nat} {b : Block w} {anal : DAnal} {env : Env} {dst : Int}
    {rest cur' : List (Instr w)} {conts conts' : List (Cont w)} {budget budget' : Nat} {st st' : State w}
    (h : Inv lim bud b anal env ⟨.input dst :: rest, conts, budget, st⟩ ⟨cur', conts', budget', st'⟩) :
    StepRel lim bud b anal env (step lim ⟨.input dst :: rest, conts, budget, st⟩)
      (step lim ⟨cur', conts', budget', st'⟩) := by
  obtain ⟨hreach, ⟨frs, A, sh, s0, idx0, hK, hcur, hst, htape⟩, hbud, hptr, henv, htr⟩ := h
  simp only at hK hcur hst htape hbud hptr henv htr
  obtain ⟨rest', s1, idx1, i', s0', idx0', h1, h2, hr⟩ := elimInsts_cons_some hcur
  rw [elimInstr_input] at h2
  simp only [Option.some.injEq, Prod.mk.injEq] at h2 hr
  obtain ⟨hi, hs0, _⟩ := h2
  obtain ⟨hc', hs0', _⟩ := hr
  subst hc' hi
  rw [← hs0] at hs0'
  subst hs0'
  obtain ⟨e1, e2, e3, e4, e5, e6, e7⟩ := input_congr (off := dst) hptr henv htr
  simp only [step]
  cases ho : st.input dst with
  | mk ok s2 =>
    cases ho' : st'.input dst with
    | mk ok' s2' =>
      rw [ho, ho'] at e1 e2 e3 e4 e6 e7
      rw [ho] at e5
      simp only at e1 e2 e3 e4 e5 e6 e7
      subst e1
      cases ok' with
      | false => exact ⟨e3, e2, e4, hbud⟩
      | true =>
        have hs : step lim ⟨.input dst :: rest, conts, budget, st⟩ = .next ⟨rest, conts, budget, s2⟩ := by
          simp only [step, ho]
        refine ⟨hreach.step hs, ⟨frs, A, sh, s1, idx1, hK, h1, hst.tail, fun a => ?_⟩, hbud, e4, e2, e3⟩
        simp only
        by_cases ha : a = st.ptr + dst
        · subst ha; exact Or.inl (e7 rfl)
        · obtain ⟨g1, g2⟩ := e6 a ha
          rw [g1, g2]
          rcases htape a with h | h | h
          · exact Or.inl h
          · refine Or.inr (Or.inl ?_)
            simp only [e5]
            exact DeadI.of_write h (fun e => ha (by omega))
          · exact Or.inr (Or.inr (h.next hK.length.1 (by simp) hs (by simpa [stepWrites] using ha)
              (fun _ h => h)))

/-! ### `calc` -/

theorem keptCalcs_sub {P : List DState} {calcs : List (Int × Expr w)} {s : DState} :
    (keptCalcs P calcs s).Sublist calcs := List.filter_sublist

theorem step_calc {lim : Bool} {bud : Nat} {b : Block w} {anal : DAnal} {env : Env}
    {calcs : List (Int × Expr w)}
    {rest cur' : List (Instr w)} {conts conts' : List (Cont w)} {budget budget' : Nat} {st st' : State w}
    (h : Inv lim bud b anal env ⟨.calc calcs :: rest, conts, budget, st⟩ ⟨cur', conts', budget', st'⟩) :
    StepRel lim bud b anal env (step lim ⟨.calc calcs :: rest, conts, budget, st⟩)
      (step lim ⟨cur', conts', budget', st'⟩) := by
  obtain ⟨hreach, ⟨frs, A, sh, s0, idx0, hK, hcur, hst, htape⟩, hbud, hptr, henv, htr⟩ := h
  simp only at hK hcur hst htape hbud hptr henv htr
  obtain ⟨rest', s1, idx1, i', s0', idx0', h1, h2, hr⟩ := elimInsts_cons_some hcur
  rw [elimInstr_calc] at h2
  simp only [Option.some.injEq, Prod.mk.injEq] at h2 hr
  obtain ⟨hi, hs0, _⟩ := h2
  obtain ⟨hc', hs0', _⟩ := hr
  subst hc' hi
  rw [← hs0] at hs0'
  subst hs0'
  have hnd : (calcs.map Prod.fst).Nodup := hst.calc_nodup
  have hndk : ((keptCalcs (frs.map Frame.par) calcs s1).map Prod.fst).Nodup :=
    hnd.sublist (keptCalcs_sub.map _)
  have hchain : ChainOk s1 frs := hK.chain s1 (elimInsts_meta h1).1 (elimInsts_meta h1).2.1
  -- the cells read by the retained assignments agree
  have hrd : ∀ x ∈ (keptCalcs (frs.map Frame.par) calcs s1).flatMap (fun c => Expr.variables c.2),
      st'.rd x = st.rd x := by
    intro x hx
    unfold State.rd; rw [hptr]
    rcases htape (st.ptr + x) with h | h | h
    · exact h.symm
    · exact absurd (by rw [sub_add_self]; exact hx) (dead_calc_noread h)
    · refine absurd ?_ (h.noread (by simp))
      simp only [stepReads, List.mem_flatMap, List.mem_map]
      obtain ⟨ve, hve, hxv⟩ := List.mem_flatMap.1 hx
      exact ⟨ve, keptCalcs_sub.subset hve, x, hxv, rfl⟩
  have hs : step lim ⟨.calc calcs :: rest, conts, budget, st⟩ = .next ⟨rest, conts, budget, doCalc st calcs⟩ := by
    simp only [step]
  simp only [step]
  obtain ⟨m1, m2, m3⟩ := doCalc_meta st calcs
  obtain ⟨m1', m2', m3'⟩ := doCalc_meta st' (keptCalcs (frs.map Frame.par) calcs s1)
  refine ⟨hreach.step hs, ⟨frs, A, sh, s1, idx1, hK, h1, hst.tail, fun a => ?_⟩, hbud,
    by simp only [m1, m1', hptr], by simp only [m2, m2', henv], by simp only [m3, m3', htr]⟩
  simp only
  have hav : a = st.ptr + (a - st.ptr) := by omega
  by_cases hk : (a - st.ptr) ∈ (keptCalcs (frs.map Frame.par) calcs s1).map Prod.fst
  · -- assigned by both
    obtain ⟨ve, hve, hv⟩ := List.mem_map.1 hk
    obtain ⟨v, e⟩ := ve
    simp only at hv
    subst hv
    left
    have g1 := doCalc_get_in st calcs _ e hnd (keptCalcs_sub.subset hve)
    have g2 := doCalc_get_in st' _ _ e hndk hve
    rw [hptr] at g2
    rw [hav, g1, g2]
    apply evaluate_congr
    intro x hx
    exact (hrd x (List.mem_flatMap.2 ⟨_, hve, hx⟩)).symm
  · have g2 : (doCalc st' (keptCalcs (frs.map Frame.par) calcs s1)).tape.get a = st'.tape.get a := by
      apply doCalc_get_notin
      intro ve hve e
      exact hk (List.mem_map.2 ⟨ve, hve, by rw [hptr] at e; omega⟩)
    by_cases hc : (a - st.ptr) ∈ calcs.map Prod.fst
    · -- assigned by the original program only: a deleted assignment
      right; left
      obtain ⟨ve, hve, hv⟩ := List.mem_map.1 hc
      have hrem : ve.1 ∈ (calcScan (frs.map Frame.par) calcs s1 []).2 := by
        by_cases hcon : ve.1 ∈ (calcScan (frs.map Frame.par) calcs s1 []).2
        · exact hcon
        · exact absurd (List.mem_map.2 ⟨ve, mem_keptCalcs.2 ⟨hve, hcon⟩, hv⟩) hk
      simp only [m1]
      rw [← hv]
      exact dead_calc_removed hchain hnd hrem
    · have g1 : (doCalc st calcs).tape.get a = st.tape.get a := by
        apply doCalc_get_notin
        intro ve hve e
        exact hc (List.mem_map.2 ⟨ve, hve, by omega⟩)
      rw [g1, g2]
      rcases htape a with h | h | h
      · exact Or.inl h
      · refine Or.inr (Or.inl ?_)
        simp only [m1]
        exact dead_calc_other h hc
      · refine Or.inr (Or.inr (h.next hK.length.1 (by simp) hs ?_ (fun _ h => h)))
        simp only [stepWrites, List.mem_map, not_exists, not_and]
        intro ve hve e
        exact hc (List.mem_map.2 ⟨ve, hve, by omega⟩)

end C01Dse
end Hpbf
