/-
The light executable test `Hpbf/OptCheck.lean` is the test the proofs are about: `OptCheck.checkAnalIn`,
`OptCheck.roundsCheck`, `OptCheck.optimizeCheck` are equal to their `OptProof` originals, and the main theorems
restated for the copies.
-/
import Hpbf.OptCheck
import Hpbf.Proofs.OptRbRounds3

namespace Hpbf
namespace OptProof
open Opt OptSem Ir

variable {w : Nat}

/-- Translation of the result type of the copy. -/
def resOfLight : OptCheck.Res w → Res w
  | .oof => .oof
  | .fail => .fail
  | .stop => .stop
  | .fin σ => .fin σ

theorem rl_oof : resOfLight (.oof : OptCheck.Res w) = .oof := rfl
theorem rl_fail : resOfLight (.fail : OptCheck.Res w) = .fail := rfl
theorem rl_stop : resOfLight (.stop : OptCheck.Res w) = .stop := rfl
theorem rl_fin (σ : State w) : resOfLight (.fin σ : OptCheck.Res w) = .fin σ := rfl

theorem resOfLight_ok (r : OptCheck.Res w) : (resOfLight r).ok = r.ok := by
  cases r <;> rfl

theorem sameOutside_light : @OptCheck.sameOutside w = sameOutside := rfl
theorem noClaim_light : @OptCheck.noClaim w = noClaim := rfl
theorem headNode_light : @OptCheck.headNode w = headNode := rfl
theorem clobOk_light : @OptCheck.clobOk w = clobOk := rfl
theorem amoOk_light : @OptCheck.amoOk w = amoOk := rfl

set_option linter.unusedSimpArgs false in
theorem eval_light : ∀ f : Nat,
    (∀ (l : List (Instr w)) (subs : List (OptAnalysis w)) (σ : State w),
      resOfLight (OptCheck.evalL f l subs σ) = evalL f l subs σ) ∧
    (∀ (c sh : Int) (body : List (Instr w)) (A : OptAnalysis w) (σ0 σ : State w),
      resOfLight (OptCheck.evalLoop f c sh body A σ0 σ) = evalLoop f c sh body A σ0 σ) := by
  intro f
  induction f with
  | zero =>
    refine ⟨fun l subs σ => ?_, fun c sh body A σ0 σ => ?_⟩
    · simp only [OptCheck.evalL, evalL, rl_oof, rl_fin]
    · simp only [OptCheck.evalLoop, evalLoop, rl_oof]
  | succ f ih =>
    obtain ⟨ihL, ihLoop⟩ := ih
    refine ⟨fun l subs σ => ?_, fun c sh body A σ0 σ => ?_⟩
    · cases l with
      | nil => simp only [OptCheck.evalL, evalL, rl_oof, rl_fin]
      | cons i rest =>
        cases i with
        | output src =>
          simp only [OptCheck.evalL, evalL]
          cases σ.output src with
          | mk b σ1 => cases b <;> simp only [ihL, rl_oof, rl_fail, rl_stop, rl_fin]
        | input dst =>
          simp only [OptCheck.evalL, evalL]
          cases σ.input dst with
          | mk b σ1 => cases b <;> simp only [ihL, rl_oof, rl_fail, rl_stop, rl_fin]
        | «calc» g => simp only [OptCheck.evalL, evalL, ihL]
        | loop c sh body once =>
          simp only [OptCheck.evalL, evalL, headNode_light]
          rw [← ihLoop]
          cases OptCheck.evalLoop f c sh body (headNode subs) σ σ <;> simp only [ihL, rl_oof, rl_fail, rl_stop, rl_fin]
        | ifnz c sh body =>
          simp only [OptCheck.evalL, evalL, headNode_light]
          by_cases hz : σ.rd c = 0#w
          · simp only [hz, if_true, ihL]
          · simp only [hz, if_false]
            rw [← ihL body]
            cases OptCheck.evalL f body (headNode subs).subBlocks σ <;> simp only [ihL, rl_oof, rl_fail, rl_stop, rl_fin]
    · simp only [OptCheck.evalLoop, evalLoop, clobOk_light, amoOk_light]
      by_cases hc : clobOk A σ0 σ = true
      · simp only [hc, if_true]
        by_cases hz : σ.rd c = 0#w
        · simp only [hz, if_true, rl_fin]
        · simp only [hz, if_false]
          rw [← ihL body]
          cases OptCheck.evalL f body A.subBlocks σ with
          | fin σ1 =>
            simp only [rl_fin]
            by_cases ha : amoOk A c (σ1.mov sh) = true
            · simp only [ha, if_true, ihLoop]
            · simp only [ha, Bool.false_eq_true, if_false, rl_fail]
          | oof => simp only [rl_oof]
          | fail => simp only [rl_fail]
          | stop => simp only [rl_stop]
      · simp only [hc, Bool.false_eq_true, if_false, rl_fail]

theorem checkAnalIn_light : @OptCheck.checkAnalIn w = checkAnalIn := by
  funext N b anal env
  unfold OptCheck.checkAnalIn checkAnalIn
  rw [← (eval_light N).1, resOfLight_ok]

theorem roundsCheck_light : @OptCheck.roundsCheck w = roundsCheck := by
  funext N env n
  induction n with
  | zero => funext prog anal os; simp [OptCheck.roundsCheck, roundsCheck]
  | succ n ih =>
    funext prog anal os
    simp only [OptCheck.roundsCheck, roundsCheck, checkAnalIn_light, ih]
    rfl

theorem optimizeCheck_light : @OptCheck.optimizeCheck w = optimizeCheck := by
  funext N b level orders env
  simp only [OptCheck.optimizeCheck, optimizeCheck, roundsCheck_light]
  rfl

/-- **`Program::optimize` preserves the observable behaviour at every level, on every run for which the light
executable test passes.** -/
theorem optimize_preserves_of_check_light (hw : 0 < w) {env : Env} (N : Nat) {b b' : Block w}
    (hcl : CanonL b.insts) {level : Nat} {orders : Orders}
    (h : Opt.optimize b level orders = .ok b') (hc : OptCheck.optimizeCheck N b level orders env = true) :
    BehEq b b' env :=
  optimize_preserves_of_check hw N hcl h (by rw [← optimizeCheck_light]; exact hc)

theorem optimize_onceOk_of_check_light (hw : 0 < w) {env : Env} (N : Nat) {b b' : Block w}
    (hcl : CanonL b.insts) {level : Nat} (hl : level ≠ 0) {orders : Orders}
    (h : Opt.optimize b level orders = .ok b') (hc : OptCheck.optimizeCheck N b level orders env = true) :
    C02Emit.OnceOk b' env :=
  optimize_onceOk_of_check hw N hcl hl h (by rw [← optimizeCheck_light]; exact hc)

/-- The source-level convenience: what `OptCheck.optimizeCheckSrcW w … = true` means. -/
theorem optimizeCheckSrcW_true {N : Nat} {src : List Kind} {level : Nat} {orders : Orders} {env : Env}
    (h : OptCheck.optimizeCheckSrcW w N src level orders env = true) :
    ∃ b : Block w, Ir.parse (w := w) src = .ok b ∧ optimizeCheck N b level orders env = true := by
  unfold OptCheck.optimizeCheckSrcW at h
  cases hp : Ir.parse (w := w) src with
  | error e => rw [hp] at h; cases h
  | ok b =>
    rw [hp] at h
    exact ⟨b, rfl, by rw [← optimizeCheck_light]; exact h⟩

/-! ### axioms -/

#print axioms checkAnalIn_light
#print axioms roundsCheck_light
#print axioms optimizeCheck_light
#print axioms optimize_preserves_of_check_light
#print axioms optimize_onceOk_of_check_light

end OptProof
end Hpbf
