/-
Rebuild-round proofs: the normal-form invariant, part 5: `finishLoop`, the full induction over `rebuildInstr` /
`rebuildInsts`, and `optimizeOnce`.
-/
import Hpbf.Proofs.OptRbCanon4

namespace Hpbf
namespace OptProof
open Opt OptSem Ir

variable {w : Nat}

/-! ### `finishLoop` cut into phases -/

/-- What `finishLoop` hands from its loop-motion phase to its end: `(child, before, after, constant)`. -/
abbrev MidRes (w : Nat) := Rebuild w × List (Int × Expr w) × List (Int × Expr w) × List Int

/-- The loop-motion phase of `finishLoop` (balanced loops), with its continuation. -/
def finishMotionK (s : Rebuild w) (ps : List (Rebuild w)) (sub : Rebuild w) (cond : Int) (loopAnal : OptLoop w)
    (k : MidRes w → M (Rebuild w)) : M (Rebuild w) := do
  let pending := pendingSorted sub sub
  let possibleReads := sIns (possibleReads sub) cond
  let constant ← (constantsAmong s ps sub
    (possibleReads ++ pending.filter (fun x => !possibleReads.contains x)) : Except String (List Int))
  let linear := linearAmong s ps sub constant (possibleReads ++ pending)
  let pendingSet := pending.filter (fun x => !constant.contains x)
  let init : Rebuild w × List (Int × Expr w) × List (Int × Expr w) × List (Int × Expr w) :=
    (sub, [], [], [])
  let (sub, before, toPerform, after) ← pending.foldlM
    (OptLoop.motionStepM s ps possibleReads constant linear pendingSet loopAnal) init
  let sub ← performAll sub (s :: ps) 0 toPerform
  let x ← pure (sub, before, after, constant)
  k x

/-- The end of `finishLoop`. -/
def finishEnd (s : Rebuild w) (ps : List (Rebuild w)) (cond : Int) (loopAnal : OptLoop w)
    (r : MidRes w) : M (Rebuild w) := do
  let (sub, before, after, constant) := r
  let sub := forgetParent sub
  let s ← performAll s ps 0 before
  if loopAnal.atLeastOnce || (!loopAnal.atMostOnce && after.isEmpty) then
    loopInsideIf s ps sub cond loopAnal after constant
  else do
    let ifState : Rebuild w := Rebuild.new s.shift (some cond) .unknown none
    let ifState ← loopInsideIf ifState [] sub cond loopAnal.toAtLeastOnce after constant
    loopOrIf s ps ifState cond false loopAnal.toAtMostOnce constant

theorem finishLoop_cut (s : Rebuild w) (ps : List (Rebuild w)) (sub : Rebuild w) (cond : Int) (isLoop : Bool) :
    finishLoop s ps sub cond isLoop =
      (if (analyzeLoop s ps sub cond isLoop).never then pure s
       else if sub.subShift || sub.shift != s.shift then do
        let x ← pure (sub, ([] : List (Int × Expr w)), ([] : List (Int × Expr w)), ([] : List Int))
        finishEnd s ps cond (analyzeLoop s ps sub cond isLoop) x
       else finishMotionK s ps sub cond (analyzeLoop s ps sub cond isLoop)
        (finishEnd s ps cond (analyzeLoop s ps sub cond isLoop))) := rfl

/-! ### the loop over the pending variables -/

theorem canonCalcs_nil : CanonCalcs ([] : List (Int × Expr w)) := fun _ h => by cases h

theorem pushOpt_canon {l : List (Int × Expr w)} (hl : CanonCalcs l) (var : Int) {o : Option (Expr w)}
    (ho : ∀ e, o = some e → Expr.Canon e) : CanonCalcs (OptLoop.pushOpt l var o) := by
  cases o with
  | none => exact hl
  | some e =>
    intro ve hve
    simp only [OptLoop.pushOpt, List.mem_append, List.mem_singleton] at hve
    rcases hve with h | h
    · exact hl ve h
    · rw [h]; exact ho e rfl

/-- Invariant of the loop of `finishLoop` over the pending variables. -/
def MotionInv (acc : Rebuild w × List (Int × Expr w) × List (Int × Expr w) × List (Int × Expr w)) : Prop :=
  Child acc.1 ∧ CanonCalcs acc.2.1 ∧ CanonCalcs acc.2.2.1 ∧ CanonCalcs acc.2.2.2

theorem motionStepM_canon {s : Rebuild w} {ps : List (Rebuild w)} {R C : List Int}
    {lin : List (Int × Expr w)} {pset : List Int} {L : OptLoop w}
    (hlin : ∀ v l, mGet lin v = some l → Expr.Canon l) (hL : LoopCanon L)
    {acc res : Rebuild w × List (Int × Expr w) × List (Int × Expr w) × List (Int × Expr w)} {var : Int}
    {os os' : Orders} (hinv : MotionInv acc)
    (h : (OptLoop.motionStepM s ps R C lin pset L acc var).run os = .ok (res, os')) : MotionInv res := by
  obtain ⟨sub, B, D, A⟩ := acc
  obtain ⟨hch, hB, hD, hA⟩ := hinv
  obtain ⟨_, sub', p, b, d, a, hrm, hlm, hres⟩ :=
    OptLoop.motionStepM_ok s ps R C lin pset L sub B D A var os os' res h
  subst hres
  have e1 : sub' = (removePending sub var).1 := by rw [hrm]
  have hp : Expr.Canon p := removePending_snd_canon hch.canon var (by rw [hrm])
  obtain ⟨cb, cd, ca⟩ := loopMotion_canon hlm hp hlin hL
  refine ⟨?_, pushOpt_canon hB var cb, pushOpt_canon hD var cd, ?_⟩
  · show Child sub'
    rw [e1]
    exact hch.step ((CStep.refl hch.wf hch.canon).removePending var)
  · show CanonCalcs (if !L.noEffect then OptLoop.pushOpt A var a else A)
    split
    · exact pushOpt_canon hA var ca
    · exact hA

theorem finishMotionK_run {s : Rebuild w} {ps : List (Rebuild w)} {sub : Rebuild w} {cond : Int}
    {L : OptLoop w} {k : MidRes w → M (Rebuild w)} {os os' : Orders} {s' : Rebuild w}
    (hr : (finishMotionK s ps sub cond L k).run os = .ok (s', os')) (hsub : Child sub) (hL : LoopCanon L) :
    ∃ (r : MidRes w) (os1 : Orders), Child r.1 ∧ CanonCalcs r.2.1 ∧ CanonCalcs r.2.2.1 ∧
      (k r).run os1 = .ok (s', os') := by
  unfold finishMotionK at hr
  dsimp only at hr
  rw [run_bind_ok] at hr
  obtain ⟨constant, os1, _, h2⟩ := hr
  rw [run_bind_ok] at h2
  obtain ⟨⟨sub1, B, D, A⟩, os2, h3, h4⟩ := h2
  dsimp only at h4
  rw [run_bind_ok] at h4
  obtain ⟨sub2, os3, h5, h6⟩ := h4
  rw [run_bind_ok] at h6
  obtain ⟨x, os4, h7, h8⟩ := h6
  rw [run_pure] at h7
  cases h7
  have hinv : MotionInv (sub1, B, D, A) := by
    refine foldlM_inv (fun acc _ => MotionInv acc) _ (pendingSorted sub sub) ?_
      (b := (sub, [], [], [])) (os := os1) ?_ h3
    · intro acc x os acc' os' _ hi hstep
      exact motionStepM_canon (fun v l h => linearAmong_canon_get hsub.canon _ _ h) hL hi hstep
    · exact ⟨hsub, canonCalcs_nil, canonCalcs_nil, canonCalcs_nil⟩
  obtain ⟨hch, hB, hD, hA⟩ := hinv
  exact ⟨(sub2, B, A, constant), os3, hch.step (performAll_canon h5 hch.wf hch.canon hD), hB, hA, h8⟩

theorem finishEnd_canon {s : Rebuild w} {ps : List (Rebuild w)} {cond : Int} {L : OptLoop w}
    {r : MidRes w} {os os' : Orders} {s' : Rebuild w}
    (hr : (finishEnd s ps cond L r).run os = .ok (s', os')) (hwf : Wf s) (hc : CanonSt s)
    (hsub : Child r.1) (hbefore : CanonCalcs r.2.1) (hafter : CanonCalcs r.2.2.1) : CStep s s' := by
  obtain ⟨sub, before, after, constant⟩ := r
  unfold finishEnd at hr
  dsimp only at hr
  rw [run_bind_ok] at hr
  obtain ⟨s1, os1, h1, h2⟩ := hr
  have r1 := performAll_canon h1 hwf hc hbefore
  split at h2
  · exact r1.trans (loopInsideIf_canon h2 r1.wf r1.canon hsub.forgetParent hafter)
  · rw [run_bind_ok] at h2
    obtain ⟨ifS, os2, h3, h4⟩ := h2
    have r2 := loopInsideIf_canon h3 (wf_new _ _ _ _) (canonSt_new _ _ _ _) hsub.forgetParent hafter
    have hif : Child ifS := (child_new s1.shift (some cond) .unknown none).step r2
    exact r1.trans (loopOrIf_canon h4 r1.wf r1.canon hif)

/-- **`finishLoop`**: the `Loop` / `If` arm after the body has been rebuilt. -/
theorem finishLoop_canon {s : Rebuild w} {ps : List (Rebuild w)} {sub : Rebuild w} {cond : Int}
    {isLoop : Bool} {os os' : Orders} {s' : Rebuild w}
    (hr : (finishLoop s ps sub cond isLoop).run os = .ok (s', os')) (hwf : Wf s) (hc : CanonSt s)
    (hsub : Child sub) : CStep s s' := by
  rw [finishLoop_cut] at hr
  split at hr
  · rw [run_pure] at hr
    cases hr
    exact CStep.refl hwf hc
  · split at hr
    · rw [run_bind_ok] at hr
      obtain ⟨x, os1, h1, h2⟩ := hr
      rw [run_pure] at h1
      cases h1
      exact finishEnd_canon h2 hwf hc hsub canonCalcs_nil canonCalcs_nil
    · obtain ⟨r, os1, a, b, c, h2⟩ := finishMotionK_run hr hsub
        (fun e he => analyzeLoop_canon s ps sub cond isLoop he)
      exact finishEnd_canon h2 hwf hc a b c

/-! ### the full induction -/

mutual
/-- Size of an instruction (for the induction over nested blocks). -/
def sizeI : Instr w → Nat
  | .loop _ _ body _ => sizeL body + 1
  | .ifnz _ _ body => sizeL body + 1
  | .output _ => 1
  | .input _ => 1
  | .calc _ => 1
def sizeL : List (Instr w) → Nat
  | [] => 0
  | i :: rest => sizeI i + sizeL rest
end

theorem sizeI_pos (i : Instr w) : 0 < sizeI i := by
  cases i <;> rw [sizeI] <;> omega

/-- The statement for instruction lists. -/
def ListStmt (l : List (Instr w)) : Prop :=
  ∀ (ps : List (Rebuild w)) (s : Rebuild w) (os os' : Orders) (s' : Rebuild w) (done : Bool),
    (rebuildInsts ps s l).run os = .ok ((s', done), os') → Wf s → CanonSt s → CanonL l → CStep s s'

/-- The `Loop` / `If` arm, given the statement for the body. -/
theorem rebuildBlockArm_canon {ps : List (Rebuild w)} {s : Rebuild w} {cond shift : Int}
    {body : List (Instr w)} (isLoop : Bool) (hbody : ListStmt body) (hcb : CanonL body)
    {os os' : Orders} {s' : Rebuild w}
    (hr : ((do
      let cond := cond + s.shift
      let (s, subAnal) := popSubAnal s
      let sub : Rebuild w := reverseSubBlocks (Rebuild.new s.shift (some cond) .parent subAnal)
      let (sub, completed) ← rebuildInsts (s :: ps) sub body
      let sub := if completed then { sub with shift := sub.shift + shift } else sub
      finishLoop s ps sub cond isLoop) : M (Rebuild w)).run os = .ok (s', os'))
    (hwf : Wf s) (hc : CanonSt s) : CStep s s' := by
  have r0 := popSubAnal_cstep hwf hc
  rcases hps : popSubAnal s with ⟨s1, sa⟩
  rw [hps] at hr r0
  dsimp only at hr r0
  rw [run_bind_ok] at hr
  obtain ⟨⟨sub, completed⟩, os1, h1, h2⟩ := hr
  dsimp only at h2
  have hch0 : Child (reverseSubBlocks (Rebuild.new s1.shift (some (cond + s.shift)) .parent sa)) :=
    (child_new _ _ _ _).reverseSubBlocks
  have hch : Child sub := hch0.step (hbody _ _ _ _ _ _ h1 hch0.wf hch0.canon hcb)
  have hch' : Child (if completed = true then { sub with shift := sub.shift + shift } else sub) := by
    split
    · exact hch.of_fields rfl rfl rfl rfl
    · exact hch
  exact r0.trans (finishLoop_canon h2 r0.wf r0.canon hch')

theorem rebuildInstr_of_lists (n : Nat) (IH : ∀ l : List (Instr w), sizeL l ≤ n → ListStmt l)
    (i : Instr w) (hi : sizeI i ≤ n + 1) {ps : List (Rebuild w)} {s : Rebuild w} {os os' : Orders}
    {s' : Rebuild w} (hr : (rebuildInstr ps s i).run os = .ok (s', os')) (hwf : Wf s) (hc : CanonSt s)
    (hci : CanonL [i]) : CStep s s' := by
  cases i with
  | output src => exact rebuildInstr_cstep hr hwf hc hci rfl
  | input dst => exact rebuildInstr_cstep hr hwf hc hci rfl
  | «calc» calcs => exact rebuildInstr_cstep hr hwf hc hci rfl
  | loop c sh body o =>
    rw [sizeI] at hi
    rw [rebuildInstr] at hr
    exact rebuildBlockArm_canon true (IH body (by omega)) (canonL_loop.1 hci) hr hwf hc
  | ifnz c sh body =>
    rw [sizeI] at hi
    rw [rebuildInstr] at hr
    exact rebuildBlockArm_canon false (IH body (by omega)) (canonL_ifnz.1 hci) hr hwf hc

theorem rebuildInsts_size (n : Nat) : ∀ l : List (Instr w), sizeL l ≤ n → ListStmt l := by
  induction n with
  | zero =>
    intro l hl ps s os os' s' done hr hwf hc _
    cases l with
    | nil =>
      rw [rebuildInsts, run_pure] at hr
      cases hr
      exact CStep.refl hwf hc
    | cons i rest =>
      rw [sizeL] at hl
      have := sizeI_pos i
      omega
  | succ n ih =>
    intro l hl
    induction l with
    | nil =>
      intro ps s os os' s' done hr hwf hc _
      rw [rebuildInsts, run_pure] at hr
      cases hr
      exact CStep.refl hwf hc
    | cons i rest ihl =>
      intro ps s os os' s' done hr hwf hc hcl
      rw [sizeL] at hl
      have hpos := sizeI_pos i
      rw [canonL_cons] at hcl
      rw [rebuildInsts] at hr
      split at hr
      · rw [run_pure] at hr
        cases hr
        exact CStep.refl hwf hc
      · rw [run_bind_ok] at hr
        obtain ⟨s1, os1, h1, h2⟩ := hr
        have r1 := rebuildInstr_of_lists n ih i (by omega) h1 hwf hc (canonL_single.2 hcl.1)
        exact r1.trans (ihl (by omega) ps s1 os1 os' s' done h2 r1.wf r1.canon hcl.2)

/-- **All of `rebuildInsts`** (through loops). -/
theorem rebuildInsts_cstep_all {ps : List (Rebuild w)} (l : List (Instr w)) {s : Rebuild w}
    {os os' : Orders} {s' : Rebuild w} {done : Bool}
    (hr : (rebuildInsts ps s l).run os = .ok ((s', done), os')) (hwf : Wf s) (hc : CanonSt s)
    (hcl : CanonL l) : CStep s s' :=
  rebuildInsts_size (sizeL l) l (Nat.le_refl _) ps s os os' s' done hr hwf hc hcl

/-- **All of `rebuildInstr`** (including `loop` / `ifnz`). -/
theorem rebuildInstr_cstep_all {ps : List (Rebuild w)} {s : Rebuild w} (i : Instr w) {os os' : Orders}
    {s' : Rebuild w} (hr : (rebuildInstr ps s i).run os = .ok (s', os')) (hwf : Wf s) (hc : CanonSt s)
    (hci : CanonL [i]) : CStep s s' :=
  rebuildInstr_of_lists (sizeI i) (fun l hl => rebuildInsts_size _ l hl) i (by omega) hr hwf hc hci

/-! ### `rebuildBlock`, `optimizeOnce` -/

theorem rebuildBlock_cstep {ps : List (Rebuild w)} {s : Rebuild w} {b : Block w} {os os' : Orders}
    {s' : Rebuild w} (hr : (rebuildBlock ps s b).run os = .ok (s', os')) (hwf : Wf s) (hc : CanonSt s)
    (hcl : CanonL b.insts) : CStep s s' := by
  unfold rebuildBlock at hr
  rw [run_bind_ok] at hr
  obtain ⟨⟨s1, done⟩, os1, h1, h2⟩ := hr
  rw [run_pure] at h2
  cases h2
  have r0 := reverseSubBlocks_cstep hwf hc
  have r1 := r0.trans (rebuildInsts_cstep_all b.insts h1 r0.wf r0.canon hcl)
  split
  · exact r1.of_fields rfl rfl rfl rfl
  · exact r1

/-- **One optimizer round produces good code** from code with canonical right-hand sides. -/
theorem optimizeOnce_good {b : Block w} {prevAnal : OptAnalysis w} {os os' : Orders} {b' : Block w}
    {anal' : OptAnalysis w} (hr : (optimizeOnce b prevAnal).run os = .ok ((b', anal'), os'))
    (hcl : CanonL b.insts) : GoodL b'.insts := by
  unfold optimizeOnce at hr
  rw [run_bind_ok] at hr
  obtain ⟨st, os1, h1, h2⟩ := hr
  rw [run_pure] at h2
  cases h2
  have r := rebuildBlock_cstep h1 (wf_new _ _ _ _) (canonSt_new _ _ _ _) hcl
  obtain ⟨new, e, g⟩ := r.insts
  show GoodL st.insts
  rw [e]
  exact goodL_append.2 ⟨goodL_nil, g⟩

theorem optimizeOnce_canonL {b : Block w} {prevAnal : OptAnalysis w} {os os' : Orders} {b' : Block w}
    {anal' : OptAnalysis w} (hr : (optimizeOnce b prevAnal).run os = .ok ((b', anal'), os'))
    (hcl : CanonL b.insts) : CanonL b'.insts := goodL_canonL _ (optimizeOnce_good hr hcl)

theorem optimizeOnce_noDupTargets {b : Block w} {prevAnal : OptAnalysis w} {os os' : Orders} {b' : Block w}
    {anal' : OptAnalysis w} (hr : (optimizeOnce b prevAnal).run os = .ok ((b', anal'), os'))
    (hcl : CanonL b.insts) : C01Dse.NoDupTargets b' := goodL_noDup _ (optimizeOnce_good hr hcl)

/-- The first round, on parser output. -/
theorem optimizeOnce_parse_good {src : List Kind} {b : Block w} (hp : Ir.parse (w := w) src = .ok b)
    {prevAnal : OptAnalysis w} {os os' : Orders} {b' : Block w} {anal' : OptAnalysis w}
    (hr : (optimizeOnce b prevAnal).run os = .ok ((b', anal'), os')) : GoodL b'.insts :=
  optimizeOnce_good hr (parse_canonL hp)

#print axioms rebuildInsts_cstep_all
#print axioms optimizeOnce_good

end OptProof
end Hpbf
