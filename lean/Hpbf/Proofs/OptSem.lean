/-
Shared vocabulary for the proofs about the optimizer model `Hpbf/Opt.lean` (kept small and FROZEN so that
independently developed lemma packs fit together).

Memories are total functions `Int → BitVec w` (cell contents by offset from the origin of the block being
rebuilt).  The three notions every pack talks about:

* `Mem.par pend m`      – ONE simultaneous assignment: every key of the association list `pend` receives the
                          value of its expression evaluated in the OLD memory `m`; other cells keep their value.
                          (`Ir.doCalc` on a `calc` instruction whose targets are distinct is exactly this; with
                          duplicate targets the LAST assignment wins in `Ir.doCalc`, while `mGet` finds the
                          FIRST – packs assume `Nodup` targets where it matters.)
* `Mem.seq groups m`    – a sequence of simultaneous assignments, left to right (what a list of emitted `calc`
                          instructions does).
* `Mem.iter pend n m`   – the simultaneous assignment `pend` repeated `n` times (what `n` iterations of a loop
                          body consisting of one such assignment do).
-/
import Hpbf.Opt

namespace Hpbf
namespace OptSem

open Opt

variable {w : Nat}

/-- A memory: cell contents by (absolute) offset. -/
abbrev Mem (w : Nat) := Int → BitVec w

/-- Value of an expression in a memory. -/
def ev (e : Expr w) (m : Mem w) : BitVec w := Expr.evaluate e m

/-- One simultaneous assignment (first binding of a key wins, as `mGet`). -/
def Mem.par (pend : List (Int × Expr w)) (m : Mem w) : Mem w :=
  fun v => match mGet pend v with
    | some e => ev e m
    | none => m v

/-- A sequence of simultaneous assignments. -/
def Mem.seq : List (List (Int × Expr w)) → Mem w → Mem w
  | [], m => m
  | g :: gs, m => Mem.seq gs (Mem.par g m)

/-- `n`-fold repetition of one simultaneous assignment. -/
def Mem.iter (pend : List (Int × Expr w)) : Nat → Mem w → Mem w
  | 0, m => m
  | n + 1, m => Mem.iter pend n (Mem.par pend m)

/-- The memory a state denotes, relative to an origin `o` (absolute tape address of offset 0). -/
def memOf (s : State w) (o : Int) : Mem w := fun v => s.tape.get (o + v)

/-- The targets of one simultaneous assignment. -/
def targets (g : List (Int × Expr w)) : List Int := g.map (·.1)

@[simp] theorem par_nil (m : Mem w) : Mem.par ([] : List (Int × Expr w)) m = m := by
  funext v; simp [Mem.par, mGet]

@[simp] theorem seq_nil (m : Mem w) : Mem.seq ([] : List (List (Int × Expr w))) m = m := rfl

@[simp] theorem seq_cons (g : List (Int × Expr w)) (gs : List (List (Int × Expr w))) (m : Mem w) :
    Mem.seq (g :: gs) m = Mem.seq gs (Mem.par g m) := rfl

theorem seq_append (a b : List (List (Int × Expr w))) (m : Mem w) :
    Mem.seq (a ++ b) m = Mem.seq b (Mem.seq a m) := by
  induction a generalizing m with
  | nil => rfl
  | cons g gs ih => simp [ih]

@[simp] theorem iter_zero (p : List (Int × Expr w)) (m : Mem w) : Mem.iter p 0 m = m := rfl

@[simp] theorem iter_succ (p : List (Int × Expr w)) (n : Nat) (m : Mem w) :
    Mem.iter p (n + 1) m = Mem.iter p n (Mem.par p m) := rfl

theorem iter_succ' (p : List (Int × Expr w)) (n : Nat) (m : Mem w) :
    Mem.iter p (n + 1) m = Mem.par p (Mem.iter p n m) := by
  induction n generalizing m with
  | zero => rfl
  | succ n ih => rw [iter_succ, ih, iter_succ]

theorem par_of_not_mem (g : List (Int × Expr w)) (m : Mem w) (v : Int) (h : mGet g v = none) :
    Mem.par g m v = m v := by
  simp [Mem.par, h]

theorem par_of_get (g : List (Int × Expr w)) (m : Mem w) (v : Int) (e : Expr w) (h : mGet g v = some e) :
    Mem.par g m v = ev e m := by
  simp [Mem.par, h]

end OptSem
end Hpbf
