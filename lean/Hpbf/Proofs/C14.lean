/-
C14 — cell arithmetic helpers (`Hpbf.Cell`, model of `trait CellType` in `src/lib.rs`) meet their
algebraic contracts at every width `w ≥ 1`.  Lemmas; the property theorems are in
`Hpbf/Props/C14.lean`.

Outline.
* `pow`: `powLoop fuel b e r = r * b ^ e.toNat` whenever `e.toNat < 2 ^ fuel` (so fuel `w` suffices).
* `inv`: for odd `a`, `a ^ (2 ^ j) = 1 + 2 ^ (j+1) * k` (induction on `j`), hence
  `x ^ (2 ^ (w-1)) = 1` in `BitVec w`; `wrappingInv x = x ^ (2 ^ (w-1) - 1)`.
* `trailingZeros`: `tzAux` returns the first set bit; `2 ^ k ∣ x.toNat ↔ k ≤ trailingZeros x` (x ≠ 0).
* `div`: with `s = trailingZeros d`, `m = w - s`, `d = 2^s * d'`, `n = 2^s * n'`, the result is
  `(I * n') % 2^m` where `I * d' ≡ 1 [MOD 2^m]`; `div_core_sol` / `div_core_min` are the Nat facts.
* conversions: `setWidth` / `signExtend` lemmas from core.
-/
import Hpbf.Cell
import Mathlib.Tactic.Ring
import Mathlib.Data.Nat.ModEq

namespace Hpbf.C14.Lemmas
open Hpbf Cell

variable {w : Nat}

/-! ### Nat-level number theory -/

theorem odd_pow_two_pow (a : Nat) (ha : a % 2 = 1) (j : Nat) :
    ∃ k, a ^ (2 ^ j) = 1 + 2 ^ (j + 1) * k := by
  induction j with
  | zero =>
    refine ⟨a / 2, ?_⟩
    simp
    omega
  | succ j ih =>
    obtain ⟨k, hk⟩ := ih
    refine ⟨k + 2 ^ j * k ^ 2, ?_⟩
    rw [Nat.pow_succ 2 j, Nat.pow_mul, hk]
    ring

theorem odd_pow_two_pow_modEq (a : Nat) (ha : a % 2 = 1) (j : Nat) :
    a ^ (2 ^ j) ≡ 1 [MOD 2 ^ (j + 1)] := by
  obtain ⟨k, hk⟩ := odd_pow_two_pow a ha j
  rw [hk]
  unfold Nat.ModEq
  simp

/-! ### isOdd, shifts -/

theorem toNat_one' (hw : 0 < w) : (1#w).toNat = 1 := BitVec.toNat_one hw

theorem isOdd_iff (hw : 0 < w) (x : BitVec w) : Cell.isOdd x = true ↔ x.toNat % 2 = 1 := by
  unfold Cell.isOdd
  rw [beq_iff_eq, ← BitVec.toNat_inj, BitVec.toNat_and, toNat_one' hw, Nat.and_one_is_mod]

theorem isOdd_eq_false_iff (hw : 0 < w) (x : BitVec w) :
    Cell.isOdd x = false ↔ x.toNat % 2 = 0 := by
  have := isOdd_iff hw x
  cases h : Cell.isOdd x <;> simp [h] at this ⊢ <;> omega

/-! ### pow -/

theorem toNat_pow (x : BitVec w) (n : Nat) : (x ^ n).toNat = x.toNat ^ n % 2 ^ w := by
  induction n with
  | zero => simp
  | succ n ih =>
    rw [BitVec.pow_succ, BitVec.toNat_mul, ih, Nat.pow_succ, Nat.mod_mul_mod]

theorem pow_mul_self (b : BitVec w) (n : Nat) : (b * b) ^ n = b ^ (2 * n) := by
  induction n with
  | zero => simp
  | succ n ih =>
    rw [BitVec.pow_succ, ih, show 2 * (n + 1) = 2 * n + 1 + 1 by ring, BitVec.pow_succ,
      BitVec.pow_succ, BitVec.mul_assoc]

theorem toNat_wshr_one (e : BitVec w) : (Cell.wshr e 1).toNat = e.toNat / 2 := by
  unfold Cell.wshr
  split
  · simp [Nat.shiftRight_eq_div_pow]
  · have : w ≤ 1 := by omega
    have h2 : e.toNat < 2 ^ w := e.isLt
    have : 2 ^ w ≤ 2 ^ 1 := Nat.pow_le_pow_right (by omega) this
    simp; omega

theorem powLoop_spec (hw : 0 < w) (fuel : Nat) :
    ∀ (b e r : BitVec w), e.toNat < 2 ^ fuel → Cell.powLoop fuel b e r = r * b ^ e.toNat := by
  induction fuel with
  | zero =>
    intro b e r h
    have : e.toNat = 0 := by simpa using h
    simp [Cell.powLoop, this]
  | succ fuel ih =>
    intro b e r h
    unfold Cell.powLoop
    by_cases he : e = 0#w
    · simp [he]
    · rw [if_neg he]
      have hlt : (Cell.wshr e 1).toNat < 2 ^ fuel := by
        rw [toNat_wshr_one]; rw [Nat.pow_succ] at h; omega
      simp only
      rw [ih _ _ _ hlt, toNat_wshr_one, pow_mul_self]
      cases ho : Cell.isOdd e
      · have := (isOdd_eq_false_iff hw e).1 ho
        have h2 : 2 * (e.toNat / 2) = e.toNat := by omega
        simp [h2]
      · have := (isOdd_iff hw e).1 ho
        have h2 : e.toNat = 2 * (e.toNat / 2) + 1 := by omega
        simp only [if_true]
        conv => rhs; rw [h2, BitVec.pow_succ]
        rw [BitVec.mul_assoc, BitVec.mul_comm b]

theorem pow_spec (hw : 0 < w) (b e : BitVec w) : Cell.wrappingPow b e = b ^ e.toNat := by
  unfold Cell.wrappingPow
  rw [powLoop_spec hw w b e _ e.isLt, BitVec.one_mul]


/-! ### shifts and masks -/

theorem toNat_wshl_one (hw : 0 < w) (k : Nat) (hk : k < w) :
    (Cell.wshl (1#w) k).toNat = 2 ^ k := by
  unfold Cell.wshl
  rw [if_pos hk, BitVec.toNat_shiftLeft, toNat_one' hw, Nat.shiftLeft_eq, Nat.one_mul,
    Nat.mod_eq_of_lt (Nat.pow_lt_pow_right (by omega) hk)]

theorem toNat_add_neg_one (hw : 0 < w) (t : BitVec w) (ht : 0 < t.toNat) :
    (t + (-1#w)).toNat = t.toNat - 1 := by
  rw [BitVec.toNat_add, BitVec.toNat_neg, toNat_one' hw]
  have h1 : t.toNat < 2 ^ w := t.isLt
  have h2 : 1 < 2 ^ w := Nat.one_lt_two_pow (by omega)
  rw [Nat.mod_eq_of_lt (show 2 ^ w - 1 < 2 ^ w by omega)]
  rw [show t.toNat + (2 ^ w - 1) = (t.toNat - 1) + 2 ^ w by omega, Nat.add_mod_right,
    Nat.mod_eq_of_lt (by omega)]

/-- exponent used by `wrappingInv`/`wrappingDiv`: `2^k - 1`. -/
theorem toNat_tot (hw : 0 < w) (k : Nat) (hk : k < w) :
    (Cell.wshl (1#w) k + (-1#w)).toNat = 2 ^ k - 1 := by
  rw [toNat_add_neg_one hw _ (by rw [toNat_wshl_one hw k hk]; exact Nat.two_pow_pos k),
    toNat_wshl_one hw k hk]

/-- mask used by `wrappingDiv`: `2^m - 1` for `1 ≤ m ≤ w` (for `m = w` via the shl-overflow-to-0 path). -/
theorem toNat_mask (hw : 0 < w) (m : Nat) (hm : 0 < m) (hmw : m ≤ w) :
    (Cell.wshl (1#w) m + (-1#w)).toNat = 2 ^ m - 1 := by
  by_cases h : m < w
  · exact toNat_tot hw m h
  · have : m = w := by omega
    subst this
    unfold Cell.wshl
    rw [if_neg h, BitVec.toNat_add, BitVec.toNat_neg, toNat_one' hw]
    have h2 : 1 < 2 ^ m := Nat.one_lt_two_pow (by omega)
    simp

/-! ### inverse -/

/-- `x ^ (2^k - 1) * x = x ^ (2^k)`. -/
theorem pow_pred_mul (x : BitVec w) (k : Nat) : x * x ^ (2 ^ k - 1) = x ^ (2 ^ k) := by
  have : 2 ^ k = (2 ^ k - 1) + 1 := by have := Nat.two_pow_pos k; omega
  conv => rhs; rw [this, BitVec.pow_succ]
  rw [BitVec.mul_comm]

theorem odd_pow_totient (hw : 0 < w) (x : BitVec w) (hx : x.toNat % 2 = 1) :
    x ^ (2 ^ (w - 1)) = 1#w := by
  apply BitVec.eq_of_toNat_eq
  rw [toNat_pow, toNat_one' hw]
  have := odd_pow_two_pow_modEq x.toNat hx (w - 1)
  rw [show w - 1 + 1 = w by omega] at this
  rw [this]
  exact Nat.mod_eq_of_lt (Nat.one_lt_two_pow (by omega))

theorem wrappingInv_eq (hw : 0 < w) (x : BitVec w) :
    Cell.wrappingInv x = if Cell.isOdd x then some (x ^ (2 ^ (w - 1) - 1)) else none := by
  unfold Cell.wrappingInv
  simp only [pow_spec hw, toNat_tot hw (w - 1) (by omega)]

theorem inv_isSome_iff (hw : 0 < w) (x : BitVec w) :
    (Cell.wrappingInv x).isSome = Cell.isOdd x := by
  rw [wrappingInv_eq hw]; cases Cell.isOdd x <;> simp

theorem inv_mul (hw : 0 < w) (x y : BitVec w) (h : Cell.wrappingInv x = some y) :
    x * y = 1#w := by
  rw [wrappingInv_eq hw] at h
  cases ho : Cell.isOdd x <;> rw [ho] at h <;> simp at h
  subst h
  rw [pow_pred_mul]
  exact odd_pow_totient hw x ((isOdd_iff hw x).1 ho)

theorem even_no_inv (hw : 0 < w) (x y : BitVec w) (hx : x.toNat % 2 = 0) : x * y ≠ 1#w := by
  intro h
  have := congrArg BitVec.toNat h
  rw [BitVec.toNat_mul, toNat_one' hw] at this
  have h2 : 2 ∣ 2 ^ w := dvd_pow_self 2 (by omega)
  have h3 : (x.toNat * y.toNat) % 2 ^ w % 2 = (x.toNat * y.toNat) % 2 := Nat.mod_mod_of_dvd _ h2
  rw [this, Nat.mul_mod, hx] at h3
  simp at h3

theorem inv_none_iff (hw : 0 < w) (x : BitVec w) :
    Cell.wrappingInv x = none ↔ ¬ ∃ y, x * y = 1#w := by
  constructor
  · intro h ⟨y, hy⟩
    rw [wrappingInv_eq hw] at h
    cases ho : Cell.isOdd x <;> rw [ho] at h <;> simp at h
    exact even_no_inv hw x y ((isOdd_eq_false_iff hw x).1 ho) hy
  · intro h
    cases hi : Cell.wrappingInv x with
    | none => rfl
    | some y => exact absurd ⟨y, inv_mul hw x y hi⟩ h


/-! ### trailingZeros -/

theorem tzAux_spec (x : BitVec w) (fuel : Nat) : ∀ i,
    i ≤ Cell.tzAux x fuel i ∧ Cell.tzAux x fuel i ≤ i + fuel ∧
    (∀ j, i ≤ j → j < Cell.tzAux x fuel i → x.getLsbD j = false) ∧
    (Cell.tzAux x fuel i < i + fuel → x.getLsbD (Cell.tzAux x fuel i) = true) := by
  induction fuel with
  | zero =>
    intro i
    simp only [Cell.tzAux]
    refine ⟨Nat.le_refl _, Nat.le_refl _, ?_, ?_⟩
    · intro j h1 h2; omega
    · intro h; omega
  | succ fuel ih =>
    intro i
    unfold Cell.tzAux
    by_cases hb : x.getLsbD i = true
    · rw [if_pos hb]
      refine ⟨Nat.le_refl _, by omega, ?_, fun _ => hb⟩
      intro j h1 h2; omega
    · rw [if_neg hb]
      obtain ⟨h1, h2, h3, h4⟩ := ih (i + 1)
      refine ⟨by omega, by omega, ?_, ?_⟩
      · intro j hj1 hj2
        by_cases hji : j = i
        · subst hji; simpa using hb
        · exact h3 j (by omega) hj2
      · intro h; exact h4 (by omega)

theorem low_bits_false_iff (n t : Nat) :
    (∀ j, j < t → n.testBit j = false) ↔ 2 ^ t ∣ n := by
  rw [Nat.dvd_iff_mod_eq_zero]
  constructor
  · intro h
    apply Nat.eq_of_testBit_eq
    intro i
    rw [Nat.testBit_mod_two_pow, Nat.zero_testBit]
    by_cases hi : i < t
    · simp [h i hi]
    · simp [hi]
  · intro h j hj
    have := Nat.testBit_mod_two_pow n t j
    rw [h, Nat.zero_testBit] at this
    simpa [hj] using this.symm

theorem trailingZeros_le (x : BitVec w) : Cell.trailingZeros x ≤ w := by
  have := (tzAux_spec x w 0).2.1
  simpa [Cell.trailingZeros] using this

theorem two_pow_trailingZeros_dvd (x : BitVec w) : 2 ^ Cell.trailingZeros x ∣ x.toNat := by
  rw [← low_bits_false_iff]
  intro j hj
  exact (tzAux_spec x w 0).2.2.1 j (Nat.zero_le _) hj

theorem trailingZeros_bit (x : BitVec w) (h : Cell.trailingZeros x < w) :
    x.toNat / 2 ^ Cell.trailingZeros x % 2 = 1 := by
  have := (tzAux_spec x w 0).2.2.2 (by simpa [Cell.trailingZeros] using h)
  rw [← BitVec.testBit_toNat, Nat.testBit_eq_decide_div_mod_eq] at this
  simpa [Cell.trailingZeros] using this

theorem trailingZeros_zero : Cell.trailingZeros (0#w) = w := by
  have h1 := trailingZeros_le (0#w)
  by_contra hne
  have := trailingZeros_bit (0#w) (by omega)
  simp at this

theorem trailingZeros_lt (x : BitVec w) (hx : x ≠ 0#w) : Cell.trailingZeros x < w := by
  have h1 := trailingZeros_le x
  by_contra hne
  have h2 : Cell.trailingZeros x = w := by omega
  have h3 := two_pow_trailingZeros_dvd x
  rw [h2] at h3
  have := Nat.eq_zero_of_dvd_of_lt h3 x.isLt
  exact hx (BitVec.eq_of_toNat_eq (by simpa using this))

/-- For nonzero `x`, `trailingZeros x` is the largest `k` with `2^k ∣ x`. -/
theorem two_pow_dvd_iff_le_trailingZeros (x : BitVec w) (hx : x ≠ 0#w) (k : Nat) :
    2 ^ k ∣ x.toNat ↔ k ≤ Cell.trailingZeros x := by
  constructor
  · intro h
    by_contra hlt
    have hlt : Cell.trailingZeros x + 1 ≤ k := by omega
    have hd : 2 ^ (Cell.trailingZeros x + 1) ∣ x.toNat :=
      Nat.dvd_trans (Nat.pow_dvd_pow 2 hlt) h
    have hb := trailingZeros_bit x (trailingZeros_lt x hx)
    obtain ⟨q, hq⟩ := hd
    rw [hq, Nat.pow_succ, Nat.mul_assoc, Nat.mul_div_cancel_left _ (Nat.two_pow_pos _)] at hb
    omega
  · intro h
    exact Nat.dvd_trans (Nat.pow_dvd_pow 2 h) (two_pow_trailingZeros_dvd x)


/-! ### division: Nat-level core -/

theorem div_core_sol (s m D' N' I : Nat) (hI : I * D' ≡ 1 [MOD 2 ^ m]) (hN : N' < 2 ^ m) :
    ((I * N') % 2 ^ m * (2 ^ s * D')) % 2 ^ (s + m) = 2 ^ s * N' := by
  have h1 : (I * N') % 2 ^ m ≡ I * N' [MOD 2 ^ m] := Nat.mod_modEq _ _
  have h2 : (I * N') % 2 ^ m * D' ≡ N' [MOD 2 ^ m] := by
    calc (I * N') % 2 ^ m * D' ≡ I * N' * D' [MOD 2 ^ m] := h1.mul_right _
      _ = (I * D') * N' := by ring
      _ ≡ 1 * N' [MOD 2 ^ m] := hI.mul_right _
      _ = N' := Nat.one_mul _
  have h3 := h2.mul_left' (2 ^ s)
  unfold Nat.ModEq at h3
  rw [← Nat.pow_add] at h3
  rw [show (I * N') % 2 ^ m * (2 ^ s * D') = 2 ^ s * ((I * N') % 2 ^ m * D') by ring, h3]
  apply Nat.mod_eq_of_lt
  rw [Nat.pow_add]
  exact Nat.mul_lt_mul_of_pos_left hN (Nat.two_pow_pos s)

theorem div_core_min (s m D' N' I Y : Nat) (hI : I * D' ≡ 1 [MOD 2 ^ m])
    (hY : (Y * (2 ^ s * D')) % 2 ^ (s + m) = 2 ^ s * N') :
    (I * N') % 2 ^ m ≤ Y := by
  have h0 : 2 ^ s * (Y * D') ≡ 2 ^ s * N' [MOD 2 ^ s * 2 ^ m] := by
    unfold Nat.ModEq
    rw [← Nat.pow_add, show 2 ^ s * (Y * D') = Y * (2 ^ s * D') by ring]
    conv => rhs; rw [← hY, Nat.mod_mod]
  have h1 : Y * D' ≡ N' [MOD 2 ^ m] :=
    Nat.ModEq.mul_left_cancel' (Nat.pos_iff_ne_zero.1 (Nat.two_pow_pos s)) h0
  have h2 : Y ≡ I * N' [MOD 2 ^ m] := by
    calc Y = 1 * Y := (Nat.one_mul _).symm
      _ ≡ (I * D') * Y [MOD 2 ^ m] := (hI.mul_right _).symm
      _ = I * (Y * D') := by ring
      _ ≡ I * N' [MOD 2 ^ m] := h1.mul_left _
  unfold Nat.ModEq at h2
  rw [← h2]
  exact Nat.mod_le _ _


/-! ### division: BitVec level -/

theorem mul_eq_iff_toNat (y d n : BitVec w) :
    y * d = n ↔ (y.toNat * d.toNat) % 2 ^ w = n.toNat := by
  rw [← BitVec.toNat_inj, BitVec.toNat_mul]

theorem toNat_wshr (x : BitVec w) (s : Nat) (hs : s < w) :
    (Cell.wshr x s).toNat = x.toNat / 2 ^ s := by
  unfold Cell.wshr
  rw [if_pos hs, BitVec.toNat_ushiftRight, Nat.shiftRight_eq_div_pow]

theorem wrappingDiv_zero (d : BitVec w) : Cell.wrappingDiv (0#w) d = some (0#w) := by
  simp [Cell.wrappingDiv]

theorem wrappingDiv_none (n d : BitVec w) (hn : n ≠ 0#w)
    (hs : Cell.trailingZeros n < Cell.trailingZeros d) : Cell.wrappingDiv n d = none := by
  unfold Cell.wrappingDiv
  simp only [if_neg hn]
  rw [if_pos hs]

/-- Inverse-modulo-`2^m` property of the exponentiation used in `wrappingDiv`. -/
theorem inv_modEq (x : BitVec w) (m : Nat) (hm : 0 < m) (hmw : m ≤ w) (hx : x.toNat % 2 = 1) :
    (x ^ (2 ^ (m - 1) - 1)).toNat * x.toNat ≡ 1 [MOD 2 ^ m] := by
  have hdvd : 2 ^ m ∣ 2 ^ w := Nat.pow_dvd_pow 2 hmw
  have h1 : (x ^ (2 ^ (m - 1) - 1)).toNat ≡ x.toNat ^ (2 ^ (m - 1) - 1) [MOD 2 ^ m] := by
    rw [toNat_pow]
    exact Nat.mod_mod_of_dvd _ hdvd
  have h2 := odd_pow_two_pow_modEq x.toNat hx (m - 1)
  rw [show m - 1 + 1 = m by omega] at h2
  calc (x ^ (2 ^ (m - 1) - 1)).toNat * x.toNat
      ≡ x.toNat ^ (2 ^ (m - 1) - 1) * x.toNat [MOD 2 ^ m] := h1.mul_right _
    _ = x.toNat ^ (2 ^ (m - 1) - 1 + 1) := (Nat.pow_succ _ _).symm
    _ = x.toNat ^ (2 ^ (m - 1)) := by
        rw [show 2 ^ (m - 1) - 1 + 1 = 2 ^ (m - 1) by have := Nat.two_pow_pos (m - 1); omega]
    _ ≡ 1 [MOD 2 ^ m] := h2

theorem wrappingDiv_some_eq (hw : 0 < w) (n d : BitVec w) (hn : n ≠ 0#w)
    (hs : Cell.trailingZeros d ≤ Cell.trailingZeros n) :
    Cell.wrappingDiv n d = some
      (((Cell.wshr d (Cell.trailingZeros d)) ^ (2 ^ (w - Cell.trailingZeros d - 1) - 1)
          * Cell.wshr n (Cell.trailingZeros d))
        &&& (Cell.wshl (1#w) (w - Cell.trailingZeros d) + (-1#w))) := by
  have hlt := trailingZeros_lt n hn
  unfold Cell.wrappingDiv
  simp only [if_neg hn]
  rw [if_neg (by omega)]
  rw [pow_spec hw, toNat_tot hw _ (by omega)]

theorem wrappingDiv_decomp (hw : 0 < w) (n d : BitVec w) (hn : n ≠ 0#w)
    (hs : Cell.trailingZeros d ≤ Cell.trailingZeros n) :
    ∃ (r : BitVec w) (s m I D' N' : Nat), Cell.wrappingDiv n d = some r ∧ s + m = w ∧
      r.toNat = (I * N') % 2 ^ m ∧ I * D' ≡ 1 [MOD 2 ^ m] ∧
      d.toNat = 2 ^ s * D' ∧ n.toNat = 2 ^ s * N' ∧ N' < 2 ^ m := by
  have hlt := trailingZeros_lt n hn
  have hsw : Cell.trailingZeros d < w := by omega
  refine ⟨_, Cell.trailingZeros d, w - Cell.trailingZeros d,
    ((Cell.wshr d (Cell.trailingZeros d)) ^ (2 ^ (w - Cell.trailingZeros d - 1) - 1)).toNat,
    d.toNat / 2 ^ Cell.trailingZeros d, n.toNat / 2 ^ Cell.trailingZeros d,
    wrappingDiv_some_eq hw n d hn hs, by omega, ?_, ?_, ?_, ?_, ?_⟩
  · rw [BitVec.toNat_and, toNat_mask hw _ (by omega) (by omega), Nat.and_two_pow_sub_one_eq_mod,
      BitVec.toNat_mul, toNat_wshr n _ hsw]
    exact Nat.mod_mod_of_dvd _ (Nat.pow_dvd_pow 2 (by omega))
  · have := inv_modEq (Cell.wshr d (Cell.trailingZeros d)) (w - Cell.trailingZeros d)
      (by omega) (by omega) (by rw [toNat_wshr d _ hsw]; exact trailingZeros_bit d hsw)
    rw [toNat_wshr d _ hsw] at this
    exact this
  · exact (Nat.mul_div_cancel' (two_pow_trailingZeros_dvd d)).symm
  · exact (Nat.mul_div_cancel' (Nat.dvd_trans (Nat.pow_dvd_pow 2 hs)
      (two_pow_trailingZeros_dvd n))).symm
  · apply Nat.div_lt_of_lt_mul
    rw [← Nat.pow_add, show Cell.trailingZeros d + (w - Cell.trailingZeros d) = w by omega]
    exact n.isLt

theorem no_sol_of_lt (n d y : BitVec w) (hn : n ≠ 0#w)
    (hs : Cell.trailingZeros n < Cell.trailingZeros d) : y * d ≠ n := by
  intro h
  rw [mul_eq_iff_toNat] at h
  have h1 : 2 ^ Cell.trailingZeros d ∣ 2 ^ w := Nat.pow_dvd_pow 2 (trailingZeros_le d)
  have h2 : 2 ^ Cell.trailingZeros d ∣ y.toNat * d.toNat :=
    Dvd.dvd.mul_left (two_pow_trailingZeros_dvd d) _
  have h3 : 2 ^ Cell.trailingZeros d ∣ n.toNat := by
    rw [← h]; exact (Nat.dvd_mod_iff h1).2 h2
  have := (two_pow_dvd_iff_le_trailingZeros n hn _).1 h3
  omega

theorem div_none_iff (hw : 0 < w) (n d : BitVec w) :
    Cell.wrappingDiv n d = none ↔ ¬ ∃ y, y * d = n := by
  by_cases hn : n = 0#w
  · subst hn
    rw [wrappingDiv_zero]
    simp only [reduceCtorEq, false_iff, not_not]
    exact ⟨0#w, by simp⟩
  · by_cases hs : Cell.trailingZeros d ≤ Cell.trailingZeros n
    · obtain ⟨r, s, m, I, D', N', hr, hsm, hrt, hI, hd, hn', hN⟩ :=
        wrappingDiv_decomp hw n d hn hs
      rw [hr]
      simp only [reduceCtorEq, false_iff, not_not]
      refine ⟨r, ?_⟩
      rw [mul_eq_iff_toNat, hrt, hd, hn', ← hsm]
      exact div_core_sol s m D' N' I hI hN
    · rw [wrappingDiv_none n d hn (by omega)]
      simp only [true_iff]
      rintro ⟨y, hy⟩
      exact no_sol_of_lt n d y hn (by omega) hy

theorem div_some_iff (hw : 0 < w) (n d x : BitVec w) :
    Cell.wrappingDiv n d = some x ↔ (x * d = n ∧ ∀ y, y * d = n → x ≤ y) := by
  by_cases hn : n = 0#w
  · subst hn
    rw [wrappingDiv_zero, Option.some.injEq]
    constructor
    · intro h; subst h
      refine ⟨by simp, fun y _ => ?_⟩
      rw [BitVec.le_def]; simp
    · rintro ⟨_, h2⟩
      have := h2 (0#w) (by simp)
      rw [BitVec.le_def] at this
      apply BitVec.eq_of_toNat_eq
      simp at this ⊢
      omega
  · by_cases hs : Cell.trailingZeros d ≤ Cell.trailingZeros n
    · obtain ⟨r, s, m, I, D', N', hr, hsm, hrt, hI, hd, hn', hN⟩ :=
        wrappingDiv_decomp hw n d hn hs
      have hsol : r * d = n := by
        rw [mul_eq_iff_toNat, hrt, hd, hn', ← hsm]
        exact div_core_sol s m D' N' I hI hN
      have hmin : ∀ y, y * d = n → r ≤ y := by
        intro y hy
        rw [mul_eq_iff_toNat, hd, hn'] at hy
        have hy' : y.toNat * (2 ^ s * D') % 2 ^ (s + m) = 2 ^ s * N' := by rw [hsm]; exact hy
        rw [BitVec.le_def, hrt]
        exact div_core_min s m D' N' I y.toNat hI hy'
      rw [hr, Option.some.injEq]
      constructor
      · intro h; subst h; exact ⟨hsol, hmin⟩
      · rintro ⟨h1, h2⟩
        have a := hmin x h1
        have b := h2 r hsol
        rw [BitVec.le_def] at a b
        exact BitVec.eq_of_toNat_eq (by omega)
    · rw [wrappingDiv_none n d hn (by omega)]
      simp only [reduceCtorEq, false_iff]
      rintro ⟨h1, _⟩
      exact no_sol_of_lt n d x hn (by omega) h1


/-! ### conversions -/

theorem fromU64_intoU64 (h : w ≤ 64) (x : BitVec w) : Cell.fromU64 (Cell.intoU64 x) = x := by
  unfold Cell.fromU64 Cell.intoU64
  rw [BitVec.setWidth_setWidth_of_le x h, BitVec.setWidth_eq]

theorem toInt_intoI64 (h : w ≤ 64) (x : BitVec w) : (Cell.intoI64 x).toInt = x.toInt :=
  BitVec.toInt_signExtend_of_le h

theorem toNat_intoU64 (h : w ≤ 64) (x : BitVec w) : (Cell.intoU64 x).toNat = x.toNat :=
  BitVec.toNat_setWidth_of_le h

theorem toNat_fromU8_general (b : BitVec 8) : (Cell.fromU8 b : BitVec w).toNat = b.toNat % 2 ^ w := by
  unfold Cell.fromU8 Cell.fromU64
  rw [BitVec.toNat_setWidth, BitVec.toNat_setWidth_of_le (by omega)]

theorem toNat_fromU8 (h : 8 ≤ w) (b : BitVec 8) : (Cell.fromU8 b : BitVec w).toNat = b.toNat := by
  rw [toNat_fromU8_general]
  exact Nat.mod_eq_of_lt (Nat.lt_of_lt_of_le b.isLt (Nat.pow_le_pow_right (by omega) h))

theorem intoU8_fromU8 (h : 8 ≤ w) (b : BitVec 8) : Cell.intoU8 (Cell.fromU8 b : BitVec w) = b := by
  apply BitVec.eq_of_toNat_eq
  unfold Cell.intoU8 Cell.intoU64
  rw [BitVec.toNat_setWidth, BitVec.toNat_setWidth, toNat_fromU8 h]
  have := b.isLt
  omega

theorem fromI16_eq_signExtend (h : w ≤ 64) (v : BitVec 16) :
    (Cell.fromI16 v : BitVec w) = v.signExtend w := by
  unfold Cell.fromI16 Cell.fromU64
  apply BitVec.eq_of_getLsbD_eq
  intro i hi
  rw [BitVec.getLsbD_setWidth, BitVec.getLsbD_signExtend, BitVec.getLsbD_signExtend]
  have : i < 64 := by omega
  simp [hi, this]

theorem toInt_fromI16 (h16 : 16 ≤ w) (h : w ≤ 64) (v : BitVec 16) :
    (Cell.fromI16 v : BitVec w).toInt = v.toInt := by
  rw [fromI16_eq_signExtend h, BitVec.toInt_signExtend_of_le h16]

theorem fromI16_eq_setWidth (h : w ≤ 16) (v : BitVec 16) :
    (Cell.fromI16 v : BitVec w) = v.setWidth w := by
  rw [fromI16_eq_signExtend (by omega), BitVec.signExtend_eq_setWidth_of_le v h]

theorem fromI16_8 (v : BitVec 16) : (Cell.fromI16 v : BitVec 8) = v.setWidth 8 :=
  fromI16_eq_setWidth (by omega) v

theorem toInt_i16_bounds (v : BitVec 16) : -32768 ≤ v.toInt ∧ v.toInt ≤ 32767 := by
  have h1 := BitVec.le_toInt v
  have h2 := @BitVec.toInt_lt 16 v
  norm_num at h1 h2
  omega

theorem tryIntoI16_some_iff (h : w ≤ 64) (x : BitVec w) (v : BitVec 16) :
    Cell.tryIntoI16 x = some v ↔ v.toInt = x.toInt := by
  unfold Cell.tryIntoI16
  simp only [toInt_intoI64 h]
  constructor
  · intro hh
    split at hh
    · rename_i hr
      rw [Option.some.injEq] at hh
      subst hh
      exact BitVec.toInt_ofInt_eq_self (by omega) (by norm_num; omega) (by norm_num; omega)
    · cases hh
  · intro hv
    have hb := toInt_i16_bounds v
    rw [if_pos (by omega), ← hv, BitVec.ofInt_toInt]

theorem tryIntoI16_none_iff (h : w ≤ 64) (x : BitVec w) :
    Cell.tryIntoI16 x = none ↔ x.toInt < -32768 ∨ 32767 < x.toInt := by
  unfold Cell.tryIntoI16
  simp only [toInt_intoI64 h]
  split
  · simp only [reduceCtorEq, false_iff]; omega
  · simp only [true_iff]; omega


theorem toInt_bmod_self (x : BitVec w) : x.toInt.bmod (2 ^ w) = x.toInt := by
  rw [BitVec.toInt_eq_toNat_bmod, Int.bmod_bmod]

/-- Round trip: a successful `tryIntoI16` is undone by `fromI16`. -/
theorem fromI16_of_tryIntoI16 (h : w ≤ 64) (x : BitVec w) (v : BitVec 16)
    (hv : Cell.tryIntoI16 x = some v) : (Cell.fromI16 v : BitVec w) = x := by
  rw [tryIntoI16_some_iff h] at hv
  rw [fromI16_eq_signExtend h, ← BitVec.toInt_inj]
  by_cases h16 : 16 ≤ w
  · rw [BitVec.toInt_signExtend_of_le h16, hv]
  · rw [BitVec.toInt_signExtend_eq_toInt_bmod_of_le v (by omega), hv, toInt_bmod_self]

/-- Round trip the other way for `16 ≤ w ≤ 64`. -/
theorem tryIntoI16_fromI16 (h16 : 16 ≤ w) (h : w ≤ 64) (v : BitVec 16) :
    Cell.tryIntoI16 (Cell.fromI16 v : BitVec w) = some v := by
  rw [tryIntoI16_some_iff h, toInt_fromI16 h16 h]

end Hpbf.C14.Lemmas
