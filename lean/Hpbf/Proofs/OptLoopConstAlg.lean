/-
Loop optimisations of `Hpbf/Opt.lean`, part A (syntactic half): what `constantsAmong` computes.

`constantsAmong s ps sub vars = .ok C` (with `vars` duplicate-free) implies that every `c ∈ C` is `Good`:
it passed the `compare` tests (`IsCand`), and every variable of its written / pending expression is `c`
itself or again in `C`.  This is the invariant of the work-list algorithm
(`checkConstant` / `constDeps` / `constLoop`, the counters `dependsOn` and the lists `dependents`).
-/
import Hpbf.Proofs.OptLoopAnalyze

namespace Hpbf.OptLoop
open Hpbf Opt OptSem Expr

variable {w : Nat}

/-! ### association lists and sets -/

theorem mGet_mSet {ν : Type} (m : List (Int × ν)) (k : Int) (v : ν) (k' : Int) :
    mGet (mSet m k v) k' = if k = k' then some v else mGet m k' := by
  induction m with
  | nil => simp [mSet, mGet]
  | cons kv m ih =>
    obtain ⟨k0, v0⟩ := kv
    simp only [mSet]
    split
    · rename_i h; subst h
      simp only [mGet]
      by_cases h1 : k0 = k' <;> simp [h1]
    · split
      · rename_i hne hlt
        simp only [mGet]
      · rename_i hne hlt
        simp only [mGet, ih]
        by_cases h1 : k0 = k'
        · subst h1
          simp [Ne.symm hne]
        · simp [h1]

theorem mGet_mErase_ne {ν : Type} (m : List (Int × ν)) (k k' : Int) (h : k ≠ k') :
    mGet (mErase m k) k' = mGet m k' := by
  induction m with
  | nil => rfl
  | cons kv m ih =>
    obtain ⟨k0, v0⟩ := kv
    simp only [mErase]
    split
    · rename_i h0; subst h0
      simp [mGet, h]
    · simp only [mGet, ih]

theorem mem_sIns {s : List Int} {k x : Int} : x ∈ sIns s k ↔ x = k ∨ x ∈ s := by
  induction s with
  | nil => simp [sIns]
  | cons y ys ih =>
    simp only [sIns]
    split
    · rename_i h; subst h
      constructor
      · intro hx; exact Or.inr hx
      · rintro (rfl | hx)
        · exact List.mem_cons_self
        · exact hx
    · split
      · simp
      · simp only [List.mem_cons, ih]
        constructor
        · rintro (h | h | h)
          · exact Or.inr (Or.inl h)
          · exact Or.inl h
          · exact Or.inr (Or.inr h)
        · rintro (h | h | h)
          · exact Or.inr (Or.inl h)
          · exact Or.inl h
          · exact Or.inr (Or.inr h)

/-- Number of pending occurrences of `u` in the `dependents` lists. -/
def occ (d : List (Int × List Int)) (u : Int) : Nat :=
  match d with
  | [] => 0
  | kv :: rest => kv.2.count u + occ rest u

/-- Keys strictly ascending (the canonical representation of the port). -/
def KeysAsc {ν : Type} (d : List (Int × ν)) : Prop := (d.map (·.1)).Pairwise (· < ·)

theorem keysAsc_nil {ν : Type} : KeysAsc ([] : List (Int × ν)) := List.Pairwise.nil

theorem KeysAsc.tail {ν : Type} {kv : Int × ν} {d : List (Int × ν)} (h : KeysAsc (kv :: d)) :
    KeysAsc d := by
  unfold KeysAsc at h ⊢
  rw [List.map_cons, List.pairwise_cons] at h
  exact h.2

theorem KeysAsc.head_lt {ν : Type} {kv : Int × ν} {d : List (Int × ν)} (h : KeysAsc (kv :: d))
    {kv' : Int × ν} (hm : kv' ∈ d) : kv.1 < kv'.1 := by
  unfold KeysAsc at h
  rw [List.map_cons, List.pairwise_cons] at h
  exact h.1 kv'.1 (List.mem_map.2 ⟨kv', hm, rfl⟩)

theorem mGet_none_of_lt {ν : Type} (d : List (Int × ν)) (k : Int)
    (h : ∀ kv ∈ d, k < kv.1) : mGet d k = none := by
  induction d with
  | nil => rfl
  | cons kv d ih =>
    obtain ⟨k0, v0⟩ := kv
    have h0 : k < k0 := h (k0, v0) List.mem_cons_self
    simp only [mGet]
    rw [if_neg (by omega)]
    exact ih (fun kv hkv => h kv (List.mem_cons_of_mem _ hkv))

theorem mem_mSet {ν : Type} (d : List (Int × ν)) (k : Int) (v : ν) (kv : Int × ν)
    (h : kv ∈ mSet d k v) : kv = (k, v) ∨ kv ∈ d := by
  induction d with
  | nil =>
    simp only [mSet, List.mem_singleton] at h
    exact Or.inl h
  | cons kv0 d ih =>
    obtain ⟨k0, v0⟩ := kv0
    simp only [mSet] at h
    split at h
    · rcases List.mem_cons.1 h with h | h
      · exact Or.inl h
      · exact Or.inr (List.mem_cons_of_mem _ h)
    · split at h
      · rcases List.mem_cons.1 h with h | h
        · exact Or.inl h
        · exact Or.inr h
      · rcases List.mem_cons.1 h with h | h
        · exact Or.inr (by rw [h]; exact List.mem_cons_self)
        · rcases ih h with h | h
          · exact Or.inl h
          · exact Or.inr (List.mem_cons_of_mem _ h)

theorem keysAsc_mSet {ν : Type} (d : List (Int × ν)) (k : Int) (v : ν) (h : KeysAsc d) :
    KeysAsc (mSet d k v) := by
  induction d with
  | nil => simp [mSet, KeysAsc]
  | cons kv0 d ih =>
    obtain ⟨k0, v0⟩ := kv0
    simp only [mSet]
    split
    · rename_i he; subst he
      unfold KeysAsc at h ⊢
      simpa using h
    · rename_i hne
      split
      · rename_i hlt
        unfold KeysAsc at h ⊢
        rw [List.map_cons, List.pairwise_cons]
        refine ⟨?_, h⟩
        intro x hx
        rw [List.map_cons, List.pairwise_cons] at h
        rcases List.mem_cons.1 hx with hx | hx
        · rw [hx]; exact hlt
        · exact Int.lt_trans hlt (h.1 x hx)
      · rename_i hnlt
        have ht := ih h.tail
        unfold KeysAsc at ht ⊢
        rw [List.map_cons, List.pairwise_cons]
        refine ⟨?_, ht⟩
        intro x hx
        obtain ⟨kv, hkv, rfl⟩ := List.mem_map.1 hx
        rcases mem_mSet d k v kv hkv with hkv | hkv
        · rw [hkv]; show k0 < k; omega
        · exact h.head_lt hkv

theorem mem_mErase {ν : Type} (d : List (Int × ν)) (k : Int) (kv : Int × ν)
    (h : kv ∈ mErase d k) : kv ∈ d := by
  induction d with
  | nil => cases h
  | cons kv0 d ih =>
    obtain ⟨k0, v0⟩ := kv0
    simp only [mErase] at h
    split at h
    · exact List.mem_cons_of_mem _ h
    · rcases List.mem_cons.1 h with h | h
      · rw [h]; exact List.mem_cons_self
      · exact List.mem_cons_of_mem _ (ih h)

theorem keysAsc_mErase {ν : Type} (d : List (Int × ν)) (k : Int) (h : KeysAsc d) :
    KeysAsc (mErase d k) := by
  induction d with
  | nil => exact h
  | cons kv0 d ih =>
    obtain ⟨k0, v0⟩ := kv0
    simp only [mErase]
    split
    · exact h.tail
    · have ht := ih h.tail
      unfold KeysAsc at ht ⊢
      rw [List.map_cons, List.pairwise_cons]
      refine ⟨?_, ht⟩
      intro x hx
      obtain ⟨kv, hkv, rfl⟩ := List.mem_map.1 hx
      exact h.head_lt (mem_mErase d k kv hkv)

theorem occ_mSet (d : List (Int × List Int)) (k : Int) (l : List Int) (u : Int) (h : KeysAsc d) :
    occ (mSet d k l) u + ((mGet d k).getD []).count u = occ d u + l.count u := by
  induction d with
  | nil => simp [mSet, mGet, occ]
  | cons kv d ih =>
    obtain ⟨k0, l0⟩ := kv
    simp only [mSet, mGet]
    split
    · rename_i he; subst he
      simp only [occ, Option.getD_some]; omega
    · rename_i hne
      split
      · rename_i hlt
        have hnone : mGet d k = none :=
          mGet_none_of_lt d k (fun kv hkv => Int.lt_trans hlt (h.head_lt hkv))
        simp only [occ, hnone, Option.getD_none, List.count_nil]; omega
      · have := ih h.tail
        simp only [occ]; omega

theorem occ_mErase (d : List (Int × List Int)) (k : Int) (u : Int) :
    occ (mErase d k) u + ((mGet d k).getD []).count u = occ d u := by
  induction d with
  | nil => simp [mErase, mGet, occ]
  | cons kv d ih =>
    obtain ⟨k0, l0⟩ := kv
    simp only [mErase, mGet]
    split
    · simp only [occ, Option.getD_some]; omega
    · simp only [occ]; omega

theorem count_le_occ (d : List (Int × List Int)) (x : Int) (l : List Int) (u : Int)
    (h : mGet d x = some l) : l.count u ≤ occ d u := by
  induction d with
  | nil => cases h
  | cons kv d ih =>
    obtain ⟨k0, l0⟩ := kv
    simp only [mGet] at h
    split at h
    · cases h; simp only [occ]; omega
    · have := ih h
      simp only [occ]; omega

end Hpbf.OptLoop
