/-
C03 / C13 (the JIT's instruction selector is total on generator output), operand ranges: every x86
instruction emitted by the four arithmetic / copy selectors (`emitCopy`, `emitAdd`, `emitSub`, `emitMul`)
passes the operand-range test `X86.fits`, provided the cell displacements `bytes * idx` and the stack
displacements `8 * t` of the bytecode operands are `i32`s (`LocFits`).

Why: a tape operand is `[rbp + bytes * idx]` (`memParam`), a temporary a register or `[rsp + 8 * t]`
(`tmpParam`); a 32-bit immediate or `lea` displacement is used only after the selector tested `fitsI32`;
`as i8` / `as i16` (`truncImm`) land in range by construction; `mov r64, imm64` takes the `toInt` of a
`BitVec 64`.
-/
import Hpbf.Proofs.C03Base
namespace Hpbf
namespace C03
open Asm JitGen

/-- The displacement of the cell at offset `idx` is an `i32`. -/
def DispOk (sz : Size) (idx : Int) : Prop :=
  -2147483648 ≤ (sz.bytes : Int) * idx ∧ (sz.bytes : Int) * idx < 2147483648

/-- The operand is encodable: cell displacement `bytes * idx` and stack displacement `8 * t` are `i32`s. -/
def LocFits {w : Nat} (sz : Size) : Bc.Loc w → Prop
  | .mem idx => DispOk sz idx
  | .memZero _ => True
  | .tmp t => 8 * t < 2147483648
  | .imm _ => True

/-! ### Ranges -/

theorem fitsS8_iff (v : Int) : fitsS 8 v = true ↔ -128 ≤ v ∧ v < 128 := by simp [fitsS]
theorem fitsS16_iff (v : Int) : fitsS 16 v = true ↔ -32768 ≤ v ∧ v < 32768 := by simp [fitsS]
theorem fitsS32_iff (v : Int) : fitsS 32 v = true ↔ -2147483648 ≤ v ∧ v < 2147483648 := by simp [fitsS]
theorem fitsS64_iff (v : Int) :
    fitsS 64 v = true ↔ -9223372036854775808 ≤ v ∧ v < 9223372036854775808 := by simp [fitsS]

theorem wrapS8_range (x : Int) : -128 ≤ wrapS 8 x ∧ wrapS 8 x < 128 := by
  have e : (2 : Int) ^ 8 = 256 := by decide
  simp only [wrapS, e]
  split <;> omega

theorem wrapS16_range (x : Int) : -32768 ≤ wrapS 16 x ∧ wrapS 16 x < 32768 := by
  have e : (2 : Int) ^ 16 = 65536 := by decide
  simp only [wrapS, e]
  split <;> omega

theorem fitsS32_of_fitsI32 {v : Int} (h : fitsI32 v = true) : fitsS 32 v = true := by
  simp only [fitsI32, Bool.and_eq_true, decide_eq_true_eq] at h
  rw [fitsS32_iff]; omega

theorem immBits_b64 : Size.b64.immBits = 32 := rfl

theorem fitsS32_zero : fitsS 32 0 = true := by rw [fitsS32_iff]; omega

theorem fitsS_truncImm {sz : Size} {v : Int} (h : fitsI32 v = true) :
    fitsS sz.immBits (truncImm sz v) = true := by
  cases sz <;> simp only [Size.immBits, truncImm]
  · rw [fitsS8_iff]; exact wrapS8_range v
  · rw [fitsS16_iff]; exact wrapS16_range v
  · exact fitsS32_of_fitsI32 h
  · exact fitsS32_of_fitsI32 h

theorem fitsS64_immI64 {w : Nat} (c : BitVec w) : fitsS 64 (immI64 c) = true := by
  rw [fitsS64_iff]
  have h1 := BitVec.two_mul_toInt_lt (x := Cell.intoI64 c)
  have h2 := BitVec.le_two_mul_toInt (x := Cell.intoI64 c)
  simp only [immI64]
  omega

/-! ### Operands -/

theorem dispOk_range {sz : Size} {idx : Int} (h : DispOk sz idx) :
    -2147483648 ≤ idx ∧ idx < 2147483648 := by
  cases sz <;> simp only [DispOk, Size.bytes] at h <;> omega

/-- The stack displacement of temporary `t` is an `i32`. -/
def TmpFit (t : Nat) : Prop := 8 * t < 2147483648

theorem locFits_mem {w : Nat} (sz : Size) (idx : Int) : LocFits sz (.mem idx : Bc.Loc w) ↔ DispOk sz idx :=
  Iff.rfl
theorem locFits_tmp {w : Nat} (sz : Size) (t : Nat) : LocFits sz (.tmp t : Bc.Loc w) ↔ TmpFit t := Iff.rfl
theorem locFits_memZero {w : Nat} (sz : Size) (idx : Int) : LocFits sz (.memZero idx : Bc.Loc w) ↔ True :=
  Iff.rfl
theorem locFits_imm {w : Nat} (sz : Size) (c : BitVec w) : LocFits sz (.imm c : Bc.Loc w) ↔ True := Iff.rfl

theorem fits_memParam {sz : Size} {idx : Int} (h : DispOk sz idx) : (memParam sz idx).fits = true := by
  have hr := dispOk_range h
  simp only [memParam, i32_eq hr.1 hr.2, RegMem.fits, Bool.and_eq_true, decide_eq_true_eq, fitsS32_iff]
  exact ⟨by decide, h⟩

theorem fits_tmpParam {t : Nat} (h : TmpFit t) : (tmpParam t).fits = true := by
  unfold TmpFit at h
  unfold tmpParam
  split
  · rfl
  · simp only [i32_nat (show t < 2147483648 by omega), RegMem.fits, Bool.and_eq_true, decide_eq_true_eq,
      fitsS32_iff]
    omega

@[simp] theorem fits_reg (r : Reg) : (RegMem.reg r).fits = true := rfl

theorem fits_lea1 {r : Reg} {v : Int} (h : fitsI32 v = true) : (RegMem.mem (some r) none 1 v).fits = true := by
  simp only [RegMem.fits, fitsS32_of_fitsI32 h]; rfl

theorem fits_lea2 (r0 r1 : Reg) : (RegMem.mem (some r0) (some r1) 1 0).fits = true := by
  simp only [RegMem.fits, fitsS32_zero]; rfl

/-! ### Optional lists -/

/-- The selector's answer, if any, consists of encodable instructions. -/
def OptFits (o : Option (List X86)) : Prop := ∀ xs, o = some xs → xs.all X86.fits = true

theorem optFits_none : OptFits none := by intro xs h; cases h

theorem optFits_some (xs : List X86) : OptFits (some xs) ↔ xs.all X86.fits = true := by
  simp [OptFits]

theorem optFits_map {o : Option Reg} {f : Reg → List X86} (h : ∀ r, (f r).all X86.fits = true) :
    OptFits (o.map f) := by
  intro xs hx
  simp only [Option.map_eq_some_iff] at hx
  obtain ⟨r, -, rfl⟩ := hx
  exact h r

/-- One selector family: all operand kinds fixed; split every test and close the leaves. -/
macro "fits_arm" : tactic =>
  `(tactic| (
    simp only [emitCopy, emitAdd, emitSub, emitMul]
    repeat' split
    all_goals
      first
      | exact optFits_none
      | (try apply optFits_map; try intro r)
        simp [optFits_some, X86.fits, storeReg, storeI32, addReg, addToReg, addI32, subReg, subToReg, load,
          mov64, st64, add64, sub64, addImm64, immBits_b64, fits_memParam, fits_tmpParam, fits_lea1,
          fits_lea2, fitsS_truncImm, fitsS32_of_fitsI32, fitsS64_immI64, *]))

theorem copy_fits' {w : Nat} (sz : Size) (d s : Bc.Loc w) (hd : LocFits sz d) (hs : LocFits sz s) :
    OptFits (emitCopy sz d s) := by
  cases d <;> cases s <;> simp only [locFits_mem, locFits_tmp, locFits_memZero, locFits_imm] at hd hs <;>
    fits_arm

theorem add_fits' {w : Nat} (sz : Size) (live : Nat) (d a b : Bc.Loc w) (hd : LocFits sz d)
    (ha : LocFits sz a) (hb : LocFits sz b) : OptFits (emitAdd sz live d a b) := by
  cases d <;> cases a <;> cases b <;>
    simp only [locFits_mem, locFits_tmp, locFits_memZero, locFits_imm] at hd ha hb <;> fits_arm

theorem sub_fits' {w : Nat} (sz : Size) (live : Nat) (d a b : Bc.Loc w) (hd : LocFits sz d)
    (ha : LocFits sz a) (hb : LocFits sz b) : OptFits (emitSub sz live d a b) := by
  cases d <;> cases a <;> cases b <;>
    simp only [locFits_mem, locFits_tmp, locFits_memZero, locFits_imm] at hd ha hb <;> fits_arm

theorem mul_fits' {w : Nat} (sz : Size) (live : Nat) (d a b : Bc.Loc w) (hd : LocFits sz d)
    (ha : LocFits sz a) (hb : LocFits sz b) : OptFits (emitMul sz live d a b) := by
  cases d <;> cases a <;> cases b <;>
    simp only [locFits_mem, locFits_tmp, locFits_memZero, locFits_imm] at hd ha hb <;> fits_arm

/-! ### The four selectors -/

theorem emitCopy_fits {w : Nat} (sz : Size) {d s : Bc.Loc w} {xs : List X86}
    (h : emitCopy sz d s = some xs) (hd : LocFits sz d) (hs : LocFits sz s) : xs.all X86.fits = true :=
  copy_fits' sz d s hd hs xs h

theorem emitAdd_fits {w : Nat} (sz : Size) (live : Nat) {d a b : Bc.Loc w} {xs : List X86}
    (h : emitAdd sz live d a b = some xs) (hd : LocFits sz d) (ha : LocFits sz a) (hb : LocFits sz b) :
    xs.all X86.fits = true :=
  add_fits' sz live d a b hd ha hb xs h

theorem emitSub_fits {w : Nat} (sz : Size) (live : Nat) {d a b : Bc.Loc w} {xs : List X86}
    (h : emitSub sz live d a b = some xs) (hd : LocFits sz d) (ha : LocFits sz a) (hb : LocFits sz b) :
    xs.all X86.fits = true :=
  sub_fits' sz live d a b hd ha hb xs h

theorem emitMul_fits {w : Nat} (sz : Size) (live : Nat) {d a b : Bc.Loc w} {xs : List X86}
    (h : emitMul sz live d a b = some xs) (hd : LocFits sz d) (ha : LocFits sz a) (hb : LocFits sz b) :
    xs.all X86.fits = true :=
  mul_fits' sz live d a b hd ha hb xs h

end C03
end Hpbf

#print axioms Hpbf.C03.emitCopy_fits
#print axioms Hpbf.C03.emitAdd_fits
#print axioms Hpbf.C03.emitSub_fits
#print axioms Hpbf.C03.emitMul_fits
