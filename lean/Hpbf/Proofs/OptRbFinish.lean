/-
Rebuild-round proofs, stage 2/3: the end of `finishLoop` (`finishEnd`): the operations moved in front of the
block, then the block directly (`loopInsideIf`) or wrapped in an `if` whose child state `ifState` holds the block.
The loop-motion phase is treated abstractly here: the source program is
`[calc before] ++ ([block] ++ [calc after])` resp. `[calc before] ++ [ifnz c 0 ([block] ++ [calc after])]`,
and the meaning of the analysis flags (`LoopFacts`) for the block is a hypothesis.
-/
import Hpbf.Proofs.OptRbFoot8
import Hpbf.Proofs.OptRbCanon5

namespace Hpbf
namespace OptProof
open Opt OptSem Ir

variable {w : Nat}

/-! ### small facts -/

/-- A state without analysis and with unknown parent knows nothing through the parent, except that its
condition cell is not zero. -/
theorem pk_fresh_unknown {c : Rebuild w} (hanal : c.anal = none) (hpar : c.parent = .unknown)
    (ps : List (Rebuild w)) (M0 : Mem w)
    (hcond : c.subShift = false → ∀ v, c.cond = some v → M0 v ≠ 0#w) : PK c ps M0 := by
  have hca : ∀ v, canAskParentFor c v = false := by
    intro v; unfold canAskParentFor; rw [hanal]; simp
  refine ⟨?_, ?_, ?_⟩
  · intro v cst h
    unfold getParentConstant at h
    rw [hca] at h; simp at h
  · intro v h
    unfold nonZeroParent at h
    rw [hca] at h
    simp only [Bool.false_eq_true, if_false, Bool.and_eq_true, Bool.not_eq_true', beq_iff_eq] at h
    split at h
    · rename_i hh
      exact hcond hh.1 v hh.2
    · cases h
  · intro a b _ _ h
    unfold compareParent at h
    split at h
    · rename_i hab
      have : a = b := by simpa using hab
      rw [this]
    · split at h
      · rw [hpar] at h; simp [pure, Except.pure] at h
      · simp [pure, Except.pure] at h

theorem sameMem_rd {shP cS : Int} {σS σE : State w} (h : SameMem shP σS σE) :
    σS.rd cS = memE σE (cS + shP) := by
  have := congrFun h.2.2.2 (cS + shP)
  show σS.tape.get (σS.ptr + cS) = _
  rw [h.2.2.1, ← this]
  show σS.tape.get (σE.ptr + shP + cS) = σS.tape.get (σE.ptr + (cS + shP))
  congr 1; omega

theorem memS_ptr {σE σE' : State w} (σ : State w) (h : σE.ptr = σE'.ptr) : memS σE σ = memS σE' σ := by
  funext v
  show σ.tape.get (σE.ptr + v) = σ.tape.get (σE'.ptr + v)
  rw [h]

theorem block_skip_fin {isLoop : Bool} {c sh : Int} {body : List (Instr w)} {o : Bool} {σ : State w}
    (hz : σ.rd c = 0#w) : Exec [blockInstr isLoop c sh body o] σ (.fin σ) := by
  cases isLoop with
  | true => exact .loopSkip hz (.nil σ)
  | false => exact .ifSkip hz (.nil σ)

/-- A terminating run of the wrapping `if`. -/
theorem wrap_fin_inv {c : Int} {blk : Instr w} {a : List (Int × Expr w)} {σ x : State w}
    (hne : σ.rd c ≠ 0#w) (h : Exec [.ifnz c 0 ([blk] ++ [.calc a])] σ (.fin x)) :
    ∃ σ' σ1, Exec [blk] σ (.fin σ') ∧ Exec [.calc a] σ' (.fin σ1) ∧ Exec ([blk] ++ [.calc a]) σ (.fin σ1) ∧
      x = σ1.mov 0 := by
  rcases (exec_ifnz_once_iff hne _).1 h with ⟨hnf, _⟩ | ⟨σ1, hb, e | e⟩
  · cases hnf
  · cases e
    rcases exec_append.1 hb with ⟨hnf, _⟩ | ⟨σ', h1, h2⟩
    · cases hnf
    · exact ⟨σ', σ1, h1, h2, hb, rfl⟩
  · cases e

/-! ### composition of guarded steps -/

theorem StepNG.trans_g {G G2 : State w → Prop} {sh1 sh2 sh3 : Int} {ps : List (Rebuild w)} {a b c : Rebuild w}
    {l1 l2 n1 n2 : List (Instr w)} (h1 : StepNG G sh1 sh2 ps a b l1 n1)
    (h2 : StepNG G2 sh2 sh3 ps b c l2 n2)
    (hg : ∀ M0 σE σS σS', RelAt sh1 a ps M0 σE σS → G σS → Exec l1 σS (.fin σS') → G2 σS') :
    StepNG G sh1 sh3 ps a c (l1 ++ l2) (n1 ++ n2) := by
  refine ⟨fun h => h1.1 (h2.1 h), ?_⟩
  intro M0 σE σS h hG
  obtain ⟨hs1, hb1⟩ := h1.2 M0 σE σS h hG
  refine ⟨Sim.append hs1.fin_strengthen ?_, ?_⟩
  · rintro σS' σE' ⟨⟨M0', h', hk'⟩, hex, _⟩
    refine (h2.2 M0' σE' σS' h' (hg M0 σE σS σS' h hG hex)).1.mono ?_
    rintro x y ⟨M0'', h'', hk''⟩
    refine ⟨M0'', h'', fun hc => ?_⟩
    obtain ⟨k1, k2⟩ := hk'' hc
    obtain ⟨k3, k4⟩ := hk' (h2.1 hc)
    exact ⟨k1.trans k3, k2.trans k4⟩
  · intro hb
    rcases bad_append.1 hb with hb | ⟨σ1, he, hb⟩
    · exact hb1 hb
    · obtain ⟨σS', hex, M0', h', _⟩ := hs1.finR σ1 he
      exact (h2.2 M0' σ1 σS' h' (hg M0 σE σS σS' h hG hex)).2 hb

/-! ### the wrapping `if` -/

/-- Guard of the child `ifState` of the wrapping `if`: its body is entered from a source state that is valid for
the parent, satisfies the parent's guard, and has a non-zero condition cell. -/
def WrapG (shP : Int) (s1 : Rebuild w) (ps : List (Rebuild w)) (G1 : State w → Prop) (cS : Int) :
    State w → Prop :=
  fun σS => (∃ M0 σE, RelAt shP s1 ps M0 σE σS) ∧ G1 σS ∧ σS.rd cS ≠ 0#w

/-- The facts about the block, seen from the child state of the wrapping `if`. -/
theorem LoopFacts.wrap {G1 : State w → Prop} {shP : Int} {s1 : Rebuild w} {ps : List (Rebuild w)}
    {isLoop : Bool} {cS shS : Int} {bodyS : List (Instr w)} {oS : Bool} {L : OptLoop w} {C : List Int}
    (hF : LoopFacts G1 shP s1 ps isLoop cS shS bodyS oS L C) (if0 : Rebuild w) :
    LoopFacts (WrapG shP s1 ps G1 cS) shP if0 [] isLoop cS shS bodyS oS L.toAtLeastOnce C := by
  refine ⟨?_, ?_, hF.ifamo, ?_, ?_, ?_, ?_⟩
  · rintro _ M0 σE σS _ ⟨_, _, hne⟩; exact hne
  · rintro ha hl M0 σE σS _ ⟨⟨M0', σE', hrel'⟩, hg, _⟩
    exact hF.amo ha hl M0' σE' σS hrel' hg
  · rintro ha M0 σE σS _ ⟨⟨M0', σE', hrel'⟩, hg, _⟩
    exact hF.nc ha M0' σE' σS hrel' hg
  · rintro ha M0 σE σS _ ⟨⟨M0', σE', hrel'⟩, hg, _⟩
    exact hF.ne ha M0' σE' σS hrel' hg
  · rintro M0 σE σS hrel ⟨⟨M0', σE', hrel'⟩, hg, _⟩ k σk hh hk x hx
    have hp : σE.ptr = σE'.ptr := by
      have h1 := hrel.ptr
      have h2 := hrel'.ptr
      omega
    rw [memS_ptr σk hp, memS_ptr σS hp]
    exact hF.const M0' σE' σS hrel' hg k σk hh hk x hx
  · rintro ha hb M0 σE σS _ ⟨⟨M0', σE', hrel'⟩, hg, _⟩
    exact hF.fin ha hb M0' σE' σS hrel' hg

/-- The `else` branch at the end of `finishLoop`: the block inside a fresh state `ifState`, which becomes the
body of an `if`. The footprint facts about `ifState` are a hypothesis here (`hfoot`). -/
theorem wrap_ok {shP shC shS cS : Int} {bodyS : List (Instr w)} {oS : Bool} {isLoop : Bool}
    {s1 : Rebuild w} {ps : List (Rebuild w)} {sub : Rebuild w} {cond : Int} {L : OptLoop w}
    {after : List (Int × Expr w)} {C : List Int} {pc : List (Rebuild w)} {sub0 : Rebuild w}
    {os os2 os' : Orders} {ifS s' : Rebuild w} {G1 Gc : State w → Prop}
    (h3 : (loopInsideIf (Rebuild.new s1.shift (some cond) .unknown none) [] sub cond L.toAtLeastOnce after C).run os
      = .ok (ifS, os2))
    (h4 : (loopOrIf s1 ps ifS cond false L.toAtMostOnce C).run os2 = .ok (s', os'))
    (hwf : Wf s1) (hcond : cond = cS + shP)
    (hsh : shC + shS = (sub.shift - s1.shift) + shP)
    (hrep : ChildRep Gc shP shC pc sub0 [] sub bodyS)
    (hentry : ∀ σE σS : State w, SameMem shP σS σE → σS.rd cS ≠ 0#w → Gc σS →
      ∃ M0, RelAt shP sub0 pc M0 σE σS)
    (hGc : ∀ M0 σE σS, RelAt shP s1 ps M0 σE σS → G1 σS → ∀ k σk, Head cS shS bodyS σS k σk →
      (L.atMostOnce = true → k = 0) → σk.rd cS ≠ 0#w → Gc σk)
    (hwfc : Wf sub)
    (hpre : sub.subShift = false → ChildPre Gc shP shC pc sub0 sub cS bodyS)
    (hkv : sub.subShift = false →
      ∀ v e, mGet sub.written v = some (.known e) → ∀ x ∈ Expr.variables e, x ∈ sub.reads)
    (hF : LoopFacts G1 shP s1 ps isLoop cS shS bodyS oS L C)
    (hafter : after ≠ [] → shP = 0 ∧ sub.shift = s1.shift)
    (hnalo : L.atLeastOnce = false)
    (hconstW : ∀ M0 σE σS, RelAt shP s1 ps M0 σE σS → G1 σS → σS.rd cS ≠ 0#w →
      ∀ σ1, Exec ([blockInstr isLoop cS shS bodyS oS] ++ [.calc after]) σS (.fin σ1) →
      ∀ x, C.contains x = true → memS σE σ1 x = memS σE σS x)
    (hGcT : L.atMostOnce = false → ∀ σ, Gc σ) :
    Wf s' ∧ s'.anal = s1.anal ∧ s'.cond = s1.cond ∧ s'.shift = s1.shift ∧
    ∃ new, s'.insts = s1.insts ++ new ∧
      StepNG G1 shP shP ps s1 s' [.ifnz cS 0 ([blockInstr isLoop cS shS bodyS oS] ++ [.calc after])] new := by
  -- the inner call
  have hwf0 : Wf (Rebuild.new s1.shift (some cond) .unknown none : Rebuild w) := wf_new _ _ _ _
  obtain ⟨wI, _, _, shE, newI, hEs, hiI, hstI⟩ :=
    loopInsideIf_ok (G := WrapG shP s1 ps G1 cS) (oS := oS) h3 hwf0 (Or.inl rfl) hcond hsh hrep hentry
      (by
        rintro M0 σE σS _ ⟨⟨M0', σE', hrel'⟩, hg, _⟩ k σk hh hk hne
        exact hGc M0' σE' σS hrel' hg k σk hh hk hne)
      hwfc hpre hkv (hF.wrap _) (fun _ => rfl) hafter
  have hiI' : ifS.insts = newI := by rw [hiI]; rfl
  have hfoot : ifS.subShift = false →
      FootStepV (ValidG (WrapG shP s1 ps G1 cS) shP (Rebuild.new s1.shift (some cond) .unknown none) [])
        (Rebuild.new s1.shift (some cond) .unknown none) ifS ifS.insts ∧
      FootBadV (ValidG (WrapG shP s1 ps G1 cS) shP (Rebuild.new s1.shift (some cond) .unknown none) [])
        (Rebuild.new s1.shift (some cond) .unknown none) ifS ifS.insts ∧
      FootFrameV (ValidG (WrapG shP s1 ps G1 cS) shP (Rebuild.new s1.shift (some cond) .unknown none) [])
        (Rebuild.new s1.shift (some cond) .unknown none) ifS ifS.insts := by
    intro _
    obtain ⟨newF, hiF, f1, f2, f3, _, _⟩ :=
      loopInsideIf_foot (G := WrapG shP s1 ps G1 cS) (oS := oS) h3 hwf0 (Or.inl rfl) hcond hsh hrep hentry
        (by
          rintro M0 σE σS _ ⟨⟨M0', σE', hrel'⟩, hg, _⟩ k σk hh hk hne
          exact hGc M0' σE' σS hrel' hg k σk hh hk hne)
        hGcT hwfc hpre hkv (hF.wrap _) (fun _ => rfl) hafter
    have : newF = newI := List.append_cancel_left (hiF.symm.trans hiI)
    rw [hiI', ← this]
    exact ⟨f1, f2, f3⟩
  -- the child interface of `ifState`
  have hshC : ∃ shC' : Int, shC' = shP + (ifS.shift - s1.shift) := ⟨_, rfl⟩
  obtain ⟨shC', hshC'⟩ := hshC
  have hrepI : ChildRep (WrapG shP s1 ps G1 cS) shP shC' [] (Rebuild.new s1.shift (some cond) .unknown none) []
      ifS ([blockInstr isLoop cS shS bodyS oS] ++ [.calc after]) := by
    intro M0 σE σS hrel hg
    obtain ⟨hs, hb⟩ := hstI.2 M0 σE σS hrel hg
    rw [hiI']
    refine ⟨hs.mono ?_, hb⟩
    rintro x y ⟨M0', hr', hk'⟩
    have : shE = shC' := by rw [hshC']; exact hEs hr'.nr
    rw [← this]
    exact ⟨M0', hr', hk'⟩
  have hentryI : ∀ σE σS : State w, SameMem shP σS σE → σS.rd cS ≠ 0#w → WrapG shP s1 ps G1 cS σS →
      ∃ M0, RelAt shP (Rebuild.new s1.shift (some cond) .unknown none) [] M0 σE σS := by
    intro σE σS hm hne _
    refine ⟨memE σE, hm.1, hm.2.1, hm.2.2.1, rfl, ?_, fun v => rfl, ?_⟩
    · show memS σE σS = Mem.par [] (memE σE)
      rw [par_nil]; exact hm.2.2.2
    · refine pk_fresh_unknown rfl rfl [] _ ?_
      intro _ v hv
      have : v = cS + shP := by
        have h' : (Rebuild.new s1.shift (some cond) .unknown none : Rebuild w).cond = some cond := rfl
        rw [h'] at hv; cases hv; exact hcond
      rw [this, ← sameMem_rd hm]; exact hne
  have hGcI : ∀ M0 σE σS, RelAt shP s1 ps M0 σE σS → G1 σS →
      ∀ k σk, Head cS 0 ([blockInstr isLoop cS shS bodyS oS] ++ [.calc after]) σS k σk →
      ((false : Bool) = false → k = 0) → σk.rd cS ≠ 0#w → WrapG shP s1 ps G1 cS σk := by
    intro M0 σE σS hrel hG k σk hh hk hne
    have hk0 := hk rfl
    subst hk0
    cases hh
    exact ⟨⟨M0, σE, hrel⟩, hG, hne⟩
  -- facts about the wrapping `if`
  have halo : (L.toAtMostOnce).atLeastOnce = true → ∀ M0 σE σS, RelAt shP s1 ps M0 σE σS → G1 σS →
      σS.rd cS ≠ 0#w := by
    intro h
    have : (L.toAtMostOnce).atLeastOnce = L.atLeastOnce := rfl
    rw [this, hnalo] at h; cases h
  have hnofin : ∀ σS : State w, (∀ x, ¬ Exec [blockInstr isLoop cS shS bodyS oS] σS (.fin x)) →
      ∀ x, ¬ Exec [blockInstr false cS 0 ([blockInstr isLoop cS shS bodyS oS] ++ [.calc after]) oS] σS (.fin x) := by
    intro σS hn x hx
    by_cases hz : σS.rd cS = 0#w
    · exact hn σS (block_skip_fin hz)
    · obtain ⟨σ', _, h1, _⟩ := wrap_fin_inv hz hx
      exact hn σ' h1
  have hnc : (L.toAtMostOnce).noContinue = true → ∀ M0 σE σS, RelAt shP s1 ps M0 σE σS → G1 σS →
      ∀ x, ¬ Exec [blockInstr false cS 0 ([blockInstr isLoop cS shS bodyS oS] ++ [.calc after]) oS] σS (.fin x) :=
    fun h M0 σE σS hrel hG => hnofin σS (hF.nc h M0 σE σS hrel hG)
  have hne : (L.toAtMostOnce).noEffect = true → ∀ M0 σE σS, RelAt shP s1 ps M0 σE σS → G1 σS →
      σS.rd cS = 0#w ∨
      ∀ x, ¬ Exec [blockInstr false cS 0 ([blockInstr isLoop cS shS bodyS oS] ++ [.calc after]) oS] σS (.fin x) := by
    intro h M0 σE σS hrel hG
    rcases hF.ne h M0 σE σS hrel hG with h' | h'
    · exact Or.inl h'
    · exact Or.inr (hnofin σS h')
  have hconst : ∀ M0 σE σS, RelAt shP s1 ps M0 σE σS → G1 σS →
      ∀ k σk, Head cS 0 ([blockInstr isLoop cS shS bodyS oS] ++ [.calc after]) σS k σk →
      ((false : Bool) = false → k ≤ 1) → ∀ x, C.contains x = true → memS σE σk x = memS σE σS x := by
    intro M0 σE σS hrel hG k σk hh hk x hx
    cases hh with
    | zero => rfl
    | succ hprev hne' hex =>
      have := hk rfl
      rename_i k' σk' σ'
      have hk0 : k' = 0 := by omega
      subst hk0
      cases hprev
      have := hconstW M0 σE σS hrel hG hne' _ hex x hx
      rw [← this]
      rfl
  cases hns : (ifS.subShift || ifS.shift != s1.shift) with
  | false =>
    have hss : ifS.subShift = false := by
      simp only [Bool.or_eq_false_iff] at hns; exact hns.1
    have hse : ifS.shift = s1.shift := by
      simp only [Bool.or_eq_false_iff, bne_eq_false_iff_eq] at hns; exact hns.2
    obtain ⟨f1, f2, f3⟩ := hfoot hss
    have hpreI : ChildPre (WrapG shP s1 ps G1 cS) shP shC' [] (Rebuild.new s1.shift (some cond) .unknown none)
        ifS cS ([blockInstr isLoop cS shS bodyS oS] ++ [.calc after]) :=
      ⟨hrepI, f1, f2, f3, hss, rfl, hentryI, wI⟩
    obtain ⟨w1, w2, new, hi, hst⟩ := loopOrIf_stay_ok' (oS := oS) (shS := 0) h4 hwf hpreI hns hcond
      (by rw [hshC', hse]; omega) hGcI halo hnc hne hconst
    exact ⟨w1, w2.2.1, w2.2.2.2.1, w2.2.2.1, new, hi, hst⟩
  | true =>
    obtain ⟨w1, _, w3, w4, w5, new, hi, hst⟩ := loopOrIf_shift_ok (oS := oS) (shS := 0) h4 hwf wI hns hcond
      (by rw [hshC']; omega) hrepI hentryI hGcI halo hnc
    exact ⟨w1, w3, w4, w5, new, hi, hst⟩

/-! ### `finishEnd` -/

/-- `performAll s ps 0 calcs` at a source offset `shP` (which must be `0` unless there is nothing to perform). -/
theorem performAll0_stepN {G : State w → Prop} {s : Rebuild w} {ps : List (Rebuild w)} {shP : Int}
    {calcs : List (Int × Expr w)}
    (hwf : Wf s) {os os' : Orders} {s' : Rebuild w}
    (hr : (performAll s ps 0 calcs).run os = .ok (s', os')) (h0 : calcs ≠ [] → shP = 0) :
    Wf s' ∧ SameHdr s s' ∧ s'.noReturn = s.noReturn ∧
    ∃ new, s'.insts = s.insts ++ new ∧ StepNG G shP shP ps s s' [.calc calcs] new := by
  by_cases hc : calcs = []
  · subst hc
    rw [performAll_nil, run_pure] at hr
    cases hr
    have h2' : (performAll s ps shP []).run os = .ok (s, os) := by rw [performAll_nil]; rfl
    obtain ⟨v1, v2, v3, new, hi, _, hsub, hst⟩ := performAll_stepN hwf h2'
    exact ⟨v1, v2, v3, new, hi, hsub, fun M0 σE σS hrel _ => hst M0 σE σS hrel⟩
  · have := h0 hc
    subst this
    obtain ⟨v1, v2, v3, new, hi, _, hsub, hst⟩ := performAll_stepN hwf hr
    exact ⟨v1, v2, v3, new, hi, hsub, fun M0 σE σS hrel _ => hst M0 σE σS hrel⟩

/-- The program `finishEnd` is correct for (after the loop-motion phase has been accounted for). -/
def endSrc (isLoop : Bool) (cS shS : Int) (bodyS : List (Instr w)) (oS : Bool) (L : OptLoop w)
    (before after : List (Int × Expr w)) : List (Instr w) :=
  [.calc before] ++
    (if L.atLeastOnce || (!L.atMostOnce && after.isEmpty) then
      [blockInstr isLoop cS shS bodyS oS] ++ [.calc after]
    else [.ifnz cS 0 ([blockInstr isLoop cS shS bodyS oS] ++ [.calc after])])

theorem finishEnd_ok {shP shC shS cS : Int} {bodyS : List (Instr w)} {oS : Bool} {isLoop : Bool}
    {s : Rebuild w} {ps : List (Rebuild w)} {sub : Rebuild w} {cond : Int} {L : OptLoop w}
    {before after : List (Int × Expr w)} {C : List Int} {pc : List (Rebuild w)} {sub0 : Rebuild w}
    {os os' : Orders} {s' : Rebuild w} {G G1 Gc : State w → Prop}
    (hr : (finishEnd s ps cond L (sub, before, after, C)).run os = .ok (s', os'))
    (hwf : Wf s) (hsf : ShiftFree s) (hcond : cond = cS + shP)
    (hsh : shC + shS = (sub.shift - s.shift) + shP)
    (hrep : ChildRep Gc shP shC pc sub0 [] (forgetParent sub) bodyS)
    (hentry : ∀ σE σS : State w, SameMem shP σS σE → σS.rd cS ≠ 0#w → Gc σS →
      ∃ M0, RelAt shP sub0 pc M0 σE σS)
    (hwfc : Wf sub)
    (hpre : sub.subShift = false → ChildPre Gc shP shC pc sub0 (forgetParent sub) cS bodyS)
    (hkv : sub.subShift = false →
      ∀ v e, mGet sub.written v = some (.known e) → ∀ x ∈ Expr.variables e, x ∈ sub.reads)
    (hbefore : before ≠ [] → shP = 0)
    (hafter : after ≠ [] → shP = 0 ∧ sub.shift = s.shift)
    (hG1 : ∀ M0 σE σS σS', RelAt shP s ps M0 σE σS → G σS → Exec [.calc before] σS (.fin σS') → G1 σS')
    (hF : ∀ s1 os1, (performAll s ps 0 before).run os = .ok (s1, os1) →
      LoopFacts G1 shP s1 ps isLoop cS shS bodyS oS L C)
    (hGc : ∀ s1 M0 σE σS, RelAt shP s1 ps M0 σE σS → G1 σS → ∀ k σk, Head cS shS bodyS σS k σk →
      (L.atMostOnce = true → k = 0) → σk.rd cS ≠ 0#w → Gc σk)
    (hconstW : ∀ s1 M0 σE σS, RelAt shP s1 ps M0 σE σS → G1 σS → σS.rd cS ≠ 0#w →
      ∀ σ1, Exec ([blockInstr isLoop cS shS bodyS oS] ++ [.calc after]) σS (.fin σ1) →
      ∀ x, C.contains x = true → memS σE σ1 x = memS σE σS x)
    (hGcT : L.atMostOnce = false → ∀ σ, Gc σ) :
    Wf s' ∧ s'.anal = s.anal ∧ s'.cond = s.cond ∧
    ∃ shE new, (s'.noReturn = false → shE = shP + (s'.shift - s.shift)) ∧ s'.insts = s.insts ++ new ∧
      StepNG G shP shE ps s s' (endSrc isLoop cS shS bodyS oS L before after) new := by
  unfold finishEnd at hr
  dsimp only at hr
  rw [run_bind_ok] at hr
  obtain ⟨s1, os1, h1, h2⟩ := hr
  obtain ⟨wf1, hdr1, nr1, newB, hiB, hstB⟩ := performAll0_stepN (G := G) hwf h1 hbefore
  have hsf1 : ShiftFree s1 := by
    unfold ShiftFree at hsf ⊢
    rw [hdr1.2.1]; exact hsf
  have hwfF : Wf (forgetParent sub) := ⟨hwfc.pend, hwfc.writ, hwfc.rev, hwfc.revOk⟩
  have hgtrans : ∀ M0 σE σS σS', RelAt shP s ps M0 σE σS → G σS → Exec [.calc before] σS (.fin σS') → G1 σS' :=
    hG1
  unfold endSrc
  split at h2
  · rename_i hdir
    rw [if_pos hdir]
    have hamoalo : L.atMostOnce = true → L.atLeastOnce = true := by
      intro ha
      rw [ha] at hdir
      simpa using hdir
    obtain ⟨w1, w2, w3, shE, new, hEs, hi, hst⟩ :=
      loopInsideIf_ok (G := G1) (oS := oS) h2 wf1 hsf1 hcond
        (by rw [hdr1.2.2.1]; exact hsh) hrep hentry (hGc s1) hwfF hpre hkv (hF s1 os1 h1) hamoalo
        (by rw [hdr1.2.2.1]; exact hafter)
    refine ⟨w1, w2.trans hdr1.2.1, w3.trans hdr1.2.2.2.1, shE, newB ++ new, ?_,
      by rw [hi, hiB, List.append_assoc], hstB.trans_g hst hgtrans⟩
    intro hn
    rw [hEs hn, hdr1.2.2.1]
  · rename_i hdir
    rw [if_neg hdir]
    have hnalo : L.atLeastOnce = false := by
      cases h : L.atLeastOnce with
      | false => rfl
      | true => rw [h] at hdir; simp at hdir
    rw [run_bind_ok] at h2
    obtain ⟨ifS, os2, h3, h4⟩ := h2
    obtain ⟨w1, w2, w3, w4, new, hi, hst⟩ := wrap_ok (oS := oS) h3 h4 wf1 hcond
      (by rw [hdr1.2.2.1]; exact hsh) hrep hentry (hGc s1) hwfF hpre hkv (hF s1 os1 h1)
      (by rw [hdr1.2.2.1]; exact hafter) hnalo (hconstW s1) hGcT
    refine ⟨w1, w2.trans hdr1.2.1, w3.trans hdr1.2.2.2.1, shP, newB ++ new, ?_,
      by rw [hi, hiB, List.append_assoc], hstB.trans_g hst hgtrans⟩
    intro _
    rw [w4, hdr1.2.2.1]; omega

end OptProof
end Hpbf
