/-
Rebuild-round proofs, part 3: the SEMANTIC invariant of a `Rebuild` state at the level of memories (`MInv`), the
abstract interface to the parent chain (`PK`), and soundness of the read-only accessors (`getWritten`,
`getPending`, `getConstant`, `isNonZero`, `evalWritten`, `evalPending`, `retargetOutput`,
`compareWrittenNoParent`).

`M0` = memory at block entry (or after the last uncertain move), `E` = memory after the emitted instructions,
`S` = memory of the source program at the same point; all in the coordinates of the state (offsets from the
emitted program's pointer).
-/
import Hpbf.Proofs.OptRbInv

namespace Hpbf
namespace OptProof
open Opt OptSem

variable {w : Nat}

/-! ### the parent chain, abstractly -/

/-- The part of `isNonZero` that does not look at `pending` / `written`. -/
def nonZeroParent (s : Rebuild w) (ps : List (Rebuild w)) (var : Int) : Bool :=
  if !s.subShift && s.cond == some var then true
  else if canAskParentFor s var then
    match s.parent, ps with
    | .parent, p :: ps' => isNonZero p ps' var
    | _, _ => false
  else false

/-- What the state may conclude about its entry memory `M0` from the parent chain (and from `cond`). -/
structure PK (s : Rebuild w) (ps : List (Rebuild w)) (M0 : Mem w) : Prop where
  const : ∀ v c, getParentConstant s ps v = some c → M0 v = c
  nz : ∀ v, nonZeroParent s ps v = true → M0 v ≠ 0#w
  cmp : ∀ a b, Expr.Canon a → Expr.Canon b → compareParent s ps a b = .ok true →
    ev a M0 = ev b M0

/-- The fields the parent interface depends on. -/
def SameHdr (s s' : Rebuild w) : Prop :=
  s'.parent = s.parent ∧ s'.anal = s.anal ∧ s'.shift = s.shift ∧ s'.cond = s.cond ∧ s'.subShift = s.subShift

theorem SameHdr.refl (s : Rebuild w) : SameHdr s s := ⟨rfl, rfl, rfl, rfl, rfl⟩

theorem SameHdr.trans {a b c : Rebuild w} (h1 : SameHdr a b) (h2 : SameHdr b c) : SameHdr a c := by
  obtain ⟨a1, a2, a3, a4, a5⟩ := h1
  obtain ⟨b1, b2, b3, b4, b5⟩ := h2
  exact ⟨b1.trans a1, b2.trans a2, b3.trans a3, b4.trans a4, b5.trans a5⟩

theorem SameButPend.hdr {s s' : Rebuild w} (h : SameButPend s s') : SameHdr s s' :=
  ⟨h.1, h.2.1, h.2.2.1, h.2.2.2.1, h.2.2.2.2.1⟩

theorem SameButWritten.hdr {s s' : Rebuild w} (h : SameButWritten s s') : SameHdr s s' :=
  ⟨h.1, h.2.1, h.2.2.1, h.2.2.2.1, h.2.2.2.2.1⟩

theorem canAskParentFor_congr {s s' : Rebuild w} (h : SameHdr s s') (v : Int) :
    canAskParentFor s' v = canAskParentFor s v := by
  obtain ⟨_, h2, h3, _, h5⟩ := h
  unfold canAskParentFor; rw [h2, h3, h5]

theorem getParentConstant_congr {s s' : Rebuild w} (h : SameHdr s s') (ps : List (Rebuild w)) (v : Int) :
    getParentConstant s' ps v = getParentConstant s ps v := by
  unfold getParentConstant
  rw [canAskParentFor_congr h, h.1]

theorem nonZeroParent_congr {s s' : Rebuild w} (h : SameHdr s s') (ps : List (Rebuild w)) (v : Int) :
    nonZeroParent s' ps v = nonZeroParent s ps v := by
  unfold nonZeroParent
  rw [canAskParentFor_congr h, h.1, h.2.2.2.1, h.2.2.2.2]

theorem compareParent_congr {s s' : Rebuild w} (h : SameHdr s s') (ps : List (Rebuild w)) (a b : Expr w) :
    compareParent s' ps a b = compareParent s ps a b := by
  unfold compareParent
  have : (fun x => canAskParentFor s' x) = (fun x => canAskParentFor s x) := by
    funext x; exact canAskParentFor_congr h x
  rw [this, h.1]

theorem PK.congr {s s' : Rebuild w} {ps : List (Rebuild w)} {M0 : Mem w} (h : PK s ps M0)
    (hh : SameHdr s s') : PK s' ps M0 :=
  ⟨fun v c hc => h.const v c (by rw [← getParentConstant_congr hh]; exact hc),
   fun v hv => h.nz v (by rw [← nonZeroParent_congr hh]; exact hv),
   fun a b ha hb hc => h.cmp a b ha hb (by rw [← compareParent_congr hh]; exact hc)⟩

/-! ### the invariant -/

/-- `written` describes `E` relative to `M0`. -/
def WrOk (s : Rebuild w) (M0 E : Mem w) : Prop :=
  ∀ v, match mGet s.written v with
    | some (.known e) => E v = ev e M0
    | some _ => True
    | none => E v = M0 v

structure MInv (s : Rebuild w) (ps : List (Rebuild w)) (M0 E S : Mem w) : Prop where
  pend : S = Mem.par s.pending E
  writ : WrOk s M0 E
  pk : PK s ps M0

theorem WrOk.known {s : Rebuild w} {M0 E : Mem w} (h : WrOk s M0 E) {v : Int} {e : Expr w}
    (hv : mGet s.written v = some (.known e)) : E v = ev e M0 := by
  have := h v; rw [hv] at this; exact this

theorem WrOk.absent {s : Rebuild w} {M0 E : Mem w} (h : WrOk s M0 E) {v : Int}
    (hv : mGet s.written v = none) : E v = M0 v := by
  have := h v; rw [hv] at this; exact this

theorem MInv.S_pending {s : Rebuild w} {ps : List (Rebuild w)} {M0 E S : Mem w} (h : MInv s ps M0 E S)
    {v : Int} {e : Expr w} (hv : mGet s.pending v = some e) : S v = ev e E := by
  rw [h.pend]; exact par_of_get _ _ _ _ hv

theorem MInv.S_absent {s : Rebuild w} {ps : List (Rebuild w)} {M0 E S : Mem w} (h : MInv s ps M0 E S)
    {v : Int} (hv : mGet s.pending v = none) : S v = E v := by
  rw [h.pend]; exact par_of_not_mem _ _ _ hv

/-! ### unfolding equations -/

theorem getWrittenConstant_eq (s : Rebuild w) (ps : List (Rebuild w)) (var : Int) :
    getWrittenConstant s ps var =
      match mGet s.written var with
      | some (.known expr) => Expr.constant expr
      | some _ => none
      | none => getParentConstant s ps var := rfl

theorem getConstant_eq (s : Rebuild w) (ps : List (Rebuild w)) (var : Int) :
    getConstant s ps var =
      match mGet s.pending var with
      | some expr => Expr.constant expr
      | none => getWrittenConstant s ps var := by
  cases ps <;> (unfold getConstant getWrittenConstant getParentConstant; rfl)

theorem isNonZero_eq (s : Rebuild w) (ps : List (Rebuild w)) (var : Int) :
    isNonZero s ps var =
      match mGet s.pending var with
      | some expr => (match Expr.constant expr with | some c => c != 0#w | none => false)
      | none =>
        match mGet s.written var with
        | some (.known expr) => (match Expr.constant expr with | some c => c != 0#w | none => false)
        | some _ => false
        | none => nonZeroParent s ps var := by
  cases ps <;> (unfold isNonZero nonZeroParent; rfl)

/-! ### soundness of the accessors -/

section Sound
variable {s : Rebuild w} {ps : List (Rebuild w)} {M0 E S : Mem w}

theorem getWrittenConstant_sound' (hw : WrOk s M0 E) (hk : PK s ps M0) {v : Int} {c : BitVec w}
    (hc : getWrittenConstant s ps v = some c) : E v = c := by
  rw [getWrittenConstant_eq] at hc
  split at hc
  · rename_i e hv
    rw [hw.known hv]; exact Expr.eval_constant e c M0 hc
  · cases hc
  · rename_i hv
    rw [hw.absent hv]; exact hk.const v c hc

theorem getWrittenConstant_sound (h : MInv s ps M0 E S) {v : Int} {c : BitVec w}
    (hc : getWrittenConstant s ps v = some c) : E v = c := getWrittenConstant_sound' h.writ h.pk hc

theorem getWritten_sound' (hw : WrOk s M0 E) (hk : PK s ps M0) {v : Int} {e : Expr w}
    (he : getWritten s ps v = some e) : ev e M0 = E v := by
  unfold getWritten at he
  split at he
  · rename_i e' hv
    cases he; exact (hw.known hv).symm
  · cases he
  · rename_i hv
    split at he
    · rename_i c hc
      cases he
      rw [hw.absent hv, hk.const v c hc]
      exact Expr.eval_val c M0
    · cases he
      rw [hw.absent hv]; exact Expr.eval_var v M0

theorem getWritten_sound (h : MInv s ps M0 E S) {v : Int} {e : Expr w}
    (he : getWritten s ps v = some e) : ev e M0 = E v := getWritten_sound' h.writ h.pk he

theorem getPending_sound (h : MInv s ps M0 E S) (v : Int) : ev (getPending s ps v) E = S v := by
  unfold getPending
  split
  · rename_i e hv; exact (h.S_pending hv).symm
  · rename_i hv
    rw [h.S_absent hv]
    split
    · rename_i c hc
      rw [getWrittenConstant_sound h hc]; exact Expr.eval_val c E
    · exact Expr.eval_var v E

theorem getConstant_sound (h : MInv s ps M0 E S) {v : Int} {c : BitVec w}
    (hc : getConstant s ps v = some c) : S v = c := by
  rw [getConstant_eq] at hc
  split at hc
  · rename_i e hv
    rw [h.S_pending hv]; exact Expr.eval_constant e c E hc
  · rename_i hv
    rw [h.S_absent hv]; exact getWrittenConstant_sound h hc

theorem isNonZero_sound (h : MInv s ps M0 E S) {v : Int} (hz : isNonZero s ps v = true) : S v ≠ 0#w := by
  rw [isNonZero_eq] at hz
  split at hz
  · rename_i e hv
    rw [h.S_pending hv]
    split at hz
    · rename_i c hc
      rw [show ev e E = c from Expr.eval_constant e c E hc]
      simpa using hz
    · cases hz
  · rename_i hv
    rw [h.S_absent hv]
    split at hz
    · rename_i e hw
      rw [h.writ.known hw]
      split at hz
      · rename_i c hc
        rw [show ev e M0 = c from Expr.eval_constant e c M0 hc]
        simpa using hz
      · cases hz
    · cases hz
    · rename_i hw
      rw [h.writ.absent hw]; exact h.pk.nz v hz

theorem retargetOutput_sound (h : MInv s ps M0 E S) {v x : Int} (hx : retargetOutput s v = some x) :
    E x = S v := by
  unfold retargetOutput at hx
  split at hx
  · rename_i e hv
    rw [h.S_pending hv]; exact (Expr.eval_identity e x E hx).symm
  · rename_i hv
    cases hx; exact (h.S_absent hv).symm

theorem evalWritten_sound' (hw : WrOk s M0 E) (hk : PK s ps M0) {e e' : Expr w}
    (he : evalWritten s ps e = some e') : ev e' M0 = ev e E := by
  unfold evalWritten at he
  split at he
  · have hd := (Expr.symbEvaluate_isSome e (fun i => getWritten s ps i)).1 (by rw [he]; rfl)
    show Expr.evaluate e' M0 = _
    rw [Expr.eval_symbEvaluate e e' _ M0 he]
    apply ev_congr
    intro v hv
    have := hd v hv
    cases hg : getWritten s ps v with
    | none => simp [hg] at this
    | some ev' =>
      show (match getWritten s ps v with | some ev => Expr.evaluate ev M0 | none => 0#w) = E v
      rw [hg]; exact getWritten_sound' hw hk hg
  · rename_i hany
    cases he
    apply ev_congr
    intro v hv
    have : mHas s.written v = false := by
      simp only [List.any_eq_true, not_exists, not_and, Bool.not_eq_true] at hany
      exact hany v hv
    exact (hw.absent ((mHas_false_iff _ _).1 this)).symm

theorem evalWritten_sound (h : MInv s ps M0 E S) {e e' : Expr w} (he : evalWritten s ps e = some e') :
    ev e' M0 = ev e E := evalWritten_sound' h.writ h.pk he

theorem compareWrittenNoParent_sound' (hw : WrOk s M0 E) (hk : PK s ps M0) {a b : Expr w}
    (hc : compareWrittenNoParent s ps a b = true) : ev a E = ev b E := by
  unfold compareWrittenNoParent at hc
  split at hc
  · rename_i hab
    have : a = b := by simpa using hab
    rw [this]
  · split at hc
    · rename_i a' ha
      split at hc
      · rename_i b' hb
        have : a' = b' := by simpa using hc
        rw [← evalWritten_sound' hw hk ha, ← evalWritten_sound' hw hk hb, this]
      · cases hc
    · cases hc

theorem compareWrittenNoParent_sound (h : MInv s ps M0 E S) {a b : Expr w}
    (hc : compareWrittenNoParent s ps a b = true) : ev a E = ev b E :=
  compareWrittenNoParent_sound' h.writ h.pk hc

/-! ### `shiftVars` and `evalPending` -/

theorem mono_map_add (f : Int → BitVec w) (vs : List Int) (sh : Int) :
    Expr.mono f (vs.map (· + sh)) = Expr.mono (fun x => f (x + sh)) vs := by
  induction vs with
  | nil => rfl
  | cons v vs ih => simp [ih]

theorem evaluate_shiftVars (e : Expr w) (sh : Int) (f : Int → BitVec w) :
    Expr.evaluate (shiftVars e sh) f = Expr.evaluate e (fun x => f (x + sh)) := by
  unfold shiftVars
  induction e with
  | nil => rfl
  | cons p e ih =>
    rw [List.map_cons, Expr.evaluate_cons', Expr.evaluate_cons', ih]
    simp only [mono_map_add]

theorem evalPending_sound (h : MInv s ps M0 E S) {sh : Int} {e e' : Expr w}
    (he : evalPending s ps sh e = .ok e') : ev e' E = Expr.evaluate e (fun x => S (x + sh)) := by
  unfold evalPending at he
  split at he
  · cases hr : Expr.symbEvaluate e (fun x => some (getPending s ps (x + sh))) with
    | none => rw [hr] at he; cases he
    | some r =>
      rw [hr] at he
      cases he
      show Expr.evaluate _ E = _
      rw [Expr.eval_symbEvaluate e _ _ E hr]
      apply C01Dse.evaluate_congr
      intro v _
      exact getPending_sound h (v + sh)
  · rename_i hany
    have hE : ∀ v ∈ Expr.variables e, S (v + sh) = E (v + sh) := by
      intro v hv
      simp only [List.any_eq_true, not_exists, not_and, Bool.not_eq_true, Bool.or_eq_false_iff] at hany
      exact h.S_absent ((mHas_false_iff _ _).1 (hany v hv).1)
    have hgoal : Expr.evaluate e (fun x => E (x + sh)) = Expr.evaluate e (fun x => S (x + sh)) :=
      C01Dse.evaluate_congr _ _ e (fun v hv => (hE v hv).symm)
    split at he
    · cases he
      show Expr.evaluate (shiftVars e sh) E = _
      rw [evaluate_shiftVars]; exact hgoal
    · rename_i hsh
      cases he
      have : sh = 0 := by simpa using hsh
      subst this
      rw [← hgoal]
      show Expr.evaluate e E = _
      congr 1; funext x; simp

end Sound

end OptProof
end Hpbf
