/-
C03 / C13 (the JIT's instruction selector is total on generator output), part 1: the exact set of instruction
forms for which `emit_program` (`JitGen.emitInstrRaw`) has an arm (`JitForm`), and the only other panic site of
the loop body (`Reg::tmp(l).unwrap()` in `emit_pre_call`).
-/
import Hpbf.Proofs.C03Base
namespace Hpbf
namespace C03
open Asm JitGen
variable {w : Nat}

/-- Operand kinds. -/
def isMT : Bc.Loc w → Bool
  | .mem _ | .tmp _ => true
  | _ => false
def isMTI : Bc.Loc w → Bool
  | .mem _ | .tmp _ | .imm _ => true
  | _ => false

/-- The operand combinations `emit_program` has an arm for in `Add` and `Mul`. -/
def commForm : Bc.Loc w → Bc.Loc w → Bc.Loc w → Bool
  | .mem _, .mem _, s1 => isMTI s1
  | .mem _, .tmp _, .imm _ => true
  | .mem _, .tmp _, .tmp _ => true
  | .tmp _, .mem _, s1 => isMTI s1
  | .tmp _, .tmp _, .imm _ => true
  | .tmp _, .tmp _, .tmp _ => true
  | .tmp t0, .tmp t1, .mem _ => t0 == t1
  | _, _, _ => false

/-- … in `Sub`. -/
def subForm : Bc.Loc w → Bc.Loc w → Bc.Loc w → Bool
  | d, s0, s1 => isMT d && isMTI s0 && isMT s1

/-- The instruction forms for which the baseline JIT's selector has an arm. -/
def JitForm : Bc.Instr w → Bool
  | .noop | .mov _ | .inp _ | .out _ | .brz _ _ | .brnz _ _ => true
  | .scan _ _ => false
  | .copy d s => isMT d && isMTI s
  | .add d a b => commForm d a b
  | .mul d a b => commForm d a b
  | .sub d a b => subForm d a b

theorem canScratch_map {α : Type} {live t : Nat} (h : canScratch live t = true) (f : Reg → α) :
    ((tmpReg t).map f).isSome = true := by
  rw [tmpReg_lt (canScratch_lt h)]; rfl

theorem emitCopy_isSome (sz : Size) (d s : Bc.Loc w) : (emitCopy sz d s).isSome = (isMT d && isMTI s) := by
  cases d <;> cases s <;> simp only [emitCopy, isMT, isMTI, Bool.and_self, Bool.and_false, Bool.false_and,
    Option.isSome_none] <;> (repeat' split) <;> rfl

theorem emitSub_isSome (sz : Size) (live : Nat) (d a b : Bc.Loc w) :
    (emitSub sz live d a b).isSome = subForm d a b := by
  cases d <;> cases a <;> cases b <;> simp only [emitSub, subForm, isMT, isMTI, Bool.and_self, Bool.and_false,
    Bool.false_and, Option.isSome_none] <;> (repeat' split) <;>
    first | rfl | (rename_i h; exact canScratch_map h _) | (rename_i h _; exact canScratch_map h _)

theorem emitAdd_isSome (sz : Size) (live : Nat) (d a b : Bc.Loc w) :
    (emitAdd sz live d a b).isSome = commForm d a b := by
  cases d <;> cases a <;> cases b <;> simp only [emitAdd, commForm, isMTI, Option.isSome_none] <;>
    (repeat' split) <;>
    first
    | rfl
    | (rename_i h; exact canScratch_map h _)
    | (rename_i h _; exact canScratch_map h _)
    | (rename_i h _ _; exact canScratch_map h _)
    | simp_all

theorem emitMul_isSome (sz : Size) (live : Nat) (d a b : Bc.Loc w) :
    (emitMul sz live d a b).isSome = commForm d a b := by
  cases d <;> cases a <;> cases b <;> simp only [emitMul, commForm, isMTI, Option.isSome_none] <;>
    (repeat' split) <;>
    first
    | rfl
    | (rename_i h; exact canScratch_map h _)
    | (rename_i h _; exact canScratch_map h _)
    | (rename_i h _ _; exact canScratch_map h _)
    | simp_all


/-- The instructions whose code calls the runtime (and therefore saves the live caller-saved registers). -/
def needsCall (safe : Bool) : Bc.Instr w → Bool
  | .inp _ | .out _ => true
  | .mov _ => safe
  | _ => false

theorem preCall_isSome (live : Nat) : (preCall live).isSome = (savedRegs live).isSome := by
  unfold preCall; cases savedRegs live <;> rfl

theorem postCall_isSome (live : Nat) : (postCall live).isSome = (savedRegs live).isSome := by
  unfold postCall; cases savedRegs live <;> rfl

/-- **`JitForm` is exact**: `emit_program` has an arm for an instruction iff it is a `JitForm`; the only other
panic site of the loop body is `Reg::tmp(l).unwrap()` in `emit_pre_call` (a live bit 11..15). -/
theorem selector_isSome (sz : Size) (limited safe : Bool) (mn mx : Int) (aE aI aO i live : Nat)
    (ins : Bc.Instr w) :
    (emitInstrRaw sz limited safe mn mx aE aI aO i live ins).isSome =
      (JitForm ins && (!needsCall safe ins || (savedRegs live).isSome)) := by
  cases ins with
  | noop => rfl
  | scan c s => rfl
  | mov sh =>
    cases safe with
    | false => simp [emitInstrRaw, JitForm, needsCall]
    | true =>
      simp only [emitInstrRaw, JitForm, needsCall, if_true, Bool.not_true, Bool.false_or, Bool.true_and]
      have h1 := preCall_isSome live; have h2 := postCall_isSome live
      cases hp : preCall live <;> cases hq : postCall live <;> cases hs : savedRegs live <;>
        simp_all
  | inp d =>
    simp only [emitInstrRaw, JitForm, needsCall, Bool.not_true, Bool.false_or, Bool.true_and]
    have h1 := preCall_isSome live; have h2 := postCall_isSome live
    cases hp : preCall live <;> cases hq : postCall live <;> cases hs : savedRegs live <;> simp_all
  | out d =>
    simp only [emitInstrRaw, JitForm, needsCall, Bool.not_true, Bool.false_or, Bool.true_and]
    have h1 := preCall_isSome live; have h2 := postCall_isSome live
    cases hp : preCall live <;> cases hq : postCall live <;> cases hs : savedRegs live <;> simp_all
  | brz c o => simp [emitInstrRaw, JitForm, needsCall]
  | brnz c o => simp [emitInstrRaw, JitForm, needsCall]
  | copy d s => simp [emitInstrRaw, JitForm, needsCall, emitCopy_isSome]
  | add d a b => simp [emitInstrRaw, JitForm, needsCall, emitAdd_isSome]
  | sub d a b => simp [emitInstrRaw, JitForm, needsCall, emitSub_isSome]
  | mul d a b => simp [emitInstrRaw, JitForm, needsCall, emitMul_isSome]

theorem mapM_opt_some {α β : Type} (f : α → Option β) : ∀ (l : List α), (∀ a ∈ l, (f a).isSome = true) →
    (l.mapM f).isSome = true
  | [], _ => rfl
  | a :: l, h => by
    rw [List.mapM_cons]
    have ha := h a List.mem_cons_self
    have hl := mapM_opt_some f l (fun b hb => h b (List.mem_cons_of_mem _ hb))
    cases hfa : f a with
    | none => rw [hfa] at ha; cases ha
    | some b =>
      cases hm : l.mapM f with
      | none => rw [hm] at hl; cases hl
      | some bs => rfl

/-- A live bitmap below `2^11` (the JIT has eleven register temporaries) never makes `emit_pre_call` panic. -/
theorem savedRegs_of_lt {live : Nat} (h : live < 2 ^ 11) : (savedRegs live).isSome = true := by
  unfold savedRegs
  apply mapM_opt_some
  intro l hl
  simp only [List.mem_filter, List.mem_range, Bool.and_eq_true, decide_eq_true_eq] at hl
  have : l < 11 := by
    rcases Nat.lt_or_ge l 11 with h' | h'
    · exact h'
    · have : live.testBit l = false := Nat.testBit_lt_two_pow (Nat.lt_of_lt_of_le h (Nat.pow_le_pow_right (by decide) h'))
      rw [this] at hl; exact absurd hl.2.2 (by decide)
  rw [tmpReg_lt this]; rfl

/-- `selector_total`: an arm exists for every `JitForm` instruction, whatever width, mode, offsets,
addresses and position; with a live bitmap below `2^11` the loop body of `emit_program` does not panic. -/
theorem selector_total' {ins : Bc.Instr w} (hf : JitForm ins = true) {live : Nat} (hl : live < 2 ^ 11)
    (sz : Size) (limited safe : Bool) (mn mx : Int) (aE aI aO i : Nat) :
    emitInstrRaw sz limited safe mn mx aE aI aO i live ins ≠ none := by
  intro h
  have := selector_isSome sz limited safe mn mx aE aI aO i live ins
  rw [h, hf, savedRegs_of_lt hl] at this
  simp at this

/-- The converse: no arm (or a panic in `emit_pre_call`) otherwise. -/
theorem selector_none_iff (sz : Size) (limited safe : Bool) (mn mx : Int) (aE aI aO i live : Nat)
    (ins : Bc.Instr w) :
    emitInstrRaw sz limited safe mn mx aE aI aO i live ins = none ↔
      (JitForm ins = false ∨ (needsCall safe ins = true ∧ savedRegs live = none)) := by
  have := selector_isSome sz limited safe mn mx aE aI aO i live ins
  cases he : emitInstrRaw sz limited safe mn mx aE aI aO i live ins <;> rw [he] at this <;>
    cases hj : JitForm ins <;> cases hn : needsCall safe ins <;> cases hs : savedRegs live <;> simp_all


end C03
end Hpbf
