/-
Loop optimisations of `Hpbf/Opt.lean`, HORIZON variants put together for the values `finishLoop` computes:
`motionFold_spec_e` (the loop over the pending variables, without a trip count), `finishLoop_prefix_sound`
(no trip count: incomplete / infinite runs) and `finishLoop_motion_sound_h` (trip count `n ≤ N`).
-/
import Hpbf.Proofs.OptLoopHAll

namespace Hpbf.OptLoop
open Hpbf Opt OptSem Expr

variable {w : Nat}

/-- The loop of `finishLoop` over the pending variables yields `MotionAllE` (no trip count: an `after` entry is
the one of `loopMotion`, or dropped because of `noEffect`). -/
theorem motionFold_spec_e (s : Rebuild w) (ps : List (Rebuild w)) (sub : Rebuild w) (R C : List Int)
    (lin : List (Int × Expr w)) (pset : List Int) (L : OptLoop w) (pending : List Int)
    (sub' : Rebuild w) (B D A : List (Int × Expr w)) (os os' : Orders)
    (hnd : pending.Nodup) (hkeys : ∀ v p, mGet sub.pending v = some p → v ∈ pending)
    (h : pending.foldlM (motionStepM s ps R C lin pset L) (sub, [], [], []) os = .ok ((sub', B, D, A), os')) :
    os' = os ∧ MotionAllE s ps sub R C lin pset L B D A := by
  have h0 : FoldInv s ps sub R C lin pset L [] (sub, [], [], []) :=
    ⟨rfl, fun _ _ => rfl, fun _ _ => ⟨rfl, rfl, rfl⟩, fun v hv => by cases hv⟩
  obtain ⟨hos, hfin⟩ := foldInv_fold pending [] _ _ h0 hnd (fun v _ hv => by cases hv) os os' h
  refine ⟨hos, ?_, ?_⟩
  · intro var p hp
    have hmem : var ∈ pending.reverse ++ [] := by
      rw [List.append_nil]; exact List.mem_reverse.2 (hkeys var p hp)
    obtain ⟨p', b, d, a, h1, h2, h3, h4, h5⟩ := hfin.handled var hmem
    rw [hp] at h1
    cases h1
    refine ⟨b, d, a, loopMotion_cases _ _ _ _ _ _ _ _ _ _ _ h2, h3, h4, ?_⟩
    simp only at h5
    cases hL : L.noEffect with
    | false => left; rw [h5, hL]; rfl
    | true =>
      rw [hL] at h5
      exact Or.inr ⟨rfl, h5⟩
  · intro var hp
    have hnm : var ∉ pending.reverse ++ [] := by
      intro hm
      obtain ⟨p', _, _, _, h1, _⟩ := hfin.handled var hm
      rw [hp] at h1; cases h1
    exact hfin.fresh var hnm

/-- The context of the motion theorems for the values `finishLoop` computes, with a horizon. -/
theorem finishLoop_ctx_h (s : Rebuild w) (ps : List (Rebuild w)) (sub : Rebuild w)
    (cond : Int) (C : List Int) (m0 : Mem w) (body : Nat → Mem w → Mem w) (N : Nat)
    (hC : constantsAmong s ps sub (sIns (possibleReads sub) cond ++
      (pendingSorted sub sub).filter (fun x => !(sIns (possibleReads sub) cond).contains x)) = .ok C)
    (hreadsAsc : SAsc sub.reads) (hpendAsc : KeysAsc sub.pending)
    (hcmp : ∀ v e, compare s ps (Expr.var v) e = .ok true → ev e m0 = m0 v)
    (hknown : ∀ i c, getConstant s ps i = some c → m0 i = c)
    (hbody : BodyFactsH sub body (run body sub.pending m0) N)
    (hgb : GetBothFactsH s ps sub (run body sub.pending m0) N) :
    MotionCtxH s ps sub C
      (linearAmong s ps sub C (sIns (possibleReads sub) cond ++ pendingSorted sub sub)) m0 body N := by
  obtain ⟨hrun, hmid⟩ := constantsAmong_sound_h s ps sub _ C m0 body N hC
    (nodup_constVars sub cond hreadsAsc hpendAsc) hcmp hbody
  have hmemC : ∀ c, C.contains c = true → c ∈ C := fun c h => by simpa using h
  constructor
  · exact fun k hk c hc => hrun k hk c (hmemC c hc)
  · exact fun k hk c hc => hmid k hk c (hmemC c hc)
  · exact fun i c _ h => hknown i c h
  · intro v inc hv
    exact linearAmong_sound_h s ps sub C _ (run body sub.pending m0) N hgb
      (fun k hk c hc => hrun k hk c hc) v inc hv
  · exact hbody

/-- **Prefix theorem for `finishLoop`** (no trip count; only the rounds `k < N` are real): for every `N' ≤ N`
the original and the new run agree on `possibleReads ∪ {cond}` at the start of every round `k < N'`, and on
every cell outside `Differ'` for `k ≤ N'`. -/
theorem finishLoop_prefix_sound (s : Rebuild w) (ps : List (Rebuild w)) (sub sub' : Rebuild w)
    (cond : Int) (L : OptLoop w) (C : List Int) (B D A : List (Int × Expr w)) (os os' : Orders)
    (m0 : Mem w) (body : Nat → Mem w → Mem w) (N N' : Nat)
    (hC : constantsAmong s ps sub (sIns (possibleReads sub) cond ++
      (pendingSorted sub sub).filter (fun x => !(sIns (possibleReads sub) cond).contains x)) = .ok C)
    (hfold : (pendingSorted sub sub).foldlM
      (motionStepM s ps (sIns (possibleReads sub) cond) C
        (linearAmong s ps sub C (sIns (possibleReads sub) cond ++ pendingSorted sub sub))
        ((pendingSorted sub sub).filter (fun x => !C.contains x)) L) (sub, [], [], []) os
      = .ok ((sub', B, D, A), os'))
    (hreadsAsc : SAsc sub.reads) (hpendAsc : KeysAsc sub.pending)
    (hcmp : ∀ v e, compare s ps (Expr.var v) e = .ok true → ev e m0 = m0 v)
    (hknown : ∀ i c, getConstant s ps i = some c → m0 i = c)
    (hbody : BodyFactsH sub body (run body sub.pending m0) N)
    (hgb : GetBothFactsH s ps sub (run body sub.pending m0) N)
    (hNI : ∀ k, k < N → ∀ (m' : Mem w) (Z : Int → Prop),
      (∀ z, Z z → (sIns (possibleReads sub) cond).contains z = false) →
      (∀ v, ¬ Z v → m' v = run body sub.pending m0 k v) →
      ∀ v, ¬ Z v → body k m' v = body k (run body sub.pending m0 k) v)
    (hframe : ∀ k, k < N → ∀ (m' : Mem w) v, mGet sub.written v = none → body k m' v = m' v)
    (hN' : N' ≤ N) (hamo : L.atMostOnce = true → N' ≤ 1) :
    os' = os ∧
    MotionAllE s ps sub (sIns (possibleReads sub) cond) C
      (linearAmong s ps sub C (sIns (possibleReads sub) cond ++ pendingSorted sub sub))
      ((pendingSorted sub sub).filter (fun x => !C.contains x)) L B D A ∧
    (∀ k, k < N' → ∀ r, (sIns (possibleReads sub) cond).contains r = true →
      run body D (Mem.par B m0) k r = run body sub.pending m0 k r) ∧
    (∀ k, k ≤ N' → ∀ v, ¬ Differ' C B D sub.pending v →
      run body D (Mem.par B m0) k v = run body sub.pending m0 k v) := by
  have ctx := finishLoop_ctx_h s ps sub cond C m0 body N hC hreadsAsc hpendAsc hcmp hknown hbody hgb
  obtain ⟨hos, hall⟩ := motionFold_spec_e s ps sub (sIns (possibleReads sub) cond) C _ _ L
    (pendingSorted sub sub) sub' B D A os os' (nodup_pendingSorted sub sub hpendAsc)
    (fun v p hp => (mem_pendingSorted sub sub v).2 (mem_mKeys_of_mGet hp)) hfold
  have hrf : ReadFactsH sub (sIns (possibleReads sub) cond) body (run body sub.pending m0) N :=
    ⟨fun v p x hp hx hne => pendReads_possibleReads sub cond v p x hp hx hne, hNI, hframe⟩
  obtain ⟨h1, h2, _⟩ := loopMotion_prefix_sound ctx hall.toBD hrf N' hN' hamo
  exact ⟨hos, hall, h1, h2⟩

/-- **`finishLoop_motion_sound` with a horizon**: trip count `n ≤ N`, per-round hypotheses for `k < N`. -/
theorem finishLoop_motion_sound_h (hw : 0 < w) (s : Rebuild w) (ps : List (Rebuild w))
    (sub sub' : Rebuild w) (cond : Int) (L : OptLoop w) (C : List Int) (B D A : List (Int × Expr w))
    (os os' : Orders) (m0 : Mem w) (body : Nat → Mem w → Mem w) (N n : Nat)
    (hC : constantsAmong s ps sub (sIns (possibleReads sub) cond ++
      (pendingSorted sub sub).filter (fun x => !(sIns (possibleReads sub) cond).contains x)) = .ok C)
    (hfold : (pendingSorted sub sub).foldlM
      (motionStepM s ps (sIns (possibleReads sub) cond) C
        (linearAmong s ps sub C (sIns (possibleReads sub) cond ++ pendingSorted sub sub))
        ((pendingSorted sub sub).filter (fun x => !C.contains x)) L) (sub, [], [], []) os
      = .ok ((sub', B, D, A), os'))
    (hreadsAsc : SAsc sub.reads) (hpendAsc : KeysAsc sub.pending)
    (hcanon : ∀ v p, mGet sub.pending v = some p → Canon p)
    (hcmp : ∀ v e, compare s ps (Expr.var v) e = .ok true → ev e m0 = m0 v)
    (hknown : ∀ i c, getConstant s ps i = some c → m0 i = c)
    (hbody : BodyFactsH sub body (run body sub.pending m0) N)
    (hgb : GetBothFactsH s ps sub (run body sub.pending m0) N)
    (hNI : ∀ k, k < N → ∀ (m' : Mem w) (Z : Int → Prop),
      (∀ z, Z z → (sIns (possibleReads sub) cond).contains z = false) →
      (∀ v, ¬ Z v → m' v = run body sub.pending m0 k v) →
      ∀ v, ¬ Z v → body k m' v = body k (run body sub.pending m0 k) v)
    (hframe : ∀ k, k < N → ∀ (m' : Mem w) v, mGet sub.written v = none → body k m' v = m' v)
    (hnN : n ≤ N) (htrip : TripFacts L n m0) (hamo : L.atMostOnce = true → n ≤ 1)
    (hne : L.noEffect = true → n = 0) :
    os' = os ∧
    (∀ k, k < n → ∀ r, (sIns (possibleReads sub) cond).contains r = true →
      run body D (Mem.par B m0) k r = run body sub.pending m0 k r) ∧
    (∀ k, k ≤ n → ∀ v, ¬ Differ C B A v →
      run body D (Mem.par B m0) k v = run body sub.pending m0 k v) ∧
    (∀ k, k ≤ n → ∀ v, ¬ Differ' C B D sub.pending v →
      run body D (Mem.par B m0) k v = run body sub.pending m0 k v) ∧
    (∀ v, mGet A v = none → run body D (Mem.par B m0) n v = run body sub.pending m0 n v) ∧
    (0 < n → Mem.par A (run body D (Mem.par B m0) n) = run body sub.pending m0 n) ∧
    (n = 0 → Mem.par B m0 = m0) := by
  have ctx := finishLoop_ctx_h s ps sub cond C m0 body N hC hreadsAsc hpendAsc hcmp hknown hbody hgb
  obtain ⟨hos, hall⟩ := motionFold_spec_e s ps sub (sIns (possibleReads sub) cond) C _ _ L
    (pendingSorted sub sub) sub' B D A os os' (nodup_pendingSorted sub sub hpendAsc)
    (fun v p hp => (mem_pendingSorted sub sub v).2 (mem_mKeys_of_mGet hp)) hfold
  have hrf : ReadFactsH sub (sIns (possibleReads sub) cond) body (run body sub.pending m0) N :=
    ⟨fun v p x hp hx hne => pendReads_possibleReads sub cond v p x hp hx hne, hNI, hframe⟩
  exact ⟨hos, loopMotion_all_sound_h hw ctx hnN htrip hcanon (hall.toAll n hne) hrf
    (pendingSet_spec sub C) hamo⟩

/-! ### `compare` sound on normal forms only (`_c` variants)

`compare` ends by comparing `Expr.constantPart`s, which is only meaningful for expressions in normal form; these
variants ask for the soundness of `compare` on `Canon` expressions only, and for the written (`known`) and
pending expressions of the body state to be in normal form. -/

theorem finishLoop_ctx_c (s : Rebuild w) (ps : List (Rebuild w)) (sub : Rebuild w)
    (cond : Int) (C : List Int) (m0 : Mem w) (body : Nat → Mem w → Mem w) (N : Nat)
    (hC : constantsAmong s ps sub (sIns (possibleReads sub) cond ++
      (pendingSorted sub sub).filter (fun x => !(sIns (possibleReads sub) cond).contains x)) = .ok C)
    (hreadsAsc : SAsc sub.reads) (hpendAsc : KeysAsc sub.pending)
    (hcanon : ∀ v p, mGet sub.pending v = some p → Canon p)
    (hcanonW : ∀ v e, mGet sub.written v = some (.known e) → Canon e)
    (hcmp : ∀ v e, Canon e → compare s ps (Expr.var v) e = .ok true → ev e m0 = m0 v)
    (hknown : ∀ i c, getConstant s ps i = some c → m0 i = c)
    (hbody : BodyFactsH sub body (run body sub.pending m0) N)
    (hgb : GetBothFactsH s ps sub (run body sub.pending m0) N) :
    MotionCtxH s ps sub C
      (linearAmong s ps sub C (sIns (possibleReads sub) cond ++ pendingSorted sub sub)) m0 body N := by
  obtain ⟨hrun, hmid⟩ := constantsAmong_sound_c s ps sub _ C m0 body N hC
    (nodup_constVars sub cond hreadsAsc hpendAsc) hcanon hcanonW hcmp hbody
  have hmemC : ∀ c, C.contains c = true → c ∈ C := fun c h => by simpa using h
  constructor
  · exact fun k hk c hc => hrun k hk c (hmemC c hc)
  · exact fun k hk c hc => hmid k hk c (hmemC c hc)
  · exact fun i c _ h => hknown i c h
  · intro v inc hv
    exact linearAmong_sound_h s ps sub C _ (run body sub.pending m0) N hgb
      (fun k hk c hc => hrun k hk c hc) v inc hv
  · exact hbody

/-- **Prefix theorem for `finishLoop`, `compare` sound on normal forms.** -/
theorem finishLoop_prefix_sound_c (s : Rebuild w) (ps : List (Rebuild w)) (sub sub' : Rebuild w)
    (cond : Int) (L : OptLoop w) (C : List Int) (B D A : List (Int × Expr w)) (os os' : Orders)
    (m0 : Mem w) (body : Nat → Mem w → Mem w) (N N' : Nat)
    (hC : constantsAmong s ps sub (sIns (possibleReads sub) cond ++
      (pendingSorted sub sub).filter (fun x => !(sIns (possibleReads sub) cond).contains x)) = .ok C)
    (hfold : (pendingSorted sub sub).foldlM
      (motionStepM s ps (sIns (possibleReads sub) cond) C
        (linearAmong s ps sub C (sIns (possibleReads sub) cond ++ pendingSorted sub sub))
        ((pendingSorted sub sub).filter (fun x => !C.contains x)) L) (sub, [], [], []) os
      = .ok ((sub', B, D, A), os'))
    (hreadsAsc : SAsc sub.reads) (hpendAsc : KeysAsc sub.pending)
    (hcanon : ∀ v p, mGet sub.pending v = some p → Canon p)
    (hcanonW : ∀ v e, mGet sub.written v = some (.known e) → Canon e)
    (hcmp : ∀ v e, Canon e → compare s ps (Expr.var v) e = .ok true → ev e m0 = m0 v)
    (hknown : ∀ i c, getConstant s ps i = some c → m0 i = c)
    (hbody : BodyFactsH sub body (run body sub.pending m0) N)
    (hgb : GetBothFactsH s ps sub (run body sub.pending m0) N)
    (hNI : ∀ k, k < N → ∀ (m' : Mem w) (Z : Int → Prop),
      (∀ z, Z z → (sIns (possibleReads sub) cond).contains z = false) →
      (∀ v, ¬ Z v → m' v = run body sub.pending m0 k v) →
      ∀ v, ¬ Z v → body k m' v = body k (run body sub.pending m0 k) v)
    (hframe : ∀ k, k < N → ∀ (m' : Mem w) v, mGet sub.written v = none → body k m' v = m' v)
    (hN' : N' ≤ N) (hamo : L.atMostOnce = true → N' ≤ 1) :
    os' = os ∧
    MotionAllE s ps sub (sIns (possibleReads sub) cond) C
      (linearAmong s ps sub C (sIns (possibleReads sub) cond ++ pendingSorted sub sub))
      ((pendingSorted sub sub).filter (fun x => !C.contains x)) L B D A ∧
    (∀ k, k < N' → ∀ r, (sIns (possibleReads sub) cond).contains r = true →
      run body D (Mem.par B m0) k r = run body sub.pending m0 k r) ∧
    (∀ k, k ≤ N' → ∀ v, ¬ Differ' C B D sub.pending v →
      run body D (Mem.par B m0) k v = run body sub.pending m0 k v) ∧
    (∀ k, k < N' →
      (∀ v, run body D (Mem.par B m0) k v = run body sub.pending m0 k v →
        mid body D (Mem.par B m0) k v = mid body sub.pending m0 k v) ∧
      (∀ r, (sIns (possibleReads sub) cond).contains r = true →
        mid body D (Mem.par B m0) k r = mid body sub.pending m0 k r)) := by
  have ctx := finishLoop_ctx_c s ps sub cond C m0 body N hC hreadsAsc hpendAsc hcanon hcanonW hcmp
    hknown hbody hgb
  obtain ⟨hos, hall⟩ := motionFold_spec_e s ps sub (sIns (possibleReads sub) cond) C _ _ L
    (pendingSorted sub sub) sub' B D A os os' (nodup_pendingSorted sub sub hpendAsc)
    (fun v p hp => (mem_pendingSorted sub sub v).2 (mem_mKeys_of_mGet hp)) hfold
  have hrf : ReadFactsH sub (sIns (possibleReads sub) cond) body (run body sub.pending m0) N :=
    ⟨fun v p x hp hx hne => pendReads_possibleReads sub cond v p x hp hx hne, hNI, hframe⟩
  obtain ⟨h1, h2, h3⟩ := loopMotion_prefix_sound ctx hall.toBD hrf N' hN' hamo
  exact ⟨hos, hall, h1, h2, h3⟩

/-- **`finishLoop_motion_sound` with a horizon, `compare` sound on normal forms.** -/
theorem finishLoop_motion_sound_c (hw : 0 < w) (s : Rebuild w) (ps : List (Rebuild w))
    (sub sub' : Rebuild w) (cond : Int) (L : OptLoop w) (C : List Int) (B D A : List (Int × Expr w))
    (os os' : Orders) (m0 : Mem w) (body : Nat → Mem w → Mem w) (N n : Nat)
    (hC : constantsAmong s ps sub (sIns (possibleReads sub) cond ++
      (pendingSorted sub sub).filter (fun x => !(sIns (possibleReads sub) cond).contains x)) = .ok C)
    (hfold : (pendingSorted sub sub).foldlM
      (motionStepM s ps (sIns (possibleReads sub) cond) C
        (linearAmong s ps sub C (sIns (possibleReads sub) cond ++ pendingSorted sub sub))
        ((pendingSorted sub sub).filter (fun x => !C.contains x)) L) (sub, [], [], []) os
      = .ok ((sub', B, D, A), os'))
    (hreadsAsc : SAsc sub.reads) (hpendAsc : KeysAsc sub.pending)
    (hcanon : ∀ v p, mGet sub.pending v = some p → Canon p)
    (hcanonW : ∀ v e, mGet sub.written v = some (.known e) → Canon e)
    (hcmp : ∀ v e, Canon e → compare s ps (Expr.var v) e = .ok true → ev e m0 = m0 v)
    (hknown : ∀ i c, getConstant s ps i = some c → m0 i = c)
    (hbody : BodyFactsH sub body (run body sub.pending m0) N)
    (hgb : GetBothFactsH s ps sub (run body sub.pending m0) N)
    (hNI : ∀ k, k < N → ∀ (m' : Mem w) (Z : Int → Prop),
      (∀ z, Z z → (sIns (possibleReads sub) cond).contains z = false) →
      (∀ v, ¬ Z v → m' v = run body sub.pending m0 k v) →
      ∀ v, ¬ Z v → body k m' v = body k (run body sub.pending m0 k) v)
    (hframe : ∀ k, k < N → ∀ (m' : Mem w) v, mGet sub.written v = none → body k m' v = m' v)
    (hnN : n ≤ N) (htrip : TripFacts L n m0) (hamo : L.atMostOnce = true → n ≤ 1)
    (hne : L.noEffect = true → n = 0) :
    os' = os ∧
    (∀ k, k < n → ∀ r, (sIns (possibleReads sub) cond).contains r = true →
      run body D (Mem.par B m0) k r = run body sub.pending m0 k r) ∧
    (∀ k, k ≤ n → ∀ v, ¬ Differ C B A v →
      run body D (Mem.par B m0) k v = run body sub.pending m0 k v) ∧
    (∀ k, k ≤ n → ∀ v, ¬ Differ' C B D sub.pending v →
      run body D (Mem.par B m0) k v = run body sub.pending m0 k v) ∧
    (∀ v, mGet A v = none → run body D (Mem.par B m0) n v = run body sub.pending m0 n v) ∧
    (0 < n → Mem.par A (run body D (Mem.par B m0) n) = run body sub.pending m0 n) ∧
    (n = 0 → Mem.par B m0 = m0) := by
  have ctx := finishLoop_ctx_c s ps sub cond C m0 body N hC hreadsAsc hpendAsc hcanon hcanonW hcmp
    hknown hbody hgb
  obtain ⟨hos, hall⟩ := motionFold_spec_e s ps sub (sIns (possibleReads sub) cond) C _ _ L
    (pendingSorted sub sub) sub' B D A os os' (nodup_pendingSorted sub sub hpendAsc)
    (fun v p hp => (mem_pendingSorted sub sub v).2 (mem_mKeys_of_mGet hp)) hfold
  have hrf : ReadFactsH sub (sIns (possibleReads sub) cond) body (run body sub.pending m0) N :=
    ⟨fun v p x hp hx hne => pendReads_possibleReads sub cond v p x hp hx hne, hNI, hframe⟩
  exact ⟨hos, loopMotion_all_sound_h hw ctx hnN htrip hcanon (hall.toAll n hne) hrf
    (pendingSet_spec sub C) hamo⟩

end Hpbf.OptLoop
