/-
C02 / C13 (`allocate_temps` is total), part 8: the order of first uses in emitted code.

At the boundaries between IR instructions every value number has been read (`NoUn`), and whenever the first use of
a value `t2` is a store `mem[m] = tmp t2`, every value created before `t2` was first used before that store
(`OrdInv`): within a `calc` all computations precede all stores, and the stores follow the order in which their
values were computed.  This gives `TotalPre.defd` and `TotalPre.mono`.
-/
import Hpbf.Proofs.C02AllocEmitX
import Hpbf.Proofs.C02AllocTotalCount
set_option linter.unusedSimpArgs false

namespace Hpbf
namespace C02
namespace AEmit

open Bc BcWf BcGen C11 C02Emit

variable {w : Nat}

/-- `t` has not been read yet. -/
def Un' (s : St w) (t : Nat) : Prop := ∃ r : RangeInfo, s.ranges[t]? = some r ∧ r.firstUse = none

/-- `x` is a store of the temporary `t`. -/
def IsStore (x : Instr w) (t : Nat) : Prop := ∃ m, x = .copy (.mem m) (.tmp t)

def OrdInv (s : St w) : Prop :=
  ∀ (t1 t2 : Nat) (r1 r2 : RangeInfo) (f2 : Nat) (x : Instr w), s.ranges[t1]? = some r1 → s.ranges[t2]? = some r2 →
    r1.created < r2.created → r2.firstUse = some f2 → s.insts[f2]? = some x → IsStore x t2 →
    ∃ f1, r1.firstUse = some f1 ∧ f1 < f2

/-- Changes that keep `created`/`firstUse` of every entry and add no store. -/
theorem ord_frame {s s' : St w} (h : OrdInv s)
    (hr : ∀ (t : Nat) (r' : RangeInfo), s'.ranges[t]? = some r' →
      ∃ r : RangeInfo, s.ranges[t]? = some r ∧ r'.created = r.created ∧ r'.firstUse = r.firstUse)
    (hi : ∀ (j : Nat) (x : Instr w) (t : Nat), s'.insts[j]? = some x → IsStore x t → s.insts[j]? = some x) :
    OrdInv s' := by
  intro t1 t2 r1' r2' f2 x h1 h2 hc hf hx hs
  obtain ⟨r1, g1, g2, g3⟩ := hr t1 r1' h1
  obtain ⟨r2, q1, q2, q3⟩ := hr t2 r2' h2
  rw [g3]
  exact h t1 t2 r1 r2 f2 x g1 q1 (by rw [← g2, ← q2]; exact hc) (by rw [← q3]; exact hf) (hi f2 x t2 hx hs) hs

theorem un'_frame {s s' : St w}
    (hr : ∀ (t : Nat) (r' : RangeInfo), s'.ranges[t]? = some r' →
      ∃ r : RangeInfo, s.ranges[t]? = some r ∧ r'.created = r.created ∧ r'.firstUse = r.firstUse)
    {t : Nat} (h : Un' s' t) : Un' s t := by
  obtain ⟨r', g1, g2⟩ := h
  obtain ⟨r, q1, _, q3⟩ := hr t r' g1
  exact ⟨r, q1, by rw [← q3]; exact g2⟩

/-- An extension without a read of a value that has been read. -/
theorem ext0_ranges {s s' : St w} {v : Nat} (E : ExtSpec v 0 s s')
    (hv : ∃ (r : RangeInfo) (f : Nat), s.ranges[v]? = some r ∧ r.firstUse = some f) :
    ∀ (t : Nat) (r' : RangeInfo), s'.ranges[t]? = some r' →
      ∃ r : RangeInfo, s.ranges[t]? = some r ∧ r'.created = r.created ∧ r'.firstUse = r.firstUse := by
  obtain ⟨⟨r, hr, hr'⟩, hother⟩ := ext_ranges E
  obtain ⟨r0, f, hr0, hf0⟩ := hv
  rw [hr] at hr0; cases hr0
  intro t q hq
  by_cases e : t = v
  · subst e
    rw [hr'] at hq; cases hq
    exact ⟨r, hr, rfl, by simp [bump, hf0]⟩
  · rw [hother t e] at hq
    exact ⟨q, hq, rfl, rfl⟩

theorem ranges_outer (ps : Nat) : ∀ (fuel i : Nat) {s s' : St w} {u : Unit},
    outerLoop ps fuel i s = .ok (u, s') → LInv s →
    ∀ (t : Nat) (r' : RangeInfo), s'.ranges[t]? = some r' →
      ∃ r : RangeInfo, s.ranges[t]? = some r ∧ r'.created = r.created ∧ r'.firstUse = r.firstUse := by
  intro fuel
  induction fuel with
  | zero => intro i s s' u h; simp only [outerLoop, throw_ok] at h
  | succ fuel ih =>
    intro i s s' u h hJ
    simp only [outerLoop, get_bind] at h
    split at h
    · cases ho : s.outerAccessed[i]? with
      | none => simp only [ho, throw_ok] at h
      | some var =>
        simp only [ho] at h
        cases hr : s.ranges[var]? with
        | none => simp only [hr, throw_ok] at h
        | some r =>
          simp only [hr] at h
          split at h
          · exact ih _ h hJ
          · simp only [bind_ok, modify_ok] at h
            obtain ⟨_, s2, h2, _, s3, rfl, h⟩ := h
            have hmem : var ∈ s.outerAccessed.toList :=
              Array.mem_toList_iff.2 (Array.mem_of_getElem? ho)
            have j2 := linv_extend hJ (rangeExtend_spec h2) (hJ.oa var hmem)
            have e2 := ext0_ranges (rangeExtend_spec h2) (hJ.oa var hmem)
            have hrec := ih _ h (by
              cases hb : s2.outerAccessed.back? with
              | none => simp only [hb]; exact j2
              | some last =>
                simp only [hb]
                exact linv_frame j2 rfl rfl rfl rfl (fun p hp => hp) (fun v hv => mem_swapRemove hb hv))
            intro t r' hr'
            obtain ⟨r2, g1, g2, g3⟩ := hrec t r' hr'
            have g1' : s2.ranges[t]? = some r2 := by
              cases hb : s2.outerAccessed.back? with
              | none => simp only [hb] at g1; exact g1
              | some last => simp only [hb] at g1; exact g1
            obtain ⟨r0, q1, q2, q3⟩ := e2 t r2 g1'
            exact ⟨r0, q1, g2.trans q2, g3.trans q3⟩
    · simp only [pure_ok] at h
      rw [h.2]
      intro t r' hr'; exact ⟨r', hr', rfl, rfl⟩

/-! ### reads followed by a push -/

theorem un'_pushStep {s s' : St w} {ops : List Nat} {inst : Instr w} {nv : Option Nat}
    (P : PushStep s s' ops inst nv) {t : Nat} (h : Un' s' t) : (Un' s t ∧ t ∉ ops) ∨ nv = some t := by
  obtain ⟨r', hr', hf⟩ := h
  rcases P.ent hr' with ⟨_, r, g1, g2⟩ | ⟨g1, _, g3⟩ | ⟨g1, _, _⟩
  · cases hfo : r.firstUse with
    | none => rw [g2.firstNone hfo] at hf; cases hf
    | some f0 => rw [g2.firstSome f0 hfo] at hf; cases hf
  · exact Or.inl ⟨⟨r', g3, hf⟩, g1⟩
  · exact Or.inr g1

theorem ord_pushStep {s s' : St w} {ops : List Nat} {inst : Instr w} {nv : Option Nat}
    (P : PushStep s s' ops inst nv) (hl : LInv s) (h : OrdInv s)
    (hst : ∀ (t2 : Nat) (r2 : RangeInfo), IsStore inst t2 → s.ranges[t2]? = some r2 → r2.firstUse = none →
      ∀ (t1 : Nat) (r1 : RangeInfo), s.ranges[t1]? = some r1 → r1.created < r2.created →
        ∃ f1, r1.firstUse = some f1) : OrdInv s' := by
  -- an entry of the new table with a first use, seen from the old table
  have hold : ∀ (t : Nat) (r' : RangeInfo), s'.ranges[t]? = some r' → r'.created < s.insts.size →
      ∃ r : RangeInfo, s.ranges[t]? = some r ∧ r'.created = r.created ∧
        (∀ f, r.firstUse = some f → r'.firstUse = some f) ∧
        (r.firstUse = none → r'.firstUse = none ∨ (r'.firstUse = some s.insts.size ∧ t ∈ ops)) := by
    intro t r' hr' hc
    rcases P.ent hr' with ⟨g0, r, g1, g2⟩ | ⟨_, _, g3⟩ | ⟨_, _, g3⟩
    · exact ⟨r, g1, g2.created, g2.firstSome, fun hn => Or.inr ⟨g2.firstNone hn, g0⟩⟩
    · exact ⟨r', g3, rfl, fun f hf => hf, fun hn => Or.inl hn⟩
    · rw [g3] at hc; simp at hc
  intro t1 t2 r1' r2' f2 x h1 h2 hc hf hx hs
  have hlt2 : f2 < s'.insts.size := Alloc.lt_of_getElem? hx
  rw [P.hinsts] at hlt2 hx
  -- `t2` is an old value
  have hc2 : r2'.created < s.insts.size := by
    rcases P.ent h2 with ⟨_, r, g1, g2⟩ | ⟨_, _, g3⟩ | ⟨_, _, g3⟩
    · rw [g2.created]; exact (hl.rwf t2 r g1).1
    · exact (hl.rwf t2 r2' g3).1
    · rw [g3] at hf; cases hf
  obtain ⟨r2, q1, q2, q3, q4⟩ := hold t2 r2' h2 hc2
  obtain ⟨r1, g1, g2, g3, g4⟩ := hold t1 r1' h1 (by omega)
  have hcr : r1.created < r2.created := by rw [← g2, ← q2]; exact hc
  cases hfo : r2.firstUse with
  | some f0 =>
    rw [q3 f0 hfo] at hf; cases hf
    have hlt := first_lt_size hl q1 hfo
    rw [getElem?_push_lt' _ _ hlt] at hx
    obtain ⟨f1, e1, e2⟩ := h t1 t2 r1 r2 f2 x g1 q1 hcr hfo hx hs
    exact ⟨f1, g3 f1 e1, e2⟩
  | none =>
    rcases q4 hfo with hn | ⟨hp, _⟩
    · rw [hn] at hf; cases hf
    · rw [hp] at hf; cases hf
      have : (s.insts.push inst)[s.insts.size]? = some inst := by simp
      rw [this] at hx; cases hx
      obtain ⟨f1, e1⟩ := hst t2 r2 hs q1 hfo t1 r1 g1 hcr
      exact ⟨f1, g3 f1 e1, first_lt_size hl g1 e1⟩

theorem not_isStore_instOf (e : GvnExpr w) (v t : Nat) : ¬ IsStore (instOf e v) t := by
  rintro ⟨m, h⟩
  cases e <;> simp [instOf] at h

/-- The combined invariant inside a `calc`. -/
structure CK (n0 : Nat) (bs : List Nat) (s : St w) : Prop where
  cinv : CInv n0 bs s
  ord : OrdInv s

theorem ck_getValue {n0 : Nat} {bs : List Nat} {e : GvnExpr w} {s s' : St w} {v : Nat} (h : CK n0 bs s)
    (hops : ∀ a ∈ opsOf e, a < s.ranges.size) (hg : getValue e s = .ok (v, s')) :
    CK n0 bs s' ∧ v < s'.ranges.size ∧ ∀ t, Un' s' t → (Un' s t ∧ t ∉ opsOf e) ∨ t = v := by
  obtain ⟨c1, c2, _⟩ := cinv_getValue h.cinv hops hg
  rcases getValue_spec hg with ⟨hv, rfl⟩ | ⟨rfl, N⟩
  · refine ⟨h, c2, ?_⟩
    intro t ht
    refine Or.inl ⟨ht, ?_⟩
    intro hto
    obtain ⟨r, f, g1, g2⟩ := h.cinv.kv _ (mem_of_alGet hv) t hto
    obtain ⟨r', q1, q2⟩ := ht
    rw [g1] at q1; cases q1
    rw [g2] at q2; cases q2
  · obtain ⟨P, _⟩ := pushStep_getValue hops N
    refine ⟨⟨c1, ord_pushStep P h.cinv.linv h.ord (fun t2 r2 hs => absurd hs (not_isStore_instOf _ _ _))⟩, c2, ?_⟩
    intro t ht
    rcases un'_pushStep P ht with g | g
    · exact Or.inl g
    · exact Or.inr (Option.some.inj g).symm

/-! ### what later emission keeps of an earlier state -/

structure Mono (s0 a : St w) : Prop where
  size : s0.insts.size ≤ a.insts.size
  keep : ∀ (t : Nat) (r : RangeInfo), s0.ranges[t]? = some r → ∃ r' : RangeInfo, a.ranges[t]? = some r' ∧
    r'.created = r.created ∧ ∀ f, r.firstUse = some f → r'.firstUse = some f
  fresh : ∀ (t : Nat) (r' : RangeInfo), a.ranges[t]? = some r' → t < s0.ranges.size ∨ s0.insts.size ≤ r'.created

theorem mono_refl (s : St w) : Mono s s :=
  ⟨Nat.le_refl _, fun t r h => ⟨r, h, rfl, fun f hf => hf⟩, fun t r' h => Or.inl (Alloc.lt_of_getElem? h)⟩

theorem mono_trans {s0 s1 s2 : St w} (h1 : Mono s0 s1) (h2 : Mono s1 s2) : Mono s0 s2 := by
  refine ⟨Nat.le_trans h1.size h2.size, ?_, ?_⟩
  · intro t r hr
    obtain ⟨r1, g1, g2, g3⟩ := h1.keep t r hr
    obtain ⟨r2, q1, q2, q3⟩ := h2.keep t r1 g1
    exact ⟨r2, q1, q2.trans g2, fun f hf => q3 f (g3 f hf)⟩
  · intro t r2 hr2
    rcases h2.fresh t r2 hr2 with g | g
    · have hget : s1.ranges[t]? = some s1.ranges[t] := Array.getElem?_eq_getElem g
      obtain ⟨r2', q1, q2, _⟩ := h2.keep t _ hget
      rw [hr2] at q1; cases q1
      rcases h1.fresh t _ hget with g' | g'
      · exact Or.inl g'
      · exact Or.inr (by rw [q2]; exact g')
    · exact Or.inr (Nat.le_trans h1.size g)

/-- Reads of `l` followed by the push of one instruction. -/
theorem mono_reads_push {s0 s2 s' : St w} {l : List Nat} {inst : Instr w} (hR : ReadsSpec l s0 s2)
    (e1 : s'.ranges = s2.ranges) (e2 : s'.insts = s0.insts.push inst) : Mono s0 s' := by
  obtain ⟨hi, hk⟩ := reads_ranges l hR
  refine ⟨by rw [e2]; simp, ?_, ?_⟩
  · intro t r hr
    rw [e1]
    rcases hk t with ⟨_, g⟩ | ⟨r0, r2, g1, g2, g3, _, g5, g6⟩
    · rw [hr] at g; cases g
    · rw [hr] at g1; cases g1
      refine ⟨r2, g2, g3, ?_⟩
      intro f hf
      by_cases hm : t ∈ l
      · exact (g6 hm).2.2 f hf
      · rw [g5 hm]; exact hf
  · intro t r' hr'
    rw [e1] at hr'
    rcases hk t with ⟨g, _⟩ | ⟨r0, r2, g1, _⟩
    · rw [hr'] at g; cases g
    · exact Or.inl (Alloc.lt_of_getElem? g1)

theorem mono_getValue {e : GvnExpr w} {s s' : St w} {v : Nat} (hg : getValue e s = .ok (v, s')) : Mono s s' := by
  rcases getValue_spec hg with ⟨_, rfl⟩ | ⟨_, N⟩
  · exact mono_refl _
  · obtain ⟨s2, h2, rfl⟩ := N.reads
    -- first the new range entry, then the reads and the instruction
    have m1 : Mono s (gvS0 s e) := by
      refine ⟨Nat.le_refl _, ?_, ?_⟩
      · intro t r hr
        exact ⟨r, by show (s.ranges.push _)[t]? = some r
                     rw [getElem?_push_lt' _ _ (Alloc.lt_of_getElem? hr)]; exact hr, rfl, fun f hf => hf⟩
      · intro t r' hr'
        rcases getElem?_push_cases hr' with ⟨g, _⟩ | ⟨_, g⟩
        · exact Or.inl g
        · right; rw [g]; exact Nat.le_refl _
    have h2' : ReadsSpec (opsOf e) (gvS0 s e) s2 := h2
    exact mono_trans m1 (mono_reads_push (inst := instOf e s.ranges.size) h2' rfl
      (by show s2.insts.push _ = _; rw [readsSpec_insts _ h2]; rfl))

theorem mono_memWrite {var : Int} {x : Nat} {s s' : St w} {u : Unit} (hm : memWrite var x s = .ok (u, s')) :
    Mono s s' := by
  obtain ⟨s1, h1, rfl⟩ := memWrite_spec hm
  exact mono_reads_push (l := [x]) (inst := .copy (.mem var) (.tmp x)) ⟨s1, h1, rfl⟩ rfl
    (by show s1.insts.push _ = _; rw [h1.insts])

theorem mono_getExprValue {e : Expr w} {var : Int} {s s' : St w} {r : Nat}
    (h : getExprValue e var s = .ok (r, s')) : Mono s s' :=
  getExprValue_pres0 (K := fun a => Mono s a) (fun e a v a' hk hh => mono_trans hk (mono_getValue hh)) e var h
    (mono_refl _)

theorem mono_calcValues {calcs : List (Int × Expr w)} {s s' : St w} {vals : List (Int × Nat)}
    (h : calcValues calcs s = .ok (vals, s')) : Mono s s' :=
  calcValues_pres0 (K := fun a => Mono s a) (fun e a v a' hk hh => mono_trans hk (mono_getValue hh)) calcs h
    (mono_refl _)

/-- A value of the earlier state that is unread later was unread then. -/
theorem Mono.un' {s0 a : St w} (h : Mono s0 a) {t : Nat} (ht : t < s0.ranges.size) (hu : Un' a t) : Un' s0 t := by
  have hget : s0.ranges[t]? = some s0.ranges[t] := Array.getElem?_eq_getElem ht
  obtain ⟨r', g1, _, g3⟩ := h.keep t _ hget
  obtain ⟨r, q1, q2⟩ := hu
  rw [g1] at q1; cases q1
  refine ⟨_, hget, ?_⟩
  cases hf : s0.ranges[t].firstUse with
  | none => rfl
  | some f => rw [g3 f hf] at q2; cases q2

/-! ### the order of the results of a `calc` -/

/-- Among the results `vals` of the evaluation phase: an unread value created before an unread result `vals[k]`
is an earlier result (or was unread before the evaluation started). -/
def Star (vals : List (Int × Nat)) (s0 s' : St w) : Prop :=
  ∀ (k : Nat) (v : Int) (x : Nat) (rx : RangeInfo), vals[k]? = some (v, x) → s'.ranges[x]? = some rx →
    rx.firstUse = none → ∀ (t : Nat) (rt : RangeInfo), s'.ranges[t]? = some rt → rt.firstUse = none →
      rt.created < rx.created → (∃ j v', j < k ∧ vals[j]? = some (v', t)) ∨ Un' s0 t

theorem star_calcValues {n0 : Nat} {bs : List Nat} : ∀ (calcs : List (Int × Expr w)) {s s' : St w}
    {vals : List (Int × Nat)}, calcValues calcs s = .ok (vals, s') → CK n0 bs s →
    CK n0 bs s' ∧ (∀ p ∈ vals, p.2 < s'.ranges.size) ∧ (∀ t, Un' s' t → Un' s t ∨ ∃ p ∈ vals, p.2 = t) ∧
      Star vals s s'
  | [], s, s', vals, h, hk => by
    simp only [calcValues, pure_ok] at h
    rw [h.1, h.2]
    exact ⟨hk, (fun p hp => by cases hp), fun t ht => Or.inl ht, fun k v x rx hv => by simp at hv⟩
  | (v, e) :: rest, s, s', vals, h, hk => by
    simp only [calcValues, bind_ok, pure_ok] at h
    obtain ⟨x0, s1, h1, vr, s2, h2, rfl, rfl⟩ := h
    have hg : ∀ (e : GvnExpr w) (a : St w) (v : Nat) (a' : St w), CK n0 bs a →
        (∀ o ∈ opsOf e, o < a.ranges.size) → getValue e a = .ok (v, a') →
        CK n0 bs a' ∧ v < a'.ranges.size ∧ ∀ t, Un' a' t → (Un' a t ∧ t ∉ opsOf e) ∨ t = v :=
      fun e a v a' hk ho hh => ck_getValue hk ho hh
    obtain ⟨k1, v1, z1, f1⟩ := getExprValue_flow (Un := Un') hg e v h1 hk
    obtain ⟨k2, v2, f2, st2⟩ := star_calcValues rest h2 k1
    have hm12 := mono_calcValues h2
    refine ⟨k2, ?_, ?_, ?_⟩
    · intro p hp
      rcases List.mem_cons.1 hp with rfl | hp
      · obtain ⟨r', g, _⟩ := hm12.keep x0 _ (Array.getElem?_eq_getElem v1)
        exact Alloc.lt_of_getElem? g
      · exact v2 p hp
    · intro t ht
      rcases f2 t ht with g | ⟨p, hp, e'⟩
      · rcases f1 t g with q | q
        · exact Or.inl q
        · exact Or.inr ⟨(v, x0), List.mem_cons_self, q.symm⟩
      · exact Or.inr ⟨p, List.mem_cons_of_mem _ hp, e'⟩
    · intro k v' x rx hv hrx hfx t rt hrt hft hlt
      cases k with
      | zero =>
        simp only [List.getElem?_cons_zero, Option.some.injEq, Prod.mk.injEq] at hv
        obtain ⟨_, rfl⟩ := hv
        by_cases ht : t < s1.ranges.size
        · have hu1 := hm12.un' ht ⟨rt, hrt, hft⟩
          rcases f1 t hu1 with q | q
          · exact Or.inr q
          · subst q
            rw [hrt] at hrx; cases hrx
            exact absurd hlt (Nat.lt_irrefl _)
        · exfalso
          rcases hm12.fresh t rt hrt with g | g
          · exact ht g
          · obtain ⟨r', q1, q2, _⟩ := hm12.keep x0 _ (Array.getElem?_eq_getElem v1)
            rw [hrx] at q1; cases q1
            have := (k1.cinv.linv.rwf x0 _ (Array.getElem?_eq_getElem v1)).1
            omega
      | succ k' =>
        simp only [List.getElem?_cons_succ] at hv
        rcases st2 k' v' x rx hv hrx hfx t rt hrt hft hlt with ⟨j, v'', hj, hjv⟩ | hu1
        · exact Or.inl ⟨j + 1, v'', by omega, by simpa using hjv⟩
        · rcases f1 t hu1 with q | q
          · exact Or.inr q
          · exact Or.inl ⟨0, v, by omega, by simp [q]⟩

/-- The remaining stores: an unread value created before an unread `vals[k]` is an earlier element. -/
def PStar (vals : List (Int × Nat)) (s : St w) : Prop :=
  ∀ (k : Nat) (v : Int) (x : Nat) (rx : RangeInfo), vals[k]? = some (v, x) → s.ranges[x]? = some rx →
    rx.firstUse = none → ∀ (t : Nat) (rt : RangeInfo), s.ranges[t]? = some rt → rt.firstUse = none →
      rt.created < rx.created → ∃ j v', j < k ∧ vals[j]? = some (v', t)

theorem memWrites_ord {n0 : Nat} {bs : List Nat} : ∀ (vals : List (Int × Nat)) {s s' : St w} {u : Unit},
    memWrites vals s = .ok (u, s') → CK n0 bs s → (∀ p ∈ vals, p.2 < s.ranges.size) → PStar vals s →
    CK n0 bs s' ∧ ∀ t, Un' s' t → Un' s t ∧ ∀ p ∈ vals, p.2 ≠ t
  | [], s, s', u, h, hk, _, _ => by
    simp only [memWrites, pure_ok] at h
    rw [h.2]; exact ⟨hk, fun t ht => ⟨ht, fun p hp => by cases hp⟩⟩
  | (v, x) :: rest, s, s', u, h, hk, hv, hP => by
    simp only [memWrites, bind_ok] at h
    obtain ⟨_, s1, h1, h2⟩ := h
    have hx : x < s.ranges.size := hv (v, x) List.mem_cons_self
    obtain ⟨c1, _⟩ := cinv_memWrite hk.cinv hx h1
    obtain ⟨P, _⟩ := pushStep_memWrite hx h1
    have hm := mono_memWrite h1
    have ho : OrdInv s1 := by
      refine ord_pushStep P hk.cinv.linv hk.ord ?_
      intro t2 r2 hs hr2 hf2 t1 r1 hr1 hc
      obtain ⟨m, hm'⟩ := hs
      simp only [Instr.copy.injEq, Loc.tmp.injEq] at hm'
      obtain ⟨_, rfl⟩ := hm'
      cases hf1 : r1.firstUse with
      | some f1 => exact ⟨f1, rfl⟩
      | none =>
        obtain ⟨j, _, hj, _⟩ := hP 0 v x r2 (by simp) hr2 hf2 t1 r1 hr1 hf1 hc
        omega
    have hu1 : ∀ t, Un' s1 t → Un' s t ∧ t ≠ x := by
      intro t ht
      rcases un'_pushStep P ht with ⟨g1, g2⟩ | g
      · exact ⟨g1, by simpa using g2⟩
      · cases g
    -- the same entry seen in `s`
    have hback : ∀ (y : Nat) (ry : RangeInfo), s1.ranges[y]? = some ry → ry.firstUse = none →
        ∃ ry0 : RangeInfo, s.ranges[y]? = some ry0 ∧ ry0.firstUse = none ∧ ry0.created = ry.created ∧ y ≠ x := by
      intro y ry hy hfy
      obtain ⟨⟨ry0, q1, q2⟩, hne⟩ := hu1 y ⟨ry, hy, hfy⟩
      obtain ⟨ry', p1, p2, _⟩ := hm.keep y ry0 q1
      rw [hy] at p1; cases p1
      exact ⟨ry0, q1, q2, p2.symm, hne⟩
    have hP1 : PStar rest s1 := by
      intro k v' x' rx hv' hrx hfx t rt hrt hft hlt
      obtain ⟨rx0, a1, a2, a3, _⟩ := hback x' rx hrx hfx
      obtain ⟨rt0, b1, b2, b3, hne⟩ := hback t rt hrt hft
      obtain ⟨j, v'', hj, hjv⟩ := hP (k + 1) v' x' rx0 (by simpa using hv') a1 a2 t rt0 b1 b2 (by omega)
      cases j with
      | zero =>
        simp only [List.getElem?_cons_zero, Option.some.injEq, Prod.mk.injEq] at hjv
        exact absurd hjv.2.symm hne
      | succ j' => exact ⟨j', v'', by omega, by simpa using hjv⟩
    obtain ⟨k2, f2⟩ := memWrites_ord rest h2 ⟨c1, ho⟩ (by
      intro p hp
      rw [memWrite_size h1]
      exact hv p (List.mem_cons_of_mem _ hp)) hP1
    refine ⟨k2, ?_⟩
    intro t ht
    obtain ⟨g1, g2⟩ := f2 t ht
    obtain ⟨q1, q2⟩ := hu1 t g1
    refine ⟨q1, ?_⟩
    intro p hp
    rcases List.mem_cons.1 hp with rfl | hp
    · exact fun e => q2 e.symm
    · exact g2 p hp

/-- All values have been read. -/
def NoUn (s : St w) : Prop := ∀ t, ¬ Un' s t

/-- A whole `calc`. -/
theorem oi_calc {bs : List Nat} {calcs : List (Int × Expr w)} {s s1 s' : St w} {vals : List (Int × Nat)}
    {u : Unit} (h : CInv s.insts.size bs s) (hn : NoUn s) (ho : OrdInv s)
    (hc : calcValues calcs s = .ok (vals, s1)) (hm : memWrites vals s1 = .ok (u, s')) :
    NoUn s' ∧ OrdInv s' := by
  obtain ⟨k1, v1, f1, st1⟩ := star_calcValues calcs hc ⟨h, ho⟩
  have hP : PStar vals s1 := by
    intro k v x rx hv hrx hfx t rt hrt hft hlt
    rcases st1 k v x rx hv hrx hfx t rt hrt hft hlt with g | g
    · exact g
    · exact absurd g (hn t)
  obtain ⟨k2, f2⟩ := memWrites_ord vals hm k1 v1 hP
  refine ⟨?_, k2.ord⟩
  intro t ht
  obtain ⟨g1, g2⟩ := f2 t ht
  rcases f1 t g1 with q | ⟨p, hp, e⟩
  · exact hn t q
  · exact g2 p hp e

/-! ### the induction over the program -/

def OI (s : St w) : Prop := NoUn s ∧ OrdInv s

theorem oi_frame {s s' : St w} (h : OI s)
    (hr : ∀ (t : Nat) (r' : RangeInfo), s'.ranges[t]? = some r' →
      ∃ r : RangeInfo, s.ranges[t]? = some r ∧ r'.created = r.created ∧ r'.firstUse = r.firstUse)
    (hi : ∀ (j : Nat) (x : Instr w) (t : Nat), s'.insts[j]? = some x → IsStore x t → s.insts[j]? = some x) :
    OI s' :=
  ⟨fun t ht => h.1 t (un'_frame hr ht), ord_frame h.2 hr hi⟩

theorem same_ranges {s s' : St w} (e : s'.ranges = s.ranges) :
    ∀ (t : Nat) (r' : RangeInfo), s'.ranges[t]? = some r' →
      ∃ r : RangeInfo, s.ranges[t]? = some r ∧ r'.created = r.created ∧ r'.firstUse = r.firstUse :=
  fun t r' h => ⟨r', by rw [← e]; exact h, rfl, rfl⟩

def NotStore (y : Instr w) : Prop := ∀ t, ¬ IsStore y t

theorem store_of_push {A : Array (Instr w)} {y x : Instr w} {j t : Nat} (hy : NotStore y)
    (h : (A.push y)[j]? = some x) (hs : IsStore x t) : A[j]? = some x := by
  rcases getElem?_push_cases h with ⟨_, g⟩ | ⟨_, g⟩
  · exact g
  · rw [g] at hs; exact absurd hs (hy t)

theorem store_of_set {A : Array (Instr w)} {y x : Instr w} {i j t : Nat} (hy : NotStore y)
    (h : (A.setIfInBounds i y)[j]? = some x) (hs : IsStore x t) : A[j]? = some x := by
  rw [Array.getElem?_setIfInBounds] at h
  by_cases e : i = j
  · simp only [e, if_true] at h
    split at h
    · cases h; exact absurd hs (hy t)
    · cases h
  · simp only [e, if_false] at h; exact h

theorem notStore_ctl {y : Instr w} (h : isCtl y = true) : NotStore y := by
  rintro t ⟨m, rfl⟩; cases h
theorem notStore_brz (c off : Int) : NotStore (.brz c off : Instr w) := by rintro t ⟨m, h⟩; cases h
theorem notStore_inp (d : Int) : NotStore (.inp d : Instr w) := by rintro t ⟨m, h⟩; cases h

def OJ (c : List Nat) (ps : Nat) (a : Analysis) (l : List (Ir.Instr w)) (s : St w) : Prop :=
  RInv c ps a l s ∧ OI s

theorem closedI_oj (fuse : Bool) : ClosedI fuse (OJ (w := w)) where
  out := fun c ps a src rest s h =>
    ⟨(closedI_rinv fuse).out c ps a src rest s h.1,
      oi_frame h.2 (same_ranges rfl) (fun j x t hx hs => store_of_push (notStore_ctl rfl) hx hs)⟩
  inp := fun c ps a dst rest s h =>
    ⟨(closedI_rinv fuse).inp c ps a dst rest s h.1,
      oi_frame h.2 (same_ranges rfl) (fun j x t hx hs => store_of_push (notStore_inp dst) hx hs)⟩
  calcR := fun c ps a calcs rest s vals s1 s' u h hc hm =>
    ⟨(closedI_rinv fuse).calcR c ps a calcs rest s vals s1 s' u h.1 hc hm, oi_calc h.1.2 h.2.1 h.2.2 hc hm⟩
  scan := fun c ps a cond shift once rest s hf h => by
    refine ⟨(closedI_rinv fuse).scan c ps a cond shift once rest s hf h.1, ?_⟩
    rw [lhExit_eq]
    refine oi_frame h.2 (same_ranges (by show (lhHead true _ s).ranges = s.ranges; rw [lhHead_eq])) ?_
    intro j x t hx hs
    have hx' : ((lhHead true (subOf shift ([] : List (Ir.Instr w))) s).insts.push (.scan cond shift))[j]? = some x := hx
    rw [lhHead_eq] at hx'
    exact store_of_push (notStore_ctl rfl) hx' hs
  loop := fun c ps a cond shift body once rest s hf h => by
    obtain ⟨c', hb1, hexit⟩ := (closedI_rinv fuse).loop c ps a cond shift body once rest s hf h.1
    obtain ⟨hs1i, _, _⟩ := lhPro_true_insts once (subOf shift body) s
    obtain ⟨sP, hpro, p1, _⟩ := lhPro_true_eq once (lhHead true (subOf shift body) s)
    have hrng1 : (lhPro true once (lhHead true (subOf shift body) s)).ranges = s.ranges := by
      rw [hpro]; show sP.ranges = _; rw [p1, lhHead_eq]
    refine ⟨c', ⟨hb1, ?_⟩, ?_⟩
    · refine oi_frame h.2 (same_ranges hrng1) ?_
      intro j x t hx hs
      rw [hs1i] at hx
      cases once
      · exact store_of_push (notStore_ctl rfl) hx hs
      · exact hx
    · intro sb so u1 u2 fuel hrun hb hpre ho
      refine ⟨hexit sb so u1 u2 fuel hrun hb.1 hpre ho, ?_⟩
      have hlsb : LInv sb := hb.1.2.linv
      have hlm : LInv (lhMov shift sb) := by
        unfold lhMov; split
        · exact hlsb
        · exact closed_linv.push _ _ hlsb rfl
      have hmr : (lhMov shift sb).ranges = sb.ranges := by unfold lhMov; split <;> rfl
      have hso : so.insts = (lhMov shift sb).insts := congrArg G.insts (outerLoop_core ps fuel _ ho).1
      have hro := ranges_outer ps fuel _ ho hlm
      obtain ⟨hfr, _, _, o1, o2, hfi⟩ := loopEnd_fields once cond (subOf shift body) ps s
        (lhPro true once (lhHead true (subOf shift body) s)) so
      refine oi_frame hb.2 ?_ ?_
      · intro t r' hr'
        rw [hfr] at hr'
        obtain ⟨r, g1, g2, g3⟩ := hro t r' hr'
        exact ⟨r, by rw [← hmr]; exact g1, g2, g3⟩
      · intro j x t hx hs
        rw [hfi, hso] at hx
        have hx1 : ((lhMov shift sb).insts.push (.brnz cond o1))[j]? = some x := by
          cases once
          · exact store_of_set (notStore_brz cond o2) hx hs
          · exact hx
        have hx2 := store_of_push (notStore_ctl rfl) hx1 hs
        unfold lhMov at hx2
        split at hx2
        · exact hx2
        · exact store_of_push (notStore_ctl rfl) hx2 hs
  ifz := fun c ps a cond shift body rest s h => by
    obtain ⟨c', hb1, hexit⟩ := (closedI_rinv fuse).ifz c ps a cond shift body rest s h.1
    refine ⟨c', ⟨hb1, ?_⟩, ?_⟩
    · exact oi_frame h.2 (same_ranges rfl) (fun j x t hx hs => store_of_push (notStore_ctl rfl) hx hs)
    · intro sb u1 hrun hb hpre
      refine ⟨hexit sb u1 hrun hb.1 hpre, ?_⟩
      obtain ⟨hfr, o2, hfi⟩ := ifEnd_fields cond shift (subOf shift body) ps s (lhPro false false s) sb
      have hmr : (lhMov shift sb).ranges = sb.ranges := by unfold lhMov; split <;> rfl
      refine oi_frame hb.2 (same_ranges (hfr.trans hmr)) ?_
      intro j x t hx hs
      rw [hfi] at hx
      have hx2 := store_of_set (notStore_brz cond o2) hx hs
      unfold lhMov at hx2
      split at hx2
      · exact hx2
      · exact store_of_push (notStore_ctl rfl) hx2 hs

theorem oi_of_emit {prog : Ir.Block w} {fuse : Bool} {s : St w} (h : emitState prog fuse = .ok s) : OI s := by
  have h0 : OJ ([] : List Nat) 0 Analysis.empty prog.insts ({} : St w) := by
    refine ⟨?_, fun t ⟨r, hr, _⟩ => by simp at hr, fun t1 t2 r1 r2 f2 x h1 => by simp at h1⟩
    refine ⟨rfl, linv_init, ?_, Nat.le_refl _, ?_, ?_, ?_, ?_, ?_, ?_⟩
    · intro p hp; cases hp
    · intro j x _ hx; simp at hx
    · intro t r hr; simp at hr
    · intro t r f hr; simp at hr
    · intro t r f hr; simp at hr
    · intro j x off hx; simp at hx
    · intro b hb
      simp only [List.mem_singleton] at hb
      subst hb
      exact ⟨Nat.le_refl _, fun t r hr => by simp at hr⟩
  exact (closedI_emitState (closedI_oj fuse) h _ h0).2

end AEmit
end C02
end Hpbf
