/-
Rebuild-round proofs, part 8 (end of stage 1): composition of step lemmas, the top-level state, the bridge from
`Sim` to statements about `Ir.run`, and `rebuild_straightline`: one optimizer round preserves the behaviour of
a block without `loop` / `ifnz`.
-/
import Hpbf.Proofs.OptRbStep
import Hpbf.Proofs.OptRbAdeq2

namespace Hpbf
namespace OptProof
open Opt OptSem Ir

variable {w : Nat}

/-! ### composing steps -/

theorem StepAt.refl (sh : Int) (ps : List (Rebuild w)) (s : Rebuild w) : StepAt sh sh ps s s [] := by
  refine ⟨[], by simp, fun h => h, ?_⟩
  intro M0 σE σS h
  refine ⟨Sim.nil ⟨M0, h, fun _ => ⟨rfl, rfl⟩⟩ h.tr.symm, ?_⟩
  intro hb; cases hb

theorem StepAt.trans {sh1 sh2 sh3 : Int} {ps : List (Rebuild w)} {a b c : Rebuild w} {l1 l2 : List (Instr w)}
    (h1 : StepAt sh1 sh2 ps a b l1) (h2 : StepAt sh2 sh3 ps b c l2) : StepAt sh1 sh3 ps a c (l1 ++ l2) := by
  obtain ⟨n1, e1, m1, s1⟩ := h1
  obtain ⟨n2, e2, m2, s2⟩ := h2
  refine ⟨n1 ++ n2, by rw [e2, e1, List.append_assoc], fun h => m1 (m2 h), ?_⟩
  intro M0 σE σS h
  obtain ⟨hs1, hb1⟩ := s1 M0 σE σS h
  refine ⟨Sim.append hs1 ?_, ?_⟩
  · rintro σS' σE' ⟨M0', h', hk'⟩
    refine (s2 M0' σE' σS' h').1.mono ?_
    rintro x y ⟨M0'', h'', hk''⟩
    refine ⟨M0'', h'', fun hc => ?_⟩
    obtain ⟨k1, k2⟩ := hk'' hc
    obtain ⟨k3, k4⟩ := hk' (m2 hc)
    exact ⟨k1.trans k3, k2.trans k4⟩
  · intro hb
    rcases bad_append.1 hb with hb | ⟨σ1, he, hb⟩
    · exact hb1 hb
    · obtain ⟨σS', _, M0', h', _⟩ := hs1.finR σ1 he
      exact (s2 M0' σ1 σS' h').2 hb

theorem StepOk.refl (ps : List (Rebuild w)) (s : Rebuild w) : StepOk ps s s [] := StepAt.refl _ ps s

theorem StepOk.trans {ps : List (Rebuild w)} {a b c : Rebuild w} {l1 l2 : List (Instr w)}
    (h1 : StepOk ps a b l1) (h2 : StepOk ps b c l2) : StepOk ps a c (l1 ++ l2) := StepAt.trans h1 h2

/-! ### straight-line instruction lists -/

/-- No `loop` / `ifnz` at top level (hence none at all). -/
def StraightL (l : List (Instr w)) : Prop := ∀ i ∈ l, C01Dse.isBlock i = false

theorem rebuildInstr_straight {ps : List (Rebuild w)} {s : Rebuild w} (hwf : Wf s) {i : Instr w}
    (hi : C01Dse.isBlock i = false) {os os' : Orders} {s' : Rebuild w}
    (hr : (rebuildInstr ps s i).run os = .ok (s', os')) :
    Wf s' ∧ s'.noReturn = s.noReturn ∧ SameHdr s s' ∧ s'.subAnal = s.subAnal ∧ StepOk ps s s' [i] := by
  cases i with
  | output src => exact step_output hwf src hr
  | input dst => exact step_input hwf dst hr
  | «calc» calcs => exact step_calc hwf calcs hr
  | loop c sh b o => simp [C01Dse.isBlock] at hi
  | ifnz c sh b => simp [C01Dse.isBlock] at hi

theorem rebuildInsts_straight {ps : List (Rebuild w)} (l : List (Instr w)) (hl : StraightL l)
    {s : Rebuild w} {os os' : Orders} {s' : Rebuild w} {done : Bool} (hwf : Wf s) (hnr : s.noReturn = false)
    (hr : (rebuildInsts ps s l).run os = .ok ((s', done), os')) :
    Wf s' ∧ s'.noReturn = false ∧ done = true ∧ SameHdr s s' ∧ s'.subAnal = s.subAnal ∧
    StepOk ps s s' l := by
  induction l generalizing s os with
  | nil =>
    rw [rebuildInsts, run_pure] at hr
    cases hr
    exact ⟨hwf, hnr, rfl, SameHdr.refl _, rfl, StepOk.refl ps _⟩
  | cons i rest ih =>
    rw [rebuildInsts, hnr] at hr
    simp only [Bool.false_eq_true, if_false] at hr
    rw [run_bind_ok] at hr
    obtain ⟨s1, os1, h1, h2⟩ := hr
    obtain ⟨a1, a2, a3, a4, a5⟩ := rebuildInstr_straight hwf (hl i (by simp)) h1
    obtain ⟨b1, b2, b3, b4, b5, b6⟩ := ih (fun j hj => hl j (by simp [hj])) a1 (by rw [a2, hnr]) h2
    exact ⟨b1, b2, b3, a3.trans b4, b5.trans a4, a5.trans b6⟩

/-! ### the top-level state -/

/-- Parent `.zero` (and no loop condition): the entry memory is the zero tape, about which every answer of the
parent interface is right. -/
theorem pk_top {s : Rebuild w} (ps : List (Rebuild w)) (hp : s.parent = .zero) (hc : s.cond = none) :
    PK s ps (fun _ => 0#w) := by
  refine ⟨?_, ?_, ?_⟩
  · intro v c h
    unfold getParentConstant at h
    rw [hp] at h
    split at h
    · simp only [Option.some.injEq] at h; exact h
    · cases h
  · intro v h
    unfold nonZeroParent at h
    rw [hp, hc] at h
    simp at h
  · intro a b ha hb h
    unfold compareParent at h
    rw [hp] at h
    split at h
    · rename_i hab
      have : a = b := by simpa using hab
      rw [this]
    · split at h
      · simp only [pure, Except.pure, Except.ok.injEq, beq_iff_eq] at h
        show Expr.evaluate a _ = Expr.evaluate b _
        rw [← Expr.eval_constantPart a ha.weak, ← Expr.eval_constantPart b hb.weak, h]
      · simp [pure, Except.pure] at h

theorem rel_init {s : Rebuild w} (ps : List (Rebuild w)) (hp : s.parent = .zero) (hc : s.cond = none)
    (hsh : s.shift = 0) (hpend : s.pending = []) (hwr : s.written = []) (hnr : s.noReturn = false)
    (env : Env) :
    Rel s ps (fun _ => 0#w) (State.init env) (State.init env) := by
  refine ⟨rfl, rfl, by rw [hsh]; rfl, hnr, ?_, ?_, pk_top ps hp hc⟩
  · rw [hpend]; simp
  · intro v
    rw [hwr]
    show (State.init env : State w).tape.get _ = 0#w
    rfl

/-! ### from `Sim` to `Ir.run` -/

/-- Same observable behaviour of two blocks under `env`: terminating runs correspond (same kind of ending, same
events, same environment) in both directions, and runs cut off by the fuel have the same events. -/
def BehEq (b b' : Block w) (env : Env) : Prop :=
  (∀ f c, Ir.run b false 0 f env = .done c → ∃ f' c', Ir.run b' false 0 f' env = .done c' ∧
    c'.st.trace = c.st.trace ∧ c'.st.env = c.st.env) ∧
  (∀ f c, Ir.run b false 0 f env = .stopped c → ∃ f' c', Ir.run b' false 0 f' env = .stopped c' ∧
    c'.st.trace = c.st.trace ∧ c'.st.env = c.st.env) ∧
  (∀ f' c', Ir.run b' false 0 f' env = .done c' → ∃ f c, Ir.run b false 0 f env = .done c ∧
    c'.st.trace = c.st.trace ∧ c'.st.env = c.st.env) ∧
  (∀ f' c', Ir.run b' false 0 f' env = .stopped c' → ∃ f c, Ir.run b false 0 f env = .stopped c ∧
    c'.st.trace = c.st.trace ∧ c'.st.env = c.st.env) ∧
  (∀ f', ∃ f, C01.traceOf (Ir.run b false 0 f env) = C01.traceOf (Ir.run b' false 0 f' env)) ∧
  (∀ f, ∃ f', C01.traceOf (Ir.run b' false 0 f' env) = C01.traceOf (Ir.run b false 0 f env))

theorem behEq_of_sim {Q : State w → State w → Prop} {b b' : Block w} {env : Env}
    (hQ : ∀ x y, Q x y → y.trace = x.trace ∧ y.env = x.env)
    (h : Sim Q b.insts b'.insts (State.init env) (State.init env)) : BehEq b b' env := by
  refine ⟨?_, ?_, ?_, ?_, ?_, ?_⟩
  · intro f c hc
    obtain ⟨σE', h1, h2⟩ := h.finL _ (run_done_exec hc)
    obtain ⟨f', c', h3, h4⟩ := exec_fin_run h1
    exact ⟨f', c', h3, by rw [h4]; exact (hQ _ _ h2).1, by rw [h4]; exact (hQ _ _ h2).2⟩
  · intro f c hc
    obtain ⟨σE', h1, h2, h2'⟩ := h.stopL _ (run_stopped_exec hc)
    obtain ⟨f', c', h3, h4⟩ := exec_stop_run h1
    exact ⟨f', c', h3, by rw [h4]; exact h2, by rw [h4]; exact h2'⟩
  · intro f' c' hc
    obtain ⟨σS', h1, h2⟩ := h.finR _ (run_done_exec hc)
    obtain ⟨f, c, h3, h4⟩ := exec_fin_run h1
    exact ⟨f, c, h3, by rw [h4]; exact (hQ _ _ h2).1, by rw [h4]; exact (hQ _ _ h2).2⟩
  · intro f' c' hc
    obtain ⟨σS', h1, h2, h2'⟩ := h.stopR _ (run_stopped_exec hc)
    obtain ⟨f, c, h3, h4⟩ := exec_stop_run h1
    exact ⟨f, c, h3, by rw [h4]; exact h2, by rw [h4]; exact h2'⟩
  · intro f'
    obtain ⟨o, ho, hot⟩ := run_trace_exec b' env f'
    rw [← hot]
    cases o with
    | fin σE' =>
      obtain ⟨σS', h1, h2⟩ := h.finR _ ho
      obtain ⟨f, hf⟩ := exec_trace_run h1
      exact ⟨f, by rw [hf]; exact ((hQ _ _ h2).1).symm⟩
    | stop σE' =>
      obtain ⟨σS', h1, h2, _⟩ := h.stopR _ ho
      obtain ⟨f, hf⟩ := exec_trace_run h1
      exact ⟨f, by rw [hf]; exact h2.symm⟩
    | part t =>
      obtain ⟨f, hf⟩ := exec_trace_run (h.partR _ ho)
      exact ⟨f, hf⟩
  · intro f
    obtain ⟨o, ho, hot⟩ := run_trace_exec b env f
    rw [← hot]
    cases o with
    | fin σS' =>
      obtain ⟨σE', h1, h2⟩ := h.finL _ ho
      obtain ⟨f', hf⟩ := exec_trace_run h1
      exact ⟨f', by rw [hf]; exact (hQ _ _ h2).1⟩
    | stop σS' =>
      obtain ⟨σE', h1, h2, _⟩ := h.stopL _ ho
      obtain ⟨f', hf⟩ := exec_trace_run h1
      exact ⟨f', by rw [hf]; exact h2⟩
    | part t =>
      obtain ⟨f', hf⟩ := exec_trace_run (h.partL _ ho)
      exact ⟨f', hf⟩

/-! ### stage 1: straight-line blocks -/

/-- No `loop` / `ifnz` in the block. -/
def StraightLine (b : Block w) : Prop := StraightL b.insts

theorem reverseSubBlocks_fields (s : Rebuild w) :
    (reverseSubBlocks s).parent = s.parent ∧ (reverseSubBlocks s).shift = s.shift ∧
    (reverseSubBlocks s).cond = s.cond ∧ (reverseSubBlocks s).subShift = s.subShift ∧
    (reverseSubBlocks s).noReturn = s.noReturn ∧ (reverseSubBlocks s).reads = s.reads ∧
    (reverseSubBlocks s).written = s.written ∧ (reverseSubBlocks s).pending = s.pending ∧
    (reverseSubBlocks s).reverse = s.reverse ∧ (reverseSubBlocks s).insts = s.insts ∧
    (reverseSubBlocks s).subAnal = s.subAnal := by
  unfold reverseSubBlocks
  split <;> exact ⟨rfl, rfl, rfl, rfl, rfl, rfl, rfl, rfl, rfl, rfl, rfl⟩

/-- One round of the optimizer on a block without `loop` / `ifnz`, for every previous analysis and every
oracle: same observable behaviour under every environment. -/
theorem rebuild_straightline {b : Block w} (hb : StraightLine b) (prevAnal : OptAnalysis w)
    {os os' : Orders} {b' : Block w} {anal' : OptAnalysis w}
    (hr : (optimizeOnce b prevAnal).run os = .ok ((b', anal'), os')) (env : Env) : BehEq b b' env := by
  unfold optimizeOnce at hr
  rw [run_bind_ok] at hr
  obtain ⟨st, os1, h1, h2⟩ := hr
  rw [run_pure] at h2
  cases h2
  unfold rebuildBlock at h1
  rw [run_bind_ok] at h1
  obtain ⟨⟨s', done⟩, os2, h3, h4⟩ := h1
  rw [run_pure] at h4
  cases h4
  obtain ⟨f1, f2, f3, f4, f5, f6, f7, f8, f9, f10, f11⟩ :=
    reverseSubBlocks_fields (Rebuild.new 0 none .zero (some prevAnal) : Rebuild w)
  have hwf0 : Wf (reverseSubBlocks (Rebuild.new 0 none .zero (some prevAnal) : Rebuild w)) := by
    have := wf_new (w := w) 0 none .zero (some prevAnal)
    exact ⟨by rw [f8]; exact this.pend, by rw [f7]; exact this.writ, by rw [f9]; exact this.rev,
      by rw [f8, f9]; exact this.revOk⟩
  obtain ⟨_, _, _, _, _, new, hnew, _, hsim⟩ := rebuildInsts_straight b.insts hb hwf0 (by rw [f5]; rfl) h3
  have hrel := rel_init (w := w) (s := reverseSubBlocks (Rebuild.new 0 none .zero (some prevAnal))) []
    (by rw [f1]; rfl) (by rw [f3]; rfl) (by rw [f2]; rfl) (by rw [f8]; rfl) (by rw [f7]; rfl)
    (by rw [f5]; rfl) env
  have hS := (hsim _ _ _ hrel).1
  have hinsts : (if done = true then { s' with shift := s'.shift + b.shift } else s').insts = new := by
    have : s'.insts = new := by rw [hnew, f10]; rfl
    split <;> exact this
  refine behEq_of_sim (Q := StepQ s'.shift [] s' (fun _ => 0#w) (State.init env)) ?_ ?_
  · rintro x y ⟨M0', h, _⟩
    exact ⟨h.tr.symm, h.env.symm⟩
  · show Sim _ b.insts (if done = true then { s' with shift := s'.shift + b.shift } else s').insts _ _
    rw [hinsts]; exact hS

end OptProof
end Hpbf
