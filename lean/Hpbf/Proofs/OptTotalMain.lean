/-
Totality of the optimizer model, part 5: the induction over the IR (`rebuildInstr` / `rebuildInsts`), `rebuildBlock`,
`optimizeOnce`, dead store elimination between the rounds, `optimizeRounds`, `optimizeM`, and the two top
theorems `optimize_no_panic` and `optimize_total`.
-/
import Hpbf.Proofs.OptTotalLoop
import Hpbf.Proofs.OptRbRounds

namespace Hpbf
namespace OptTotal
open Opt OptProof Ir

variable {w : Nat}

/-! ### the induction over nested blocks -/

/-- The statement for instruction lists. -/
def ListSafe (l : List (Instr w)) : Prop :=
  ∀ (ps : List (Rebuild w)) (s : Rebuild w), Wf s → CanonSt s → CanonL l → Safe (rebuildInsts ps s l)

/-- The `Loop` / `If` arm, given the statement for the body. `popSubAnal` never fails (`None` when the previous
analysis has run out), the child state is fresh, the body is rebuilt, then `finishLoop`. -/
theorem rebuildBlockArm_safe {ps : List (Rebuild w)} {s : Rebuild w} {cond shift : Int}
    {body : List (Instr w)} (isLoop : Bool) (hbody : ListSafe body) (hcb : CanonL body)
    (hwf : Wf s) (hc : CanonSt s) :
    Safe ((do
      let cond := cond + s.shift
      let (s, subAnal) := popSubAnal s
      let sub : Rebuild w := reverseSubBlocks (Rebuild.new s.shift (some cond) .parent subAnal)
      let (sub, completed) ← rebuildInsts (s :: ps) sub body
      let sub := if completed then { sub with shift := sub.shift + shift } else sub
      finishLoop s ps sub cond isLoop) : M (Rebuild w)) := by
  have r0 := popSubAnal_cstep hwf hc
  rcases hps : popSubAnal s with ⟨s1, sa⟩
  rw [hps] at r0
  dsimp only at r0 ⊢
  have hch0 : Child (reverseSubBlocks (Rebuild.new s1.shift (some (cond + s.shift)) .parent sa)) :=
    (child_new _ _ _ _).reverseSubBlocks
  refine (hbody _ _ hch0.wf hch0.canon hcb).bind (fun r os os' h1 => ?_)
  obtain ⟨sub, completed⟩ := r
  dsimp only
  have hch : Child sub := hch0.step (rebuildInsts_cstep_all body h1 hch0.wf hch0.canon hcb)
  have hsasc := rebuildInsts_child_sasc' _ _ _ _ body h1 hcb shift
  have hch' : Child (if completed = true then { sub with shift := sub.shift + shift } else sub) := by
    split
    · exact hch.of_fields rfl rfl rfl rfl
    · exact hch
  exact finishLoop_safe r0.wf r0.canon hch' hsasc

theorem rebuildInstr_safe_of_lists (n : Nat) (IH : ∀ l : List (Instr w), sizeL l ≤ n → ListSafe l)
    (i : Instr w) (hi : sizeI i ≤ n + 1) {ps : List (Rebuild w)} {s : Rebuild w} (hwf : Wf s)
    (hc : CanonSt s) (hci : CanonL [i]) : Safe (rebuildInstr ps s i) := by
  cases i with
  | output src =>
    rw [rebuildInstr]
    split
    · exact Safe.pure _
    · refine (emit_safe ps _ hwf).bind (fun s1 _ _ _ => ?_)
      exact Safe.pure _
  | input dst =>
    rw [rebuildInstr]
    refine (clobber_safe ps _ false hwf).bind (fun s1 _ _ _ => ?_)
    exact Safe.pure _
  | «calc» calcs =>
    rw [rebuildInstr]
    exact performAll_safe ps s.shift calcs hwf hc
  | loop c sh body o =>
    rw [sizeI] at hi
    rw [rebuildInstr]
    exact rebuildBlockArm_safe true (IH body (by omega)) (canonL_loop.1 hci) hwf hc
  | ifnz c sh body =>
    rw [sizeI] at hi
    rw [rebuildInstr]
    exact rebuildBlockArm_safe false (IH body (by omega)) (canonL_ifnz.1 hci) hwf hc

theorem rebuildInsts_safe_size (n : Nat) : ∀ l : List (Instr w), sizeL l ≤ n → ListSafe l := by
  induction n with
  | zero =>
    intro l hl ps s hwf hc _
    cases l with
    | nil => rw [rebuildInsts]; exact Safe.pure _
    | cons i rest =>
      rw [sizeL] at hl
      have := sizeI_pos i
      omega
  | succ n ih =>
    intro l hl
    induction l with
    | nil => intro ps s hwf hc _; rw [rebuildInsts]; exact Safe.pure _
    | cons i rest ihl =>
      intro ps s hwf hc hcl
      rw [sizeL] at hl
      have hpos := sizeI_pos i
      rw [canonL_cons] at hcl
      rw [rebuildInsts]
      split
      · exact Safe.pure _
      · have hci : CanonL [i] := canonL_single.2 hcl.1
        refine (rebuildInstr_safe_of_lists n ih i (by omega) hwf hc hci).bind (fun s1 os os' h1 => ?_)
        have r1 := rebuildInstr_cstep_all i h1 hwf hc hci
        exact ihl (by omega) ps s1 r1.wf r1.canon hcl.2

/-- **All of `rebuildInsts`** is `Safe`. -/
theorem rebuildInsts_safe {ps : List (Rebuild w)} (l : List (Instr w)) {s : Rebuild w} (hwf : Wf s)
    (hc : CanonSt s) (hcl : CanonL l) : Safe (rebuildInsts ps s l) :=
  rebuildInsts_safe_size (sizeL l) l (Nat.le_refl _) ps s hwf hc hcl

theorem rebuildBlock_safe {ps : List (Rebuild w)} {s : Rebuild w} {b : Block w} (hwf : Wf s) (hc : CanonSt s)
    (hcl : CanonL b.insts) : Safe (rebuildBlock ps s b) := by
  unfold rebuildBlock
  have r0 := reverseSubBlocks_cstep hwf hc
  refine (rebuildInsts_safe b.insts r0.wf r0.canon hcl).bind (fun r _ _ _ => ?_)
  obtain ⟨s1, completed⟩ := r
  exact Safe.pure _

/-- **One round** is `Safe` on code with canonical right-hand sides, whatever the previous analysis. -/
theorem optimizeOnce_safe (b : Block w) (prevAnal : OptAnalysis w) (hcl : CanonL b.insts) :
    Safe (optimizeOnce b prevAnal) := by
  unfold optimizeOnce
  refine (rebuildBlock_safe (wf_new _ _ _ _) (canonSt_new _ _ _ _) hcl).bind (fun st _ _ _ => ?_)
  exact Safe.pure _

/-! ### dead store elimination between the rounds -/

mutual
theorem canonI_of_subI : ∀ {i i' : Instr w}, C01Dse.SubI i i' → CanonI i → CanonI i'
  | _, _, .output _, h => h
  | _, _, .input _, h => h
  | _, _, .calc hs, h => by
    rw [CanonI] at h ⊢
    exact fun ve hve => h ve (hs.subset hve)
  | _, _, .loop _ _ _ hb, h => by
    rw [CanonI] at h ⊢
    exact canonL_of_subL hb h
  | _, _, .ifnz _ _ hb, h => by
    rw [CanonI] at h ⊢
    exact canonL_of_subL hb h
theorem canonL_of_subL : ∀ {l l' : List (Instr w)}, C01Dse.SubL l l' → CanonL l → CanonL l'
  | _, _, .nil, h => h
  | _, _, .cons hi hl, h => by
    rw [canonL_cons] at h ⊢
    exact ⟨canonI_of_subI hi h.1, canonL_of_subL hl h.2⟩
end

/-- Dead store elimination keeps right-hand sides canonical (it only deletes assignments). -/
theorem deadStoreElimination_canonL {b b2 : Block w} {anal : OptAnalysis w}
    (h : deadStoreElimination b anal = .ok b2) (hcl : CanonL b.insts) : CanonL b2.insts :=
  canonL_of_subL (C01Dse.eliminate_shape (deadStoreElimination_ok h)).2 hcl

/-- A (program, analysis) pair as returned by a round on canonical code. -/
def RoundOut (prog : Block w) (anal : OptAnalysis w) : Prop :=
  ∃ (b : Block w) (prev : OptAnalysis w) (os os' : Orders), CanonL b.insts ∧
    (optimizeOnce b prev).run os = .ok ((prog, anal), os')

/-- The rounds after the first one: dead store elimination (`sub_blocks[block_idx]` cannot go out of bounds
because the analysis of a round matches the blocks it emitted), then a round. -/
theorem optimizeRounds_safe : ∀ (n : Nat) (prog : Block w) (anal : OptAnalysis w), RoundOut prog anal →
    Safe (optimizeRounds n prog anal) := by
  intro n
  induction n with
  | zero => intro prog anal _; rw [optimizeRounds]; exact Safe.pure _
  | succ n ih =>
    intro prog anal hro
    obtain ⟨b, prev, os, os', hcl, hr⟩ := hro
    rw [optimizeRounds]
    refine (Safe.monadLift (dse_total_after_round hr hcl)).bind (fun prog1 os1 os1' h1 => ?_)
    have hd : deadStoreElimination prog anal = .ok prog1 := (run_monadLift_ok.1 h1).1
    have hcl1 : CanonL prog1.insts := deadStoreElimination_canonL hd (optimizeOnce_canonL hr hcl)
    refine (optimizeOnce_safe prog1 anal hcl1).bind (fun r os2 os2' h2 => ?_)
    obtain ⟨prog2, anal2⟩ := r
    exact ih prog2 anal2 ⟨prog1, anal, os2, os2', hcl1, h2⟩

theorem optimizeM_safe (b : Block w) (level : Nat) (hcl : CanonL b.insts) : Safe (optimizeM b level) := by
  unfold optimizeM
  split
  · refine (optimizeOnce_safe b _ hcl).bind (fun r os os' h => ?_)
    obtain ⟨prog, anal⟩ := r
    exact optimizeRounds_safe _ prog anal ⟨b, _, os, os', hcl, h⟩
  · exact Safe.pure _

/-! ### the top theorems -/

/-- **No panic, no fuel error**: for every oracle, `optimize` either succeeds or reports that the oracle does
not fit. -/
theorem optimize_no_panic (b : Block w) (level : Nat) (orders : Orders) (hcl : CanonL b.insts) :
    ∀ e, Opt.optimize b level orders = .error e → isOracleError e = true := by
  intro e h
  unfold Opt.optimize at h
  split at h
  · rename_i e' he'
    cases h
    exact (optimizeM_safe b level hcl).noPanic orders _ he'
  · cases h
  · cases h
    repeat (first | decide | apply isOracle_append)

/-- **A fitting oracle exists.** -/
theorem optimize_total (b : Block w) (level : Nat) (hcl : CanonL b.insts) :
    ∃ orders b', Opt.optimize b level orders = .ok b' := by
  obtain ⟨pre, b', h⟩ := (optimizeM_safe b level hcl).total
  refine ⟨pre, b', ?_⟩
  have h' := h []
  rw [List.append_nil] at h'
  unfold Opt.optimize
  rw [h']

/-! ### the optimizer's output is again in the domain of the theorems -/

theorem optimizeRounds_canonL : ∀ (n : Nat) (prog : Block w) (anal : OptAnalysis w) (os os' : Orders)
    (b' : Block w), CanonL prog.insts → (optimizeRounds n prog anal).run os = .ok (b', os') →
    CanonL b'.insts := by
  intro n
  induction n with
  | zero =>
    intro prog anal os os' b' hcl h
    obtain ⟨rfl, _⟩ := optimizeRounds_zero_ok.1 h
    exact hcl
  | succ n ih =>
    intro prog anal os os' b' hcl h
    obtain ⟨prog1, prog2, anal2, os2, hd, ho, hrest⟩ := optimizeRounds_succ_ok.1 h
    have hcl1 := deadStoreElimination_canonL hd hcl
    exact ih prog2 anal2 os2 os' b' (optimizeOnce_canonL ho hcl1) hrest

/-- The optimizer's output has canonical right-hand sides again. -/
theorem optimize_canonL {b b' : Block w} {level : Nat} {orders : Orders} (hcl : CanonL b.insts)
    (h : Opt.optimize b level orders = .ok b') : CanonL b'.insts := by
  unfold Opt.optimize at h
  split at h
  · cases h
  · rename_i prog hrun
    cases h
    unfold optimizeM at hrun
    split at hrun
    · rw [run_bind_ok] at hrun
      obtain ⟨⟨prog1, anal1⟩, os1, h1, h2⟩ := hrun
      exact optimizeRounds_canonL _ prog1 anal1 os1 [] _ (optimizeOnce_canonL h1 hcl) h2
    · rw [run_pure] at hrun
      cases hrun
      exact hcl
  · cases h

#print axioms optimize_canonL

#print axioms optimize_no_panic
#print axioms optimize_total

end OptTotal
end Hpbf
