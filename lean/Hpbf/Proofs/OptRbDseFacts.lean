/-
Rebuild-round proofs, stage 4: two of the four clauses of `C01Dse.AnalSound` (`AtLeastFact`, `AtMostFact`) hold
for a block whose nested blocks are paired with the recorded analysis tree (`ShapeL`), given `C02Emit.OnceOk`.

The POSITION INVARIANT of reachable configurations (`PosInv`): the continuation stack is paired with a chain of
analysis nodes (`KOk`), and the current instruction list is a suffix of the body of the block being executed.
-/
import Hpbf.Proofs.OptRbShape3
import Hpbf.Proofs.OptRbAdeq2
import Hpbf.Proofs.C01DseStraight

namespace Hpbf
namespace OptProof
open Opt OptSem Ir

variable {w : Nat}

/-- `KOk tI tA ks body subs A0`: in the program with top-level instructions `tI` and top node `tA`, the
continuation stack `ks` belongs to the execution of a block with instruction list `body`, whose nested blocks are
paired with `subs`, and whose `DAnal` node (the one `C01Dse.analOf` finds) is `A0`. -/
inductive KOk (tI : List (Instr w)) (tA : OptAnalysis w) :
    List (Cont w) → List (Instr w) → List (OptAnalysis w) → OptDse.DAnal → Prop
  | nil : KOk tI tA [] tI tA.subBlocks tA.toDAnal
  | loopEnd {ks : List (Cont w)} {pbody : List (Instr w)} {psubs : List (OptAnalysis w)} {PA : OptDse.DAnal}
      {pre rest body : List (Instr w)} {cond shift : Int} {once : Bool} {a : OptAnalysis w} :
      KOk tI tA ks pbody psubs PA → pbody = pre ++ .loop cond shift body once :: rest →
      ShapeI (.loop cond shift body once) a → C01Dse.subAt PA (C01Dse.nblocks rest + 1) = some a.toDAnal →
      KOk tI tA (.loopEnd cond shift body rest :: ks) body a.subBlocks a.toDAnal
  | ifEnd {ks : List (Cont w)} {pbody : List (Instr w)} {psubs : List (OptAnalysis w)} {PA : OptDse.DAnal}
      {pre rest body : List (Instr w)} {cond shift : Int} {a : OptAnalysis w} :
      KOk tI tA ks pbody psubs PA → pbody = pre ++ .ifnz cond shift body :: rest →
      ShapeI (.ifnz cond shift body) a → C01Dse.subAt PA (C01Dse.nblocks rest + 1) = some a.toDAnal →
      KOk tI tA (.ifEnd shift rest :: ks) body a.subBlocks a.toDAnal

theorem KOk.analOf {tI : List (Instr w)} {tA : OptAnalysis w} {ks : List (Cont w)} {body : List (Instr w)}
    {subs : List (OptAnalysis w)} {A0 : OptDse.DAnal} (h : KOk tI tA ks body subs A0) :
    C01Dse.analOf tA.toDAnal ks = some A0 := by
  induction h with
  | nil => rfl
  | loopEnd _ _ _ hsub ih => simp only [C01Dse.analOf, ih, C01Dse.contRest]; exact hsub
  | ifEnd _ _ _ hsub ih => simp only [C01Dse.analOf, ih, C01Dse.contRest]; exact hsub

theorem KOk.subs_eq {tI : List (Instr w)} {tA : OptAnalysis w} {ks : List (Cont w)} {body : List (Instr w)}
    {subs : List (OptAnalysis w)} {A0 : OptDse.DAnal} (h : KOk tI tA ks body subs A0) :
    A0.subs = OptAnalysis.toDAnals subs := by
  cases h with
  | nil => exact toDAnal_subs _
  | loopEnd _ _ _ _ => exact toDAnal_subs _
  | ifEnd _ _ _ _ => exact toDAnal_subs _

theorem KOk.shape {tI : List (Instr w)} {tA : OptAnalysis w} (hs : ShapeL tI tA.subBlocks)
    {ks : List (Cont w)} {body : List (Instr w)} {subs : List (OptAnalysis w)} {A0 : OptDse.DAnal}
    (h : KOk tI tA ks body subs A0) : ShapeL body subs := by
  cases h with
  | nil => exact hs
  | loopEnd _ _ hi _ => exact (shapeI_loop hi).2.2.2
  | ifEnd _ _ hi _ => exact (shapeI_ifnz hi).2.2

/-- the node of a running `loop` has `atMostOnce = false` -/
theorem KOk.atMostOnce_loopEnd {tI : List (Instr w)} {tA : OptAnalysis w} {ks : List (Cont w)}
    {cond shift : Int} {lbody rest body : List (Instr w)} {subs : List (OptAnalysis w)} {A0 : OptDse.DAnal}
    (h : KOk tI tA (.loopEnd cond shift lbody rest :: ks) body subs A0) : A0.atMostOnce = false := by
  cases h with
  | loopEnd _ _ hi _ => rw [toDAnal_atMostOnce]; exact (shapeI_loop hi).2.1

/-- entering a nested block -/
theorem KOk.enter {tI : List (Instr w)} {tA : OptAnalysis w} (hs : ShapeL tI tA.subBlocks)
    {ks : List (Cont w)} {body : List (Instr w)} {subs : List (OptAnalysis w)} {A0 : OptDse.DAnal}
    (h : KOk tI tA ks body subs A0) {pre rest : List (Instr w)} {i : Instr w} (hb : body = pre ++ i :: rest)
    {p : Int × Int × List (Instr w)} (hp : C01Dse.blockParts i = some p) :
    ∃ a, ShapeI i a ∧ C01Dse.subAt A0 (C01Dse.nblocks rest + 1) = some a.toDAnal := by
  obtain ⟨a, _, hi, hsub⟩ := shapeL_lookup (h.shape hs) hb hp
  exact ⟨a, hi, hsub A0 h.subs_eq⟩

/-- **The position invariant** of a configuration. -/
def PosInv (tI : List (Instr w)) (tA : OptAnalysis w) (c : Cfg w) : Prop :=
  ∃ (body : List (Instr w)) (subs : List (OptAnalysis w)) (A0 : OptDse.DAnal) (pre : List (Instr w)),
    KOk tI tA c.conts body subs A0 ∧ body = pre ++ c.cur

theorem posInv_init (b : Block w) (tA : OptAnalysis w) (bud : Nat) (env : Env) :
    PosInv b.insts tA (C01Dse.initCfg b bud env) :=
  ⟨b.insts, tA.subBlocks, tA.toDAnal, [], .nil, rfl⟩

theorem posInv_step {tI : List (Instr w)} {tA : OptAnalysis w} (hs : ShapeL tI tA.subBlocks) {lim : Bool}
    {c c1 : Cfg w} (h : PosInv tI tA c) (hst : Ir.step lim c = .next c1) : PosInv tI tA c1 := by
  obtain ⟨cur, ks, bud, σ⟩ := c
  obtain ⟨body, subs, A0, pre, hk, hb⟩ := h
  simp only at hk hb
  cases cur with
  | nil =>
    cases ks with
    | nil => simp [Ir.step] at hst
    | cons k ks =>
      cases k with
      | loopEnd cond shift lbody rest =>
        simp only [Ir.step] at hst
        split at hst
        · cases hst
        · split at hst
          · cases hst
            exact ⟨body, subs, A0, [], hk, by cases hk; rfl⟩
          · cases hst
            cases hk with
            | @loopEnd _ pbody psubs PA pre' _ _ _ _ once a hk' hpb _ _ =>
              exact ⟨pbody, psubs, PA, pre' ++ [.loop cond shift body once], hk', by simp [hpb]⟩
      | ifEnd shift rest =>
        simp only [Ir.step] at hst
        split at hst
        · cases hst
        · cases hst
          cases hk with
          | @ifEnd _ pbody psubs PA pre' _ _ cond _ a hk' hpb _ _ =>
            exact ⟨pbody, psubs, PA, pre' ++ [.ifnz cond shift body], hk', by simp [hpb]⟩
  | cons i cur =>
    cases i with
    | output src =>
      simp only [Ir.step] at hst
      split at hst
      · cases hst; exact ⟨body, subs, A0, pre ++ [.output src], hk, by simp [hb]⟩
      · cases hst
    | input dst =>
      simp only [Ir.step] at hst
      split at hst
      · cases hst; exact ⟨body, subs, A0, pre ++ [.input dst], hk, by simp [hb]⟩
      · cases hst
    | «calc» calcs =>
      simp only [Ir.step] at hst
      cases hst
      exact ⟨body, subs, A0, pre ++ [.calc calcs], hk, by simp [hb]⟩
    | loop cond shift lbody once =>
      simp only [Ir.step] at hst
      split at hst
      · cases hst
        obtain ⟨a, hi, hsub⟩ := hk.enter hs hb (i := .loop cond shift lbody once) rfl
        exact ⟨lbody, a.subBlocks, a.toDAnal, [], .loopEnd hk hb hi hsub, rfl⟩
      · cases hst
        exact ⟨body, subs, A0, pre ++ [.loop cond shift lbody once], hk, by simp [hb]⟩
    | ifnz cond shift lbody =>
      simp only [Ir.step] at hst
      split at hst
      · cases hst
        obtain ⟨a, hi, hsub⟩ := hk.enter hs hb (i := .ifnz cond shift lbody) rfl
        exact ⟨lbody, a.subBlocks, a.toDAnal, [], .ifEnd hk hb hi hsub, rfl⟩
      · cases hst
        exact ⟨body, subs, A0, pre ++ [.ifnz cond shift lbody], hk, by simp [hb]⟩

/-- every reachable configuration satisfies the position invariant -/
theorem posInv_of_reach {b : Block w} {anal : OptAnalysis w} (hs : ShapeL b.insts anal.subBlocks)
    {lim : Bool} {bud : Nat} {env : Env} {c : Cfg w} (h : C01Dse.Reach lim bud b env c) :
    PosInv b.insts anal c := by
  obtain ⟨f, hf⟩ := h
  exact C01Dse.cfgAt_inv (PosInv b.insts anal) (fun _ _ hp hst => posInv_step hs hp hst)
    (posInv_init b anal bud env) hf

/-- (1) `at_least_once` -/
theorem atLeastFact_of_shape {b : Block w} {anal : OptAnalysis w} {env : Env}
    (hs : ShapeL b.insts anal.subBlocks) (ho : C02Emit.OnceOk b env) :
    C01Dse.AtLeastFact false 0 b anal.toDAnal env := by
  intro c hr i rest cond shift lbody A0' A1 hcur hparts hanal hsub hal
  obtain ⟨body, subs, A0, pre, hk, hb⟩ := posInv_of_reach hs hr
  rw [hk.analOf] at hanal
  cases hanal
  rw [hcur] at hb
  obtain ⟨a, hi, hsub'⟩ := hk.enter hs hb hparts
  rw [hsub'] at hsub
  cases hsub
  rw [toDAnal_atLeastOnce] at hal
  cases i with
  | output _ => simp [C01Dse.blockParts] at hparts
  | input _ => simp [C01Dse.blockParts] at hparts
  | «calc» _ => simp [C01Dse.blockParts] at hparts
  | ifnz c' sh' b' =>
    rw [(shapeI_ifnz hi).1] at hal
    cases hal
  | loop c' sh' b' once =>
    simp only [C01Dse.blockParts, Option.some.injEq, Prod.mk.injEq] at hparts
    obtain ⟨rfl, rfl, rfl⟩ := hparts
    have honce : once = true := (shapeI_loop hi).1.trans hal
    subst honce
    obtain ⟨f, hf⟩ := hr
    exact ho f c (runCfg_outOfFuel_iff.2 hf) _ _ _ _ hcur

/-- (2) `at_most_once` (vacuous: the node of a `loop` never has `atMostOnce = true`) -/
theorem atMostFact_of_shape {b : Block w} {anal : OptAnalysis w} {env : Env}
    (hs : ShapeL b.insts anal.subBlocks) : C01Dse.AtMostFact false 0 b anal.toDAnal env := by
  intro c hr cond shift lbody rest ks A0' _ hconts hanal ham
  obtain ⟨body, subs, A0, pre, hk, _⟩ := posInv_of_reach hs hr
  rw [hk.analOf] at hanal
  cases hanal
  rw [hconts] at hk
  rw [hk.atMostOnce_loopEnd] at ham
  cases ham

/-! ### one optimizer round -/

theorem optimizeOnce_atLeastFact {b : Block w} {prevAnal : OptAnalysis w} {os os' : Orders} {b' : Block w}
    {anal' : OptAnalysis w} (hr : (optimizeOnce b prevAnal).run os = .ok ((b', anal'), os'))
    (hcl : CanonL b.insts) {env : Env} (ho : C02Emit.OnceOk b' env) :
    C01Dse.AtLeastFact false 0 b' anal'.toDAnal env :=
  atLeastFact_of_shape (optimizeOnce_shape hr hcl) ho

theorem optimizeOnce_atMostFact {b : Block w} {prevAnal : OptAnalysis w} {os os' : Orders} {b' : Block w}
    {anal' : OptAnalysis w} (hr : (optimizeOnce b prevAnal).run os = .ok ((b', anal'), os'))
    (hcl : CanonL b.insts) (env : Env) : C01Dse.AtMostFact false 0 b' anal'.toDAnal env :=
  atMostFact_of_shape (optimizeOnce_shape hr hcl)

/-! ### axioms -/

#print axioms posInv_of_reach
#print axioms atLeastFact_of_shape
#print axioms atMostFact_of_shape
#print axioms optimizeOnce_atLeastFact
#print axioms optimizeOnce_atMostFact

end OptProof
end Hpbf
