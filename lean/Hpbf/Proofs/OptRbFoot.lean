/-
Rebuild-round proofs: the FOOTPRINT invariants (`OptRbFootDefs.lean`) are maintained by every primitive used for
straight-line code.  Part 1: `read`, calc-only steps (`CalcFoot`, `CalcFrame`, `EmitFoot`), `emitGroup`,
`emitStructured`, `gatherForEmit`+`emitStructured`, `emit` and the loops built from it, `performAll`.
(`clobber`, the non-loop arms of `rebuildInstr` and straight-line lists are in `OptRbFoot2.lean`.)
-/
import Hpbf.Proofs.OptRbFootDefs
import Hpbf.Proofs.OptRbStraight

namespace Hpbf
namespace OptProof
open Opt OptSem Ir

variable {w : Nat}

/-! ### `DefW`, `Rest` depend on `written` only -/

theorem DefW.congr {s s' : Rebuild w} (h : s'.written = s.written) (v : Int) : DefW s' v ↔ DefW s v := by
  unfold DefW; rw [h]

theorem DefW.of_get_eq {s s' : Rebuild w} {v : Int} (h : mGet s'.written v = mGet s.written v) :
    DefW s' v ↔ DefW s v := by
  unfold DefW; rw [h]

theorem not_defW_of_none {s : Rebuild w} {v : Int} (h : mGet s.written v = none) : ¬ DefW s v := by
  rintro ⟨k, hk, _⟩; rw [h] at hk; cases hk

theorem Rest.congr {s s' : Rebuild w} (h : s'.written = s.written) (K : Int → Prop) (v : Int) :
    Rest K s' v ↔ Rest K s v := by
  unfold Rest; rw [DefW.congr h]

theorem AgreeOff.congr {K K' : Int → Prop} {σ1 σ2 : State w} (h : AgreeOff K σ1 σ2) (hK : ∀ v, K v ↔ K' v) :
    AgreeOff K' σ1 σ2 := h.mono (fun v hv => (hK v).1 hv)

/-! ### `read` -/

theorem mem_reads_read (s : Rebuild w) (var x : Int) :
    x ∈ (Opt.read s var).reads ↔ x ∈ s.reads ∨ (x = var ∧ ¬ DefW s var) := by
  unfold Opt.read DefW
  cases hg : mGet s.written var with
  | none =>
    simp only [mem_sIns]
    constructor
    · rintro (h | h)
      · exact Or.inr ⟨h, by rintro ⟨k, hk, _⟩; cases hk⟩
      · exact Or.inl h
    · rintro (h | ⟨h, _⟩)
      · exact Or.inr h
      · exact Or.inl h
  | some k =>
    cases k with
    | maybe =>
      simp only [mem_sIns]
      constructor
      · rintro (h | h)
        · refine Or.inr ⟨h, ?_⟩
          rintro ⟨k, hk, hm⟩
          cases hk; cases hm
        · exact Or.inl h
      · rintro (h | ⟨h, _⟩)
        · exact Or.inr h
        · exact Or.inl h
    | known e =>
      simp only
      constructor
      · exact fun h => Or.inl h
      · rintro (h | ⟨_, h⟩)
        · exact h
        · exact absurd ⟨_, rfl, rfl⟩ h
    | unknown =>
      simp only
      constructor
      · exact fun h => Or.inl h
      · rintro (h | ⟨_, h⟩)
        · exact h
        · exact absurd ⟨_, rfl, rfl⟩ h

theorem read_readsMono (s : Rebuild w) (var : Int) : ReadsMono s (Opt.read s var) :=
  ⟨fun v h => (mem_reads_read s var v).2 (Or.inl h), fun h => by rw [← (read_same s var).2.2.2.2.1]; exact h⟩

theorem mem_reads_foldl_read (s : Rebuild w) (vs : List Int) (x : Int) :
    x ∈ (vs.foldl Opt.read s).reads ↔ x ∈ s.reads ∨ (x ∈ vs ∧ ¬ DefW s x) := by
  induction vs generalizing s with
  | nil => simp
  | cons v vs ih =>
    simp only [List.foldl_cons]
    rw [ih, mem_reads_read, DefW.congr (read_same s v).2.2.2.2.2.2.1]
    simp only [List.mem_cons]
    constructor
    · rintro ((h | ⟨h, h'⟩) | ⟨h, h'⟩)
      · exact Or.inl h
      · subst h; exact Or.inr ⟨Or.inl rfl, h'⟩
      · exact Or.inr ⟨Or.inr h, h'⟩
    · rintro (h | ⟨h | h, h'⟩)
      · exact Or.inl (Or.inl h)
      · subst h; exact Or.inl (Or.inr ⟨rfl, h'⟩)
      · exact Or.inr ⟨h, h'⟩

theorem mem_reads_readGroup (s : Rebuild w) (calcs : List (Int × Expr w)) (x : Int) :
    x ∈ (readGroup s calcs).reads ↔
      x ∈ s.reads ∨ ((∃ vc ∈ calcs, x ∈ Expr.variables vc.2) ∧ ¬ DefW s x) := by
  unfold readGroup
  induction calcs generalizing s with
  | nil => simp
  | cons vc calcs ih =>
    simp only [List.foldl_cons]
    rw [ih, mem_reads_foldl_read, DefW.congr (foldl_read_same s _).2.2.2.2.2.2.1]
    simp only [List.mem_cons, exists_eq_or_imp]
    constructor
    · rintro ((h | ⟨h, h'⟩) | ⟨h, h'⟩)
      · exact Or.inl h
      · exact Or.inr ⟨Or.inl h, h'⟩
      · exact Or.inr ⟨Or.inr h, h'⟩
    · rintro (h | ⟨h | h, h'⟩)
      · exact Or.inl (Or.inl h)
      · exact Or.inl (Or.inr ⟨h, h'⟩)
      · exact Or.inr ⟨h, h'⟩

/-- Every variable of every right-hand side is either recorded in `reads` or definitely written before; `reads`
only grows. -/
theorem readGroup_reads (s : Rebuild w) (calcs : List (Int × Expr w)) :
    (∀ vc ∈ calcs, ∀ x ∈ Expr.variables vc.2, x ∈ (readGroup s calcs).reads ∨ DefW s x) ∧
    (∀ x, x ∈ s.reads → x ∈ (readGroup s calcs).reads) := by
  refine ⟨?_, fun x hx => (mem_reads_readGroup s calcs x).2 (Or.inl hx)⟩
  intro vc hvc x hx
  by_cases hd : DefW s x
  · exact Or.inr hd
  · exact Or.inl ((mem_reads_readGroup s calcs x).2 (Or.inr ⟨⟨vc, hvc, hx⟩, hd⟩))

/-! ### calc-only steps -/

/-- calc-only step, functionally -/
def CalcFoot (s s' : Rebuild w) (comps : List (List (Int × Expr w))) : Prop :=
  s'.subShift = false → ∀ (K : Int → Prop), (∀ v, K v → v ∉ s'.reads) → ∀ σ1 σ2 : State w,
    AgreeOff (Rest K s) σ1 σ2 → AgreeOff (Rest K s') (comps.foldl doCalc σ1) (comps.foldl doCalc σ2)

theorem CalcFoot.footStep {s s' : Rebuild w} {comps : List (List (Int × Expr w))} (h : CalcFoot s s' comps) :
    FootStep s s' (comps.map Instr.calc) := by
  intro hs K hK σ1 σ2 hag
  obtain ⟨m1, m2, m3⟩ := foldl_doCalc_meta comps σ1
  obtain ⟨n1, n2, n3⟩ := foldl_doCalc_meta comps σ2
  refine Sim.of_atomic (atomic_calcs comps) (atomic_calcs comps) hag.2.2.1.symm rfl ?_ ?_ ?_
  · show (comps.foldl doCalc σ2).trace = (comps.foldl doCalc σ1).trace
    rw [m3, n3]; exact hag.2.2.1.symm
  · show (comps.foldl doCalc σ2).env = (comps.foldl doCalc σ1).env
    rw [m2, n2]; exact hag.2.1.symm
  · intro _
    exact h hs K hK σ1 σ2 hag

theorem CalcFoot.refl (s : Rebuild w) : CalcFoot s s [] := fun _ _ _ _ _ h => h

theorem CalcFoot.trans {a b c : Rebuild w} {c1 c2 : List (List (Int × Expr w))} (h1 : CalcFoot a b c1)
    (h2 : CalcFoot b c c2) (hm : ReadsMono b c) : CalcFoot a c (c1 ++ c2) := by
  intro hs K hK σ1 σ2 hag
  rw [List.foldl_append, List.foldl_append]
  exact h2 hs K hK _ _ (h1 (hm.2 hs) K (fun v hv hr => hK v hv (hm.1 v hr)) σ1 σ2 hag)

def CalcFrame (s s' : Rebuild w) (comps : List (List (Int × Expr w))) : Prop :=
  s'.subShift = false →
    (∀ v, mGet s'.written v = none → mGet s.written v = none) ∧
    ∀ v, mGet s'.written v = none → ∀ g ∈ comps, v ∉ g.map (·.1)

theorem seq_of_notin (comps : List (List (Int × Expr w))) (m : Mem w) (v : Int)
    (h : ∀ g ∈ comps, v ∉ g.map (·.1)) : Mem.seq comps m v = m v := by
  induction comps generalizing m with
  | nil => rfl
  | cons g gs ih =>
    rw [seq_cons, ih _ (fun g' hg' => h g' (List.mem_cons_of_mem _ hg')), par_of_notin (h g (by simp))]

theorem exec_calcs_fin {comps : List (List (Int × Expr w))} {σ σ' : State w}
    (h : Exec (comps.map Instr.calc) σ (.fin σ')) : σ' = comps.foldl doCalc σ := by
  rcases (atomic_calcs comps σ _).1 h with h | ⟨_, h | h⟩ | ⟨_, h⟩
  · cases h
  · cases h; rfl
  · cases h
  · cases h

theorem CalcFrame.frameStep {s s' : Rebuild w} {comps : List (List (Int × Expr w))}
    (hnd : ∀ g ∈ comps, (g.map (·.1)).Nodup) (h : CalcFrame s s' comps) :
    FrameStep s s' (comps.map Instr.calc) := by
  intro hs
  obtain ⟨h1, h2⟩ := h hs
  refine ⟨h1, ?_⟩
  intro σ σ' hex
  rw [exec_calcs_fin hex]
  refine ⟨(foldl_doCalc_meta comps σ).1, ?_⟩
  intro v hv
  rw [memE_foldl_doCalc σ comps hnd]
  exact seq_of_notin comps _ v (h2 v hv)

theorem CalcFrame.refl (s : Rebuild w) : CalcFrame s s [] :=
  fun _ => ⟨fun _ h => h, fun _ _ g hg => by cases hg⟩

theorem CalcFrame.trans {a b c : Rebuild w} {c1 c2 : List (List (Int × Expr w))} (h1 : CalcFrame a b c1)
    (h2 : CalcFrame b c c2) (hm : ReadsMono b c) : CalcFrame a c (c1 ++ c2) := by
  intro hs
  obtain ⟨w2, f2⟩ := h2 hs
  obtain ⟨w1, f1⟩ := h1 (hm.2 hs)
  refine ⟨fun v h => w1 v (w2 v h), ?_⟩
  intro v hv g hg
  rcases List.mem_append.1 hg with h | h
  · exact f1 v (w2 v hv) g h
  · exact f2 v hv g h

/-! ### `EmitFoot` -/

structure EmitFoot (s s' : Rebuild w) (comps : List (List (Int × Expr w))) : Prop where
  foot : CalcFoot s s' comps
  frame : CalcFrame s s' comps
  mono : ReadsMono s s'

theorem EmitFoot.refl (s : Rebuild w) : EmitFoot s s [] :=
  ⟨CalcFoot.refl s, CalcFrame.refl s, ReadsMono.refl s⟩

theorem EmitFoot.trans {a b c : Rebuild w} {c1 c2 : List (List (Int × Expr w))} (h1 : EmitFoot a b c1)
    (h2 : EmitFoot b c c2) : EmitFoot a c (c1 ++ c2) :=
  ⟨h1.foot.trans h2.foot h2.mono, h1.frame.trans h2.frame h2.mono, h1.mono.trans h2.mono⟩

/-- Only `written`, `reads`, `subShift` of the start state matter. -/
theorem EmitFoot.congr_left {s s0 s' : Rebuild w} {comps : List (List (Int × Expr w))}
    (hw : s0.written = s.written) (hr : s0.reads = s.reads) (hs : s0.subShift = s.subShift)
    (h : EmitFoot s0 s' comps) : EmitFoot s s' comps := by
  refine ⟨?_, ?_, ?_⟩
  · intro hss K hK σ1 σ2 hag
    exact h.foot hss K hK σ1 σ2 (hag.congr (fun v => (Rest.congr hw K v).symm))
  · intro hss
    obtain ⟨a, b⟩ := h.frame hss
    exact ⟨fun v hv => by rw [← hw]; exact a v hv, b⟩
  · exact ⟨fun v hv => h.mono.1 v (by rw [hr]; exact hv), fun hss => by rw [← hs]; exact h.mono.2 hss⟩

/-- Only `written`, `reads`, `subShift` of the end state matter; `reads` may grow. -/
theorem EmitFoot.congr_right {s s1 s' : Rebuild w} {comps : List (List (Int × Expr w))}
    (hw : s'.written = s1.written) (hr : ∀ v, v ∈ s1.reads → v ∈ s'.reads) (hs : s'.subShift = s1.subShift)
    (h : EmitFoot s s1 comps) : EmitFoot s s' comps := by
  refine ⟨?_, ?_, ?_⟩
  · intro hss K hK σ1 σ2 hag
    have := h.foot (by rw [← hs]; exact hss) K (fun v hv hr' => hK v hv (hr v hr')) σ1 σ2 hag
    exact this.congr (fun v => (Rest.congr hw K v).symm)
  · intro hss
    obtain ⟨a, b⟩ := h.frame (by rw [← hs]; exact hss)
    exact ⟨fun v hv => a v (by rw [← hw]; exact hv), fun v hv => b v (by rw [← hw]; exact hv)⟩
  · exact ⟨fun v hv => hr v (h.mono.1 v hv), fun hss => h.mono.2 (by rw [← hs]; exact hss)⟩

theorem EmitFoot.of_sameButPend_left {s s0 s' : Rebuild w} {comps : List (List (Int × Expr w))}
    (hp : SameButPend s s0) (h : EmitFoot s0 s' comps) : EmitFoot s s' comps :=
  h.congr_left hp.2.2.2.2.2.2.2.1 hp.2.2.2.2.2.2.1 hp.2.2.2.2.1

theorem EmitFoot.of_sameButPend_right {s s1 s' : Rebuild w} {comps : List (List (Int × Expr w))}
    (h : EmitFoot s s1 comps) (hp : SameButPend s1 s') : EmitFoot s s' comps :=
  h.congr_right hp.2.2.2.2.2.2.2.1 (fun v hv => by rw [hp.2.2.2.2.2.2.1]; exact hv) hp.2.2.2.2.1

theorem EmitFoot.of_sameButReads_right {s s1 s' : Rebuild w} {comps : List (List (Int × Expr w))}
    (h : EmitFoot s s1 comps) (hp : SameButReads s1 s') (hr : ∀ v, v ∈ s1.reads → v ∈ s'.reads) :
    EmitFoot s s' comps :=
  h.congr_right hp.2.2.2.2.2.2.1 hr hp.2.2.2.2.1

/-! ### `emitGroup`, `emitStructured` -/

theorem emitGroup_reads (ps : List (Rebuild w)) (s : Rebuild w) (g : List (Int × Expr w)) :
    (emitGroup ps s g).reads = (readGroup s g).reads :=
  (writtenCalcs_eq (readGroup s g) ps g).2.1

theorem knownOf_not_maybe (s : Rebuild w) (ps : List (Rebuild w)) (e : Expr w) :
    (knownOf s ps e).isMaybe = false := by
  unfold knownOf
  split
  · split <;> rfl
  · rfl

theorem emitGroup_defW {s : Rebuild w} (hwf : Wf s) (ps : List (Rebuild w)) (g : List (Int × Expr w))
    (hnd : (g.map (·.1)).Nodup) (v : Int) :
    DefW (emitGroup ps s g) v ↔ DefW s v ∨ v ∈ g.map (·.1) := by
  by_cases hv : v ∈ g.map (·.1)
  · obtain ⟨vc, hvc, rfl⟩ := List.mem_map.1 hv
    constructor
    · exact fun _ => Or.inr hv
    · intro _
      exact ⟨_, emitGroup_written_target ps g hnd hvc, knownOf_not_maybe _ _ _⟩
  · rw [DefW.of_get_eq ((emitGroup_struct hwf ps g).2.2.2 v hv)]
    constructor
    · exact Or.inl
    · rintro (h | h)
      · exact h
      · exact absurd h hv

theorem emitGroup_foot {s : Rebuild w} (hwf : Wf s) (ps : List (Rebuild w)) (g : List (Int × Expr w))
    (hnd : (g.map (·.1)).Nodup) :
    CalcFoot s (emitGroup ps s g) [g] ∧ CalcFrame s (emitGroup ps s g) [g] ∧
    ReadsMono s (emitGroup ps s g) := by
  obtain ⟨_, _, hse, hoff⟩ := emitGroup_struct hwf ps g
  obtain ⟨hrd, hrmono⟩ := readGroup_reads s g
  refine ⟨?_, ?_, ?_⟩
  · intro _ K hK σ1 σ2 hag
    simp only [List.foldl_cons, List.foldl_nil]
    obtain ⟨m1, m2, m3⟩ := C01Dse.doCalc_meta σ1 g
    obtain ⟨n1, n2, n3⟩ := C01Dse.doCalc_meta σ2 g
    refine ⟨by rw [m1, n1]; exact hag.1, by rw [m2, n2]; exact hag.2.1, by rw [m3, n3]; exact hag.2.2.1, ?_⟩
    intro v hv
    rw [memE_doCalc σ1 g hnd, memE_doCalc σ2 g hnd]
    by_cases hvt : v ∈ g.map (·.1)
    · obtain ⟨vc, hvc, rfl⟩ := List.mem_map.1 hvt
      rw [par_of_mem hnd (show (vc.1, vc.2) ∈ g from hvc), par_of_mem hnd (show (vc.1, vc.2) ∈ g from hvc)]
      apply ev_congr
      intro x hx
      apply hag.2.2.2 x
      rintro ⟨hkx, hnx⟩
      rcases hrd vc hvc x hx with h | h
      · exact hK x hkx (by rw [emitGroup_reads]; exact h)
      · exact hnx h
    · rw [par_of_notin hvt, par_of_notin hvt]
      apply hag.2.2.2 v
      rintro ⟨hkv, hnv⟩
      exact hv ⟨hkv, fun hd => hnv ((DefW.of_get_eq (hoff v hvt)).1 hd)⟩
  · intro _
    have key : ∀ v, mGet (emitGroup ps s g).written v = none → v ∉ g.map (·.1) := by
      intro v hv hvt
      obtain ⟨vc, hvc, rfl⟩ := List.mem_map.1 hvt
      rw [emitGroup_written_target ps g hnd hvc] at hv
      cases hv
    refine ⟨?_, ?_⟩
    · intro v hv
      rw [← hoff v (key v hv)]; exact hv
    · intro v hv g' hg'
      simp only [List.mem_singleton] at hg'
      subst hg'
      exact key v hv
  · refine ⟨fun v hv => by rw [emitGroup_reads]; exact hrmono v hv, fun h => ?_⟩
    rw [← hse.2.2.2.2.1]; exact h

theorem emitStructured_foot {s : Rebuild w} (hwf : Wf s) (ps : List (Rebuild w))
    (toEmit : List (List (Int × Expr w))) (hnd : ∀ g ∈ toEmit, (g.map (·.1)).Nodup) :
    EmitFoot s (emitStructured s ps toEmit) toEmit := by
  rw [emitStructured_eq]
  induction toEmit generalizing s with
  | nil => exact EmitFoot.refl s
  | cons g toEmit ih =>
    obtain ⟨a, b, c⟩ := emitGroup_foot hwf ps g (hnd g (by simp))
    have h1 : EmitFoot s (emitGroup ps s g) [g] := ⟨a, b, c⟩
    have h2 := ih (emitGroup_struct hwf ps g).1 (fun g' hg' => hnd g' (by simp [hg']))
    simp only [List.foldl_cons]
    exact h1.trans h2

/-- What is definitely written after an emission. -/
theorem emitStructured_defW {s : Rebuild w} (hwf : Wf s) (ps : List (Rebuild w))
    (toEmit : List (List (Int × Expr w))) (hnd : ∀ g ∈ toEmit, (g.map (·.1)).Nodup) (v : Int) :
    DefW (emitStructured s ps toEmit) v ↔ DefW s v ∨ ∃ g ∈ toEmit, v ∈ g.map (·.1) := by
  rw [emitStructured_eq]
  induction toEmit generalizing s with
  | nil => simp
  | cons g toEmit ih =>
    simp only [List.foldl_cons]
    rw [ih (emitGroup_struct hwf ps g).1 (fun g' hg' => hnd g' (by simp [hg'])),
      emitGroup_defW hwf ps g (hnd g (by simp))]
    simp only [List.mem_cons, exists_eq_or_imp]
    exact or_assoc

/-! ### `gatherForEmit` + `emitStructured`, `emit` and the loops built from it -/

theorem gatherEmit_foot {s : Rebuild w} (ps : List (Rebuild w)) (hwf : Wf s) (var : Int) {os os' : Orders}
    {s1 : Rebuild w} {toEmit : List (List (Int × Expr w))}
    (hr : (gatherForEmit s [var]).run os = .ok ((s1, toEmit), os')) :
    EmitFoot s (emitStructured s1 ps toEmit) toEmit := by
  obtain ⟨g1, g2, _, _, _, g6, _⟩ := gatherForEmit_spec hwf var hr
  exact (emitStructured_foot g1 ps toEmit (fun g hg => (g6 g hg).1)).of_sameButPend_left g2

/-- An emission step together with its footprint (THE SAME `comps`). -/
def EmitBoth (ps : List (Rebuild w)) (s s' : Rebuild w) (comps : List (List (Int × Expr w))) : Prop :=
  EmitRes ps s s' comps ∧ EmitFoot s s' comps

theorem EmitBoth.refl (ps : List (Rebuild w)) {s : Rebuild w} (h : Wf s) : EmitBoth ps s s [] :=
  ⟨EmitRes.refl ps h, EmitFoot.refl s⟩

theorem EmitBoth.trans {ps : List (Rebuild w)} {a b c : Rebuild w} {c1 c2 : List (List (Int × Expr w))}
    (h1 : EmitBoth ps a b c1) (h2 : EmitBoth ps b c c2) : EmitBoth ps a c (c1 ++ c2) :=
  ⟨h1.1.trans h2.1, h1.2.trans h2.2⟩

theorem emit_foot {s : Rebuild w} (ps : List (Rebuild w)) (hwf : Wf s) (var : Int) {os os' : Orders}
    {s' : Rebuild w} (hr : (emit s ps var).run os = .ok (s', os')) :
    ∃ comps, EmitRes ps s s' comps ∧ EmitFoot s s' comps := by
  unfold emit at hr
  split at hr
  · rw [run_bind_ok] at hr
    obtain ⟨⟨s1, toEmit⟩, os1, h1, h2⟩ := hr
    rw [run_pure] at h2
    cases h2
    exact ⟨toEmit, (gatherEmit_res ps hwf var h1).1, gatherEmit_foot ps hwf var h1⟩
  · rw [run_pure] at hr
    cases hr
    exact ⟨[], EmitBoth.refl ps hwf⟩

/-- A `foldlM` all of whose steps are emission steps with footprint is one. -/
theorem foldlM_emitFoot {γ : Type} (ps : List (Rebuild w)) (f : Rebuild w → γ → M (Rebuild w)) (l : List γ)
    (hstep : ∀ s x os s' os', x ∈ l → Wf s → (f s x).run os = .ok (s', os') →
      ∃ comps, EmitRes ps s s' comps ∧ EmitFoot s s' comps)
    {s : Rebuild w} {os : Orders} {s' : Rebuild w} {os' : Orders} (hwf : Wf s)
    (hr : (l.foldlM f s).run os = .ok (s', os')) :
    ∃ comps, EmitRes ps s s' comps ∧ EmitFoot s s' comps := by
  induction l generalizing s os with
  | nil =>
    rw [List.foldlM_nil, run_pure] at hr
    cases hr; exact ⟨[], EmitBoth.refl ps hwf⟩
  | cons x l ih =>
    rw [List.foldlM_cons, run_bind_ok] at hr
    obtain ⟨s1, os1, h1, h2⟩ := hr
    obtain ⟨c1, r1⟩ := hstep s x os s1 os1 (by simp) hwf h1
    obtain ⟨c2, r2⟩ := ih (fun s x os s' os' hx => hstep s x os s' os' (List.mem_cons_of_mem _ hx)) r1.1.wf h2
    exact ⟨c1 ++ c2, EmitBoth.trans r1 r2⟩

theorem explosionVars_foot (ps : List (Rebuild w)) (vars : List Int) (last : Option Int) {s : Rebuild w}
    (hwf : Wf s) {os os' : Orders} {s' : Rebuild w}
    (hr : (explosionVars ps vars last s).run os = .ok (s', os')) :
    ∃ comps, EmitRes ps s s' comps ∧ EmitFoot s s' comps := by
  induction vars generalizing s os last with
  | nil =>
    rw [explosionVars, run_pure] at hr
    cases hr; exact ⟨[], EmitBoth.refl ps hwf⟩
  | cons var rest ih =>
    rw [explosionVars] at hr
    have hskip : ∀ {os : Orders}, ((do let s ← pure s; (fun s => explosionVars ps rest (some var) s) s) :
        M (Rebuild w)).run os = .ok (s', os') → ∃ comps, EmitRes ps s s' comps ∧ EmitFoot s s' comps := by
      intro os h
      rw [run_bind_ok] at h
      obtain ⟨s1, os1, h1, h2⟩ := h
      rw [run_pure] at h1; cases h1
      exact ih (some var) hwf h2
    split at hr
    · split at hr
      · rw [run_bind_ok] at hr
        obtain ⟨s1, os1, h1, h2⟩ := hr
        obtain ⟨c1, r1⟩ := emit_foot ps hwf var h1
        obtain ⟨c2, r2⟩ := ih (some var) r1.1.wf h2
        exact ⟨c1 ++ c2, EmitBoth.trans r1 r2⟩
      · exact hskip hr
    · exact hskip hr

theorem performCheck_foot (ps : List (Rebuild w)) (calcs : List (Int × Expr w)) {s : Rebuild w}
    (hwf : Wf s) {os os' : Orders} {s' : Rebuild w}
    (hr : (performCheck s ps calcs).run os = .ok (s', os')) :
    ∃ comps, EmitRes ps s s' comps ∧ EmitFoot s s' comps := by
  unfold performCheck at hr
  refine foldlM_emitFoot ps _ calcs ?_ hwf hr
  intro s vc os s' os' _ hwf' h
  refine foldlM_emitFoot ps _ (groupedVars vc.2) ?_ hwf' h
  intro s vars os s' os' _ hwf'' h'
  split at h'
  · exact explosionVars_foot ps vars none hwf'' h'
  · rw [run_pure] at h'; cases h'; exact ⟨[], EmitBoth.refl ps hwf''⟩

theorem emitAll_foot (ps : List (Rebuild w)) (vars : List Int) {s : Rebuild w}
    (hwf : Wf s) {os os' : Orders} {s' : Rebuild w}
    (hr : (emitAll ps vars s).run os = .ok (s', os')) :
    ∃ comps, EmitRes ps s s' comps ∧ EmitFoot s s' comps := by
  unfold emitAll at hr
  refine foldlM_emitFoot ps _ vars ?_ hwf hr
  intro s var os s' os' _ hwf' h
  exact emit_foot ps hwf' var h

/-- `EmitRes` says nothing about `reads`. -/
theorem EmitRes.of_sameButReads {ps : List (Rebuild w)} {s s1 s2 : Rebuild w}
    {comps : List (List (Int × Expr w))} (h : EmitRes ps s s1 comps) (hp : SameButReads s1 s2) :
    EmitRes ps s s2 comps := by
  obtain ⟨p1, p2, p3, p4, p5, p6, p7, p8, p9, p10, p11⟩ := hp
  refine ⟨SameButReads.wf ⟨p1, p2, p3, p4, p5, p6, p7, p8, p9, p10, p11⟩ h.wf, by rw [p10]; exact h.insts,
    h.nodup, h.hdr.trans ⟨p1, p2, p3, p4, p5⟩, by rw [p6]; exact h.noRet, by rw [p11]; exact h.subAnal,
    by rw [p8]; exact h.sub, h.tgt, by rw [p8]; exact h.gone, by rw [p7]; exact h.wr,
    by rw [p8]; exact h.par, ?_⟩
  intro M0 E hw hk
  exact (h.writ M0 E hw hk).of_written_eq p7

theorem emitReadAll_foot (ps : List (Rebuild w)) (vars : List Int) {s : Rebuild w}
    (hwf : Wf s) {os os' : Orders} {s' : Rebuild w}
    (hr : (emitReadAll ps vars s).run os = .ok (s', os')) :
    ∃ comps, EmitRes ps s s' comps ∧ EmitFoot s s' comps := by
  unfold emitReadAll at hr
  refine foldlM_emitFoot ps _ vars ?_ hwf hr
  intro s var os s' os' _ hwf' h
  rw [run_bind_ok] at h
  obtain ⟨s1, os1, h1, h2⟩ := h
  rw [run_pure] at h2
  cases h2
  obtain ⟨c, r, f⟩ := emit_foot ps hwf' var h1
  exact ⟨c, r.of_sameButReads (read_same s1 var),
    f.of_sameButReads_right (read_same s1 var) (read_readsMono s1 var).1⟩

/-! ### `performAll` -/

/-- `performAll` with the intermediate state after the explosion check. -/
theorem performAll_foot' {s : Rebuild w} {ps : List (Rebuild w)} {shift : Int} {calcs : List (Int × Expr w)}
    {os os' : Orders} {s' : Rebuild w}
    (hr : (performAll s ps shift calcs).run os = .ok (s', os')) (hwf : Wf s) :
    ∃ comps s1, EmitRes ps s s1 comps ∧ Wf s' ∧ SameButPend s1 s' ∧
      s'.insts = s.insts ++ comps.map Instr.calc ∧ (∀ g ∈ comps, (g.map (·.1)).Nodup) ∧
      EmitFoot s s' comps := by
  rw [performAll_eq, run_bind_ok] at hr
  obtain ⟨s1, os1, h1, h2⟩ := hr
  rw [run_bind_ok] at h2
  obtain ⟨exprs, os2, h3, h4⟩ := h2
  rw [run_pure] at h4
  cases h4
  obtain ⟨comps, r, f⟩ := performCheck_foot ps calcs hwf h1
  obtain ⟨hw', hsame⟩ := foldl_insertPending_wf r.wf ps exprs
  refine ⟨comps, s1, r, hw', hsame, ?_, r.nodup, f.of_sameButPend_right hsame⟩
  rw [hsame.2.2.2.2.2.2.2.2.1, r.insts]

theorem performAll_foot {s : Rebuild w} {ps : List (Rebuild w)} {shift : Int} {calcs : List (Int × Expr w)}
    {os os' : Orders} {s' : Rebuild w}
    (hr : (performAll s ps shift calcs).run os = .ok (s', os')) (hwf : Wf s) :
    ∃ comps, s'.insts = s.insts ++ comps.map Instr.calc ∧ EmitFoot s s' comps := by
  obtain ⟨comps, _, _, _, _, hi, _, hf⟩ := performAll_foot' hr hwf
  exact ⟨comps, hi, hf⟩

end OptProof
end Hpbf
