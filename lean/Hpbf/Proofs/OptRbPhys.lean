/-
Rebuild-round proofs: the PHYSICAL write footprint of emitted code, syntactically.  `tgtL is v`: the instruction
list `is` may write the cell at offset `v` (relative to the pointer at its start; a nested block that moves the
pointer may write anything).  `nsL is`: no nested block moves the pointer.  `phys_frame`: in ANY run of such code
the pointer comes back and the cells outside `tgtL` are untouched.
-/
import Hpbf.Proofs.OptRbFootDefs

namespace Hpbf
namespace OptProof
open Opt OptSem Ir

variable {w : Nat}

mutual
/-- Cells an instruction may write. -/
def tgtI : Instr w → Int → Prop
  | .calc g, v => v ∈ g.map (·.1)
  | .input d, v => v = d
  | .output _, _ => False
  | .loop _ sh body _, v => sh ≠ 0 ∨ tgtL body v
  | .ifnz _ sh body, v => sh ≠ 0 ∨ tgtL body v
def tgtL : List (Instr w) → Int → Prop
  | [], _ => False
  | i :: rest, v => tgtI i v ∨ tgtL rest v
end

mutual
/-- No nested block moves the pointer. -/
def nsI : Instr w → Prop
  | .loop _ sh body _ => sh = 0 ∧ nsL body
  | .ifnz _ sh body => sh = 0 ∧ nsL body
  | _ => True
def nsL : List (Instr w) → Prop
  | [] => True
  | i :: rest => nsI i ∧ nsL rest
end

theorem tgtL_nil (v : Int) : ¬ tgtL ([] : List (Instr w)) v := by simp [tgtL]

theorem tgtL_cons (i : Instr w) (l : List (Instr w)) (v : Int) : tgtL (i :: l) v ↔ tgtI i v ∨ tgtL l v := by
  rw [tgtL]

theorem tgtL_append (a b : List (Instr w)) (v : Int) : tgtL (a ++ b) v ↔ tgtL a v ∨ tgtL b v := by
  induction a with
  | nil => simp [tgtL]
  | cons i a ih => simp only [List.cons_append, tgtL_cons, ih, or_assoc]

theorem nsL_cons (i : Instr w) (l : List (Instr w)) : nsL (i :: l) ↔ nsI i ∧ nsL l := by rw [nsL]

theorem nsL_append (a b : List (Instr w)) : nsL (a ++ b) ↔ nsL a ∧ nsL b := by
  induction a with
  | nil => simp [nsL]
  | cons i a ih => simp only [List.cons_append, nsL_cons, ih, and_assoc]

theorem tgtL_calcs (comps : List (List (Int × Expr w))) (v : Int) :
    tgtL (comps.map Instr.calc) v ↔ ∃ g ∈ comps, v ∈ g.map (·.1) := by
  induction comps with
  | nil => simp [tgtL]
  | cons g comps ih =>
    simp only [List.map_cons, tgtL_cons, ih, tgtI, List.mem_cons, exists_eq_or_imp]

theorem nsL_calcs (comps : List (List (Int × Expr w))) : nsL (comps.map Instr.calc) := by
  induction comps with
  | nil => simp [nsL]
  | cons g comps ih => simp only [List.map_cons, nsL_cons]; exact ⟨by simp [nsI], ih⟩

theorem memE_mov_zero (σ : State w) : memE (σ.mov 0) = memE σ := by
  funext v
  show σ.tape.get (σ.ptr + 0 + v) = σ.tape.get (σ.ptr + v)
  rw [Int.add_zero]

/-- The physical frame of code without pointer movement, for every run. -/
theorem phys_frame {is : List (Instr w)} {σ : State w} {o : Out w} (h : Exec is σ o) :
    ∀ σ', o = .fin σ' → nsL is → σ'.ptr = σ.ptr ∧ ∀ v, ¬ tgtL is v → memE σ' v = memE σ v := by
  induction h with
  | cut _ _ => intro σ' e; cases e
  | nil σ => intro σ' e _; cases e; exact ⟨rfl, fun _ _ => rfl⟩
  | @outOk src rest σ σ1 o h1 _ ih =>
    intro σ' e hns
    rw [nsL_cons] at hns
    obtain ⟨p, m⟩ := ih σ' e hns.2
    have hf := output_fields σ src
    rw [h1] at hf
    refine ⟨p.trans hf.1, fun v hv => ?_⟩
    rw [m v (fun h => hv ((tgtL_cons _ _ _).2 (Or.inr h)))]
    exact congrFun (memE_of_tape_ptr hf.2 hf.1) v
  | outFail _ => intro σ' e; cases e
  | @inOk dst rest σ σ1 o h1 _ ih =>
    intro σ' e hns
    rw [nsL_cons] at hns
    obtain ⟨p, m⟩ := ih σ' e hns.2
    have hp : σ1.ptr = σ.ptr := by
      have := C01Dse.input_ptr σ dst
      rw [h1] at this; exact this
    refine ⟨p.trans hp, fun v hv => ?_⟩
    rw [m v (fun h => hv ((tgtL_cons _ _ _).2 (Or.inr h)))]
    have hvd : v ≠ dst := fun e => hv ((tgtL_cons _ _ _).2 (Or.inl (by simp [tgtI, e])))
    -- the input writes only `dst`
    have hin : ∀ a, a ≠ σ.ptr + dst → σ1.tape.get a = σ.tape.get a := by
      intro a ha
      have : σ1 = (σ.input dst).2 := by rw [h1]
      rw [this]
      unfold State.input
      split
      · show (σ.tape.set (σ.ptr + dst) _).get a = _
        exact Tape.get_set_ne _ _ _ _ ha
      · rfl
      · rfl
    show σ1.tape.get (σ1.ptr + v) = σ.tape.get (σ.ptr + v)
    rw [hp]
    exact hin _ (by omega)
  | inFail _ => intro σ' e; cases e
  | @«calc» calcs rest σ o _ ih =>
    intro σ' e hns
    rw [nsL_cons] at hns
    obtain ⟨p, m⟩ := ih σ' e hns.2
    obtain ⟨d1, _, _⟩ := C01Dse.doCalc_meta σ calcs
    refine ⟨p.trans d1, fun v hv => ?_⟩
    rw [m v (fun h => hv ((tgtL_cons _ _ _).2 (Or.inr h)))]
    show (doCalc σ calcs).tape.get ((doCalc σ calcs).ptr + v) = σ.tape.get (σ.ptr + v)
    rw [d1]
    apply C01Dse.doCalc_get_notin
    intro ve hve e'
    apply hv
    refine (tgtL_cons _ _ _).2 (Or.inl ?_)
    have : ve.1 = v := by omega
    simp only [tgtI]
    exact List.mem_map.2 ⟨ve, hve, this⟩
  | loopSkip _ _ ih =>
    intro σ' e hns
    rw [nsL_cons] at hns
    obtain ⟨p, m⟩ := ih σ' e hns.2
    exact ⟨p, fun v hv => m v (fun h => hv ((tgtL_cons _ _ _).2 (Or.inr h)))⟩
  | @loopIter cond shift body once rest σ σ1 o _ _ _ ih1 ih2 =>
    intro σ' e hns
    have hns' := hns
    rw [nsL_cons] at hns'
    obtain ⟨hsh, hnb⟩ : shift = 0 ∧ nsL body := by
      have := hns'.1; simp only [nsI] at this; exact this
    obtain ⟨p1, m1⟩ := ih1 σ1 rfl hnb
    obtain ⟨p2, m2⟩ := ih2 σ' e hns
    subst hsh
    refine ⟨by rw [p2]; show σ1.ptr + 0 = σ.ptr; rw [Int.add_zero, p1], fun v hv => ?_⟩
    rw [m2 v hv, memE_mov_zero]
    apply m1 v
    intro hb
    exact hv ((tgtL_cons _ _ _).2 (Or.inl (by simp only [tgtI]; exact Or.inr hb)))
  | loopIn _ _ hnf _ =>
    intro σ' e
    rw [e] at hnf; simp [Out.isFin] at hnf
  | ifSkip _ _ ih =>
    intro σ' e hns
    rw [nsL_cons] at hns
    obtain ⟨p, m⟩ := ih σ' e hns.2
    exact ⟨p, fun v hv => m v (fun h => hv ((tgtL_cons _ _ _).2 (Or.inr h)))⟩
  | @ifIter cond shift body rest σ σ1 o _ _ _ ih1 ih2 =>
    intro σ' e hns
    rw [nsL_cons] at hns
    obtain ⟨hsh, hnb⟩ : shift = 0 ∧ nsL body := by
      have := hns.1; simp only [nsI] at this; exact this
    obtain ⟨p1, m1⟩ := ih1 σ1 rfl hnb
    obtain ⟨p2, m2⟩ := ih2 σ' e hns.2
    subst hsh
    refine ⟨by rw [p2]; show σ1.ptr + 0 = σ.ptr; rw [Int.add_zero, p1], fun v hv => ?_⟩
    rw [m2 v (fun h => hv ((tgtL_cons _ _ _).2 (Or.inr h))), memE_mov_zero]
    apply m1 v
    intro hb
    exact hv ((tgtL_cons _ _ _).2 (Or.inl (by simp only [tgtI]; exact Or.inr hb)))
  | ifIn _ _ hnf _ =>
    intro σ' e
    rw [e] at hnf; simp [Out.isFin] at hnf

/-- Every cell the emitted code may physically write is recorded in `written` or in `reads`; no nested block
moves the pointer (while `subShift = false`). -/
def PhysInv (s : Rebuild w) : Prop :=
  s.subShift = false → nsL s.insts ∧ ∀ v, tgtL s.insts v → v ∈ mKeys s.written ∨ v ∈ s.reads

/-- Syntactic physical frame ⇒ frame along the footprint (for any notion of validity). -/
theorem footFrameV_of_phys {V : State w → Prop} {s s' : Rebuild w} {new : List (Instr w)}
    (h : s'.subShift = false → nsL new ∧ ∀ v, tgtL new v → v ∈ mKeys s'.written ∨ v ∈ s'.reads) :
    FootFrameV V s s' new := by
  intro hs K _ σ1 σ2 _ _ b hex
  obtain ⟨hns, hph⟩ := h hs
  obtain ⟨p, m⟩ := phys_frame hex b rfl hns
  refine ⟨p, fun v h1 h2 => m v (fun ht => ?_)⟩
  rcases hph v ht with h' | h'
  · exact h1 h'
  · exact h2 h'

end OptProof
end Hpbf
