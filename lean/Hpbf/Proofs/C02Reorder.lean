/-
C02, part 1: `parameter_reordering` preserves the semantics of every single instruction EXACTLY.

Why the hypothesis "no `memZero` operand".  `Loc.memZero m` is read-AND-CLEAR: reading it changes the
state, so the order in which the two sources of `add`/`mul` are read is observable, e.g.
`add (tmp 0) (memZero 0) (mem 0)` computes `v + 0` but `add (tmp 0) (mem 0) (memZero 0)` computes `v + v`
(`memZero_order_matters` below, by `decide`).  The generator runs `parameter_reordering` BEFORE
`zeroing_move_detection`, the only pass that creates `memZero`, so the hypothesis holds there.

Without `memZero` every operand read is pure (`rdSt` is the identity), therefore
* the two-operand form `op<Dst, Src>` chosen by `sameDst dst src0` (which reads `src1` FIRST and then `dst`)
  and the three-operand form `op2` (which reads `src0` first) compute the same value
  `f (rdVal src0) (rdVal src1)` (`binopCfg_pure`): whether `reorderComm` makes `sameDst` true or false by
  moving `dst` into first position is immaterial;
* swapping the sources of the commutative `add`/`mul` is the identity on the result (`BitVec.add_comm`,
  `BitVec.mul_comm`); `sub` is never swapped (only `sub x imm ↦ add x (-imm)`, the same function
  `x + (-imm)` in the model as in `wrapping_sub`/`wrapping_add (wrapping_neg)`).
-/
import Hpbf.Proofs.C02Base

namespace Hpbf
namespace C02

open Bc BcWf BcGen C11

variable {w : Nat}

/-! ### the hypothesis -/

def locNoZero : Loc w → Bool
  | .memZero _ => false
  | _ => true

/-- No operand of the instruction is a read-and-clear location. -/
def noMemZero : Instr w → Bool
  | .add d a b => locNoZero d && locNoZero a && locNoZero b
  | .sub d a b => locNoZero d && locNoZero a && locNoZero b
  | .mul d a b => locNoZero d && locNoZero a && locNoZero b
  | .copy d s => locNoZero d && locNoZero s
  | _ => true

abbrev NoMemZero (ins : Instr w) : Prop := noMemZero ins = true

/-! ### pure operand reads -/

theorem rdSt_noZero (s : State w) {l : Loc w} (h : locNoZero l = true) : rdSt s l = s := by
  cases l <;> simp_all [rdSt, locNoZero]

theorem rdVal_st (c : Cfg w) (l : Loc w) : rdVal { c with st := c.st } l = rdVal c l := rfl

/-- Without `memZero` sources both emitted forms of a binary operation compute `f src0 src1`. -/
theorem binopCfg_pure (f : BitVec w → BitVec w → BitVec w) (c : Cfg w) (d a b : Loc w)
    (ha : locNoZero a = true) (hb : locNoZero b = true) :
    binopCfg f c d a b = wrCfg c (f (rdVal c a) (rdVal c b)) d := by
  unfold binopCfg
  by_cases h : sameDst d a = true
  · have hd := sameDst_eq h
    subst hd
    simp only [h, if_true, rdSt_noZero _ ha, rdSt_noZero _ hb]
  · simp only [h, rdSt_noZero _ ha, rdSt_noZero _ hb]
    rfl

theorem binopCfg_comm (f : BitVec w → BitVec w → BitVec w) (hf : ∀ x y, f x y = f y x) (c : Cfg w)
    (d a b : Loc w) (ha : locNoZero a = true) (hb : locNoZero b = true) :
    binopCfg f c d b a = binopCfg f c d a b := by
  rw [binopCfg_pure f c d a b ha hb, binopCfg_pure f c d b a hb ha, hf]

theorem reorderComm_cases (d a b : Loc w) :
    reorderComm d a b = (a, b) ∨ reorderComm d a b = (b, a) := by
  unfold reorderComm
  cases a <;> cases b <;> simp only [isImm] <;> (repeat' split) <;> simp_all <;> grind

theorem arith_comm (f : BitVec w → BitVec w → BitVec w) (hf : ∀ x y, f x y = f y x) (c : Cfg w)
    (d a b : Loc w) (ha : locNoZero a = true) (hb : locNoZero b = true) :
    arith c f d (reorderComm d a b).1 (reorderComm d a b).2 = arith c f d a b := by
  rcases reorderComm_cases d a b with h | h <;> rw [h]
  simp only [arith, binopCfg_comm f hf c d a b ha hb]

/-- The program enters `stepI` only through its size. -/
theorem stepI_size {p q : Program w} (h : q.insts.size = p.insts.size) (limited : Bool) (c : Cfg w)
    (ins : Instr w) : stepI q limited c ins = stepI p limited c ins := by
  cases ins <;> simp only [stepI, branch, h]

theorem arith_imm_imm (f : BitVec w → BitVec w → BitVec w) (c : Cfg w) (d : Loc w) (x y : BitVec w) :
    arith c f d (.imm x) (.imm y) =
      (if isDst d then .next { copyCfg c d (.imm (f x y)) with pc := c.pc + 1 } else .bad c) := by
  simp only [arith, binopCfg_pure f c d (.imm x) (.imm y) rfl rfl, copyCfg, rdVal, rdSt]

theorem arith_sub_imm (c : Cfg w) (d a : Loc w) (k : BitVec w) (ha : locNoZero a = true) :
    arith c (fun x y => x + (-y)) d a (.imm k) = arith c (· + ·) d a (.imm (-k)) := by
  simp only [arith, binopCfg_pure _ c d a (.imm k) ha rfl, binopCfg_pure _ c d a (.imm (-k)) ha rfl, rdVal]

/-- `reorderInst` preserves the semantics of the instruction exactly. -/
theorem stepI_reorderInst (p : Program w) (limited : Bool) (c : Cfg w) (ins : Instr w)
    (hz : NoMemZero ins) : stepI p limited c (reorderInst ins) = stepI p limited c ins := by
  have hadd : ∀ x y : BitVec w, x + y = y + x := BitVec.add_comm
  have hmul : ∀ x y : BitVec w, x * y = y * x := BitVec.mul_comm
  cases ins with
  | noop => rfl
  | mov sh => rfl
  | scan cond sh => rfl
  | inp dst => rfl
  | out src => rfl
  | brz cond off => rfl
  | brnz cond off => rfl
  | copy d s => rfl
  | add d a b =>
    simp only [NoMemZero, noMemZero, Bool.and_eq_true] at hz
    obtain ⟨⟨_, ha⟩, hb⟩ := hz
    have key := arith_comm (· + ·) hadd c d a b ha hb
    cases a <;> cases b <;> first
      | (simp only [reorderInst, stepI, arith_imm_imm]; done)
      | (simp only [reorderInst, stepI]; exact key)
  | mul d a b =>
    simp only [NoMemZero, noMemZero, Bool.and_eq_true] at hz
    obtain ⟨⟨_, ha⟩, hb⟩ := hz
    have key := arith_comm (· * ·) hmul c d a b ha hb
    cases a <;> cases b <;> first
      | (simp only [reorderInst, stepI, arith_imm_imm]; done)
      | (simp only [reorderInst, stepI]; exact key)
  | sub d a b =>
    simp only [NoMemZero, noMemZero, Bool.and_eq_true] at hz
    obtain ⟨⟨_, ha⟩, hb⟩ := hz
    cases b with
    | imm k =>
      have key := arith_comm (· + ·) hadd c d a (.imm (-k)) ha rfl
      have hs := arith_sub_imm c d a k ha
      cases a <;> first
        | (simp only [reorderInst, stepI, arith_imm_imm]; done)
        | (simp only [reorderInst, stepI, hs]; exact key)
    | mem o => cases a <;> rfl
    | memZero o => cases a <;> rfl
    | tmp t => cases a <;> rfl

theorem noMemZero_reorderInst {ins : Instr w} (hz : NoMemZero ins) : NoMemZero (reorderInst ins) := by
  have comm : ∀ d a b : Loc w, locNoZero d = true → locNoZero a = true → locNoZero b = true →
      (locNoZero d && locNoZero (reorderComm d a b).1 && locNoZero (reorderComm d a b).2) = true := by
    intro d a b hd ha hb
    rcases reorderComm_cases d a b with h | h <;> rw [h] <;> simp [hd, ha, hb]
  cases ins with
  | noop => rfl
  | mov sh => rfl
  | scan cond sh => rfl
  | inp dst => rfl
  | out src => rfl
  | brz cond off => rfl
  | brnz cond off => rfl
  | copy d s => exact hz
  | add d a b =>
    simp only [NoMemZero, noMemZero, Bool.and_eq_true] at hz
    obtain ⟨⟨hd, ha⟩, hb⟩ := hz
    have key := comm d a b hd ha hb
    cases a <;> cases b <;> first
      | (simp only [reorderInst, NoMemZero, noMemZero, hd]; rfl)
      | (simp only [reorderInst, NoMemZero, noMemZero]; exact key)
  | mul d a b =>
    simp only [NoMemZero, noMemZero, Bool.and_eq_true] at hz
    obtain ⟨⟨hd, ha⟩, hb⟩ := hz
    have key := comm d a b hd ha hb
    cases a <;> cases b <;> first
      | (simp only [reorderInst, NoMemZero, noMemZero, hd]; rfl)
      | (simp only [reorderInst, NoMemZero, noMemZero]; exact key)
  | sub d a b =>
    simp only [NoMemZero, noMemZero, Bool.and_eq_true] at hz
    obtain ⟨⟨hd, ha⟩, hb⟩ := hz
    cases b with
    | imm k =>
      have key := comm d a (.imm (-k)) hd ha rfl
      cases a <;> first
        | (simp only [reorderInst, NoMemZero, noMemZero, hd]; rfl)
        | (simp only [reorderInst, NoMemZero, noMemZero]; exact key)
    | mem o => cases a <;> simp [reorderInst, NoMemZero, noMemZero, hd, ha, hb]
    | memZero o => cases a <;> simp [reorderInst, NoMemZero, noMemZero, hd, ha, hb]
    | tmp t => cases a <;> simp [reorderInst, NoMemZero, noMemZero, hd, ha, hb]

/-! ### program level -/

theorem getElem?_none_of_size {α : Type} {a b : Array α} (h : a.size = b.size) {i : Nat}
    (hi : a[i]? = none) : b[i]? = none := by
  rw [Array.getElem?_eq_none_iff] at hi ⊢
  omega

/-- Required theorem 1a: replacing instruction `i` by its reordered form changes no step of the program
(for every configuration, in particular those whose pc is `i`). -/
theorem reorderInst_step (p : Program w) (limited : Bool) (c : Cfg w) (i : Nat) (ins : Instr w)
    (hi : p.insts[i]? = some ins) (hz : NoMemZero ins) :
    step { p with insts := p.insts.setIfInBounds i (reorderInst ins) } limited c = step p limited c := by
  have hsz : (p.insts.setIfInBounds i (reorderInst ins)).size = p.insts.size := Array.size_setIfInBounds ..
  cases hpc : p.insts[c.pc]? with
  | none =>
    have hq : (p.insts.setIfInBounds i (reorderInst ins))[c.pc]? = none :=
      getElem?_none_of_size hsz.symm hpc
    unfold step
    simp only [hpc, hq, hsz]
  | some ins' =>
    have hlt : c.pc < p.insts.size := C11.getElem?_lt hpc
    by_cases hci : i = c.pc
    · subst hci
      have : ins' = ins := by rw [hi] at hpc; exact (Option.some.inj hpc).symm
      subst this
      have hq : ({ p with insts := p.insts.setIfInBounds c.pc (reorderInst ins') } : Program w).insts[c.pc]?
          = some (reorderInst ins') := by
        simp [hlt]
      rw [step_eq hq, step_eq hpc, stepI_size (p := p) hsz, stepI_reorderInst p limited c ins' hz]
    · have hq : ({ p with insts := p.insts.setIfInBounds i (reorderInst ins) } : Program w).insts[c.pc]?
          = some ins' := by
        simp [hci, hpc]
      rw [step_eq hq, step_eq hpc, stepI_size (p := p) hsz]

/-- Reordering every instruction changes no step. -/
theorem map_reorderInst_step (p q : Program w) (hq : q.insts = p.insts.map reorderInst)
    (hz : ∀ ins ∈ p.insts, NoMemZero ins) (limited : Bool) (c : Cfg w) :
    step q limited c = step p limited c := by
  have hsz : q.insts.size = p.insts.size := by rw [hq, Array.size_map]
  cases hpc : p.insts[c.pc]? with
  | none =>
    have hq' : q.insts[c.pc]? = none := getElem?_none_of_size hsz.symm hpc
    unfold step
    simp only [hpc, hq', hsz]
  | some ins =>
    have hq' : q.insts[c.pc]? = some (reorderInst ins) := by
      rw [hq, Array.getElem?_map, hpc]; rfl
    rw [step_eq hq', step_eq hpc, stepI_size hsz,
      stepI_reorderInst p limited c ins (hz ins (Array.mem_of_getElem? hpc))]

theorem map_reorderInst_run (p q : Program w) (hq : q.insts = p.insts.map reorderInst)
    (hz : ∀ ins ∈ p.insts, NoMemZero ins) (limited : Bool) (b fuel : Nat) (env : Env) :
    Bc.run q limited b fuel env = Bc.run p limited b fuel env := by
  have hrun : ∀ (fuel : Nat) (c : Cfg w), runCfg q limited fuel c = runCfg p limited fuel c := by
    intro fuel
    induction fuel with
    | zero => intro c; rfl
    | succ n ih =>
      intro c
      simp only [runCfg, map_reorderInst_step p q hq hz]
      cases step p limited c <;> simp only [ih]
  unfold Bc.run
  simp only [hrun]

/-- The generator state seen as a program (the other fields are irrelevant: `run_fields_irrelevant`). -/
def progOf (s : St w) (temps : Nat) (minAcc maxAcc : Int) : Program w :=
  { temps := temps, minAcc := minAcc, maxAcc := maxAcc, live := s.live, insts := s.insts }

/-- Even stronger than `BehEq`: the runs are EQUAL (same fuel, same outcome including pc and temporaries). -/
theorem parameterReordering_run_eq (s : St w) (hz : ∀ ins ∈ s.insts, NoMemZero ins) (t : Nat)
    (mn mx : Int) (limited : Bool) (b fuel : Nat) (env : Env) :
    Bc.run (progOf (parameterReordering s) t mn mx) limited b fuel env
      = Bc.run (progOf s t mn mx) limited b fuel env :=
  map_reorderInst_run (progOf s t mn mx) (progOf (parameterReordering s) t mn mx) rfl hz limited b fuel env

/-- Required theorem 1b. -/
theorem parameterReordering_preserves (s : St w) (hz : ∀ ins ∈ s.insts, NoMemZero ins) (t : Nat)
    (mn mx : Int) : BehEq (progOf s t mn mx) (progOf (parameterReordering s) t mn mx) := by
  constructor <;> intro limited b fuel env <;> refine ⟨fuel, ?_⟩
  · rw [parameterReordering_run_eq s hz]; exact ObsEq'.refl _
  · rw [parameterReordering_run_eq s hz]; exact ObsEq'.refl _

theorem parameterReordering_noMemZero (s : St w) (hz : ∀ ins ∈ s.insts, NoMemZero ins) :
    ∀ ins ∈ (parameterReordering s).insts, NoMemZero ins := by
  intro ins hin
  simp only [parameterReordering, Array.mem_map] at hin
  obtain ⟨a, ha, rfl⟩ := hin
  exact noMemZero_reorderInst (hz a ha)

theorem parameterReordering_live (s : St w) : (parameterReordering s).live = s.live := rfl
theorem parameterReordering_size (s : St w) : (parameterReordering s).insts.size = s.insts.size := by
  simp [parameterReordering]

/-! ### the hypothesis is necessary -/

/-- With a read-and-clear operand the read order is observable: the two orders of the same two sources
give different results (`[0] = 3`: `3 + 0` versus `3 + 3`). -/
def exOrderA : Program 8 :=
  { temps := 1, minAcc := 0, maxAcc := 0, live := #[0, 0],
    insts := #[.copy (.mem 0) (.imm 3#8), .add (.tmp 0) (.memZero 0) (.mem 0)] }
def exOrderB : Program 8 :=
  { exOrderA with insts := #[.copy (.mem 0) (.imm 3#8), .add (.tmp 0) (.mem 0) (.memZero 0)] }

def finalTmp0 (o : Outcome 8) : BitVec 8 := tget o.cfg.temps 0

theorem memZero_order_matters :
    finalTmp0 (Bc.run exOrderA false 0 5 default) = 3#8 ∧
    finalTmp0 (Bc.run exOrderB false 0 5 default) = 6#8 := by decide +kernel

/-- … and `reorderInst` does swap such operands (a `tmp` first source is moved behind a non-`tmp` one). -/
example : reorderInst (.add (.tmp 1) (.tmp 0) (.memZero 0) : Instr 8) = .add (.tmp 1) (.memZero 0) (.tmp 0) := by
  decide

/-! ### non-vacuity -/

example : reorderInst (.add (.mem 0) (.imm 3#8) (.imm 4#8) : Instr 8) = .copy (.mem 0) (.imm 7#8) := by decide
example : reorderInst (.sub (.mem 0) (.mem 0) (.imm 1#8) : Instr 8) = .add (.mem 0) (.mem 0) (.imm 255#8) := by
  decide
example : reorderInst (.add (.mem 0) (.tmp 1) (.mem 0) : Instr 8) = .add (.mem 0) (.mem 0) (.tmp 1) := by decide
example : reorderInst (.mul (.tmp 2) (.tmp 1) (.tmp 0) : Instr 8) = .mul (.tmp 2) (.tmp 0) (.tmp 1) := by decide
example : reorderInst (.add (.tmp 0) (.imm 1#8) (.tmp 0) : Instr 8) = .add (.tmp 0) (.tmp 0) (.imm 1#8) := by
  decide

end C02
end Hpbf
