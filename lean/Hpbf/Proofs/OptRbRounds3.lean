/-
Rebuild-round proofs, stage 4: `Program::optimize` at EVERY level under an executable test.

A later round works on the dead-store-eliminated output `prog1` of the previous round with the analysis `anal`
that round recorded.  `PrevAnalSound env prog1 anal` is the semantic soundness of that analysis for `prog1` on the
run from `env` (`AnalInL`, Hpbf/Proofs/OptRbAnalIn.lean); it is implied by the executable test
`checkAnalIn N prog1 anal env = true` (Hpbf/Proofs/OptRbAnalCheck.lean).  Under it the round preserves the
observable behaviour and justifies its `once` marks (`laterRound_ok`, from `optimizeOnce_preserves_g` /
`optimizeOnce_onceOk_g`), so all levels are correct for every run on which the test `optimizeCheck` passes.
-/
import Hpbf.Proofs.OptRbRounds2
import Hpbf.Proofs.OptRbTopG
import Hpbf.Proofs.OptRbAnalCheck
import Hpbf.Proofs.OptRbDseShape

namespace Hpbf
namespace OptProof
open Opt OptSem Ir

variable {w : Nat}

/-- The semantic hypothesis on the analysis a later round uses. -/
def PrevAnalSound (env : Env) (prog1 : Block w) (anal : OptAnalysis w) : Prop :=
  AnalInL (fun σ => σ = State.init env) prog1.insts anal.subBlocks

theorem prevAnalSound_of_check {env : Env} {prog1 : Block w} {anal : OptAnalysis w} (N : Nat)
    (h : checkAnalIn N prog1 anal env = true) : PrevAnalSound env prog1 anal :=
  analIn_of_check N h

/-- The top node a round records says `atMostOnce`. -/
theorem optimizeOnce_anal_amo {b : Block w} {prevAnal : OptAnalysis w} {os os' : Orders} {b' : Block w}
    {anal' : OptAnalysis w} (hr : (optimizeOnce b prevAnal).run os = .ok ((b', anal'), os')) :
    anal'.loopAnal.atMostOnce = true := by
  unfold optimizeOnce at hr
  rw [run_bind_ok] at hr
  obtain ⟨st, os1, _, h2⟩ := hr
  rw [run_pure] at h2
  cases h2
  exact atMostOnceOf_amo true

/-- **A round that uses the analysis of the previous round**, under `PrevAnalSound`. -/
theorem laterRound_ok (hw : 0 < w) {env : Env} {prog1 : Block w} {anal : OptAnalysis w} {prog2 : Block w}
    {anal2 : OptAnalysis w} {os os2 : Orders} (hp : AfterDse env prog1 anal)
    (ha : PrevAnalSound env prog1 anal)
    (hr : (optimizeOnce prog1 anal).run os = .ok ((prog2, anal2), os2)) :
    CanonL prog1.insts ∧ BehEq prog1 prog2 env ∧ C02Emit.OnceOk prog2 env := by
  obtain ⟨prog, ⟨_, b0, prev, os0, os0', hcl0, hr0⟩, hd⟩ := hp
  obtain ⟨_, hcl1, _, hs1, _, _⟩ := round_then_dse hr0 hcl0 hd
  have hamo := optimizeOnce_anal_amo hr0
  exact ⟨hcl1, optimizeOnce_preserves_g hw hcl1 hamo hs1 ha hr, optimizeOnce_onceOk_g hw hcl1 hamo hs1 ha hr⟩

/-! ### the executable test along the loop of `optimize` -/

/-- Replays the loop of `optimize` (`optimizeRounds`) and tests `checkAnalIn` on the input of every round. -/
def roundsCheck (N : Nat) (env : Env) : Nat → Block w → OptAnalysis w → Orders → Bool
  | 0, _, _, _ => true
  | n + 1, prog, anal, os =>
    match deadStoreElimination prog anal with
    | .ok prog1 =>
      checkAnalIn N prog1 anal env &&
        (match (optimizeOnce prog1 anal).run os with
         | .ok ((prog2, anal2), os2) => roundsCheck N env n prog2 anal2 os2
         | .error _ => true)
    | .error _ => true

/-- The test for a whole run of `optimize`: fuel `N` for each replay of a program from `env`. -/
def optimizeCheck (N : Nat) (b : Block w) (level : Nat) (orders : Orders) (env : Env) : Bool :=
  if level = 0 then true
  else
    match (optimizeOnce b (topAnalysis [] [])).run orders with
    | .ok ((prog, anal), os1) => roundsCheck N env (min level 3 - 1) prog anal os1
    | .error _ => true

theorem optimizeRounds_of_check (hw : 0 < w) {env : Env} (N : Nat) (n : Nat) :
    ∀ (prog b' : Block w) (anal : OptAnalysis w) (os os' : Orders), AfterRound env prog anal →
      (optimizeRounds n prog anal).run os = .ok (b', os') → roundsCheck N env n prog anal os = true →
      BehEq prog b' env ∧ C02Emit.OnceOk b' env := by
  induction n with
  | zero =>
    intro prog b' anal os os' hp h _
    obtain ⟨rfl, _⟩ := optimizeRounds_zero_ok.1 h
    exact ⟨BehEq.refl _ _, hp.1⟩
  | succ n ih =>
    intro prog b' anal os os' hp h hc
    obtain ⟨prog1, prog2, anal2, os2, hd, h3, h4⟩ := optimizeRounds_succ_ok.1 h
    obtain ⟨ho, b0, prev, os0, os0', hcl0, hr0⟩ := hp
    have e1 : BehEq prog prog1 env := round_dse_behEq hr0 hcl0 ho hd
    rw [roundsCheck, hd] at hc
    simp only [h3, Bool.and_eq_true] at hc
    obtain ⟨hc1, hc2⟩ := hc
    have hpd : AfterDse env prog1 anal := ⟨prog, ⟨ho, b0, prev, os0, os0', hcl0, hr0⟩, hd⟩
    obtain ⟨hcl1, e2, ho2⟩ := laterRound_ok hw hpd (prevAnalSound_of_check N hc1) h3
    obtain ⟨e3, ho3⟩ := ih prog2 b' anal2 os2 os' ⟨ho2, prog1, anal, os, os2, hcl1, h3⟩ h4 hc2
    exact ⟨(e1.trans e2).trans e3, ho3⟩

/-- **`Program::optimize` preserves the observable behaviour at every level, on every run for which the
executable test passes.** -/
theorem optimize_preserves_of_check (hw : 0 < w) {env : Env} (N : Nat) {b b' : Block w}
    (hcl : CanonL b.insts) {level : Nat} {orders : Orders}
    (h : Opt.optimize b level orders = .ok b') (hc : optimizeCheck N b level orders env = true) :
    BehEq b b' env := by
  rw [optimize_ok_iff] at h
  cases level with
  | zero =>
    rw [optimizeM_zero, run_pure] at h
    cases h
    exact BehEq.refl _ _
  | succ n =>
    rw [optimizeM_succ, run_bind_ok] at h
    obtain ⟨⟨prog, anal⟩, os1, h1, h2⟩ := h
    have e1 := optimizeOnce_preserves_l1 hw hcl h1 env
    unfold optimizeCheck at hc
    simp only [Nat.succ_ne_zero, if_false, h1] at hc
    exact e1.trans (optimizeRounds_of_check hw N _ prog b' anal os1 []
      ⟨optimizeOnce_onceOk_l1 hw hcl h1 env, b, _, orders, os1, hcl, h1⟩ h2 hc).1

/-- The `once` marks of the final program are justified (levels ≥ 1), on every run for which the test passes. -/
theorem optimize_onceOk_of_check (hw : 0 < w) {env : Env} (N : Nat) {b b' : Block w}
    (hcl : CanonL b.insts) {level : Nat} (hl : level ≠ 0) {orders : Orders}
    (h : Opt.optimize b level orders = .ok b') (hc : optimizeCheck N b level orders env = true) :
    C02Emit.OnceOk b' env := by
  rw [optimize_ok_iff] at h
  cases level with
  | zero => exact absurd rfl hl
  | succ n =>
    rw [optimizeM_succ, run_bind_ok] at h
    obtain ⟨⟨prog, anal⟩, os1, h1, h2⟩ := h
    unfold optimizeCheck at hc
    simp only [Nat.succ_ne_zero, if_false, h1] at hc
    exact (optimizeRounds_of_check hw N _ prog b' anal os1 []
      ⟨optimizeOnce_onceOk_l1 hw hcl h1 env, b, _, orders, os1, hcl, h1⟩ h2 hc).2

/-- The same with the semantic hypothesis for all inputs of later rounds. -/
theorem optimize_preserves_of_prevAnalSound (hw : 0 < w) {env : Env}
    (hA : ∀ (prog1 : Block w) (anal : OptAnalysis w), AfterDse env prog1 anal → PrevAnalSound env prog1 anal)
    {b b' : Block w} (hcl : CanonL b.insts) {level : Nat} {orders : Orders}
    (h : Opt.optimize b level orders = .ok b') : BehEq b b' env :=
  optimize_preserves_of_laterRounds hw
    (fun prog1 anal _ _ _ _ hp hr => laterRound_ok hw hp (hA prog1 anal hp) hr) hcl h

end OptProof
end Hpbf

#print axioms Hpbf.OptProof.laterRound_ok
#print axioms Hpbf.OptProof.optimize_preserves_of_check
#print axioms Hpbf.OptProof.optimize_onceOk_of_check
#print axioms Hpbf.OptProof.optimize_preserves_of_prevAnalSound
