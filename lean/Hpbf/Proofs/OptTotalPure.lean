/-
Totality of the optimizer model, part 2: the `Except` computations that never fail:
`evalPending` (`eval_pending … unwrap`), `compare` / `compareParent` / `compareWritten`, `splitAlong`
(`find(..).unwrap()`, `linear[lin_var]`), `loopMotion`, `deadStoreElimination` on well-shaped input.
-/
import Hpbf.Proofs.OptTotalDefs
import Hpbf.Proofs.OptLoopSplit

namespace Hpbf
namespace OptTotal
open Opt OptProof

variable {w : Nat}

/-- `eval_pending`: the closure handed to `symb_evaluate` never returns `None`, so the `unwrap` cannot fail. -/
theorem evalPending_ok (s : Rebuild w) (ps : List (Rebuild w)) (shift : Int) (e : Expr w) :
    Ok (evalPending s ps shift e) := by
  unfold evalPending
  split
  · have hsome : (Expr.symbEvaluate e (fun x => some (getPending s ps (x + shift)))).isSome := by
      rw [C15.symbEvaluate_defined]
      intro v _
      rfl
    cases hs : Expr.symbEvaluate e (fun x => some (getPending s ps (x + shift))) with
    | none => rw [hs] at hsome; cases hsome
    | some e' => exact ⟨e', rfl⟩
  · split
    · exact ⟨_, rfl⟩
    · exact ⟨_, rfl⟩

/-- `compare` (recursion along the parent chain) never fails. -/
theorem compare_ok : ∀ (ps : List (Rebuild w)) (s : Rebuild w) (a b : Expr w), Ok (compare s ps a b) := by
  intro ps
  induction ps with
  | nil =>
    intro s a b
    unfold Opt.compare
    split
    · exact ⟨_, rfl⟩
    · refine Ok.bind (evalPending_ok s [] 0 a) (fun a' _ => ?_)
      refine Ok.bind (evalPending_ok s [] 0 b) (fun b' _ => ?_)
      split
      · exact ⟨_, rfl⟩
      · split
        · split
          · exact ⟨_, rfl⟩
          · split
            · split
              all_goals first | exact ⟨_, rfl⟩ | (rename_i h; cases h)
            · exact ⟨_, rfl⟩
        · exact ⟨_, rfl⟩
  | cons p ps ih =>
    intro s a b
    unfold Opt.compare
    split
    · exact ⟨_, rfl⟩
    · refine Ok.bind (evalPending_ok s (p :: ps) 0 a) (fun a' _ => ?_)
      refine Ok.bind (evalPending_ok s (p :: ps) 0 b) (fun b' _ => ?_)
      split
      · exact ⟨_, rfl⟩
      · split
        · split
          · exact ⟨_, rfl⟩
          · split
            · split
              · exact ⟨_, rfl⟩
              · rename_i heq
                cases heq
                exact ih _ _ _
              · exact ⟨_, rfl⟩
            · exact ⟨_, rfl⟩
        · exact ⟨_, rfl⟩

theorem compareParent_ok (s : Rebuild w) (ps : List (Rebuild w)) (a b : Expr w) :
    Ok (compareParent s ps a b) := by
  unfold compareParent
  split
  · exact ⟨_, rfl⟩
  · split
    · split
      · exact ⟨_, rfl⟩
      · exact compare_ok _ _ _ _
      · exact ⟨_, rfl⟩
    · exact ⟨_, rfl⟩

theorem compareWritten_ok (s : Rebuild w) (ps : List (Rebuild w)) (a b : Expr w) :
    Ok (compareWritten s ps a b) := by
  unfold compareWritten
  split
  · exact ⟨_, rfl⟩
  · split
    · exact compareParent_ok _ _ _ _
    · exact ⟨_, rfl⟩

/-- One step of `split_along`: `find(..).unwrap()` is guarded by the count test, `linear[lin_var]` by the `all`
test. -/
theorem splitStep_ok (constant : List Int) (linear : List (Int × Expr w))
    (acc : Expr w × Expr w × List (Expr w × Expr w)) (part : Part w) :
    Ok (OptLoop.splitStep constant linear acc part) := by
  unfold OptLoop.splitStep
  split
  · exact ⟨_, rfl⟩
  · split
    · rename_i hc
      simp only [Bool.and_eq_true, beq_iff_eq] at hc
      obtain ⟨hall, hlen⟩ := hc
      split
      · rename_i hnone
        exfalso
        have hf : part.vars.filter (fun x => !constant.contains x) = [] := by
          rw [List.filter_eq_nil_iff]
          intro x hx
          have := List.find?_eq_none.1 hnone x hx
          exact this
        rw [hf] at hlen
        cases hlen
      · rename_i linVar hfind
        have hq : (!constant.contains linVar) = true :=
          List.find?_some (p := fun x => !constant.contains x) hfind
        have hmem : linVar ∈ part.vars := List.mem_of_find?_eq_some hfind
        have h1 := List.all_eq_true.1 hall linVar hmem
        have hnc : constant.contains linVar = false := by simpa using hq
        rw [hnc, Bool.false_or] at h1
        split
        · rename_i hnone
          exfalso
          unfold mHas at h1
          rw [hnone] at h1
          cases h1
        · exact ⟨_, rfl⟩
    · exact ⟨_, rfl⟩

theorem splitAlong_ok (e : Expr w) (constant : List Int) (linear : List (Int × Expr w)) :
    Ok (splitAlong e constant linear) := by
  rw [OptLoop.splitAlong_eq]
  exact (Ok.foldlM (fun _ => True) _ e (fun b x _ _ => ⟨splitStep_ok constant linear b x, fun _ _ => trivial⟩)
    trivial).1

/-- `loop_motion` never fails. -/
theorem loopMotion_ok (s : Rebuild w) (ps : List (Rebuild w)) (var : Int) (p : Expr w) (complete : Bool)
    (reads C : List Int) (lin : List (Int × Expr w)) (otherPending : List Int) (L : OptLoop w) :
    Ok (loopMotion s ps var p complete reads C lin otherPending L) := by
  unfold loopMotion
  split
  · exact ⟨_, rfl⟩
  · refine Ok.bind (OptLoop.reduceConst_total s ps p C) (fun p' _ => ?_)
    dsimp only
    split
    · exact ⟨_, rfl⟩
    · split
      · split
        · exact ⟨_, rfl⟩
        · split
          · exact ⟨_, rfl⟩
          · split
            · refine Ok.bind (splitAlong_ok _ _ _) (fun x _ => ?_)
              exact ⟨_, rfl⟩
            · split
              · exact ⟨_, rfl⟩
              · split
                · exact ⟨_, rfl⟩
                · split
                  · exact ⟨_, rfl⟩
                  · exact ⟨_, rfl⟩
      · exact ⟨_, rfl⟩

#print axioms compare_ok
#print axioms loopMotion_ok

end OptTotal
end Hpbf
