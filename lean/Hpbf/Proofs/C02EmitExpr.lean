/-
C02 (first phase), part 2: `Expr::codegen` (`getExprValue`) computes `Expr.evaluate`, and a `calc`
instruction (`calcValues` then `memWrites`) implements the simultaneous assignment `Ir.doCalc`.
-/
import Hpbf.Proofs.C02EmitVal

namespace Hpbf
namespace C02Emit
open BcGen Bc Sim Expr

variable {w : Nat}

/-- Result of a code generating function: straight-line extension, the result is a value number whose
temporary holds `F state`. -/
structure Out (g g' : G w) (r : Nat) (F : State w → BitVec w) : Prop where
  sl : SL g g'
  lt : r < g'.n
  val : Val g' r F

theorem Out.prepend {g g1 g2 : G w} (h : SL g g1) {r : Nat} {F : State w → BitVec w} (o : Out g1 g2 r F) :
    Out g g2 r F := ⟨h.trans o.sl, o.lt, o.val⟩

theorem Out.congr {g g' : G w} {r : Nat} {F F' : State w → BitVec w} (o : Out g g' r F)
    (h : ∀ st, F st = F' st) : Out g g' r F' :=
  ⟨o.sl, o.lt, fun c hs => (o.val c hs).trans (h _)⟩

theorem gv_imm {v : BitVec w} {s s' : St w} {r : Nat} (h : getValue (.imm v) s = .ok (r, s'))
    (hw : WfV (core s)) : Out (core s) (core s') r (fun _ => v) := by
  obtain ⟨h1, h2, h3⟩ := getValue_SL h hw trivial
  exact ⟨h1, h2, Val.of_get h3 (fun _ _ => rfl)⟩

theorem gv_mem {v : Int} {s s' : St w} {r : Nat} (h : getValue (.mem v) s = .ok (r, s'))
    (hw : WfV (core s)) : Out (core s) (core s') r (fun st => st.rd v) := by
  obtain ⟨h1, h2, h3⟩ := getValue_SL h hw trivial
  exact ⟨h1, h2, Val.of_get h3 (fun _ _ => rfl)⟩

theorem gv_add {a b : Nat} {s s' : St w} {r : Nat} (h : getValue (.add a b) s = .ok (r, s'))
    (hw : WfV (core s)) {Fa Fb : State w → BitVec w} (ha : a < (core s).n) (hb : b < (core s).n)
    (va : Val (core s) a Fa) (vb : Val (core s) b Fb) :
    Out (core s) (core s') r (fun st => Fa st + Fb st) := by
  obtain ⟨h1, h2, h3⟩ := getValue_SL h hw ⟨ha, hb⟩
  refine ⟨h1, h2, Val.of_get h3 (fun c hs => ?_)⟩
  simp only [den, (va.mono h1) c hs, (vb.mono h1) c hs]

theorem gv_sub {a b : Nat} {s s' : St w} {r : Nat} (h : getValue (.sub a b) s = .ok (r, s'))
    (hw : WfV (core s)) {Fa Fb : State w → BitVec w} (ha : a < (core s).n) (hb : b < (core s).n)
    (va : Val (core s) a Fa) (vb : Val (core s) b Fb) :
    Out (core s) (core s') r (fun st => Fa st + (- Fb st)) := by
  obtain ⟨h1, h2, h3⟩ := getValue_SL h hw ⟨ha, hb⟩
  refine ⟨h1, h2, Val.of_get h3 (fun c hs => ?_)⟩
  simp only [den, (va.mono h1) c hs, (vb.mono h1) c hs]

theorem gv_mul {a b : Nat} {s s' : St w} {r : Nat} (h : getValue (.mul a b) s = .ok (r, s'))
    (hw : WfV (core s)) {Fa Fb : State w → BitVec w} (ha : a < (core s).n) (hb : b < (core s).n)
    (va : Val (core s) a Fa) (vb : Val (core s) b Fb) :
    Out (core s) (core s') r (fun st => Fa st * Fb st) := by
  obtain ⟨h1, h2, h3⟩ := getValue_SL h hw ⟨ha, hb⟩
  refine ⟨h1, h2, Val.of_get h3 (fun c hs => ?_)⟩
  simp only [den, (va.mono h1) c hs, (vb.mono h1) c hs]

/-! ### products -/

theorem codegenVars_spec : ∀ (vs : List Int) (result : Nat) {s s' : St w} {r : Nat}
    {F : State w → BitVec w}, codegenVars result vs s = .ok (r, s') → WfV (core s) →
    result < (core s).n → Val (core s) result F →
    Out (core s) (core s') r (fun st => F st * mono st.rd vs) := by
  intro vs
  induction vs with
  | nil =>
    intro result s s' r F h hw hlt hv
    simp only [codegenVars, pure_ok] at h
    obtain ⟨rfl, rfl⟩ := h
    exact ⟨SL.refl _, hlt, fun c hs => by simp [hv c hs]⟩
  | cons v vs ih =>
    intro result s s' r F h hw hlt hv
    simp only [codegenVars, bind_ok] at h
    obtain ⟨m, s1, h1, r1, s2, h2, h3⟩ := h
    have o1 := gv_mem h1 hw
    have hw1 := o1.sl.wf hw
    have o2 := gv_mul h2 hw1 (Nat.lt_of_lt_of_le hlt o1.sl.n_le) o1.lt (hv.mono o1.sl) o1.val
    have hw2 := o2.sl.wf hw1
    have o3 := ih r1 h3 hw2 o2.lt o2.val
    refine ((o3.prepend o2.sl).prepend o1.sl).congr (fun st => ?_)
    simp only [mono_cons, BitVec.mul_assoc]

/-- What `codegen_part` leaves in its result: the monomial without the coefficient `-1`. -/
def partVal (p : Part w) (st : State w) : BitVec w :=
  if isNegVar p then mono st.rd p.vars else p.coef * mono st.rd p.vars

theorem codegenPart_spec (var : Int) (p : Part w) {s s' : St w} {r : Nat}
    (h : codegenPart var p s = .ok (r, s')) (hw : WfV (core s)) :
    Out (core s) (core s') r (partVal p) := by
  unfold codegenPart at h
  have hperm := stableSort_perm (fun a b => decide (ordering var a ≤ ordering var b)) p.vars
  generalize stableSort (fun a b => decide (ordering var a ≤ ordering var b)) p.vars = sorted at h hperm
  cases sorted with
  | nil =>
    have hnil : p.vars = [] := List.Perm.eq_nil hperm.symm
    have o := gv_imm h hw
    refine o.congr (fun st => ?_)
    simp [partVal, isNegVar, hnil]
  | cons v0 vs =>
    have hne : p.vars ≠ [] := by
      intro e; rw [e] at hperm; exact List.cons_ne_nil _ _ (List.Perm.eq_nil hperm)
    have hmono : ∀ st : State w, mono st.rd p.vars = st.rd v0 * mono st.rd vs := fun st => by
      rw [← mono_perm st.rd hperm]; rfl
    simp only [bind_ok] at h
    obtain ⟨r0, s1, h1, r1, s2, h2, h3⟩ := h
    have o1 := gv_mem h1 hw
    have hw1 := o1.sl.wf hw
    have o2 := (codegenVars_spec vs r0 h2 hw1 o1.lt o1.val).prepend o1.sl
    have hw2 := o2.sl.wf hw
    have hemp : p.vars.isEmpty = false := by
      cases hv : p.vars with
      | nil => exact absurd hv hne
      | cons _ _ => rfl
    split at h3
    · rename_i hc
      simp only [pure_ok] at h3
      obtain ⟨rfl, rfl⟩ := h3
      refine o2.congr (fun st => ?_)
      simp only [partVal, isNegVar, hemp, Bool.not_false, Bool.true_and, decide_eq_true_eq, hmono]
      split
      · rfl
      · rename_i hn
        simp only [Bool.or_eq_true, decide_eq_true_eq] at hc
        rcases hc with hc | hc
        · rw [hc]; simp
        · exact absurd hc hn
    · rename_i hc
      simp only [bind_ok] at h3
      obtain ⟨im, s3, h4, h5⟩ := h3
      have o3 := gv_imm h4 hw2
      have hw3 := o3.sl.wf hw2
      have o4 := gv_mul h5 hw3 (Nat.lt_of_lt_of_le o2.lt o3.sl.n_le) o3.lt (o2.val.mono o3.sl) o3.val
      refine ((o4.prepend o3.sl).prepend o2.sl).congr (fun st => ?_)
      have : isNegVar p = false := by
        simp only [isNegVar, hemp, Bool.not_false, Bool.true_and, decide_eq_false_iff_not]
        intro e
        apply hc
        simp [e]
      simp only [partVal, this, hmono, Bool.false_eq_true, if_false]
      exact BitVec.mul_comm _ _

theorem partVal_neg {p : Part w} (h : isNegVar p = true) (st : State w) :
    - partVal p st = evalPart st.rd p := by
  have hc : p.coef = -1#w := by
    simp only [isNegVar, Bool.and_eq_true, decide_eq_true_eq] at h; exact h.2
  simp only [partVal, h, if_true, evalPart_eq, hc]
  rw [BitVec.neg_mul, BitVec.one_mul]

theorem partVal_pos {p : Part w} (h : isNegVar p = false) (st : State w) :
    partVal p st = evalPart st.rd p := by
  simp only [partVal, h, Bool.false_eq_true, if_false, evalPart_eq]

/-! ### sums -/

theorem codegenRest_spec (var : Int) : ∀ (ps : List (Part w)) (result : Nat) {s s' : St w} {r : Nat}
    {F : State w → BitVec w}, codegenRest var result ps s = .ok (r, s') → WfV (core s) →
    result < (core s).n → Val (core s) result F →
    Out (core s) (core s') r (fun st => F st + evaluate ps st.rd) := by
  intro ps
  induction ps with
  | nil =>
    intro result s s' r F h hw hlt hv
    simp only [codegenRest, pure_ok] at h
    obtain ⟨rfl, rfl⟩ := h
    exact ⟨SL.refl _, hlt, fun c hs => by simp [hv c hs]⟩
  | cons p ps ih =>
    intro result s s' r F h hw hlt hv
    simp only [codegenRest, bind_ok] at h
    obtain ⟨pr, s1, h1, h⟩ := h
    have o1 := codegenPart_spec var p h1 hw
    have hw1 := o1.sl.wf hw
    have hlt1 := Nat.lt_of_lt_of_le hlt o1.sl.n_le
    obtain ⟨r1, s2, o2, h3⟩ : ∃ r1 s2, Out (core s1) (core s2) r1 (fun st => F st + evalPart st.rd p) ∧
        codegenRest var r1 ps s2 = .ok (r, s') := by
      cases hn : isNegVar p with
      | true =>
        simp only [hn, if_true, bind_ok] at h
        obtain ⟨r1, s2, h2, h3⟩ := h
        refine ⟨r1, s2, (gv_sub h2 hw1 hlt1 o1.lt (hv.mono o1.sl) o1.val).congr (fun st => ?_), h3⟩
        rw [partVal_neg hn]
      | false =>
        simp only [hn, Bool.false_eq_true, if_false, bind_ok] at h
        obtain ⟨r1, s2, h2, h3⟩ := h
        refine ⟨r1, s2, (gv_add h2 hw1 hlt1 o1.lt (hv.mono o1.sl) o1.val).congr (fun st => ?_), h3⟩
        rw [partVal_pos hn]
    have hw2 := o2.sl.wf hw1
    have o3 := ih r1 h3 hw2 o2.lt o2.val
    refine ((o3.prepend o2.sl).prepend o1.sl).congr (fun st => ?_)
    simp only [evaluate_cons, BitVec.add_assoc]

theorem orderParts_perm (var : Int) (e : Expr w) : (orderParts var e).Perm e := by
  unfold orderParts
  have hperm := stableSort_perm (fun a b : Part w => decide (partKey var a ≤ partKey var b)) e
  generalize stableSort (fun a b : Part w => decide (partKey var a ≤ partKey var b)) e = sorted at hperm
  cases sorted with
  | nil => exact hperm
  | cons p0 rest =>
    simp only []
    split
    · split
      · rename_i idx hidx
        split
        · rename_i pi hpi
          refine List.Perm.trans ?_ hperm
          have hlt : idx < (p0 :: rest).length := by
            have := lt_of_get hpi
            simpa using this
          have e1 : pi = (p0 :: rest)[idx] := by
            have : (p0 :: rest)[idx]? = some pi := by simpa using hpi
            rw [List.getElem?_eq_getElem hlt] at this
            exact (Option.some.inj this).symm
          have := List.set_set_perm (as := p0 :: rest) (i := 0) (j := idx) (by simp) hlt
          simpa [e1] using this
        · exact hperm
      · exact hperm
    · exact hperm

theorem getExprValue_spec (e : Expr w) (var : Int) {s s' : St w} {r : Nat}
    (h : getExprValue e var s = .ok (r, s')) (hw : WfV (core s)) :
    Out (core s) (core s') r (fun st => evaluate e st.rd) := by
  unfold getExprValue at h
  have hperm := orderParts_perm var e
  generalize orderParts var e = parts at h hperm
  cases parts with
  | nil =>
    have : e = [] := List.Perm.eq_nil hperm.symm
    subst this
    exact (gv_imm h hw).congr (fun st => rfl)
  | cons p0 ps =>
    simp only [bind_ok] at h
    obtain ⟨r0, s1, h1, h⟩ := h
    have o1 := codegenPart_spec var p0 h1 hw
    have hw1 := o1.sl.wf hw
    obtain ⟨r1, s2, o2, h3⟩ : ∃ r1 s2, Out (core s1) (core s2) r1 (fun st => evalPart st.rd p0) ∧
        codegenRest var r1 ps s2 = .ok (r, s') := by
      cases hn : isNegVar p0 with
      | true =>
        simp only [hn, if_true, bind_ok] at h
        obtain ⟨z, s3, h4, r1, s2, h5, h3⟩ := h
        have o3 := gv_imm h4 hw1
        have hw3 := o3.sl.wf hw1
        have o4 := gv_sub h5 hw3 o3.lt (Nat.lt_of_lt_of_le o1.lt o3.sl.n_le) o3.val (o1.val.mono o3.sl)
        refine ⟨r1, s2, (o4.prepend o3.sl).congr (fun st => ?_), h3⟩
        rw [partVal_neg hn]; simp
      | false =>
        simp only [hn, Bool.false_eq_true, if_false, pure_bind'] at h
        exact ⟨r0, s1, ⟨SL.refl _, o1.lt, fun c hs => (o1.val c hs).trans (partVal_pos hn _)⟩, h⟩
    have hw2 := o2.sl.wf hw1
    have o3 := codegenRest_spec var ps r1 h3 hw2 o2.lt o2.val
    refine ((o3.prepend o2.sl).prepend o1.sl).congr (fun st => ?_)
    rw [← evaluate_cons, evaluate_perm st.rd hperm]

end C02Emit
end Hpbf
